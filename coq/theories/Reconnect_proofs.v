(* Reconnect_proofs.v — proofs about the reconnect loop model (C09). Statements are re-exported
   in props/C09.v. *)
From MQ Require Import Base Codec Reconnect.
Open Scope Z_scope.

(* ================= 1. time.Duration arithmetic and the back-off rule ================= *)

Definition two62 : Z := 4611686018427387904.

Lemma wrap64_id z : - two63 <= z < two63 -> wrap64 z = z.
Proof. unfold wrap64, two63. intros H. lia. Qed.

Lemma pow2_pos k : 0 < 2 ^ Z.of_nat k.
Proof. apply Z.pow_pos_nonneg; lia. Qed.

Lemma pow2_succ k : 2 ^ Z.of_nat (S k) = 2 * 2 ^ Z.of_nat k.
Proof. rewrite Nat2Z.inj_succ, Z.pow_succ_r by lia. reflexivity. Qed.

(* the doubling step of the code computes the closed form, without overflow, whenever
   0 < base < 2^62 and 0 <= max < 2^62 *)
Lemma next_wait_rule base max k :
  0 < base < two62 -> 0 <= max < two62 ->
  next_wait max (wait_rule base max k) = wait_rule base max (S k).
Proof.
  intros Hb Hm. unfold next_wait, two62 in *.
  destruct k as [|k].
  - cbn [wait_rule]. rewrite wrap64_id by (unfold two63; lia).
    change (2 ^ Z.of_nat 1) with 2.
    destruct (base * 2 >? max) eqn:E; lia.
  - cbn [wait_rule]. rewrite (pow2_succ (S k)).
    pose proof (pow2_pos (S k)) as Hp.
    set (p := 2 ^ Z.of_nat (S k)) in *.
    assert (Hbp : 0 < base * p) by nia.
    rewrite wrap64_id by (unfold two63; lia).
    destruct (Z.min (base * p) max * 2 >? max) eqn:E; nia.
Qed.

Lemma wait_rule_no_overflow base max k :
  0 < base < two62 -> 0 <= max < two62 ->
  - two63 <= wait_rule base max k * 2 < two63.
Proof.
  intros Hb Hm. unfold two62, two63 in *. destruct k as [|k]; cbn [wait_rule]; [lia|].
  pose proof (pow2_pos (S k)). nia.
Qed.

(* "at least the base delay, at least doubling up to the maximum" *)
Lemma wait_rule_bounds base max k :
  0 < base -> base <= max ->
  base <= wait_rule base max k <= max /\
  wait_rule base max (S k) = Z.min (2 * wait_rule base max k) max.
Proof.
  intros Hb Hm. destruct k as [|k].
  - cbn [wait_rule]. change (2 ^ Z.of_nat 1) with 2. lia.
  - cbn [wait_rule]. rewrite (pow2_succ (S k)). pose proof (pow2_pos (S k)). nia.
Qed.

(* ================= 2. list projections over concatenations ================= *)

Lemma waits_app a b : waits (a ++ b) = waits a ++ waits b.
Proof. induction a as [|x a IH]; [reflexivity|]. destruct x; cbn [waits app]; rewrite ?IH; reflexivity. Qed.

Lemma dials_app a b : dials (a ++ b) = dials a ++ dials b.
Proof. induction a as [|x a IH]; [reflexivity|]. destruct x; cbn [dials app]; rewrite ?IH; reflexivity. Qed.

Lemma one_open_from_app o a b :
  one_open_from o (a ++ b) = one_open_from o a && one_open_from (live_from o a) b.
Proof.
  revert o; induction a as [|x a IH]; intros o; [reflexivity|].
  destruct x; cbn [one_open_from live_from app]; try apply IH.
  destruct o; [apply IH | reflexivity].
Qed.

Lemma live_from_app o a b : live_from o (a ++ b) = live_from (live_from o a) b.
Proof. revert o; induction a as [|x a IH]; intros o; [reflexivity|]. destruct x; cbn [live_from app]; apply IH. Qed.

Lemma conn_ok_app c p a b : conn_ok c p a = true -> conn_ok c p (a ++ b) = conn_ok c None b.
Proof.
  revert p; induction a as [|x a IH]; intros p H.
  - destruct p; [discriminate | reflexivity].
  - destruct p as [k|]; destruct x; cbn [conn_ok app] in *; try discriminate; try (apply IH; exact H).
    apply andb_true_iff in H as [H1 H2]. rewrite H1. cbn [andb]. apply IH; exact H2.
Qed.

Lemma after_first_app_none p a b : existsb p a = false -> after_first p (a ++ b) = after_first p b.
Proof.
  induction a as [|x a IH]; intros H; [reflexivity|].
  cbn [existsb] in H. apply orb_false_iff in H as [H1 H2]. cbn [after_first app]. rewrite H1. apply IH; exact H2.
Qed.

Lemma after_first_app_some p a b post : after_first p a = Some post -> after_first p (a ++ b) = Some (post ++ b).
Proof.
  induction a as [|x a IH]; intros H; [discriminate|].
  cbn [after_first app] in *. destruct (p x); [injection H as <-; reflexivity | apply IH; exact H].
Qed.

Lemma after_first_none p a : existsb p a = false -> after_first p a = None.
Proof.
  induction a as [|x a IH]; intros H; [reflexivity|].
  cbn [existsb] in H. apply orb_false_iff in H as [H1 H2]. cbn [after_first]. rewrite H1. apply IH; exact H2.
Qed.

(* events produced by a landing: only EvStop / EvPanic *)
Definition stopish (e : ev) : bool := match e with EvStop _ | EvPanic => true | _ => false end.

Lemma stopish_waits e : forallb stopish e = true -> waits e = [].
Proof. induction e as [|x e IH]; [reflexivity|]. cbn [forallb]. intros H. apply andb_true_iff in H as [H1 H2]. destruct x; try discriminate; cbn [waits]; apply IH; exact H2. Qed.

Lemma stopish_no_exit e : forallb stopish e = true -> existsb is_exit e = false.
Proof. induction e as [|x e IH]; [reflexivity|]. cbn [forallb existsb]. intros H. apply andb_true_iff in H as [H1 H2]. destruct x; try discriminate; cbn [is_exit orb]; apply IH; exact H2. Qed.

(* events that do not touch dials, transports or packets *)
Definition tailq (e : ev) : bool :=
  match e with EvStop _ | EvPanic | EvExit | EvDiscReturned | EvWait _ => true | _ => false end.

Lemma stopish_tailq e : forallb stopish e = true -> forallb tailq e = true.
Proof. induction e as [|x e IH]; [reflexivity|]. cbn [forallb]. intros H. apply andb_true_iff in H as [H1 H2]. destruct x; try discriminate; cbn [tailq andb]; apply IH; exact H2. Qed.

Lemma tailq_dials e : forallb tailq e = true -> dials e = [].
Proof. induction e as [|x e IH]; [reflexivity|]. cbn [forallb]. intros H. apply andb_true_iff in H as [H1 H2]. destruct x; try discriminate; cbn [dials]; apply IH; exact H2. Qed.

Lemma tailq_no_dial e : forallb tailq e = true -> existsb is_dial e = false.
Proof. induction e as [|x e IH]; [reflexivity|]. cbn [forallb existsb]. intros H. apply andb_true_iff in H as [H1 H2]. destruct x; try discriminate; cbn [is_dial orb]; apply IH; exact H2. Qed.

Lemma tailq_one_open o e r : forallb tailq e = true -> one_open_from o (e ++ r) = one_open_from o r.
Proof. induction e as [|x e IH]; [reflexivity|]. cbn [forallb]. intros H. apply andb_true_iff in H as [H1 H2]. destruct x; try discriminate; cbn [one_open_from app]; apply IH; exact H2. Qed.

Lemma tailq_live o e r : forallb tailq e = true -> live_from o (e ++ r) = live_from o r.
Proof. induction e as [|x e IH]; [reflexivity|]. cbn [forallb]. intros H. apply andb_true_iff in H as [H1 H2]. destruct x; try discriminate; cbn [live_from app]; apply IH; exact H2. Qed.

Lemma tailq_conn_ok c e r : forallb tailq e = true -> conn_ok c None (e ++ r) = conn_ok c None r.
Proof. induction e as [|x e IH]; [reflexivity|]. cbn [forallb]. intros H. apply andb_true_iff in H as [H1 H2]. destruct x; try discriminate; cbn [conn_ok app]; apply IH; exact H2. Qed.

(* ================= 3. what a landing does ================= *)

Definition core_eq (st st' : lstate) : Prop :=
  l_wait st' = l_wait st /\ l_first st' = l_first st /\ l_started st' = l_started st /\
  l_k st' = l_k st /\ l_iter st' = l_iter st.

Definition nodisc (e : list ev) : bool := negb (existsb (is_stop SDisconnect) e).
Definition nocancel (e : list ev) : bool := negb (existsb (is_stop SCancel) e).

Lemma land_none cfg sc i ph st :
  cancel_here sc i ph = false -> disc_here sc i ph = None -> land cfg sc i ph st = (st, [], false).
Proof. intros Hc Hd. unfold land. rewrite Hc, Hd. reflexivity. Qed.

Lemma land_spec cfg sc i ph st st' e cr :
  land cfg sc i ph st = (st', e, cr) ->
  core_eq st st' /\ forallb stopish e = true /\
  (l_disc st = true -> l_disc st' = true) /\
  (c_guard cfg = true -> cr = false /\ existsb is_panic e = false) /\
  (l_started st = true -> cr = false) /\
  (* Disconnect: not here / landed here / crashed *)
  ((cr = false /\ l_disc st' = l_disc st /\ l_task st' = l_task st /\ nodisc e = true) \/
   (cr = false /\ l_disc st' = true /\ exists e0, e = e0 ++ [EvStop SDisconnect] /\ nodisc e0 = true /\
       (ph = PWait -> l_started st = true -> l_task st' = DRan)) \/
   cr = true) /\
  (* cancellation: not here / landed here *)
  ((cancel_here sc i ph = false /\ l_cancel st' = l_cancel st /\ nocancel e = true) \/
   (cancel_here sc i ph = true /\ l_cancel st' = true /\ exists e1, e = EvStop SCancel :: e1 /\ nocancel e1 = true)).
Proof.
  unfold land, core_eq, nodisc, nocancel, disc_effect. intros H.
  destruct (cancel_here sc i ph); destruct (disc_here sc i ph) as [tf|];
    destruct st as [w f s d c t k it]; cbn [l_started set_cancel] in H;
    try destruct s; try destruct (c_guard cfg); try destruct ph; try destruct tf;
    injection H as <- <- <-; cbn;
    (split; [repeat split; reflexivity|]); (split; [reflexivity|]); (split; [intros; first [reflexivity | assumption]|]);
    (split; [intros; first [discriminate | split; reflexivity]|]); (split; [intros; first [discriminate | reflexivity]|]);
    (split;
     [ first
       [ solve [left; repeat split; reflexivity]
       | solve [right; left; split; [reflexivity|]; split; [reflexivity|]; exists (@nil ev); split; [reflexivity|]; split; [reflexivity|];
                intros; first [reflexivity | discriminate | congruence]]
       | solve [right; left; split; [reflexivity|]; split; [reflexivity|]; exists [EvStop SCancel]; split; [reflexivity|]; split; [reflexivity|];
                intros; first [reflexivity | discriminate | congruence]]
       | solve [right; right; reflexivity] ]
     | first
       [ solve [left; repeat split; reflexivity]
       | solve [right; split; [reflexivity|]; split; [reflexivity|]; eexists; split; reflexivity] ] ]).
Qed.

(* ================= 4. shape of the wait phase and of one iteration ================= *)

Lemma wp_shape cfg sc evs st e r :
  wait_phase cfg sc evs st = (e, r) ->
  exists st1 e1 cr, land cfg sc (l_iter st) PWait st = (st1, e1, cr) /\
    ((cr = true /\ r = Crashed /\ e = evs ++ e1) \/
     (cr = false /\ r = Exited st1 /\ e = evs ++ e1 ++ exit_events st1 /\
        (l_disc st1 = true \/ (l_cancel st1 = true /\ l_first st1 = false))) \/
     (cr = false /\ r = Running (next_iter (next_wait (c_max cfg) (l_wait st1)) st1) /\
        e = evs ++ e1 ++ [EvWait (l_wait st1)] /\ l_disc st1 = false /\
        (l_cancel st1 = false \/ l_first st1 = true))).
Proof.
  unfold wait_phase. destruct (land cfg sc (l_iter st) PWait st) as [[st1 e1] cr] eqn:L.
  intros H. exists st1, e1, cr. split; [reflexivity|].
  destruct cr.
  - injection H as <- <-. left; auto.
  - destruct (l_disc st1) eqn:D.
    + injection H as <- <-. right; left; auto.
    + destruct (l_cancel st1) eqn:C; destruct (l_first st1) eqn:F; cbn [andb negb] in H; injection H as <- <-.
      * right; right; repeat split; auto.
      * right; left; repeat split; auto.
      * right; right; repeat split; auto.
      * right; right; repeat split; auto.
Qed.

Lemma exit_events_facts st :
  waits (exit_events st) = [] /\ forallb tailq (exit_events st) = true /\
  existsb is_panic (exit_events st) = false /\ existsb is_exit (exit_events st) = true /\
  (l_disc st = true -> existsb is_ret (exit_events st) = true) /\
  existsb (is_stop SDisconnect) (exit_events st) = false /\
  existsb (is_stop SCancel) (exit_events st) = false.
Proof. unfold exit_events. destruct (l_disc st); cbn; repeat split; auto; discriminate. Qed.

(* unfold one iteration into its landings *)
Ltac land_dest :=
  match goal with
  | H : context [land ?cfg ?sc ?i ?ph ?st] |- _ =>
    let st' := fresh "stL" in let e := fresh "evL" in let cr := fresh "crL" in let L := fresh "L" in
    let Lc := fresh "Lc" in let Ls := fresh "Ls" in let Ld := fresh "Ld" in let Lg := fresh "Lg" in
    let Lst := fresh "Lst" in let Ldi := fresh "Ldi" in let Lca := fresh "Lca" in
    let L' := fresh "LS" in
    destruct (land cfg sc i ph st) as [[st' e] cr] eqn:L; pose proof (land_spec _ _ _ _ _ _ _ _ L) as L';
    destruct L' as (Lc & Ls & Ld & Lg & Lst & Ldi & Lca)
  end.

Ltac iter_cases H :=
  unfold iteration in H; land_dest;
  match type of H with
  | (if ?c then _ else _) = _ => destruct c
  end;
  [ | match type of H with context [match ?o with ODialErr => _ | _ => _ end] => destruct o as [|cf|ce] end;
      [ | unfold dial_ok in H; land_dest;
          match type of H with (if ?c then _ else _) = _ => destruct c end;
          [ | let Bk := fresh "Bk" in match type of H with (if ?c then _ else _) = _ => destruct c eqn:Bk end ]
        | unfold dial_ok in H; land_dest;
          match type of H with (if ?c then _ else _) = _ => destruct c end;
          [ | land_dest; match type of H with (if ?c then _ else _) = _ => destruct c end ] ] ].

(* the wait phase appends only neutral events; a continuing loop moves to the next iteration *)
Lemma wp_tail cfg sc evs st e r :
  wait_phase cfg sc evs st = (e, r) ->
  exists tail, e = evs ++ tail /\ forallb tailq tail = true /\
    match r with
    | Running st' => waits tail = [l_wait st] /\ l_wait st' = next_wait (c_max cfg) (l_wait st) /\
                     l_iter st' = S (l_iter st) /\ l_k st' = l_k st /\ l_first st' = l_first st /\
                     l_started st' = l_started st /\ existsb is_exit tail = false
    | _ => waits tail = []
    end.
Proof.
  intros H. apply wp_shape in H as (st1 & e1 & cr & L & H).
  apply land_spec in L as (Lc & Ls & _ & _ & _ & _ & _).
  destruct Lc as (Cw & Cf & Cs & Ck & Ci).
  pose proof (exit_events_facts st1) as (Xw & Xq & _).
  destruct H as [(-> & -> & ->) | [(-> & -> & -> & _) | (-> & -> & -> & _)]].
  - exists e1. repeat split; [apply stopish_tailq; exact Ls | apply stopish_waits; exact Ls].
  - exists (e1 ++ exit_events st1). repeat split.
    + rewrite forallb_app, (stopish_tailq _ Ls), Xq. reflexivity.
    + rewrite waits_app, (stopish_waits _ Ls), Xw. reflexivity.
  - exists (e1 ++ [EvWait (l_wait st1)]). split; [reflexivity|]. split.
    + rewrite forallb_app, (stopish_tailq _ Ls). reflexivity.
    + cbn [next_iter l_wait l_iter l_k l_first l_started]. rewrite waits_app, (stopish_waits _ Ls), Cw, Ci, Ck, Cf, Cs.
      repeat split. rewrite existsb_app, (stopish_no_exit _ Ls). reflexivity.
Qed.

(* ================= 5. per-iteration facts ================= *)

Ltac norm_apps := repeat rewrite <- app_assoc; cbn [app].

Definition wait_used (cfg : config) (st : lstate) (o : outcome) : Z :=
  if is_success o then c_base cfg else l_wait st.

(* 5.1 the wait of an iteration *)
Ltac sw :=
  repeat first [rewrite waits_app | progress cbn [waits app]];
  repeat match goal with H : forallb stopish ?e = true |- context [waits ?e] => rewrite (stopish_waits e H) end;
  cbn [app].

Lemma it_waits cfg sc st o e r :
  iteration cfg sc st o = (e, r) ->
  match r with
  | Running st' => waits e = [wait_used cfg st o] /\
                   l_wait st' = next_wait (c_max cfg) (wait_used cfg st o)
  | _ => waits e = []
  end.
Proof.
  intros H. unfold wait_used. iter_cases H.
  - injection H as <- <-. sw. reflexivity.
  - apply wp_tail in H as (tail & -> & Tq & T). destruct Lc as (Cw & _).
    destruct r; cbn [is_success]; sw; [destruct T as (-> & -> & _); rewrite Cw; auto | exact T | exact T | exact T].
  - injection H as <- <-. sw. reflexivity.
  - injection H as <- <-. sw. reflexivity.
  - apply wp_tail in H as (tail & -> & Tq & T). destruct Lc as (Cw & _). destruct Lc0 as (Cw0 & _).
    assert (Hw : l_wait (match l_task stL0 with DQueued => set_task DRan stL0 | _ => stL0 end) = l_wait st)
      by (destruct (l_task stL0); cbn [set_task l_wait]; rewrite Cw0; cbn [set_client l_wait]; exact Cw).
    cbn [is_success].
    destruct r; sw; [destruct T as (-> & -> & _); rewrite Hw; auto | exact T | exact T | exact T].
  - injection H as <- <-. sw. reflexivity.
  - injection H as <- <-. sw. reflexivity.
  - destruct Lc1 as (Cw1 & _).
    pose proof (exit_events_facts stL1) as (Xw & _).
    destruct (l_disc stL1).
    + injection H as <- <-. destruct (l_task stL1); sw; exact Xw.
    + destruct ce.
      1-4: apply wp_tail in H as (tail & -> & Tq & T); cbn [is_success];
        (destruct r; sw; [destruct T as (-> & -> & _); rewrite Cw1; cbn [set_first set_wait l_wait]; auto | exact T | exact T | exact T]).
      injection H as <- <-. sw. exact Xw.
Qed.

Lemma tailq_one_open_nil o e : forallb tailq e = true -> one_open_from o e = true.
Proof. intros H. rewrite <- (app_nil_r e), (tailq_one_open o e [] H). reflexivity. Qed.
Lemma tailq_live_nil o e : forallb tailq e = true -> live_from o e = o.
Proof. intros H. rewrite <- (app_nil_r e), (tailq_live o e [] H). reflexivity. Qed.
Lemma tailq_conn_nil c e : forallb tailq e = true -> conn_ok c None e = true.
Proof. intros H. rewrite <- (app_nil_r e), (tailq_conn_ok c e [] H). reflexivity. Qed.

Ltac tq_hyps :=
  repeat match goal with
         | H : forallb stopish ?e = true |- _ =>
           lazymatch goal with
           | _ : forallb tailq e = true |- _ => fail
           | _ => pose proof (stopish_tailq e H)
           end
         end.

Ltac sd :=
  repeat first [rewrite dials_app | progress cbn [dials app]];
  repeat match goal with H : forallb tailq ?e = true |- context [dials ?e] => rewrite (tailq_dials e H) end;
  cbn [app].

Ltac so :=
  repeat first
    [ progress cbn [one_open_from live_from app filter negb]
    | rewrite <- app_assoc
    | rewrite Nat.eqb_refl
    | match goal with H : forallb tailq ?e = true |- context [one_open_from ?o (?e ++ ?r)] => rewrite (tailq_one_open o e r H) end
    | match goal with H : forallb tailq ?e = true |- context [live_from ?o (?e ++ ?r)] => rewrite (tailq_live o e r H) end
    | match goal with H : forallb tailq ?e = true |- context [one_open_from ?o ?e] => rewrite (tailq_one_open_nil o e H) end
    | match goal with H : forallb tailq ?e = true |- context [live_from ?o ?e] => rewrite (tailq_live_nil o e H) end ].

Lemma connect_eqb_refl c : connect_eqb c c = true.
Proof.
  unfold connect_eqb. rewrite !N.eqb_refl, !Bool.eqb_reflx, !str_eqb_refl. cbn [andb].
  destruct (c_will c) as [w|]; cbn [option_eqb]; [|reflexivity].
  unfold will_eqb. rewrite !str_eqb_refl, N.eqb_refl, Bool.eqb_reflx. reflexivity.
Qed.

Ltac sc :=
  repeat first
    [ progress cbn [conn_ok app andb]
    | rewrite <- app_assoc
    | rewrite Nat.eqb_refl
    | rewrite connect_eqb_refl
    | match goal with H : forallb tailq ?e = true |- context [conn_ok ?c None (?e ++ ?r)] => rewrite (tailq_conn_ok c e r H) end
    | match goal with H : forallb tailq ?e = true |- context [conn_ok ?c None ?e] => rewrite (tailq_conn_nil c e H) end ].

Ltac sx :=
  repeat first [rewrite existsb_app | progress cbn [existsb is_exit app orb]];
  repeat match goal with H : forallb stopish ?e = true |- context [existsb is_exit ?e] => rewrite (stopish_no_exit e H) end;
  cbn [orb].

(* 5.2 dials, transports and CONNECT packets of one iteration *)
Lemma it_struct cfg sc st o e r :
  iteration cfg sc st o = (e, r) ->
  dials e = [l_iter st] /\ one_open_from [] e = true /\ conn_ok (c_conn cfg) None e = true /\
  match r with
  | Running st' => live_from [] e = [] /\ l_iter st' = S (l_iter st) /\ existsb is_exit e = false
  | _ => True
  end.
Proof.
  intros H. iter_cases H; tq_hyps.
  - injection H as <- <-. repeat split; [sd | so | sc]; reflexivity.
  - apply wp_tail in H as (tail & -> & Tq & T). destruct Lc as (_ & _ & _ & _ & Ci).
    repeat split; [sd; reflexivity | so; reflexivity | sc; reflexivity |].
    destruct r; [|exact I|exact I|exact I]. destruct T as (_ & _ & Ti & _ & _ & _ & Tx).
    repeat split; [so; reflexivity | rewrite Ti, Ci; reflexivity | sx; exact Tx].
  - injection H as <- <-. norm_apps. repeat split; [sd | so | sc]; reflexivity.
  - injection H as <- <-. norm_apps. repeat split; [sd | so | sc]; reflexivity.
  - apply wp_tail in H as (tail & -> & Tq & T).
    destruct Lc as (_ & _ & _ & _ & Ci). destruct Lc0 as (_ & _ & _ & _ & Ci0).
    assert (Hi : l_iter (match l_task stL0 with DQueued => set_task DRan stL0 | _ => stL0 end) = l_iter st)
      by (destruct (l_task stL0); cbn [set_task l_iter]; rewrite Ci0; cbn [set_client l_iter]; exact Ci).
    norm_apps. repeat split; [sd; reflexivity | so; reflexivity | sc; reflexivity |].
    destruct r; [|exact I|exact I|exact I]. destruct T as (_ & _ & Ti & _ & _ & _ & Tx).
    repeat split; [so; reflexivity | rewrite Ti, Hi; reflexivity | sx; exact Tx].
  - injection H as <- <-. norm_apps. repeat split; [sd | so | sc]; reflexivity.
  - injection H as <- <-. norm_apps. repeat split; [sd | so | sc]; reflexivity.
  - destruct Lc as (_ & _ & _ & _ & Ci). destruct Lc0 as (_ & _ & _ & _ & Ci0). destruct Lc1 as (_ & _ & _ & _ & Ci1).
    pose proof (exit_events_facts stL1) as (_ & Xq & _).
    destruct (l_disc stL1).
    + injection H as <- <-. destruct (l_task stL1); norm_apps; (repeat split; [sd | so | sc]; reflexivity).
    + destruct ce.
      1-4: apply wp_tail in H as (tail & -> & Tq & T); norm_apps;
        (repeat split; [sd; reflexivity | so; reflexivity | sc; reflexivity |]);
        (destruct r; [|exact I|exact I|exact I]); destruct T as (_ & _ & Ti & _ & _ & _ & Tx);
        (repeat split; [so; reflexivity | rewrite Ti, Ci1; cbn [set_first set_wait l_iter]; rewrite Ci0; cbn [set_client l_iter]; exact (f_equal S Ci) | sx; exact Tx]).
      injection H as <- <-. norm_apps. repeat split; [sd | so | sc]; reflexivity.
Qed.

(* 5.3 stop events: where Disconnect / cancellation landed is visible both in the state and in the events *)
Definition safe_ev (e : ev) : bool := negb (is_dial e) && negb (is_panic e).

Lemma stopish_safe e : forallb stopish e = true -> existsb is_panic e = false -> forallb safe_ev e = true.
Proof.
  induction e as [|x e IH]; [reflexivity|]. cbn [forallb existsb]. intros H P.
  apply andb_true_iff in H as [H1 H2]. apply orb_false_iff in P as [P1 P2].
  rewrite (IH H2 P2). destruct x; try discriminate; reflexivity.
Qed.

Lemma land_eqs cfg sc i ph st st' e :
  land cfg sc i ph st = (st', e, false) ->
  l_disc st' = l_disc st || negb (nodisc e) /\ l_cancel st' = l_cancel st || negb (nocancel e).
Proof.
  unfold land, nodisc, nocancel, disc_effect. intros H.
  destruct (cancel_here sc i ph); destruct (disc_here sc i ph) as [tf|];
    destruct st as [w f s d c t k it]; cbn [l_started set_cancel] in H;
    try destruct s; try destruct (c_guard cfg); try destruct ph; try destruct tf;
    try discriminate; injection H as <- <-; cbn; rewrite ?orb_true_r, ?orb_false_r; split; reflexivity.
Qed.

Lemma nodisc_app a b : nodisc (a ++ b) = nodisc a && nodisc b.
Proof. unfold nodisc. rewrite existsb_app, negb_orb. reflexivity. Qed.
Lemma nocancel_app a b : nocancel (a ++ b) = nocancel a && nocancel b.
Proof. unfold nocancel. rewrite existsb_app, negb_orb. reflexivity. Qed.

Lemma exit_events_stops st : nodisc (exit_events st) = true /\ nocancel (exit_events st) = true /\ forallb safe_ev (exit_events st) = true.
Proof. unfold exit_events, nodisc, nocancel. destruct (l_disc st); repeat split; reflexivity. Qed.

Lemma wp_stop_facts cfg sc evs st e r :
  c_guard cfg = true -> wait_phase cfg sc evs st = (e, r) ->
  exists tail, e = evs ++ tail /\ forallb safe_ev tail = true /\
    match r with
    | Crashed => False
    | Blocked _ => False
    | Running s => l_disc s = l_disc st || negb (nodisc tail) /\ l_cancel s = l_cancel st || negb (nocancel tail) /\
                   l_disc s = false /\ (l_cancel s = false \/ l_first s = true) /\ l_first s = l_first st
    | Exited s => l_disc s = l_disc st || negb (nodisc tail) /\ l_cancel s = l_cancel st || negb (nocancel tail) /\
                  exists t', tail = t' ++ exit_events s
    end.
Proof.
  intros G H. apply wp_shape in H as (st1 & e1 & cr & L & H).
  pose proof (land_spec _ _ _ _ _ _ _ _ L) as (Lc & Ls & _ & Lg & _).
  destruct (Lg G) as (-> & Np). apply land_eqs in L as (Ed & Ec).
  pose proof (exit_events_stops st1) as (Xd & Xc & Xs).
  destruct Lc as (Cw & Cf & _).
  destruct H as [(F & _) | [(_ & -> & -> & _) | (_ & -> & -> & D & CF)]]; [discriminate | |].
  - exists (e1 ++ exit_events st1). split; [reflexivity|]. split.
    + rewrite forallb_app, (stopish_safe _ Ls Np), Xs. reflexivity.
    + rewrite nodisc_app, nocancel_app, Xd, Xc, !andb_true_r. repeat split; [exact Ed | exact Ec |].
      exists e1. reflexivity.
  - exists (e1 ++ [EvWait (l_wait st1)]). split; [reflexivity|]. split.
    + rewrite forallb_app, (stopish_safe _ Ls Np). reflexivity.
    + cbn [next_iter l_disc l_cancel l_first]. rewrite nodisc_app, nocancel_app.
      change (nodisc [EvWait (l_wait st1)]) with true. change (nocancel [EvWait (l_wait st1)]) with true.
      rewrite !andb_true_r. repeat split; auto.
Qed.

Lemma nodisc_cons x l : nodisc (x :: l) = negb (is_stop SDisconnect x) && nodisc l.
Proof. unfold nodisc. cbn [existsb]. rewrite negb_orb. reflexivity. Qed.
Lemma nocancel_cons x l : nocancel (x :: l) = negb (is_stop SCancel x) && nocancel l.
Proof. unfold nocancel. cbn [existsb]. rewrite negb_orb. reflexivity. Qed.

Lemma exit_nodisc st : nodisc (exit_events st) = true. Proof. apply exit_events_stops. Qed.
Lemma exit_nocancel st : nocancel (exit_events st) = true. Proof. apply exit_events_stops. Qed.
Lemma exit_safe st : forallb safe_ev (exit_events st) = true. Proof. apply exit_events_stops. Qed.

Ltac sn :=
  repeat first [ rewrite nodisc_app | rewrite nocancel_app | rewrite forallb_app
               | rewrite exit_nodisc | rewrite exit_nocancel | rewrite exit_safe
               | rewrite nodisc_cons | rewrite nocancel_cons
               | progress change (nodisc []) with true | progress change (nocancel []) with true
               | progress cbn [app forallb safe_ev is_dial is_panic is_stop negb andb] ].

Ltac bool_crush :=
  repeat match goal with
         | |- context [nodisc ?l] => destruct (nodisc l)
         | |- context [nocancel ?l] => destruct (nocancel l)
         | |- context [l_disc ?s] => destruct (l_disc s)
         | |- context [l_cancel ?s] => destruct (l_cancel s)
         end; try reflexivity.

Definition ends_with (E l : list ev) : Prop := exists t, l = t ++ E.
Lemma ends_with_refl E : ends_with E E.
Proof. exists []. reflexivity. Qed.
Lemma ends_with_app E a b : ends_with E b -> ends_with E (a ++ b).
Proof. intros [t ->]. exists (a ++ t). rewrite app_assoc. reflexivity. Qed.
Lemma ends_with_cons E x b : ends_with E b -> ends_with E (x :: b).
Proof. intros [t ->]. exists (x :: t). reflexivity. Qed.

Ltac ends := repeat first [apply ends_with_refl | apply ends_with_app | apply ends_with_cons].

Ltac safe_hyps :=
  repeat match goal with
         | Hs : forallb stopish ?e = true, Hp : existsb is_panic ?e = false |- _ =>
           lazymatch goal with
           | _ : forallb safe_ev e = true |- _ => fail
           | _ => pose proof (stopish_safe e Hs Hp)
           end
         end.

Ltac safe_goal :=
  sn; repeat match goal with H : forallb safe_ev ?e = true |- context [forallb safe_ev ?e] => rewrite H end; reflexivity.

Ltac rw_states :=
  repeat first
    [ progress cbn [set_first set_wait set_client set_task next_iter l_disc l_cancel]
    | match goal with
      | H : l_disc ?s = _ || _ |- context [l_disc ?s] => rewrite H
      | H : l_cancel ?s = _ || _ |- context [l_cancel ?s] => rewrite H
      end ].

Ltac eq_goal := rw_states; sn; bool_crush.

Ltac core_hyps := repeat match goal with H : core_eq _ _ |- _ => destruct H as (? & ? & ? & ? & ?) end.

Ltac first_goal :=
  intros; core_hyps; cbn [set_first set_wait set_client set_task next_iter l_first is_success] in *; first [discriminate | congruence].

Lemma blocks_true cfg f st :
  blocks cfg f st = true ->
  f = CNoConnack /\ (c_abort cfg = true -> l_disc st = false) /\ (l_cancel st = false \/ l_first st = true).
Proof.
  unfold blocks. destruct f; try discriminate. intros H. apply negb_true_iff in H.
  apply orb_false_iff in H as [H H3]. apply orb_false_iff in H as [_ H2]. split; [reflexivity|]. split.
  - intros A. rewrite A in H3. exact H3.
  - destruct (l_cancel st); [right | left; reflexivity]. destruct (l_first st); [reflexivity | discriminate].
Qed.

Lemma it_stop_facts cfg sc st o e r :
  c_guard cfg = true -> iteration cfg sc st o = (e, r) ->
  exists body, e = EvDial (l_iter st) :: body /\ forallb safe_ev body = true /\
    match r with
    | Crashed => False
    | Blocked s => l_disc s = l_disc st || negb (nodisc body) /\ l_cancel s = l_cancel st || negb (nocancel body) /\
                   (c_abort cfg = true -> l_disc s = false) /\ (l_cancel s = false \/ l_first s = true) /\
                   l_first s = l_first st
    | Running s => l_disc s = l_disc st || negb (nodisc body) /\ l_cancel s = l_cancel st || negb (nocancel body) /\
                   l_disc s = false /\ (l_cancel s = false \/ l_first s = true) /\
                   (is_success o = false -> l_first s = l_first st)
    | Exited s => l_disc s = l_disc st || negb (nodisc body) /\ l_cancel s = l_cancel st || negb (nocancel body) /\
                  ends_with (exit_events s) body
    end.
Proof.
  intros G H. iter_cases H;
    repeat match goal with Hg : c_guard cfg = true -> _ |- _ => specialize (Hg G); destruct Hg as (? & ?) end;
    try discriminate;
    repeat match goal with Hl : land _ _ _ _ _ = (_, _, false) |- _ => apply land_eqs in Hl; destruct Hl as (? & ?) end;
    safe_hyps.
  - (* dial error *)
    apply (wp_stop_facts _ _ _ _ _ _ G) in H as (tail & -> & Ts & T).
    eexists. split; [cbn [app]; reflexivity|]. split; [safe_goal|].
    destruct r; [| |destruct T|destruct T].
    + destruct T as (Td & Tc & T'). split; [rewrite Td; eq_goal|]. split; [rewrite Tc; eq_goal|].
      destruct T' as (? & ? & ?). split; [assumption|]. split; [assumption|]. first_goal.
    + destruct T as (Td & Tc & t' & ->). split; [rewrite Td; eq_goal|]. split; [rewrite Tc; eq_goal|]. ends.
  - (* the handshake waits for ever *)
    injection H as <- <-. eexists. split; [cbn [app]; reflexivity|]. split; [safe_goal|].
    apply blocks_true in Bk as (_ & Ba & Bc).
    split; [eq_goal|]. split; [eq_goal|]. split; [exact Ba|]. split; [exact Bc|]. first_goal.
  - (* connect failed *)
    assert (Hd3 : l_disc (match l_task stL0 with DQueued => set_task DRan stL0 | _ => stL0 end) = l_disc stL0) by (destruct (l_task stL0); reflexivity).
    assert (Hc3 : l_cancel (match l_task stL0 with DQueued => set_task DRan stL0 | _ => stL0 end) = l_cancel stL0) by (destruct (l_task stL0); reflexivity).
    assert (Hf3 : l_first (match l_task stL0 with DQueued => set_task DRan stL0 | _ => stL0 end) = l_first stL0) by (destruct (l_task stL0); reflexivity).
    apply (wp_stop_facts _ _ _ _ _ _ G) in H as (tail & -> & Ts & T). rewrite Hd3, Hc3, Hf3 in T.
    eexists. split; [cbn [app]; reflexivity|]. split; [safe_goal|].
    destruct r; [| |destruct T|destruct T].
    + destruct T as (Td & Tc & T'). split; [rewrite Td; eq_goal|]. split; [rewrite Tc; eq_goal|].
      destruct T' as (? & ? & ?). split; [assumption|]. split; [assumption|]. first_goal.
    + destruct T as (Td & Tc & t' & ->). split; [rewrite Td; eq_goal|]. split; [rewrite Tc; eq_goal|]. ends.
  - (* connected *)
    destruct (Bool.bool_dec (l_disc stL1) true) as [D1|D1]; [|apply not_true_is_false in D1]; rewrite D1 in H.
    + injection H as <- <-. eexists. split; [cbn [app]; reflexivity|].
      destruct (l_task stL1); (split; [safe_goal|]); (split; [eq_goal|]); (split; [eq_goal|]); ends.
    + destruct ce.
      1-4: apply (wp_stop_facts _ _ _ _ _ _ G) in H as (tail & -> & Ts & T);
        (eexists; split; [cbn [app]; reflexivity|]); (split; [safe_goal|]);
        (destruct r; [| |destruct T|destruct T]);
        [ destruct T as (Td & Tc & T'); (split; [rewrite Td; eq_goal|]); (split; [rewrite Tc; eq_goal|]);
          destruct T' as (? & ? & ?); (split; [assumption|]); (split; [assumption|]); first_goal
        | destruct T as (Td & Tc & t' & ->); (split; [rewrite Td; eq_goal|]); (split; [rewrite Tc; eq_goal|]); ends ].
      injection H as <- <-. eexists. split; [cbn [app]; reflexivity|]. split; [safe_goal|].
      split; [eq_goal|]. split; [eq_goal|]. ends.
Qed.

(* ================= 6. the loop ================= *)

Lemma loop_waits cfg sc :
  0 < c_base cfg < two62 -> 0 <= c_max cfg < two62 ->
  forall script st j, l_wait st = wait_rule (c_base cfg) (c_max cfg) j ->
  (exists n, waits (fst (loop cfg sc st script)) = firstn n (spec_waits (c_base cfg) (c_max cfg) j script)) /\
  (forall st', snd (loop cfg sc st script) = Running st' ->
     waits (fst (loop cfg sc st script)) = spec_waits (c_base cfg) (c_max cfg) j script).
Proof.
  intros Hb Hm. induction script as [|o rest IH]; intros st j Hj.
  - cbn. split; [exists 0%nat; reflexivity | reflexivity].
  - cbn [loop]. destruct (iteration cfg sc st o) as [e1 r1] eqn:I.
    pose proof (it_waits _ _ _ _ _ _ I) as W. unfold wait_used in W.
    destruct r1 as [st1|st1| |st1]; cbn [fst snd].
    + destruct W as (Hw & Hn).
      set (j' := if is_success o then 1%nat else S j).
      assert (Hj' : l_wait st1 = wait_rule (c_base cfg) (c_max cfg) j').
      { rewrite Hn. unfold j'. destruct (is_success o).
        - change (c_base cfg) with (wait_rule (c_base cfg) (c_max cfg) 0) at 1. apply next_wait_rule; assumption.
        - rewrite Hj. apply next_wait_rule; assumption. }
      destruct (IH st1 j' Hj') as ((n & Hn1) & Hn2).
      assert (Hs : spec_waits (c_base cfg) (c_max cfg) j (o :: rest) =
                   (if is_success o then c_base cfg else l_wait st) :: spec_waits (c_base cfg) (c_max cfg) j' rest).
      { cbn [spec_waits]. unfold j'. destruct (is_success o); [reflexivity | rewrite Hj; reflexivity]. }
      destruct (loop cfg sc st1 rest) as [e2 r2]. cbn [fst snd] in *.
      rewrite waits_app, Hw, Hs. split.
      * exists (S n). cbn [firstn app]. rewrite Hn1. reflexivity.
      * intros st' E. cbn [app]. rewrite (Hn2 st' E). reflexivity.
    + split; [exists 0%nat; exact W | discriminate].
    + split; [exists 0%nat; exact W | discriminate].
    + split; [exists 0%nat; exact W | discriminate].
Qed.

Lemma post_disconnect_facts cfg st :
  waits (post_disconnect cfg st) = [] /\ forallb tailq (post_disconnect cfg st) = true /\
  existsb is_dial (post_disconnect cfg st) = false /\ nocancel (post_disconnect cfg st) = true /\
  (l_started st || c_guard cfg = true -> post_disconnect cfg st = [EvStop SDisconnect; EvDiscReturned]).
Proof. unfold post_disconnect. destruct (l_started st || c_guard cfg); repeat split; try reflexivity; discriminate. Qed.

(* trace = events of the loop, possibly followed by a Disconnect after the loop has exited *)
Lemma trace_shape cfg sc :
  let '(e, r) := loop cfg sc (init_state cfg) (sc_script sc) in
  trace cfg sc = e \/
  (exists st, r = Exited st /\ l_disc st = false /\ trace cfg sc = e ++ post_disconnect cfg st).
Proof.
  unfold trace, run. destruct (loop cfg sc (init_state cfg) (sc_script sc)) as [e r].
  destruct r as [st|st| |st]; [left; reflexivity | | left; reflexivity | left; reflexivity].
  destruct (sc_post sc && negb (l_disc st)) eqn:P; [|left; reflexivity].
  right. exists st. apply andb_true_iff in P as [_ P]. apply negb_true_iff in P. auto.
Qed.

Local Arguments next_wait : simpl never.

(* an iteration in which neither Disconnect nor a cancellation lands, and which does not end
   gracefully, goes on to the next iteration *)
Definition is_noconnack (o : outcome) : bool := match o with OConnFail CNoConnack => true | _ => false end.
(* an absent CONNACK ends the attempt only if a connect timeout is configured *)
Definition can_block (cfg : config) (o : outcome) : bool := negb (c_timeout cfg) && is_noconnack o.

Lemma blocks_false cfg f st : can_block cfg (OConnFail f) = false -> blocks cfg f st = false.
Proof. unfold can_block, blocks. destruct f; try reflexivity. cbn [is_noconnack]. destruct (c_timeout cfg); [reflexivity | discriminate]. Qed.

Lemma it_quiet cfg sc st o :
  (forall ph, cancel_here sc (l_iter st) ph = false) -> (forall ph, disc_here sc (l_iter st) ph = None) ->
  l_disc st = false -> (l_cancel st = false \/ l_first st = true) -> is_graceful o = false ->
  can_block cfg o = false ->
  exists e st', iteration cfg sc st o = (e, Running st') /\ l_disc st' = false /\
                (l_cancel st' = false \/ l_first st' = true) /\
                (is_success o = true -> exists rest, e = [EvDial (l_iter st); EvOpen (l_k st); EvConnect (l_k st) (c_conn cfg)] ++ rest).
Proof.
  intros Hc Hd D C G B. unfold iteration, dial_ok, wait_phase.
  rewrite land_none by auto. destruct o as [|f|ce].
  - rewrite land_none by auto. rewrite D.
    assert (E : l_cancel st && negb (l_first st) = false) by (destruct C as [-> | ->]; [reflexivity | apply andb_false_r]).
    rewrite E. eexists. eexists. split; [reflexivity|]. cbn [next_iter l_disc l_cancel l_first]. repeat split; auto. discriminate.
  - cbn [set_client l_iter]. rewrite land_none by auto. rewrite (blocks_false _ _ _ B).
    assert (E : l_cancel st && negb (l_first st) = false) by (destruct C as [-> | ->]; [reflexivity | apply andb_false_r]).
    cbn [set_client l_task l_iter]. destruct (l_task st); cbn [set_task set_client l_iter l_disc l_cancel l_first];
      rewrite land_none by auto; cbn [set_task set_client l_iter l_disc l_cancel l_first]; rewrite D, E;
      (eexists; eexists; split; [reflexivity|]; cbn [next_iter l_disc l_cancel l_first]; repeat split; auto; discriminate).
  - cbn [set_client l_iter]. rewrite land_none by auto.
    cbn [set_first set_wait set_client l_iter]. rewrite land_none by auto.
    cbn [set_first set_wait set_client l_iter l_disc]. rewrite D.
    destruct ce; try discriminate;
      cbn [set_first set_wait set_client l_iter l_disc l_cancel l_first]; rewrite land_none by auto;
      cbn [set_first set_wait set_client l_iter l_disc l_cancel l_first negb]; rewrite D, andb_false_r;
      (eexists; eexists; split; [reflexivity|]; cbn [next_iter l_disc l_cancel l_first]; repeat split; auto;
       intros _; eexists; cbn [app]; reflexivity).
Qed.

Definition quiet_from (sc : scenario) (i n : nat) : Prop :=
  forall j ph, (i <= j < i + n)%nat -> cancel_here sc j ph = false /\ disc_here sc j ph = None.

Lemma loop_quiet cfg sc script : forall st,
  quiet_from sc (l_iter st) (length script) ->
  l_disc st = false -> (l_cancel st = false \/ l_first st = true) ->
  existsb is_graceful script = false -> existsb (can_block cfg) script = false ->
  exists e st', loop cfg sc st script = (e, Running st') /\
    dials e = seq (l_iter st) (length script) /\ existsb is_exit e = false /\
    l_iter st' = (l_iter st + length script)%nat /\ l_disc st' = false /\
    (l_cancel st' = false \/ l_first st' = true).
Proof.
  induction script as [|o rest IH]; intros st Q D C G B.
  - exists [], st. cbn. rewrite Nat.add_0_r. repeat split; auto.
  - cbn [existsb] in G, B. apply orb_false_iff in G as [G1 G2]. apply orb_false_iff in B as [B1 B2]. cbn [length] in Q.
    destruct (it_quiet cfg sc st o) as (e1 & st1 & I & D1 & C1 & _); auto.
    { intros ph. apply Q. lia. } { intros ph. apply Q. lia. }
    pose proof (it_struct _ _ _ _ _ _ I) as (Sd & _ & _ & _ & Si & Sx).
    destruct (IH st1) as (e2 & st2 & L2 & Dl & X2 & I2 & D2 & C2); auto.
    { intros j ph Hj. apply Q. lia. }
    exists (e1 ++ e2), st2. cbn [loop]. rewrite I, L2. split; [reflexivity|].
    rewrite dials_app, Sd, Dl, existsb_app, Sx, X2, I2, Si. cbn [length seq app orb].
    repeat split; auto. lia.
Qed.

Lemma loop_app cfg sc a b : forall st,
  loop cfg sc st (a ++ b) =
  match loop cfg sc st a with
  | (e1, Running st1) => let '(e2, r2) := loop cfg sc st1 b in (e1 ++ e2, r2)
  | (e1, r1) => (e1, r1)
  end.
Proof.
  induction a as [|o a IH]; intros st.
  - cbn. destruct (loop cfg sc st b). reflexivity.
  - cbn [loop app]. destruct (iteration cfg sc st o) as [e r]. destruct r as [st1|st1| |st1]; try reflexivity.
    rewrite IH. destruct (loop cfg sc st1 a) as [e1 r1]. destruct r1 as [st2|st2| |st2]; try reflexivity.
    destruct (loop cfg sc st2 b) as [e2 r2]. rewrite app_assoc. reflexivity.
Qed.

Definition no_stops (script : list outcome) (post : bool) : scenario := mkScenario script None None post.

Lemma no_stops_quiet script post i n : quiet_from (no_stops script post) i n.
Proof. intros j ph _. split; reflexivity. Qed.

(* ================= 7. theorems ================= *)

(* --- back-off --- *)
Theorem backoff_prefix cfg sc :
  0 < c_base cfg < two62 -> 0 <= c_max cfg < two62 ->
  exists n, waits (trace cfg sc) = firstn n (spec_waits (c_base cfg) (c_max cfg) 0 (sc_script sc)).
Proof.
  intros Hb Hm.
  destruct (loop_waits cfg sc Hb Hm (sc_script sc) (init_state cfg) 0%nat eq_refl) as ((n & Hn) & _).
  pose proof (trace_shape cfg sc) as T. destruct (loop cfg sc (init_state cfg) (sc_script sc)) as [e r].
  cbn [fst] in Hn. exists n. destruct T as [-> | (st & _ & _ & ->)]; [exact Hn|].
  destruct (post_disconnect_facts cfg st) as (Pw & _). rewrite waits_app, Pw, app_nil_r. exact Hn.
Qed.

Theorem backoff_all cfg script post :
  0 < c_base cfg < two62 -> 0 <= c_max cfg < two62 -> existsb is_graceful script = false ->
  existsb (can_block cfg) script = false ->
  waits (trace cfg (no_stops script post)) = spec_waits (c_base cfg) (c_max cfg) 0 script.
Proof.
  intros Hb Hm G B.
  destruct (loop_quiet cfg (no_stops script post) script (init_state cfg)) as (e & st' & L & _); auto.
  { apply no_stops_quiet. }
  destruct (loop_waits cfg (no_stops script post) Hb Hm script (init_state cfg) 0%nat eq_refl) as (_ & H).
  unfold trace, run. cbn [sc_script no_stops] in *. rewrite L in *. cbn [fst snd] in *. apply (H st'). reflexivity.
Qed.

(* --- redial until connected --- *)
Theorem redials_until_connected cfg fs ce post :
  existsb is_graceful fs = false -> existsb (can_block cfg) fs = false ->
  exists t1 k t2,
    trace cfg (no_stops (fs ++ [OConnected ce]) post) =
      t1 ++ [EvDial (length fs); EvOpen k; EvConnect k (c_conn cfg)] ++ t2 /\
    dials t1 = seq 0 (length fs) /\ existsb is_exit t1 = false.
Proof.
  intros G B. set (sc := no_stops (fs ++ [OConnected ce]) post).
  destruct (loop_quiet cfg sc fs (init_state cfg)) as (e1 & st1 & L1 & Dl & X1 & I1 & D1 & C1); auto.
  { apply no_stops_quiet. }
  assert (L : exists e2 r2, loop cfg sc (init_state cfg) (fs ++ [OConnected ce]) =
                            (e1 ++ [EvDial (length fs); EvOpen (l_k st1); EvConnect (l_k st1) (c_conn cfg)] ++ e2, r2)).
  { rewrite loop_app, L1. cbn [loop]. unfold iteration, dial_ok.
    rewrite land_none by reflexivity. cbn [set_client l_iter]. rewrite land_none by reflexivity.
    cbn [set_first set_wait set_client l_iter]. rewrite land_none by reflexivity.
    cbn [set_first set_wait set_client l_disc]. rewrite D1, I1. cbn [init_state l_iter Nat.add].
    destruct ce.
    1-4: match goal with |- context [wait_phase ?c ?s ?evs ?st] =>
           destruct (wait_phase c s evs st) as [e r] eqn:W; apply wp_tail in W as (tail & -> & _) end;
         (destruct r; eexists; eexists; cbn [app]; rewrite <- ?app_assoc; cbn [app]; reflexivity).
    eexists; eexists; cbn [app]; reflexivity. }
  destruct L as (e2 & r2 & L).
  pose proof (trace_shape cfg sc) as T. cbn [sc_script sc no_stops] in T. fold sc in T. rewrite L in T.
  exists e1, (l_k st1). destruct T as [T | (st & _ & _ & T)].
  - exists e2. rewrite T. auto.
  - exists (e2 ++ post_disconnect cfg st). rewrite T, <- !app_assoc. auto.
Qed.

(* --- at most one transport open --- *)
Lemma loop_struct cfg sc script : forall st,
  let '(e, r) := loop cfg sc st script in
  one_open_from [] e = true /\ conn_ok (c_conn cfg) None e = true /\
  match r with Running _ => live_from [] e = [] | _ => True end.
Proof.
  induction script as [|o rest IH]; intros st; [cbn; auto|].
  cbn [loop]. destruct (iteration cfg sc st o) as [e1 r1] eqn:It.
  pose proof (it_struct _ _ _ _ _ _ It) as (_ & O1 & K1 & R1).
  destruct r1 as [st1|st1| |st1]; [|auto|auto|auto].
  destruct R1 as (Lv & _ & _). specialize (IH st1). destruct (loop cfg sc st1 rest) as [e2 r2].
  destruct IH as (O2 & K2 & R2). rewrite one_open_from_app, O1, Lv, O2, (conn_ok_app _ _ _ _ K1), K2.
  repeat split. destruct r2; [|exact I|exact I|exact I]. rewrite live_from_app, Lv. exact R2.
Qed.

Theorem one_transport cfg sc : one_open (trace cfg sc) = true.
Proof.
  pose proof (loop_struct cfg sc (sc_script sc) (init_state cfg)) as S.
  pose proof (trace_shape cfg sc) as T. destruct (loop cfg sc (init_state cfg) (sc_script sc)) as [e r].
  destruct S as (O & _ & _). unfold one_open. destruct T as [-> | (st & _ & _ & ->)]; [exact O|].
  destruct (post_disconnect_facts cfg st) as (_ & Pq & _).
  rewrite one_open_from_app, O. cbn [andb]. apply tailq_one_open_nil. exact Pq.
Qed.

(* the boolean check means: after every prefix of the trace at most one transport is open *)
Lemma one_open_from_prefix t : forall o p s,
  one_open_from o t = true -> (length o <= 1)%nat -> t = p ++ s -> (length (live_from o p) <= 1)%nat.
Proof.
  induction t as [|x t IH]; intros o p s H Ho E.
  - destruct p; [exact Ho | discriminate].
  - destruct p as [|y p]; [exact Ho|]. injection E as <- E.
    assert (Hf : forall k, (length (filter (fun j => negb (Nat.eqb j k)) o) <= 1)%nat).
    { intros k. destruct o as [|a [|b o']]; cbn in *; try lia. destruct (negb (Nat.eqb a k)); cbn; lia. }
    destruct x; cbn [one_open_from live_from] in *; try (eapply IH; eassumption).
    + destruct o; [|discriminate]. eapply IH; [exact H | cbn; lia | exact E].
    + eapply IH; [exact H | apply Hf | exact E].
Qed.

Theorem one_transport_prefix cfg sc p s : trace cfg sc = p ++ s -> (length (live p) <= 1)%nat.
Proof. intros E. apply (one_open_from_prefix (trace cfg sc) [] p s); [apply one_transport | cbn; lia | exact E]. Qed.

(* --- exactly one CONNECT with the same fields per connection --- *)
Theorem one_connect_same_options cfg sc : connects_ok (c_conn cfg) (trace cfg sc) = true.
Proof.
  pose proof (loop_struct cfg sc (sc_script sc) (init_state cfg)) as S.
  pose proof (trace_shape cfg sc) as T. destruct (loop cfg sc (init_state cfg) (sc_script sc)) as [e r].
  destruct S as (_ & K & _). unfold connects_ok. destruct T as [-> | (st & _ & _ & ->)]; [exact K|].
  destruct (post_disconnect_facts cfg st) as (_ & Pq & _).
  rewrite (conn_ok_app _ _ _ _ K). apply tailq_conn_nil. exact Pq.
Qed.

(* --- stop: Disconnect --- *)
Lemma after_first_safe p body : forall post,
  after_first p body = Some post -> forallb safe_ev body = true -> forallb safe_ev post = true.
Proof.
  induction body as [|x body IH]; intros post H S; [discriminate|].
  cbn [after_first forallb] in *. apply andb_true_iff in S as [S1 S2].
  destruct (p x); [injection H as <-; exact S2 | apply IH; assumption].
Qed.

Lemma after_first_suffix p a b : forall post,
  after_first p (a ++ b) = Some post -> existsb p b = false -> ends_with b post.
Proof.
  induction a as [|x a IH]; intros post H N.
  - cbn [app] in H. rewrite (after_first_none _ _ N) in H. discriminate.
  - cbn [after_first app] in H. destruct (p x); [injection H as <-; exists a; reflexivity | apply IH; assumption].
Qed.

Lemma after_first_some p l : existsb p l = true -> exists post, after_first p l = Some post.
Proof.
  induction l as [|x l IH]; [discriminate|]. cbn [existsb after_first]. intros H.
  destruct (p x); [eexists; reflexivity | apply IH; exact H].
Qed.

Lemma after_first_split p pre x post :
  existsb p pre = false -> p x = true -> after_first p (pre ++ x :: post) = Some post.
Proof. intros N T. rewrite after_first_app_none by exact N. cbn [after_first]. rewrite T. reflexivity. Qed.

Lemma safe_no_dial_panic l : forallb safe_ev l = true -> existsb is_dial l = false /\ existsb is_panic l = false.
Proof.
  induction l as [|x l IH]; [auto|]. cbn [forallb existsb]. intros H. apply andb_true_iff in H as [H1 H2].
  destruct (IH H2) as [-> ->]. unfold safe_ev in H1. apply andb_true_iff in H1 as [A B].
  apply negb_true_iff in A, B. rewrite A, B. auto.
Qed.

Lemma ends_with_existsb q E l : ends_with E l -> existsb q E = true -> existsb q l = true.
Proof. intros [t ->] H. rewrite existsb_app, H. apply orb_true_r. Qed.

Lemma loop_disc cfg sc : c_guard cfg = true -> c_abort cfg = true -> forall script st, l_disc st = false ->
  disc_stop_ok (fst (loop cfg sc st script)) = true /\
  match snd (loop cfg sc st script) with
  | Crashed => False
  | Running s | Exited s | Blocked s => l_disc s = negb (nodisc (fst (loop cfg sc st script)))
  end.
Proof.
  intros G A. induction script as [|o rest IH]; intros st D.
  - cbn. auto.
  - cbn [loop]. destruct (iteration cfg sc st o) as [e1 r1] eqn:It.
    destruct (it_stop_facts _ _ _ _ _ _ G It) as (body & -> & Sb & R).
    assert (Nd : nodisc (EvDial (l_iter st) :: body) = nodisc body) by (rewrite nodisc_cons; reflexivity).
    destruct r1 as [st1|st1| |st1]; [| |destruct R|].
    + destruct R as (Rd & _ & R0 & _). rewrite D, R0 in Rd. cbn [orb] in Rd.
      assert (Nb : nodisc body = true) by (destruct (nodisc body); [reflexivity | discriminate]).
      destruct (IH st1 R0) as (Ok2 & St2). destruct (loop cfg sc st1 rest) as [e2 r2]. cbn [fst snd] in *.
      assert (Ne : existsb (is_stop SDisconnect) (EvDial (l_iter st) :: body) = false)
        by (rewrite <- Nd in Nb; unfold nodisc in Nb; apply negb_true_iff in Nb; exact Nb).
      split.
      * unfold disc_stop_ok. rewrite (after_first_app_none _ _ _ Ne). exact Ok2.
      * rewrite nodisc_app, Nd, Nb. cbn [andb]. exact St2.
    + cbn [fst snd]. destruct R as (Rd & _ & Re). rewrite D in Rd. cbn [orb] in Rd. rewrite Nd. split; [|exact Rd].
      unfold disc_stop_ok. cbn [after_first is_stop].
      destruct (nodisc body) eqn:Nb.
      * unfold nodisc in Nb. apply negb_true_iff in Nb. rewrite (after_first_none _ _ Nb). reflexivity.
      * unfold nodisc in Nb. apply negb_false_iff in Nb. destruct (after_first_some _ _ Nb) as (post & Ap). rewrite Ap.
        pose proof (after_first_safe _ _ _ Ap Sb) as Sp. destruct (safe_no_dial_panic _ Sp) as (-> & ->).
        destruct Re as (t' & Eb). rewrite Eb in Ap.
        pose proof (exit_events_facts st1) as (_ & _ & _ & _ & Xr & Xd & _).
        apply after_first_suffix in Ap; [|exact Xd].
        rewrite (ends_with_existsb _ _ _ Ap (Xr Rd)). reflexivity.
    + (* blocked in the handshake: Disconnect has not been called (it would have aborted it) *)
      cbn [fst snd]. destruct R as (Rd & _ & Ra & _). rewrite D in Rd. cbn [orb] in Rd. rewrite Nd. split; [|exact Rd].
      rewrite (Ra A) in Rd. assert (Nb : nodisc body = true) by (destruct (nodisc body); [reflexivity | discriminate]).
      unfold disc_stop_ok. cbn [after_first is_stop]. unfold nodisc in Nb. apply negb_true_iff in Nb.
      rewrite (after_first_none _ _ Nb). reflexivity.
Qed.

Theorem stop_disconnect cfg sc : c_guard cfg = true -> c_abort cfg = true -> disc_stop_ok (trace cfg sc) = true.
Proof.
  intros G A. destruct (loop_disc cfg sc G A (sc_script sc) (init_state cfg) eq_refl) as (Ok & St).
  pose proof (trace_shape cfg sc) as T. destruct (loop cfg sc (init_state cfg) (sc_script sc)) as [e r].
  cbn [fst snd] in *. destruct T as [-> | (st & -> & D & ->)]; [exact Ok|].
  rewrite D in St. symmetry in St. apply negb_false_iff in St. unfold nodisc in St. apply negb_true_iff in St.
  destruct (post_disconnect_facts cfg st) as (_ & _ & _ & _ & Pe). rewrite Pe by (rewrite G; apply orb_true_r).
  unfold disc_stop_ok. rewrite (after_first_app_none _ _ _ St). reflexivity.
Qed.

(* the same in words: whatever precedes the first Disconnect, what follows it contains no Dial
   and no panic, and contains the return of Disconnect *)
Theorem stop_disconnect_prop cfg sc pre post :
  c_guard cfg = true -> c_abort cfg = true -> trace cfg sc = pre ++ EvStop SDisconnect :: post ->
  existsb (is_stop SDisconnect) pre = false ->
  (forall i, ~ In (EvDial i) post) /\ In EvDiscReturned post /\ ~ In EvPanic post.
Proof.
  intros G A E N. pose proof (stop_disconnect cfg sc G A) as H. unfold disc_stop_ok in H.
  rewrite E, (after_first_split _ pre (EvStop SDisconnect) post N eq_refl) in H.
  apply andb_true_iff in H as [H H3]. apply andb_true_iff in H as [H1 H2].
  apply negb_true_iff in H1, H3. repeat split.
  - intros i Hi. assert (existsb is_dial post = true) by (apply existsb_exists; exists (EvDial i); auto). congruence.
  - apply existsb_exists in H2 as (x & Hx & Px). destruct x; try discriminate. exact Hx.
  - intros Hi. assert (existsb is_panic post = true) by (apply existsb_exists; exists EvPanic; auto). congruence.
Qed.

(* --- stop: cancellation before the first success --- *)
Lemma wp_nocancel cfg sc evs st e r :
  cancel_here sc (l_iter st) PWait = false -> wait_phase cfg sc evs st = (e, r) ->
  exists tail, e = evs ++ tail /\ nocancel tail = true.
Proof.
  intros Hc H. apply wp_shape in H as (st1 & e1 & cr & L & H).
  apply land_spec in L as (_ & _ & _ & _ & _ & _ & Lca).
  assert (N1 : nocancel e1 = true) by (destruct Lca as [(_ & _ & N) | (T & _)]; [exact N | congruence]).
  destruct H as [(_ & _ & ->) | [(_ & _ & -> & _) | (_ & _ & -> & _)]].
  - exists e1. auto.
  - exists (e1 ++ exit_events st1). split; [reflexivity|]. rewrite nocancel_app, N1, exit_nocancel. reflexivity.
  - exists (e1 ++ [EvWait (l_wait st1)]). split; [reflexivity|]. rewrite nocancel_app, N1. reflexivity.
Qed.

Ltac nocancel_hyps Hc :=
  pose proof (Hc PDial); pose proof (Hc PConnect); pose proof (Hc PConnected); pose proof (Hc PWait);
  core_hyps; cbn [set_client set_first set_wait set_task l_iter] in *;
  repeat match goal with
         | Lca : (cancel_here _ _ _ = false /\ _ /\ nocancel ?e = true) \/ _ |- _ =>
           let N := fresh "N" in
           assert (N : nocancel e = true) by (destruct Lca as [(_ & _ & N) | (T & _)]; [exact N | congruence]);
           clear Lca
         end.

Ltac nocancel_goal :=
  sn; repeat match goal with H : nocancel ?e = true |- context [nocancel ?e] => rewrite H end; reflexivity.

Lemma it_nocancel cfg sc st o e r :
  (forall ph, cancel_here sc (l_iter st) ph = false) -> iteration cfg sc st o = (e, r) -> nocancel e = true.
Proof.
  intros Hc H. iter_cases H; nocancel_hyps Hc.
  - injection H as <- <-. nocancel_goal.
  - apply wp_nocancel in H as (tail & -> & Nt); [nocancel_goal | congruence].
  - injection H as <- <-. nocancel_goal.
  - injection H as <- <-. nocancel_goal.
  - apply wp_nocancel in H as (tail & -> & Nt); [nocancel_goal |].
    destruct (l_task stL0); cbn [set_task l_iter]; congruence.
  - injection H as <- <-. nocancel_goal.
  - injection H as <- <-. nocancel_goal.
  - destruct (l_disc stL1).
    + injection H as <- <-. destruct (l_task stL1); nocancel_goal.
    + destruct ce.
      1-4: apply wp_nocancel in H as (tail & -> & Nt); [nocancel_goal | congruence].
      injection H as <- <-. nocancel_goal.
Qed.

Lemma cancel_here_other sc n ph i : sc_cancel sc = Some (n, ph) -> i <> n -> forall ph', cancel_here sc i ph' = false.
Proof.
  intros E Hi ph'. unfold cancel_here. rewrite E. destruct (Nat.eqb n i) eqn:B; [|reflexivity].
  apply Nat.eqb_eq in B. congruence.
Qed.

Definition all_fail (l : list outcome) : bool := negb (existsb is_success l).

Lemma loop_cancel cfg sc n ph : c_guard cfg = true -> sc_cancel sc = Some (n, ph) ->
  forall script st, l_cancel st = false ->
  ((l_iter st <= n)%nat -> l_first st = false /\ all_fail (firstn (S n - l_iter st) script) = true) ->
  cancel_stop_ok (fst (loop cfg sc st script)) = true /\
  match snd (loop cfg sc st script) with
  | Crashed => False
  | Running s => l_cancel s = false /\ nocancel (fst (loop cfg sc st script)) = true
  | Exited s | Blocked s => True
  end.
Proof.
  intros G E. induction script as [|o rest IH]; intros st C F.
  - cbn. auto.
  - cbn [loop]. destruct (iteration cfg sc st o) as [e1 r1] eqn:It.
    destruct (it_stop_facts _ _ _ _ _ _ G It) as (body & E1 & Sb & R).
    pose proof (it_struct _ _ _ _ _ _ It) as (_ & _ & _ & Sr).
    assert (Nc : nocancel e1 = nocancel body) by (rewrite E1, nocancel_cons; reflexivity).
    destruct (Nat.eq_dec (l_iter st) n) as [Hn | Hn]; [| destruct (Nat.lt_ge_cases n (l_iter st)) as [Hgt | Hle]].
    + (* the iteration in which the cancellation may land *)
      destruct F as (F1 & F2); [lia|]. replace (S n - l_iter st)%nat with 1%nat in F2 by lia.
      unfold all_fail in F2. cbn [firstn existsb] in F2. rewrite orb_false_r in F2. apply negb_true_iff in F2.
      destruct r1 as [st1|st1| |st1]; [| |destruct R|].
      * destruct R as (_ & Rc & _ & R1 & R2). destruct Sr as (_ & Si & _).
        assert (C1 : l_cancel st1 = false) by (destruct R1 as [R1|R1]; [exact R1 | rewrite (R2 F2), F1 in R1; discriminate]).
        rewrite C, C1 in Rc. cbn [orb] in Rc.
        assert (Nb : nocancel e1 = true) by (rewrite Nc; destruct (nocancel body); [reflexivity | discriminate]).
        destruct (IH st1 C1) as (Ok2 & St2); [intros; lia|].
        destruct (loop cfg sc st1 rest) as [e2 r2]. cbn [fst snd] in *.
        assert (Ne : existsb (is_stop SCancel) e1 = false) by (unfold nocancel in Nb; apply negb_true_iff in Nb; exact Nb).
        split; [unfold cancel_stop_ok; rewrite (after_first_app_none _ _ _ Ne); exact Ok2|].
        destruct r2; auto. destruct St2 as (? & N2). rewrite nocancel_app, Nb, N2. auto.
      * cbn [fst snd]. split; [|exact Logic.I]. destruct R as (_ & _ & Re).
        unfold cancel_stop_ok. destruct (existsb (is_stop SCancel) e1) eqn:X.
        -- destruct (after_first_some _ _ X) as (post & Ap). rewrite Ap.
           rewrite E1 in Ap. cbn [after_first is_stop] in Ap.
           pose proof (after_first_safe _ _ _ Ap Sb) as Sp. destruct (safe_no_dial_panic _ Sp) as (-> & _).
           destruct Re as (t' & Eb). rewrite Eb in Ap.
           pose proof (exit_events_facts st1) as (_ & _ & _ & Xe & _ & _ & Xc).
           apply after_first_suffix in Ap; [|exact Xc]. rewrite (ends_with_existsb _ _ _ Ap Xe). reflexivity.
        -- rewrite (after_first_none _ _ X). reflexivity.
      * cbn [fst snd]. split; [|exact Logic.I]. destruct R as (_ & Rc & _ & R1 & R2).
        assert (C1 : l_cancel st1 = false) by (destruct R1 as [R1|R1]; [exact R1 | rewrite R2, F1 in R1; discriminate]).
        rewrite C, C1 in Rc. cbn [orb] in Rc.
        assert (Nb : nocancel e1 = true) by (rewrite Nc; destruct (nocancel body); [reflexivity | discriminate]).
        unfold nocancel in Nb. apply negb_true_iff in Nb. unfold cancel_stop_ok. rewrite (after_first_none _ _ Nb). reflexivity.
    + (* later iterations: the cancellation cannot land any more *)
      assert (Nb : nocancel e1 = true) by (apply (it_nocancel _ _ _ _ _ _ (cancel_here_other _ _ _ _ E Hn) It)).
      assert (Ne : existsb (is_stop SCancel) e1 = false) by (unfold nocancel in Nb; apply negb_true_iff in Nb; exact Nb).
      destruct r1 as [st1|st1| |st1]; [| |destruct R|].
      * destruct R as (_ & Rc & _). destruct Sr as (_ & Si & _). rewrite C, <- Nc, Nb in Rc. cbn in Rc.
        destruct (IH st1 Rc) as (Ok2 & St2); [intros; lia|].
        destruct (loop cfg sc st1 rest) as [e2 r2]. cbn [fst snd] in *.
        split; [unfold cancel_stop_ok; rewrite (after_first_app_none _ _ _ Ne); exact Ok2|].
        destruct r2; auto. destruct St2 as (? & N2). rewrite nocancel_app, Nb, N2. auto.
      * cbn [fst snd]. split; [|exact Logic.I]. unfold cancel_stop_ok. rewrite (after_first_none _ _ Ne). reflexivity.
      * cbn [fst snd]. split; [|exact Logic.I]. unfold cancel_stop_ok. rewrite (after_first_none _ _ Ne). reflexivity.
    + (* earlier iterations: failures, the cancellation has not happened yet *)
      assert (Hlt : (l_iter st < n)%nat) by lia.
      destruct F as (F1 & F2); [lia|].
      replace (S n - l_iter st)%nat with (S (n - l_iter st)) in F2 by lia. cbn [firstn] in F2.
      unfold all_fail in F2. cbn [existsb] in F2. apply negb_true_iff, orb_false_iff in F2 as (Fo & Fr).
      assert (Nb : nocancel e1 = true) by (apply (it_nocancel _ _ _ _ _ _ (cancel_here_other _ _ _ _ E Hn) It)).
      assert (Ne : existsb (is_stop SCancel) e1 = false) by (unfold nocancel in Nb; apply negb_true_iff in Nb; exact Nb).
      destruct r1 as [st1|st1| |st1]; [| |destruct R|].
      * destruct R as (_ & Rc & _ & _ & R2). destruct Sr as (_ & Si & _). rewrite C, <- Nc, Nb in Rc. cbn in Rc.
        destruct (IH st1 Rc) as (Ok2 & St2).
        { intros _. split; [rewrite (R2 Fo); exact F1|]. rewrite Si. replace (S n - S (l_iter st))%nat with (n - l_iter st)%nat by lia.
          unfold all_fail. rewrite Fr. reflexivity. }
        destruct (loop cfg sc st1 rest) as [e2 r2]. cbn [fst snd] in *.
        split; [unfold cancel_stop_ok; rewrite (after_first_app_none _ _ _ Ne); exact Ok2|].
        destruct r2; auto. destruct St2 as (? & N2). rewrite nocancel_app, Nb, N2. auto.
      * cbn [fst snd]. split; [|exact Logic.I]. unfold cancel_stop_ok. rewrite (after_first_none _ _ Ne). reflexivity.
      * cbn [fst snd]. split; [|exact Logic.I]. unfold cancel_stop_ok. rewrite (after_first_none _ _ Ne). reflexivity.
Qed.

Lemma after_first_none_inv p l : after_first p l = None -> existsb p l = false.
Proof.
  induction l as [|x l IH]; [reflexivity|]. cbn [after_first existsb]. destruct (p x); [discriminate|]. exact IH.
Qed.

Theorem stop_cancel cfg sc n ph :
  c_guard cfg = true -> sc_cancel sc = Some (n, ph) ->
  all_fail (firstn (S n) (sc_script sc)) = true ->
  cancel_stop_ok (trace cfg sc) = true.
Proof.
  intros G E F.
  destruct (loop_cancel cfg sc n ph G E (sc_script sc) (init_state cfg) eq_refl) as (Ok & _).
  { intros _. cbn [init_state l_iter l_first]. rewrite Nat.sub_0_r. auto. }
  pose proof (trace_shape cfg sc) as T. destruct (loop cfg sc (init_state cfg) (sc_script sc)) as [e r].
  cbn [fst] in Ok. destruct T as [-> | (st & _ & _ & ->)]; [exact Ok|].
  destruct (post_disconnect_facts cfg st) as (_ & _ & Pd & Pc & _).
  unfold nocancel in Pc. apply negb_true_iff in Pc.
  unfold cancel_stop_ok in *. destruct (after_first (is_stop SCancel) e) as [post|] eqn:A.
  - rewrite (after_first_app_some _ _ _ _ A), !existsb_app, Pd.
    apply andb_true_iff in Ok as [O1 O2]. rewrite O2, orb_false_r, O1. reflexivity.
  - apply after_first_none_inv in A. rewrite (after_first_app_none _ _ _ A), (after_first_none _ _ Pc). reflexivity.
Qed.

Theorem stop_cancel_prop cfg sc n ph pre post :
  c_guard cfg = true -> sc_cancel sc = Some (n, ph) ->
  all_fail (firstn (S n) (sc_script sc)) = true ->
  trace cfg sc = pre ++ EvStop SCancel :: post -> existsb (is_stop SCancel) pre = false ->
  (forall i, ~ In (EvDial i) post) /\ In EvExit post.
Proof.
  intros G E F Et N. pose proof (stop_cancel cfg sc n ph G E F) as H. unfold cancel_stop_ok in H.
  rewrite Et, (after_first_split _ pre (EvStop SCancel) post N eq_refl) in H.
  apply andb_true_iff in H as [H1 H2]. apply negb_true_iff in H1. split.
  - intros i Hi. assert (existsb is_dial post = true) by (apply existsb_exists; exists (EvDial i); auto). congruence.
  - apply existsb_exists in H2 as (x & Hx & Px). destruct x; try discriminate. exact Hx.
Qed.

(* ================= 8. examples: the hypotheses are satisfiable, the statements are not vacuous ================= *)

Definition ex_conn : connect :=
  {| c_level := 4; c_clean := true; c_keepalive := 30; c_client_id := [99; 48; 57]%N;
     c_user := []; c_pass := []; c_will := None |}.
Definition ms (n : Z) : Z := n * 1000000.
Definition ex_cfg : config := mkConfig (ms 20) (ms 80) ex_conn true true true.
(* no connect timeout configured (ReconnectOptions.Timeout = 0, the default without keep-alive) *)
Definition ex_cfg_nt : config := mkConfig (ms 20) (ms 80) ex_conn true false true.

Example ex_ranges : 0 < c_base ex_cfg < two62 /\ 0 <= c_max ex_cfg < two62.
Proof. cbn. unfold two62, ms. lia. Qed.

Example ex_backoff :
  waits (trace ex_cfg (no_stops [ODialErr; OConnFail (CRefused 5); OConnFail CNoConnack; ODialErr;
                                 OConnected EPeerClose; OConnFail CPeerClosed; OConnected EKeepAlive] false))
  = [ms 20; ms 40; ms 80; ms 80; ms 20; ms 40; ms 20].
Proof. vm_compute. reflexivity. Qed.

(* what the code does when base > max: the first wait (and the wait after every success) is base,
   all others are max *)
Example ex_base_above_max :
  waits (trace (mkConfig (ms 50) (ms 20) ex_conn true true true) (no_stops [ODialErr; ODialErr; OConnected EProtoErr; ODialErr] false))
  = [ms 50; ms 20; ms 50; ms 20].
Proof. vm_compute. reflexivity. Qed.

(* without the range hypothesis the int64 multiplication wraps: the next wait is negative *)
Example ex_overflow : exists base max, 0 < base /\ 0 <= max /\ next_wait max base < 0.
Proof. exists two62, 0. unfold next_wait, wrap64, two62, two63. vm_compute. repeat split; discriminate. Qed.

Example ex_redial :
  trace ex_cfg (no_stops [OConnected EPeerClose; ODialErr; OConnected EProtoErr] false) =
  [EvDial 0; EvOpen 0; EvConnect 0 ex_conn; EvClose 0; EvWait (ms 20);
   EvDial 1; EvWait (ms 40);
   EvDial 2; EvOpen 1; EvConnect 1 ex_conn; EvClose 1; EvWait (ms 20)].
Proof. vm_compute. reflexivity. Qed.

(* Disconnect landing in each phase: it lands, nothing is dialled afterwards, Disconnect returns *)
Definition lands_and_stops (t : list ev) : bool :=
  existsb (is_stop SDisconnect) t && disc_stop_ok t && existsb is_exit t.

Example ex_disconnect_every_phase :
  forallb (fun sc => lands_and_stops (trace ex_cfg sc))
    [ mkScenario [ODialErr] (Some (0%nat, PDial, true)) None false;                       (* before any SetClient *)
      mkScenario [ODialErr] (Some (0%nat, PWait, true)) None false;                       (* before any SetClient *)
      mkScenario [OConnected EPeerClose] (Some (0%nat, PDial, true)) None false;
      mkScenario [OConnected EPeerClose] (Some (0%nat, PConnect, true)) None false;
      mkScenario [OConnected EPeerClose] (Some (0%nat, PConnected, true)) None false;
      mkScenario [OConnected EPeerClose] (Some (0%nat, PWait, true)) None false;
      mkScenario [OConnFail (CRefused 2); OConnFail CNoConnack] (Some (1%nat, PConnect, true)) None false;
      mkScenario [OConnected EKeepAlive; ODialErr; OConnected EPeerClose] (Some (2%nat, PDial, true)) None false;
      mkScenario [OConnected EKeepAlive; ODialErr; OConnected EPeerClose] (Some (2%nat, PDial, false)) None false;
      mkScenario [OConnected EGraceful] None None true ] = true /\
  forallb (fun sc => lands_and_stops (trace ex_cfg_nt sc))
    [ mkScenario [OConnFail CNoConnack] (Some (0%nat, PConnect, true)) None false;        (* F18, first connection *)
      mkScenario [OConnFail CNoConnack] (Some (0%nat, PDial, true)) None false;
      mkScenario [OConnected EProtoErr; OConnFail CNoConnack] (Some (1%nat, PConnect, true)) None false ] = true.
Proof. vm_compute. split; reflexivity. Qed.

Example ex_cancel_before_first_success :
  let sc := mkScenario [ODialErr; OConnFail CNoConnack; ODialErr] None (Some (1%nat, PConnect)) true in
  sc_cancel sc = Some (1%nat, PConnect) /\ all_fail (firstn 2 (sc_script sc)) = true /\
  trace ex_cfg sc =
  [EvDial 0; EvWait (ms 20); EvDial 1; EvOpen 0; EvConnect 0 ex_conn; EvStop SCancel; EvClose 0; EvExit;
   EvStop SDisconnect; EvDiscReturned].
Proof. vm_compute. repeat split. Qed.

(* after the first success the caller's context no longer matters (reconnclient.go:97-101) *)
Example ex_cancel_after_success_ignored :
  dials (trace ex_cfg (mkScenario [OConnected EPeerClose; ODialErr; ODialErr] None (Some (1%nat, PWait)) false))
  = [0; 1; 2]%nat.
Proof. vm_compute. reflexivity. Qed.

(* what fix cbf3ad0 repaired: without the nil guard, Disconnect before the first SetClient panics *)
Example ex_f6_without_guard :
  trace (mkConfig (ms 20) (ms 80) ex_conn false true true) (mkScenario [ODialErr; ODialErr] (Some (1%nat, PDial, true)) None false)
  = [EvDial 0; EvWait (ms 20); EvDial 1; EvStop SDisconnect; EvPanic].
Proof. vm_compute. reflexivity. Qed.

(* F18 - what fix 515978c repaired: no connect timeout, the broker withholds CONNACK, Disconnect is
   called during that wait. Before the fix nothing ends the handshake: the loop stays in Connect and
   Disconnect never returns - on the first connection and on a re-connection alike. *)
Example ex_f18_without_fix :
  let cfg := mkConfig (ms 20) (ms 80) ex_conn true false false in
  run cfg (mkScenario [OConnFail CNoConnack] (Some (0%nat, PConnect, true)) None false) =
    ([EvDial 0; EvOpen 0; EvConnect 0 ex_conn; EvStop SDisconnect],
     Blocked (mkL (ms 20) false true true false DQueued 1 0)) /\
  (let t := trace cfg (mkScenario [OConnected EPeerClose; OConnFail CNoConnack] (Some (1%nat, PConnect, true)) None false) in
   existsb (is_stop SDisconnect) t = true /\ existsb is_ret t = false /\ disc_stop_ok t = false).
Proof. vm_compute. repeat split. Qed.

Theorem f18_without_fix :
  exists cfg sc, c_guard cfg = true /\ c_abort cfg = false /\
    existsb (is_stop SDisconnect) (trace cfg sc) = true /\ existsb is_ret (trace cfg sc) = false /\
    (exists st, snd (run cfg sc) = Blocked st).
Proof.
  exists (mkConfig (ms 20) (ms 80) ex_conn true false false),
         (mkScenario [OConnFail CNoConnack] (Some (0%nat, PConnect, true)) None false).
  vm_compute. repeat split. eexists; reflexivity.
Qed.

(* with the fix Disconnect aborts the handshake: the client is closed, the loop exits, Disconnect returns *)
Example ex_f18_fixed :
  trace ex_cfg_nt (mkScenario [OConnFail CNoConnack] (Some (0%nat, PConnect, true)) None false) =
    [EvDial 0; EvOpen 0; EvConnect 0 ex_conn; EvStop SDisconnect; EvClose 0; EvExit; EvDiscReturned] /\
  trace ex_cfg_nt (mkScenario [OConnected EPeerClose; OConnFail CNoConnack] (Some (1%nat, PConnect, true)) None false) =
    [EvDial 0; EvOpen 0; EvConnect 0 ex_conn; EvClose 0; EvWait (ms 20);
     EvDial 1; EvOpen 1; EvConnect 1 ex_conn; EvStop SDisconnect; EvClose 1; EvExit; EvDiscReturned].
Proof. vm_compute. split; reflexivity. Qed.

(* before the first success the caller's context ends such a handshake as well *)
Example ex_cancel_aborts_handshake :
  trace ex_cfg_nt (mkScenario [OConnFail CNoConnack] None (Some (0%nat, PConnect)) true) =
    [EvDial 0; EvOpen 0; EvConnect 0 ex_conn; EvStop SCancel; EvClose 0; EvExit; EvStop SDisconnect; EvDiscReturned].
Proof. vm_compute. reflexivity. Qed.

(* why the redial theorems exclude an absent CONNACK when no timeout is configured: nothing ever
   ends that attempt (this is the configuration's meaning, not a defect) *)
Example ex_no_timeout_blocks :
  exists st, run ex_cfg_nt (no_stops [ODialErr; OConnFail CNoConnack; ODialErr] false) =
    ([EvDial 0; EvWait (ms 20); EvDial 1; EvOpen 0; EvConnect 0 ex_conn], Blocked st).
Proof. eexists. vm_compute. reflexivity. Qed.

(* A statement that is NOT part of the property's sentences and that the faithful model refutes:
   "when the loop has exited after Disconnect, every transport it opened is closed".
   Disconnect arriving while a redial is in flight: the queued Disconnect task is spent on the
   previous (dead) client, the task goroutine exits, the new connection is established
   (CONNECT is sent after Disconnect was called) and is left open when the loop returns. *)
Theorem all_closed_after_disconnect_refuted :
  exists cfg sc, c_guard cfg = true /\
    (exists st, snd (run cfg sc) = Exited st) /\ In EvDiscReturned (trace cfg sc) /\ live (trace cfg sc) <> [].
Proof.
  exists ex_cfg, (mkScenario [OConnected EPeerClose; OConnected EPeerClose] (Some (1%nat, PDial, true)) None false).
  vm_compute. repeat split; [eexists; reflexivity | auto 20 | discriminate].
Qed.

(* ================= 9. the context the loop runs under ================= *)

(* every dial is started under a context that is not finished: before the first success a
   cancelled caller's context makes the loop exit in the wait select instead of dialling again,
   afterwards the loop runs under context.Background() *)
Lemma loop_dial_ctx cfg sc : c_guard cfg = true -> forall script st,
  ctx_done st = false -> forallb negb (dial_ctx_done cfg sc st script) = true.
Proof.
  intros G. induction script as [|o rest IH]; intros st C; [reflexivity|].
  cbn [dial_ctx_done forallb]. rewrite C. cbn [negb andb].
  destruct (iteration cfg sc st o) as [e r] eqn:It.
  destruct (it_stop_facts _ _ _ _ _ _ G It) as (body & _ & _ & R).
  destruct r as [s|s| |s]; try reflexivity.
  apply IH. destruct R as (_ & _ & _ & [R|R] & _); unfold ctx_done; rewrite R; [reflexivity | apply andb_false_r].
Qed.

Theorem dials_with_live_context cfg sc : c_guard cfg = true ->
  forallb negb (dial_ctx_done cfg sc (init_state cfg) (sc_script sc)) = true.
Proof. intros G. apply loop_dial_ctx; [exact G | reflexivity]. Qed.

(* --- after the first success no step of the loop depends on the caller's context --- *)
Definition uncancel (st : lstate) : lstate :=
  mkL (l_wait st) (l_first st) (l_started st) (l_disc st) false (l_task st) (l_k st) (l_iter st).
Definition without_cancel (sc : scenario) : scenario := mkScenario (sc_script sc) (sc_disc sc) None (sc_post sc).
Definition drop_cancel (t : list ev) : list ev := filter (fun e => negb (is_stop SCancel e)) t.
Definition rmap (r : lres) : lres :=
  match r with
  | Running s => Running (uncancel s) | Exited s => Exited (uncancel s)
  | Crashed => Crashed | Blocked s => Blocked (uncancel s)
  end.
(* the caller's context is only ever cancelled after the first success *)
Definition Cinv (st : lstate) : Prop := l_cancel st = true -> l_first st = true.

Lemma drop_cancel_app a b : drop_cancel (a ++ b) = drop_cancel a ++ drop_cancel b.
Proof. apply filter_app. Qed.

Lemma land_rel cfg sc i ph st st1 e1 cr :
  (cancel_here sc i ph = true -> l_first st = true) -> Cinv st ->
  land cfg sc i ph st = (st1, e1, cr) ->
  land cfg (without_cancel sc) i ph (uncancel st) = (uncancel st1, drop_cancel e1, cr) /\
  Cinv st1 /\ core_eq st st1.
Proof.
  unfold land, Cinv, core_eq, disc_effect, disc_here, cancel_here, without_cancel. cbn [sc_disc sc_cancel].
  intros Hl Hc H. destruct st as [w f s d c t k it]. cbn [l_cancel l_first l_started uncancel set_cancel] in *.
  destruct (match sc_cancel sc with Some (n, p) => Nat.eqb n i && phase_eqb p ph | None => false end);
    destruct (match sc_disc sc with Some (n, p, tf) => if Nat.eqb n i && phase_eqb p ph then Some tf else None | None => None end) as [tf|];
    cbn [l_started] in H; try destruct s; try destruct (c_guard cfg); try destruct ph; try destruct tf;
    injection H as <- <- <-; cbn; repeat split; auto.
Qed.

Lemma exit_events_uncancel st : exit_events (uncancel st) = exit_events st /\ drop_cancel (exit_events st) = exit_events st.
Proof. unfold exit_events. cbn [uncancel l_disc]. destruct (l_disc st); split; reflexivity. Qed.

Lemma wait_rel cfg sc evs st e r :
  Cinv st -> (cancel_here sc (l_iter st) PWait = true -> l_first st = true) ->
  wait_phase cfg sc evs st = (e, r) ->
  wait_phase cfg (without_cancel sc) (drop_cancel evs) (uncancel st) = (drop_cancel e, rmap r) /\
  match r with Running s | Exited s | Blocked s => Cinv s /\ l_first s = l_first st | Crashed => True end.
Proof.
  intros C Hl H. unfold wait_phase in *. change (l_iter (uncancel st)) with (l_iter st).
  destruct (land cfg sc (l_iter st) PWait st) as [[st1 e1] cr] eqn:L.
  destruct (land_rel _ _ _ _ _ _ _ _ Hl C L) as (-> & C1 & (_ & Cf & _)).
  destruct (exit_events_uncancel st1) as (X1 & X2).
  destruct cr.
  - injection H as <- <-. rewrite drop_cancel_app. auto.
  - change (l_disc (uncancel st1)) with (l_disc st1). change (l_cancel (uncancel st1)) with false. cbn [andb].
    assert (E : l_cancel st1 && negb (l_first st1) = false).
    { destruct (l_cancel st1) eqn:A; [rewrite (C1 A); reflexivity | reflexivity]. }
    rewrite E in H. destruct (l_disc st1).
    + injection H as <- <-. rewrite !drop_cancel_app, X1, X2. auto.
    + injection H as <- <-. rewrite !drop_cancel_app. split; [reflexivity|]. split; [|exact Cf].
      unfold Cinv in *. cbn [next_iter l_cancel l_first]. exact C1.
Qed.

Lemma blocks_uncancel cfg f st : Cinv st -> blocks cfg f (uncancel st) = blocks cfg f st.
Proof.
  intros C. unfold blocks. destruct f; try reflexivity. cbn [uncancel l_cancel l_first l_disc andb].
  destruct (l_cancel st) eqn:A; [rewrite (C A)|]; reflexivity.
Qed.

Lemma drop_cancel_cons_dial i t : drop_cancel (EvDial i :: t) = EvDial i :: drop_cancel t.
Proof. reflexivity. Qed.

Ltac rel_land H Hph st' e cr L R C' K :=
  match type of H with
  | context [land ?cfg ?sc ?i ?ph ?st] =>
    destruct (land cfg sc i ph st) as [[st' e] cr] eqn:L;
    assert (R : land cfg (without_cancel sc) i ph (uncancel st) = (uncancel st', drop_cancel e, cr) /\ Cinv st' /\ core_eq st st');
    [ apply land_rel; [Hph | | exact L] | destruct R as (R & C' & K) ]
  end.

Lemma task_uncancel st :
  match l_task (uncancel st) with DQueued => set_task DRan (uncancel st) | _ => uncancel st end =
  uncancel (match l_task st with DQueued => set_task DRan st | _ => st end).
Proof. cbn [uncancel l_task]. destruct (l_task st); reflexivity. Qed.

Lemma drop_cancel_conn k c t : drop_cancel (EvOpen k :: EvConnect k c :: t) = EvOpen k :: EvConnect k c :: drop_cancel t.
Proof. reflexivity. Qed.
Lemma drop_cancel_close k : drop_cancel [EvClose k] = [EvClose k].
Proof. reflexivity. Qed.

Ltac dc :=
  unfold drop_cancel;
  repeat first [rewrite filter_app | progress cbn [filter is_stop negb app] | rewrite <- app_assoc].
Ltac dc_in H :=
  unfold drop_cancel in H;
  repeat first [rewrite filter_app in H | progress cbn [filter is_stop negb app] in H | rewrite <- app_assoc in H].

Lemma iteration_rel cfg sc st o e r :
  Cinv st ->
  (forall ph, cancel_here sc (l_iter st) ph = true ->
     l_first st = true \/ (is_success o = true /\ (ph = PConnected \/ ph = PWait))) ->
  iteration cfg sc st o = (e, r) ->
  iteration cfg (without_cancel sc) (uncancel st) o = (drop_cancel e, rmap r) /\
  match r with
  | Running s | Exited s | Blocked s => Cinv s /\ l_first s = l_first st || is_success o
  | Crashed => True
  end.
Proof.
  intros C Hp H. unfold iteration in *. change (l_iter (uncancel st)) with (l_iter st).
  rel_land H ltac:(intros A; destruct (Hp _ A) as [F | (_ & [F|F])]; [exact F | discriminate | discriminate]) s1 e1 c1 L1 R1 C1 K1; [exact C|].
  rewrite R1. cbv beta iota. pose proof K1 as (_ & Kf & _ & Kk & Ki).
  destruct c1; [injection H as <- <-; split; [dc; reflexivity | exact I]|].
  destruct o as [|f|ce].
  - (* dial error *)
    apply wait_rel in H; [| exact C1 | rewrite Ki; intros A; destruct (Hp _ A) as [F | (F & _)]; [congruence | discriminate]].
    destruct H as (H & R). dc_in H. dc. rewrite H. split; [reflexivity|].
    destruct r; auto; destruct R as (Ra & Rb); rewrite Rb, Kf, orb_false_r; auto.
  - (* connect failed *)
    unfold dial_ok in *.
    change (set_client (uncancel s1)) with (uncancel (set_client s1)).
    change (l_iter (uncancel s1)) with (l_iter s1).
    change (l_k (uncancel s1)) with (l_k s1).
    rel_land H ltac:(cbn [set_client l_iter l_first]; rewrite Ki; intros A; destruct (Hp _ A) as [F | (F & _)]; [congruence | discriminate]) s2 e2 c2 L2 R2 C2 K2;
      [unfold Cinv in *; cbn [set_client l_cancel l_first]; exact C1|].
    rewrite R2. cbv beta iota. pose proof K2 as (_ & Kf0 & _ & Kk0 & Ki0). cbn [set_client l_first l_iter] in Kf0, Ki0.
    destruct c2; [injection H as <- <-; split; [dc; reflexivity | exact I]|].
    rewrite (blocks_uncancel _ _ _ C2).
    destruct (blocks cfg f s2).
    + injection H as <- <-. split; [dc; reflexivity|]. split; [exact C2|]. rewrite Kf0, Kf, orb_false_r. reflexivity.
    + rewrite task_uncancel.
      set (st3 := match l_task s2 with DQueued => set_task DRan s2 | _ => s2 end) in *.
      assert (E3 : Cinv st3 /\ l_first st3 = l_first st /\ l_iter st3 = l_iter st).
      { unfold st3, Cinv in *. destruct (l_task s2); cbn [set_task l_cancel l_first l_iter]; repeat split; auto; congruence. }
      destruct E3 as (C3 & F3 & I3).
      apply wait_rel in H; [| exact C3 | rewrite I3, F3; intros A; destruct (Hp _ A) as [F | (F & _)]; [exact F | discriminate]].
      destruct H as (H & R). dc_in H. dc. rewrite H. split; [reflexivity|].
      destruct r; auto; destruct R as (Ra & Rb); rewrite Rb, F3, orb_false_r; auto.
  - (* connected *)
    unfold dial_ok in *.
    change (set_client (uncancel s1)) with (uncancel (set_client s1)).
    change (l_iter (uncancel s1)) with (l_iter s1).
    change (l_k (uncancel s1)) with (l_k s1).
    rel_land H ltac:(cbn [set_client l_iter l_first]; rewrite Ki; intros A; destruct (Hp _ A) as [F | (_ & [F|F])]; [congruence | discriminate | discriminate]) s2 e2 c2 L2 R2 C2 K2;
      [unfold Cinv in *; cbn [set_client l_cancel l_first]; exact C1|].
    rewrite R2. cbv beta iota.
    destruct c2; [injection H as <- <-; split; [dc; reflexivity | exact I]|].
    change (set_first (set_wait (c_base cfg) (uncancel s2))) with (uncancel (set_first (set_wait (c_base cfg) s2))).
    rel_land H ltac:(intros _; reflexivity) s4 e4 c4 L4 R4 C4 K4; [unfold Cinv; intros _; reflexivity|].
    rewrite R4. cbv beta iota. pose proof K4 as (_ & Kf4 & _ & _ & Ki4). cbn [set_first set_wait l_first l_iter] in Kf4, Ki4.
    destruct c4; [injection H as <- <-; split; [dc; reflexivity | exact I]|].
    change (l_disc (uncancel s4)) with (l_disc s4). change (l_task (uncancel s4)) with (l_task s4).
    destruct (exit_events_uncancel s4) as (X1 & X2). unfold drop_cancel in X2. rewrite X1.
    assert (Fin : Cinv s4 /\ l_first s4 = l_first st || is_success (OConnected ce))
      by (split; [exact C4 | rewrite Kf4; cbn [is_success]; rewrite orb_true_r; reflexivity]).
    destruct (l_disc s4).
    + injection H as <- <-. split; [|exact Fin]. destruct (l_task s4); dc; rewrite X2; reflexivity.
    + assert (Hw : cancel_here sc (l_iter s4) PWait = true -> l_first s4 = true) by (intros _; exact Kf4).
      destruct ce;
        try solve [ apply wait_rel in H; [| exact C4 | exact Hw]; destruct H as (H & R); dc_in H; dc; rewrite H; (split; [reflexivity|]);
                    destruct r; auto; destruct R as (Ra & Rb); (split; [exact Ra | rewrite Rb, Kf4; cbn [is_success]; rewrite orb_true_r; reflexivity]) ].
      injection H as <- <-. split; [|exact Fin]. dc. rewrite X2. reflexivity.
Qed.

Lemma cancel_here_true sc i ph : cancel_here sc i ph = true -> sc_cancel sc = Some (i, ph).
Proof.
  unfold cancel_here. destruct (sc_cancel sc) as [[n p]|]; [|discriminate]. intros H.
  apply andb_true_iff in H as [H1 H2]. apply Nat.eqb_eq in H1. subst n.
  destruct p, ph; try discriminate; reflexivity.
Qed.

Definition late_ph (ph : phase) : Prop := ph = PConnected \/ ph = PWait.

(* wherever the cancellation is still to land, a connection has succeeded by then *)
Definition cancel_after_success (sc : scenario) (st : lstate) (script : list outcome) : Prop :=
  forall n ph, sc_cancel sc = Some (n, ph) -> (l_iter st <= n)%nat ->
    l_first st = true \/ existsb is_success (firstn (n - l_iter st) script) = true \/
    (exists o, nth_error script (n - l_iter st) = Some o /\ is_success o = true /\ late_ph ph).

Lemma loop_rel cfg sc script : forall st,
  Cinv st -> cancel_after_success sc st script ->
  loop cfg (without_cancel sc) (uncancel st) script =
    (drop_cancel (fst (loop cfg sc st script)), rmap (snd (loop cfg sc st script))).
Proof.
  induction script as [|o rest IH]; intros st C Hl; [reflexivity|].
  cbn [loop]. destruct (iteration cfg sc st o) as [e1 r1] eqn:It.
  assert (Hp : forall ph, cancel_here sc (l_iter st) ph = true ->
                l_first st = true \/ (is_success o = true /\ (ph = PConnected \/ ph = PWait))).
  { intros ph A. apply cancel_here_true in A. destruct (Hl _ _ A (le_n _)) as [F | [F | (o' & E & Sx & P)]]; [left; exact F | |].
    - rewrite Nat.sub_diag in F. discriminate.
    - rewrite Nat.sub_diag in E. injection E as <-. right. auto. }
  destruct (iteration_rel _ _ _ _ _ _ C Hp It) as (-> & R).
  pose proof (it_struct _ _ _ _ _ _ It) as (_ & _ & _ & Sr).
  destruct r1 as [s1|s1| |s1]; try reflexivity.
  destruct R as (C1 & F1). destruct Sr as (_ & I1 & _). cbn [rmap].
  rewrite IH; [| exact C1 |].
  - destruct (loop cfg sc s1 rest) as [e2 r2]. cbn [fst snd]. rewrite drop_cancel_app. reflexivity.
  - intros n ph A Hn. rewrite I1 in *.
    destruct (Hl _ _ A) as [F | [F | (o' & E & Sx & P)]]; [lia | left; rewrite F1, F; reflexivity | |].
    + replace (n - l_iter st)%nat with (S (n - S (l_iter st))) in F by lia. cbn [firstn existsb] in F.
      apply orb_true_iff in F as [F|F]; [left; rewrite F1, F; apply orb_true_r | right; left; exact F].
    + replace (n - l_iter st)%nat with (S (n - S (l_iter st))) in E by lia. cbn [nth_error] in E.
      right; right. exists o'. auto.
Qed.

(* After the first success no step of the loop depends on the caller's context: if the context
   passed to Connect is cancelled (or expires) at a point by which a connection has succeeded,
   the loop does exactly what it does when the context is never cancelled. *)
Theorem caller_context_irrelevant_after_first_success cfg sc :
  (forall n ph, sc_cancel sc = Some (n, ph) ->
     existsb is_success (firstn n (sc_script sc)) = true \/
     (exists o, nth_error (sc_script sc) n = Some o /\ is_success o = true /\ (ph = PConnected \/ ph = PWait))) ->
  drop_cancel (trace cfg sc) = trace cfg (without_cancel sc).
Proof.
  intros H. unfold trace, run. cbn [sc_script sc_post without_cancel].
  change (init_state cfg) with (uncancel (init_state cfg)) at 2.
  rewrite loop_rel.
  - destruct (loop cfg sc (init_state cfg) (sc_script sc)) as [e r]. cbn [fst snd].
    destruct r as [s|s| |s]; try reflexivity. cbn [rmap].
    change (l_disc (uncancel s)) with (l_disc s). change (l_started (uncancel s)) with (l_started s).
    destruct (sc_post sc && negb (l_disc s)); [|reflexivity]. cbn [fst].
    rewrite drop_cancel_app. unfold post_disconnect. change (l_started (uncancel s)) with (l_started s).
    destruct (l_started s || c_guard cfg); reflexivity.
  - intros A. discriminate.
  - intros n ph A _. cbn [init_state l_iter]. rewrite Nat.sub_0_r. right. apply H. exact A.
Qed.

Example ex_caller_context_irrelevant :
  let sc := mkScenario [ODialErr; OConnected EPeerClose; OConnFail (CRefused 3); OConnected EProtoErr]
                       (Some (3%nat, PWait, true)) (Some (1%nat, PConnected)) false in
  drop_cancel (trace ex_cfg sc) = trace ex_cfg (without_cancel sc) /\
  dials (trace ex_cfg sc) = [0; 1; 2; 3]%nat /\ existsb (is_stop SCancel) (trace ex_cfg sc) = true.
Proof. vm_compute. repeat split. Qed.
