(* Reconnect.v — model of the reconnect loop of mqtt-go (C09).
   Code modelled (line numbers of the tree at commit 515978c): reconnclient.go:63-215 (Connect's loop
   goroutine, Disconnect, timeoutContext 228-233), the parts of retryclient.go that decide what
   Disconnect does (238-254 Disconnect with the nil-chTask guard of fix cbf3ad0, 276-370 SetClient /
   task goroutine: on which client the queued Disconnect task runs), connect.go:107-165 (one CONNECT
   per BaseClient.Connect; the serve-exit goroutine closes the transport before Done() is closed),
   conn.go (Close/Done/Err).

   The loop is a function of
     - a per-iteration outcome oracle (what the dialer / the peer / the keep-alive did), and
     - where a Disconnect call and a cancellation of Connect's context land (iteration, phase).
   It emits the observable events in the program order of the loop goroutine.
   No proofs here (Reconnect_proofs.v). *)
From MQ Require Import Base Codec.
Open Scope Z_scope.

(* ---------- time.Duration arithmetic (int64 nanoseconds, wraps on overflow) ---------- *)
Definition two63 : Z := 9223372036854775808.
Definition wrap64 (z : Z) : Z := (z + two63) mod (2 * two63) - two63.

(* reconnclient.go:180-183   reconnWait *= 2; if reconnWait > max { reconnWait = max } *)
Definition next_wait (max w : Z) : Z :=
  let w2 := wrap64 (w * 2) in if w2 >? max then max else w2.

(* ---------- the oracle ---------- *)
(* why RetryClient.Connect returned an error (reconnclient.go:102, else-branch 160-162) *)
Inductive cfail :=
| CRefused (code : N)      (* CONNACK with a non-zero return code (connect.go:155-160) *)
| CNoConnack               (* no CONNACK ever: Connect returns when ctxConnect is done (connect.go:153), see [blocks] *)
| CPeerClosed              (* transport ended before CONNACK (connect.go:150) *)
| CWriteFail.              (* the transport is already dead: Transport.Write of CONNECT returns an error
                              (connect.go:146-148). The reader goroutine that closes Done() was started
                              before the write (connect.go:120-132), so the loop's clean-up
                              baseCli.Close(); <-baseCli.Done() (reconnclient.go:166-168) still completes *)

(* how an established connection ended (the select at reconnclient.go:145-159) *)
Inductive cend :=
| EPeerClose               (* EOF from the peer: serve returns io.EOF, Err() != nil *)
| EProtoErr                (* malformed / unknown packet: serve returns the error *)
| EKeepAlive               (* no PINGRESP: keep-alive goroutine sets ErrPingTimeout and closes (121-143) *)
| ERetryClose             (* a request failed with a retry handle on a healthy connection (e.g. no PUBACK within
                              ResponseTimeout): the RetryClient task goroutine closes the client to get a new
                              connection (retryclient.go:368-372, cli.Close()): the reader ends with an error, Err() != nil *)
| EGraceful.               (* the base client was disconnected on purpose: Err() == nil (146-151) *)

Inductive outcome :=
| ODialErr                 (* DialContext returned an error (88, 169-171) *)
| OConnFail (f : cfail)    (* dial ok, Connect failed *)
| OConnected (e : cend).   (* dial ok, CONNACK accepted, later ended by e (unless stopped before) *)

(* program points of one iteration at which a Disconnect call / a cancellation can land *)
Inductive phase :=
| PDial                    (* while DialContext is running *)
| PConnect                 (* after CONNECT was written, before Connect returns *)
| PConnected               (* after Connect returned nil, while the loop sits in the select 145-159 *)
| PWait.                   (* after the iteration failed / the connection was lost: select 172-179 *)

Definition phase_eqb (a b : phase) : bool :=
  match a, b with
  | PDial, PDial | PConnect, PConnect | PConnected, PConnected | PWait, PWait => true
  | _, _ => false
  end.

Inductive skind := SDisconnect | SCancel.

(* sc_disc = Some (i, ph, task_first): ReconnectClient.Disconnect is called while iteration i is in
   phase ph. task_first is a scheduling choice that only matters for ph = PDial: whether the task
   goroutine executes the queued Disconnect task (on the previous, dead client) before the loop
   calls SetClient with the newly dialled one.
   sc_cancel = Some (i, ph): Connect's context is cancelled there.
   sc_post: Disconnect is called after the loop has exited for another reason. *)
Record scenario := mkScenario {
  sc_script : list outcome;
  sc_disc : option (nat * phase * bool);
  sc_cancel : option (nat * phase);
  sc_post : bool }.

Record config := mkConfig {
  c_base : Z;                (* ReconnectWaitBase, ns *)
  c_max : Z;                 (* ReconnectWaitMax, ns *)
  c_conn : connect;          (* client id and ConnectOptions given to Connect *)
  c_guard : bool;            (* retryclient.go "if c.chTask != nil" in Disconnect present (true = the code as it is;
                                false = before fix cbf3ad0, kept only to state what the fix repaired) *)
  c_timeout : bool;          (* ReconnectOptions.Timeout <> 0: ctxConnect has a deadline (timeoutContext) *)
  c_abort : bool }.          (* reconnclient.go:92-100: Disconnect cancels ctxConnect (true = the code as it is;
                                false = before fix 515978c, kept only to state what the fix repaired) *)

(* ---------- observable events ---------- *)
Inductive ev :=
| EvDial (i : nat)                   (* i-th call of Dialer.DialContext *)
| EvOpen (k : nat)                   (* DialContext returned the k-th transport *)
| EvConnect (k : nat) (c : connect)  (* a CONNECT packet with these fields handed to Transport.Write on k *)
| EvBadPkt (k : nat)                 (* observation only: first packet on k is not that CONNECT *)
| EvClose (k : nat)                  (* transport k closed *)
| EvWait (d : Z)                     (* the loop sleeps d ns in the select 172-179 *)
| EvExit                             (* loop goroutine returned: close(c.done) (82-84) *)
| EvStop (s : skind)                 (* Disconnect called / context cancelled *)
| EvDiscReturned                     (* ReconnectClient.Disconnect returned *)
| EvPanic.                           (* close of nil channel in RetryClient.Disconnect *)

(* ---------- loop state ---------- *)
(* fate of the Disconnect task pushed by RetryClient.Disconnect (retryclient.go:239-245) *)
Inductive dtask :=
| DNone
| DQueued        (* in taskQueue; runs on the current client as soon as its Connect has returned *)
| DRan.          (* already executed on an older (dead) client; the task goroutine has exited *)

Record lstate := mkL {
  l_wait : Z;          (* reconnWait *)
  l_first : bool;      (* doneOnce ran: ctx == context.Background() (108-112) *)
  l_started : bool;    (* RetryClient.chTask != nil: some SetClient happened (retryclient.go:289-293) *)
  l_disc : bool;       (* c.disconnected closed *)
  l_cancel : bool;     (* Connect's ctx cancelled *)
  l_task : dtask;
  l_k : nat;           (* transports handed out so far *)
  l_iter : nat }.

Definition init_state (cfg : config) : lstate :=
  mkL (c_base cfg) false false false false DNone 0 0.

Definition set_wait w st := mkL w (l_first st) (l_started st) (l_disc st) (l_cancel st) (l_task st) (l_k st) (l_iter st).
Definition set_first st := mkL (l_wait st) true (l_started st) (l_disc st) (l_cancel st) (l_task st) (l_k st) (l_iter st).
Definition set_cancel st := mkL (l_wait st) (l_first st) (l_started st) (l_disc st) true (l_task st) (l_k st) (l_iter st).
Definition set_disc t st := mkL (l_wait st) (l_first st) (l_started st) true (l_cancel st) t (l_k st) (l_iter st).
Definition set_task t st := mkL (l_wait st) (l_first st) (l_started st) (l_disc st) (l_cancel st) t (l_k st) (l_iter st).
(* SetClient (reconnclient.go:89): a new transport is in use, the task goroutine exists *)
Definition set_client st := mkL (l_wait st) (l_first st) true (l_disc st) (l_cancel st) (l_task st) (S (l_k st)) (l_iter st).
Definition next_iter w st := mkL w (l_first st) (l_started st) (l_disc st) (l_cancel st) (l_task st) (l_k st) (S (l_iter st)).

Definition disc_here (sc : scenario) (i : nat) (ph : phase) : option bool :=
  match sc_disc sc with
  | Some (n, p, tf) => if Nat.eqb n i && phase_eqb p ph then Some tf else None
  | None => None
  end.

Definition cancel_here (sc : scenario) (i : nat) (ph : phase) : bool :=
  match sc_cancel sc with
  | Some (n, p) => Nat.eqb n i && phase_eqb p ph
  | None => false
  end.

(* ReconnectClient.Disconnect up to the point where it waits for c.done (reconnclient.go:206-208):
   close(c.disconnected); RetryClient.Disconnect = push the Disconnect task, close(chTask) — which
   is nil until the first SetClient: None = panic. Which client the task runs on:
   retryclient.go:299-368. *)
Definition disc_effect (guard : bool) (ph : phase) (task_first : bool) (st : lstate) : option lstate :=
  if l_started st then
    Some (set_disc (match ph with
                    | PDial => if task_first then DRan else DQueued
                    | PConnect => DQueued
                    | PConnected => DQueued
                    | PWait => DRan
                    end) st)
  else if guard then Some (set_disc DQueued st)
  else None.

(* what lands at program point (i, ph): new state, events, crashed? *)
Definition land (cfg : config) (sc : scenario) (i : nat) (ph : phase) (st : lstate)
  : lstate * list ev * bool :=
  let c := cancel_here sc i ph in
  let st1 := if c then set_cancel st else st in
  let e1 := if c then [EvStop SCancel] else [] in
  match disc_here sc i ph with
  | None => (st1, e1, false)
  | Some tf =>
    match disc_effect (c_guard cfg) ph tf st1 with
    | Some st2 => (st2, e1 ++ [EvStop SDisconnect], false)
    | None => (st1, e1 ++ [EvStop SDisconnect; EvPanic], true)
    end
  end.

Inductive lres :=
| Running (st : lstate)     (* the loop goes on with the next iteration *)
| Exited (st : lstate)      (* the loop goroutine returned *)
| Crashed                   (* the process panicked *)
| Blocked (st : lstate).    (* the loop goroutine waits in Connect for a CONNACK for ever *)

(* A handshake whose CONNACK never comes ends only when ctxConnect is done (connect.go:151-154):
   by its deadline if a timeout is configured, by the caller's context while that still is the
   loop's context (before the first success), or - reconnclient.go:92-100 - by Disconnect. *)
Definition blocks (cfg : config) (f : cfail) (st : lstate) : bool :=
  match f with
  | CNoConnack => negb (c_timeout cfg || (l_cancel st && negb (l_first st)) || (c_abort cfg && l_disc st))
  | _ => false
  end.

(* the events after the loop decided to return; Disconnect (if it was called) then returns
   (reconnclient.go:209-214) *)
Definition exit_events (st : lstate) : list ev :=
  EvExit :: (if l_disc st then [EvDiscReturned] else []).

(* the select at reconnclient.go:172-183 *)
Definition wait_phase (cfg : config) (sc : scenario) (evs : list ev) (st : lstate) : list ev * lres :=
  let '(st1, e1, crashed) := land cfg sc (l_iter st) PWait st in
  if crashed then (evs ++ e1, Crashed)
  else if l_disc st1 then (evs ++ e1 ++ exit_events st1, Exited st1)                 (* 177-178 *)
  else if l_cancel st1 && negb (l_first st1) then (evs ++ e1 ++ exit_events st1, Exited st1)  (* 174-176 *)
  else (evs ++ e1 ++ [EvWait (l_wait st1)],                                           (* 173 *)
        Running (next_iter (next_wait (c_max cfg) (l_wait st1)) st1)).                (* 180-183 *)

(* dial succeeded: SetClient, Connect writes CONNECT (reconnclient.go:88-102, connect.go:131-148);
   returns the state and events up to the point where Connect is about to return *)
Definition dial_ok (cfg : config) (sc : scenario) (st : lstate) : lstate * list ev * bool :=
  let k := l_k st in
  let '(st1, e1, crashed) := land cfg sc (l_iter st) PConnect (set_client st) in
  (st1, [EvOpen k; EvConnect k (c_conn cfg)] ++ e1, crashed).

(* one iteration of the for loop (reconnclient.go:87-184) *)
Definition iteration (cfg : config) (sc : scenario) (st : lstate) (o : outcome) : list ev * lres :=
  let i := l_iter st in
  let '(st1, e1, crashed1) := land cfg sc i PDial st in
  let pre1 := EvDial i :: e1 in
  if crashed1 then (pre1, Crashed) else
  match o with
  | ODialErr => wait_phase cfg sc pre1 st1                                           (* 169-171 *)
  | OConnFail f =>
    let k := l_k st1 in
    let '(st2, e2, crashed2) := dial_ok cfg sc st1 in
    if crashed2 then (pre1 ++ e2, Crashed) else
    if blocks cfg f st2 then (pre1 ++ e2, Blocked st2) else
    (* Connect returned an error: the task goroutine now runs a queued Disconnect task on this
       failed client (retryclient.go:314-319: a closed chConnectErr means "connected") *)
    let st3 := match l_task st2 with DQueued => set_task DRan st2 | _ => st2 end in
    (* 163-168: cancelConnect(); baseCli.Close(); <-baseCli.Done() *)
    wait_phase cfg sc (pre1 ++ e2 ++ [EvClose k]) st3
  | OConnected e =>
    let k := l_k st1 in
    let '(st2, e2, crashed2) := dial_ok cfg sc st1 in
    if crashed2 then (pre1 ++ e2, Crashed) else
    (* 107-112: reset the wait; ctx = context.Background() *)
    let st3 := set_first (set_wait (c_base cfg) st2) in
    let '(st4, e4, crashed4) := land cfg sc i PConnected st3 in
    let pre4 := pre1 ++ e2 ++ e4 in
    if crashed4 then (pre4, Crashed) else
    if l_disc st4 then
      (* 156-158 (or 146-151 after the Disconnect task closed this client): return. The transport
         is closed by the Disconnect task unless that task was already spent on an older client. *)
      (pre4 ++ (match l_task st4 with DRan => [] | _ => [EvClose k] end) ++ exit_events st4, Exited st4)
    else
      match e with
      | EGraceful => (pre4 ++ [EvClose k] ++ exit_events st4, Exited st4)            (* 146-151, Err()==nil *)
      | _ => wait_phase cfg sc (pre4 ++ [EvClose k]) st4                             (* Err()!=nil; 163-168 *)
      end
  end.

Fixpoint loop (cfg : config) (sc : scenario) (st : lstate) (script : list outcome) : list ev * lres :=
  match script with
  | [] => ([], Running st)
  | o :: rest =>
    match iteration cfg sc st o with
    | (e, Running st') => let '(e', r) := loop cfg sc st' rest in (e ++ e', r)
    | (e, r) => (e, r)
    end
  end.

(* The context each DialContext / Connect call of the loop runs under is the loop's variable ctx:
   the caller's context until the first success, context.Background() afterwards (doneOnce,
   reconnclient.go:108-112). It is finished iff the caller's context was cancelled and no
   connection has succeeded yet. *)
Definition ctx_done (st : lstate) : bool := l_cancel st && negb (l_first st).

(* for every iteration the loop starts: is the context it passes to DialContext already finished? *)
Fixpoint dial_ctx_done (cfg : config) (sc : scenario) (st : lstate) (script : list outcome) : list bool :=
  match script with
  | [] => []
  | o :: rest =>
    ctx_done st ::
    match iteration cfg sc st o with
    | (_, Running st') => dial_ctx_done cfg sc st' rest
    | _ => []
    end
  end.

(* Disconnect called after the loop has exited for another reason (cancelled / graceful end) *)
Definition post_disconnect (cfg : config) (st : lstate) : list ev :=
  EvStop SDisconnect :: (if l_started st || c_guard cfg then [EvDiscReturned] else [EvPanic]).

Definition run (cfg : config) (sc : scenario) : list ev * lres :=
  let '(e, r) := loop cfg sc (init_state cfg) (sc_script sc) in
  match r with
  | Exited st => if sc_post sc && negb (l_disc st)
                 then (e ++ post_disconnect cfg st,
                       if l_started st || c_guard cfg then Exited (set_disc (l_task st) st) else Crashed)
                 else (e, r)
  | _ => (e, r)
  end.

Definition trace (cfg : config) (sc : scenario) : list ev := fst (run cfg sc).

(* ---------- projections and executable predicates over traces (the observables) ---------- *)
Fixpoint waits (t : list ev) : list Z :=
  match t with
  | [] => []
  | EvWait d :: r => d :: waits r
  | _ :: r => waits r
  end.

Fixpoint dials (t : list ev) : list nat :=
  match t with
  | [] => []
  | EvDial i :: r => i :: dials r
  | _ :: r => dials r
  end.

Definition is_dial (e : ev) : bool := match e with EvDial _ => true | _ => false end.
Definition is_exit (e : ev) : bool := match e with EvExit => true | _ => false end.
Definition is_ret (e : ev) : bool := match e with EvDiscReturned => true | _ => false end.
Definition is_panic (e : ev) : bool := match e with EvPanic => true | _ => false end.
Definition is_stop (s : skind) (e : ev) : bool :=
  match e, s with
  | EvStop SDisconnect, SDisconnect => true
  | EvStop SCancel, SCancel => true
  | _, _ => false
  end.

(* transports open after the events of t, most recent first *)
Fixpoint live_from (open : list nat) (t : list ev) : list nat :=
  match t with
  | [] => open
  | EvOpen k :: r => live_from (k :: open) r
  | EvClose k :: r => live_from (filter (fun j => negb (Nat.eqb j k)) open) r
  | _ :: r => live_from open r
  end.
Definition live (t : list ev) : list nat := live_from [] t.

(* never two transports open at once: an Open only happens when nothing is open *)
Fixpoint one_open_from (open : list nat) (t : list ev) : bool :=
  match t with
  | [] => true
  | EvOpen k :: r => match open with [] => one_open_from [k] r | _ => false end
  | EvClose k :: r => one_open_from (filter (fun j => negb (Nat.eqb j k)) open) r
  | _ :: r => one_open_from open r
  end.
Definition one_open (t : list ev) : bool := one_open_from [] t.

Definition will_eqb (a b : will) : bool :=
  str_eqb (w_topic a) (w_topic b) && str_eqb (w_payload a) (w_payload b) &&
  N.eqb (w_qos a) (w_qos b) && Bool.eqb (w_retain a) (w_retain b).

Definition connect_eqb (a b : connect) : bool :=
  N.eqb (c_level a) (c_level b) && Bool.eqb (c_clean a) (c_clean b) &&
  N.eqb (c_keepalive a) (c_keepalive b) && str_eqb (c_client_id a) (c_client_id b) &&
  str_eqb (c_user a) (c_user b) && str_eqb (c_pass a) (c_pass b) &&
  option_eqb will_eqb (c_will a) (c_will b).

(* every connection begins with exactly one CONNECT carrying c: each Open k is immediately
   followed by Connect k c, and no other Connect / foreign first packet occurs.
   pend = Some k: the previous event was Open k and its CONNECT is still due *)
Fixpoint conn_ok (c : connect) (pend : option nat) (t : list ev) : bool :=
  match t with
  | [] => match pend with None => true | Some _ => false end
  | e :: r =>
    match pend with
    | Some k =>
      match e with
      | EvConnect k' c' => Nat.eqb k k' && connect_eqb c c' && conn_ok c None r
      | _ => false
      end
    | None =>
      match e with
      | EvOpen k => conn_ok c (Some k) r
      | EvConnect _ _ => false
      | EvBadPkt _ => false
      | _ => conn_ok c None r
      end
    end
  end.
Definition connects_ok (c : connect) (t : list ev) : bool := conn_ok c None t.

(* the part of t after the first event satisfying p (None if there is none) *)
Fixpoint after_first (p : ev -> bool) (t : list ev) : option (list ev) :=
  match t with
  | [] => None
  | e :: r => if p e then Some r else after_first p r
  end.

(* once Disconnect has been called: no further Dial, the loop exits, Disconnect returns, no panic *)
Definition disc_stop_ok (t : list ev) : bool :=
  match after_first (is_stop SDisconnect) t with
  | None => true
  | Some post => negb (existsb is_dial post) && existsb is_ret post && negb (existsb is_panic post)
  end.

(* once the context has been cancelled (before the first success): no further Dial, the loop exits *)
Definition cancel_stop_ok (t : list ev) : bool :=
  match after_first (is_stop SCancel) t with
  | None => true
  | Some post => negb (existsb is_dial post) && existsb is_exit post
  end.

(* ---------- the back-off rule, written independently of the loop ---------- *)
(* the k-th consecutive wait since the last established connection (k = 0: the wait right after
   the connection was lost, or the very first wait) *)
Definition wait_rule (base max : Z) (k : nat) : Z :=
  match k with
  | O => base
  | _ => Z.min (base * 2 ^ Z.of_nat k) max
  end.

Definition is_success (o : outcome) : bool := match o with OConnected _ => true | _ => false end.
Definition is_graceful (o : outcome) : bool := match o with OConnected EGraceful => true | _ => false end.

(* wait after each iteration of the script, j = consecutive failures so far *)
Fixpoint spec_waits (base max : Z) (j : nat) (script : list outcome) : list Z :=
  match script with
  | [] => []
  | o :: rest =>
    if is_success o then wait_rule base max 0 :: spec_waits base max 1 rest
    else wait_rule base max j :: spec_waits base max (S j) rest
  end.
