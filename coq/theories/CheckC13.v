(* CheckC13.v — executable comparison for C13 (used by the generated cases file).
   V_* : the property predicate (specifications spec_result / spec_env / the reaction the
         property prescribes) evaluated on what the implementation did;
   M_* : model output = implementation output.
   Times are microseconds and only ever used as lower bounds for the implementation. *)
From MQ Require Import Base KeepAlive.
Open Scope N_scope.

(* what the harness saw KeepAlive do *)
Inductive impl_res :=
| IRunning                 (* script exhausted and the loop asked for one more ping *)
| INil                     (* KeepAlive returned nil *)
| IErr (timeout canceled deadline : bool) (own : option N)
                           (* errors.Is(err, ErrPingTimeout / context.Canceled / context.DeadlineExceeded),
                              and which scripted ping error it is (errors.Is), if any *)
| IPanic
| IStuck.                  (* nothing happened within the harness's (generous) limit *)

Definition optN_eqb (a b : option N) : bool := option_eqb N.eqb a b.

Definition impl_res_eqb (a b : impl_res) : bool :=
  match a, b with
  | IRunning, IRunning | INil, INil | IPanic, IPanic | IStuck, IStuck => true
  | IErr t c d o, IErr t' c' d' o' => Bool.eqb t t' && Bool.eqb c c' && Bool.eqb d d' && optN_eqb o o'
  | _, _ => false
  end.

(* scripted ping errors: tag 3 wraps context.DeadlineExceeded and tag 4 wraps context.Canceled
   (errors of some OTHER context: hostile look-alikes); every other tag is a plain error *)
Definition expect (r : ka_result) : impl_res :=
  match r with
  | KA_running => IRunning
  | KA_panic => IPanic
  | KA_returned EPingTimeout => IErr true false false None
  | KA_returned (ECtx Canceled) => IErr false true false None
  | KA_returned (ECtx DeadlineExceeded) => IErr false false true None
  | KA_returned (EOwn e) => IErr false (e =? 4) (e =? 3) (Some e)
  end.

Record c13_obs := mk_iobs { io_res : impl_res; io_starts : list N; io_elapsed : N }.

(* ---------- compact script codes ---------- *)
Definition dec_ctx (c : N) : option ctx_err :=
  if c =? 1 then Some Canceled else if c =? 2 then Some DeadlineExceeded else None.

(* (before, beh, d, r, during): beh 0 = PRet d (r=0: nil | error r), beh 1 = PBlock r *)
Definition env_code := (N * N * N * N * N)%type.
Definition dec_env (c : env_code) : ping_env :=
  let '(b, beh, d, r, du) := c in
  mk_env (dec_ctx b) (if beh =? 0 then PRet d (if r =? 0 then None else Some r) else PBlock r) (dec_ctx du).

(* (kind, arg): 0 Answered arg | 1 Never | 2 FailsNow arg | 3 ParentCancelledBefore | 4 ...During
   (arg 1 = Canceled, else DeadlineExceeded) *)
Definition out_code := (N * N)%type.
Definition dec_kind (a : N) : ctx_err := if a =? 1 then Canceled else DeadlineExceeded.
Definition dec_out (c : out_code) : ping_outcome :=
  let '(k, a) := c in
  if k =? 0 then Answered a else if k =? 1 then Never else if k =? 2 then FailsNow a
  else if k =? 3 then ParentCancelledBefore (dec_kind a) else ParentCancelledDuring (dec_kind a).

(* ---------- time lower bounds ---------- *)
Fixpoint all_ge (lo impl : list N) : bool :=      (* same length and pointwise lo <= impl *)
  match lo, impl with
  | [], [] => true
  | a :: lo', b :: impl' => (a <=? b) && all_ge lo' impl'
  | _, _ => false
  end.

(* ping number j (from 1) is not sent before j*I *)
Fixpoint ticks_ok_from (I k : N) (impl : list N) : bool :=
  match impl with
  | [] => true
  | t :: r => (k * I <=? t) && ticks_ok_from I (k + 1) r
  end.
Definition ticks_ok (I : N) (impl : list N) : bool := ticks_ok_from I 1 impl.

Definition elapsed_ok (I T : N) (r : ka_result) (n : nat) (elapsed : N) : bool :=
  match r with
  | KA_returned EPingTimeout => N.of_nat n * I + T <=? elapsed
  | KA_panic => true
  | _ => N.of_nat n * I <=? elapsed
  end.

(* "within the timeout" counts from the ping: ErrPingTimeout is not reported before the previous
   ping's return (its observed start + its scripted duration) plus the timeout.  Sound: the
   per-ping context is created after the previous ping returned. *)
Definition timeout_after_prev (tv : N) (durs starts : list N) (elapsed : N) : bool :=
  match rev starts with
  | _ :: sprev :: _ => sprev + nth (length starts - 2) durs 0 + tv <=? elapsed
  | _ => true
  end.

Definition is_timeout (r : ka_result) : bool :=
  match r with KA_returned EPingTimeout => true | _ => false end.

(* ---------- KeepAlive with a scripted Client / a BaseClient and a scripted broker ---------- *)
Definition c13_out_case := (N * N * list out_code * c13_obs)%type.   (* I, T, script, observation *)
Definition c13_env_case := (N * N * list env_code * c13_obs)%type.

(* property: the first outcome that is not an answer decides; one ping per tick *)
Definition c13_out_spec_ok (c : c13_out_case) : bool :=
  let '(iv, tv, s, obs) := c in
  let '(r, n) := spec_result (map dec_out s) in
  impl_res_eqb (io_res obs) (expect r) && Nat.eqb (length (io_starts obs)) n
  && ticks_ok iv (io_starts obs) && elapsed_ok iv tv r n (io_elapsed obs)
  && (negb (is_timeout r) ||
      timeout_after_prev tv (map (fun c : out_code => let '(k, a) := c in if k =? 0 then a else 0) s)
                         (io_starts obs) (io_elapsed obs)).

Definition model_ok (o : ka_out) (obs : c13_obs) : bool :=
  impl_res_eqb (io_res obs) (expect (ko_result o)) && all_ge (ko_starts o) (io_starts obs)
  && (ko_end o <=? io_elapsed obs).

Definition c13_out_model_ok (c : c13_out_case) : bool :=
  let '(iv, tv, s, obs) := c in model_ok (keepalive iv tv (map dec_out s)) obs.

Definition c13_env_spec_ok (c : c13_env_case) : bool :=
  let '(iv, tv, s, obs) := c in
  let '(r, n) := spec_env iv tv (map dec_env s) in
  impl_res_eqb (io_res obs) (expect r) && Nat.eqb (length (io_starts obs)) n
  && ticks_ok iv (io_starts obs) && elapsed_ok iv tv r n (io_elapsed obs)
  && (negb (is_timeout r) ||
      timeout_after_prev tv (map (fun c : env_code => let '(_, beh, d, _, _) := c in if beh =? 0 then d else 0) s)
                         (io_starts obs) (io_elapsed obs)).

Definition c13_env_model_ok (c : c13_env_case) : bool :=
  let '(iv, tv, s, obs) := c in model_ok (ka_env iv tv (map dec_env s)) obs.

(* a real BaseClient and a peer that sends surplus / zero-delay PINGRESPs: per ping (u unsolicited
   PINGRESPs before its PINGREQ, z PINGRESPs consumed by the reader before Transport.Write of the
   PINGREQ returns, r PINGRESPs queued after that, o batches of other packets — PUBLISH QoS 0/1/2,
   PUBREL, stray acks — sent right after the PINGREQ) *)
Definition c13_wire_case := (N * N * list (nat * nat * nat * nat) * c13_obs)%type.

(* property: the first ping the peer did not answer decides, surplus PINGRESPs or not *)
Definition c13_wire_spec_ok (c : c13_wire_case) : bool :=
  let '(iv, tv, urs, obs) := c in
  let '(r, n) := spec_result (map (fun x => let '(_, z, r, _) := x in match (z + r)%nat with O => Never | _ => Answered 0 end) urs) in
  impl_res_eqb (io_res obs) (expect r) && Nat.eqb (length (io_starts obs)) n
  && ticks_ok iv (io_starts obs) && elapsed_ok iv tv r n (io_elapsed obs).

(* model: the PINGRESP slot machine decides which pings are answered *)
Definition c13_wire_model_ok (c : c13_wire_case) : bool :=
  let '(iv, tv, urs, obs) := c in model_ok (keepalive iv tv (wire_outcomes_talk urs)) obs.

Definition c13_wire_violations (cs : list c13_wire_case) := indices_where (fun c => negb (c13_wire_spec_ok c)) cs.
Definition c13_wire_mismatches (cs : list c13_wire_case) := indices_where (fun c => negb (c13_wire_model_ok c)) cs.

Definition c13_out_violations (cs : list c13_out_case) := indices_where (fun c => negb (c13_out_spec_ok c)) cs.
Definition c13_out_mismatches (cs : list c13_out_case) := indices_where (fun c => negb (c13_out_model_ok c)) cs.
Definition c13_env_violations (cs : list c13_env_case) := indices_where (fun c => negb (c13_env_spec_ok c)) cs.
Definition c13_env_mismatches (cs : list c13_env_case) := indices_where (fun c => negb (c13_env_model_ok c)) cs.

Definition zeros (n : nat) : list ping_outcome := map Answered (repeat 0 n).

Fixpoint tick_list (iv k : N) (n : nat) : list N :=
  match n with O => [] | S m => k * iv :: tick_list iv (k + 1) m end.

(* ---------- pace: the one upper bound on time (with slack; the harness retries before it
   reports a miss) ---------- *)
Definition c13_pace_case := (N * N * N * nat * impl_res * list N)%type.
(* I, slack, d = delay of every answer (d <= I), n answered pings, result, starts *)

Fixpoint all_le_plus (slack : N) (impl lo : list N) : bool :=
  match impl, lo with
  | [], [] => true
  | a :: impl', b :: lo' => (a <=? b + slack) && all_le_plus slack impl' lo'
  | _, _ => false
  end.

(* drift-free cadence: the mean period (t_n - t_1)/(n-1) is within 15 % of [period] *)
Definition mean_period_ok (period : N) (starts : list N) : bool :=
  match starts with
  | t1 :: _ :: _ =>
      let tn := last starts 0 in
      let k := N.of_nat (length starts - 1) in
      (85 * k * period <=? 100 * (tn - t1)) && (100 * (tn - t1) <=? 115 * k * period)
  | _ => false
  end.

Definition c13_pace_spec_ok (c : c13_pace_case) : bool :=
  let '(iv, slack, d, n, res, starts) := c in
  impl_res_eqb res IRunning && Nat.eqb (length starts) n && ticks_ok iv starts
  && all_le_plus slack starts (tick_list iv 1 n) && mean_period_ok iv starts.

Definition c13_pace_model_ok (c : c13_pace_case) : bool :=
  let '(iv, slack, d, n, res, starts) := c in
  let o := keepalive iv (d + 1) (map Answered (repeat d n)) in
  impl_res_eqb res (expect (ko_result o)) && all_ge (ko_starts o) starts && all_le_plus slack starts (ko_starts o)
  && (match ko_starts o with
      | t1 :: _ :: _ => mean_period_ok ((last (ko_starts o) 0 - t1) / N.of_nat (length (ko_starts o) - 1)) starts
      | _ => false
      end).

Definition c13_pace_violations (cs : list c13_pace_case) := indices_where (fun c => negb (c13_pace_spec_ok c)) cs.
Definition c13_pace_mismatches (cs : list c13_pace_case) := indices_where (fun c => negb (c13_pace_model_ok c)) cs.

(* ---------- the reconnecting client against a scripted broker ---------- *)
Inductive sys_case :=
(* the broker answers k pings of a connection, then stays silent (still accepting writes);
   cc = Some m: the caller cancels the context it passed to Connect once m pings were seen
   (0: right after Connect returned);
   hung: after that PINGREQ the peer does not take bytes either (writes block until the
   transport is closed locally); others: packets other than PINGREQ attempted on that connection
   while it was open (acks of inbound PUBLISHes not counted); talk: mute to pings only — after the
   unanswered PINGREQ the peer sends PUBLISH QoS 0/1/2, PUBREL and stray acks *)
| SysSilent (I T : N) (k : nat) (cc : option nat) (hung talk : bool) (others : nat)
    (pings : nat)            (* PINGREQs seen on that connection *)
    (closed redialed connected : bool)  (* client closed that transport / dialled again / sent a fresh CONNECT *)
    (err : impl_res)         (* Err() of that connection's BaseClient *)
    (gap : N)                (* first Close minus the last answer on that connection *)
(* the broker answers every ping; observed after a soak, then after a graceful Disconnect *)
| SysHealthy (I T : N)
    (pings : nat) (elapsed : N) (dials closes : nat) (err err_after : impl_res)
(* the peer drops connection 1 (between two pings, after k answers); connection 2 is healthy *)
| SysDrop (I T : N) (k : nat)
    (dials : nat) (closed2 : bool) (err2 : impl_res) (pings2 : nat)
(* the broker answers k pings and withholds the next answer; Disconnect is called while that
   ping is in flight (it then fails at once with the closed transport) *)
| SysDisc (I T : N) (k : nat)
    (pings dials : nat) (graceful : bool) (err : impl_res)
(* PingInterval I and Timeout T differ; the broker answers every PINGREQ after delay d (< T);
   observed when [need] pings were answered (or the connection was closed / replaced / the
   scenario's limit passed); times = arrival of each PINGREQ since the CONNACK was sent *)
| SysPeer (I T d rt : N) (need : nat)   (* rt = RetryClient.ResponseTimeout (0 = none) *)
    (answered dials closes : nat) (err : impl_res) (times : list N)
(* option-presence sweep: CONNECT keep-alive ka, WithPingInterval p, WithTimeout t (0 = option
   not given).  silent = the broker never answers a PINGREQ (else it answers each at once).
   need = answered pings to reach (healthy); slack = allowance on the detection time (silent);
   detect = first Close by the client minus CONNACK (0 if none within the scenario's limit) *)
| SysOpts (ka p t : N) (silent : bool) (need : nat) (slack : N)
    (pings answered dials closes : nat) (err : impl_res) (detect : N) (times : list N).

Definition st_fresh : clients := fun _ => mk_cli None false.

Definition err_expect (e : option ka_err) : impl_res :=
  match e with None => INil | Some x => expect (KA_returned x) end.


(* property, directly on the observation *)
Definition sys_spec_ok (c : sys_case) : bool :=
  match c with
  | SysSilent iv tv k cc hung talk others pings closed redialed connected err gap =>
      Nat.eqb others 0 && closed && redialed && connected && impl_res_eqb err (IErr true false false None) && (tv <=? gap)
      && Nat.leb (S k) pings
  | SysHealthy iv tv pings elapsed dials closes err err_after =>
      Nat.eqb dials 1 && Nat.eqb closes 0 && impl_res_eqb err INil && impl_res_eqb err_after INil
      && (N.of_nat pings * iv <=? elapsed) && Nat.leb 1 pings
  | SysDrop iv tv k dials closed2 err2 pings2 =>
      Nat.eqb dials 2 && negb closed2 && impl_res_eqb err2 INil && Nat.leb 1 pings2
  | SysDisc iv tv k pings dials graceful err =>
      graceful && Nat.eqb dials 1 && impl_res_eqb err INil
  | SysPeer iv tv d rt need answered dials closes err times =>
      (* a peer that answers within the timeout is kept, pings go out every interval (enough of
         them within the scenario's limit), none before its tick *)
      Nat.leb need answered && Nat.eqb dials 1 && Nat.eqb closes 0 && impl_res_eqb err INil
      && ticks_ok iv times
  | SysOpts ka p t silent need slack pings answered dials closes err detect times =>
      (* the documented rule: PingInterval defaults to the keep-alive, Timeout to PingInterval *)
      let iv := if p =? 0 then ka else p in
      let tv := if t =? 0 then iv else t in
      if iv =? 0 then Nat.eqb pings 0 && Nat.eqb dials 1 && Nat.eqb closes 0 && impl_res_eqb err INil
      else if silent then
        Nat.leb 1 closes && Nat.leb 2 dials && impl_res_eqb err (IErr true false false None)
        && (iv + tv <=? detect) && (detect <=? iv + tv + slack) && ticks_ok iv times
      else
        Nat.leb need answered && Nat.eqb dials 1 && Nat.eqb closes 0 && impl_res_eqb err INil
        && ticks_ok iv times
  end.

(* model: the connection's keep-alive run + the goroutine's reaction + the loop's reaction *)
Definition sys_model_ok (c : sys_case) : bool :=
  match c with
  | SysSilent iv tv k cc hung talk others pings closed redialed connected err gap =>
      match rc_conn_keepalive iv tv (fun j => match cc with Some m => if Nat.leb m j then Some Canceled else None | None => None end) (if talk then wire_outcomes_talk (repeat (O, O, 1%nat, O) k ++ [(O, O, O, 1%nat)]) else zeros k ++ [Never]) with
      | None => false
      | Some o =>
          let st := ka_react 1 o false false st_fresh in
          Nat.eqb pings (KeepAlive.pings o) && impl_res_eqb err (err_expect (cs_err (st 1%nat)))
          && Nat.eqb others (length (filter op_is_write (react_ops o false false)))
          && (match run_ops (negb hung) 1 (react_ops o false false) st_fresh with
              | Some st2 => Bool.eqb closed (cs_closed (st2 1%nat))
              | None => negb closed
              end)
          && Bool.eqb closed (cs_closed (st 1%nat))
          && Bool.eqb redialed (match loop_react 1 st with LRedial => true | _ => false end)
      end
  | SysHealthy iv tv pings elapsed dials closes err err_after =>
      match rc_keepalive iv tv (zeros pings), rc_keepalive iv tv (zeros pings ++ [ParentCancelledBefore Canceled]) with
      | Some o, Some o2 =>
          let st := ka_react 1 o false false st_fresh in
          let st2 := ka_react 1 o2 false true st_fresh in
          impl_res_eqb err (err_expect (cs_err (st 1%nat))) && Bool.eqb (Nat.eqb closes 0) (negb (cs_closed (st 1%nat)))
          && (match loop_react 1 st with LWait => Nat.eqb dials 1 | _ => false end)
          && impl_res_eqb err_after (err_expect (cs_err (st2 1%nat)))
          && all_ge (ko_starts o) (repeat elapsed pings)
      | _, _ => false
      end
  | SysDrop iv tv k dials closed2 err2 pings2 =>
      (* connection 1's keep-alive is cancelled by the loop after the drop and wakes up at its
         next tick, when connection 2 is the current one *)
      match rc_keepalive iv tv (zeros k ++ [ParentCancelledBefore Canceled]) with
      | None => false
      | Some o =>
          let st := ka_react 1 o false false st_fresh in
          impl_res_eqb err2 (err_expect (cs_err (st 2%nat))) && Bool.eqb closed2 (cs_closed (st 2%nat))
          && (match loop_react 2 st with LWait => Nat.eqb dials 2 | _ => false end)
      end
  | SysDisc iv tv k pings dials graceful err =>
      (* tag 2: the ping's own error is the closed transport *)
      match rc_keepalive iv tv (zeros k ++ [FailsNow 2]) with
      | None => false
      | Some o =>
          let st := ka_react 1 o false true st_fresh in
          Nat.eqb pings (KeepAlive.pings o) && impl_res_eqb err (err_expect (cs_err (st 1%nat)))
          && Nat.eqb dials 1 && graceful
      end
  | SysPeer iv tv d rt need answered dials closes err times =>
      match rc_keepalive_cfg (mk_ro iv tv) rt (repeat (Some d) (length times)) with
      | None => false
      | Some o =>
          let st := ka_react 1 o false false st_fresh in
          impl_res_eqb err (err_expect (cs_err (st 1%nat))) && Bool.eqb (Nat.eqb closes 0) (negb (cs_closed (st 1%nat)))
          && (match loop_react 1 st with LWait => Nat.eqb dials 1 | _ => false end)
          && all_ge (ko_starts o) times && Nat.leb need answered
      end
  | SysOpts ka p t silent need slack pings answered dials closes err detect times =>
      let o := rc_effective (mk_ro p t) ka in
      match rc_keepalive_peer o (if silent then [None] else repeat (Some 0) (length times)) with
      | None => Nat.eqb pings 0 && Nat.eqb dials 1 && Nat.eqb closes 0 && impl_res_eqb err INil   (* no keep-alive *)
      | Some out =>
          let st := ka_react 1 out false false st_fresh in
          impl_res_eqb err (err_expect (cs_err (st 1%nat))) && Bool.eqb (Nat.leb 1 closes) (cs_closed (st 1%nat))
          && (match loop_react 1 st with LWait => Nat.eqb dials 1 | LRedial => Nat.leb 2 dials | LStop => false end)
          && (if silent then (ko_end out <=? detect) && (detect <=? ko_end out + slack) && Nat.eqb pings (KeepAlive.pings out)
              else all_ge (ko_starts out) times && Nat.leb need answered)
      end
  end.

Definition c13_sys_violations (cs : list sys_case) := indices_where (fun c => negb (sys_spec_ok c)) cs.
Definition c13_sys_mismatches (cs : list sys_case) := indices_where (fun c => negb (sys_model_ok c)) cs.
