(* RetryInv_WireD.v — part 6: first deliveries by the broker follow the pending order
   (used under closing-only faults). *)
From MQ Require Import Base RetryCore RetrySys CheckRetry RetryProps RetryInv_Wire RetryInv_WireBase.
Open Scope nat_scope.

Definition q1 (S : list uop) : list nat := map uop_uid (filter is_q1plus_pub S).
Definition dq (S : list uop) (D : list nat) : list nat := filter (fun u => mem u (q1 S)) D.

Record KD (S : list uop) (w : world) (k : nat) (Pd Pt : list rentry) : Prop := {
  kd_inc : increasing_from 0 (first_occurrences [] (dq S (deliv w))) = true;
  kd_le : forall x, In x (deliv w) -> forall e, In e (Pd ++ Pt) -> entry_uid e <> 0 -> x <= entry_uid e;
  kd_dead : forall e, In e Pd -> entry_uid e <> 0 -> alive w k = false
}.

Lemma KD_rearr S w k Pd Pt w' Pd' Pt' :
  KD S w k Pd Pt -> deliv w' = deliv w ->
  (forall e, In e (Pd' ++ Pt') -> entry_uid e <> 0 -> In e (Pd ++ Pt)) ->
  (forall e, In e Pd' -> entry_uid e <> 0 -> alive w' k = false) ->
  KD S w' k Pd' Pt'.
Proof. intros [] E H1 H2. split; rewrite ?E; eauto. Qed.

Lemma KD_finish S w k Pd Pt w' k' :
  KD S w k Pd Pt -> deliv w' = deliv w -> KD S w' k' [] (Pd ++ Pt).
Proof. intros [] E. split; rewrite ?E; cbn [List.app]; eauto. intros e []. Qed.

Lemma KD_send fp S w Pd e Pt p e' k w1 r res :
  KB S w (Pd ++ e :: Pt) -> KD S w k Pd (e :: Pt) -> allowed e p e' -> send_post fp w k p w1 r res ->
  KD S w1 k Pd (e' :: Pt).
Proof.
  intros B [] Al [_ _ _ _ sp_mono0 _ sp_deliv0 _].
  assert (He : In e (Pd ++ e :: Pt)) by (apply in_mid; left; reflexivity).
  destruct (allowed_uid _ _ _ Al) as [U1 U2].
  assert (Dead : forall x, In x Pd -> entry_uid x <> 0 -> alive w1 k = false).
  { intros x Hx Nx. destruct (alive w1 k) eqn:A; [|reflexivity].
    rewrite <- (kd_dead0 _ Hx Nx). symmetry. apply sp_mono0. exact A. }
  assert (Old : forall x, In x (deliv w) -> forall y, In y (Pd ++ e' :: Pt) -> entry_uid y <> 0 -> x <= entry_uid y).
  { intros x Hx y Hy Ny. apply in_mid in Hy as [->|Hy].
    - rewrite U1 in *. eapply kd_le0; eauto.
    - eapply kd_le0; eauto. apply in_mid. right; exact Hy. }
  destruct sp_deliv0 as [D|(A & D & Pp)].
  { split; rewrite ?D; auto. }
  destruct (allowed_pubpkt _ _ _ Al Pp) as (m & Hm & Um).
  destruct (kb_sub _ _ _ B _ _ He Hm) as [_ Nm]. rewrite <- (pub_of_uid _ _ Hm) in Nm.
  rewrite U2 in D.
  assert (NoPd : forall x, In x Pd -> entry_uid x = 0).
  { intros x Hx. destruct (Nat.eq_dec (entry_uid x) 0) as [Z|Z]; [exact Z|].
    rewrite (kd_dead0 _ Hx Z) in A. discriminate. }
  destruct (ord_mid _ _ _ (kb_inc _ _ _ B) Nm) as [_ O2].
  split; rewrite ?D; auto.
  - unfold dq. rewrite filter_app. cbn [filter].
    destruct (mem (entry_uid e) (q1 S)); [|rewrite app_nil_r; exact kd_inc0].
    apply fo_inc_snoc; [exact kd_inc0|].
    destruct (mem (entry_uid e) (dq S (deliv w))) eqn:M; [left; apply mem_In; exact M|right].
    split; [lia|]. intros y Hy.
    assert (y <> entry_uid e) by (intros ->; apply mem_false in M; contradiction).
    apply filter_In in Hy as [Hy _].
    specialize (kd_le0 y Hy e He Nm). lia.
  - intros x Hx y Hy Ny. apply in_app_or in Hx as [Hx|[<-|[]]]; [eapply Old; eauto|].
    apply in_mid in Hy as [->|Hy]; [lia|].
    apply in_app_or in Hy as [Hy|Hy]; [specialize (NoPd _ Hy); contradiction|].
    specialize (O2 _ Hy Ny). lia.
Qed.

Lemma mem_app x l1 l2 : mem x (l1 ++ l2) = mem x l1 || mem x l2.
Proof. unfold mem. apply existsb_app. Qed.

Lemma KD_submit S w k P o :
  KB S w P -> KD S w k [] P -> (forall x, In x (uids S) -> x < uop_uid o) ->
  KD (S ++ [o]) w k [] (P ++ [op_entry o]).
Proof.
  intros B [] Hlt. split.
  - replace (dq (S ++ [o]) (deliv w)) with (dq S (deliv w)); [exact kd_inc0|].
    unfold dq. apply filter_ext_in. intros x Hx.
    unfold q1. rewrite filter_app, map_app, mem_app.
    replace (mem x (map uop_uid (filter is_q1plus_pub [o]))) with false; [rewrite orb_false_r; reflexivity|].
    symmetry. apply mem_false. intros Hin. apply in_map_iff in Hin as (o' & <- & Ho').
    apply filter_In in Ho' as [[<-|[]] _].
    specialize (Hlt _ (kb_dsub _ _ _ B _ Hx)). lia.
  - intros x Hx e He Ne. cbn [List.app] in *. apply in_app_or in He as [He|[<-|[]]]; [eauto|].
    rewrite op_entry_uid. specialize (Hlt _ (kb_dsub _ _ _ B _ Hx)). lia.
  - intros e [].
Qed.
