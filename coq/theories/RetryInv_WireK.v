(* RetryInv_WireK.v — part 7: the combined wire invariant K over (world, connection in use,
   entries re-queued by the running task, entries still to run) and its transformations. *)
From MQ Require Import Base RetryCore RetrySys CheckRetry RetryProps
  RetryInv_Wire RetryInv_WireBase RetryInv_WireU RetryInv_WireT RetryInv_WireC RetryInv_WireD.
Open Scope nat_scope.

Record K (fp : fplan) (S : list uop) (w : world) (k : nat) (Pd Pt : list rentry) : Prop := {
  k_b : KB S w (Pd ++ Pt);
  k_u : KU w (Pd ++ Pt);
  k_q : KQ (Pd ++ Pt);
  k_t : KT w Pd Pt;
  k_c : KC w k Pd Pt;
  k_d : closing_only fp -> KD S w k Pd Pt
}.

Lemma K_rearr fp S w k Pd Pt w' Pd' Pt' :
  K fp S w k Pd Pt -> wsame w w' ->
  (w_nrbe w' = false -> forall e, In e Pd' -> entry_uid e = 0) ->
  increasing_from 0 (euids (Pd' ++ Pt')) = true ->
  (forall e, In e (Pd' ++ Pt') -> In e (Pd ++ Pt) \/ (entry_uid e = 0 /\ pub_of e = None)) ->
  (forall e, In e Pt' -> entry_uid e <> 0 -> In e Pt) ->
  (forall e, In e Pd' -> entry_uid e <> 0 -> is_raw e = true /\ (closing_only fp -> alive w' k = false)) ->
  K fp S w' k Pd' Pt'.
Proof.
  intros [] Ws Hn Hi Hin Ht Hd.
  assert (Hin' : forall e, In e (Pd' ++ Pt') -> entry_uid e <> 0 -> In e (Pd ++ Pt)).
  { intros e He Ne. destruct (Hin e He) as [H|[H _]]; [exact H|contradiction]. }
  split.
  - eapply KB_rearr; eauto.
  - eapply KU_rearr; eauto; [apply Ws|]. intros e He. destruct (Hin e He) as [H|[_ H]]; auto.
  - intros m Hm. destruct (Hin _ Hm) as [H|[_ H]]; [auto|discriminate].
  - eapply KT_rearr; eauto; [apply Ws|]. intros e He Ne. apply (Hd e He Ne).
  - eapply KC_rearr; eauto; apply Ws.
  - intros co. eapply KD_rearr; eauto; [apply Ws|]. intros e He Ne. apply (Hd e He Ne). exact co.
Qed.

Lemma K_done_props fp S w k Pd Pt :
  K fp S w k Pd Pt -> forall e, In e Pd -> entry_uid e <> 0 ->
  is_raw e = true /\ (closing_only fp -> alive w k = false).
Proof.
  intros [] e He Ne. split; [eapply kt_pd; eauto|]. intros co. eapply kd_dead; eauto.
Qed.

Lemma K_same fp S w k Pd Pt w' :
  K fp S w k Pd Pt -> wsame w w' -> w_nrbe w' = w_nrbe w -> K fp S w' k Pd Pt.
Proof.
  intros H Ws En. eapply K_rearr; eauto.
  - rewrite En. apply (kc_nrbe _ _ _ _ (k_c _ _ _ _ _ _ H)).
  - apply (kb_inc _ _ _ (k_b _ _ _ _ _ _ H)).
  - intros e He Ne. destruct (K_done_props _ _ _ _ _ _ H e He Ne) as [A B]. split; [exact A|].
    intros co. specialize (B co). destruct (alive w' k) eqn:Q; [|reflexivity].
    apply (ws_mono _ _ Ws) in Q. congruence.
Qed.

Lemma K_drop fp S w k Pd P1 e P2 :
  K fp S w k Pd (P1 ++ e :: P2) -> K fp S w k Pd (P1 ++ P2).
Proof.
  intros H. eapply K_rearr; eauto using wsame_refl.
  - apply (kc_nrbe _ _ _ _ (k_c _ _ _ _ _ _ H)).
  - pose proof (kb_inc _ _ _ (k_b _ _ _ _ _ _ H)) as I. rewrite app_assoc in I |- *.
    eapply inc_drop_mid; eauto.
  - intros x Hx. left. rewrite app_assoc in Hx |- *. apply in_mid. right; exact Hx.
  - intros x Hx _. apply in_mid. right; exact Hx.
  - apply (K_done_props _ _ _ _ _ _ H).
Qed.

Lemma K_drop_head fp S w k Pd e Pt : K fp S w k Pd (e :: Pt) -> K fp S w k Pd Pt.
Proof. apply (K_drop fp S w k Pd [] e Pt). Qed.

Lemma K_drop_all fp S w k Pd P1 Pt : K fp S w k Pd (P1 ++ Pt) -> K fp S w k Pd Pt.
Proof. induction P1 as [|e P1 IH]; [auto|]. intros H. apply IH. apply K_drop_head in H. exact H. Qed.

Lemma euids_zero_mid P1 e P2 : entry_uid e = 0 -> euids (P1 ++ e :: P2) = euids (P1 ++ P2).
Proof. intros Z. rewrite !euids_app, euids_cons, Z. reflexivity. Qed.

Lemma K_ins0_todo fp S w k Pd Pt e0 :
  entry_uid e0 = 0 -> pub_of e0 = None -> K fp S w k Pd Pt -> K fp S w k Pd (e0 :: Pt).
Proof.
  intros Z N H. eapply K_rearr; eauto using wsame_refl.
  - apply (kc_nrbe _ _ _ _ (k_c _ _ _ _ _ _ H)).
  - rewrite (euids_zero_mid _ _ _ Z). apply (kb_inc _ _ _ (k_b _ _ _ _ _ _ H)).
  - intros x Hx. apply in_mid in Hx as [->|Hx]; auto.
  - intros x [<-|Hx] Nx; [contradiction|exact Hx].
  - apply (K_done_props _ _ _ _ _ _ H).
Qed.

Lemma K_ins0_done fp S w k Pd Pt e0 :
  entry_uid e0 = 0 -> pub_of e0 = None -> K fp S w k Pd Pt -> K fp S w k (Pd ++ [e0]) Pt.
Proof.
  intros Z N H. eapply K_rearr; eauto using wsame_refl.
  - intros Q x Hx. apply in_app_or in Hx as [Hx|[<-|[]]]; [|exact Z].
    apply (kc_nrbe _ _ _ _ (k_c _ _ _ _ _ _ H) Q _ Hx).
  - rewrite <- app_assoc. cbn [List.app]. rewrite (euids_zero_mid _ _ _ Z).
    apply (kb_inc _ _ _ (k_b _ _ _ _ _ _ H)).
  - intros x Hx. rewrite <- app_assoc in Hx. cbn [List.app] in Hx. apply in_mid in Hx as [->|Hx]; auto.
  - intros x Hx Nx. apply in_app_or in Hx as [Hx|[<-|[]]]; [|contradiction].
    apply (K_done_props _ _ _ _ _ _ H); auto.
Qed.

(* the entry at the head of the to-do list failed: it is re-queued (queueRetry) *)
Lemma K_move fp S w k Pd e Pt w' :
  K fp S w k Pd (e :: Pt) -> wsame w w' -> w_nrbe w' = true ->
  is_raw e = true -> (closing_only fp -> alive w k = false) ->
  K fp S w' k (Pd ++ [e]) Pt.
Proof.
  intros H Ws Hn Re Hd.
  assert (Mono : forall (co : closing_only fp), alive w k = false -> alive w' k = false).
  { intros _ Q. destruct (alive w' k) eqn:Q'; [|reflexivity]. apply (ws_mono _ _ Ws) in Q'. congruence. }
  eapply K_rearr; eauto.
  - intros Q. congruence.
  - rewrite <- app_assoc. cbn [List.app]. apply (kb_inc _ _ _ (k_b _ _ _ _ _ _ H)).
  - intros x Hx. left. rewrite <- app_assoc in Hx. exact Hx.
  - intros x Hx _. right; exact Hx.
  - intros x Hx Nx. apply in_app_or in Hx as [Hx|[<-|[]]].
    + destruct (K_done_props _ _ _ _ _ _ H x Hx Nx) as [A B]. split; [exact A|]. intros co. auto.
    + split; [exact Re|]. intros co. auto.
Qed.

Lemma K_send fp S w k Pd e Pt p e' w1 r res :
  K fp S w k Pd (e :: Pt) -> allowed e p e' ->
  send_post fp w k p w1 r res -> K fp S w1 k Pd (e' :: Pt).
Proof.
  intros [] Al Sp. split.
  - eapply KB_send; eauto.
  - exact (KU_send S w Pd e Pt p e' k w1 res k_b0 k_u0 Al (sp_wire _ _ _ _ _ _ _ Sp)).
  - intros m Hm. apply in_mid in Hm as [Hm|Hm]; [subst e'; eapply allowed_rpublish; eauto|].
    apply k_q0. apply in_mid. right; exact Hm.
  - exact (KT_send S w Pd e Pt p e' k w1 res k_b0 k_t0 Al (sp_wire _ _ _ _ _ _ _ Sp)).
  - eapply KC_send; eauto.
  - intros co. eapply KD_send; eauto.
Qed.

Lemma K_finish fp S w k Pd Pt w' k' :
  K fp S w k Pd Pt -> wsame w w' -> (w_nrbe w = true -> alive w' k = false) -> w_nrbe w' = false ->
  K fp S w' k' [] (Pd ++ Pt).
Proof.
  intros [] Ws Hk Hn. cbn [List.app]. split; cbn [List.app].
  - apply (KB_rearr S w (Pd ++ Pt) w' (Pd ++ Pt) k_b0 Ws (kb_inc _ _ _ k_b0)). intros e He; left; exact He.
  - apply (KU_rearr w (Pd ++ Pt) w' (Pd ++ Pt) k_u0 (ws_wire _ _ Ws)). intros e He; left; exact He.
  - exact k_q0.
  - apply (KT_rearr w Pd Pt w' [] (Pd ++ Pt) k_t0 (ws_wire _ _ Ws)); [intros e He _; exact He|intros e []].
  - apply (KC_finish w k Pd Pt w' k' k_c0 (ws_wire _ _ Ws)); auto.
    intros j A. left. apply (ws_mono _ _ Ws). exact A.
  - intros co. apply (KD_finish S w k Pd Pt w' k' (k_d0 co) (ws_deliv _ _ Ws)).
Qed.

Lemma K_submit fp S w k P o :
  K fp S w k [] P -> (forall x, In x (uids S) -> x < uop_uid o) -> 0 < uop_uid o ->
  K fp (S ++ [o]) w k [] (P ++ [op_entry o]).
Proof.
  intros [] Hlt Hpos. cbn [List.app] in *. split; cbn [List.app].
  - apply KB_submit; auto.
  - eapply KU_submit; eauto.
  - intros m Hm. apply in_app_or in Hm as [Hm|[Hm|[]]]; [auto|]. destruct o; discriminate.
  - eapply KT_submit; eauto.
  - eapply KC_submit; eauto.
  - intros co. eapply KD_submit; eauto.
Qed.
