(* HandlerSys_proofs.v — proofs for property C17 about the model in HandlerSys.v *)
From MQ Require Import Base HandlerSys.
Open Scope N_scope.

(* ---------- upd ---------- *)
Lemma nth_upd_same k f cs : nth_error (upd k f cs) k = option_map f (nth_error cs k).
Proof.
  revert k; induction cs as [|c r IH]; intros [|k]; cbn [upd nth_error option_map]; try reflexivity.
  apply IH.
Qed.

Lemma nth_upd_other k j f cs : j <> k -> nth_error (upd k f cs) j = nth_error cs j.
Proof.
  revert k j; induction cs as [|c r IH]; intros [|k] [|j] H; cbn [upd nth_error]; try reflexivity.
  - contradiction.
  - apply IH. intros ->. apply H. reflexivity.
Qed.

(* ---------- how the history functions and the runs extend by one label ---------- *)
Lemma last_handle_from_snoc h ls l :
  last_handle_from h (ls ++ [l]) =
  match l with U_handle h' => h' | B_inbound_handle _ _ h' => h' | _ => last_handle_from h ls end.
Proof.
  revert h; induction ls as [|x r IH]; intros h; cbn [app last_handle_from].
  - destruct l; reflexivity.
  - destruct x; rewrite IH; reflexivity.
Qed.

Lemma current_from_snoc c ls l :
  current_from c (ls ++ [l]) = match l with R_set_client k => Some k | _ => current_from c ls end.
Proof.
  revert c; induction ls as [|x r IH]; intros c; cbn [app current_from].
  - destruct l; reflexivity.
  - destruct x; rewrite IH; reflexivity.
Qed.

Lemma count_inbound_snoc ls l :
  count_inbound (ls ++ [l]) =
  (count_inbound ls + match l with B_inbound _ _ => 1 | B_inbound_handle _ _ _ => 1 | B_q2_release _ _ => 1 | _ => 0 end)%nat.
Proof.
  induction ls as [|x r IH]; cbn [app count_inbound].
  - destruct l; reflexivity.
  - destruct x; rewrite IH; reflexivity.
Qed.

Lemma spec_from_snoc h ls l :
  spec_from h (ls ++ [l]) =
  spec_from h ls ++ match l with
                    | B_inbound k m => [Deliver k m (last_handle_from h ls)]
                    | B_inbound_handle k m _ => [Deliver k m (last_handle_from h ls)]
                    | B_q2_release k m => [Deliver k m (last_handle_from h ls)]
                    | _ => []
                    end.
Proof.
  revert h; induction ls as [|x r IH]; intros h; cbn [app spec_from last_handle_from].
  - destruct l; reflexivity.
  - destruct x; rewrite IH; reflexivity.
Qed.

Lemma spec_current_from_snoc h c ls l :
  spec_current_from h c (ls ++ [l]) =
  spec_current_from h c ls ++
  match l with
  | B_inbound k m => [match current_from c ls with
                      | Some k' => if Nat.eqb k k' then Some (Deliver k m (last_handle_from h ls)) else None
                      | None => None
                      end]
  | B_inbound_handle k m _ => [match current_from c ls with
                               | Some k' => if Nat.eqb k k' then Some (Deliver k m (last_handle_from h ls)) else None
                               | None => None
                               end]
  | B_q2_release k m => [match current_from c ls with
                         | Some k' => if Nat.eqb k k' then Some (Deliver k m (last_handle_from h ls)) else None
                         | None => None
                         end]
  | _ => []
  end.
Proof.
  revert h c; induction ls as [|x r IH]; intros h c;
    cbn [app spec_current_from last_handle_from current_from].
  - destruct l; reflexivity.
  - destruct x; rewrite IH; reflexivity.
Qed.

Lemma run_from_app v s evs a b :
  run_from v s evs (a ++ b) =
  match run_from v s evs a with
  | Next s' evs' => run_from v s' evs' b
  | Disabled => Disabled
  | Deadlocked => Deadlocked
  | Panicked => Panicked
  end.
Proof.
  revert s evs; induction a as [|x r IH]; intros s evs; cbn [app run_from]; [reflexivity|].
  destruct (step_gen v s x); try reflexivity. apply IH.
Qed.

Lemma run_from_snoc v s evs ls l :
  run_from v s evs (ls ++ [l]) =
  match run_from v s evs ls with
  | Next s' evs' =>
      match step_gen v s' l with
      | Next s'' e => Next s'' (evs' ++ e)
      | Disabled => Disabled
      | Deadlocked => Deadlocked
      | Panicked => Panicked
      end
  | Disabled => Disabled
  | Deadlocked => Deadlocked
  | Panicked => Panicked
  end.
Proof.
  rewrite run_from_app. destruct (run_from v s evs ls) as [s0 evs0| | |]; try reflexivity.
Qed.

Lemma run_from_events_extend v s evs ls s' evs' :
  run_from v s evs ls = Next s' evs' -> exists t, evs' = evs ++ t.
Proof.
  revert s evs; induction ls as [|x r IH]; intros s evs H; cbn [run_from] in H.
  - injection H as _ <-. exists []. rewrite app_nil_r. reflexivity.
  - destruct (step_gen v s x) as [s1 e| | |]; try discriminate.
    apply IH in H as [t ->]. exists (e ++ t). rewrite app_assoc. reflexivity.
Qed.

Lemma run_loop_from_app s evs a b :
  run_loop_from s evs (a ++ b) =
  match run_loop_from s evs a with
  | Next s' evs' => run_loop_from s' evs' b
  | Disabled => Disabled
  | Deadlocked => Deadlocked
  | Panicked => Panicked
  end.
Proof.
  revert s evs; induction a as [|x r IH]; intros s evs; cbn [app run_loop_from]; [reflexivity|].
  destruct (step_loop s x); try reflexivity. apply IH.
Qed.

(* ---------- inversion of single steps of the faithful model ---------- *)
Lemma on_client_inv s k en f evs s' e :
  on_client s k en f evs = Next s' e ->
  exists c, nth_error (clients s) k = Some c /\ en (c_phase c) = true /\
            s' = with_clients s (upd k f (clients s)) /\ e = evs c.
Proof.
  unfold on_client. destruct (nth_error (clients s) k) as [c|]; [|discriminate].
  destruct (en (c_phase c)) eqn:E; [|discriminate].
  intros H; injection H as <- <-. exists c. repeat split; assumption.
Qed.

Lemma inbound_handle_inv s k m h s' e :
  step s (B_inbound_handle k m h) = Next s' e ->
  exists c hh, nth_error (clients s) k = Some c /\ reader_runs (c_phase c) = true /\
               c_handler c = Some hh /\ s' = do_handle faithful s h /\ e = [Deliver k m (Some hh)].
Proof.
  unfold step, step_gen. destruct (nth_error (clients s) k) as [c|]; [|discriminate].
  destruct (reader_runs (c_phase c)) eqn:E; [|discriminate].
  destruct (c_handler c) as [hh|] eqn:Eh; [|discriminate]. cbn.
  intros H; injection H as <- <-. exists c, hh. repeat split; assumption.
Qed.

(* the steps that touch the inbound stores: their shape *)
Definition inherited_store (s : sys) (k : nat) (c : client) : nat :=
  match cur s with
  | Some j => if Nat.eqb j k then c_store c
              else match nth_error (clients s) j with Some cj => c_store cj | None => c_store c end
  | None => c_store c
  end.

Lemma set_client_inv s k s' e :
  step s (R_set_client k) = Next s' e ->
  exists c st, nth_error (clients s) k = Some c /\ is_fresh (c_phase c) = true /\
    s' = {| rc_handler := rc_handler s; cur := Some k; clients := upd k (set_store st) (clients s);
            stores := stores s |} /\ e = [] /\ st = inherited_store s k c.
Proof.
  unfold step, step_gen, inherited_store. destruct (nth_error (clients s) k) as [c|]; [|discriminate].
  destruct (is_fresh (c_phase c)) eqn:E; [|discriminate]. cbn.
  intros H; injection H as <- <-. exists c. eexists. repeat split. exact E.
  destruct (cur s) as [j|]; [|reflexivity]. rewrite orb_false_r. reflexivity.
Qed.

Lemma q2_publish_inv s k m d s' e :
  step s (B_q2_publish k m d) = Next s' e ->
  exists c, nth_error (clients s) k = Some c /\ reader_runs (c_phase c) = true /\
    s' = with_stores s (upd_st (c_store c) (fun l => (m, c_handler c) :: sb_remove m l) (stores s)) /\ e = [].
Proof.
  unfold step, step_gen. destruct (nth_error (clients s) k) as [c|]; [|discriminate].
  destruct (reader_runs (c_phase c)) eqn:E; [|discriminate]. cbn.
  intros H; injection H as <- <-. exists c. repeat split. exact E.
Qed.

Lemma q2_release_inv s k m s' e :
  step s (B_q2_release k m) = Next s' e ->
  exists c hp, nth_error (clients s) k = Some c /\ reader_runs (c_phase c) = true /\
    sb_lookup m (store_of s c) = Some hp /\
    s' = with_stores s (upd_st (c_store c) (sb_remove m) (stores s)) /\ e = [Deliver k m (c_handler c)].
Proof.
  unfold step, step_gen. destruct (nth_error (clients s) k) as [c|]; [|discriminate].
  destruct (reader_runs (c_phase c)) eqn:E; [|discriminate].
  destruct (sb_lookup m (store_of s c)) as [hp|] eqn:El; [|discriminate]. cbn.
  intros H; injection H as <- <-. exists c, hp. repeat split; assumption.
Qed.

Lemma start_clean_inv s k s' e :
  step s (R_connect_start_clean k) = Next s' e ->
  exists s0 st, on_client s k is_installed (set_phase Reading) no_events = Next s0 e /\ s' = with_stores s0 st.
Proof.
  unfold step, step_gen, on_client. destruct (nth_error (clients s) k) as [c|]; [|discriminate].
  destruct (is_installed (c_phase c)) eqn:E; [|discriminate].
  intros H; injection H as <- <-. eexists. eexists. split; reflexivity.
Qed.

Lemma pubrel_unknown_inv s k m s' e :
  step s (B_pubrel_unknown k m) = Next s' e -> s' = s /\ e = [].
Proof.
  unfold step, step_gen. destruct (nth_error (clients s) k) as [c|]; [|discriminate].
  destruct (reader_runs (c_phase c)); [|discriminate].
  destruct (sb_lookup m (store_of s c)); [discriminate|]. intros H; injection H as <- <-. split; reflexivity.
Qed.

Lemma nth_upd_set_store k st cs j d :
  nth_error (upd k (set_store st) cs) j = Some d ->
  exists c0, nth_error cs j = Some c0 /\ c_phase d = c_phase c0 /\ c_handler d = c_handler c0.
Proof.
  destruct (Nat.eq_dec j k) as [->|Hne].
  - rewrite nth_upd_same. destruct (nth_error cs k) as [c0|]; [|discriminate]. cbn.
    intros H; injection H as <-. exists c0. repeat split.
  - rewrite nth_upd_other by exact Hne. intros H. exists d. repeat split. exact H.
Qed.

(* what one step does to RetryClient.handler and RetryClient.cli *)
Lemma step_rc s l s' e :
  step s l = Next s' e ->
  rc_handler s' = match l with U_handle h => h | B_inbound_handle _ _ h => h | _ => rc_handler s end.
Proof.
  intros H; destruct l;
    try (apply inbound_handle_inv in H as (c & hh & _ & _ & _ & -> & _); reflexivity);
    try (apply pubrel_unknown_inv in H as (-> & _); reflexivity);
    try (apply q2_publish_inv in H as (c & _ & _ & -> & _); reflexivity);
    try (apply q2_release_inv in H as (c & hp & _ & _ & _ & -> & _); reflexivity);
    try (apply start_clean_inv in H as (s0 & st & H & ->); apply on_client_inv in H as (c & _ & _ & -> & _); reflexivity);
    try (apply set_client_inv in H as (c & st & _ & _ & -> & _ & _); reflexivity);
    unfold step, step_gen in H; cbn in H;
    try (apply on_client_inv in H as (c & _ & _ & -> & _); reflexivity).
  - injection H as <- _. reflexivity.
  - injection H as <- _. reflexivity.
  - destruct (cur s); [|discriminate].
    apply on_client_inv in H as (c & _ & _ & -> & _). reflexivity.
Qed.

Lemma step_cur s l s' e :
  step s l = Next s' e ->
  cur s' = match l with R_set_client k => Some k | _ => cur s end.
Proof.
  intros H; destruct l;
    try (apply inbound_handle_inv in H as (c & hh & _ & _ & _ & -> & _); reflexivity);
    try (apply pubrel_unknown_inv in H as (-> & _); reflexivity);
    try (apply q2_publish_inv in H as (c & _ & _ & -> & _); reflexivity);
    try (apply q2_release_inv in H as (c & hp & _ & _ & _ & -> & _); reflexivity);
    try (apply start_clean_inv in H as (s0 & st & H & ->); apply on_client_inv in H as (c & _ & _ & -> & _); reflexivity);
    try (apply set_client_inv in H as (c & st & _ & _ & -> & _ & _); reflexivity);
    unfold step, step_gen in H; cbn in H;
    try (apply on_client_inv in H as (c & _ & _ & -> & _); reflexivity).
  - injection H as <- _. reflexivity.
  - injection H as <- _. reflexivity.
  - destruct (cur s) eqn:Ec; [|discriminate].
    apply on_client_inv in H as (c & _ & _ & -> & _). cbn. exact Ec.
Qed.

(* only an inbound message produces an event: the hand-over to the handler the client holds then *)
Lemma step_events s l s' e :
  step s l = Next s' e ->
  match l with
  | B_inbound k m => exists c, nth_error (clients s) k = Some c /\ reader_runs (c_phase c) = true /\
                               e = [Deliver k m (c_handler c)]
  | B_inbound_handle k m _ => exists c, nth_error (clients s) k = Some c /\ reader_runs (c_phase c) = true /\
                                        c_handler c <> None /\ e = [Deliver k m (c_handler c)]
  | B_q2_release k m => exists c, nth_error (clients s) k = Some c /\ reader_runs (c_phase c) = true /\
                                  e = [Deliver k m (c_handler c)]
  | _ => e = []
  end.
Proof.
  intros H; destruct l;
    try (apply q2_release_inv in H as (c & hp & Hn & He & _ & _ & ->); exists c; auto);
    try (apply q2_publish_inv in H as (c & _ & _ & _ & ->); reflexivity);
    try (apply pubrel_unknown_inv in H as (_ & ->); reflexivity);
    try (apply start_clean_inv in H as (s0 & st & H & _); apply on_client_inv in H as (c & _ & _ & _ & ->); reflexivity);
    try (apply set_client_inv in H as (c & st & _ & _ & _ & -> & _); reflexivity);
    try (apply inbound_handle_inv in H as (c & hh & Hn & He & Hh & _ & ->); exists c; rewrite Hh;
         repeat split; try assumption; discriminate);
    unfold step, step_gen in H; cbn in H;
    try (apply on_client_inv in H as (c & Hn & He & _ & ->); first [reflexivity | exists c; auto]).
  - injection H as _ <-. reflexivity.
  - injection H as _ <-. reflexivity.
  - destruct (cur s); [|discriminate].
    apply on_client_inv in H as (c & _ & _ & _ & ->). reflexivity.
Qed.

(* ---------- the invariant ---------- *)
(* a client has a live or pending connection *)
Definition live (p : phase) : bool := match p with Installed | Reading | Acked => true | _ => false end.

(* the current client, once RetryClient.Connect's install section has run for it, holds exactly
   RetryClient.handler — at all later times while it stays current and its connection lives *)
Definition inv (s : sys) : Prop :=
  forall k c, cur s = Some k -> nth_error (clients s) k = Some c -> live (c_phase c) = true ->
              c_handler c = rc_handler s.

Lemma inv_init : inv init.
Proof. intros k c H; discriminate. Qed.

Lemma inv_on_client s k en f evs s' e :
  inv s ->
  on_client s k en f evs = Next s' e ->
  (forall c, en (c_phase c) = true -> live (c_phase (f c)) = true ->
             (live (c_phase c) = true /\ c_handler (f c) = c_handler c) \/
             (cur s = Some k -> c_handler (f c) = rc_handler s)) ->
  inv s'.
Proof.
  intros I H Hf. apply on_client_inv in H as (c & Hn & He & -> & _).
  intros j d Hc Hj Hp. cbn in Hc, Hj |- *.
  destruct (Nat.eq_dec j k) as [->|Hne].
  - rewrite nth_upd_same, Hn in Hj. cbn in Hj. injection Hj as <-.
    destruct (Hf c He Hp) as [[Hp' Hh]|Hh].
    + rewrite Hh. apply (I k c Hc Hn Hp').
    + apply Hh. exact Hc.
  - rewrite nth_upd_other in Hj by exact Hne. apply (I j d Hc Hj Hp).
Qed.

(* after Handle — from any goroutine, in any state — the current client holds the stored handler *)
Lemma do_handle_inv s h : inv (do_handle faithful s h).
Proof.
  intros j d Hc Hj Hp. cbn in Hc, Hj |- *.
  rewrite Hc in Hj. rewrite nth_upd_same in Hj.
  destruct (nth_error (clients s) j) as [c|]; [|discriminate]. cbn in Hj. injection Hj as <-.
  reflexivity.
Qed.

Lemma step_inv s l s' e : inv s -> step s l = Next s' e -> inv s'.
Proof.
  intros I H. destruct l;
    try (apply inbound_handle_inv in H as (c & hh & _ & _ & _ & -> & _); apply do_handle_inv);
    try (apply q2_publish_inv in H as (c & _ & _ & -> & _); exact I);
    try (apply pubrel_unknown_inv in H as (-> & _); exact I);
    try (apply q2_release_inv in H as (c & hp & _ & _ & _ & -> & _); exact I);
    try (apply start_clean_inv in H as (s0 & st & H & ->);
         assert (I0 : inv s0) by (eapply inv_on_client; [exact I|exact H|]; intros c He Hp; left;
                                  split; [destruct (c_phase c); try discriminate; reflexivity | reflexivity]);
         exact I0);
    try (apply set_client_inv in H as (c & st & Hn & Hf & -> & _ & _);
         intros j d Hc Hj Hp; cbn in Hc, Hj |- *; injection Hc as <-;
         rewrite nth_upd_same, Hn in Hj; cbn in Hj; injection Hj as <-; cbn in Hp;
         destruct (c_phase c); discriminate);
    unfold step, step_gen in H; cbn in H.
  - (* U_handle *)
    injection H as <- _. apply do_handle_inv.
  - (* R_dial *)
    injection H as <- _. intros j d Hc Hj Hp. cbn in Hc, Hj |- *.
    destruct (Nat.lt_ge_cases j (length (clients s))) as [Hlt|Hge].
    + rewrite nth_error_app1 in Hj by exact Hlt. apply (I j d Hc Hj Hp).
    + rewrite nth_error_app2 in Hj by exact Hge.
      destruct (j - length (clients s))%nat as [|n]; cbn in Hj.
      * injection Hj as <-. cbn in Hp. discriminate.
      * destruct n; discriminate.
  - (* R_connect_begin *)
    destruct (cur s) as [k|] eqn:Hc; [|discriminate].
    eapply inv_on_client; [exact I|exact H|]. intros c He Hp. right. intros _. reflexivity.
  - eapply inv_on_client; [exact I|exact H|]. intros c He Hp. left.
    split; [destruct (c_phase c); try discriminate; reflexivity | reflexivity].
  - eapply inv_on_client; [exact I|exact H|]. intros c He Hp. left.
    split; [destruct (c_phase c); try discriminate; reflexivity | reflexivity].
  - eapply inv_on_client; [exact I|exact H|]. intros c He Hp. left.
    split; [exact Hp | reflexivity].
  - eapply inv_on_client; [exact I|exact H|]. intros c He Hp. left.
    split; [exact Hp | reflexivity].
  - eapply inv_on_client; [exact I|exact H|]. intros c He Hp. cbn in Hp. discriminate.
Qed.

(* ---------- state reached by a run, in terms of the history ---------- *)
Lemma run_state ls : forall s evs,
  run ls = Next s evs ->
  inv s /\ rc_handler s = last_handle ls /\ cur s = current_of ls /\ length evs = count_inbound ls.
Proof.
  induction ls as [|l ls IH] using rev_ind; intros s evs H.
  - injection H as <- <-. repeat split. exact inv_init.
  - unfold run, run_gen in H. rewrite run_from_snoc in H.
    destruct (run_from faithful init [] ls) as [s1 evs1| | |] eqn:R; try discriminate.
    destruct (IH s1 evs1 R) as (I & Hrc & Hcur & Hlen).
    destruct (step_gen faithful s1 l) as [s2 e| | |] eqn:S; try discriminate.
    injection H as <- <-. fold (step s1 l) in S.
    unfold last_handle, current_of. rewrite last_handle_from_snoc, current_from_snoc, count_inbound_snoc.
    repeat split.
    + eapply step_inv; eassumption.
    + rewrite (step_rc _ _ _ _ S). destruct l; try exact Hrc; reflexivity.
    + rewrite (step_cur _ _ _ _ S). destruct l; try exact Hcur. reflexivity.
    + rewrite app_length, Hlen. apply step_events in S.
      destruct l; try (rewrite S; reflexivity).
      * destruct S as (c & _ & _ & ->). reflexivity.
      * destruct S as (c & _ & _ & _ & ->). reflexivity.
      * destruct S as (c & _ & _ & ->). reflexivity.
Qed.

Lemma run_prefix pre post s evs :
  run (pre ++ post) = Next s evs ->
  exists s1 evs1, run pre = Next s1 evs1 /\ run_from faithful s1 evs1 post = Next s evs.
Proof.
  unfold run, run_gen. rewrite run_from_app.
  destruct (run_from faithful init [] pre) as [s1 evs1| | |]; try discriminate.
  intros H. exists s1, evs1. split; [reflexivity|exact H].
Qed.

(* ---------- C17_handler_installed ---------- *)
(* whenever RetryClient.Connect's install section runs — after any history — the client it is
   about to connect holds the handler registered by the latest Handle call *)
Lemma handler_installed ls s evs :
  run (ls ++ [R_connect_begin]) = Next s evs ->
  exists k c, cur s = Some k /\ nth_error (clients s) k = Some c /\ c_phase c = Installed /\
              c_handler c = rc_handler s /\ rc_handler s = last_handle ls.
Proof.
  intros H. destruct (run_prefix _ _ _ _ H) as (s1 & evs1 & R & S).
  destruct (run_state _ _ _ R) as (_ & Hrc & _ & _).
  cbn [run_from] in S. destruct (step_gen faithful s1 R_connect_begin) as [s2 e| | |] eqn:E; try discriminate.
  injection S as <- _. unfold step_gen in E. cbn in E.
  destruct (cur s1) as [k|] eqn:Hc; [|discriminate].
  apply on_client_inv in E as (c & Hn & _ & -> & _).
  exists k, {| c_handler := rc_handler s1; c_phase := Installed; c_store := c_store c |}. cbn.
  rewrite nth_upd_same, Hn. repeat split; try assumption.
Qed.

(* ---------- C17_handle_forwards ---------- *)
(* Handle, at any moment of any history, stores the handler and puts it on the current client *)
Lemma handle_forwards ls h s evs :
  run (ls ++ [U_handle h]) = Next s evs ->
  rc_handler s = h /\ cur s = current_of ls /\
  forall k c, cur s = Some k -> nth_error (clients s) k = Some c -> c_handler c = h.
Proof.
  intros H. destruct (run_prefix _ _ _ _ H) as (s1 & evs1 & R & S).
  destruct (run_state _ _ _ R) as (_ & _ & Hcur & _).
  cbn in S. injection S as <- _. cbn. repeat split; [exact Hcur|].
  intros k c Hc Hn. rewrite Hc in Hn. rewrite nth_upd_same in Hn.
  destruct (nth_error (clients s1) k); [|discriminate]. injection Hn as <-. reflexivity.
Qed.

(* ---------- C17_invariant ---------- *)
Lemma invariant ls s evs :
  run ls = Next s evs ->
  forall k c, current_of ls = Some k -> nth_error (clients s) k = Some c -> live (c_phase c) = true ->
              c_handler c = last_handle ls.
Proof.
  intros H k c Hc Hn Hl. destruct (run_state _ _ _ H) as (I & Hrc & Hcur & _).
  rewrite <- Hrc. apply (I k c); [rewrite Hcur; exact Hc|exact Hn|exact Hl].
Qed.

(* ---------- C17_delivery ---------- *)
(* every inbound message processed on the connection that is current at that moment is handed to
   the handler registered by the latest Handle call before it (nil handler: to nobody) *)
Lemma delivery pre k m post s evs :
  run (pre ++ B_inbound k m :: post) = Next s evs ->
  current_of pre = Some k ->
  nth_error evs (count_inbound pre) = Some (Deliver k m (last_handle pre)).
Proof.
  intros H Hk. destruct (run_prefix _ _ _ _ H) as (s1 & evs1 & R & S).
  destruct (run_state _ _ _ R) as (I & Hrc & Hcur & Hlen).
  cbn [run_from] in S. destruct (step_gen faithful s1 (B_inbound k m)) as [s2 e| | |] eqn:E; try discriminate.
  fold (step s1 (B_inbound k m)) in E. apply step_events in E as (c & Hn & Hr & ->).
  apply run_from_events_extend in S as [t ->].
  rewrite <- app_assoc, nth_error_app2 by lia. rewrite Hlen, Nat.sub_diag. cbn.
  rewrite <- Hrc. f_equal. f_equal. apply (I k c); [rewrite Hcur; exact Hk|exact Hn|].
  destruct (c_phase c); try discriminate; reflexivity.
Qed.

(* ... and so is a message whose handler, while running, replaces the handler through the
   RetryClient: the message itself goes to the handler registered before, which is non-nil *)
Lemma delivery_reentrant pre k m h' post s evs :
  run (pre ++ B_inbound_handle k m h' :: post) = Next s evs ->
  current_of pre = Some k ->
  last_handle pre <> None /\
  nth_error evs (count_inbound pre) = Some (Deliver k m (last_handle pre)).
Proof.
  intros H Hk. destruct (run_prefix _ _ _ _ H) as (s1 & evs1 & R & S).
  destruct (run_state _ _ _ R) as (I & Hrc & Hcur & Hlen).
  cbn [run_from] in S. destruct (step_gen faithful s1 (B_inbound_handle k m h')) as [s2 e| | |] eqn:E; try discriminate.
  fold (step s1 (B_inbound_handle k m h')) in E. apply step_events in E as (c & Hn & Hr & Hnn & ->).
  apply run_from_events_extend in S as [t ->].
  assert (Hc : c_handler c = last_handle pre).
  { rewrite <- Hrc. apply (I k c); [rewrite Hcur; exact Hk|exact Hn|].
    destruct (c_phase c); try discriminate; reflexivity. }
  split; [rewrite <- Hc; exact Hnn|].
  rewrite <- app_assoc, nth_error_app2 by lia. rewrite Hlen, Nat.sub_diag. cbn. rewrite Hc. reflexivity.
Qed.

(* a Handle call from inside a handler callback never blocks: no step of /repo's model deadlocks *)
Lemma step_no_deadlock s l : step s l <> Deadlocked.
Proof.
  unfold step, step_gen, on_client. destruct l; cbn; try discriminate;
    repeat match goal with
           | |- context [match ?x with _ => _ end] => destruct x; cbn; try discriminate
           end.
Qed.

Lemma run_from_no_deadlock s evs ls : run_from faithful s evs ls <> Deadlocked.
Proof.
  revert s evs; induction ls as [|l r IH]; intros s evs; cbn [run_from]; [discriminate|].
  destruct (step_gen faithful s l) as [s1 e| | |] eqn:E; try discriminate; [apply IH|].
  exfalso. exact (step_no_deadlock s l E).
Qed.

Lemma no_deadlock ls : run ls <> Deadlocked.
Proof. apply run_from_no_deadlock. Qed.

(* the same as an executable predicate over the whole log (what the harness evaluates on the
   implementation's observations) *)
Lemma meets_app c1 e1 c2 e2 :
  meets c1 e1 = true -> meets c2 e2 = true -> meets (c1 ++ c2) (e1 ++ e2) = true.
Proof.
  revert e1; induction c1 as [|[x|] r IH]; intros [|e er] H1 H2; cbn [app meets] in *; try discriminate.
  - exact H2.
  - apply andb_true_iff in H1 as [Ha Hb]. rewrite Ha. cbn. apply IH; assumption.
  - apply IH; assumption.
Qed.

Lemma event_eqb_refl e : event_eqb e e = true.
Proof.
  destruct e as [k m h]. cbn. rewrite Nat.eqb_refl, N.eqb_refl. cbn.
  destruct h; cbn; [apply N.eqb_refl|reflexivity].
Qed.

Lemma delivery_meets ls : forall s evs, run ls = Next s evs -> meets (spec_current ls) evs = true.
Proof.
  induction ls as [|l ls IH] using rev_ind; intros s evs H.
  - injection H as _ <-. reflexivity.
  - unfold run, run_gen in H. rewrite run_from_snoc in H.
    destruct (run_from faithful init [] ls) as [s1 evs1| | |] eqn:R; try discriminate.
    destruct (run_state ls s1 evs1 R) as (I & Hrc & Hcur & _).
    specialize (IH s1 evs1 R).
    destruct (step_gen faithful s1 l) as [s2 e| | |] eqn:S; try discriminate.
    injection H as _ <-. fold (step s1 l) in S. apply step_events in S.
    unfold spec_current. rewrite spec_current_from_snoc. apply meets_app; [exact IH|].
    assert (Hin : forall k m c, nth_error (clients s1) k = Some c -> reader_runs (c_phase c) = true ->
              meets [match current_of ls with
                     | Some k' => if Nat.eqb k k' then Some (Deliver k m (last_handle ls)) else None
                     | None => None
                     end] [Deliver k m (c_handler c)] = true).
    { intros k m c Hn Hr.
      destruct (current_of ls) as [k'|] eqn:Ek; [|reflexivity].
      destruct (Nat.eqb k k') eqn:Ekk; [|reflexivity].
      apply Nat.eqb_eq in Ekk. subst k'. cbn [meets]. rewrite andb_true_r.
      rewrite <- Hrc. rewrite (I k c); [apply event_eqb_refl|rewrite Hcur; reflexivity|exact Hn|].
      destruct (c_phase c); try discriminate; reflexivity. }
    destruct l; try (rewrite S; reflexivity).
    + destruct S as (c & Hn & Hr & ->). apply Hin; assumption.
    + destruct S as (c & Hn & Hr & _ & ->). apply Hin; assumption.
    + destruct S as (c & Hn & Hr & ->). apply Hin; assumption.
Qed.

(* ---------- the reconnect loop: every connection, every message ---------- *)
Lemma step_loop_step s l s' e : step_loop s l = Next s' e -> step s l = Next s' e.
Proof. unfold step_loop. destruct l; try (intros H; exact H). destruct (quiet s); [intros H; exact H|discriminate]. Qed.

Lemma run_loop_from_run s evs ls s' evs' :
  run_loop_from s evs ls = Next s' evs' -> run_from faithful s evs ls = Next s' evs'.
Proof.
  revert s evs; induction ls as [|l r IH]; intros s evs H; cbn [run_loop_from run_from] in *; [exact H|].
  destruct (step_loop s l) as [s1 e| | |] eqn:S; try discriminate.
  apply step_loop_step in S. unfold step in S. rewrite S. apply IH. exact H.
Qed.

(* under the loop's discipline a client with a live or pending connection is the current one *)
Definition live_is_cur (s : sys) : Prop :=
  forall k c, nth_error (clients s) k = Some c -> live (c_phase c) = true -> cur s = Some k.

Lemma quiet_no_live s : quiet s = true -> forall k c, nth_error (clients s) k = Some c -> live (c_phase c) = false.
Proof.
  unfold quiet. intros Q k c Hn. rewrite forallb_forall in Q.
  specialize (Q c (nth_error_In _ _ Hn)). destruct (c_phase c); try discriminate; reflexivity.
Qed.

Lemma live_is_cur_on_client s k en f evs s' e :
  live_is_cur s ->
  on_client s k en f evs = Next s' e ->
  (forall c, en (c_phase c) = true -> live (c_phase (f c)) = true -> live (c_phase c) = true \/ cur s = Some k) ->
  live_is_cur s'.
Proof.
  intros L H Hf. apply on_client_inv in H as (c & Hn & He & -> & _).
  intros j d Hj Hl. cbn in Hj |- *.
  destruct (Nat.eq_dec j k) as [->|Hne].
  - rewrite nth_upd_same, Hn in Hj. cbn in Hj. injection Hj as <-.
    destruct (Hf c He Hl) as [Hl'|Hc]; [apply (L k c Hn Hl')|exact Hc].
  - rewrite nth_upd_other in Hj by exact Hne. apply (L j d Hj Hl).
Qed.

Lemma do_handle_live_is_cur s h : live_is_cur s -> live_is_cur (do_handle faithful s h).
Proof.
  intros L j d Hj Hl. cbn in Hj |- *.
  destruct (cur s) as [k|] eqn:Hc.
  - destruct (Nat.eq_dec j k) as [->|Hne]; [reflexivity|].
    rewrite nth_upd_other in Hj by exact Hne. rewrite <- Hc. apply (L j d Hj Hl).
  - rewrite <- Hc. apply (L j d Hj Hl).
Qed.

Lemma step_loop_live_is_cur s l s' e : live_is_cur s -> step_loop s l = Next s' e -> live_is_cur s'.
Proof.
  intros L H. unfold step_loop in H.
  destruct l;
    try (apply inbound_handle_inv in H as (c & hh & _ & _ & _ & -> & _); apply do_handle_live_is_cur; exact L);
    try (apply q2_publish_inv in H as (c & _ & _ & -> & _); exact L);
    try (apply pubrel_unknown_inv in H as (-> & _); exact L);
    try (apply q2_release_inv in H as (c & hp & _ & _ & _ & -> & _); exact L);
    try (apply start_clean_inv in H as (s0 & st & H & ->);
         assert (L0 : live_is_cur s0) by (eapply live_is_cur_on_client; [exact L|exact H|]; intros c He _; left;
                                          destruct (c_phase c); try discriminate; reflexivity);
         exact L0);
    try (destruct (quiet s) eqn:Q; [|discriminate];
         apply set_client_inv in H as (c & st & Hn & Hf & -> & _ & _);
         intros j d Hj Hl; cbn in Hj; apply nth_upd_set_store in Hj as (c0 & Hj0 & Hp0 & _);
         rewrite Hp0, (quiet_no_live s Q j c0 Hj0) in Hl; discriminate);
    unfold step, step_gen in H; cbn in H.
  - injection H as <- _. apply do_handle_live_is_cur; exact L.
  - injection H as <- _. intros j d Hj Hl. cbn in Hj |- *.
    destruct (Nat.lt_ge_cases j (length (clients s))) as [Hlt|Hge].
    + rewrite nth_error_app1 in Hj by exact Hlt. apply (L j d Hj Hl).
    + rewrite nth_error_app2 in Hj by exact Hge.
      destruct (j - length (clients s))%nat as [|n]; cbn in Hj.
      * injection Hj as <-. discriminate.
      * destruct n; discriminate.
  - destruct (cur s) as [k|] eqn:Hc; [|discriminate].
    eapply live_is_cur_on_client; [exact L|exact H|]. intros c _ _. right. exact Hc.
  - eapply live_is_cur_on_client; [exact L|exact H|]. intros c He _. left.
    destruct (c_phase c); try discriminate; reflexivity.
  - eapply live_is_cur_on_client; [exact L|exact H|]. intros c He _. left.
    destruct (c_phase c); try discriminate; reflexivity.
  - eapply live_is_cur_on_client; [exact L|exact H|]. intros c He Hl. left. exact Hl.
  - eapply live_is_cur_on_client; [exact L|exact H|]. intros c He Hl. left. exact Hl.
  - eapply live_is_cur_on_client; [exact L|exact H|]. intros c He Hl. cbn in Hl. discriminate.
Qed.

Lemma run_loop_snoc ls l :
  run_loop (ls ++ [l]) =
  match run_loop ls with
  | Next s' evs' =>
      match step_loop s' l with
      | Next s'' e => Next s'' (evs' ++ e)
      | Disabled => Disabled
      | Deadlocked => Deadlocked
      | Panicked => Panicked
      end
  | Disabled => Disabled
  | Deadlocked => Deadlocked
  | Panicked => Panicked
  end.
Proof.
  unfold run_loop. rewrite run_loop_from_app.
  destruct (run_loop_from init [] ls) as [s0 evs0| | |]; reflexivity.
Qed.

Lemma run_loop_run ls s evs : run_loop ls = Next s evs -> run ls = Next s evs.
Proof. apply run_loop_from_run. Qed.

(* the loop's schedules: the whole delivery log is the one a user is entitled to — reconnects,
   and the position of Handle relative to Dial / SetClient / Connect / CONNACK, are invisible *)
Lemma loop_delivery ls : forall s evs,
  run_loop ls = Next s evs -> live_is_cur s /\ evs = spec_events ls.
Proof.
  induction ls as [|l ls IH] using rev_ind; intros s evs H.
  - injection H as <- <-. split; [|reflexivity]. intros k c Hn. destruct k; discriminate.
  - rewrite run_loop_snoc in H.
    destruct (run_loop ls) as [s1 evs1| | |] eqn:R; try discriminate.
    destruct (IH s1 evs1 eq_refl) as (L & ->).
    destruct (run_state ls s1 _ (run_loop_run _ _ _ R)) as (I & Hrc & Hcur & _).
    destruct (step_loop s1 l) as [s2 e| | |] eqn:S; try discriminate.
    injection H as <- <-. split; [eapply step_loop_live_is_cur; eassumption|].
    apply step_loop_step, step_events in S.
    unfold spec_events. rewrite spec_from_snoc. f_equal.
    assert (Hin : forall k c, nth_error (clients s1) k = Some c -> reader_runs (c_phase c) = true ->
                              c_handler c = last_handle_from None ls).
    { intros k c Hn Hr. fold (last_handle ls). rewrite <- Hrc.
      assert (Hl : live (c_phase c) = true) by (destruct (c_phase c); try discriminate; reflexivity).
      apply (I k c (L k c Hn Hl) Hn Hl). }
    destruct l; try exact S.
    + destruct S as (c & Hn & Hr & ->). rewrite (Hin k c Hn Hr). reflexivity.
    + destruct S as (c & Hn & Hr & _ & ->). rewrite (Hin k c Hn Hr). reflexivity.
    + destruct S as (c & Hn & Hr & ->). rewrite (Hin k c Hn Hr). reflexivity.
Qed.

Lemma spec_from_nth h pre k m post :
  nth_error (spec_from h (pre ++ B_inbound k m :: post)) (count_inbound pre) =
  Some (Deliver k m (last_handle_from h pre)).
Proof.
  revert h; induction pre as [|x r IH]; intros h; cbn [app spec_from count_inbound last_handle_from nth_error].
  - reflexivity.
  - destruct x; cbn [nth_error]; apply IH.
Qed.

(* no message is dropped merely because a reconnect replaced the connection object: on a loop
   schedule, a message arriving on ANY connection while a non-nil handler h is registered is
   handed to h *)
Lemma loop_never_dropped pre k m post s evs h :
  run_loop (pre ++ B_inbound k m :: post) = Next s evs ->
  last_handle pre = Some h ->
  nth_error evs (count_inbound pre) = Some (Deliver k m (Some h)).
Proof.
  intros H Hh. apply loop_delivery in H as [_ ->]. unfold spec_events.
  rewrite spec_from_nth. fold (last_handle pre). rewrite Hh. reflexivity.
Qed.

(* ---------- every connection, also a replaced one: run = history account ---------- *)
Lemma hist_from_app t evs a b :
  hist_from t evs (a ++ b) = let '(t1, e1) := hist_from t evs a in hist_from t1 e1 b.
Proof.
  revert t evs; induction a as [|x r IH]; intros t evs; cbn [app hist_from]; [reflexivity|].
  destruct (hist_step t x) as [t' e]. apply IH.
Qed.

Lemma hist_from_snoc t evs ls l :
  hist_from t evs (ls ++ [l]) =
  let '(t1, e1) := hist_from t evs ls in let '(t2, e) := hist_step t1 l in (t2, e1 ++ e).
Proof.
  rewrite hist_from_app. destruct (hist_from t evs ls) as [t1 e1]. cbn [hist_from].
  destruct (hist_step t1 l) as [t2 e]. reflexivity.
Qed.

Lemma map_upd_put k f h cs :
  (forall c, c_handler (f c) = h) -> map c_handler (upd k f cs) = set_nth k h (map c_handler cs).
Proof.
  intros Hf. revert k; induction cs as [|c r IH]; intros [|k]; cbn [upd map set_nth]; try reflexivity.
  - rewrite Hf. reflexivity.
  - rewrite IH. reflexivity.
Qed.

Lemma map_upd_keep k f cs :
  (forall c, c_handler (f c) = c_handler c) -> map c_handler (upd k f cs) = map c_handler cs.
Proof.
  intros Hf. revert k; induction cs as [|c r IH]; intros [|k]; cbn [upd map]; try reflexivity.
  - rewrite Hf. reflexivity.
  - rewrite IH. reflexivity.
Qed.

Definition agree (s : sys) (t : hist) : Prop :=
  rc_handler s = h_reg t /\ cur s = h_cur t /\ map c_handler (clients s) = h_inst t.

Lemma do_handle_agree s t h : agree s t -> agree (do_handle faithful s h) (hist_handle t h).
Proof.
  intros (Hr & Hc & Hm). unfold agree, do_handle, hist_handle. cbn. rewrite <- Hc, <- Hm.
  repeat split. destruct (cur s) as [k|]; [|reflexivity].
  apply map_upd_put. reflexivity.
Qed.

Lemma on_client_keep_agree s t k en f evs s' e :
  agree s t -> on_client s k en f evs = Next s' e ->
  (forall c, c_handler (f c) = c_handler c) -> agree s' t.
Proof.
  intros (Hr & Hc & Hm) H Hf. apply on_client_inv in H as (c & _ & _ & -> & _).
  unfold agree. cbn. rewrite map_upd_keep by exact Hf. repeat split; assumption.
Qed.

Lemma step_agree s t l s' e :
  agree s t -> step s l = Next s' e -> agree s' (fst (hist_step t l)).
Proof.
  intros A H. destruct l;
    try (apply inbound_handle_inv in H as (c & hh & _ & _ & _ & -> & _); apply do_handle_agree; exact A);
    try (apply q2_publish_inv in H as (c & _ & _ & -> & _); exact A);
    try (apply pubrel_unknown_inv in H as (-> & _); exact A);
    try (apply q2_release_inv in H as (c & hp & _ & _ & _ & -> & _); exact A);
    try (apply start_clean_inv in H as (s0 & st & H & ->);
         assert (A0 : agree s0 t) by (eapply on_client_keep_agree; [exact A|exact H|reflexivity]);
         exact A0);
    try (apply set_client_inv in H as (c & st & _ & _ & -> & _ & _);
         destruct A as (Hr & Hc & Hm); unfold agree; cbn;
         rewrite map_upd_keep by reflexivity; repeat split; assumption);
    unfold step, step_gen in H; cbn in H; cbn [hist_step fst].
  - injection H as <- _. apply do_handle_agree; exact A.
  - injection H as <- _. destruct A as (Hr & Hc & Hm). unfold agree. cbn.
    rewrite map_app, Hm. repeat split; assumption.
  - destruct A as (Hr & Hc & Hm). destruct (cur s) as [k|] eqn:Ec; [|discriminate].
    apply on_client_inv in H as (c & _ & _ & -> & _). rewrite <- Hc.
    unfold agree. cbn. rewrite <- Hr, <- Hm. repeat split; try assumption.
    apply map_upd_put. reflexivity.
  - eapply on_client_keep_agree; [exact A|exact H|reflexivity].
  - eapply on_client_keep_agree; [exact A|exact H|reflexivity].
  - eapply on_client_keep_agree; [exact A|exact H|reflexivity].
  - eapply on_client_keep_agree; [exact A|exact H|reflexivity].
  - eapply on_client_keep_agree; [exact A|exact H|reflexivity].
Qed.

(* the handler a reader finds = the one the history entitles the message to *)
Lemma found_is_entitled s t k c :
  inv s -> agree s t -> nth_error (clients s) k = Some c -> reader_runs (c_phase c) = true ->
  c_handler c = entitled t k.
Proof.
  intros I (Hr & Hc & Hm) Hn Hrun. unfold entitled, installed. rewrite <- Hc, <- Hm, <- Hr.
  assert (Hi : match nth_error (map c_handler (clients s)) k with Some x => x | None => None end = c_handler c).
  { rewrite nth_error_map, Hn. reflexivity. }
  destruct (cur s) as [k'|] eqn:Ec; [|symmetry; exact Hi].
  destruct (Nat.eqb k k') eqn:E; [|symmetry; exact Hi].
  apply Nat.eqb_eq in E. subst k'. apply (I k c Ec Hn).
  destruct (c_phase c); try discriminate; reflexivity.
Qed.

Lemma step_events_hist s t l s' e :
  inv s -> agree s t -> step s l = Next s' e -> e = snd (hist_step t l).
Proof.
  intros I A H. apply step_events in H. destruct l; cbn [hist_step snd]; try exact H.
  - destruct H as (c & Hn & Hr & ->). rewrite (found_is_entitled s t k c I A Hn Hr). reflexivity.
  - destruct H as (c & Hn & Hr & _ & ->). rewrite (found_is_entitled s t k c I A Hn Hr). reflexivity.
  - destruct H as (c & Hn & Hr & ->). rewrite (found_is_entitled s t k c I A Hn Hr). reflexivity.
Qed.

Lemma run_hist ls : forall s evs,
  run ls = Next s evs -> agree s (hist_of ls) /\ evs = spec_every ls.
Proof.
  induction ls as [|l ls IH] using rev_ind; intros s evs H.
  - injection H as <- <-. repeat split.
  - unfold run, run_gen in H. rewrite run_from_snoc in H.
    destruct (run_from faithful init [] ls) as [s1 evs1| | |] eqn:R; try discriminate.
    destruct (IH s1 evs1 R) as (A & ->).
    destruct (run_state ls s1 _ R) as (I & _).
    destruct (step_gen faithful s1 l) as [s2 e| | |] eqn:S; try discriminate.
    injection H as <- <-. fold (step s1 l) in S.
    unfold hist_of, spec_every in *. rewrite hist_from_snoc.
    destruct (hist_from hist_init [] ls) as [t1 e1] eqn:Eh. cbn [fst snd] in *.
    pose proof (step_agree _ _ _ _ _ A S) as A2.
    pose proof (step_events_hist _ _ _ _ _ I A S) as E2.
    destruct (hist_step t1 l) as [t2 e2]. cbn [fst snd] in *. subst e2. split; [exact A2|reflexivity].
Qed.

(* every message on every connection, current or replaced, in any schedule *)
Lemma delivery_every ls s evs : run ls = Next s evs -> evs = spec_every ls.
Proof. intros H. apply (run_hist ls s evs H). Qed.

Lemma spec_every_nth pre k m post :
  nth_error (spec_every (pre ++ B_inbound k m :: post)) (length (spec_every pre)) =
  Some (Deliver k m (entitled (hist_of pre) k)).
Proof.
  unfold spec_every, hist_of. rewrite hist_from_app.
  destruct (hist_from hist_init [] pre) as [t1 e1]. cbn [fst snd hist_from hist_step].
  assert (G : forall t evs ls, exists x, snd (hist_from t evs ls) = evs ++ x).
  { intros t evs ls; revert t evs; induction ls as [|y r IH]; intros t evs; cbn [hist_from].
    - exists []. rewrite app_nil_r. reflexivity.
    - destruct (hist_step t y) as [t' e]. destruct (IH t' (evs ++ e)) as [x ->].
      exists (e ++ x). rewrite app_assoc. reflexivity. }
  destruct (G t1 (e1 ++ [Deliver k m (entitled t1 k)]) post) as [x ->].
  rewrite <- app_assoc, nth_error_app2 by lia. rewrite Nat.sub_diag. reflexivity.
Qed.

(* a message on ANY connection k — also one that SetClient has already replaced but that is still
   open — is handed to the handler the history left on k; it is not dropped *)
Lemma delivery_any_connection pre k m post s evs :
  run (pre ++ B_inbound k m :: post) = Next s evs ->
  nth_error evs (count_inbound pre) = Some (Deliver k m (entitled (hist_of pre) k)).
Proof.
  intros H. pose proof (delivery_every _ _ _ H) as ->.
  destruct (run_prefix _ _ _ _ H) as (s1 & evs1 & R & _).
  destruct (run_state _ _ _ R) as (_ & _ & _ & Hlen).
  rewrite (delivery_every _ _ _ R) in Hlen. rewrite <- Hlen. apply spec_every_nth.
Qed.

(* what a replaced client was left with does not change any more: one further label of any kind
   leaves [installed_of _ k] alone unless k is the current client (or is only now being dialled) *)
Lemma nth_set_nth_other k j h l : j <> k -> nth_error (set_nth k h l) j = nth_error l j.
Proof.
  revert k j; induction l as [|x r IH]; intros [|k] [|j] H; cbn [set_nth nth_error]; try reflexivity.
  - contradiction.
  - apply IH. intros ->. apply H. reflexivity.
Qed.

Lemma replaced_frozen ls l k :
  h_cur (hist_of ls) <> Some k -> (k < length (h_inst (hist_of ls)))%nat ->
  installed_of (ls ++ [l]) k = installed_of ls k.
Proof.
  unfold installed_of, hist_of. rewrite hist_from_snoc.
  destruct (hist_from hist_init [] ls) as [t1 e1]. cbn [fst]. intros Hc Hk.
  assert (Hh : forall h, installed (hist_handle t1 h) k = installed t1 k).
  { intros h. unfold installed, hist_handle. cbn. destruct (h_cur t1) as [k'|]; [|reflexivity].
    rewrite nth_set_nth_other; [reflexivity|]. intros ->. apply Hc. reflexivity. }
  destruct l; cbn [hist_step fst]; try reflexivity; try apply Hh.
  - unfold installed. cbn. rewrite nth_error_app1 by exact Hk. reflexivity.
  - unfold installed. destruct (h_cur t1) as [k'|]; [|reflexivity]. cbn.
    rewrite nth_set_nth_other; [reflexivity|]. intros ->. apply Hc. reflexivity.
Qed.

(* ---------- QoS 2 exchanges whose PUBLISH and PUBREL are separate steps ---------- *)
(* the hand-over happens at the PUBREL and goes to the handler registered THEN: a Handle call
   between PUBLISH and PUBREL (first registration, or replacement) counts for that message *)
Lemma delivery_q2 pre k m post s evs :
  run (pre ++ B_q2_release k m :: post) = Next s evs ->
  current_of pre = Some k ->
  nth_error evs (count_inbound pre) = Some (Deliver k m (last_handle pre)).
Proof.
  intros H Hk. destruct (run_prefix _ _ _ _ H) as (s1 & evs1 & R & S).
  destruct (run_state _ _ _ R) as (I & Hrc & Hcur & Hlen).
  cbn [run_from] in S. destruct (step_gen faithful s1 (B_q2_release k m)) as [s2 e| | |] eqn:E; try discriminate.
  fold (step s1 (B_q2_release k m)) in E. apply step_events in E as (c & Hn & Hr & ->).
  apply run_from_events_extend in S as [t ->].
  rewrite <- app_assoc, nth_error_app2 by lia. rewrite Hlen, Nat.sub_diag. cbn.
  rewrite <- Hrc. f_equal. f_equal. apply (I k c); [rewrite Hcur; exact Hk|exact Hn|].
  destruct (c_phase c); try discriminate; reflexivity.
Qed.

(* ---- the inbound store is session state: one store for all connections of a RetryClient ---- *)
Lemma sb_lookup_remove_same m l : sb_lookup m (sb_remove m l) = None.
Proof.
  induction l as [|[x h] r IH]; cbn [sb_remove sb_lookup]; [reflexivity|].
  destruct (N.eqb x m) eqn:E; [exact IH|]. cbn [sb_lookup]. rewrite E. exact IH.
Qed.

Lemma sb_lookup_remove_other m m' l : m' <> m -> sb_lookup m (sb_remove m' l) = sb_lookup m l.
Proof.
  intros Hne. induction l as [|[x h] r IH]; cbn [sb_remove sb_lookup]; [reflexivity|].
  destruct (N.eqb x m') eqn:E'.
  - apply N.eqb_eq in E'. subst x. destruct (N.eqb m' m) eqn:E; [apply N.eqb_eq in E; contradiction|exact IH].
  - cbn [sb_lookup]. rewrite IH. reflexivity.
Qed.

Lemma nth_upd_st_same i f l : (i < length l)%nat -> nth i (upd_st i f l) [] = f (nth i l []).
Proof.
  revert i; induction l as [|x r IH]; intros [|i] H; cbn in *; try lia; [reflexivity|]. apply IH. lia.
Qed.

Lemma nth_upd_st_other i j f l : j <> i -> nth j (upd_st i f l) [] = nth j l [].
Proof.
  revert i j; induction l as [|x r IH]; intros [|i] [|j] H; cbn; try reflexivity; [contradiction|].
  apply IH. intros ->. apply H. reflexivity.
Qed.

Lemma upd_st_length i f l : length (upd_st i f l) = length l.
Proof. revert i; induction l as [|x r IH]; intros [|i]; cbn; try reflexivity. rewrite IH. reflexivity. Qed.

Lemma lookup_in_range m i l : sb_lookup m (nth i l []) <> None -> (i < length l)%nat.
Proof.
  intros H. destruct (Nat.lt_ge_cases i (length l)) as [Hl|Hg]; [exact Hl|].
  rewrite nth_overflow in H by exact Hg. cbn in H. contradiction.
Qed.

(* every client whose connection lives (or is pending) uses the inbound store of the CURRENT client:
   one store per RetryClient session, whatever the number of connection objects *)
Definition shares (s : sys) : Prop :=
  (forall k c, nth_error (clients s) k = Some c -> live (c_phase c) = true ->
               exists j cj, cur s = Some j /\ nth_error (clients s) j = Some cj /\ c_store c = c_store cj) /\
  (forall k, cur s = Some k -> exists c, nth_error (clients s) k = Some c) /\
  (forall k c, nth_error (clients s) k = Some c -> (c_store c < length (stores s))%nat).

Lemma shares_init : shares init.
Proof.
  split; [|split].
  - intros k c H. destruct k; discriminate.
  - intros k H. discriminate.
  - intros k c H. destruct k; discriminate.
Qed.

(* reading the clients after a guarded update *)
Lemma nth_upd_cases k f cs j d :
  nth_error (upd k f cs) j = Some d ->
  (j = k /\ exists c, nth_error cs k = Some c /\ d = f c) \/ (j <> k /\ nth_error cs j = Some d).
Proof.
  destruct (Nat.eq_dec j k) as [->|Hne].
  - rewrite nth_upd_same. destruct (nth_error cs k) as [c|]; [|discriminate]. cbn.
    intros H; injection H as <-. left. split; [reflexivity|]. exists c. split; reflexivity.
  - rewrite nth_upd_other by exact Hne. intros H. right. split; assumption.
Qed.

Lemma nth_upd_exists k f cs j c : nth_error cs j = Some c -> exists c', nth_error (upd k f cs) j = Some c' /\ (j <> k -> c' = c) /\ (j = k -> c' = f c).
Proof.
  intros H. destruct (Nat.eq_dec j k) as [->|Hne].
  - rewrite nth_upd_same, H. eexists. split; [reflexivity|]. split; [intros X; contradiction|reflexivity].
  - rewrite nth_upd_other by exact Hne. exists c. split; [exact H|]. split; [reflexivity|intros X; contradiction].
Qed.

(* a client update that keeps the store and makes nobody live who was not (except the current client) *)
Lemma shares_upd s k f c0 :
  shares s -> nth_error (clients s) k = Some c0 ->
  c_store (f c0) = c_store c0 ->
  (live (c_phase (f c0)) = true -> live (c_phase c0) = true \/ cur s = Some k) ->
  shares (with_clients s (upd k f (clients s))).
Proof.
  intros (S1 & S2 & S3) Hn Hs Hl. split; [|split]; cbn.
  - intros j d Hj Hd. apply nth_upd_cases in Hj as [(-> & c & Hc & ->)|(Hne & Hj)].
    + rewrite Hn in Hc. injection Hc as <-.
      destruct (Hl Hd) as [Hl0|Hc0].
      * destruct (S1 k c0 Hn Hl0) as (jc & cj & Ec & Hjc & Hst).
        destruct (nth_upd_exists k f _ _ _ Hjc) as (cj' & Hj' & Hne' & Heq').
        exists jc, cj'. split; [exact Ec|]. split; [exact Hj'|]. rewrite Hs, Hst.
        destruct (Nat.eq_dec jc k) as [->|Hn']; [rewrite (Heq' eq_refl); rewrite Hn in Hjc; injection Hjc as <-; symmetry; exact Hs
                                                |rewrite (Hne' Hn'); reflexivity].
      * exists k, (f c0). split; [exact Hc0|]. split; [rewrite nth_upd_same, Hn; reflexivity|reflexivity].
    + destruct (S1 j d Hj Hd) as (jc & cj & Ec & Hjc & Hst).
      destruct (nth_upd_exists k f _ _ _ Hjc) as (cj' & Hj' & Hne' & Heq').
      exists jc, cj'. split; [exact Ec|]. split; [exact Hj'|]. rewrite Hst.
      destruct (Nat.eq_dec jc k) as [->|Hn']; [rewrite (Heq' eq_refl); rewrite Hn in Hjc; injection Hjc as <-; symmetry; exact Hs
                                              |rewrite (Hne' Hn'); reflexivity].
  - intros j Hc. destruct (S2 j Hc) as (c & Hj). destruct (nth_upd_exists k f _ _ _ Hj) as (c' & Hj' & _). exists c'. exact Hj'.
  - intros j d Hj. apply nth_upd_cases in Hj as [(-> & c & Hc & ->)|(Hne & Hj)].
    + rewrite Hn in Hc. injection Hc as <-. rewrite Hs. apply (S3 k c0 Hn).
    + apply (S3 j d Hj).
Qed.

Lemma shares_on_client s k en f evs s' e :
  shares s -> on_client s k en f evs = Next s' e ->
  (forall c, c_store (f c) = c_store c) ->
  (forall c, en (c_phase c) = true -> live (c_phase (f c)) = true -> live (c_phase c) = true \/ cur s = Some k) ->
  shares s'.
Proof.
  intros S H Hs Hl. apply on_client_inv in H as (c & Hn & He & -> & _).
  apply shares_upd with (c0 := c); [exact S|exact Hn|apply Hs|apply Hl; exact He].
Qed.

Lemma shares_with_stores s st : shares s -> length st = length (stores s) -> shares (with_stores s st).
Proof. intros (S1 & S2 & S3) Hl. split; [exact S1|split; [exact S2|]]. intros k c H. cbn. rewrite Hl. apply (S3 k c H). Qed.

Lemma shares_ext s s' :
  cur s' = cur s -> clients s' = clients s -> length (stores s') = length (stores s) -> shares s -> shares s'.
Proof.
  intros Hc Hcl Hl (S1 & S2 & S3). unfold shares. rewrite Hc, Hcl, Hl. split; [exact S1|split; [exact S2|exact S3]].
Qed.

Lemma do_handle_shares s h : shares s -> shares (do_handle faithful s h).
Proof.
  intros S. assert (Hx : forall k, cur s = Some k -> exists c, nth_error (clients s) k = Some c) by apply S.
  destruct (cur s) as [k|] eqn:Ec.
  - destruct (Hx k eq_refl) as (c & Hn).
    assert (S' : shares (with_clients s (upd k (set_handler h) (clients s)))).
    { apply (shares_upd s k (set_handler h) c S Hn eq_refl). intros X. left. exact X. }
    eapply shares_ext; [| | |exact S']; unfold do_handle; cbn; try rewrite Ec; reflexivity.
  - eapply shares_ext; [| | |exact S]; unfold do_handle; cbn; try rewrite Ec; reflexivity.
Qed.

Lemma step_shares s l s' e : shares s -> step s l = Next s' e -> shares s'.
Proof.
  intros S H. pose proof S as (S1 & S2 & S3). destruct l.
  - (* U_handle *)
    unfold step, step_gen in H. injection H as <- _. apply do_handle_shares. exact S.
  - (* R_dial *)
    unfold step, step_gen in H. injection H as <- _. split; [|split]; cbn.
    + intros k c Hk Hl. destruct (Nat.lt_ge_cases k (length (clients s))) as [Hlt|Hge].
      * rewrite nth_error_app1 in Hk by exact Hlt. destruct (S1 k c Hk Hl) as (j & cj & Ec & Hj & Hst).
        exists j, cj. split; [exact Ec|]. split; [|exact Hst]. rewrite nth_error_app1; [exact Hj|].
        apply nth_error_Some. rewrite Hj. discriminate.
      * rewrite nth_error_app2 in Hk by exact Hge.
        destruct (k - length (clients s))%nat as [|n]; cbn in Hk; [|destruct n; discriminate].
        injection Hk as <-. discriminate.
    + intros k Hc. destruct (S2 k Hc) as (c & Hk). exists c. rewrite nth_error_app1; [exact Hk|].
      apply nth_error_Some. rewrite Hk. discriminate.
    + intros k c Hk. rewrite app_length. cbn.
      destruct (Nat.lt_ge_cases k (length (clients s))) as [Hlt|Hge].
      * rewrite nth_error_app1 in Hk by exact Hlt. pose proof (S3 k c Hk). lia.
      * rewrite nth_error_app2 in Hk by exact Hge.
        destruct (k - length (clients s))%nat as [|n]; cbn in Hk; [|destruct n; discriminate].
        injection Hk as <-. cbn. lia.
  - (* R_set_client: the new current client continues with the store of the one it replaces *)
    apply set_client_inv in H as (c & st & Hn & Hf & -> & _ & ->).
    assert (Hfr : live (c_phase c) = false) by (destruct (c_phase c); try discriminate; reflexivity).
    split; [|split]; cbn.
    + intros j d Hj Hl. apply nth_upd_cases in Hj as [(-> & c1 & Hc1 & ->)|(Hne & Hj)].
      * rewrite Hn in Hc1. injection Hc1 as <-. cbn in Hl. rewrite Hfr in Hl. discriminate.
      * destruct (S1 j d Hj Hl) as (jc & cj & Ec & Hjc & Hst).
        exists k, (set_store (inherited_store s k c) c). split; [reflexivity|].
        split; [rewrite nth_upd_same, Hn; reflexivity|]. cbn. unfold inherited_store. rewrite Ec.
        destruct (Nat.eqb jc k) eqn:E.
        -- apply Nat.eqb_eq in E. subst jc. rewrite Hn in Hjc. injection Hjc as <-. exact Hst.
        -- rewrite Hjc. exact Hst.
    + intros j Hc. injection Hc as <-. rewrite nth_upd_same, Hn. eexists. reflexivity.
    + intros j d Hj. apply nth_upd_cases in Hj as [(-> & c1 & Hc1 & ->)|(Hne & Hj)]; [|apply (S3 j d Hj)].
      rewrite Hn in Hc1. injection Hc1 as <-. cbn. unfold inherited_store.
      destruct (cur s) as [jc|] eqn:Ec; [|apply (S3 k c Hn)].
      destruct (Nat.eqb jc k); [apply (S3 k c Hn)|].
      destruct (nth_error (clients s) jc) as [cj|] eqn:Hjc; [apply (S3 jc cj Hjc)|apply (S3 k c Hn)].
  - (* R_connect_begin *)
    unfold step, step_gen in H. cbn in H. destruct (cur s) as [k|] eqn:Ec; [|discriminate].
    eapply shares_on_client; [exact S|exact H|reflexivity|]. intros c _ _. right. exact Ec.
  - unfold step, step_gen in H. cbn in H. eapply shares_on_client; [exact S|exact H|reflexivity|].
    intros c He _. left. destruct (c_phase c); try discriminate; reflexivity.
  - unfold step, step_gen in H. cbn in H. eapply shares_on_client; [exact S|exact H|reflexivity|].
    intros c He _. left. destruct (c_phase c); try discriminate; reflexivity.
  - unfold step, step_gen in H. cbn in H. eapply shares_on_client; [exact S|exact H|reflexivity|].
    intros c _ Hl. left. exact Hl.
  - apply inbound_handle_inv in H as (c & hh & _ & _ & _ & -> & _). apply do_handle_shares. exact S.
  - unfold step, step_gen in H. cbn in H. eapply shares_on_client; [exact S|exact H|reflexivity|].
    intros c _ Hl. left. exact Hl.
  - unfold step, step_gen in H. cbn in H. eapply shares_on_client; [exact S|exact H|reflexivity|].
    intros c _ Hl. cbn in Hl. discriminate.
  - apply q2_publish_inv in H as (c & _ & _ & -> & _). apply shares_with_stores; [exact S|apply upd_st_length].
  - apply q2_release_inv in H as (c & hp & _ & _ & _ & -> & _). apply shares_with_stores; [exact S|apply upd_st_length].
  - unfold step, step_gen in H. destruct (nth_error (clients s) k) as [c|] eqn:Hn; [|discriminate].
    destruct (is_installed (c_phase c)) eqn:E; [|discriminate]. injection H as <- _.
    apply (shares_with_stores (with_clients s (upd k (set_phase Reading) (clients s)))); [|apply upd_st_length].
    apply (shares_upd s k (set_phase Reading) c S Hn eq_refl). intros _. left.
    destruct (c_phase c); try discriminate; reflexivity.
  - apply pubrel_unknown_inv in H as (-> & _). exact S.
Qed.

Lemma run_shares ls : forall s evs, run ls = Next s evs -> shares s.
Proof.
  induction ls as [|l ls IH] using rev_ind; intros s evs H.
  - injection H as <- _. exact shares_init.
  - unfold run, run_gen in H. rewrite run_from_snoc in H.
    destruct (run_from faithful init [] ls) as [s1 evs1| | |] eqn:R; try discriminate.
    destruct (step_gen faithful s1 l) as [s2 e| | |] eqn:S; try discriminate.
    injection H as <- _. eapply step_shares; [apply (IH s1 evs1 R)|exact S].
Qed.

(* ---- a stored QoS 2 message waits for its PUBREL in the session, whatever happens to connections ---- *)
Definition keeps (m : N) (l : label) : bool :=
  match l with
  | B_q2_release _ m' => negb (N.eqb m' m)      (* not: a PUBREL for m *)
  | R_connect_start_clean _ => false           (* not: a connect that asks for a clean session *)
  | _ => true
  end.

(* m waits in the store the current client uses *)
Definition pending (s : sys) (m : N) : Prop :=
  exists j cj, cur s = Some j /\ nth_error (clients s) j = Some cj /\ sb_lookup m (store_of s cj) <> None.

Lemma lookup_after_remove m i l : sb_lookup m (nth i (upd_st i (sb_remove m) l) []) = None.
Proof.
  revert i; induction l as [|x r IH]; intros [|i]; cbn [upd_st nth]; try reflexivity.
  - apply sb_lookup_remove_same.
  - apply IH.
Qed.

Lemma pending_upd s m k f :
  (forall c, c_store (f c) = c_store c) -> pending s m -> pending (with_clients s (upd k f (clients s))) m.
Proof.
  intros Hs (j & cj & Ec & Hj & Hl). destruct (nth_upd_exists k f _ _ _ Hj) as (c' & Hj' & Hne & Heq).
  exists j, c'. split; [exact Ec|]. split; [exact Hj'|]. unfold store_of in *. cbn.
  destruct (Nat.eq_dec j k) as [E|E]; [rewrite (Heq E), Hs|rewrite (Hne E)]; exact Hl.
Qed.

Lemma pending_ext s s' m :
  cur s' = cur s -> clients s' = clients s -> stores s' = stores s -> pending s m -> pending s' m.
Proof.
  intros Hc Hcl Hst (j & cj & Ec & Hj & Hl). exists j, cj. unfold store_of in *. rewrite Hc, Hcl, Hst.
  split; [exact Ec|]. split; [exact Hj|exact Hl].
Qed.

Lemma do_handle_pending s h m : pending s m -> pending (do_handle faithful s h) m.
Proof.
  intros P. destruct (cur s) as [k|] eqn:Ec.
  - assert (P' : pending (with_clients s (upd k (set_handler h) (clients s))) m)
      by (apply pending_upd; [reflexivity|exact P]).
    eapply pending_ext; [| | |exact P']; unfold do_handle; cbn; try rewrite Ec; reflexivity.
  - eapply pending_ext; [| | |exact P]; unfold do_handle; cbn; try rewrite Ec; reflexivity.
Qed.

Lemma pending_stores s m i g :
  pending s m ->
  (forall l, sb_lookup m l <> None -> sb_lookup m (g l) <> None) ->
  pending (with_stores s (upd_st i g (stores s))) m.
Proof.
  intros (j & cj & Ec & Hj & Hl) Hg. exists j, cj. split; [exact Ec|]. split; [exact Hj|].
  unfold store_of in *. cbn. destruct (Nat.eq_dec (c_store cj) i) as [E|E].
  - subst i. rewrite nth_upd_st_same by (eapply lookup_in_range; exact Hl). apply Hg. exact Hl.
  - rewrite nth_upd_st_other by exact E. exact Hl.
Qed.

Lemma step_pending s l s' e m :
  pending s m -> keeps m l = true -> step s l = Next s' e -> pending s' m.
Proof.
  intros P K H.
  assert (G : forall k en f evs, on_client s k en f evs = Next s' e -> (forall c, c_store (f c) = c_store c) -> pending s' m).
  { intros k en f evs Ho Hs. apply on_client_inv in Ho as (c & _ & _ & -> & _). apply pending_upd; assumption. }
  destruct l.
  - unfold step, step_gen in H. injection H as <- _. apply do_handle_pending. exact P.
  - unfold step, step_gen in H. injection H as <- _. destruct P as (j & cj & Ec & Hj & Hl).
    exists j, cj. cbn. split; [exact Ec|]. split.
    + rewrite nth_error_app1; [exact Hj|]. apply nth_error_Some. rewrite Hj. discriminate.
    + unfold store_of in *. cbn. rewrite app_nth1 by (eapply lookup_in_range; exact Hl). exact Hl.
  - apply set_client_inv in H as (c & st & Hn & Hf & -> & _ & ->). destruct P as (j & cj & Ec & Hj & Hl).
    exists k, (set_store (inherited_store s k c) c). cbn. split; [reflexivity|].
    split; [rewrite nth_upd_same, Hn; reflexivity|]. unfold store_of in *. cbn. unfold inherited_store. rewrite Ec.
    destruct (Nat.eqb j k) eqn:E.
    + apply Nat.eqb_eq in E. subst j. rewrite Hn in Hj. injection Hj as <-. exact Hl.
    + rewrite Hj. exact Hl.
  - unfold step, step_gen in H. cbn in H. destruct (cur s) as [k|] eqn:Ec; [|discriminate].
    apply (G _ _ _ _ H). reflexivity.
  - unfold step, step_gen in H. cbn in H. apply (G _ _ _ _ H). reflexivity.
  - unfold step, step_gen in H. cbn in H. apply (G _ _ _ _ H). reflexivity.
  - unfold step, step_gen in H. cbn in H. apply (G _ _ _ _ H). reflexivity.
  - apply inbound_handle_inv in H as (c & hh & _ & _ & _ & -> & _). apply do_handle_pending. exact P.
  - unfold step, step_gen in H. cbn in H. apply (G _ _ _ _ H). reflexivity.
  - unfold step, step_gen in H. cbn in H. apply (G _ _ _ _ H). reflexivity.
  - apply q2_publish_inv in H as (c & _ & _ & -> & _). apply pending_stores; [exact P|].
    intros l Hl. cbn [sb_lookup]. destruct (N.eqb m0 m) eqn:E; [discriminate|].
    rewrite sb_lookup_remove_other; [exact Hl|]. intros ->. rewrite N.eqb_refl in E. discriminate.
  - apply q2_release_inv in H as (c & hp & _ & _ & _ & -> & _). apply pending_stores; [exact P|].
    intros l Hl. cbn in K. rewrite sb_lookup_remove_other; [exact Hl|].
    intros ->. rewrite N.eqb_refl in K. discriminate.
  - discriminate.
  - apply pubrel_unknown_inv in H as (-> & _). exact P.
Qed.

Lemma run_from_pending m mid : forall s evs s' evs',
  shares s -> pending s m -> forallb (keeps m) mid = true ->
  run_from faithful s evs mid = Next s' evs' -> pending s' m /\ shares s'.
Proof.
  induction mid as [|l r IH]; intros s evs s' evs' S P K H; cbn [run_from forallb] in *.
  - injection H as <- _. split; assumption.
  - apply andb_true_iff in K as (K1 & K2).
    destruct (step_gen faithful s l) as [s1 e| | |] eqn:E; try discriminate.
    apply (IH s1 (evs ++ e) s' evs'); [eapply step_shares; [exact S|exact E]|eapply step_pending; [exact P|exact K1|exact E]|exact K2|exact H].
Qed.

Lemma spec_every_snoc_release ls k m :
  spec_every (ls ++ [B_q2_release k m]) = spec_every ls ++ [Deliver k m (entitled (hist_of ls) k)].
Proof.
  unfold spec_every, hist_of. rewrite hist_from_app.
  destruct (hist_from hist_init [] ls) as [t1 e1]. reflexivity.
Qed.

(* A QoS 2 PUBLISH processed on connection k (PUBREC sent) and not yet released is released by a
   PUBREL on ANY connection k' of the session whose reader runs — the same one, or one created by any
   number of later SetClient/Connect, as long as no PUBREL for m was processed and no connect asked
   for a clean session in between: handed (exactly once: a repeated PUBREL releases nothing) to the
   handler the message is entitled to at that moment; the release step includes the PUBCOMP. *)
Lemma q2_released_on_later_connection pre k m d mid s evs k' c' :
  run (pre ++ B_q2_publish k m d :: mid) = Next s evs ->
  forallb (keeps m) mid = true ->
  nth_error (clients s) k' = Some c' -> reader_runs (c_phase c') = true ->
  (exists s', run ((pre ++ B_q2_publish k m d :: mid) ++ [B_q2_release k' m]) =
              Next s' (evs ++ [Deliver k' m (entitled (hist_of (pre ++ B_q2_publish k m d :: mid)) k')])) /\
  run ((pre ++ B_q2_publish k m d :: mid) ++ [B_q2_release k' m; B_q2_release k' m]) = Disabled.
Proof.
  intros H K Hn' Hr'. set (h := pre ++ B_q2_publish k m d :: mid) in *.
  destruct (run_prefix _ _ _ _ H) as (s1 & evs1 & R1 & Rm). cbn [run_from] in Rm.
  destruct (step_gen faithful s1 (B_q2_publish k m d)) as [s2 e2| | |] eqn:E2; try discriminate.
  fold (step s1 (B_q2_publish k m d)) in E2.
  pose proof (run_shares _ _ _ R1) as S1.
  pose proof (step_shares _ _ _ _ S1 E2) as S2.
  assert (P2 : pending s2 m).
  { apply q2_publish_inv in E2 as (c & Hn & Hr & -> & _). destruct S1 as (A1 & A2 & A3).
    assert (Hl : live (c_phase c) = true) by (destruct (c_phase c); try discriminate; reflexivity).
    destruct (A1 k c Hn Hl) as (j & cj & Ec & Hj & Hst).
    exists j, cj. split; [exact Ec|]. split; [exact Hj|]. unfold store_of. cbn. rewrite <- Hst.
    rewrite nth_upd_st_same by (apply (A3 k c Hn)). cbn [sb_lookup]. rewrite N.eqb_refl. discriminate. }
  destruct (run_from_pending m mid _ _ _ _ S2 P2 K Rm) as (P & S).
  (* the PUBREL on k' finds m *)
  assert (Hl' : live (c_phase c') = true) by (destruct (c_phase c'); try discriminate; reflexivity).
  destruct S as (A1 & A2 & A3). destruct (A1 k' c' Hn' Hl') as (j & cj & Ec & Hj & Hst).
  destruct P as (j2 & cj2 & Ec2 & Hj2 & Hlk). rewrite Ec in Ec2. injection Ec2 as <-.
  rewrite Hj in Hj2. injection Hj2 as <-.
  assert (Hlk' : sb_lookup m (store_of s c') <> None) by (unfold store_of in *; rewrite Hst; exact Hlk).
  destruct (sb_lookup m (store_of s c')) as [hp|] eqn:El; [|contradiction].
  assert (E3 : step_gen faithful s (B_q2_release k' m) =
               Next (with_stores s (upd_st (c_store c') (sb_remove m) (stores s))) [Deliver k' m (c_handler c')]).
  { unfold step_gen. rewrite Hn', Hr', El. reflexivity. }
  assert (R3 : run (h ++ [B_q2_release k' m]) =
               Next (with_stores s (upd_st (c_store c') (sb_remove m) (stores s))) (evs ++ [Deliver k' m (c_handler c')])).
  { unfold run, run_gen in *. rewrite run_from_snoc, H, E3. reflexivity. }
  split.
  - eexists. rewrite R3. f_equal.
    pose proof (delivery_every _ _ _ R3) as D3. pose proof (delivery_every _ _ _ H) as D0.
    rewrite spec_every_snoc_release, <- D0 in D3. exact D3.
  - replace (h ++ [B_q2_release k' m; B_q2_release k' m]) with ((h ++ [B_q2_release k' m]) ++ [B_q2_release k' m])
      by (rewrite <- app_assoc; reflexivity).
    unfold run, run_gen in *. rewrite run_from_snoc, R3. unfold step_gen. cbn [clients with_stores].
    rewrite Hn', Hr'. unfold store_of. cbn [stores with_stores]. rewrite lookup_after_remove. reflexivity.
Qed.

(* the special case "the PUBREL directly follows, on the same connection": in particular the DUP=1
   retransmission that is the first copy the session ever sees *)
Lemma q2_publish_then_release ls k m d s evs :
  run (ls ++ [B_q2_publish k m d]) = Next s evs ->
  exists s', run (ls ++ [B_q2_publish k m d; B_q2_release k m]) = Next s'
                 (evs ++ [Deliver k m (entitled (hist_of ls) k)]).
Proof.
  intros H.
  assert (Hc : exists c, nth_error (clients s) k = Some c /\ reader_runs (c_phase c) = true).
  { destruct (run_prefix _ _ _ _ H) as (s1 & evs1 & _ & S). cbn [run_from] in S.
    destruct (step_gen faithful s1 (B_q2_publish k m d)) as [s2 e2| | |] eqn:E2; try discriminate.
    injection S as <- _. fold (step s1 (B_q2_publish k m d)) in E2.
    apply q2_publish_inv in E2 as (c & Hn & Hr & -> & _). exists c. split; assumption. }
  destruct Hc as (c & Hn & Hr).
  destruct (q2_released_on_later_connection ls k m d [] s evs k c H eq_refl Hn Hr) as ((s' & R) & _).
  exists s'. rewrite <- app_assoc in R. cbn [app] in R. rewrite R. f_equal. f_equal. f_equal.
  unfold hist_of. rewrite hist_from_snoc. destruct (hist_from hist_init [] ls) as [t1 e1]. reflexivity.
Qed.

(* ---------- the Go panic ---------- *)
(* RetryClient.Connect panics (nil *BaseClient) exactly when no SetClient happened before *)
Lemma connect_panics_iff_no_client ls s evs :
  run ls = Next s evs ->
  (run (ls ++ [R_connect_begin]) = Panicked <-> current_of ls = None).
Proof.
  intros R. destruct (run_state _ _ _ R) as (_ & _ & Hcur & _).
  unfold run, run_gen in *. rewrite run_from_snoc, R. unfold step_gen. rewrite <- Hcur.
  destruct (cur s) as [k|]; [|split; reflexivity].
  split; [|discriminate]. unfold on_client.
  destruct (nth_error (clients s) k) as [c|]; [destruct (is_fresh (c_phase c))|]; discriminate.
Qed.

(* ---------- non-vacuity: concrete histories ---------- *)
(* three connections (two reconnects); Handle before the first dial, between Dial and SetClient,
   between SetClient and Connect, between the install section and CONNECT, before CONNACK, right
   after the first message, during the outage (nil), after a reconnect; a Dialer that leaves its
   own handler 99 on the third client *)
Definition ex_schedule : list label :=
  [ U_handle (Some 1);
    R_dial None; U_handle (Some 2);
    R_set_client 0; U_handle (Some 3);
    R_connect_begin; U_handle (Some 4);
    R_connect_start 0; U_handle (Some 5);
    R_connack 0; B_inbound 0 10;
    U_handle (Some 6); B_inbound 0 11; R_connect_return 0; B_inbound 0 12;
    R_end 0;
    U_handle None;
    R_dial None; R_set_client 1; R_connect_begin; R_connect_start 1; R_connack 1; B_inbound 1 13;
    U_handle (Some 7); B_inbound 1 14; R_connect_return 1; R_end 1;
    R_dial (Some 99); R_set_client 2; R_connect_begin; R_connect_start 2; R_connack 2;
    B_inbound 2 15; R_connect_return 2; U_handle (Some 6); B_inbound 2 16;
    B_inbound_handle 2 17 (Some 8); B_inbound 2 18; R_end 2;
    R_dial None; R_set_client 3; R_connect_begin; R_connect_start 3; R_connack 3; B_inbound 3 19;
    B_q2_publish 3 20 false; U_handle (Some 9); B_q2_release 3 20; B_q2_publish 3 21 false; R_end 3;
    R_dial None; R_set_client 4; R_connect_begin; R_connect_start 4; R_connack 4;
    B_q2_publish 4 21 true; B_q2_release 4 21 ].

Example ex_schedule_runs :
  exists s, run_loop ex_schedule = Next s
    [ Deliver 0 10 (Some 5); Deliver 0 11 (Some 6); Deliver 0 12 (Some 6);
      Deliver 1 13 None; Deliver 1 14 (Some 7);
      Deliver 2 15 (Some 7); Deliver 2 16 (Some 6);
      Deliver 2 17 (Some 6); Deliver 2 18 (Some 8); Deliver 3 19 (Some 8);
      Deliver 3 20 (Some 9); Deliver 4 21 (Some 9) ].
Proof. eexists. vm_compute. reflexivity. Qed.

Example ex_delivery_hyps :
  exists pre post s evs,
    run (pre ++ B_inbound 2 15 :: post) = Next s evs /\ current_of pre = Some 2%nat /\
    last_handle pre = Some 7 /\ count_inbound pre = 5%nat.
Proof.
  exists (firstn 32 ex_schedule), (skipn 33 ex_schedule). eexists. eexists.
  vm_compute. repeat split.
Qed.

Example ex_panic : run [U_handle (Some 1); R_dial None; R_connect_begin] = Panicked.
Proof. reflexivity. Qed.

(* ---------- scope boundary: a connection that SetClient has already replaced ---------- *)
(* With a bare RetryClient the user may call SetClient while the previous connection is still
   being read. Handle then reaches only the new client; a message still arriving on the replaced
   connection goes to the handler that connection had. (The reconnect loop never does this:
   [run_loop] rejects the schedule.) C17's statements are therefore about the current connection,
   and about every connection for loop schedules. *)
Definition ex_overlap : list label :=
  [ U_handle (Some 1); R_dial None; R_set_client 0; R_connect_begin; R_connect_start 0; R_connack 0;
    R_dial None; R_set_client 1; U_handle (Some 2); B_inbound 0 7 ].

Lemma stale_on_replaced_connection :
  exists ls s, run ls = Next s [Deliver 0 7 (Some 1)] /\ spec_events ls = [Deliver 0 7 (Some 2)] /\
               run_loop ls = Disabled.
Proof. exists ex_overlap. eexists. vm_compute. repeat split. Qed.

(* ---------- the model can express the breakages: wrong implementations are refuted ---------- *)
Definition breaks (v : impl) (ls : list label) : Prop :=
  (exists s evs, run_loop ls = Next s evs) /\           (* a schedule of the reconnect loop ... *)
  exists s evs, run_gen v ls = Next s evs /\            (* ... on which the variant runs ... *)
                meets (spec_current ls) evs = false.    (* ... and violates the delivery claim *)

Definition conn (k : nat) : list label :=
  [R_dial None; R_set_client k; R_connect_begin; R_connect_start k; R_connack k].

(* Connect does not install the stored handler *)
Lemma no_install_refuted :
  exists ls, breaks v_no_install ls.
Proof.
  exists (U_handle (Some 1) :: conn 0 ++ [B_inbound 0 7]).
  split; [eexists; eexists; vm_compute; reflexivity|]. eexists. eexists. vm_compute. split; reflexivity.
Qed.

(* Connect installs the handler only after BaseClient.Connect returned (seeded change C17-2) *)
Lemma late_install_refuted :
  exists ls, breaks v_late_install ls.
Proof.
  exists (U_handle (Some 1) :: conn 0 ++ [B_inbound 0 7; R_connect_return 0]).
  split; [eexists; eexists; vm_compute; reflexivity|]. eexists. eexists. vm_compute. split; reflexivity.
Qed.

(* the handler is installed on the first connection only *)
Lemma first_only_refuted :
  exists ls, breaks v_first_only ls.
Proof.
  exists (U_handle (Some 1) :: conn 0 ++ [B_inbound 0 7; R_end 0] ++ conn 1 ++ [B_inbound 1 8]).
  split; [eexists; eexists; vm_compute; reflexivity|]. eexists. eexists. vm_compute. split; reflexivity.
Qed.

(* Handle does not forward to the current client *)
Lemma no_forward_refuted :
  exists ls, breaks v_no_forward ls.
Proof.
  exists (conn 0 ++ [U_handle (Some 1); B_inbound 0 7]).
  split; [eexists; eexists; vm_compute; reflexivity|]. eexists. eexists. vm_compute. split; reflexivity.
Qed.

(* Handle forwards but does not store (seeded change C17-1: stores only while no client is set) *)
Lemma store_if_no_client_refuted :
  exists ls, breaks v_store_if_no_client ls.
Proof.
  exists (conn 0 ++ [U_handle (Some 1); B_inbound 0 7; R_end 0] ++ conn 1 ++ [B_inbound 1 8]).
  split; [eexists; eexists; vm_compute; reflexivity|]. eexists. eexists. vm_compute. split; reflexivity.
Qed.

Lemma no_store_refuted :
  exists ls, breaks v_no_store ls.
Proof.
  exists (U_handle (Some 1) :: conn 0 ++ [B_inbound 0 7]).
  split; [eexists; eexists; vm_compute; reflexivity|]. eexists. eexists. vm_compute. split; reflexivity.
Qed.

(* SetClient forgets the stored handler *)
Lemma setclient_clears_refuted :
  exists ls, breaks v_setclient_clears ls.
Proof.
  exists (U_handle (Some 1) :: conn 0 ++ [B_inbound 0 7]).
  split; [eexists; eexists; vm_compute; reflexivity|]. eexists. eexists. vm_compute. split; reflexivity.
Qed.

(* the reader holds its client's lock while the handler runs (seeded change C17-6): a handler that
   replaces the handler through the RetryClient never returns *)
Lemma lock_through_callback_refuted :
  exists ls, (exists s evs, run_loop ls = Next s evs) /\
             run_gen v_lock_through_callback ls = Deadlocked.
Proof.
  exists (U_handle (Some 1) :: conn 0 ++ [B_inbound_handle 0 7 (Some 2); B_inbound 0 8]).
  split; [eexists; eexists; vm_compute; reflexivity|]. vm_compute. reflexivity.
Qed.

(* a retransmitted (DUP=1) QoS 2 PUBLISH is acknowledged but not stored (seeded change C17-11): when the
   first transmission never reached the client (lost with connection 0) the DUP copy is the only one
   the session ever sees, its PUBREL finds nothing *)
Lemma q2_dup_not_stored_refuted :
  exists ls, (exists s evs, run_loop ls = Next s evs) /\ run_gen v_q2_dup_not_stored ls = Disabled.
Proof.
  exists (U_handle (Some 1) :: conn 0 ++ [R_end 0] ++ conn 1 ++ [B_q2_publish 1 7 true; B_q2_release 1 7]).
  split; [eexists; eexists; vm_compute; reflexivity|]. vm_compute. reflexivity.
Qed.

(* a QoS 2 message is handed to the handler read when its PUBLISH arrived (seeded change C17-12) *)
Lemma q2_handler_at_publish_refuted : exists ls, breaks v_q2_handler_at_publish ls.
Proof.
  exists (conn 0 ++ [B_q2_publish 0 7 false; U_handle (Some 1); B_q2_release 0 7]).
  split; [eexists; eexists; vm_compute; reflexivity|]. eexists. eexists. vm_compute. split; reflexivity.
Qed.

(* the store of received QoS 2 messages belongs to one connection object (/repo before 9cd7f01): a
   PUBREL arriving on the next connection for a message stored by the previous one releases nothing *)
Lemma q2_store_per_connection_refuted :
  exists ls, (exists s evs, run_loop ls = Next s evs) /\ run_gen v_q2_store_per_connection ls = Disabled.
Proof.
  exists (U_handle (Some 1) :: conn 0 ++ [B_q2_publish 0 7 false; R_end 0] ++ conn 1 ++ [B_q2_release 1 7]).
  split; [eexists; eexists; vm_compute; reflexivity|]. vm_compute. reflexivity.
Qed.

(* non-vacuity of q2_released_on_later_connection: stored on connection 0, two reconnects (the second
   connection never gets a CONNACK), a handler replacement in between, released on connection 2 *)
Example ex_q2_across_two_reconnects :
  exists s, run_loop (U_handle (Some 1) :: conn 0 ++ [B_q2_publish 0 7 false; R_end 0] ++
                      [R_dial None; R_set_client 1; R_connect_begin; R_connect_start 1; R_end 1] ++
                      [U_handle (Some 2)] ++ conn 2 ++ [B_q2_release 2 7]) = Next s [Deliver 2 7 (Some 2)].
Proof. eexists. vm_compute. reflexivity. Qed.

(* a connect that asks for a clean session forgets the stored messages: the PUBREL is then unknown *)
Example ex_q2_clean_session_forgets :
  run (U_handle (Some 1) :: conn 0 ++ [B_q2_publish 0 7 false; R_end 0] ++
       [R_dial None; R_set_client 1; R_connect_begin; R_connect_start_clean 1; R_connack 1; B_q2_release 1 7]) = Disabled.
Proof. vm_compute. reflexivity. Qed.

(* ... while the faithful model passes on every one of these schedules (instance of delivery_meets) *)
Example faithful_not_broken ls : ~ breaks faithful ls.
Proof.
  intros [_ (s & evs & R & M)]. fold (run ls) in R. rewrite (delivery_meets ls s evs R) in M. discriminate.
Qed.
