(* RetryCore.v — what runs on RetryClient's task goroutine (retryclient.go:140-235, 399-480) against a
   BaseClient (publish.go:117-212, subscribe.go:68-110, unsubscribe.go) and a conforming broker.

   Closures are defunctionalised ([rentry]); the peer/transport is a fault plan
   [fp : conn -> packet index on that conn -> fkind]; identifiers are canonical (the identifier of
   a publish is its submission index [p_uid]; the harness renames real identifiers by first
   appearance). Everything is a total computable function; a request that waits without a
   deadline on a silent connection sets [w_hung]. *)
From MQ Require Import Base.
Open Scope N_scope.

(* ---------- requests, packets, faults ---------- *)
Record pubreq := { p_uid : nat; p_qos : N; p_retain : bool; p_topic : str; p_payload : str }.
Definition sub := (str * N)%type.

Inductive uop :=
| UPub (m : pubreq)
| USub (uid : nat) (ss : list sub)
| UUnsub (uid : nat) (ts : list str).

Inductive pkt :=
| PPublish (m : pubreq) (dup : bool)
| PPubRel (uid : nat)
| PSubscribe (uid : nat) (ss : list sub)       (* uid: ghost, 0 for re-subscriptions *)
| PUnsubscribe (uid : nat) (ts : list str).

(* how a Transport.Write call ended, as seen at the transport *)
Inductive wres :=
| WAck    (* written, processed by the broker, acknowledgement (if the packet has one) sent *)
| WOk     (* written; lost, or the acknowledgement was lost / withheld *)
| WFail   (* this Write was cut: it returned an error *)
| WDead.  (* the transport was already closed *)

Inductive fkind :=
| FNone        (* processed and acknowledged *)
| FWriteFail   (* Write returns an error, nothing processed, connection closed *)
| FLostAfter   (* Write accepted, packet dropped, connection closed *)
| FAckLost     (* processed, connection closed before the acknowledgement *)
| FSilentReq   (* packet silently dropped, connection stays open *)
| FSilentAck.  (* processed, acknowledgement silently dropped, connection stays open *)

Definition fplan := nat -> nat -> fkind.

Record config := {
  c_method_b : bool;       (* broker: QoS 2 receiver delivers on PUBREL (B) or on PUBLISH (A) *)
  c_always_resub : bool;   (* ReconnectOptions.AlwaysResubscribe *)
  c_timeout : bool         (* RetryClient.ResponseTimeout > 0 *)
}.

(* ---------- the conforming broker (MQTT 3.1.1 sections 3.3, 3.6, 3.8, 3.10, 4.3) ---------- *)
Record broker := {
  b_subs : list sub;              (* subscription table, most recent binding first *)
  b_q2 : list (nat * pubreq);     (* QoS 2 identifiers in use (A) / messages held (B) *)
  b_delivered : list nat;         (* onward deliveries, oldest first *)
  b_processed : list pkt          (* every packet the broker processed, oldest first *)
}.
Definition broker0 : broker := {| b_subs := []; b_q2 := []; b_delivered := []; b_processed := [] |}.

Fixpoint subs_remove (t : str) (l : list sub) : list sub :=
  match l with
  | [] => []
  | (t', q) :: r => if str_eqb t t' then subs_remove t r else (t', q) :: subs_remove t r
  end.
Definition subs_set (l : list sub) (s : sub) : list sub := s :: subs_remove (fst s) l.
Fixpoint subs_get (t : str) (l : list sub) : option N :=
  match l with
  | [] => None
  | (t', q) :: r => if str_eqb t t' then Some q else subs_get t r
  end.

Fixpoint q2_mem (u : nat) (l : list (nat * pubreq)) : bool :=
  match l with [] => false | (u', _) :: r => Nat.eqb u u' || q2_mem u r end.
Fixpoint q2_remove (u : nat) (l : list (nat * pubreq)) : list (nat * pubreq) :=
  match l with
  | [] => []
  | (u', m) :: r => if Nat.eqb u u' then q2_remove u r else (u', m) :: q2_remove u r
  end.

Definition broker_step (method_b : bool) (b : broker) (p : pkt) : broker :=
  let b := {| b_subs := b_subs b; b_q2 := b_q2 b; b_delivered := b_delivered b;
              b_processed := b_processed b ++ [p] |} in
  match p with
  | PPublish m _ =>
      if p_qos m <=? 1 then
        {| b_subs := b_subs b; b_q2 := b_q2 b; b_delivered := b_delivered b ++ [p_uid m]; b_processed := b_processed b |}
      else if method_b then
        {| b_subs := b_subs b; b_q2 := (p_uid m, m) :: q2_remove (p_uid m) (b_q2 b);
           b_delivered := b_delivered b; b_processed := b_processed b |}
      else if q2_mem (p_uid m) (b_q2 b) then b
      else {| b_subs := b_subs b; b_q2 := (p_uid m, m) :: b_q2 b;
              b_delivered := b_delivered b ++ [p_uid m]; b_processed := b_processed b |}
  | PPubRel u =>
      if method_b then
        {| b_subs := b_subs b; b_q2 := q2_remove u (b_q2 b);
           b_delivered := if q2_mem u (b_q2 b) then b_delivered b ++ [u] else b_delivered b;
           b_processed := b_processed b |}
      else {| b_subs := b_subs b; b_q2 := q2_remove u (b_q2 b); b_delivered := b_delivered b; b_processed := b_processed b |}
  | PSubscribe _ ss =>
      {| b_subs := fold_left subs_set ss (b_subs b); b_q2 := b_q2 b; b_delivered := b_delivered b; b_processed := b_processed b |}
  | PUnsubscribe _ ts =>
      {| b_subs := fold_left (fun l t => subs_remove t l) ts (b_subs b); b_q2 := b_q2 b;
         b_delivered := b_delivered b; b_processed := b_processed b |}
  end.

(* the session is discarded (clean session / session lost); delivery history is a ghost log *)
Definition broker_wipe (b : broker) : broker :=
  {| b_subs := []; b_q2 := []; b_delivered := b_delivered b; b_processed := b_processed b |}.

(* ---------- clients (one per connection) ---------- *)
Record client := {
  cl_inited : bool;     (* BaseClient.init ran (sig <> nil) *)
  cl_alive : bool;      (* transport open *)
  cl_accepted : bool;   (* the broker accepted the CONNECT of this connection *)
  cl_sent : nat         (* packets written after CONNECT: index into the fault plan *)
}.
Definition client_new : client := {| cl_inited := false; cl_alive := true; cl_accepted := false; cl_sent := 0 |}.
Definition client_none : client := {| cl_inited := false; cl_alive := false; cl_accepted := false; cl_sent := 0 |}.

Fixpoint upd_nth {A} (k : nat) (f : A -> A) (l : list A) : list A :=
  match l, k with
  | [], _ => []
  | x :: r, O => f x :: r
  | x :: r, S k' => x :: upd_nth k' f r
  end.

(* ---------- retry queue entries (the closures, defunctionalised) ---------- *)
Inductive rentry :=
| RPublish (m : pubreq)                    (* retryPublish: PUBLISH again, DUP=1 (publish.go:163-165) *)
| RPubRel (m : pubreq)                     (* retryPublish2: PUBREL only (publish.go:192-219) *)
| RSubscribe (uid : nat) (ss : list sub)   (* retrySubscribe (subscribe.go:86-89) *)
| RUnsubscribe (uid : nat) (ts : list str)
| DPublish (m : pubreq)                    (* deferred first transmission (retryclient.go:167-173) *)
| DSubscribe (uid : nat) (ss : list sub)   (* deferred subscribe closure (retryclient.go:178-205) *)
| DUnsubscribe (uid : nat) (ts : list str).

Inductive errclass := ETimeout | EConn | ENotConnected.

Record world := {
  w_clients : list client;
  w_broker : broker;
  w_wire : list (nat * pkt * wres);     (* every Write attempt: connection, packet, how it ended *)
  w_retryq : list rentry;               (* RetryClient.retryQueue *)
  w_subest : list sub;                  (* RetryClient.subEstablished, oldest first *)
  w_nrbe : bool;                        (* newRetryByError *)
  w_errs : list errclass;               (* OnError calls *)
  w_acked : list nat;                   (* requests whose final acknowledgement arrived *)
  w_dropped : list nat;                 (* requests given up without a retry handle *)
  w_hung : bool                         (* the task goroutine waits for ever *)
}.
Definition world0 : world :=
  {| w_clients := []; w_broker := broker0; w_wire := []; w_retryq := []; w_subest := []; w_nrbe := false;
     w_errs := []; w_acked := []; w_dropped := []; w_hung := false |}.

Definition set_clients (w : world) (c : list client) : world :=
  {| w_clients := c; w_broker := w_broker w; w_wire := w_wire w; w_retryq := w_retryq w; w_subest := w_subest w;
     w_nrbe := w_nrbe w; w_errs := w_errs w; w_acked := w_acked w; w_dropped := w_dropped w; w_hung := w_hung w |}.
Definition set_broker (w : world) (b : broker) : world :=
  {| w_clients := w_clients w; w_broker := b; w_wire := w_wire w; w_retryq := w_retryq w; w_subest := w_subest w;
     w_nrbe := w_nrbe w; w_errs := w_errs w; w_acked := w_acked w; w_dropped := w_dropped w; w_hung := w_hung w |}.
Definition log_wire (w : world) (e : nat * pkt * wres) : world :=
  {| w_clients := w_clients w; w_broker := w_broker w; w_wire := w_wire w ++ [e]; w_retryq := w_retryq w; w_subest := w_subest w;
     w_nrbe := w_nrbe w; w_errs := w_errs w; w_acked := w_acked w; w_dropped := w_dropped w; w_hung := w_hung w |}.
Definition set_retryq (w : world) (q : list rentry) : world :=
  {| w_clients := w_clients w; w_broker := w_broker w; w_wire := w_wire w; w_retryq := q; w_subest := w_subest w;
     w_nrbe := w_nrbe w; w_errs := w_errs w; w_acked := w_acked w; w_dropped := w_dropped w; w_hung := w_hung w |}.
Definition set_subest (w : world) (s : list sub) : world :=
  {| w_clients := w_clients w; w_broker := w_broker w; w_wire := w_wire w; w_retryq := w_retryq w; w_subest := s;
     w_nrbe := w_nrbe w; w_errs := w_errs w; w_acked := w_acked w; w_dropped := w_dropped w; w_hung := w_hung w |}.
Definition set_nrbe (w : world) (b : bool) : world :=
  {| w_clients := w_clients w; w_broker := w_broker w; w_wire := w_wire w; w_retryq := w_retryq w; w_subest := w_subest w;
     w_nrbe := b; w_errs := w_errs w; w_acked := w_acked w; w_dropped := w_dropped w; w_hung := w_hung w |}.
Definition on_error (w : world) (e : errclass) : world :=
  {| w_clients := w_clients w; w_broker := w_broker w; w_wire := w_wire w; w_retryq := w_retryq w; w_subest := w_subest w;
     w_nrbe := w_nrbe w; w_errs := w_errs w ++ [e]; w_acked := w_acked w; w_dropped := w_dropped w; w_hung := w_hung w |}.
Definition add_acked (w : world) (u : nat) : world :=
  {| w_clients := w_clients w; w_broker := w_broker w; w_wire := w_wire w; w_retryq := w_retryq w; w_subest := w_subest w;
     w_nrbe := w_nrbe w; w_errs := w_errs w; w_acked := w_acked w ++ [u]; w_dropped := w_dropped w; w_hung := w_hung w |}.
Definition add_dropped (w : world) (u : nat) : world :=
  {| w_clients := w_clients w; w_broker := w_broker w; w_wire := w_wire w; w_retryq := w_retryq w; w_subest := w_subest w;
     w_nrbe := w_nrbe w; w_errs := w_errs w; w_acked := w_acked w; w_dropped := w_dropped w ++ [u]; w_hung := w_hung w |}.
Definition set_hung (w : world) : world :=
  {| w_clients := w_clients w; w_broker := w_broker w; w_wire := w_wire w; w_retryq := w_retryq w; w_subest := w_subest w;
     w_nrbe := w_nrbe w; w_errs := w_errs w; w_acked := w_acked w; w_dropped := w_dropped w; w_hung := true |}.

Definition get_client (w : world) (k : nat) : client := nth k (w_clients w) client_none.
Definition upd_client (w : world) (k : nat) (f : client -> client) : world :=
  set_clients w (upd_nth k f (w_clients w)).
Definition kill (c : client) : client :=
  {| cl_inited := cl_inited c; cl_alive := false; cl_accepted := cl_accepted c; cl_sent := cl_sent c |}.
Definition bump (c : client) : client :=
  {| cl_inited := cl_inited c; cl_alive := cl_alive c; cl_accepted := cl_accepted c; cl_sent := S (cl_sent c) |}.

(* ---------- one Write and what the caller then observes ---------- *)
Inductive cres :=
| CAck           (* the acknowledgement arrived *)
| CWriteFail     (* Write returned an error *)
| CClosedWait    (* connClosed fired while waiting for the acknowledgement *)
| CTimeout       (* the request context (ResponseTimeout) expired while waiting *)
| CHang.         (* waits for ever: silent peer, no timeout configured *)

Section Exec.
Variable cfg : config.
Variable fp : fplan.

Definition process (w : world) (p : pkt) : world :=
  set_broker w (broker_step (c_method_b cfg) (w_broker w) p).

(* BaseClient.write of one packet on connection k, followed by the wait for its acknowledgement *)
Definition send (w : world) (k : nat) (p : pkt) : world * cres :=
  let c := get_client w k in
  if negb (cl_alive c) then (log_wire w (k, p, WDead), CWriteFail)
  else
    let f := if cl_accepted c then fp k (cl_sent c) else FLostAfter in
    let w := upd_client w k bump in
    match f with
    | FWriteFail => (upd_client (log_wire w (k, p, WFail)) k kill, CWriteFail)
    | FLostAfter => (upd_client (log_wire w (k, p, WOk)) k kill, CClosedWait)
    | FAckLost => (upd_client (process (log_wire w (k, p, WOk)) p) k kill, CClosedWait)
    | FSilentReq => (log_wire w (k, p, WOk), if c_timeout cfg then CTimeout else CHang)
    | FSilentAck => (process (log_wire w (k, p, WOk)) p, if c_timeout cfg then CTimeout else CHang)
    | FNone => (process (log_wire w (k, p, WAck)) p, CAck)
    end.

(* result of one attempt of a request *)
Inductive ares :=
| ADone                                   (* returned nil *)
| AFail (e : rentry) (cls : errclass)     (* ErrorWithRetry carrying the handle e *)
| ANoRetry (cls : errclass)               (* an error without retry handle *)
| AHung.

Definition fail_class (r : cres) : errclass := match r with CTimeout => ETimeout | _ => EConn end.

(* retryPublish2 (publish.go:192-219) *)
Definition attempt_pubrel (w : world) (k : nat) (m : pubreq) : world * ares :=
  if negb (cl_inited (get_client w k)) then (w, ANoRetry ENotConnected)
  else
    let '(w, r) := send w k (PPubRel (p_uid m)) in
    match r with
    | CAck => (add_acked w (p_uid m), ADone)
    | CHang => (set_hung w, AHung)
    | _ => (w, AFail (RPubRel m) (fail_class r))
    end.

(* publishImpl (publish.go:128-221) *)
Definition attempt_publish (w : world) (k : nat) (m : pubreq) (dup : bool) : world * ares :=
  if negb (cl_inited (get_client w k)) then (w, ANoRetry ENotConnected)
  else
    let '(w, r) := send w k (PPublish m dup) in
    if p_qos m =? 0 then
      match r with CWriteFail => (w, ANoRetry EConn) | _ => (w, ADone) end
    else if p_qos m =? 1 then
      match r with
      | CAck => (add_acked w (p_uid m), ADone)
      | CHang => (set_hung w, AHung)
      | _ => (w, AFail (RPublish m) (fail_class r))
      end
    else
      match r with
      | CAck => attempt_pubrel w k m
      | CHang => (set_hung w, AHung)
      | _ => (w, AFail (RPublish m) (fail_class r))
      end.

(* subscribeImpl / unsubscribeImpl *)
Definition attempt_subscribe (w : world) (k : nat) (uid : nat) (ss : list sub) : world * ares :=
  if negb (cl_inited (get_client w k)) then (w, ANoRetry ENotConnected)
  else
    let '(w, r) := send w k (PSubscribe uid ss) in
    match r with
    | CAck => (add_acked w uid, ADone)
    | CHang => (set_hung w, AHung)
    | _ => (w, AFail (RSubscribe uid ss) (fail_class r))
    end.

Definition attempt_unsubscribe (w : world) (k : nat) (uid : nat) (ts : list str) : world * ares :=
  if negb (cl_inited (get_client w k)) then (w, ANoRetry ENotConnected)
  else
    let '(w, r) := send w k (PUnsubscribe uid ts) in
    match r with
    | CAck => (add_acked w uid, ADone)
    | CHang => (set_hung w, AHung)
    | _ => (w, AFail (RUnsubscribe uid ts) (fail_class r))
    end.

(* queueRetry (retryclient.go:399-409) *)
Definition queue_retry (w : world) (e : rentry) : world :=
  set_nrbe (set_retryq w (w_retryq w ++ [e])) true.

(* the error handling shared by the first-transmission closures (retryclient.go:147-158 etc.) *)
Definition settle (uid : nat) (wr : world * ares) : world :=
  let '(w, r) := wr in
  match r with
  | ADone => w
  | AFail e cls => queue_retry (on_error w cls) e
  | ANoRetry cls => add_dropped (on_error w cls) uid
  | AHung => w
  end.

(* subscriptions.applyTo / unsubscriptions.applyTo (subscriptions.go:23-43) *)
Fixpoint est_remove (t : str) (l : list sub) : list sub :=
  match l with
  | [] => []
  | (t', q) :: r => if str_eqb t t' then est_remove t r else (t', q) :: est_remove t r
  end.
Definition est_sub (l : list sub) (s : sub) : list sub := est_remove (fst s) l ++ [s].
Definition est_apply_subs (l : list sub) (ss : list sub) : list sub := fold_left est_sub ss l.
Definition est_apply_unsubs (l : list sub) (ts : list str) : list sub := fold_left (fun l t => est_remove t l) ts l.

(* the closures `publish`, `subscribe`, `unsubscribe` of retryclient.go run for real *)
Definition do_publish (w : world) (k : nat) (m : pubreq) : world :=
  settle (p_uid m) (attempt_publish w k m false).
Definition do_subscribe (w : world) (k : nat) (uid : nat) (ss : list sub) : world :=
  let w := set_subest w (est_apply_subs (w_subest w) ss) in
  settle uid (attempt_subscribe w k uid ss).
Definition do_unsubscribe (w : world) (k : nat) (uid : nat) (ts : list str) : world :=
  let w := set_subest w (est_apply_unsubs (w_subest w) ts) in
  settle uid (attempt_unsubscribe w k uid ts).

(* RetryClient.publish / subscribe / unsubscribe as tasks (retryclient.go:140-235) *)
Definition task_publish (w : world) (k : nat) (m : pubreq) : world :=
  match w_retryq w with
  | [] => do_publish w k m
  | _ => if 0 <? p_qos m then set_retryq w (w_retryq w ++ [DPublish m]) else w
  end.
Definition task_subscribe (w : world) (k : nat) (uid : nat) (ss : list sub) : world :=
  match w_retryq w with
  | [] => do_subscribe w k uid ss
  | _ => set_retryq w (w_retryq w ++ [DSubscribe uid ss])
  end.
Definition task_unsubscribe (w : world) (k : nat) (uid : nat) (ts : list str) : world :=
  match w_retryq w with
  | [] => do_unsubscribe w k uid ts
  | _ => set_retryq w (w_retryq w ++ [DUnsubscribe uid ts])
  end.

(* Resubscribe (retryclient.go:441-457) *)
Definition task_resubscribe (w : world) (k : nat) : world :=
  let old := w_subest w in
  let pending := w_retryq w in
  let w := set_retryq (set_subest w []) [] in
  let w := fold_left (fun w s => if w_hung w then w else task_subscribe w k 0%nat [s]) old w in
  set_retryq w (w_retryq w ++ pending).

(* one entry of the retry queue run by Retry: raw entries return their error, deferred entries
   handle it themselves and return nil *)
Definition run_entry (w : world) (k : nat) (e : rentry) : world * ares :=
  match e with
  | RPublish m => attempt_publish w k m true
  | RPubRel m => attempt_pubrel w k m
  | RSubscribe uid ss => attempt_subscribe w k uid ss
  | RUnsubscribe uid ts => attempt_unsubscribe w k uid ts
  | DPublish m => (do_publish w k m, ADone)
  | DSubscribe uid ss => (do_subscribe w k uid ss, ADone)
  | DUnsubscribe uid ts => (do_unsubscribe w k uid ts, ADone)
  end.

Definition entry_uid (e : rentry) : nat :=
  match e with
  | RPublish m | RPubRel m | DPublish m => p_uid m
  | RSubscribe u _ | RUnsubscribe u _ | DSubscribe u _ | DUnsubscribe u _ => u
  end.

(* Retry (retryclient.go:459-480): the loop over the old queue *)
Fixpoint retry_loop (w : world) (k : nat) (old : list rentry) : world :=
  match old with
  | [] => w
  | e :: rest =>
      let '(w, r) := run_entry w k e in
      if w_hung w then w else
      match r with
      | AFail e' cls => let w := queue_retry (on_error w cls) e' in set_retryq w (w_retryq w ++ rest)
      | ANoRetry _ => retry_loop (add_dropped w (entry_uid e)) k rest   (* a plain error is ignored: the entry is gone *)
      | _ => retry_loop w k rest
      end
  end.

Definition task_retry (w : world) (k : nat) : world :=
  let old := w_retryq w in
  retry_loop (set_retryq w []) k old.

Inductive task := TOp (o : uop) | TResub | TRetry.

Definition exec_task (w : world) (k : nat) (t : task) : world :=
  match t with
  | TOp (UPub m) => task_publish w k m
  | TOp (USub uid ss) => task_subscribe w k uid ss
  | TOp (UUnsub uid ts) => task_unsubscribe w k uid ts
  | TResub => task_resubscribe w k
  | TRetry => task_retry w k
  end.

End Exec.
