(* C05Flows_proofs.v — proofs about the two multi-packet flows of C05Flows.v.
   1. An encoded broker stream (PUBLISH of any QoS, PUBREL, routed packets) run through the model
      of the serve loop produces exactly the hand-overs / acknowledgements of the QoS flow on the
      encoded messages; a QoS 2 message is handed over at its PUBREL with exactly the encoded
      fields, whatever arrived in between; nothing but encoded messages is ever handed over.
   2. For every sequence of interruptions, the packets of a QoS 1/2 publish and of its retry
      handles are: one PUBLISH with DUP=0, then PUBLISHes with DUP=1, then (QoS 2) PUBRELs only;
      each decodes, by the independent decoder, to the requested fields. *)
From MQ Require Import Base Codec SpecDecode Codec_proofs Inbound Inbound_proofs Parse Parse_proofs
  Utf8_proofs C05Flows.
Open Scope N_scope.

(* ---------- 1. inbound stream ---------- *)
Lemma as_delivered_eq m : as_delivered m = delivered m.
Proof. reflexivity. Qed.

(* the packets the reader only routes to a waiter table *)
Definition routed_ok (t fl : N) (b : list N) : bool :=
  (fl =? 0)
  && (((t =? 2) && Nat.eqb (length b) 2)
      || (((t =? 4) || (t =? 5) || (t =? 7) || (t =? 9) || (t =? 11)) && Nat.leb 2 (length b))
      || (t =? 13)).

Definition bpkt_ok (p : bpkt) : Prop :=
  match p with
  | BPublish m => m_qos m <= 2 /\ m_id m < 65536 /\ utf8_wf (m_topic m)
  | BPubRel id => id < 65536
  | BOther t fl b => routed_ok t fl b = true
  end.

Lemma in_events_app a b : in_events (a ++ b) = in_events a ++ in_events b.
Proof. unfold in_events. apply flat_map_app. Qed.

Lemma in_events_lift es : in_events (lift_in es) = es.
Proof. induction es as [|e es IH]; [reflexivity|]. cbn. f_equal. exact IH. Qed.

Lemma dispatch_routed h sb t fl b : routed_ok t fl b = true ->
  exists ev, dispatch h sb t fl b = Ok (sb, ev) /\ in_events ev = [].
Proof.
  unfold routed_ok. intros H.
  apply andb_true_iff in H. destruct H as [Hf H]. apply N.eqb_eq in Hf. subst fl.
  apply orb_true_iff in H. destruct H as [H|H]; [apply orb_true_iff in H; destruct H as [H|H]|].
  - apply andb_true_iff in H. destruct H as [Ht Hl]. apply N.eqb_eq in Ht. subst t.
    apply Nat.eqb_eq in Hl.
    destruct b as [|a [|c [|x r]]]; try discriminate Hl.
    eexists. split; reflexivity.
  - apply andb_true_iff in H. destruct H as [Ht Hl]. apply Nat.leb_le in Hl.
    destruct b as [|a [|c r]]; cbn [length] in Hl; try lia.
    repeat (apply orb_true_iff in Ht; destruct Ht as [Ht|Ht]);
      apply N.eqb_eq in Ht; subst t; eexists; split; reflexivity.
  - apply N.eqb_eq in H. subst t. eexists. split; reflexivity.
Qed.

Lemma publish_header_split m hb : publish_header_byte m = Some hb ->
  m_qos m <= 2 /\ hb = 3 * 16 + publish_flags m /\ publish_flags m < 16.
Proof.
  unfold publish_header_byte, publish_flags. destruct (m_qos m <=? 2) eqn:E; [|discriminate].
  intros H. apply some_inj in H. subst hb.
  split; [lia|]. split; [lia|].
  unfold b2n. destruct (m_retain m), (m_dup m); lia.
Qed.

Lemma dispatch_publish h sb m t : m_qos m <= 2 -> m_id m < 65536 -> utf8_wf (m_topic m) ->
  pack_bytes (m_topic m) = Some t ->
  dispatch h sb 3 (publish_flags m) (publish_body m t) =
    Ok (fst (serve_in_step h sb (InPublish (as_delivered m))),
        lift_in (snd (serve_in_step h sb (InPublish (as_delivered m))))).
Proof.
  intros Hq Hid Hwf Ht. cbn [dispatch].
  rewrite (publish_parse_inverse m t Hq Hid Hwf Ht). cbn [rbind]. rewrite <- as_delivered_eq.
  destruct (serve_in_step h sb (InPublish (as_delivered m))) as [sb' ev]. reflexivity.
Qed.

Lemma dispatch_pubrel h sb id : id < 65536 ->
  dispatch h sb 6 2 (uint16_bytes id) =
    Ok (fst (serve_in_step h sb (InPubRel id)), lift_in (snd (serve_in_step h sb (InPubRel id)))).
Proof.
  intros Hid. cbn [dispatch]. unfold parse_pubrel, parse_id_only.
  assert (E : unpack_uint16 (uint16_bytes id) = Ok id).
  { pose proof (unpack_uint16_bytes id [] Hid) as H. rewrite app_nil_r in H. exact H. }
  cbn [N.eqb Pos.eqb negb uint16_bytes length Nat.ltb Nat.leb]. fold (uint16_bytes id). rewrite E.
  cbn [rbind]. destruct (serve_in_step h sb (InPubRel id)) as [sb' ev]. reflexivity.
Qed.

(* one loop iteration per encoded packet *)
Lemma serve_stream_bpkt f h sb p x tail : bpkt_ok p -> enc_bpkt p = Some x ->
  exists evp,
    serve_stream (S f) h sb (x ++ tail) =
      (let '(evs, e) := serve_stream f h (serve_in_sb h sb (flow_pkts [p])) tail in (evp ++ evs, e))
    /\ in_events evp = serve_in h sb (flow_pkts [p]).
Proof.
  intros Hok Hx. destruct p as [m|id|t fl b]; cbn [enc_bpkt bpkt_ok] in *.
  - destruct Hok as (Hq & Hid & Hwf).
    unfold pack_publish in Hx.
    destruct (publish_header_byte m) as [hb|] eqn:Eh; [|discriminate]. cbn [bind] in Hx.
    destruct (pack_bytes (m_topic m)) as [t|] eqn:Et; [|discriminate]. cbn [bind] in Hx.
    apply publish_header_split in Eh. destruct Eh as (_ & -> & Hfl).
    fold (publish_body m t) in Hx.
    rewrite (serve_stream_frame f h sb 3 (publish_flags m) (publish_body m t) x tail) by (try lia; exact Hx).
    rewrite (dispatch_publish h sb m t Hq Hid Hwf Et).
    cbn [flow_pkts serve_in_sb serve_in].
    destruct (serve_in_step h sb (InPublish (as_delivered m))) as [sb' ev]. cbn [fst snd].
    destruct (serve_stream f h sb' tail) as [evs e].
    exists ([EvAlloc (len (publish_body m t))] ++ lift_in ev). split.
    + rewrite <- app_assoc. reflexivity.
    + rewrite in_events_app, in_events_lift, app_nil_r. reflexivity.
  - unfold pack_pubrel in Hx.
    rewrite (serve_stream_frame f h sb 6 2 (uint16_bytes id) x tail) by (try lia; exact Hx).
    rewrite (dispatch_pubrel h sb id Hok).
    cbn [flow_pkts serve_in_sb serve_in].
    destruct (serve_in_step h sb (InPubRel id)) as [sb' ev]. cbn [fst snd].
    destruct (serve_stream f h sb' tail) as [evs e].
    exists ([EvAlloc (len (uint16_bytes id))] ++ lift_in ev). split.
    + rewrite <- app_assoc. reflexivity.
    + rewrite in_events_app, in_events_lift, app_nil_r. reflexivity.
  - assert (Ht : t < 16 /\ fl < 16).
    { unfold routed_ok in Hok. apply andb_true_iff in Hok. destruct Hok as [Hf H].
      split; [|lia].
      repeat (apply orb_true_iff in H; destruct H as [H|H]);
        try (apply andb_true_iff in H; destruct H as [H _]);
        repeat (apply orb_true_iff in H; destruct H as [H|H]); lia. }
    destruct Ht as [Ht Hf].
    rewrite (serve_stream_frame f h sb t fl b x tail Ht Hf Hx).
    destruct (dispatch_routed h sb t fl b Hok) as (ev & Hd & Hev). rewrite Hd.
    cbn [flow_pkts serve_in_sb serve_in].
    destruct (serve_stream f h sb tail) as [evs e].
    exists ([EvAlloc (len b)] ++ ev). split.
    + rewrite <- app_assoc. reflexivity.
    + rewrite in_events_app, Hev. reflexivity.
Qed.

Lemma serve_in_app h ps : forall sb qs,
  serve_in h sb (ps ++ qs) = serve_in h sb ps ++ serve_in h (serve_in_sb h sb ps) qs.
Proof.
  induction ps as [|p ps IH]; intros sb qs; [reflexivity|].
  cbn [app serve_in serve_in_sb]. destruct (serve_in_step h sb p) as [sb' ev]. cbn [fst].
  rewrite IH, app_assoc. reflexivity.
Qed.

Lemma serve_in_sb_app h ps : forall sb qs,
  serve_in_sb h sb (ps ++ qs) = serve_in_sb h (serve_in_sb h sb ps) qs.
Proof. induction ps as [|p ps IH]; intros sb qs; [reflexivity|]. cbn [app serve_in_sb]. apply IH. Qed.

Lemma flow_pkts_app a b : flow_pkts (a ++ b) = flow_pkts a ++ flow_pkts b.
Proof.
  induction a as [|[m|id|t fl x] a IH]; cbn [app flow_pkts]; [reflexivity| | |]; rewrite IH; reflexivity.
Qed.

Lemma enc_stream_cons p r s : enc_stream (p :: r) = Some s ->
  exists x y, enc_bpkt p = Some x /\ enc_stream r = Some y /\ s = x ++ y.
Proof.
  cbn [enc_stream]. destruct (enc_bpkt p) as [x|]; [|discriminate]. cbn [bind].
  destruct (enc_stream r) as [y|]; [|discriminate]. cbn [bind].
  intros H. apply some_inj in H. exists x, y. repeat split. symmetry. exact H.
Qed.

Lemma enc_bpkt_nonempty p x : enc_bpkt p = Some x -> (1 <= length x)%nat.
Proof.
  destruct p as [m|id|t fl b]; cbn [enc_bpkt]; unfold pack_publish, pack_pubrel; intros H.
  - destruct (publish_header_byte m); [|discriminate]. cbn [bind] in H.
    destruct (pack_bytes (m_topic m)); [|discriminate]. cbn [bind] in H.
    apply pack_inv in H. destruct H as (rl & _ & -> & _). cbn [length]. lia.
  - apply pack_inv in H. destruct H as (rl & _ & -> & _). cbn [length]. lia.
  - apply pack_inv in H. destruct H as (rl & _ & -> & _). cbn [length]. lia.
Qed.

(* the whole stream: the reader's hand-overs and acknowledgements are those of the QoS flow on the
   encoded messages, and the loop ends with io.EOF *)
Lemma stream_flow_gen h ps : forall s sb f, Forall bpkt_ok ps -> enc_stream ps = Some s ->
  (length s < f)%nat ->
  in_events (fst (serve_stream f h sb s)) = serve_in h sb (flow_pkts ps) /\
  snd (serve_stream f h sb s) = EndErr EEOF.
Proof.
  induction ps as [|p ps IH]; intros s sb f HF Hs Hf.
  - cbn [enc_stream] in Hs. apply some_inj in Hs. subst s.
    destruct f as [|f]; [cbn [length] in Hf; lia|]. cbn. split; reflexivity.
  - inversion HF as [|p0 l0 Hp HF']; subst p0 l0.
    apply enc_stream_cons in Hs. destruct Hs as (x & y & Hx & Hy & ->).
    destruct f as [|f]; [lia|].
    destruct (serve_stream_bpkt f h sb p x y Hp Hx) as (evp & Heq & Hev).
    rewrite Heq.
    pose proof (enc_bpkt_nonempty p x Hx) as Hx1. rewrite app_length in Hf.
    destruct (IH y (serve_in_sb h sb (flow_pkts [p])) f HF' Hy ltac:(lia)) as [IH1 IH2].
    destruct (serve_stream f h (serve_in_sb h sb (flow_pkts [p])) y) as [evs e]. cbn [fst snd] in *.
    split; [|exact IH2].
    rewrite in_events_app, Hev, IH1.
    change (p :: ps) with ([p] ++ ps). rewrite flow_pkts_app, serve_in_app. reflexivity.
Qed.

Theorem stream_flow h ps s : Forall bpkt_ok ps -> enc_stream ps = Some s ->
  in_events (fst (serve h s)) = serve_in h [] (flow_pkts ps) /\ snd (serve h s) = EndErr EEOF.
Proof. intros HF Hs. unfold serve. apply stream_flow_gen; [exact HF | exact Hs | lia]. Qed.

(* ----- the QoS 2 exchange at the level of the flow ----- *)
(* packets that concern the identifier: a PUBLISH that is stored under it, a PUBREL of it *)
Definition touches (id : N) (p : in_pkt) : bool :=
  match p with
  | InPublish m => negb (m_qos m =? 0) && negb (m_qos m =? 1) && (m_id m =? id)
  | InPubRel i => i =? id
  end.

Lemma sb_get_set_same sb id m : sb_get (sb_set sb id m) id = Some m.
Proof. unfold sb_set. cbn [sb_get]. rewrite N.eqb_refl. reflexivity. Qed.

Lemma sb_get_set_other sb id k m : k <> id -> sb_get (sb_set sb id m) k = sb_get sb k.
Proof.
  intros H. unfold sb_set. cbn [sb_get].
  destruct (id =? k) eqn:E; [apply N.eqb_eq in E; congruence|].
  apply sb_get_del_other. exact H.
Qed.

Lemma untouched_step h sb id p : touches id p = false ->
  sb_get (fst (serve_in_step h sb p)) id = sb_get sb id.
Proof.
  destruct p as [m|i]; cbn [touches serve_in_step]; intros H.
  - destruct (m_qos m =? 0); [reflexivity|]. destruct (m_qos m =? 1); [reflexivity|].
    cbn [negb andb fst] in *. apply sb_get_set_other. apply N.eqb_neq in H. congruence.
  - destruct (sb_get sb i); [|reflexivity]. cbn [fst].
    apply sb_get_del_other. apply N.eqb_neq in H. congruence.
Qed.

Lemma untouched_run h id mid : forall sb, forallb (fun p => negb (touches id p)) mid = true ->
  sb_get (serve_in_sb h sb mid) id = sb_get sb id.
Proof.
  induction mid as [|p mid IH]; intros sb H; [reflexivity|].
  cbn [forallb] in H. apply andb_true_iff in H. destruct H as [Hp H].
  cbn [serve_in_sb]. rewrite IH by exact H. apply untouched_step. apply negb_true_iff. exact Hp.
Qed.

(* a QoS 2 message is handed over at its PUBREL, exactly as it was published, whatever packets
   (not concerning its identifier) were processed in between *)
Theorem q2_delivery h sb pre m mid post : m_qos m = 2 ->
  forallb (fun p => negb (touches (m_id m) p)) mid = true ->
  let sb1 := sb_set (serve_in_sb h sb pre) (m_id m) m in
  let sb2 := sb_del (serve_in_sb h sb1 mid) (m_id m) in
  serve_in h sb (pre ++ InPublish m :: mid ++ InPubRel (m_id m) :: post) =
    serve_in h sb pre ++ [WPubRec (m_id m)] ++ serve_in h sb1 mid
    ++ hand h m ++ [WPubComp (m_id m)] ++ serve_in h sb2 post.
Proof.
  intros Hq Hmid sb1 sb2.
  rewrite serve_in_app. f_equal.
  cbn [serve_in serve_in_step]. rewrite Hq. cbn [N.eqb Pos.eqb].
  fold sb1. cbn [app]. f_equal.
  rewrite serve_in_app. f_equal.
  cbn [serve_in serve_in_step].
  rewrite (untouched_run h (m_id m) mid sb1 Hmid). unfold sb1 at 1. rewrite sb_get_set_same.
  fold sb2. rewrite <- app_assoc. reflexivity.
Qed.

(* nothing but published messages (or what the buffer held initially) is ever handed over *)
Lemma sb_get_in sb id m : sb_get sb id = Some m -> In m (map snd sb).
Proof.
  induction sb as [|[k v] sb IH]; cbn [sb_get map snd]; [discriminate|].
  destruct (k =? id); intros H; [left; congruence | right; apply IH; exact H].
Qed.

Lemma sb_del_in sb id x : In x (map snd (sb_del sb id)) -> In x (map snd sb).
Proof.
  induction sb as [|[k v] sb IH]; cbn [sb_del map snd]; [tauto|].
  destruct (k =? id); cbn [map snd In]; intros H; [right; apply IH; exact H|].
  destruct H as [H|H]; [left; exact H | right; apply IH; exact H].
Qed.

Theorem hands_are_published h ps : forall sb x, In (Hand x) (serve_in h sb ps) ->
  In (InPublish x) ps \/ In x (map snd sb).
Proof.
  induction ps as [|p ps IH]; intros sb x H; [destruct H|].
  cbn [serve_in] in H. destruct (serve_in_step h sb p) as [sb' ev] eqn:Es.
  apply in_app_or in H. destruct H as [H|H].
  - destruct p as [m|id]; cbn [serve_in_step] in Es.
    + destruct (m_qos m =? 0).
      { injection Es as <- <-. unfold hand in H. destruct h; [|destruct H].
        destruct H as [H|[]]. injection H as ->. left. left. reflexivity. }
      destruct (m_qos m =? 1).
      { injection Es as <- <-. apply in_app_or in H. destruct H as [H|H].
        - unfold hand in H. destruct h; [|destruct H].
          destruct H as [H|[]]. injection H as ->. left. left. reflexivity.
        - destruct H as [H|[]]. discriminate H. }
      injection Es as <- <-. destruct H as [H|[]]. discriminate H.
    + destruct (sb_get sb id) as [m|] eqn:Eg.
      * injection Es as <- <-. apply in_app_or in H. destruct H as [H|H].
        -- unfold hand in H. destruct h; [|destruct H].
           destruct H as [H|[]]. injection H as ->. right. apply (sb_get_in sb id). exact Eg.
        -- destruct H as [H|[]]. discriminate H.
      * injection Es as <- <-. destruct H.
  - apply IH in H. destruct H as [H|H]; [left; right; exact H|].
    destruct p as [m|id]; cbn [serve_in_step] in Es.
    + destruct (m_qos m =? 0); [injection Es as <- <-; right; exact H|].
      destruct (m_qos m =? 1); [injection Es as <- <-; right; exact H|].
      injection Es as <- <-. unfold sb_set in H. cbn [map snd In] in H.
      destruct H as [H|H]; [left; left; congruence | right; apply (sb_del_in sb (m_id m)); exact H].
    + destruct (sb_get sb id); injection Es as <- <-; right; [apply (sb_del_in sb id)|]; exact H.
Qed.

Lemma flow_pkts_publish ps x : In (InPublish x) (flow_pkts ps) ->
  exists m, In (BPublish m) ps /\ x = as_delivered m.
Proof.
  induction ps as [|[m|id|t fl b] ps IH]; cbn [flow_pkts In]; intros H; [destruct H| | |].
  - destruct H as [H|H]; [injection H as <-; exists m; split; [left|]; reflexivity|].
    destruct (IH H) as (m' & Hin & ->). exists m'. split; [right; exact Hin|reflexivity].
  - destruct H as [H|H]; [discriminate|].
    destruct (IH H) as (m' & Hin & ->). exists m'. split; [right; exact Hin|reflexivity].
  - destruct (IH H) as (m' & Hin & ->). exists m'. split; [right; exact Hin|reflexivity].
Qed.

(* stream level: every message the handler receives is, field by field, an encoded PUBLISH *)
Theorem stream_hands_encoded h ps s x : Forall bpkt_ok ps -> enc_stream ps = Some s ->
  In (EvIn (Hand x)) (fst (serve h s)) -> exists m, In (BPublish m) ps /\ x = as_delivered m.
Proof.
  intros HF Hs Hin.
  assert (H : In (Hand x) (in_events (fst (serve h s)))).
  { unfold in_events. apply in_flat_map. exists (EvIn (Hand x)). split; [exact Hin | left; reflexivity]. }
  rewrite (proj1 (stream_flow h ps s HF Hs)) in H.
  apply hands_are_published in H. destruct H as [H|[]].
  apply flow_pkts_publish. exact H.
Qed.

(* packets of the stream that concern an identifier *)
Definition btouches (id : N) (p : bpkt) : bool :=
  match p with
  | BPublish m => (m_qos m =? 2) && (m_id m =? id)
  | BPubRel i => i =? id
  | BOther _ _ _ => false
  end.

Lemma flow_untouched id ps : Forall bpkt_ok ps -> forallb (fun p => negb (btouches id p)) ps = true ->
  forallb (fun p => negb (touches id p)) (flow_pkts ps) = true.
Proof.
  induction ps as [|p ps IH]; intros HF H; [reflexivity|].
  inversion HF as [|p0 l0 Hp HF']; subst p0 l0.
  cbn [forallb] in H. apply andb_true_iff in H. destruct H as [Hp' H].
  specialize (IH HF' H).
  destruct p as [m|i|t fl b]; cbn [flow_pkts forallb]; [| |exact IH]; rewrite IH, andb_true_r.
  - cbn [bpkt_ok btouches touches as_delivered m_qos m_id] in *. destruct Hp as (Hq & _ & _).
    destruct (m_qos m =? 0) eqn:E0; [reflexivity|]. destruct (m_qos m =? 1) eqn:E1; [reflexivity|].
    assert (m_qos m =? 2 = true) as E2 by lia. rewrite E2 in Hp'. cbn [negb andb] in *. exact Hp'.
  - cbn [btouches touches] in *. exact Hp'.
Qed.

(* stream level: a QoS 2 PUBLISH, anything not concerning its identifier, its PUBREL *)
Theorem stream_q2_delivery h pre m mid post s : m_qos m = 2 ->
  Forall bpkt_ok (pre ++ BPublish m :: mid ++ BPubRel (m_id m) :: post) ->
  forallb (fun p => negb (btouches (m_id m) p)) mid = true ->
  enc_stream (pre ++ BPublish m :: mid ++ BPubRel (m_id m) :: post) = Some s ->
  let sb1 := sb_set (serve_in_sb h [] (flow_pkts pre)) (m_id m) (as_delivered m) in
  let sb2 := sb_del (serve_in_sb h sb1 (flow_pkts mid)) (m_id m) in
  in_events (fst (serve h s)) =
    serve_in h [] (flow_pkts pre) ++ [WPubRec (m_id m)] ++ serve_in h sb1 (flow_pkts mid)
    ++ hand h (as_delivered m) ++ [WPubComp (m_id m)] ++ serve_in h sb2 (flow_pkts post).
Proof.
  intros Hq HF Hmid Hs sb1 sb2.
  rewrite (proj1 (stream_flow h _ s HF Hs)).
  rewrite flow_pkts_app. cbn [flow_pkts]. rewrite flow_pkts_app. cbn [flow_pkts].
  assert (Hid : m_id (as_delivered m) = m_id m).
  { unfold as_delivered. cbn [m_id]. rewrite Hq. reflexivity. }
  assert (HFmid : Forall bpkt_ok mid).
  { apply Forall_app in HF. destruct HF as [_ HF]. inversion HF as [|p0 l0 _ HF']; subst.
    apply Forall_app in HF'. apply HF'. }
  pose proof (q2_delivery h [] (flow_pkts pre) (as_delivered m) (flow_pkts mid) (flow_pkts post)) as Q.
  rewrite Hid in Q. apply Q.
  - unfold as_delivered. cbn [m_qos]. exact Hq.
  - apply flow_untouched; assumption.
Qed.

(* ---------- 2. retry handles ---------- *)
Definition pubd (m : message) (d : bool) := pack_publish (with_dup m d).
Definition rel (m : message) := pack_pubrel (m_id m).

(* shape of everything written from a given handle state on, for EVERY sequence of interruptions *)
Lemma pub_run_from_rel m cuts : exists j, concat (pub_run m PRel cuts) = repeat (rel m) j.
Proof.
  induction cuts as [|c cuts IH]; [exists O; reflexivity|].
  cbn [pub_run pub_conn concat app].
  destruct (c =? 0).
  - exists 1%nat. cbn [repeat]. f_equal.
    clear IH. induction cuts as [|c' cuts IH]; [reflexivity|]. cbn [pub_run pub_conn concat app]. exact IH.
  - destruct IH as (j & ->). exists (S j). reflexivity.
Qed.

Lemma pub_run_done m cuts : concat (pub_run m PDone cuts) = [].
Proof. induction cuts as [|c cuts IH]; [reflexivity|]. cbn [pub_run pub_conn concat app]. exact IH. Qed.

Ltac fin Hq Hj :=
  split; [reflexivity | first [ intros _; reflexivity | intros _; apply Hj; exact Hq
                              | let HH := fresh in intros HH; discriminate HH ]].

Lemma pub_run_from_dup m cuts : m_qos m = 1 \/ m_qos m = 2 ->
  exists k j, concat (pub_run m (PSend true) cuts) = repeat (pubd m true) k ++ repeat (rel m) j
              /\ (m_qos m = 1 -> j = O).
Proof.
  intros Hq. induction cuts as [|c cuts IH]; [exists O, O; split; reflexivity|].
  cbn [pub_run pub_conn].
  destruct Hq as [Hq|Hq]; rewrite Hq; cbn [N.eqb Pos.eqb].
  - destruct (c =? 0); cbn [concat app].
    + rewrite pub_run_done. exists 1%nat, O. split; reflexivity.
    + destruct IH as (k & j & -> & Hj). exists (S k), j. fin Hq Hj.
  - destruct ((c =? 1) || (c =? 2)); cbn [concat app].
    + destruct IH as (k & j & -> & Hj). exists (S k), j. fin Hq Hj.
    + destruct (c =? 0).
      * cbn [concat app]. rewrite pub_run_done. exists 1%nat, 1%nat. fin Hq Hq.
      * cbn [concat app]. destruct (pub_run_from_rel m cuts) as (j & ->). exists 1%nat, (S j). fin Hq Hq.
Qed.

(* one PUBLISH with DUP=0, then PUBLISHes with DUP=1, then PUBRELs only (none for QoS 1) *)
Theorem pub_run_shape m c cuts : m_qos m = 1 \/ m_qos m = 2 ->
  exists k j, concat (pub_run m (PSend false) (c :: cuts)) =
              pubd m false :: repeat (pubd m true) k ++ repeat (rel m) j
              /\ (m_qos m = 1 -> j = O).
Proof.
  intros Hq. cbn [pub_run pub_conn].
  destruct Hq as [Hq|Hq]; rewrite Hq; cbn [N.eqb Pos.eqb].
  - destruct (c =? 0); cbn [concat app].
    + rewrite pub_run_done. exists O, O. split; reflexivity.
    + destruct (pub_run_from_dup m cuts (or_introl Hq)) as (k & j & -> & Hj). exists k, j. fin Hq Hj.
  - destruct ((c =? 1) || (c =? 2)); cbn [concat app].
    + destruct (pub_run_from_dup m cuts (or_intror Hq)) as (k & j & -> & Hj). exists k, j. fin Hq Hj.
    + destruct (c =? 0).
      * cbn [concat app]. rewrite pub_run_done. exists O, 1%nat. fin Hq Hq.
      * cbn [concat app]. destruct (pub_run_from_rel m cuts) as (j & ->). exists O, (S j). fin Hq Hq.
Qed.

(* what the independent decoder reads from these packets *)
Theorem retry_packets_decode m d : m_id m < 65536 -> m_qos m = 1 \/ m_qos m = 2 ->
  (forall b, pubd m d = Some b ->
     spec_decode b = Some (PPublish d (m_qos m) (m_retain m) (m_topic m) (Some (m_id m)) (m_payload m), [])) /\
  (forall b, rel m = Some b -> spec_decode b = Some (PPubRel (m_id m), [])).
Proof.
  intros Hid Hq. split; intros b Hb.
  - unfold pubd in Hb. pose proof (publish_roundtrip (with_dup m d) b [] Hb) as H.
    rewrite app_nil_r in H. cbn [with_dup m_id m_qos m_dup m_retain m_topic m_payload] in H.
    rewrite (H Hid). destruct Hq as [-> | ->]; reflexivity.
  - unfold rel in Hb. destruct (small_roundtrip (m_id m) [] Hid) as (_ & _ & H & _).
    specialize (H b Hb). rewrite app_nil_r in H. exact H.
Qed.

(* ---------- 3. length-prefixed fields: the 65,535 limit ---------- *)
(* appendBytes (packet.go:122-129) panics above 0xFFFF; the panic is the model's None *)
Theorem pack_bytes_defined_iff s : len s <= 65535 <-> exists b, pack_bytes s = Some b.
Proof.
  unfold pack_bytes. destruct (len s <=? 65535) eqn:E; split; intros H.
  - eexists. reflexivity.
  - lia.
  - lia.
  - destruct H as (b & H). discriminate H.
Qed.

Lemma pack_bytes_long s : 65535 < len s -> pack_bytes s = None.
Proof. intros H. unfold pack_bytes. destruct (len s <=? 65535) eqn:E; [lia | reflexivity]. Qed.

Lemma long_nonempty s : 65535 < len s -> nonempty s = true.
Proof. destruct s; [cbn; lia | reflexivity]. Qed.

Definition connect_long (c : connect) : Prop :=
  65535 < len (c_client_id c) \/
  (exists w, c_will c = Some w /\ (65535 < len (w_topic w) \/ 65535 < len (w_payload w))) \/
  65535 < len (c_user c) \/ 65535 < len (c_pass c).

Theorem connect_long_rejected c : connect_long c -> pack_connect c = None.
Proof.
  unfold connect_long, pack_connect. intros [H|[(w & Hw & H)|[H|H]]].
  - rewrite (pack_bytes_long _ H). reflexivity.
  - destruct (pack_bytes (c_client_id c)); cbn [bind]; [|reflexivity]. rewrite Hw.
    destruct H as [H|H].
    + rewrite (pack_bytes_long _ H). reflexivity.
    + destruct (pack_bytes (w_topic w)); cbn [bind]; [|reflexivity].
      rewrite (pack_bytes_long _ H). reflexivity.
  - rewrite (long_nonempty _ H), (pack_bytes_long _ H).
    destruct (pack_bytes (c_client_id c)); cbn [bind]; [|reflexivity].
    match goal with |- bind ?x _ = None => destruct x; cbn [bind]; reflexivity end.
  - rewrite (long_nonempty _ H), (pack_bytes_long _ H).
    destruct (pack_bytes (c_client_id c)); cbn [bind]; [|reflexivity].
    match goal with |- bind ?x _ = None => destruct x; cbn [bind]; [|reflexivity] end.
    match goal with |- bind ?x _ = None => destruct x; cbn [bind]; reflexivity end.
Qed.

Theorem publish_long_rejected m : 65535 < len (m_topic m) -> pack_publish m = None.
Proof.
  intros H. unfold pack_publish. destruct (publish_header_byte m); cbn [bind]; [|reflexivity].
  rewrite (pack_bytes_long _ H). reflexivity.
Qed.

Lemma sub_payload_long subs t q : In (t, q) subs -> 65535 < len t -> sub_payload subs = None.
Proof.
  induction subs as [|[t0 q0] subs IH]; intros Hin H; [destruct Hin|].
  cbn [sub_payload]. destruct Hin as [Hin|Hin].
  - injection Hin as -> ->. rewrite (pack_bytes_long _ H). reflexivity.
  - destruct (pack_bytes t0); cbn [bind]; [|reflexivity].
    destruct (q0 <=? 2); [|reflexivity]. rewrite (IH Hin H). reflexivity.
Qed.

Theorem subscribe_long_rejected id subs t q : In (t, q) subs -> 65535 < len t ->
  pack_subscribe id subs = None.
Proof. intros Hin H. unfold pack_subscribe. rewrite (sub_payload_long subs t q Hin H). reflexivity. Qed.

Lemma unsub_payload_long ts t : In t ts -> 65535 < len t -> unsub_payload ts = None.
Proof.
  induction ts as [|t0 ts IH]; intros Hin H; [destruct Hin|].
  cbn [unsub_payload]. destruct Hin as [Hin|Hin].
  - subst t0. rewrite (pack_bytes_long _ H). reflexivity.
  - destruct (pack_bytes t0); cbn [bind]; [|reflexivity]. rewrite (IH Hin H). reflexivity.
Qed.

Theorem unsubscribe_long_rejected id ts t : In t ts -> 65535 < len t -> pack_unsubscribe id ts = None.
Proof. intros Hin H. unfold pack_unsubscribe. rewrite (unsub_payload_long ts t Hin H). reflexivity. Qed.

(* conversely: with every field within 65,535 bytes the encoders reach pack(), which is defined exactly
   up to a body of 268,435,455 bytes (pack_defined_iff); the round trip theorems then apply *)
Definition connect_short (c : connect) : Prop :=
  len (c_client_id c) <= 65535 /\
  (forall w, c_will c = Some w -> len (w_topic w) <= 65535 /\ len (w_payload w) <= 65535) /\
  len (c_user c) <= 65535 /\ len (c_pass c) <= 65535.

Theorem connect_short_packs c : connect_short c -> exists body, pack_connect c = pack 16 body.
Proof.
  intros (Hc & Hw & Hu & Hp). unfold pack_connect.
  destruct (proj1 (pack_bytes_defined_iff _) Hc) as (cid & ->). cbn [bind].
  assert (Ew : exists wl, match c_will c with
                          | None => Some []
                          | Some w => t <- pack_bytes (w_topic w) ;; p <- pack_bytes (w_payload w) ;; Some (t ++ p)
                          end = Some wl).
  { destruct (c_will c) as [w|]; [|eexists; reflexivity].
    destruct (Hw w eq_refl) as [H1 H2].
    destruct (proj1 (pack_bytes_defined_iff _) H1) as (t & ->).
    destruct (proj1 (pack_bytes_defined_iff _) H2) as (p & ->). eexists. reflexivity. }
  destruct Ew as (wl & ->). cbn [bind].
  assert (Eu : exists us, (if nonempty (c_user c) then pack_bytes (c_user c) else Some []) = Some us).
  { destruct (nonempty (c_user c)); [apply pack_bytes_defined_iff; exact Hu | eexists; reflexivity]. }
  destruct Eu as (us & ->). cbn [bind].
  assert (Ep : exists pw, (if nonempty (c_pass c) then pack_bytes (c_pass c) else Some []) = Some pw).
  { destruct (nonempty (c_pass c)); [apply pack_bytes_defined_iff; exact Hp | eexists; reflexivity]. }
  destruct Ep as (pw & ->). cbn [bind]. eexists. reflexivity.
Qed.

Theorem subscribe_short_packs id subs :
  Forall (fun tq => len (fst tq) <= 65535 /\ snd tq <= 2) subs ->
  exists p, pack_subscribe id subs = pack 130 (uint16_bytes id ++ p).
Proof.
  intros HF. unfold pack_subscribe.
  assert (E : exists p, sub_payload subs = Some p).
  { induction HF as [|[t q] subs [Ht Hq] _ (p & IH)]; [eexists; reflexivity|].
    cbn [sub_payload fst snd] in *.
    destruct (proj1 (pack_bytes_defined_iff _) Ht) as (tb & ->). cbn [bind].
    destruct (q <=? 2) eqn:E; [|lia]. rewrite IH. cbn [bind]. eexists. reflexivity. }
  destruct E as (p & ->). cbn [bind]. exists p. reflexivity.
Qed.

Theorem unsubscribe_short_packs id ts : Forall (fun t => len t <= 65535) ts ->
  exists p, pack_unsubscribe id ts = pack 162 (uint16_bytes id ++ p).
Proof.
  intros HF. unfold pack_unsubscribe.
  assert (E : exists p, unsub_payload ts = Some p).
  { induction HF as [|t ts Ht _ (p & IH)]; [eexists; reflexivity|].
    cbn [unsub_payload].
    destruct (proj1 (pack_bytes_defined_iff _) Ht) as (tb & ->). cbn [bind].
    rewrite IH. cbn [bind]. eexists. reflexivity. }
  destruct E as (p & ->). cbn [bind]. exists p. reflexivity.
Qed.

(* ---------- 4. what a RetryClient re-subscribes ---------- *)
Lemma est_lookup_app t a b :
  est_lookup t (a ++ b) = match est_lookup t a with Some q => Some q | None => est_lookup t b end.
Proof.
  induction a as [|[t' q] a IH]; [reflexivity|]. cbn [app est_lookup].
  destruct (str_eqb t' t); [reflexivity | exact IH].
Qed.

Lemma str_eqb_sym a b : str_eqb a b = str_eqb b a.
Proof.
  destruct (str_eqb a b) eqn:E.
  - apply str_eqb_eq in E. subst. symmetry. apply str_eqb_refl.
  - symmetry. apply str_eqb_neq. apply str_eqb_neq in E. congruence.
Qed.

Lemma est_lookup_unsub t t' est :
  est_lookup t (est_unsub t' est) = if str_eqb t' t then None else est_lookup t est.
Proof.
  unfold est_unsub. induction est as [|[t0 q] est IH]; [destruct (str_eqb t' t); reflexivity|].
  cbn [filter fst est_lookup].
  destruct (str_eqb t0 t') eqn:E0; cbn [negb].
  - apply str_eqb_eq in E0. subst t0. rewrite IH. destruct (str_eqb t' t); reflexivity.
  - cbn [est_lookup]. rewrite IH. destruct (str_eqb t0 t) eqn:E1; [|reflexivity].
    apply str_eqb_eq in E1. subst t0. rewrite str_eqb_sym, E0. reflexivity.
Qed.

Lemma est_lookup_sub t subs : forall est,
  est_lookup t (est_sub subs est) = last_q t subs (est_lookup t est).
Proof.
  induction subs as [|[t' q] subs IH]; intros est; [reflexivity|].
  cbn [est_sub last_q]. rewrite IH, est_lookup_app, est_lookup_unsub. cbn [est_lookup].
  destruct (str_eqb t' t); [reflexivity|]. destruct (est_lookup t est); reflexivity.
Qed.

Lemma est_lookup_unsubs t ts : forall est,
  est_lookup t (rc_unsubscribe est ts) =
  if existsb (fun x => str_eqb x t) ts then None else est_lookup t est.
Proof.
  unfold rc_unsubscribe. induction ts as [|t' ts IH]; intros est; [reflexivity|].
  cbn [fold_left existsb]. rewrite IH, est_lookup_unsub.
  destruct (str_eqb t' t); cbn [orb]; [destruct (existsb _ ts); reflexivity | reflexivity].
Qed.

(* what is remembered for a filter is the QoS the application asked last (nothing, if it unsubscribed):
   a function of the request history only *)
Theorem remembered_is_asked t ops : forall est,
  est_lookup t (rc_run est ops) = asked t (map fst ops) (est_lookup t est).
Proof.
  induction ops as [|[[subs|ts] codes] ops IH]; intros est; [reflexivity| |]; cbn [rc_run map fst asked].
  - rewrite IH. unfold rc_subscribe. cbn [fst]. rewrite est_lookup_sub. reflexivity.
  - rewrite IH, est_lookup_unsubs. reflexivity.
Qed.

(* ... in particular the whole re-subscription (filters, QoS, order, grouping into packets) does not depend
   on what any broker granted *)
Theorem resubscription_independent_of_grants ops1 ops2 est :
  map fst ops1 = map fst ops2 -> resub_requests (rc_run est ops1) = resub_requests (rc_run est ops2).
Proof.
  intros H. f_equal. revert ops2 est H.
  induction ops1 as [|[o1 c1] ops1 IH]; intros [|[o2 c2] ops2] est H; try discriminate H; [reflexivity|].
  cbn [map fst] in H. injection H as -> H. destruct o2 as [subs|ts]; cbn [rc_run]; apply IH; exact H.
Qed.

(* ---------- non-vacuity ---------- *)
Definition ex_msg (q id : N) (pl : list N) : message :=
  {| m_topic := [116]; m_id := id; m_qos := q; m_retain := false; m_dup := false; m_payload := pl |}.

Definition ex_stream : list bpkt :=
  [BPublish (ex_msg 2 7 [1; 2; 3]); BPublish (ex_msg 0 0 [9; 9; 9; 9]); BOther 9 0 [0; 5; 1; 1; 1; 1; 1; 1];
   BPublish (ex_msg 1 8 [4]); BOther 13 0 []; BPubRel 7].

Example ex_stream_ok : Forall bpkt_ok ex_stream.
Proof.
  assert (U : utf8_wf [116]) by (apply U_1; [lia | lia | apply U_nil]).
  repeat constructor; cbn; try lia; exact U.
Qed.

Example ex_stream_run :
  option_map (fun s => in_events (fst (serve true s))) (enc_stream ex_stream) =
  Some [WPubRec 7; Hand (ex_msg 0 0 [9; 9; 9; 9]); Hand (ex_msg 1 8 [4]); WPubAck 8;
        Hand (ex_msg 2 7 [1; 2; 3]); WPubComp 7].
Proof. vm_compute. reflexivity. Qed.

(* the hypotheses of stream_q2_delivery hold for it: QoS 2 PUBLISH 7, four other packets, PUBREL 7 *)
Example ex_stream_split :
  ex_stream = [] ++ BPublish (ex_msg 2 7 [1; 2; 3])
                 :: [BPublish (ex_msg 0 0 [9; 9; 9; 9]); BOther 9 0 [0; 5; 1; 1; 1; 1; 1; 1];
                     BPublish (ex_msg 1 8 [4]); BOther 13 0 []] ++ BPubRel (m_id (ex_msg 2 7 [1; 2; 3])) :: []
  /\ forallb (fun p => negb (btouches 7 p))
       [BPublish (ex_msg 0 0 [9; 9; 9; 9]); BOther 9 0 [0; 5; 1; 1; 1; 1; 1; 1];
        BPublish (ex_msg 1 8 [4]); BOther 13 0 []] = true.
Proof. split; reflexivity. Qed.

(* the boundary itself: 65,535 bytes are carried, 65,536 are rejected *)
Example ex_field_boundary :
  (exists b, pack_bytes (repeat 97 (N.to_nat 65535)) = Some b) /\
  pack_bytes (repeat 97 (N.to_nat 65536)) = None /\
  pack_subscribe 7 [([97], 1); (repeat 97 (N.to_nat 65536), 0)] = None.
Proof.
  split; [apply pack_bytes_defined_iff; vm_compute; discriminate|].
  split; [apply pack_bytes_long; vm_compute; reflexivity|].
  apply (subscribe_long_rejected 7 _ (repeat 97 (N.to_nat 65536)) 0); [right; left; reflexivity|].
  vm_compute. reflexivity.
Qed.

(* the demo of the seeded change: a:2, b:1 requested, 0 and 1 granted: a:2, b:1 are re-subscribed *)
Example ex_resub :
  resub_requests (rc_run [] [(SSub [([97], 2); ([98], 1)], [0; 1]); (SSub [([97], 1)], [0]); (SUnsub [[98]], [])])
  = [[([97], 1)]]
  /\ snd (rc_subscribe [] [([97], 2); ([98], 1)] [0; 1]) = [([97], 0); ([98], 1)].
Proof. split; reflexivity. Qed.

Example ex_pub_run :
  pub_run (ex_msg 2 7 [1]) (PSend false) [2; 4; 1; 0] =
  [[Some [52; 6; 0; 1; 116; 0; 7; 1]];
   [Some [60; 6; 0; 1; 116; 0; 7; 1]; Some [98; 2; 0; 7]];
   [Some [98; 2; 0; 7]];
   [Some [98; 2; 0; 7]]].
Proof. vm_compute. reflexivity. Qed.

Print Assumptions stream_flow.
Print Assumptions stream_q2_delivery.
Print Assumptions stream_hands_encoded.
Print Assumptions pub_run_shape.
Print Assumptions retry_packets_decode.
Print Assumptions connect_long_rejected.
Print Assumptions subscribe_long_rejected.
Print Assumptions connect_short_packs.
Print Assumptions remembered_is_asked.
Print Assumptions resubscription_independent_of_grants.
