(* RetryInv_Wire.v — wire-level facts about the retry / reconnect model, part 1:
   what one [send] / [attempt_*] appends to the wire log, and C12_retry_handle_stmt. *)
From MQ Require Import Base RetryCore RetrySys CheckRetry RetryProps.
Open Scope nat_scope.

Ltac prj := cbn [w_clients w_broker w_wire w_retryq w_subest w_nrbe w_errs w_acked w_dropped w_hung
                 set_clients set_broker log_wire set_retryq set_subest set_nrbe on_error add_acked
                 add_dropped set_hung upd_client process queue_retry
                 s_w s_cur s_gen s_cres s_taskq s_tmode s_pc s_initialized s_submitted s_waits
                 set_w set_pc set_tmode set_taskq set_cres fst snd] in *.

(* ---------- send: exactly one wire entry ---------- *)
Lemma send_wire cfg fp w k p w' r :
  send cfg fp w k p = (w', r) -> exists res, w_wire w' = w_wire w ++ [(k, p, res)].
Proof.
  unfold send. destruct (negb (cl_alive (get_client w k))).
  - intros H; inversion H; subst; prj. eauto.
  - destruct (if cl_accepted (get_client w k) then fp k (cl_sent (get_client w k)) else FLostAfter);
      intros H; inversion H; subst; prj; eauto.
Qed.

Lemma send_retryq cfg fp w k p w' r :
  send cfg fp w k p = (w', r) -> w_retryq w' = w_retryq w.
Proof.
  unfold send. destruct (negb (cl_alive (get_client w k))).
  - intros H; inversion H; subst; prj. reflexivity.
  - destruct (if cl_accepted (get_client w k) then fp k (cl_sent (get_client w k)) else FLostAfter);
      intros H; inversion H; subst; prj; reflexivity.
Qed.

(* ---------- attempt_pubrel / attempt_publish: shape of the appended part ---------- *)
Lemma attempt_pubrel_wire cfg fp w k m w' r :
  attempt_pubrel cfg fp w k m = (w', r) ->
  exists rest, w_wire w' = w_wire w ++ rest /\
    forall x, In x rest -> exists res, x = (k, PPubRel (p_uid m), res).
Proof.
  unfold attempt_pubrel. destruct (negb (cl_inited (get_client w k))).
  - intros H; inversion H; subst. exists []. rewrite app_nil_r. split; [reflexivity|intros x []].
  - destruct (send cfg fp w k (PPubRel (p_uid m))) as [w1 r1] eqn:S.
    apply send_wire in S as [res S].
    intros H. exists [(k, PPubRel (p_uid m), res)].
    split.
    + destruct r1; inversion H; subst; prj; exact S.
    + intros x [<-|[]]. eauto.
Qed.

Lemma attempt_pubrel_fail cfg fp w k m w' e cls :
  attempt_pubrel cfg fp w k m = (w', AFail e cls) -> e = RPubRel m.
Proof.
  unfold attempt_pubrel. destruct (negb (cl_inited (get_client w k))); [discriminate|].
  destruct (send cfg fp w k (PPubRel (p_uid m))) as [w1 r1].
  destruct r1; intros H; inversion H; reflexivity.
Qed.

Lemma attempt_publish_fail cfg fp w k m d w' e cls :
  attempt_publish cfg fp w k m d = (w', AFail e cls) -> e = RPublish m \/ e = RPubRel m.
Proof.
  unfold attempt_publish. destruct (negb (cl_inited (get_client w k))); [discriminate|].
  destruct (send cfg fp w k (PPublish m d)) as [w1 r1].
  destruct (p_qos m =? 0)%N; [destruct r1; discriminate|].
  destruct (p_qos m =? 1)%N.
  - destruct r1; intros H; inversion H; auto.
  - destruct r1; intros H; try (inversion H; auto; fail).
    right. eapply attempt_pubrel_fail; eauto.
Qed.

Lemma attempt_publish_wire_inited cfg fp w k m d w' r :
  attempt_publish cfg fp w k m d = (w', r) -> cl_inited (get_client w k) = true ->
  exists res rest', w_wire w' = w_wire w ++ (k, PPublish m d, res) :: rest' /\
    forall x, In x rest' -> exists res', x = (k, PPubRel (p_uid m), res').
Proof.
  unfold attempt_publish. intros H Hi. rewrite Hi in H. cbn [negb] in H.
  destruct (send cfg fp w k (PPublish m d)) as [w1 r1] eqn:S.
  apply send_wire in S as [res S].
  assert (D : forall w'', w_wire w'' = w_wire w1 ->
    exists res rest', w_wire w'' = w_wire w ++ (k, PPublish m d, res) :: rest' /\
    forall x, In x rest' -> exists res', x = (k, PPubRel (p_uid m), res')).
  { intros w'' E. exists res, []. rewrite E, S. split; [reflexivity|intros x []]. }
  destruct (p_qos m =? 0)%N.
  { destruct r1; inversion H; subst; apply D; reflexivity. }
  destruct (p_qos m =? 1)%N.
  { destruct r1; inversion H; subst; apply D; reflexivity. }
  destruct r1; try (inversion H; subst; apply D; reflexivity).
  apply attempt_pubrel_wire in H as (rest & E & F).
  exists res, rest. rewrite E, S, <- app_assoc. split; [reflexivity|exact F].
Qed.

(* ---------- C12: the retry handle of the base client ---------- *)
Lemma retry_handle : C12_retry_handle_stmt.
Proof.
  unfold C12_retry_handle_stmt. intros cfg fp w k m d w' e cls H.
  pose proof (attempt_publish_fail _ _ _ _ _ _ _ _ _ H) as He. split; [exact He|].
  intros w2 k2 w3 r R Hi. destruct He as [-> | ->]; cbn [run_entry] in R.
  - apply attempt_publish_wire_inited in R as (res & rest' & E & F); [|exact Hi].
    exists ((k2, PPublish m true, res) :: rest'). split; [exact E|].
    exists res, rest'. split; [reflexivity|exact F].
  - apply attempt_pubrel_wire in R as (rest & E & F). exists rest. split; assumption.
Qed.

(* ====================================================================== *)
(* list facts *)
Lemma mem_In x l : mem x l = true <-> In x l.
Proof.
  unfold mem. rewrite existsb_exists. split.
  - intros (y & Hy & E). apply Nat.eqb_eq in E. subst. exact Hy.
  - intros H. exists x. split; [exact H|apply Nat.eqb_refl].
Qed.

Lemma mem_false x l : mem x l = false <-> ~ In x l.
Proof. rewrite <- mem_In. destruct (mem x l); split; congruence. Qed.

Lemma inc_lo lo l : increasing_from lo l = true -> forall x, In x l -> lo < x.
Proof.
  revert lo; induction l as [|a l IH]; intros lo H x Hx; [destruct Hx|].
  cbn [increasing_from] in H. apply andb_true_iff in H as [H1 H2]. destruct Hx as [E|Hx].
  - subst. lia.
  - specialize (IH _ H2 _ Hx). lia.
Qed.

Lemma inc_weaken lo lo' l : lo' <= lo -> increasing_from lo l = true -> increasing_from lo' l = true.
Proof.
  destruct l; cbn [increasing_from]; [reflexivity|]. intros L H.
  apply andb_true_iff in H as [H1 H2]. rewrite H2, andb_true_r. lia.
Qed.

Lemma inc_app_iff lo l1 l2 :
  increasing_from lo (l1 ++ l2) = true <->
  increasing_from lo l1 = true /\ increasing_from lo l2 = true /\
  forall x y, In x l1 -> In y l2 -> x < y.
Proof.
  revert lo; induction l1 as [|a l1 IH]; intros lo.
  - cbn [List.app increasing_from]. split; [intros H; repeat split; [exact H|intros x y []]|tauto].
  - rewrite <- app_comm_cons. cbn [increasing_from]. rewrite !andb_true_iff, IH. split.
    + intros (A & B & C & D). repeat split; try assumption.
      * eapply inc_weaken; [|exact C]. lia.
      * intros x y [<-|Hx] Hy; [exact (inc_lo _ _ C _ Hy)|auto].
    + intros ((A & B) & C & D). repeat split; try assumption.
      * destruct l2 as [|b l2]; [reflexivity|]. cbn [increasing_from] in *.
        apply andb_true_iff in C as [C1 C2]. rewrite C2, andb_true_r.
        specialize (D a b (or_introl eq_refl) (or_introl eq_refl)). lia.
      * intros x y Hx Hy. apply D; [right; exact Hx|exact Hy].
Qed.

Lemma inc_cons_iff lo a l :
  increasing_from lo (a :: l) = true <->
  lo < a /\ increasing_from lo l = true /\ forall y, In y l -> a < y.
Proof.
  change (a :: l) with ([a] ++ l). rewrite inc_app_iff. cbn [increasing_from].
  rewrite andb_true_r. split.
  - intros (A & B & C). repeat split; [lia|exact B|intros y Hy; apply C; [left; reflexivity|exact Hy]].
  - intros (A & B & C). repeat split; [lia|exact B|intros x y [<-|[]] Hy; auto].
Qed.

Lemma nd_lo lo l : nondecreasing_from lo l = true -> forall x, In x l -> lo <= x.
Proof.
  revert lo; induction l as [|a l IH]; intros lo H x Hx; [destruct Hx|].
  cbn [nondecreasing_from] in H. apply andb_true_iff in H as [H1 H2]. destruct Hx as [E|Hx].
  - subst. lia.
  - specialize (IH _ H2 _ Hx). lia.
Qed.

Lemma nd_snoc lo l x :
  nondecreasing_from lo l = true -> lo <= x -> (forall y, In y l -> y <= x) ->
  nondecreasing_from lo (l ++ [x]) = true.
Proof.
  revert lo; induction l as [|a l IH]; intros lo H L B; cbn [List.app nondecreasing_from] in *.
  - rewrite andb_true_r. lia.
  - apply andb_true_iff in H as [H1 H2]. rewrite H1. cbn [andb].
    apply IH; [exact H2|apply B; left; reflexivity|intros y Hy; apply B; right; exact Hy].
Qed.

Lemma nonzero_app l1 l2 : nonzero (l1 ++ l2) = nonzero l1 ++ nonzero l2.
Proof. apply filter_app. Qed.

Lemma nonzero_In x l : In x (nonzero l) <-> In x l /\ x <> 0.
Proof.
  unfold nonzero. rewrite filter_In. split; intros [A B]; split; try assumption.
  - intros ->. discriminate.
  - destruct x; [congruence|reflexivity].
Qed.

Lemma fo_sub seen l x : In x (first_occurrences seen l) -> In x l.
Proof.
  revert seen; induction l as [|a l IH]; intros seen; cbn [first_occurrences]; [tauto|].
  destruct (mem a seen).
  - intros H. right. eapply IH; eauto.
  - intros [<-|H]; [left; reflexivity|right; eapply IH; eauto].
Qed.

Lemma fo_snoc seen l x :
  first_occurrences seen (l ++ [x]) =
  first_occurrences seen l ++ (if mem x seen || mem x l then [] else [x]).
Proof.
  revert seen; induction l as [|a l IH]; intros seen; cbn [List.app first_occurrences].
  - cbn [mem existsb]. rewrite orb_false_r. destruct (mem x seen); reflexivity.
  - destruct (mem a seen) eqn:E.
    + rewrite IH. f_equal. unfold mem at 4. cbn [existsb]. fold (mem x l).
      destruct (x =? a) eqn:Ex; [|reflexivity].
      apply Nat.eqb_eq in Ex; subst. rewrite E. reflexivity.
    + cbn [app]. rewrite IH. f_equal. f_equal.
      unfold mem at 1 4. cbn [existsb]. fold (mem x seen). fold (mem x l).
      destruct (x =? a), (mem x seen), (mem x l); reflexivity.
Qed.

Lemma inc_snoc lo l x :
  increasing_from lo l = true -> lo < x -> (forall y, In y l -> y < x) ->
  increasing_from lo (l ++ [x]) = true.
Proof.
  intros H L B. apply inc_app_iff. repeat split; [exact H| |].
  - cbn [increasing_from]. rewrite andb_true_r. lia.
  - intros a b Ha [<-|[]]. auto.
Qed.

(* first occurrences stay increasing when a seen element or a new maximum is appended *)
Lemma fo_inc_snoc l x :
  increasing_from 0 (first_occurrences [] l) = true ->
  (In x l \/ (0 < x /\ forall y, In y l -> y < x)) ->
  increasing_from 0 (first_occurrences [] (l ++ [x])) = true.
Proof.
  intros H C. rewrite fo_snoc. cbn [mem existsb orb]. fold (mem x l).
  destruct (mem x l) eqn:E; [rewrite app_nil_r; exact H|].
  destruct C as [C|[C1 C2]]; [apply mem_In in C; congruence|].
  apply inc_snoc; [exact H|exact C1|]. intros y Hy. apply C2. eapply fo_sub; eauto.
Qed.

(* ====================================================================== *)
(* per-identifier automaton over the wire log: what has been written for the publish u *)
Inductive ust := U0 | UP (m : pubreq) | UR (m : pubreq) | UBad.

Definition utrans (u : nat) (st : ust) (e : nat * pkt * wres) : ust :=
  match snd (fst e) with
  | PPublish m d =>
      if p_uid m =? u then
        match st with
        | U0 => if d then UBad else UP m
        | UP m0 => if d && pubreq_eqb m m0 && negb (p_qos m0 =? 0)%N then UP m0 else UBad
        | _ => UBad
        end
      else st
  | PPubRel u' => if u' =? u then match st with UP m0 | UR m0 => UR m0 | _ => UBad end else st
  | _ => st
  end.
Definition ustate (u : nat) (W : list (nat * pkt * wres)) : ust := fold_left (utrans u) W U0.

Lemma ustate_snoc u W e : ustate u (W ++ [e]) = utrans u (ustate u W) e.
Proof. unfold ustate. rewrite fold_left_app. reflexivity. Qed.

Lemma ufold_bad u W : fold_left (utrans u) W UBad = UBad.
Proof.
  induction W as [|e W IH]; [reflexivity|]. cbn [fold_left].
  replace (utrans u UBad e) with UBad; [exact IH|].
  unfold utrans. destruct (snd (fst e)); try reflexivity.
  - destruct (p_uid m =? u); reflexivity.
  - destruct (uid =? u); reflexivity.
Qed.

Lemma utrans_pub u st k m d r :
  utrans u st (k, PPublish m d, r) =
  if p_uid m =? u then
    match st with
    | U0 => if d then UBad else UP m
    | UP m0 => if d && pubreq_eqb m m0 && negb (p_qos m0 =? 0)%N then UP m0 else UBad
    | _ => UBad
    end
  else st.
Proof. reflexivity. Qed.
Lemma utrans_rel u st k u' r :
  utrans u st (k, PPubRel u', r) =
  if u' =? u then match st with UP m0 | UR m0 => UR m0 | _ => UBad end else st.
Proof. reflexivity. Qed.
Lemma utrans_sub u st k u' ss r : utrans u st (k, PSubscribe u' ss, r) = st.
Proof. reflexivity. Qed.
Lemma utrans_unsub u st k u' ts r : utrans u st (k, PUnsubscribe u' ts, r) = st.
Proof. reflexivity. Qed.

Definition nopub (u : nat) (W : list (nat * pkt * wres)) : bool :=
  forallb (fun e => match snd (fst e) with PPublish m _ => negb (p_uid m =? u) | _ => true end) W.

Lemma nopub_entries u W : nopub u W = true -> pub_entries u W = [].
Proof.
  induction W as [|e W IH]; [reflexivity|]. unfold nopub. cbn [forallb]. intros H.
  apply andb_true_iff in H as [H1 H2]. unfold pub_entries. cbn [flat_map].
  fold (pub_entries u W). rewrite (IH H2), app_nil_r.
  destruct (snd (fst e)); try reflexivity. destruct (p_uid m =? u); [discriminate|reflexivity].
Qed.

Lemma nopub_npar u W : nopub u W = true -> no_publish_after_rel u W = true.
Proof.
  induction W as [|e W IH]; [reflexivity|]. unfold nopub. cbn [forallb]. intros H.
  apply andb_true_iff in H as [H1 H2]. destruct e as [[k p] r]. cbn [no_publish_after_rel].
  destruct p; try (apply IH; exact H2).
  destruct ((u =? uid) && match r with WAck | WOk => true | _ => false end); [exact H2|apply IH; exact H2].
Qed.

Definition ust_ok (u : nat) (st : ust) (W : list (nat * pkt * wres)) : Prop :=
  match st with
  | U0 => faithful (pub_entries u W) = true /\ no_publish_after_rel u W = true
  | UP m0 => forallb (fun e => pubreq_eqb (fst e) m0 && snd e) (pub_entries u W) = true
             /\ (p_qos m0 = 0%N -> pub_entries u W = []) /\ no_publish_after_rel u W = true
  | UR m0 => nopub u W = true
  | UBad => False
  end.

Lemma pe_cons_pub u k m d r W :
  pub_entries u ((k, PPublish m d, r) :: W) = (if p_uid m =? u then [(m, d)] else []) ++ pub_entries u W.
Proof. reflexivity. Qed.
Lemma pe_cons_rel u k u' r W : pub_entries u ((k, PPubRel u', r) :: W) = pub_entries u W.
Proof. reflexivity. Qed.
Lemma pe_cons_sub u k u' ss r W : pub_entries u ((k, PSubscribe u' ss, r) :: W) = pub_entries u W.
Proof. reflexivity. Qed.
Lemma pe_cons_unsub u k u' ss r W : pub_entries u ((k, PUnsubscribe u' ss, r) :: W) = pub_entries u W.
Proof. reflexivity. Qed.
Lemma nopub_cons u e W :
  nopub u (e :: W) = match snd (fst e) with PPublish m _ => negb (p_uid m =? u) | _ => true end && nopub u W.
Proof. reflexivity. Qed.

Lemma ufold_sound u W : forall st, fold_left (utrans u) W st <> UBad -> ust_ok u st W.
Proof.
  induction W as [|e W IH]; intros st H.
  - destruct st; cbn; auto.
  - cbn [fold_left] in H. specialize (IH _ H).
    destruct e as [[k p] r].
    destruct p as [m d|u'|u' ss|u' ts];
      [rewrite utrans_pub in IH, H|rewrite utrans_rel in IH, H
      |rewrite utrans_sub in IH, H|rewrite utrans_unsub in IH, H].
    + (* PUBLISH *)
      destruct (p_uid m =? u) eqn:Eu.
      * destruct st as [|m0|m0|]; try (rewrite ufold_bad in H; congruence).
        -- destruct d; [rewrite ufold_bad in H; congruence|].
           cbn [ust_ok] in IH |- *. destruct IH as (A & B & C).
           rewrite pe_cons_pub, Eu. cbn [no_publish_after_rel]. split; [|exact C].
           cbn [List.app faithful negb andb]. rewrite A. cbn [andb].
           destruct (p_qos m =? 0)%N eqn:Q; [|reflexivity].
           apply N.eqb_eq in Q. rewrite (B Q). reflexivity.
        -- destruct (d && pubreq_eqb m m0 && negb (p_qos m0 =? 0)%N) eqn:G;
             [|rewrite ufold_bad in H; congruence].
           apply andb_true_iff in G as [G G3]. apply andb_true_iff in G as [G1 G2]. subst d.
           cbn [ust_ok] in IH |- *. destruct IH as (A & B & C).
           rewrite pe_cons_pub, Eu. cbn [no_publish_after_rel]. split; [|split; [|exact C]].
           ++ cbn [List.app forallb fst snd]. rewrite G2, A. reflexivity.
           ++ intros Q. rewrite Q in G3. discriminate.
      * destruct st; cbn [ust_ok] in IH |- *; try exact IH;
          rewrite ?pe_cons_pub, ?nopub_cons, ?Eu; cbn [no_publish_after_rel List.app fst snd]; try exact IH.
        rewrite Eu, IH. reflexivity.
    + (* PUBREL *)
      destruct (u' =? u) eqn:Eu.
      * destruct st as [|m0|m0|]; try (rewrite ufold_bad in H; congruence);
          cbn [ust_ok] in IH |- *.
        -- rewrite pe_cons_rel, (nopub_entries _ _ IH). repeat split; try reflexivity.
           cbn [no_publish_after_rel]. rewrite (Nat.eqb_sym u u'), Eu. cbn [andb].
           destruct r; try exact IH; apply nopub_npar; exact IH.
        -- rewrite nopub_cons. exact IH.
      * destruct st; cbn [ust_ok] in IH |- *; try exact IH;
          rewrite ?pe_cons_rel, ?nopub_cons; cbn [no_publish_after_rel fst snd andb];
          rewrite ?(Nat.eqb_sym u u'), ?Eu; cbn [andb]; exact IH.
    + destruct st; cbn [ust_ok] in IH |- *; try exact IH;
        rewrite ?pe_cons_sub, ?nopub_cons; cbn [no_publish_after_rel fst snd andb]; exact IH.
    + destruct st; cbn [ust_ok] in IH |- *; try exact IH;
        rewrite ?pe_cons_unsub, ?nopub_cons; cbn [no_publish_after_rel fst snd andb]; exact IH.
Qed.

Lemma ustate_sound u W : ustate u W <> UBad ->
  faithful (pub_entries u W) = true /\ no_publish_after_rel u W = true.
Proof. intros H. exact (ufold_sound u W U0 H). Qed.

Lemma pubreq_eqb_refl m : pubreq_eqb m m = true.
Proof.
  unfold pubreq_eqb. rewrite Nat.eqb_refl, N.eqb_refl, Bool.eqb_reflx, !str_eqb_refl. reflexivity.
Qed.

(* packets of other identifiers do not move the automaton *)
Lemma utrans_other u st e : wire_uid (snd (fst e)) <> u -> utrans u st e = st.
Proof.
  unfold utrans. destruct (snd (fst e)); cbn [wire_uid]; intros H; try reflexivity.
  - destruct (p_uid m =? u) eqn:E; [apply Nat.eqb_eq in E; contradiction|reflexivity].
  - destruct (uid =? u) eqn:E; [apply Nat.eqb_eq in E; contradiction|reflexivity].
Qed.

Lemma ustate_fresh u W :
  (forall e, In e W -> wire_uid (snd (fst e)) <> u) -> ustate u W = U0.
Proof.
  induction W as [|e W IH] using rev_ind; intros H; [reflexivity|].
  rewrite ustate_snoc, utrans_other.
  - apply IH. intros e' He'. apply H. apply in_or_app. left; exact He'.
  - apply H. apply in_or_app. right; left; reflexivity.
Qed.
