(* Filter.v — model of filter.go and servemux.go, and the declarative MQTT 3.1.1 §4.7 spec.
   Strings are byte lists: '/', '+', '#' are ASCII and never occur inside a multi-byte UTF-8
   sequence, so level splitting on bytes equals level splitting on characters. *)
From MQ Require Import Base.
Open Scope N_scope.

Definition SLASH : N := 47.
Definition PLUS : N := 43.
Definition HASH : N := 35.

(* ---------- model ---------- *)

(* strings.Split(s, "/"): never empty, Split("") = [""] *)
Fixpoint split (s : str) : list str :=
  match s with
  | [] => [[]]
  | c :: r =>
      if N.eqb c SLASH then [] :: split r
      else match split r with
           | [] => [[c]]
           | l :: ls => (c :: l) :: ls
           end
  end.

Definition contains (c : N) (s : str) : bool := existsb (N.eqb c) s.

Definition is_nil {A} (l : list A) : bool := match l with [] => true | _ => false end.

(* the validation loop of newTopicFilter (filter.go:34-45); [i != len(tf)-1] is "not the last" *)
Fixpoint levels_ok (tf : list str) : bool :=
  match tf with
  | [] => true
  | f :: r =>
      (if contains PLUS f then Nat.eqb (length f) 1 else true)
      && (if contains HASH f then Nat.eqb (length f) 1 && is_nil r else true)
      && levels_ok r
  end.

Definition new_topic_filter (filter : str) : option (list str) :=
  match filter with
  | [] => None
  | _ => let tf := split filter in if levels_ok tf then Some tf else None
  end.

(* topicFilter.Match (filter.go:49-67) on the split topic *)
Fixpoint tf_match (f ts : list str) : bool :=
  match f with
  | [] => is_nil ts
  | t :: f' =>
      if str_eqb t [HASH] then true else
      match ts with
      | [] => false
      | x :: ts' => if negb (str_eqb t [PLUS]) && negb (str_eqb t x) then false else tf_match f' ts'
      end
  end.

Definition filter_match (tf : list str) (topic : str) : bool := tf_match tf (split topic).

(* ServeMux: handlers are identified by a number *)
Definition mux := list (list str * nat).

Definition mux_handle (m : mux) (reg : str * nat) : mux :=
  match new_topic_filter (fst reg) with
  | Some tf => m ++ [(tf, snd reg)]
  | None => m
  end.

Definition mux_of (regs : list (str * nat)) : mux := fold_left mux_handle regs [].

Definition mux_serve (m : mux) (topic : str) : list nat :=
  map snd (filter (fun h => filter_match (fst h) topic) m).

(* ---------- declarative spec (written from the standard, not from the code) ---------- *)

Fixpoint join (ls : list str) : str :=
  match ls with
  | [] => []
  | [l] => l
  | l :: r => l ++ SLASH :: join r
  end.

(* ls are the topic levels of s *)
Definition levels_of (s : str) (ls : list str) : Prop :=
  ls <> [] /\ join ls = s /\ Forall (fun l => ~ In SLASH l) ls.

(* 4.7.1: '+' only as a whole level, '#' only as the whole last level; 4.7.3: non-empty *)
Definition valid_filter (s : str) : Prop :=
  s <> [] /\
  forall ls, levels_of s ls ->
    (forall i l, nth_error ls i = Some l -> In PLUS l -> l = [PLUS]) /\
    (forall i l, nth_error ls i = Some l -> In HASH l -> l = [HASH] /\ S i = length ls).

(* 4.7.1.2 / 4.7.1.3 level-wise matching of filter levels against topic levels *)
Inductive matches : list str -> list str -> Prop :=
| M_nil : matches [] []
| M_hash : forall ts, matches [[HASH]] ts               (* parent and any number of descendants *)
| M_plus : forall f x ts, matches f ts -> matches ([PLUS] :: f) (x :: ts)  (* one level, may be empty *)
| M_lit : forall l f ts, l <> [HASH] -> l <> [PLUS] -> matches f ts -> matches (l :: f) (l :: ts).

Definition filter_matches_topic (filter topic : str) : Prop :=
  forall fl tl, levels_of filter fl -> levels_of topic tl -> matches fl tl.

Definition spec_selects (reg : str * nat) (topic : str) : Prop :=
  valid_filter (fst reg) /\ filter_matches_topic (fst reg) topic.

(* exactly the registered handlers whose (valid) filter matches, in registration order *)
Inductive select_rel (topic : str) : list (str * nat) -> list nat -> Prop :=
| Sel_nil : select_rel topic [] []
| Sel_take : forall r rs hs, spec_selects r topic -> select_rel topic rs hs ->
                             select_rel topic (r :: rs) (snd r :: hs)
| Sel_skip : forall r rs hs, ~ spec_selects r topic -> select_rel topic rs hs ->
                             select_rel topic (r :: rs) hs.

(* ---------- enumeration of the bounded space used by the correspondence check ---------- *)

Fixpoint strings_of_len (alpha : list N) (n : nat) : list str :=
  match n with
  | O => [[]]
  | S k => flat_map (fun c => map (cons c) (strings_of_len alpha k)) alpha
  end.

Fixpoint strings_upto (alpha : list N) (n : nat) : list str :=
  match n with
  | O => [[]]
  | S k => strings_upto alpha k ++ strings_of_len alpha (S k)
  end.

Fixpoint bits_to_N (bs : list bool) : N :=
  match bs with
  | [] => 0
  | b :: r => (if b then 1 else 0) + 2 * bits_to_N r
  end.

(* one number per filter: bit 0 = accepted, bit k+1 = matches the k-th topic *)
Definition filter_signature (topics : list str) (f : str) : N :=
  match new_topic_filter f with
  | None => 0
  | Some tf => bits_to_N (true :: map (filter_match tf) topics)
  end.

(* ====================================================================================
   Additions (round 3).  Nothing above this line was changed (Clone.v imports this file).
   ==================================================================================== *)

(* ---------- '$' ---------- *)

Definition DOLLAR : N := 36.

(* The property's quantifier ranges over topic names that do not start with '$'.  (MQTT 3.1.1
   4.7.2 says that a filter starting with a wildcard must not match such topics; filter.go has no
   such rule — Match never looks at '$' — and neither has the model or [matches].) *)
Definition starts_with_dollar (s : str) : bool :=
  match s with c :: _ => N.eqb c DOLLAR | [] => false end.

(* renaming of characters, level-wise *)
Definition rename_levels (rho : N -> N) (ls : list str) : list str := map (map rho) ls.

(* exchange two characters *)
Definition swap_chars (a b : N) (c : N) : N :=
  if N.eqb c a then b else if N.eqb c b then a else c.

(* ---------- ServeMux as a state machine over interleaved Handle / Serve operations ----------
   Several ServeMux values exist side by side (index i); an operation names the instance it is
   applied to.  servemux.go:34-45 (Handle: validate, append) and :47-54 (Serve: walk the handlers
   registered so far, in order).  The handler of a registration is identified by a number. *)

Inductive mux_op :=
| OpHandle (i : nat) (f : str) (h : nat)      (* muxes[i].Handle(f, handler h) *)
| OpServe (i : nat) (t : str).                (* muxes[i].Serve(&Message{Topic: t}) *)

Inductive mux_ev :=
| EvHandle (accepted : bool)                  (* err == nil *)
| EvServe (called : list nat).                (* handlers invoked, in order of invocation *)

Definition muxes := nat -> mux.

Definition muxes_empty : muxes := fun _ => [].

Definition muxes_upd (st : muxes) (i : nat) (m : mux) : muxes :=
  fun j => if Nat.eqb j i then m else st j.

Definition is_some {A} (o : option A) : bool := match o with Some _ => true | None => false end.

Fixpoint muxes_run (st : muxes) (ops : list mux_op) : list mux_ev :=
  match ops with
  | [] => []
  | OpHandle i f h :: r =>
      EvHandle (is_some (new_topic_filter f))
      :: muxes_run (muxes_upd st i (mux_handle (st i) (f, h))) r
  | OpServe i t :: r =>
      EvServe (mux_serve (st i) t) :: muxes_run st r
  end.

(* spec side: the registrations made on instance i by a sequence of operations, in order *)
Fixpoint regs_on (i : nat) (ops : list mux_op) : list (str * nat) :=
  match ops with
  | [] => []
  | OpHandle j f h :: r => if Nat.eqb j i then (f, h) :: regs_on i r else regs_on i r
  | OpServe _ _ :: r => regs_on i r
  end.

(* what the k-th operation of a history must produce, written without any state: a Handle is
   accepted iff the filter is valid; a Serve on instance i invokes, of the registrations made on
   instance i by the operations BEFORE position k, exactly those that select the topic, in order *)
Definition op_spec (ops : list mux_op) (k : nat) (e : mux_ev) : Prop :=
  match nth_error ops k with
  | None => False
  | Some (OpHandle _ f _) => exists b, e = EvHandle b /\ (b = true <-> valid_filter f)
  | Some (OpServe i t) => exists hs, e = EvServe hs /\ select_rel t (regs_on i (firstn k ops)) hs
  end.

(* ---------- enumeration of topics not starting with '$' (second exhaustive space) ---------- *)

Definition topics_upto (alpha : list N) (n : nat) : list str :=
  filter (fun s => negb (starts_with_dollar s)) (strings_upto alpha n).

(* the event [op_spec] prescribes for position k, computed from the history alone (registrations
   before k on the same instance, selected by the one-shot dispatch of C14_mux); used as the
   executable property predicate on observed histories — [op_expected_spec] in Filter_proofs.v *)
Definition op_expected (ops : list mux_op) (k : nat) : option mux_ev :=
  match nth_error ops k with
  | None => None
  | Some (OpHandle _ f _) => Some (EvHandle (is_some (new_topic_filter f)))
  | Some (OpServe i t) => Some (EvServe (mux_serve (mux_of (regs_on i (firstn k ops))) t))
  end.

(* ====================================================================================
   Additions (round 4): re-entrant dispatch.  Nothing above was changed.
   A handler may, before it returns, dispatch another message through the same or another
   ServeMux (servemux.go:47-54 is read-only on the mux, so the nested call sees the same
   registrations and the outer loop continues with ITS message afterwards).
   The code of the handlers is a parameter [acts]: handler h, when the message it is given has
   topic [trig], calls muxes[j].Serve(&Message{Topic: t'}) — [acts h = Some (trig, j, t')].
   Re-dispatch happens only while the nesting depth is below a bound (the fuel): that is how the
   harness's handlers are written, and it makes every run finite.
   The observation of a Serve is the flattened invocation order, each invocation tagged with its
   nesting depth (pre-order of the call tree; the depths determine the tree).
   ==================================================================================== *)

Definition hact := option (str * nat * str).

Fixpoint serve_nested (acts : nat -> hact) (st : muxes) (fuel : nat) (d : nat) (i : nat) (t : str)
  {struct fuel} : list (nat * nat) :=
  flat_map
    (fun h =>
       (d, h) ::
       match fuel with
       | O => []
       | S fuel' =>
           match acts h with
           | Some (trig, j, t') => if str_eqb trig t then serve_nested acts st fuel' (S d) j t' else []
           | None => []
           end
       end)
    (mux_serve (st i) t).

Inductive nmux_ev :=
| NvHandle (accepted : bool)
| NvServe (trace : list (nat * nat)).     (* (nesting depth, handler), in order of invocation *)

Fixpoint nmuxes_run (acts : nat -> hact) (fuel : nat) (st : muxes) (ops : list mux_op) : list nmux_ev :=
  match ops with
  | [] => []
  | OpHandle i f h :: r =>
      NvHandle (is_some (new_topic_filter f))
      :: nmuxes_run acts fuel (muxes_upd st i (mux_handle (st i) (f, h))) r
  | OpServe i t :: r =>
      NvServe (serve_nested acts st fuel 0 i t) :: nmuxes_run acts fuel st r
  end.

(* ---------- spec of a (possibly re-entrant) dispatch, written without the model ----------
   [R j] = the registrations on instance j at the time of the outermost Serve.
   nspec fuel d i t tr : a Serve of topic t on instance i at depth d produces trace tr:
     the handlers hs selected for t among R i (exactly those, in order) are invoked in order;
     each invocation (d,h) is followed by what that handler does (nact) before the next one. *)
Inductive nspec (acts : nat -> hact) (R : nat -> list (str * nat)) :
  nat -> nat -> nat -> str -> list (nat * nat) -> Prop :=
| NS : forall fuel d i t hs tr,
    select_rel t (R i) hs -> nlist acts R fuel d t hs tr -> nspec acts R fuel d i t tr
with nlist (acts : nat -> hact) (R : nat -> list (str * nat)) :
  nat -> nat -> str -> list nat -> list (nat * nat) -> Prop :=
| NL_nil : forall fuel d t, nlist acts R fuel d t [] []
| NL_cons : forall fuel d t h hs sub tr,
    nact acts R fuel d h t sub -> nlist acts R fuel d t hs tr ->
    nlist acts R fuel d t (h :: hs) ((d, h) :: sub ++ tr)
with nact (acts : nat -> hact) (R : nat -> list (str * nat)) :
  nat -> nat -> nat -> str -> list (nat * nat) -> Prop :=
| NA_skip : forall fuel d h t,
    (forall fuel' j t', fuel = S fuel' -> acts h <> Some (t, j, t')) -> nact acts R fuel d h t []
| NA_call : forall fuel' d h t j t' sub,
    acts h = Some (t, j, t') -> nspec acts R fuel' (S d) j t' sub -> nact acts R (S fuel') d h t sub.

(* the invocations of the outer call itself: those at depth d *)
Definition at_depth (d : nat) (tr : list (nat * nat)) : list nat :=
  map snd (filter (fun e => Nat.eqb (fst e) d) tr).

(* the trace prescribed for position k of a history, computed from the history alone *)
Definition nserve_expected (acts : nat -> hact) (fuel : nat) (ops : list mux_op) (k : nat) : option nmux_ev :=
  match nth_error ops k with
  | None => None
  | Some (OpHandle _ f _) => Some (NvHandle (is_some (new_topic_filter f)))
  | Some (OpServe i t) =>
      Some (NvServe (serve_nested acts (fun j => mux_of (regs_on j (firstn k ops))) fuel 0 i t))
  end.

Definition nop_spec (acts : nat -> hact) (fuel : nat) (ops : list mux_op) (k : nat) (e : nmux_ev) : Prop :=
  match nth_error ops k with
  | None => False
  | Some (OpHandle _ f _) => exists b, e = NvHandle b /\ (b = true <-> valid_filter f)
  | Some (OpServe i t) =>
      exists tr, e = NvServe tr /\ nspec acts (fun j => regs_on j (firstn k ops)) fuel 0 i t tr
  end.

(* ====================================================================================
   Additions (round 8): handlers that REGISTER while being served.  Nothing above was changed.
   servemux.go:47-54: [for _, h := range m.handlers] evaluates the slice once, when the loop
   starts; servemux.go:34-45 appends to m.handlers.  So a handler registered (on the same
   ServeMux) while a Serve is running is NOT invoked by that Serve — not even if its filter
   matches the message being served — but it is registered from then on: every Serve that STARTS
   later sees it, including a nested Serve made later inside the same outer call.
   The code of a handler is now a list of steps (Handle on some instance / Serve on some instance),
   run in order when the handler is given its trigger topic and the nesting depth is below the bound.
   A dispatch therefore returns the new state as well.
   Trace items: an invocation (depth, handler) or the outcome of a Handle made by a handler.
   ==================================================================================== *)

Inductive hstep :=
| HsHandle (j : nat) (f : str) (h : nat)      (* muxes[j].Handle(f, handler h) *)
| HsServe (j : nat) (t : str).                (* muxes[j].Serve(&Message{Topic: t}) *)

Definition hprog := option (str * list hstep).  (* trigger topic, steps *)

Inductive titem :=
| TInv (d : nat) (h : nat)                    (* handler h entered at nesting depth d *)
| TReg (d : nat) (accepted : bool).           (* a handler running at depth d called Handle: err == nil *)

Fixpoint run_steps (call : muxes -> nat -> str -> list titem * muxes) (d : nat)
                   (steps : list hstep) (st : muxes) : list titem * muxes :=
  match steps with
  | [] => ([], st)
  | HsHandle j f h :: r =>
      let '(tr, st') := run_steps call d r (muxes_upd st j (mux_handle (st j) (f, h))) in
      (TReg d (is_some (new_topic_filter f)) :: tr, st')
  | HsServe j t :: r =>
      let '(tr1, st1) := call st j t in
      let '(tr2, st2) := run_steps call d r st1 in
      (tr1 ++ tr2, st2)
  end.

(* the loop of Serve over the handlers selected when it started *)
Fixpoint run_handlers (act : nat -> muxes -> list titem * muxes) (d : nat)
                      (hs : list nat) (st : muxes) : list titem * muxes :=
  match hs with
  | [] => ([], st)
  | h :: r =>
      let '(tr1, st1) := act h st in
      let '(tr2, st2) := run_handlers act d r st1 in
      (TInv d h :: tr1 ++ tr2, st2)
  end.

Fixpoint rserve (progs : nat -> hprog) (fuel : nat) (st : muxes) (d i : nat) (t : str)
  {struct fuel} : list titem * muxes :=
  run_handlers
    (fun h st' =>
       match fuel with
       | O => ([], st')
       | S fuel' =>
           match progs h with
           | Some (trig, steps) =>
               if str_eqb trig t
               then run_steps (fun st'' j t' => rserve progs fuel' st'' (S d) j t') d steps st'
               else ([], st')
           | None => ([], st')
           end
       end)
    d
    (mux_serve (st i) t)          (* the snapshot: [range m.handlers] *)
    st.

Inductive rmux_ev :=
| RvHandle (accepted : bool)
| RvServe (trace : list titem)
| RvStuck.                        (* observation only: the call did not return (watchdog) *)

Fixpoint rmuxes_run (progs : nat -> hprog) (fuel : nat) (st : muxes) (ops : list mux_op) : list rmux_ev :=
  match ops with
  | [] => []
  | OpHandle i f h :: r =>
      RvHandle (is_some (new_topic_filter f))
      :: rmuxes_run progs fuel (muxes_upd st i (mux_handle (st i) (f, h))) r
  | OpServe i t :: r =>
      let '(tr, st') := rserve progs fuel st 0 i t in
      RvServe tr :: rmuxes_run progs fuel st' r
  end.

(* ---------- spec, written over registration lists (raw filter strings, valid or not) ----------
   R j = everything registered on instance j so far, in order.  [radd R j r R'] : R' is R with r
   appended on j.  rspec fuel R d i t tr R' : a Serve of t on i at depth d, started when the
   registrations are R, produces tr and leaves R'.  The handlers are selected ONCE, from R. *)
Definition radd (R : nat -> list (str * nat)) (j : nat) (r : str * nat) (R' : nat -> list (str * nat)) : Prop :=
  forall k, R' k = if Nat.eqb k j then R k ++ [r] else R k.

Inductive rspec (progs : nat -> hprog) :
  nat -> (nat -> list (str * nat)) -> nat -> nat -> str -> list titem -> (nat -> list (str * nat)) -> Prop :=
| RS : forall fuel R d i t hs tr R',
    select_rel t (R i) hs -> rlist progs fuel R d t hs tr R' -> rspec progs fuel R d i t tr R'
with rlist (progs : nat -> hprog) :
  nat -> (nat -> list (str * nat)) -> nat -> str -> list nat -> list titem -> (nat -> list (str * nat)) -> Prop :=
| RL_nil : forall fuel R d t, rlist progs fuel R d t [] [] R
| RL_cons : forall fuel R d t h hs sub tr R1 R2,
    ract progs fuel R d h t sub R1 -> rlist progs fuel R1 d t hs tr R2 ->
    rlist progs fuel R d t (h :: hs) (TInv d h :: sub ++ tr) R2
with ract (progs : nat -> hprog) :
  nat -> (nat -> list (str * nat)) -> nat -> nat -> str -> list titem -> (nat -> list (str * nat)) -> Prop :=
| RA_skip : forall fuel R d h t,
    (forall fuel' steps, fuel = S fuel' -> progs h <> Some (t, steps)) -> ract progs fuel R d h t [] R
| RA_run : forall fuel' R d h t steps sub R',
    progs h = Some (t, steps) -> rsteps progs fuel' R d steps sub R' -> ract progs (S fuel') R d h t sub R'
with rsteps (progs : nat -> hprog) :
  nat -> (nat -> list (str * nat)) -> nat -> list hstep -> list titem -> (nat -> list (str * nat)) -> Prop :=
| RT_nil : forall fuel R d, rsteps progs fuel R d [] [] R
| RT_handle : forall fuel R d j f h b r tr R1 R2,
    (b = true <-> valid_filter f) -> radd R j (f, h) R1 -> rsteps progs fuel R1 d r tr R2 ->
    rsteps progs fuel R d (HsHandle j f h :: r) (TReg d b :: tr) R2
| RT_serve : forall fuel R d j t r tr1 tr2 R1 R2,
    rspec progs fuel R (S d) j t tr1 R1 -> rsteps progs fuel R1 d r tr2 R2 ->
    rsteps progs fuel R d (HsServe j t :: r) (tr1 ++ tr2) R2.

(* the handlers a call itself invoked: the TInv items at its depth *)
Definition invs_at (d : nat) (tr : list titem) : list nat :=
  flat_map (fun x => match x with TInv d' h => if Nat.eqb d' d then [h] else [] | TReg _ _ => [] end) tr.

(* histories *)
Inductive rhist (progs : nat -> hprog) (fuel : nat) :
  (nat -> list (str * nat)) -> list mux_op -> list rmux_ev -> Prop :=
| RH_nil : forall R, rhist progs fuel R [] []
| RH_handle : forall R i f h b R1 ops evs,
    (b = true <-> valid_filter f) -> radd R i (f, h) R1 -> rhist progs fuel R1 ops evs ->
    rhist progs fuel R (OpHandle i f h :: ops) (RvHandle b :: evs)
| RH_serve : forall R i t tr R1 ops evs,
    rspec progs fuel R 0 i t tr R1 -> rhist progs fuel R1 ops evs ->
    rhist progs fuel R (OpServe i t :: ops) (RvServe tr :: evs).
