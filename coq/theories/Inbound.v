(* Inbound.v — model of the inbound half of BaseClient.serve (serve.go:66-139): what the reader
   goroutine does with PUBLISH (QoS 0/1/2) and PUBREL packets, in the order it does it, and an
   abstract receiver specification to compare it with. *)
From MQ Require Import Base Codec.
Open Scope N_scope.

(* an inbound application message as parsed from a PUBLISH *)
Inductive in_pkt :=
| InPublish (m : message)
| InPubRel (id : N).

(* what the reader goroutine does, in program order *)
Inductive in_event :=
| Hand (m : message)         (* handler.Serve(m) returned *)
| WPubAck (id : N)           (* c.write(PUBACK id) *)
| WPubRec (id : N)
| WPubComp (id : N).

(* subBuffer : map[uint16]*Message *)
Definition subbuf := list (N * message).

Fixpoint sb_get (sb : subbuf) (id : N) : option message :=
  match sb with
  | [] => None
  | (k, m) :: r => if k =? id then Some m else sb_get r id
  end.

Fixpoint sb_del (sb : subbuf) (id : N) : subbuf :=
  match sb with
  | [] => []
  | (k, m) :: r => if k =? id then sb_del r id else (k, m) :: sb_del r id
  end.

Definition sb_set (sb : subbuf) (id : N) (m : message) : subbuf := (id, m) :: sb_del sb id.

Definition hand (handler : bool) (m : message) : list in_event := if handler then [Hand m] else [].

(* one iteration of the serve loop for an inbound PUBLISH / PUBREL *)
Definition serve_in_step (handler : bool) (sb : subbuf) (p : in_pkt) : subbuf * list in_event :=
  match p with
  | InPublish m =>
      if m_qos m =? 0 then (sb, hand handler m)
      else if m_qos m =? 1 then (sb, hand handler m ++ [WPubAck (m_id m)])
      else (sb_set sb (m_id m) m, [WPubRec (m_id m)])
  | InPubRel id =>
      match sb_get sb id with
      | Some m => (sb_del sb id, hand handler m ++ [WPubComp id])
      | None => (sb, [])
      end
  end.

Fixpoint serve_in (handler : bool) (sb : subbuf) (ps : list in_pkt) : list in_event :=
  match ps with
  | [] => []
  | p :: r => let '(sb', ev) := serve_in_step handler sb p in ev ++ serve_in handler sb' r
  end.

(* ---------- abstract receiver (MQTT 3.1.1 section 4.3, QoS 2 method B) ---------- *)
(* The specification keeps, per packet identifier, whether a QoS 2 exchange is open and the
   latest copy of its message. It says WHAT must be emitted for each arriving packet. *)
Definition open_set := N -> option message.

Definition os_empty : open_set := fun _ => None.
Definition os_set (o : open_set) (id : N) (v : option message) : open_set :=
  fun k => if k =? id then v else o k.

Definition spec_step (handler : bool) (o : open_set) (p : in_pkt) : open_set * list in_event :=
  match p with
  | InPublish m =>
      if m_qos m =? 0 then (o, hand handler m)                              (* at most once: hand over *)
      else if m_qos m =? 1 then (o, hand handler m ++ [WPubAck (m_id m)])  (* hand over, then acknowledge *)
      else (os_set o (m_id m) (Some m), [WPubRec (m_id m)])                (* store, PUBREC, no hand-over yet *)
  | InPubRel id =>
      match o id with
      | Some m => (os_set o id None, hand handler m ++ [WPubComp id])     (* release: hand over once, PUBCOMP *)
      | None => (o, [])
      end
  end.

Fixpoint spec_run (handler : bool) (o : open_set) (ps : list in_pkt) : list in_event :=
  match ps with
  | [] => []
  | p :: r => let '(o', ev) := spec_step handler o p in ev ++ spec_run handler o' r
  end.

(* ---------- counting helpers used by the statements ---------- *)
Definition is_hand (e : in_event) : bool := match e with Hand _ => true | _ => false end.
Definition hands (es : list in_event) : list message :=
  flat_map (fun e => match e with Hand m => [m] | _ => [] end) es.

Definition q01_publishes (ps : list in_pkt) : list message :=
  flat_map (fun p => match p with InPublish m => if m_qos m <=? 1 then [m] else [] | _ => [] end) ps.

Definition message_eqb (a b : message) : bool :=
  str_eqb (m_topic a) (m_topic b) && (m_id a =? m_id b) && (m_qos a =? m_qos b)
  && Bool.eqb (m_retain a) (m_retain b) && Bool.eqb (m_dup a) (m_dup b) && str_eqb (m_payload a) (m_payload b).

Definition in_event_eqb (a b : in_event) : bool :=
  match a, b with
  | Hand x, Hand y => message_eqb x y
  | WPubAck x, WPubAck y | WPubRec x, WPubRec y | WPubComp x, WPubComp y => x =? y
  | _, _ => false
  end.
