(* ParseExit.v — what the goroutine started by BaseClient.Connect does after serve() has returned
   its error (connect.go:120-132), in program order:
     err := c.serve()
     c.Close()                       -- Transport.Close(), may take long (TLS, websocket)
     c.SetErrorOnce(err)             -- Err() becomes non-nil
     c.connStateUpdate(StateClosed)  -- ConnState(StateClosed, c.Err())   (conn.go:33-46)
     close(c.connClosed)             -- Done() is closed, waiting requests return
   as a sequence of states of the link's observables. (A graceful Disconnect — state
   StateDisconnected, error not stored — is C16's subject and not modelled here.) *)
From MQ Require Import Base Codec Inbound Parse.
Open Scope N_scope.

Record link := {
  lk_transport_closed : bool;            (* Transport.Close() has returned *)
  lk_err : option perr;                  (* Err() *)
  lk_reported : option (option perr);    (* ConnState(StateClosed, err) was called with err *)
  lk_done : bool                         (* Done() is closed *)
}.

Definition link0 : link :=
  {| lk_transport_closed := false; lk_err := None; lk_reported := None; lk_done := false |}.

Inductive xstep := XCloseTransport | XStoreErr (e : perr) | XReportClosed | XCloseDone.

Definition xapply (l : link) (s : xstep) : link :=
  match s with
  | XCloseTransport =>
      {| lk_transport_closed := true; lk_err := lk_err l; lk_reported := lk_reported l; lk_done := lk_done l |}
  | XStoreErr e =>                       (* SetErrorOnce *)
      {| lk_transport_closed := lk_transport_closed l;
         lk_err := match lk_err l with None => Some e | Some x => Some x end;
         lk_reported := lk_reported l; lk_done := lk_done l |}
  | XReportClosed =>                     (* the callback receives c.Err() as it is now *)
      {| lk_transport_closed := lk_transport_closed l; lk_err := lk_err l;
         lk_reported := Some (lk_err l); lk_done := lk_done l |}
  | XCloseDone =>
      {| lk_transport_closed := lk_transport_closed l; lk_err := lk_err l;
         lk_reported := lk_reported l; lk_done := true |}
  end.

(* the states the link goes through: before each step and after the last *)
Fixpoint xrun (l : link) (steps : list xstep) : list link :=
  match steps with
  | [] => [l]
  | s :: r => l :: xrun (xapply l s) r
  end.

Definition exit_steps (e : perr) : list xstep := [XCloseTransport; XStoreErr e; XReportClosed; XCloseDone].

Definition exit_states (e : perr) : list link := xrun link0 (exit_steps e).

(* the state in which Transport.Close() is entered (and in which the link stays while Close blocks) *)
Fixpoint state_at_close (l : link) (steps : list xstep) : option link :=
  match steps with
  | [] => None
  | XCloseTransport :: _ => Some l
  | s :: r => state_at_close (xapply l s) r
  end.

(* the state right after Done() was closed *)
Fixpoint state_at_done (l : link) (steps : list xstep) : option link :=
  match steps with
  | [] => None
  | XCloseDone :: _ => Some (xapply l XCloseDone)
  | s :: r => state_at_done (xapply l s) r
  end.

(* the whole life of a link fed with the byte stream s *)
Definition link_states (handler : bool) (s : list N) : list link :=
  match snd (serve handler s) with
  | EndErr e => exit_states e
  | _ => [link0]
  end.
