(* CheckC06.v — executable comparison for C06 *)
From MQ Require Import Base Codec Inbound Parse ParseSpec ParsePending ParseExit ParseResub ParseMux.
Open Scope N_scope.

Inductive parse_obs :=
| PO_panic
| PO_other
| PO_err (e : perr)
| PO_connack (sp : bool) (code : N)
| PO_publish (m : message)
| PO_id (id : N)
| PO_suback (id : N) (codes : list N)
| PO_pingresp.

Definition of_res {A} (f : A -> parse_obs) (r : res A) : parse_obs :=
  match r with Ok a => f a | Err e => PO_err e | Panic => PO_panic end.

Definition parse_model (typ flag : N) (body : list N) : parse_obs :=
  match typ with
  | 2 => of_res (fun p => PO_connack (fst p) (snd p)) (parse_connack flag body)
  | 3 => of_res PO_publish (parse_publish flag body)
  | 4 => of_res PO_id (parse_puback flag body)
  | 5 => of_res PO_id (parse_pubrec flag body)
  | 6 => of_res PO_id (parse_pubrel flag body)
  | 7 => of_res PO_id (parse_pubcomp flag body)
  | 9 => of_res (fun p => PO_suback (fst p) (snd p)) (parse_suback flag body)
  | 11 => of_res PO_id (parse_unsuback flag body)
  | 13 => of_res (fun _ => PO_pingresp) (parse_pingresp flag body)
  | _ => PO_err EInvalidPacket
  end.

Definition parse_obs_eqb (a b : parse_obs) : bool :=
  match a, b with
  | PO_panic, PO_panic | PO_pingresp, PO_pingresp => true
  | PO_err x, PO_err y => perr_eqb x y
  | PO_connack s1 c1, PO_connack s2 c2 => Bool.eqb s1 s2 && (c1 =? c2)
  | PO_publish x, PO_publish y => message_eqb x y
  | PO_id x, PO_id y => x =? y
  | PO_suback i1 c1, PO_suback i2 c2 => (i1 =? i2) && list_eqb N.eqb c1 c2
  | _, _ => false
  end.

Definition parse_case := (N * N * list N * parse_obs)%type.

(* indices are unary numbers: when a change breaks hundreds of cases, reading back and printing
   all of them costs minutes; the driver reports the first few *)
Definition first_indices {A} (p : A -> bool) (l : list A) : list nat := firstn 25 (indices_where p l).

(* the property on one parser call: no panic; a malformed packet (ParseSpec.malformed, written from
   the property's list: U+0000 anywhere in a topic, QoS 3, illegal flags, short body, ...) is
   refused with a protocol error and nothing else is refused; no accepted PUBLISH carries U+0000
   in its topic *)
Definition parse_ok (c : parse_case) : bool :=
  let '(t, f, b, o) := c in
  match o with
  | PO_panic => false
  | PO_err e => malformed t f b && is_protocol_error e    (* refused: only if malformed *)
  | PO_other => false
  | PO_publish m => negb (malformed t f b) && negb (has_nul (m_topic m))
  | _ => negb (malformed t f b)
  end.

Definition c06_parse_violations (cs : list parse_case) : list nat :=
  first_indices (fun c => negb (parse_ok c)) cs.

Definition c06_parse_mismatches (cs : list parse_case) : list nat :=
  first_indices (fun c => let '(t, f, b, o) := c in negb (parse_obs_eqb o (parse_model t f b))) cs.

(* streams: (handler, bytes, survived, largest Read buffer, Err() class, state log is
   [Active; Closed(err)] with Done closed, reader timeline) *)
Definition stream_case := (bool * list N * bool * N * option perr * bool * list in_event)%type.

Definition model_in_events (es : list sv_event) : list in_event :=
  flat_map (fun e => match e with EvIn x => [x] | _ => [] end) es.

Definition model_max_alloc (es : list sv_event) : N :=
  fold_left (fun a e => match e with EvAlloc n => N.max a n | _ => a end) es 2.

(* the property's clauses on what was observed: no crash, no hang, no buffer above the protocol
   maximum, an error is observable through Err() and the Closed callback, Done is closed *)
Definition no_nul_delivered (evs : list in_event) : bool :=
  forallb (fun e => match e with Hand m => negb (has_nul (m_topic m)) | _ => true end) evs.

Definition err_is (p : perr -> bool) (err : option perr) : bool :=
  match err with Some e => p e | None => false end.

Definition is_eof (e : perr) : bool := match e with EEOF | EUnexpectedEOF => true | _ => false end.

(* ... and: a stream with a malformed packet (ParseSpec.has_malformed: the protocol's framing +
   the property's list) ends with a protocol error in Err(); no message whose topic contains
   U+0000 reaches the handler *)
Definition stream_ok (c : stream_case) : bool :=
  let '(h, s, survived, maxread, err, closed_ok, evs) := c in
  survived && (maxread <=? max_packet) && closed_ok
  && (if has_malformed s then err_is is_protocol_error err else err_is is_eof err)
  && no_nul_delivered evs
  (* the well-formed packets before the malformed one are processed normally: hand-overs (topic,
     identifier, flags and payload BYTES of the recorded copy) and acknowledgements are those the
     abstract receiver prescribes for the packets as they were sent *)
  && list_eqb in_event_eqb evs (expected_events h s).

Definition stream_model_ok (c : stream_case) : bool :=
  let '(h, s, survived, maxread, err, closed_ok, evs) := c in
  let '(mev, mend) := serve h s in
  match mend with
  | EndErr e => option_eqb perr_eqb err (Some e)
  | _ => false
  end
  && list_eqb in_event_eqb evs (model_in_events mev)
  && (maxread =? model_max_alloc mev).

Definition c06_stream_violations (cs : list stream_case) : list nat := first_indices (fun c => negb (stream_ok c)) cs.
Definition c06_stream_mismatches (cs : list stream_case) : list nat :=
  first_indices (fun c => let '(_, _, survived, _, _, _, _) := c in survived && negb (stream_model_ok c)) cs.

(* ---------- hostile acknowledgements for requests in flight ---------- *)
Inductive obs_res :=
| OR_ok (granted : list N)     (* nil error (Subscribe: the granted QoS per filter) *)
| OR_invalid_suback            (* errors.Is(err, ErrInvalidSubAck) *)
| OR_closed                    (* errors.Is(err, ErrClosedTransport) *)
| OR_other                     (* any other error *)
| OR_none.                     (* the call did not return within the limit: stuck *)

(* (handler, requests in flight — caller j has the identifier j+1 —, the peer's answer with
   identifiers renamed accordingly, process survived and nothing stuck, Err(), state log is
   [Active; Closed(err)] with Done closed, reader timeline, result per caller, PUBREL writers) *)
Definition inflight_case :=
  (bool * list wkind * list N * bool * option perr * bool * list in_event * list obs_res * list nat)%type.

Fixpoint mk_pending (j : nat) (reqs : list wkind) : pending :=
  match reqs with
  | [] => []
  | k :: r => (j, k, N.of_nat (S j)) :: mk_pending (S j) r
  end.

(* the first thing in the answer that must end the link, by the property: a malformed packet, or a
   SUBACK for a Subscribe in flight whose number of return codes is not the number of filters *)
Inductive bad := NoBad | BadMalformed | BadCount (c : nat).

Fixpoint find_sub (id : N) (w : list (nat * nat * N)) : option (nat * nat * list (nat * nat * N)) :=
  match w with
  | [] => None
  | (c, n, i) :: r =>
      if i =? id then Some (c, n, r)
      else match find_sub id r with Some (c', n', r') => Some (c', n', (c, n, i) :: r') | None => None end
  end.

Fixpoint first_bad (fuel : nat) (w : list (nat * nat * N)) (s : list N) : bad :=
  match fuel with
  | O => NoBad
  | S f =>
      match fst (read_packet s) with
      | RP_ok typ flag body rest =>
          if malformed typ flag body then BadMalformed
          else if typ =? 9 then
            match body with
            | hi :: lo :: codes =>
                match find_sub (hi * 256 + lo) w with
                | Some (c, n, w') => if Nat.eqb (length codes) n then first_bad f w' rest else BadCount c
                | None => first_bad f w rest
                end
            | _ => BadMalformed
            end
          else first_bad f w rest
      | RP_err EInvalidPacketLength => BadMalformed
      | _ => NoBad
      end
  end.

Definition sub_waiters (pd : pending) : list (nat * nat * N) :=
  flat_map (fun w => match w with (c, WSub subs, i) => [(c, length subs, i)] | _ => [] end) pd.

Definition obs_res_eqb (a b : obs_res) : bool :=
  match a, b with
  | OR_ok x, OR_ok y => list_eqb N.eqb x y
  | OR_invalid_suback, OR_invalid_suback | OR_closed, OR_closed | OR_other, OR_other | OR_none, OR_none => true
  | _, _ => false
  end.

(* every call returned with nil, ErrInvalidSubAck or ErrClosedTransport; a Subscribe that
   returned nil got exactly as many granted QoS values as it had filters *)
Definition results_sane (reqs : list wkind) (rs : list obs_res) : bool :=
  Nat.eqb (length reqs) (length rs) &&
  forallb (fun kr => match kr with
                     | (_, OR_none) | (_, OR_other) => false
                     | (WSub subs, OR_ok g) => Nat.eqb (length g) (length subs)
                     | (WSub _, _) => true
                     | (_, OR_invalid_suback) => false
                     | _ => true
                     end) (combine reqs rs).

Definition inflight_ok (c : inflight_case) : bool :=
  let '(h, reqs, s, alive, err, closed_ok, evs, rs, rels) := c in
  alive && closed_ok && results_sane reqs rs && no_nul_delivered evs &&
  match first_bad (S (length s)) (sub_waiters (mk_pending 0 reqs)) s with
  | NoBad => err_is is_eof err && list_eqb in_event_eqb evs (expected_events h s)
  | BadMalformed => err_is is_protocol_error err && list_eqb in_event_eqb evs (expected_events h s)
  | BadCount j => err_is (fun _ => true) err
                  && match nth_error rs j with Some OR_invalid_suback => true | _ => false end
  end.

Definition res_of_model (r : call_res) : obs_res :=
  match r with CROk g => OR_ok g | CRInvalidSubAck => OR_invalid_suback | CRClosed => OR_closed end.

Fixpoint results_match (evs : list pd_event) (j : nat) (rs : list obs_res) : bool :=
  match rs with
  | [] => true
  | r :: rest =>
      match pd_result evs j with
      | [m] => obs_res_eqb r (res_of_model m)
      | _ => false
      end && results_match evs (S j) rest
  end.

Definition inflight_model_ok (c : inflight_case) : bool :=
  let '(h, reqs, s, alive, err, closed_ok, evs, rs, rels) := c in
  let '(mev, mend) := serve_with h (mk_pending 0 reqs) s in
  match mend with
  | EndErr e => option_eqb perr_eqb err (Some e)
  | _ => false
  end
  && list_eqb in_event_eqb evs (model_in_events (pd_sv mev))
  && Nat.eqb (length reqs) (length rs) && results_match mev 0 rs
  && list_eqb Nat.eqb rels (pd_rels mev).

Definition c06_inflight_violations (cs : list inflight_case) : list nat :=
  first_indices (fun c => negb (inflight_ok c)) cs.
Definition c06_inflight_mismatches (cs : list inflight_case) : list nat :=
  first_indices (fun c => let '(_, _, _, alive, _, _, _, _, _) := c in alive && negb (inflight_model_ok c)) cs.

(* ---------- the end of the link on a transport whose Close() blocks ---------- *)
(* (handler, stream, survived and nothing stuck, Done() already closed when Transport.Close() was
   entered, Done() seen closed while Close() was held, Err() at Close entry, Err() sampled right
   after Done() was seen closed, the Closed callback as delivered by then) *)
Definition exit_case :=
  (bool * list N * bool * bool * bool * option perr * option perr * option (option perr))%type.

(* "a malformed packet ends the connection with an error observable through Err() and the state
   callback": when the end of the link is announced (Done() closed) the error is in Err() and the
   callback has delivered it; Done() is not closed while the transport is still being closed *)
Definition exit_ok (c : exit_case) : bool :=
  let '(h, s, alive, done_at_entry, done_while_held, err_at_entry, err_at_done, reported) := c in
  alive && negb done_at_entry && negb done_while_held
  && (if has_malformed s then err_is is_protocol_error err_at_done else err_is is_eof err_at_done)
  && option_eqb (option_eqb perr_eqb) reported (Some err_at_done).

Definition exit_model_ok (c : exit_case) : bool :=
  let '(h, s, alive, done_at_entry, done_while_held, err_at_entry, err_at_done, reported) := c in
  match snd (serve h s) with
  | EndErr e =>
      match state_at_close link0 (exit_steps e), state_at_done link0 (exit_steps e) with
      | Some lc, Some ld =>
          Bool.eqb done_at_entry (lk_done lc) && Bool.eqb done_while_held (lk_done lc)
          && option_eqb perr_eqb err_at_entry (lk_err lc)
          && option_eqb perr_eqb err_at_done (lk_err ld)
          && option_eqb (option_eqb perr_eqb) reported (lk_reported ld)
      | _, _ => false
      end
  | _ => false
  end.

Definition c06_exit_violations (cs : list exit_case) : list nat := first_indices (fun c => negb (exit_ok c)) cs.
Definition c06_exit_mismatches (cs : list exit_case) : list nat :=
  first_indices (fun c => let '(_, _, alive, _, _, _, _, _) := c in alive && negb (exit_model_ok c)) cs.

(* ---------- bytes allocated for one big packet that really arrives ---------- *)
(* (fixed header incl. the length field, body length as generated, survived and the message was
   delivered intact, runtime.MemStats.TotalAlloc difference around the packet) *)
Definition alloc_case := (list N * N * bool * N)%type.
Definition alloc_slack : N := 1048576.

(* "never allocates more than the protocol's maximum packet size for one packet" *)
Definition alloc_ok (c : alloc_case) : bool :=
  let '(hdr, nbody, ok, delta) := c in ok && (delta <=? max_packet + alloc_slack).

(* the model requests exactly one buffer of the announced size: the implementation allocates at
   least that (sound lower bound) and at most that plus the slack *)
Definition alloc_model_ok (c : alloc_case) : bool :=
  let '(hdr, nbody, ok, delta) := c in
  match hdr with
  | _ :: l0 :: r =>
      match read_len 0 0 l0 r with
      | Ok (n, []) => (n =? nbody) && (n <=? delta) && (delta <=? n + alloc_slack)
      | _ => false
      end
  | _ => false
  end.

Definition c06_alloc_violations (cs : list alloc_case) : list nat := first_indices (fun c => negb (alloc_ok c)) cs.
Definition c06_alloc_mismatches (cs : list alloc_case) : list nat :=
  first_indices (fun c => let '(_, _, ok, _) := c in ok && negb (alloc_model_ok c)) cs.

(* ---------- hostile SUBACK codes, then link loss and re-subscription through a RetryClient ---------- *)
(* (Subscribe calls of the application with the return codes the broker answered on the first
   connection; process survived and nothing stuck or unexpected; Err() of the first connection after
   the tasks finished (before the peer closed it); the SUBSCRIBE packets on the second connection as
   (filter, QoS) lists; a Ping on the second connection succeeded; Err() of the second connection
   before the peer closed it) *)
Definition resub_case :=
  (list (list subreq * list N) * bool * option perr * list (list subreq) * bool * option perr)%type.

Fixpoint last_asked (t : str) (ops : list (list subreq * list N)) (acc : option N) : option N :=
  match ops with
  | [] => acc
  | (subs, _) :: r =>
      last_asked t r (fold_left (fun a s => if str_eqb (fst s) t then Some (snd s) else a) subs acc)
  end.

Fixpoint distinct_topics (ts : list str) : list str :=
  match ts with
  | [] => []
  | t :: r => t :: filter (fun x => negb (str_eqb x t)) (distinct_topics r)
  end.

Definition counts_right (ops : list (list subreq * list N)) : bool :=
  forallb (fun op => Nat.eqb (length (fst op)) (length (snd op))) ops.

(* no panic anywhere (the child survived), nothing stuck; return codes of the right number, whatever
   their values, leave the link up (Err() nil) — a wrong number ends it with an error; after the link
   loss every filter the application asked for is requested again exactly once, with the QoS the
   application asked last (so: within 0..2) and never a byte of a SUBACK; the client still answers *)
Definition resub_ok (c : resub_case) : bool :=
  let '(ops, alive, err1, wire2, ping_ok, err2) := c in
  let asked := flat_map (fun op => map fst (fst op)) ops in
  let reqs := concat wire2 in
  alive && ping_ok
  && option_eqb perr_eqb err2 None
  && (if counts_right ops then option_eqb perr_eqb err1 None else err_is (fun _ => true) err1)
  && forallb (fun s => (snd s <=? 2) && option_eqb N.eqb (last_asked (fst s) ops None) (Some (snd s))) reqs
  && Nat.eqb (length reqs) (length (distinct_topics asked))
  && Nat.eqb (length (distinct_topics (map fst reqs))) (length reqs).

Definition subreq_eqb (a b : subreq) : bool := str_eqb (fst a) (fst b) && (snd a =? snd b).

Definition resub_model_ok (c : resub_case) : bool :=
  let '(ops, alive, err1, wire2, ping_ok, err2) := c in
  let plan := resubscribe (rc_history [] ops) in
  list_eqb (list_eqb subreq_eqb) wire2 plan
  && forallb (fun req => match sub_pack 1 req with Ok _ => true | _ => false end) plan.

Definition c06_resub_violations (cs : list resub_case) : list nat := first_indices (fun c => negb (resub_ok c)) cs.
Definition c06_resub_mismatches (cs : list resub_case) : list nat :=
  first_indices (fun c => let '(_, alive, _, _, _, _) := c in alive && negb (resub_model_ok c)) cs.

(* ---------- streams into a client whose handler is a ServeMux / ServeAsync ---------- *)
(* (deliveries happen on other goroutines: ServeAsync; the handler tree; stream; the process
   survived and nothing stuck; Err(); state log is [Active; Closed(err)] with Done closed; what
   each application function received: (function number, message)) *)
Definition mux_case := (bool * hnd * list N * bool * option perr * bool * list (nat * message))%type.

(* no panic on the reader goroutine (or a delivery goroutine) whatever topic name the broker
   chose, and the link ends as the property says *)
Definition mux_ok (c : mux_case) : bool :=
  let '(async, h, s, alive, err, closed_ok, ds) := c in
  alive && closed_ok
  && (if has_malformed s then err_is is_protocol_error err else err_is is_eof err).

Definition delivery_eqb (a b : nat * message) : bool := Nat.eqb (fst a) (fst b) && message_eqb (snd a) (snd b).

Definition perm_eqb {A} (eqb : A -> A -> bool) (a b : list A) : bool :=
  Nat.eqb (length a) (length b) &&
  forallb (fun x => Nat.eqb (count_occ_b eqb x a) (count_occ_b eqb x b)) a.

Definition mux_model_ok (c : mux_case) : bool :=
  let '(async, h, s, alive, err, closed_ok, ds) := c in
  let '(mev, mend) := serve true s in
  let want := deliveries h (sv_in_events mev) in
  match mend with EndErr e => option_eqb perr_eqb err (Some e) | _ => false end
  && (if async then perm_eqb delivery_eqb ds want else list_eqb delivery_eqb ds want).

Definition c06_mux_violations (cs : list mux_case) : list nat := first_indices (fun c => negb (mux_ok c)) cs.
Definition c06_mux_mismatches (cs : list mux_case) : list nat :=
  first_indices (fun c => let '(_, _, _, alive, _, _, _) := c in alive && negb (mux_model_ok c)) cs.

(* ---------- concurrent stress: requests of every kind while acknowledgements arrive ---------- *)
(* (the process survived — a runtime fatal error kills it — and every request returned; Err() after
   the peer closed; state log is [Active; Closed(err)] with Done closed). The broker sent
   well-formed acknowledgements only. *)
Definition conc_case := (bool * option perr * bool)%type.

Definition conc_ok (c : conc_case) : bool :=
  let '(alive, err, closed_ok) := c in alive && closed_ok && err_is is_eof err.

(* the model's answer for a stream of well-formed packets that ends: io.EOF
   (Parse_proofs.serve_wellformed_then_eof) *)
Definition conc_model_ok (c : conc_case) : bool :=
  let '(alive, err, closed_ok) := c in option_eqb perr_eqb err (Some EEOF).

Definition c06_conc_violations (cs : list conc_case) : list nat := first_indices (fun c => negb (conc_ok c)) cs.
Definition c06_conc_mismatches (cs : list conc_case) : list nat :=
  first_indices (fun c => let '(alive, _, _) := c in alive && negb (conc_model_ok c)) cs.
