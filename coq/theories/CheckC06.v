(* CheckC06.v — executable comparison for C06 *)
From MQ Require Import Base Codec Inbound Parse.
Open Scope N_scope.

Inductive parse_obs :=
| PO_panic
| PO_other
| PO_err (e : perr)
| PO_connack (sp : bool) (code : N)
| PO_publish (m : message)
| PO_id (id : N)
| PO_suback (id : N) (codes : list N)
| PO_pingresp.

Definition of_res {A} (f : A -> parse_obs) (r : res A) : parse_obs :=
  match r with Ok a => f a | Err e => PO_err e | Panic => PO_panic end.

Definition parse_model (typ flag : N) (body : list N) : parse_obs :=
  match typ with
  | 2 => of_res (fun p => PO_connack (fst p) (snd p)) (parse_connack flag body)
  | 3 => of_res PO_publish (parse_publish flag body)
  | 4 => of_res PO_id (parse_puback flag body)
  | 5 => of_res PO_id (parse_pubrec flag body)
  | 6 => of_res PO_id (parse_pubrel flag body)
  | 7 => of_res PO_id (parse_pubcomp flag body)
  | 9 => of_res (fun p => PO_suback (fst p) (snd p)) (parse_suback flag body)
  | 11 => of_res PO_id (parse_unsuback flag body)
  | 13 => of_res (fun _ => PO_pingresp) (parse_pingresp flag body)
  | _ => PO_err EInvalidPacket
  end.

Definition parse_obs_eqb (a b : parse_obs) : bool :=
  match a, b with
  | PO_panic, PO_panic | PO_pingresp, PO_pingresp => true
  | PO_err x, PO_err y => perr_eqb x y
  | PO_connack s1 c1, PO_connack s2 c2 => Bool.eqb s1 s2 && (c1 =? c2)
  | PO_publish x, PO_publish y => message_eqb x y
  | PO_id x, PO_id y => x =? y
  | PO_suback i1 c1, PO_suback i2 c2 => (i1 =? i2) && list_eqb N.eqb c1 c2
  | _, _ => false
  end.

Definition parse_case := (N * N * list N * parse_obs)%type.

Definition c06_parse_violations (cs : list parse_case) : list nat :=
  indices_where (fun c => match snd c with PO_panic => true | _ => false end) cs.

Definition c06_parse_mismatches (cs : list parse_case) : list nat :=
  indices_where (fun c => let '(t, f, b, o) := c in negb (parse_obs_eqb o (parse_model t f b))) cs.

(* streams: (handler, bytes, survived, largest Read buffer, Err() class, state log is
   [Active; Closed(err)] with Done closed, reader timeline) *)
Definition stream_case := (bool * list N * bool * N * option perr * bool * list in_event)%type.

Definition model_in_events (es : list sv_event) : list in_event :=
  flat_map (fun e => match e with EvIn x => [x] | _ => [] end) es.

Definition model_max_alloc (es : list sv_event) : N :=
  fold_left (fun a e => match e with EvAlloc n => N.max a n | _ => a end) es 2.

(* the property's clauses on what was observed: no crash, no hang, no buffer above the protocol
   maximum, an error is observable through Err() and the Closed callback, Done is closed *)
Definition stream_ok (c : stream_case) : bool :=
  let '(h, s, survived, maxread, err, closed_ok, evs) := c in
  survived && (maxread <=? max_packet) && closed_ok.

Definition stream_model_ok (c : stream_case) : bool :=
  let '(h, s, survived, maxread, err, closed_ok, evs) := c in
  let '(mev, mend) := serve h s in
  match mend with
  | EndErr e => option_eqb perr_eqb err (Some e)
  | _ => false
  end
  && list_eqb in_event_eqb evs (model_in_events mev)
  && (maxread =? model_max_alloc mev).

Definition c06_stream_violations (cs : list stream_case) : list nat := indices_where (fun c => negb (stream_ok c)) cs.
Definition c06_stream_mismatches (cs : list stream_case) : list nat :=
  indices_where (fun c => let '(_, _, survived, _, _, _, _) := c in survived && negb (stream_model_ok c)) cs.
