(* Ids.v — model of packet identifier allocation (property C15).

   Go code modelled:
     uniqid.go:27-29   initID   idLast := rand in 1..0xFFFE (any start value is allowed here)
     uniqid.go:31-37   newID    id := uint16(atomic.AddUint32(&c.idLast, 1)); if id == 0 { return c.newID() }
     publish.go:136-138         if message.ID == 0 { message.ID = c.newID() }   (any QoS, also QoS 0)
     subscribe.go:72, unsubscribe.go:48   id := c.newID()
   idLast is a uint32 (client.go:47): the addition wraps mod 2^32, uint16(...) keeps the low 16 bits.

   Two renderings of the same code:
     * sequential ([new_id_fuel], [new_id], [run_seq]): newID as written, recursion with fuel;
     * concurrent ([run_conc]): any number of callers, a schedule says who performs the next
       atomic AddUint32 (one schedule entry = one atomic step of that caller); a caller whose
       increment produced a zero low half is still inside newID and increments again at its
       next turn (other callers may get in between).
   Specification side: the closed form [issued] of the identifier sequence and the executable
   predicates over observable histories ([nonzero_ok], [young_ok], [strict_ok], [given_kept]).
   No proofs here (Ids_proofs.v). *)
From MQ Require Import Base.
Open Scope N_scope.

Definition M32 : N := 4294967296.          (* 2^32: idLast is a uint32 *)
Definition M16 : N := 65536.               (* 2^16: uint16(...) *)
Definition P16 : N := 65535.               (* number of usable identifiers 1..65535 *)

(* atomic.AddUint32(&c.idLast, 1): the new counter value, which is also what the call returns *)
Definition add1 (last : N) : N := (last + 1) mod M32.

(* uniqid.go:31-37 as written: one increment, and the recursive call when the low half is zero.
   Returns (counter afterwards, identifier); None = out of fuel. *)
Fixpoint new_id_fuel (fuel : nat) (last : N) : option (N * N) :=
  match fuel with
  | O => None
  | S f => let v := add1 last in
           if v mod M16 =? 0 then new_id_fuel f v else Some (v, v mod M16)
  end.

(* the recursion unrolled once; [new_id_fuel_enough] (Ids_proofs.v) shows that for every counter
   value and every fuel >= 2 the recursion returns exactly this: a sequential caller retries at
   most once *)
Definition new_id (last : N) : N * N :=
  let v := add1 last in
  if v mod M16 =? 0 then let w := add1 v in (w, w mod M16) else (v, v mod M16).

(* ---------- requests ---------- *)

(* Publish with Message.QoS = qos and Message.ID = given (0 = let the library choose), Subscribe,
   Unsubscribe (the last two always take a fresh identifier) *)
Inductive req := RPub (qos given : N) | RSub | RUnsub.

Definition is_auto (r : req) : bool :=
  match r with RPub _ g => g =? 0 | _ => true end.

Definition given_of (r : req) : N :=
  match r with RPub _ g => g | _ => 0 end.

(* a request that waits for an acknowledgement, i.e. can be outstanding *)
Definition tracked (r : req) : bool :=
  match r with RPub q _ => negb (q =? 0) | _ => true end.

(* publish.go:136-138 / subscribe.go:72 / unsubscribe.go:48 *)
Definition issue1 (last : N) (r : req) : N * N :=
  if is_auto r then new_id last else (last, given_of r).

(* ---------- histories and what is observable ---------- *)

(* input: a request is issued, or the j-th issued request (0-based, counting every request) ends:
   the peer acknowledges it, or its caller abandons it (context cancelled / timed out) — for the
   bookkeeping of identifiers both simply end the request *)
(* HIn q id: a packet arrives from the broker carrying identifier id — an inbound PUBLISH with QoS q
   (0, 1, 2) or, q = 3, an inbound PUBREL. Identifiers of the two directions are independent name
   spaces (MQTT 3.1.1 section 2.3.1); serve.go never touches idLast: the event changes nothing. *)
Inductive hev := HReq (r : req) | HAck (j : N) | HIn (q id : N).

(* observable: request r of caller k went out with identifier id (for QoS 0 the identifier is
   what Publish left in Message.ID); the j-th request was acknowledged *)
Inductive obs := OIssue (k : nat) (r : req) (id : N) | OAck (j : N).

(* one caller, requests one after the other *)
Fixpoint run_seq (last : N) (h : list hev) : list obs :=
  match h with
  | [] => []
  | HReq r :: rest => let '(last', id) := issue1 last r in OIssue 0 r id :: run_seq last' rest
  | HAck j :: rest => OAck j :: run_seq last rest
  | HIn _ _ :: rest => run_seq last rest
  end.

Fixpoint final_counter (last : N) (h : list hev) : N :=
  match h with
  | [] => last
  | HReq r :: rest => final_counter (fst (issue1 last r)) rest
  | HAck _ :: rest => final_counter last rest
  | HIn _ _ :: rest => final_counter last rest
  end.

(* ---------- any number of concurrent callers ---------- *)

(* a schedule entry: caller k performs its next atomic step, or the peer acknowledges request j *)
Inductive label := LStep (k : nat) | LAck (j : N) | LIn (q id : N).   (* LIn: inbound packet, see HIn *)

Fixpoint set_nth {A} (k : nat) (x : A) (l : list A) : list A :=
  match l, k with
  | [], _ => []
  | _ :: r, O => x :: r
  | y :: r, S k' => y :: set_nth k' x r
  end.

(* progs: for every caller the requests it still has to issue. One step of caller k:
   - head request carries its own identifier: it goes out, counter untouched;
   - otherwise one AddUint32; low half zero: the caller stays inside newID (nothing observable,
     the request stays at the head of its program); otherwise the request goes out. *)
Definition step_caller (c : N) (progs : list (list req)) (k : nat) : N * list (list req) * option obs :=
  match nth_error progs k with
  | Some (r :: rest) =>
      if is_auto r then
        let v := add1 c in
        if v mod M16 =? 0 then (v, progs, None)
        else (v, set_nth k rest progs, Some (OIssue k r (v mod M16)))
      else (c, set_nth k rest progs, Some (OIssue k r (given_of r)))
  | _ => (c, progs, None)
  end.

(* observations in linearisation order *)
Fixpoint run_conc (c : N) (progs : list (list req)) (sched : list label) : list obs :=
  match sched with
  | [] => []
  | LAck j :: rest => OAck j :: run_conc c progs rest
  | LIn _ _ :: rest => run_conc c progs rest
  | LStep k :: rest =>
      let '(c', progs', o) := step_caller c progs k in
      match o with
      | Some e => e :: run_conc c' progs' rest
      | None => run_conc c' progs' rest
      end
  end.

(* ---------- specification: the identifier sequence in closed form ---------- *)

(* the n-th identifier (n = 0, 1, ...) the library chooses after the counter held s *)
Definition issued (s n : N) : N := (s mod M16 + n) mod P16 + 1.

Fixpoint issued_list (s n0 : N) (len : nat) : list N :=
  match len with
  | O => []
  | S l => issued s n0 :: issued_list s (n0 + 1) l
  end.

(* position of identifier x (1..65535) in that sequence: inverse of [issued s] on 0..65534 *)
Definition idx_of (s x : N) : N := (x + P16 - 1 - (s mod M16) mod P16) mod P16.

(* identifiers the library chose, in order of the observations *)
Fixpoint auto_ids (l : list obs) : list N :=
  match l with
  | [] => []
  | OIssue _ r id :: rest => if is_auto r then id :: auto_ids rest else auto_ids rest
  | OAck _ :: rest => auto_ids rest
  end.

(* ---------- specification: predicates over an observed history ---------- *)

(* an outstanding request whose identifier the library chose:
   (ordinal among all requests, identifier, ordinal among the library-chosen identifiers) *)
Definition entry := (N * N * N)%type.
Definition e_ord (e : entry) : N := fst (fst e).
Definition e_id (e : entry) : N := snd (fst e).
Definition e_idx (e : entry) : N := snd e.

(* walk through a history keeping the outstanding library-numbered requests; [chk id na outs] is
   evaluated whenever the library chooses identifier [id] (its na-th choice) for a request that
   will wait for an acknowledgement, against the requests outstanding at that moment *)
Fixpoint scan (chk : N -> N -> list entry -> bool) (tot na : N) (outs : list entry) (l : list obs) : bool :=
  match l with
  | [] => true
  | OAck j :: rest => scan chk tot na (filter (fun e => negb (e_ord e =? j)) outs) rest
  | OIssue _ r id :: rest =>
      if is_auto r then
        if tracked r then chk id na outs && scan chk (tot + 1) (na + 1) ((tot, id, na) :: outs) rest
        else scan chk (tot + 1) (na + 1) outs rest
      else scan chk (tot + 1) na outs rest
  end.

(* the property as stated: the new identifier differs from that of every outstanding request *)
Definition chk_strict (id na : N) (outs : list entry) : bool :=
  negb (existsb (fun e => e_id e =? id) outs).

(* ... from that of every outstanding request after which fewer than 65,535 identifiers were
   chosen, the new one included *)
Definition chk_young (id na : N) (outs : list entry) : bool :=
  negb (existsb (fun e => (e_id e =? id) && (na - e_idx e <? P16)) outs).

(* no request stays outstanding while 65,535 further identifiers are chosen *)
Definition chk_window (id na : N) (outs : list entry) : bool :=
  forallb (fun e => na - e_idx e <? P16) outs.

(* never more than [m] library-numbered requests outstanding, the new one included *)
Definition chk_atmost (m : N) (id na : N) (outs : list entry) : bool :=
  N.of_nat (length outs) + 1 <=? m.

Definition strict_ok (l : list obs) : bool := scan chk_strict 0 0 [] l.
Definition young_ok (l : list obs) : bool := scan chk_young 0 0 [] l.
Definition window_ok (l : list obs) : bool := scan chk_window 0 0 [] l.
Definition atmost_ok (m : N) (l : list obs) : bool := scan (chk_atmost m) 0 0 [] l.

(* identifiers chosen by the library are valid non-zero 16-bit values *)
Definition nonzero_ok (l : list obs) : bool :=
  forallb (fun o => match o with
                    | OIssue _ r id => if is_auto r then (0 <? id) && (id <? M16) else true
                    | OAck _ => true
                    end) l.

(* an identifier the caller put on the message is the one used *)
Definition given_kept (l : list obs) : bool :=
  forallb (fun o => match o with
                    | OIssue _ r id => if is_auto r then true else id =? given_of r
                    | OAck _ => true
                    end) l.

(* ---------- helpers ---------- *)
Fixpoint nodup_b (l : list N) : bool :=
  match l with
  | [] => true
  | x :: r => negb (existsb (N.eqb x) r) && nodup_b r
  end.

(* finding F13 as a history: request 0 is never acknowledged; requests 1..n are acknowledged at
   once. Built back to front so that it is linear in n. *)
Definition f13_history (n : N) : list hev :=
  HReq (RPub 1 0) ::
  snd (N.iter n (fun st => let '(k, l) := st in (k - 1, HReq (RPub 1 0) :: HAck k :: l)) (n, [])).

(* ====================================================================================
   The identifier field of a message through the retrying client (retryclient.go).

   A *Message is an object whose ID field publishImpl fills once (publish.go:136-138); the retry
   handle of an interrupted publish keeps that object, and a message submitted while the retry
   queue is not empty is stored as a COPY OF THE WHOLE VALUE (retryclient.go:167-173,
   `copyMsg := *message`), identifier included. Both are therefore "caller-provided" identifiers
   for the connection that finally transmits them.

   Only what matters for the identifier is modelled: QoS 1/2 publishes, connections that are cut at
   a chosen PUBLISH attempt (after which every further attempt on that connection fails), the task
   loop that stops at a failed task until the next connection, Retry() after every Connect.
   ==================================================================================== *)

(* r_given: what the caller put into Message.ID (0 = nothing); r_id: the ID field now *)
Record rmsg := mk_rmsg { r_tag : N; r_qos : N; r_given : N; r_id : N }.

Definition submitted (tag qos given : N) : rmsg := mk_rmsg tag qos given given.

(* publish.go:136-138 on the message object, counter of the transmitting connection = c *)
Definition fill (c : N) (m : rmsg) : N * rmsg :=
  if r_id m =? 0 then let '(c', id) := new_id c in (c', mk_rmsg (r_tag m) (r_qos m) (r_given m) id)
  else (c, m).

(* retryclient.go:168 `copyMsg := *message` *)
Definition defer_copy (m : rmsg) : rmsg := m.

(* retry queue entries: the retry handle of an interrupted request (ErrorWithRetry: on failure
   Retry() stops and keeps the rest), or a deferred first transmission (on failure it queues its
   own retry handle and Retry() goes on) *)
Inductive qent := QRetry (m : rmsg) | QDeferred (m : rmsg).
Definition ent_msg (e : qent) : rmsg := match e with QRetry m => m | QDeferred m => m end.

Inductive rtask := TPub (m : rmsg) | TRetry.

(* counter of the current connection, its number, is it usable, PUBLISH attempts until the peer
   cuts it (0 = never), retry queue *)
Record rstate := RS { rs_c : N; rs_conn : N; rs_alive : bool; rs_cut : nat; rs_q : list qent }.

Definition set_q (st : rstate) (q : list qent) : rstate :=
  RS (rs_c st) (rs_conn st) (rs_alive st) (rs_cut st) q.

(* one PUBLISH attempt: the identifier is taken (if the field is empty) before the write, also on
   a dead connection; returns the new state, success, the message as it was sent *)
Definition transmit (st : rstate) (m : rmsg) : rstate * bool * rmsg :=
  let '(c', m') := fill (rs_c st) m in
  if rs_alive st then
    match rs_cut st with
    | O => (RS c' (rs_conn st) true O (rs_q st), true, m')
    | S O => (RS c' (rs_conn st) false O (rs_q st), false, m')
    | S k => (RS c' (rs_conn st) true k (rs_q st), true, m')
    end
  else (RS c' (rs_conn st) false O (rs_q st), false, m').

Definition wire := list (N * rmsg).          (* (connection number, message as sent) *)

(* RetryClient.publish, retryclient.go:146-176 *)
Definition publish_task (st : rstate) (m : rmsg) : rstate * wire :=
  match rs_q st with
  | [] => let '(st', ok, m') := transmit st m in
          (if ok then st' else set_q st' [QRetry m'], [(rs_conn st, m')])
  | _ :: _ => (if 0 <? r_qos m then set_q st (rs_q st ++ [QDeferred (defer_copy m)]) else st, [])
  end.

(* the loop of RetryClient.Retry, retryclient.go:470-489; rs_q st is the queue being rebuilt *)
Fixpoint retry_loop (st : rstate) (old : list qent) : rstate * wire :=
  match old with
  | [] => (st, [])
  | QRetry m :: rest =>
      let '(st', ok, m') := transmit st m in
      if ok then let '(st'', w) := retry_loop st' rest in (st'', (rs_conn st, m') :: w)
      else (set_q st' (rs_q st' ++ QRetry m' :: rest), [(rs_conn st, m')])
  | QDeferred m :: rest =>
      let '(st', ok, m') := transmit st m in
      let st1 := if ok then st' else set_q st' (rs_q st' ++ [QRetry m']) in
      let '(st'', w) := retry_loop st1 rest in (st'', (rs_conn st, m') :: w)
  end.

Definition run_task (st : rstate) (t : rtask) : rstate * wire :=
  match t with
  | TPub m => publish_task st m
  | TRetry => retry_loop (set_q st []) (rs_q st)
  end.

(* the task goroutine: tasks in submission order; after a failed task it waits for the next
   connection (retryclient.go:365-369), the remaining tasks stay queued *)
Fixpoint drain (st : rstate) (ts : list rtask) : rstate * list rtask * wire :=
  match ts with
  | [] => (st, [], [])
  | t :: rest =>
      if rs_alive st then
        let '(st', w) := run_task st t in
        let '(st'', lft, w') := drain st' rest in (st'', lft, w ++ w')
      else (st, ts, [])
  end.

(* what the application does: publish (tag, qos, caller's identifier), or bring up a new connection
   whose counter starts at s and whose peer cuts it at the cut-th PUBLISH attempt, then Retry() *)
Inductive xop := XPub (tag qos given : N) | XConn (s : N) (cut : nat).

Fixpoint run_retry_from (st : rstate) (pend : list rtask) (ops : list xop) : wire :=
  match ops with
  | [] => []
  | XPub tag qos g :: rest =>
      let '(st', lft, w) := drain st (pend ++ [TPub (submitted tag qos g)]) in
      w ++ run_retry_from st' lft rest
  | XConn s cut :: rest =>
      let st0 := RS s (rs_conn st + 1) true cut (rs_q st) in
      let '(st', lft, w) := drain st0 (pend ++ [TRetry]) in
      w ++ run_retry_from st' lft rest
  end.

Definition run_retry (ops : list xop) : wire := run_retry_from (RS 0 0 false O []) [] ops.

(* a transmitted message is in order: non-zero identifier, and the caller's if it gave one *)
Definition sent_ok (m : rmsg) : bool :=
  negb (r_id m =? 0) && ((r_given m =? 0) || (r_id m =? r_given m)).

(* ====================================================================================
   Retry handles and the client they run on.

   An interrupted request returns an ErrorWithRetry whose handle is later run on ANOTHER BaseClient
   (RetryClient.Retry after a reconnect). publish.go:162-164: the handle of a publish keeps the
   message, identifier included (a caller-provided identifier for the new client).
   subscribe.go:86-89 / unsubscribe.go:62-64: the handle calls subscribeImpl(ctx, cli, ...) /
   unsubscribeImpl(ctx, cli, ...) — a NEW request on the client it is given, which takes its
   identifier from THAT client's counter.
   ==================================================================================== *)
Inductive handle := HdlPub (qos id : N) | HdlSub | HdlUnsub.

(* the request a handle amounts to on the client it is run on *)
Definition handle_req (h : handle) : req :=
  match h with
  | HdlPub q id => RPub q id
  | HdlSub => RSub
  | HdlUnsub => RUnsub
  end.

(* request r is issued on a client whose counter is a and interrupted before its acknowledgement:
   the handle it leaves behind *)
Definition interrupt (a : N) (r : req) : handle :=
  match r with
  | RPub q _ => HdlPub q (snd (issue1 a r))
  | RSub => HdlSub
  | RUnsub => HdlUnsub
  end.

(* client B (counter b) goes through history hB, then the handle of a request that was interrupted
   on client A (counter a) is run on B: what is observed on B *)
Definition run_handle_on (a : N) (r : req) (b : N) (hB : list hev) : list obs :=
  run_seq b (hB ++ [HReq (handle_req (interrupt a r))]).
