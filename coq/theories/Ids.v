(* Ids.v — model of packet identifier allocation: uniqid.go (newID on the atomic 32-bit counter
   idLast, truncated to 16 bits, zero skipped) and its use in publish.go / subscribe.go /
   unsubscribe.go (a caller-provided Message.ID is used unchanged). *)
From MQ Require Import Base.
Open Scope N_scope.

Definition M32 : N := 4294967296.          (* 2^32: idLast is a uint32 *)
Definition M16 : N := 65536.               (* uint16(...) *)

(* atomic.AddUint32(&c.idLast, 1): new counter value *)
Definition add1 (last : N) : N := (last + 1) mod M32.

(* newID, sequentially: one increment, and a second one when the low 16 bits are zero.
   Returns (new counter, identifier). [new_id_fuel] is the recursion of the source with fuel. *)
Fixpoint new_id_fuel (fuel : nat) (last : N) : option (N * N) :=
  match fuel with
  | O => None
  | S f => let v := add1 last in
           if v mod M16 =? 0 then new_id_fuel f v else Some (v, v mod M16)
  end.

Definition new_id (last : N) : N * N :=
  match new_id_fuel 2 last with Some r => r | None => (last, 0) end.

(* a request: Publish with Message.ID = given (0 = let the library choose), or Subscribe /
   Unsubscribe (always a fresh identifier) *)
Inductive req := RPub (given : N) | RSub | RUnsub.

Definition issue1 (last : N) (r : req) : N * N :=
  match r with
  | RPub g => if g =? 0 then new_id last else (last, g)
  | _ => new_id last
  end.

(* identifiers put on the wire by a sequence of requests issued one after the other *)
Fixpoint issue_seq (last : N) (rs : list req) : list N :=
  match rs with
  | [] => []
  | r :: rest => let '(last', id) := issue1 last r in id :: issue_seq last' rest
  end.

Fixpoint final_counter (last : N) (rs : list req) : N :=
  match rs with
  | [] => last
  | r :: rest => final_counter (fst (issue1 last r)) rest
  end.

(* ---------- the counter as a sequence of ticks; any number of concurrent callers ---------- *)

(* the t-th atomic increment after the counter held [s] yields this value; increments are atomic,
   so every increment performed by anybody is exactly one tick of this sequence *)
Definition tick_value (s : N) (t : N) : N := (s + t) mod M32.
Definition tick_id (s : N) (t : N) : N := tick_value s t mod M16.

(* A schedule says which caller performs the next AddUint32. Caller [k] is inside one newID call:
   it keeps incrementing until it sees a non-zero low half, then the call returns. The run yields,
   in completion order, (caller, tick at which its call completed, identifier returned). *)
Fixpoint conc_run (s : N) (t : N) (sched : list nat) : list (nat * N * N) :=
  match sched with
  | [] => []
  | k :: rest =>
      let t' := t + 1 in
      if tick_id s t' =? 0 then conc_run s t' rest           (* caller k retries on its next turn *)
      else (k, t', tick_id s t') :: conc_run s t' rest
  end.

(* ---------- helpers for the correspondence check ---------- *)
Fixpoint nodup_b (l : list N) : bool :=
  match l with
  | [] => true
  | x :: r => negb (existsb (N.eqb x) r) && nodup_b r
  end.
