(* CheckC20.v — executable comparison of what the implementation did (harness/c20.go) with Clone.v,
   and the property predicate evaluated on the implementation's observations alone. *)
From MQ Require Import Base Filter Clone.
Open Scope nat_scope.

Definition content_eqb (a b : content) : bool :=
  str_eqb (c_topic a) (c_topic b) && N.eqb (c_id a) (c_id b) && N.eqb (c_qos a) (c_qos b)
  && Bool.eqb (c_retain a) (c_retain b) && Bool.eqb (c_dup a) (c_dup b) && str_eqb (c_payload a) (c_payload b).

Definition event_eqb (x y : event) : bool :=
  match x, y with
  | EvDispatch d a c, EvDispatch d' a' c' => Nat.eqb d d' && Nat.eqb a a' && content_eqb c c'
  | EvEntry d h k c, EvEntry d' h' k' c' => Nat.eqb d d' && Nat.eqb h h' && Nat.eqb k k' && content_eqb c c'
  | _, _ => false
  end.

(* what the harness can see of every agent: the content of its message once its handler has been entered *)
Definition vis (st : state) : list (option content) :=
  map (fun ag => match a_pend ag with
                 | None => Some (content_of (st_h st) (a_ptr ag))
                 | Some _ => None
                 end) (st_agents st).

(* agents whose visible content is new or different after a step *)
Fixpoint delta_from (k : nat) (before after : list (option content)) : list (nat * content) :=
  match after with
  | [] => []
  | x :: after' =>
      let b := match before with [] => None | y :: _ => y end in
      let rest := delta_from (S k) (tl before) after' in
      match x with
      | Some c => if option_eqb content_eqb b (Some c) then rest else (k, c) :: rest
      | None => rest
      end
  end.

Fixpoint model_deltas_from (muxes : list mux) (sched : list label) (st : state) (before : list (option content))
  : list (list (nat * content)) * state :=
  match sched with
  | [] => ([], st)
  | s :: r =>
      let st' := step muxes clone st s in
      let after := vis st' in
      let (ds, fin) := model_deltas_from muxes r st' after in
      (delta_from 0 before after :: ds, fin)
  end.

Definition model_deltas (muxes : list mux) (sched : list label) (st : state) := model_deltas_from muxes sched st (vis st).

Definition pair_eqb (x y : nat * content) : bool := Nat.eqb (fst x) (fst y) && content_eqb (snd x) (snd y).

(* one case: registrations of every ServeMux (filter string, handler id), the schedule that was
   executed (oracle capacities filled in from what was observed), the observed event log (oldest
   first) and the observed per-step changes *)
Definition c20_case := (list (list (str * nat)) * list label * list event * list (list (nat * content)))%type.

Definition c20_model_ok (c : c20_case) : bool :=
  let '(regs, sched, log, deltas) := c in
  let muxes := map mux_of regs in
  let (ds, fin) := model_deltas muxes sched init in
  list_eqb event_eqb log (rev (st_log fin)) && list_eqb (list_eqb pair_eqb) deltas ds.

(* ----- the property on the observations alone ----- *)

(* every handler saw exactly the content its dispatch was made with *)
Definition entries_ok (log : list event) : bool :=
  forallb (fun e => match e with
                    | EvEntry d _ _ c => match disp_of log d with
                                         | Some (_, c0) => content_eqb c c0
                                         | None => false
                                         end
                    | EvDispatch _ _ _ => true
                    end) log.

Definition creates (s : label) (k : nat) : bool :=
  match s with
  | SNew _ _ => true
  | SMuxNext _ _ => true
  | SRun k' => Nat.eqb k k'
  | _ => false
  end.

(* the result of a mutator operation as far as the content alone determines it (a reslice that
   reaches into the spare capacity exposes bytes the content does not show) *)
Definition with_payload (c : content) (p : list N) : content :=
  mkC (c_topic c) (c_id c) (c_qos c) (c_retain c) (c_dup c) p.
Definition cop (o : op) (c : content) : option content :=
  match o with
  | OSetTopic t => Some (mkC t (c_id c) (c_qos c) (c_retain c) (c_dup c) (c_payload c))
  | OSetId n => Some (mkC (c_topic c) n (c_qos c) (c_retain c) (c_dup c) (c_payload c))
  | OSetQos n => Some (mkC (c_topic c) (c_id c) n (c_retain c) (c_dup c) (c_payload c))
  | OSetRetain b => Some (mkC (c_topic c) (c_id c) (c_qos c) b (c_dup c) (c_payload c))
  | OSetDup b => Some (mkC (c_topic c) (c_id c) (c_qos c) (c_retain c) b (c_payload c))
  | OWrite i v => Some (if i <? length (c_payload c) then with_payload c (write_at i [v] (c_payload c)) else c)
  | OAppend bs _ => Some (with_payload c (c_payload c ++ bs))
  | OReslice lo hi =>
      if (lo <=? hi) && (hi <=? length (c_payload c))
      then Some (with_payload c (firstn (hi - lo) (skipn lo (c_payload c))))
      else None
  | ONewPayload bs _ => Some (with_payload c bs)
  end.

Fixpoint lookup (k : nat) (l : list (nat * content)) : option content :=
  match l with
  | [] => None
  | (k', c) :: r => if Nat.eqb k k' then Some c else lookup k r
  end.

(* what a holder reads after its own operation is what that operation wrote *)
Definition own_ok (s : label) (d cur : list (nat * content)) : bool :=
  match s with
  | SMut a o =>
      match lookup a cur with
      | Some c =>
          match cop o c with
          | Some c' => content_eqb c' (match lookup a d with Some n => n | None => c end)
          | None => true
          end
      | None => true
      end
  | _ => true
  end.

(* a message changes only by an operation of its holder — whenever that is: during the handler's
   call or any time after it returned, whatever was dispatched in between; messages appear only by
   being built or handed to a handler. [cur]: the latest content read for every holder seen so far. *)
Fixpoint isolated (sched : list label) (deltas : list (list (nat * content))) (cur : list (nat * content)) : bool :=
  match sched, deltas with
  | [], [] => true
  | s :: sched', d :: deltas' =>
      forallb (fun kc => let k := fst kc in
                         match lookup k cur with
                         | Some _ => match actor s with Some a => Nat.eqb a k | None => false end
                         | None => creates s k
                         end) d
      && own_ok s d cur
      && isolated sched' deltas' (d ++ cur)
  | _, _ => false
  end.

Definition c20_entry_ok (c : c20_case) : bool := let '(_, _, log, _) := c in entries_ok log.
Definition c20_isolated_ok (c : c20_case) : bool := let '(_, sched, _, deltas) := c in isolated sched deltas [].

Definition c20_model_mismatches (cs : list c20_case) : list nat := indices_where (fun c => negb (c20_model_ok c)) cs.
Definition c20_entry_violations (cs : list c20_case) : list nat := indices_where (fun c => negb (c20_entry_ok c)) cs.
Definition c20_isolation_violations (cs : list c20_case) : list nat := indices_where (fun c => negb (c20_isolated_ok c)) cs.

(* ----- compact literals for the generated cases (parsing cost is per syntax node): a byte string is
   one number, little-endian base 256 with a leading 1 as end marker; every index is an N ----- *)
Fixpoint dec_fuel (fuel : nat) (n : N) : list N :=
  match fuel with
  | O => []
  | S f => if (n <=? 1)%N then [] else N.land n 255 :: dec_fuel f (N.shiftr n 8)   (* mod / div 256, bitwise: linear *)
  end.
Definition dec (n : N) : list N := dec_fuel (N.size_nat n) n.
Definition nn := N.to_nat.

(* flags: bit 0 retain, bit 1 dup *)
Definition RC (t id q fl p : N) : content :=
  mkC (dec t) id q (N.odd fl) (N.odd (fl / 2)) (dec p).
Definition RTopic (t : N) := OSetTopic (dec t).
Definition RWrite (i v : N) := OWrite (nn i) v.
Definition RAppend (bs extra : N) := OAppend (dec bs) (nn extra).
Definition RReslice (lo hi : N) := OReslice (nn lo) (nn hi).
Definition RNewPl (bs extra : N) := ONewPayload (dec bs) (nn extra).
Definition RNew (c : content) (extra : N) := SNew c (nn extra).
Definition RMut (a : N) (o : op) := SMut (nn a) o.
Definition RBegin (a mi : N) := SMuxBegin (nn a) (nn mi).
Definition RNext (f extra : N) := SMuxNext (nn f) (nn extra).
Definition RAsync (a hid extra : N) := SAsync (nn a) (nn hid) (nn extra).
Definition RRun (k : N) := SRun (nn k).
Definition RReturn (a : N) := SReturn (nn a).
Definition RDisp (d a : N) (c : content) := EvDispatch (nn d) (nn a) c.
Definition REntry (d hid k : N) (c : content) := EvEntry (nn d) (nn hid) (nn k) c.
Definition RD (k : N) (c : content) : nat * content := (nn k, c).
Definition RReg (f hid : N) : str * nat := (dec f, nn hid).

(* ----- directed nesting scenarios (ServeAsync registered in a ServeMux, ServeMux behind ServeAsync):
   dispatched content, contents seen on entry by the handlers, caller's content afterwards ----- *)
Definition c20_nest_case := (list (str * nat) * content * list content * content)%type.
Definition c20_nest_ok (c : c20_nest_case) : bool :=
  let '(_, d, seen, after) := c in forallb (content_eqb d) seen && content_eqb d after.
Definition c20_nest_violations (cs : list c20_nest_case) : list nat := indices_where (fun c => negb (c20_nest_ok c)) cs.
(* as many handlers were entered as registrations match the dispatched topic (Filter.v) *)
Definition c20_nest_model_ok (c : c20_nest_case) : bool :=
  let '(regs, d, seen, _) := c in
  match regs with
  | [] => true
  | _ => Nat.eqb (length seen) (length (mux_serve (mux_of regs) (c_topic d)))
  end.
Definition c20_nest_mismatches (cs : list c20_nest_case) : list nat := indices_where (fun c => negb (c20_nest_model_ok c)) cs.

(* ----- saturation family: n asynchronous handlers parked, then one more message -----
   observed: content seen by the handler on entry, caller's message right after Serve returned,
   after its own rewrite, after the handler scribbled over and kept its message; the kept message
   right after the handler's writes and after the caller rewrote its buffer once more; whether the
   handler got the caller's pointer; whether it ran on the goroutine that called Serve *)
Definition c20_sat_obs := (content * content * content * content * content * content * bool * bool)%type.
Definition c20_sat_case := (N * content * N * N * list op * list op * list op * c20_sat_obs)%type.

Definition c20_sat_ok (c : c20_sat_case) : bool :=
  let '(_, d, _, _, _, _, _, (seen, a1, mine, a2, kexp, kact, sameptr, inline)) := c in
  content_eqb seen d && content_eqb a1 d && content_eqb a2 mine && content_eqb kact kexp
  && negb sameptr && negb inline.

Definition oc (o : option content) : content := match o with Some c => c | None => mkC [] 0%N 0%N false false [] end.

(* the model on the same history: a parker dispatches n times (nobody is entered), the caller builds d,
   dispatches, rewrites its message; the handler is entered, scribbles; the caller rewrites again *)
Definition sat_model (n : nat) (d : content) (extra cextra : nat) (cops hops cops2 : list op)
  : content * content * content * content * content * content :=
  let c := S n in let h := S (S n) in
  let st0 := exec [] clone (SNew (mkC [112]%N 0%N 0%N false false [0]%N) 0 :: repeat (SAsync 0 1 0) n) init in
  let st1 := exec [] clone [SNew d extra; SAsync c 2 cextra] st0 in
  let st2 := exec [] clone (map (SMut c) cops) st1 in
  let st3 := exec [] clone [SRun h] st2 in
  let seen := match st_log st3 with EvEntry _ _ _ x :: _ => x | _ => mkC [] 0%N 0%N false false [] end in
  let st4 := exec [] clone (map (SMut h) hops) st3 in
  let st5 := exec [] clone (map (SMut c) cops2) st4 in
  (seen, oc (agent_content st1 c), oc (agent_content st2 c), oc (agent_content st4 c),
   oc (agent_content st4 h), oc (agent_content st5 h)).

Definition c20_sat_model_ok (c : c20_sat_case) : bool :=
  let '(n, d, extra, cextra, cops, hops, cops2, (seen, a1, mine, a2, kexp, kact, sameptr, inline)) := c in
  (* the model's evaluation cost is quadratic in n; beyond 1100 parked handlers it is run with 1100
     (C20_async_any_load: the outcome does not depend on the number of unfinished handlers) *)
  let '(s', a1', mine', a2', kexp', kact') := sat_model (nn (N.min n 1100)) d (nn extra) (nn cextra) cops hops cops2 in
  content_eqb seen s' && content_eqb a1 a1' && content_eqb mine mine' && content_eqb a2 a2'
  && content_eqb kexp kexp' && content_eqb kact kact' && negb sameptr && negb inline.

Definition c20_sat_violations (cs : list c20_sat_case) : list nat := indices_where (fun c => negb (c20_sat_ok c)) cs.
Definition c20_sat_mismatches (cs : list c20_sat_case) : list nat := indices_where (fun c => negb (c20_sat_model_ok c)) cs.
