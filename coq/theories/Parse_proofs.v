(* Parse_proofs.v — for EVERY byte stream: the reader never panics, never asks make() for more
   than the protocol maximum, a malformed packet ends the loop with a protocol error, and the
   well-formed packets before it are processed exactly as without it. Plus the inverse direction
   of C05: a PUBLISH produced by the encoder is parsed back to the same message. *)
(* Layout: the definitions used by the statements come first, then auxiliary lemmas; the theorems
   of the property (unchanged statements) are proved where their ingredients are available. *)
From MQ Require Import Base Codec Codec_proofs Inbound Inbound_proofs Parse.
From MQ Require Export ParseSpec.
Open Scope N_scope.

(* the definitions used by the statements (topic_of, malformed, protocol_error) are in ParseSpec.v *)

(* ---------- Go primitives ---------- *)
Lemma unpack_uint16_cons hi lo r : unpack_uint16 (hi :: lo :: r) = Ok (hi * 256 + lo).
Proof. reflexivity. Qed.

Lemma slice_from_ok b a : (a <= length b)%nat -> slice_from b a = Ok (skipn a b).
Proof.
  intros H. unfold slice_from. destruct (Nat.leb a (length b)) eqn:E; [reflexivity|].
  apply Nat.leb_gt in E. lia.
Qed.

Lemma slice_ok b a z : (a <= z)%nat -> (z <= length b)%nat ->
  slice b a z = Ok (firstn (z - a) (skipn a b)).
Proof.
  intros H1 H2. unfold slice. apply Nat.leb_le in H1. apply Nat.leb_le in H2.
  rewrite H1, H2. reflexivity.
Qed.

(* ---------- the rune decoder: a bad rune comes only from a zero byte ---------- *)
Lemma decode_runes_cons b0 r :
  decode_runes (b0 :: r) =
      if b0 <? 128 then b0 :: decode_runes r else
      let err := RuneError :: decode_runes r in
      match r with
      | [] => err
      | b1 :: r1 =>
          if (192 <=? b0) && (b0 <? 224) then
            if cont b1 then
              let rn := (b0 mod 32) * 64 + b1 mod 64 in
              if 127 <? rn then rn :: decode_runes r1 else err
            else err
          else if (224 <=? b0) && (b0 <? 240) then
            match r1 with
            | [] => err
            | b2 :: r2 =>
                if cont b1 && cont b2 then
                  let rn := (b0 mod 16) * 4096 + (b1 mod 64) * 64 + b2 mod 64 in
                  if (2047 <? rn) && negb ((55296 <=? rn) && (rn <=? 57343)) then rn :: decode_runes r2 else err
                else err
            end
          else if (240 <=? b0) && (b0 <? 248) then
            match r1 with
            | b2 :: b3 :: r3 =>
                if cont b1 && cont b2 && cont b3 then
                  let rn := (b0 mod 8) * 262144 + (b1 mod 64) * 4096 + (b2 mod 64) * 64 + b3 mod 64 in
                  if (65535 <? rn) && (rn <=? 1114111) then rn :: decode_runes r3 else err
                else err
            | _ => err
            end
          else err
      end.
Proof. reflexivity. Qed.

Lemma cont_nonzero b : cont b = true -> (0 =? b) = false.
Proof. unfold cont. lia. Qed.

Lemma existsb_bad_cons rn x (y : bool) : bad_rune rn = false -> existsb bad_rune x = y ->
  existsb bad_rune (rn :: x) = y.
Proof. intros H <-. cbn [existsb]. rewrite H. reflexivity. Qed.

Lemma decode_runes_bad_aux : forall n s, (length s <= n)%nat ->
  existsb bad_rune (decode_runes s) = existsb (N.eqb 0) s.
Proof.
  induction n as [|n IH]; intros s Hl.
  { destruct s; [reflexivity | cbn [length] in Hl; lia]. }
  destruct s as [|b0 r]; [reflexivity|].
  cbn [length] in Hl.
  rewrite decode_runes_cons.
  destruct (b0 <? 128) eqn:E0.
  { cbn [existsb]. rewrite (IH r) by lia. f_equal. unfold bad_rune. lia. }
  assert (Herr : existsb bad_rune (RuneError :: decode_runes r) = existsb (N.eqb 0) (b0 :: r)).
  { cbn [existsb]. rewrite (IH r) by lia.
    replace (0 =? b0) with false by lia. reflexivity. }
  cbv zeta.
  destruct r as [|b1 r1]; [exact Herr|].
  cbn [length] in Hl.
  destruct ((192 <=? b0) && (b0 <? 224)) eqn:E2.
  { destruct (cont b1) eqn:C1; [|exact Herr].
    destruct (127 <? b0 mod 32 * 64 + b1 mod 64) eqn:R; [|exact Herr].
    apply existsb_bad_cons; [unfold bad_rune; lia|].
    rewrite (IH r1) by lia. cbn [existsb].
    rewrite (cont_nonzero _ C1). replace (0 =? b0) with false by lia. reflexivity. }
  destruct ((224 <=? b0) && (b0 <? 240)) eqn:E3.
  { destruct r1 as [|b2 r2]; [exact Herr|]. cbn [length] in Hl.
    destruct (cont b1 && cont b2) eqn:C; [|exact Herr].
    apply andb_true_iff in C as [C1 C2].
    destruct ((2047 <? b0 mod 16 * 4096 + b1 mod 64 * 64 + b2 mod 64) &&
              negb ((55296 <=? b0 mod 16 * 4096 + b1 mod 64 * 64 + b2 mod 64) &&
                    (b0 mod 16 * 4096 + b1 mod 64 * 64 + b2 mod 64 <=? 57343))) eqn:R; [|exact Herr].
    apply existsb_bad_cons; [unfold bad_rune; lia|].
    rewrite (IH r2) by lia. cbn [existsb].
    rewrite (cont_nonzero _ C1), (cont_nonzero _ C2). replace (0 =? b0) with false by lia. reflexivity. }
  destruct ((240 <=? b0) && (b0 <? 248)) eqn:E4; [|exact Herr].
  destruct r1 as [|b2 [|b3 r3]]; [exact Herr|exact Herr|]. cbn [length] in Hl.
  destruct (cont b1 && cont b2 && cont b3) eqn:C; [|exact Herr].
  apply andb_true_iff in C as [C C3]. apply andb_true_iff in C as [C1 C2].
  destruct ((65535 <? b0 mod 8 * 262144 + b1 mod 64 * 4096 + b2 mod 64 * 64 + b3 mod 64) &&
            (b0 mod 8 * 262144 + b1 mod 64 * 4096 + b2 mod 64 * 64 + b3 mod 64 <=? 1114111)) eqn:R;
    [|exact Herr].
  apply existsb_bad_cons; [unfold bad_rune; lia|].
  rewrite (IH r3) by lia. cbn [existsb].
  rewrite (cont_nonzero _ C1), (cont_nonzero _ C2), (cont_nonzero _ C3).
  replace (0 =? b0) with false by lia. reflexivity.
Qed.

Lemma decode_runes_bad s : existsb bad_rune (decode_runes s) = existsb (N.eqb 0) s.
Proof. apply (decode_runes_bad_aux (length s)). lia. Qed.

(* a byte 00 decodes to the rune U+0000 wherever it stands: after ASCII, after a complete
   multi-byte character, after (or inside) an invalid, truncated or overlong sequence — the Go
   conversion []rune(string) resynchronises byte by byte and never swallows a byte below 0x80 *)
Lemma decode_runes_nul_aux : forall n s, (length s <= n)%nat -> In 0 s -> In 0 (decode_runes s).
Proof.
  induction n as [|n IH]; intros s Hl Hin.
  { destruct s; [destruct Hin | cbn [length] in Hl; lia]. }
  destruct s as [|b0 r]; [destruct Hin|].
  cbn [length] in Hl. rewrite decode_runes_cons.
  destruct (b0 <? 128) eqn:E0.
  { destruct Hin as [H|H]; [left; exact H | right; apply IH; [lia | exact H]]. }
  assert (Hr : In 0 r). { destruct Hin as [H|H]; [lia | exact H]. }
  assert (Herr : In 0 (RuneError :: decode_runes r)). { right. apply IH; [lia | exact Hr]. }
  cbv zeta.
  destruct r as [|b1 r1]; [exact Herr|]. cbn [length] in Hl.
  destruct ((192 <=? b0) && (b0 <? 224)) eqn:E2.
  { destruct (cont b1) eqn:C1; [|exact Herr].
    destruct (127 <? b0 mod 32 * 64 + b1 mod 64); [|exact Herr].
    right. apply IH; [lia|].
    destruct Hr as [H|H]; [subst b1; discriminate C1 | exact H]. }
  destruct ((224 <=? b0) && (b0 <? 240)) eqn:E3.
  { destruct r1 as [|b2 r2]; [exact Herr|]. cbn [length] in Hl.
    destruct (cont b1 && cont b2) eqn:C; [|exact Herr].
    apply andb_true_iff in C as [C1 C2].
    destruct ((2047 <? b0 mod 16 * 4096 + b1 mod 64 * 64 + b2 mod 64) &&
              negb ((55296 <=? b0 mod 16 * 4096 + b1 mod 64 * 64 + b2 mod 64) &&
                    (b0 mod 16 * 4096 + b1 mod 64 * 64 + b2 mod 64 <=? 57343))); [|exact Herr].
    right. apply IH; [lia|].
    destruct Hr as [H|[H|H]]; [subst b1; discriminate C1 | subst b2; discriminate C2 | exact H]. }
  destruct ((240 <=? b0) && (b0 <? 248)) eqn:E4; [|exact Herr].
  destruct r1 as [|b2 [|b3 r3]]; [exact Herr | exact Herr |]. cbn [length] in Hl.
  destruct (cont b1 && cont b2 && cont b3) eqn:C; [|exact Herr].
  apply andb_true_iff in C as [C C3]. apply andb_true_iff in C as [C1 C2].
  destruct ((65535 <? b0 mod 8 * 262144 + b1 mod 64 * 4096 + b2 mod 64 * 64 + b3 mod 64) &&
            (b0 mod 8 * 262144 + b1 mod 64 * 4096 + b2 mod 64 * 64 + b3 mod 64 <=? 1114111));
    [|exact Herr].
  right. apply IH; [lia|].
  destruct Hr as [H|[H|[H|H]]];
    [subst b1; discriminate C1 | subst b2; discriminate C2 | subst b3; discriminate C3 | exact H].
Qed.

Theorem decode_runes_nul s : In 0 s -> In 0 (decode_runes s).
Proof. apply (decode_runes_nul_aux (length s)). lia. Qed.

(* ---------- unpackString and the parsers in closed form ---------- *)
Lemma topic_of_some body t r : topic_of body = Some (t, r) ->
  exists hi lo, body = hi :: lo :: t ++ r.
Proof.
  unfold topic_of. destruct body as [|hi [|lo r0]]; try discriminate.
  cbv zeta. destruct (Nat.leb (N.to_nat (hi * 256 + lo)) (length r0)) eqn:E; [|discriminate].
  intros H. injection H as <- <-.
  exists hi, lo. rewrite firstn_skipn. reflexivity.
Qed.

Lemma unpack_string_spec b :
  unpack_string b =
  match topic_of b with
  | None => Err EInvalidPacketLength
  | Some (t, r) => if existsb (N.eqb 0) t then Err EInvalidRune
                   else Ok ((length t + 2)%nat, encode_runes (decode_runes t))
  end.
Proof.
  destruct b as [|hi [|lo r]]; [reflexivity | reflexivity |].
  unfold unpack_string, topic_of.
  change (Nat.ltb (length (hi :: lo :: r)) 2) with false. cbv iota.
  rewrite unpack_uint16_cons. cbn [rbind]. cbv zeta.
  set (n := N.to_nat (hi * 256 + lo)).
  cbn [length].
  destruct (Nat.leb n (length r)) eqn:E.
  - apply Nat.leb_le in E.
    destruct (Nat.ltb (S (S (length r))) (n + 2)) eqn:E2; [apply Nat.ltb_lt in E2; lia|].
    rewrite slice_ok by (cbn [length]; lia).
    cbn [rbind]. replace (n + 2 - 2)%nat with n by lia. cbn [skipn].
    rewrite decode_runes_bad.
    rewrite (firstn_length_le r E).
    reflexivity.
  - apply Nat.leb_gt in E.
    destruct (Nat.ltb (S (S (length r))) (n + 2)) eqn:E2; [reflexivity|].
    apply Nat.ltb_ge in E2. lia.
Qed.

Lemma skipn_topic (hi lo : N) t r : skipn (length t + 2) (hi :: lo :: t ++ r) = r.
Proof.
  replace (length t + 2)%nat with (S (S (length t))) by lia. cbn [skipn].
  rewrite skipn_app, skipn_all, Nat.sub_diag. reflexivity.
Qed.

Lemma skipn_topic2 (hi lo a c : N) t p : skipn (length t + 2 + 2) (hi :: lo :: t ++ a :: c :: p) = p.
Proof.
  replace (t ++ a :: c :: p) with ((t ++ [a; c]) ++ p) by (rewrite <- app_assoc; reflexivity).
  replace (length t + 2 + 2)%nat with (S (S (length (t ++ [a; c])))) by (rewrite app_length; cbn [length]; lia).
  cbn [skipn]. rewrite skipn_app, skipn_all, Nat.sub_diag. reflexivity.
Qed.

Lemma parse_publish_spec flag body :
  parse_publish flag body =
  let q := (flag / 2) mod 4 in
  if q =? 3 then Err EInvalidPacket else
  match topic_of body with
  | None => Err EInvalidPacketLength
  | Some (t, r) =>
      if existsb (N.eqb 0) t then Err EInvalidRune else
      if q =? 0 then
        Ok {| m_topic := encode_runes (decode_runes t); m_id := 0; m_qos := q;
              m_retain := N.odd flag; m_dup := N.odd (flag / 8); m_payload := r |}
      else match r with
           | a :: c :: p =>
               Ok {| m_topic := encode_runes (decode_runes t); m_id := a * 256 + c; m_qos := q;
                     m_retain := N.odd flag; m_dup := N.odd (flag / 8); m_payload := p |}
           | _ => Err EInvalidPacketLength
           end
  end.
Proof.
  unfold parse_publish. cbv zeta.
  destruct ((flag / 2) mod 4 =? 3) eqn:E3; [reflexivity|].
  rewrite unpack_string_spec.
  destruct (topic_of body) as [[t r]|] eqn:Et; [|reflexivity].
  destruct (existsb (N.eqb 0) t) eqn:Ez; [reflexivity|].
  cbn [rbind].
  apply topic_of_some in Et. destruct Et as (hi & lo & ->).
  assert (Hlen : length (hi :: lo :: t ++ r) = (length t + 2 + length r)%nat).
  { cbn [length]. rewrite app_length. lia. }
  destruct ((flag / 2) mod 4 =? 0) eqn:E0.
  - rewrite slice_from_ok by lia. cbn [rbind]. rewrite skipn_topic. reflexivity.
  - replace (length (hi :: lo :: t ++ r) - (length t + 2))%nat with (length r) by lia.
    destruct r as [|a [|c p]]; [reflexivity | reflexivity |].
    change (Nat.ltb (length (a :: c :: p)) 2) with false. cbv iota.
    rewrite slice_from_ok by lia. cbn [rbind]. rewrite skipn_topic.
    rewrite unpack_uint16_cons. cbn [rbind].
    rewrite slice_from_ok by (rewrite Hlen; cbn [length]; lia). cbn [rbind]. rewrite skipn_topic2. reflexivity.
Qed.

(* ---------- every parser either returns a value or a protocol error, decided by a test ---------- *)
Definition classifies {A} (bad : bool) (r : res A) : Prop :=
  if bad then exists e, r = Err e /\ protocol_error e else exists v, r = Ok v.

Lemma classifies_no_panic {A} bad (r : res A) : classifies bad r -> r <> Panic.
Proof. destruct bad; cbn [classifies]; [intros (e & -> & _) | intros (v & ->)]; discriminate. Qed.

Lemma cl_err {A} (e : perr) : protocol_error e -> classifies (A := A) true (Err e).
Proof. intros H. exists e. split; [reflexivity | exact H]. Qed.

Lemma cl_ok {A} (v : A) : classifies false (Ok v).
Proof. exists v. reflexivity. Qed.

Lemma pe1 : protocol_error EInvalidPacket. Proof. left. reflexivity. Qed.
Lemma pe2 : protocol_error EInvalidPacketLength. Proof. right. left. reflexivity. Qed.
Lemma pe3 : protocol_error EInvalidRune. Proof. right. right. reflexivity. Qed.

Lemma classifies_bind {A B} bad (r : res A) (k : A -> res B) :
  classifies bad r -> (forall a, exists v, k a = Ok v) -> classifies bad (rbind r k).
Proof.
  destruct bad; cbn [classifies].
  - intros (e & -> & He) _. exists e. split; [reflexivity | exact He].
  - intros (v & ->) Hk. cbn [rbind]. apply Hk.
Qed.

Lemma parse_connack_cl flag body :
  classifies (negb (flag =? 0) || negb (Nat.eqb (length body) 2)) (parse_connack flag body).
Proof.
  unfold parse_connack.
  destruct (negb (flag =? 0)); cbn [orb]; [apply cl_err, pe1|].
  destruct (negb (Nat.eqb (length body) 2)) eqn:E; [apply cl_err, pe2|].
  destruct body as [|a [|c [|d r]]]; try discriminate. apply cl_ok.
Qed.

Lemma parse_id_only_cl w flag body :
  classifies (negb (flag =? w) || Nat.ltb (length body) 2) (parse_id_only w flag body).
Proof.
  unfold parse_id_only.
  destruct (negb (flag =? w)); cbn [orb]; [apply cl_err, pe1|].
  destruct (Nat.ltb (length body) 2) eqn:E; [apply cl_err, pe2|].
  destruct body as [|a [|c r]]; try discriminate. rewrite unpack_uint16_cons. apply cl_ok.
Qed.

Lemma parse_suback_cl flag body :
  classifies (negb (flag =? 0) || Nat.ltb (length body) 2) (parse_suback flag body).
Proof.
  unfold parse_suback.
  destruct (negb (flag =? 0)); cbn [orb]; [apply cl_err, pe1|].
  destruct (Nat.ltb (length body) 2) eqn:E; [apply cl_err, pe2|].
  destruct body as [|a [|c r]]; try discriminate. rewrite unpack_uint16_cons. apply cl_ok.
Qed.

Lemma parse_pingresp_cl flag body : classifies (negb (flag =? 0)) (parse_pingresp flag body).
Proof.
  unfold parse_pingresp. destruct (negb (flag =? 0)); [apply cl_err, pe1 | apply cl_ok].
Qed.

Lemma parse_publish_cl flag body :
  classifies (let q := (flag / 2) mod 4 in
              (q =? 3)
              || match topic_of body with
                 | None => true
                 | Some (t, r) => existsb (N.eqb 0) t || (negb (q =? 0) && Nat.ltb (length r) 2)
                 end)
             (parse_publish flag body).
Proof.
  rewrite parse_publish_spec. cbv zeta.
  destruct ((flag / 2) mod 4 =? 3); cbn [orb]; [apply cl_err, pe1|].
  destruct (topic_of body) as [[t r]|]; [|apply cl_err, pe2].
  destruct (existsb (N.eqb 0) t); cbn [orb]; [apply cl_err, pe3|].
  destruct ((flag / 2) mod 4 =? 0); cbn [negb andb]; [apply cl_ok|].
  destruct r as [|a [|c p]]; [apply cl_err, pe2 | apply cl_err, pe2 | apply cl_ok].
Qed.

(* ---------- U+0000 anywhere in the topic ---------- *)
Lemma topic_of_exact hi lo t r : N.to_nat (hi * 256 + lo) = length t ->
  topic_of (hi :: lo :: t ++ r) = Some (t, r).
Proof.
  intros H. unfold topic_of. cbv zeta. rewrite H, app_length.
  destruct (Nat.leb (length t) (length t + length r)) eqn:E; [|apply Nat.leb_gt in E; lia].
  rewrite firstn_app, Nat.sub_diag, firstn_all, skipn_app, Nat.sub_diag, skipn_all.
  cbn [firstn skipn app]. rewrite app_nil_r. reflexivity.
Qed.

Lemma has_nul_in t : In 0 t <-> existsb (N.eqb 0) t = true.
Proof.
  rewrite existsb_exists. split.
  - intros H. exists 0. split; [exact H | reflexivity].
  - intros (x & Hx & E). apply N.eqb_eq in E. subst x. exact Hx.
Qed.

(* for ALL byte strings t (well-formed UTF-8 or not) with a consistent length prefix: a byte 00
   anywhere in t makes unpackString fail with ErrInvalidRune *)
Theorem unpack_string_nul_anywhere hi lo t r :
  N.to_nat (hi * 256 + lo) = length t -> In 0 t ->
  unpack_string (hi :: lo :: t ++ r) = Err EInvalidRune.
Proof.
  intros Hl Hin. rewrite unpack_string_spec, (topic_of_exact hi lo t r Hl).
  apply has_nul_in in Hin. rewrite Hin. reflexivity.
Qed.

(* ... so the PUBLISH is malformed in the sense of the property and its parser says so, whatever
   bytes stand before and after the 00 and whatever follows the topic *)
Theorem publish_nul_anywhere flag hi lo pre post r :
  N.to_nat (hi * 256 + lo) = length (pre ++ 0 :: post) ->
  malformed 3 flag (hi :: lo :: (pre ++ 0 :: post) ++ r) = true /\
  exists e, parse_publish flag (hi :: lo :: (pre ++ 0 :: post) ++ r) = Err e /\ protocol_error e.
Proof.
  intros Hl.
  assert (Hin : In 0 (pre ++ 0 :: post)) by (apply in_or_app; right; left; reflexivity).
  apply has_nul_in in Hin.
  split.
  - unfold malformed. cbv zeta. rewrite (topic_of_exact hi lo _ r Hl), Hin.
    cbn [orb]. apply orb_true_r.
  - rewrite parse_publish_spec. cbv zeta.
    destruct ((flag / 2) mod 4 =? 3); [exists EInvalidPacket; split; [reflexivity | apply pe1]|].
    rewrite (topic_of_exact hi lo _ r Hl), Hin.
    exists EInvalidRune. split; [reflexivity | apply pe3].
Qed.

(* ---------- no parser panics ---------- *)
Theorem unpack_string_no_panic b : unpack_string b <> Panic.
Proof.
  rewrite unpack_string_spec. destruct (topic_of b) as [[t r]|]; [|discriminate].
  destruct (existsb (N.eqb 0) t); discriminate.
Qed.

Theorem parsers_no_panic flag body :
  parse_connack flag body <> Panic /\ parse_publish flag body <> Panic /\
  parse_puback flag body <> Panic /\ parse_pubrec flag body <> Panic /\
  parse_pubrel flag body <> Panic /\ parse_pubcomp flag body <> Panic /\
  parse_suback flag body <> Panic /\ parse_unsuback flag body <> Panic /\
  parse_pingresp flag body <> Panic.
Proof.
  repeat split.
  - exact (classifies_no_panic _ _ (parse_connack_cl flag body)).
  - exact (classifies_no_panic _ _ (parse_publish_cl flag body)).
  - exact (classifies_no_panic _ _ (parse_id_only_cl 0 flag body)).
  - exact (classifies_no_panic _ _ (parse_id_only_cl 0 flag body)).
  - exact (classifies_no_panic _ _ (parse_id_only_cl 2 flag body)).
  - exact (classifies_no_panic _ _ (parse_id_only_cl 0 flag body)).
  - exact (classifies_no_panic _ _ (parse_suback_cl flag body)).
  - exact (classifies_no_panic _ _ (parse_id_only_cl 0 flag body)).
  - exact (classifies_no_panic _ _ (parse_pingresp_cl flag body)).
Qed.

(* ---------- dispatch ---------- *)
Lemma typ_cases (typ : N) :
  typ = 2 \/ typ = 3 \/ typ = 4 \/ typ = 5 \/ typ = 6 \/ typ = 7 \/ typ = 9 \/ typ = 11 \/ typ = 13 \/
  ((forall h sb flag body, dispatch h sb typ flag body = Err EInvalidPacket) /\
   (forall flag body, malformed typ flag body = true)).
Proof.
  destruct typ as [|p].
  { repeat right. split; intros; reflexivity. }
  do 4 (try destruct p as [p|p|]);
    repeat (first [left; reflexivity | right]); split; intros; reflexivity.
Qed.

Lemma step_ok h sb p : exists v, (let '(sb', ev) := serve_in_step h sb p in
                                  Ok (E := perr) (sb', lift_in ev)) = Ok v.
Proof. destruct (serve_in_step h sb p) as [sb' ev]. eexists. reflexivity. Qed.

Lemma dispatch_classified h sb typ flag body :
  classifies (malformed typ flag body) (dispatch h sb typ flag body).
Proof.
  destruct (typ_cases typ) as [-> | [-> | [-> | [-> | [-> | [-> | [-> | [-> | [-> | [Hd Hm]]]]]]]]]].
  - apply classifies_bind; [apply parse_connack_cl | intros a; eexists; reflexivity].
  - apply classifies_bind; [apply parse_publish_cl | intros a; apply step_ok].
  - apply classifies_bind; [apply (parse_id_only_cl 0) | intros a; eexists; reflexivity].
  - apply classifies_bind; [apply (parse_id_only_cl 0) | intros a; eexists; reflexivity].
  - apply classifies_bind; [apply (parse_id_only_cl 2) | intros a; apply step_ok].
  - apply classifies_bind; [apply (parse_id_only_cl 0) | intros a; eexists; reflexivity].
  - apply classifies_bind; [apply parse_suback_cl | intros a; eexists; reflexivity].
  - apply classifies_bind; [apply (parse_id_only_cl 0) | intros a; eexists; reflexivity].
  - apply classifies_bind; [apply parse_pingresp_cl | intros a; eexists; reflexivity].
  - rewrite Hd, Hm. apply cl_err, pe1.
Qed.

Theorem dispatch_no_panic h sb typ flag body : dispatch h sb typ flag body <> Panic.
Proof. exact (classifies_no_panic _ _ (dispatch_classified h sb typ flag body)). Qed.

(* malformed packets, as the property lists them (independent of the parsers) *)
Theorem dispatch_malformed h sb typ flag body : malformed typ flag body = true ->
  exists e, dispatch h sb typ flag body = Err e /\ protocol_error e.
Proof.
  intros H. pose proof (dispatch_classified h sb typ flag body) as Hc. rewrite H in Hc. exact Hc.
Qed.

Theorem dispatch_wellformed h sb typ flag body : malformed typ flag body = false ->
  exists sb' ev, dispatch h sb typ flag body = Ok (sb', ev).
Proof.
  intros H. pose proof (dispatch_classified h sb typ flag body) as Hc. rewrite H in Hc.
  destruct Hc as ([sb' ev] & Hv). exists sb', ev. exact Hv.
Qed.

Definition no_alloc (ev : list sv_event) : Prop := forall n, ~ In (EvAlloc n) ev.

Lemma no_alloc_ack t id : no_alloc [EvAck t id].
Proof. intros n [H|[]]. discriminate. Qed.

Lemma no_alloc_lift es : no_alloc (lift_in es).
Proof. intros n H. unfold lift_in in H. apply in_map_iff in H. destruct H as (x & Hx & _). discriminate. Qed.

Lemma dispatch_no_alloc h sb typ flag body sb' ev :
  dispatch h sb typ flag body = Ok (sb', ev) -> no_alloc ev.
Proof.
  destruct (typ_cases typ) as [-> | [-> | [-> | [-> | [-> | [-> | [-> | [-> | [-> | [Hd Hm]]]]]]]]]];
    [ | | | | | | | | | rewrite Hd; discriminate ];
    unfold dispatch; cbv beta iota;
    match goal with |- rbind ?p _ = _ -> _ => destruct p as [v|e|] end; cbn [rbind]; try discriminate;
    try (destruct (serve_in_step _ _ _) as [sb1 ev1]);
    intros H; injection H as <- <-; first [apply no_alloc_ack | apply no_alloc_lift].
Qed.

(* ---------- readPacket ---------- *)
Lemma read_len_eq k acc cur rest :
  read_len k acc cur rest =
  if cur <? 128 then Ok (acc + (cur mod 128) * 2 ^ (7 * k), rest)
  else if 3 <=? k then Err EInvalidPacketLength
  else match rest with
       | [] => Err EEOF
       | b :: r => read_len (k + 1) (acc + (cur mod 128) * 2 ^ (7 * k)) b r
       end.
Proof. destruct rest; reflexivity. Qed.

Lemma read_len_0 cur rest :
  read_len 0 0 cur rest =
  if cur <? 128 then Ok (cur mod 128, rest)
  else match rest with [] => Err EEOF | b :: r => read_len 1 (cur mod 128) b r end.
Proof.
  rewrite read_len_eq. change (2 ^ (7 * 0)) with 1. change (3 <=? 0) with false. change (0 + 1) with 1.
  rewrite N.mul_1_r, N.add_0_l. reflexivity.
Qed.

Lemma read_len_1 acc cur rest :
  read_len 1 acc cur rest =
  if cur <? 128 then Ok (acc + cur mod 128 * 128, rest)
  else match rest with [] => Err EEOF | b :: r => read_len 2 (acc + cur mod 128 * 128) b r end.
Proof.
  rewrite read_len_eq. change (2 ^ (7 * 1)) with 128. change (3 <=? 1) with false. change (1 + 1) with 2.
  reflexivity.
Qed.

Lemma read_len_2 acc cur rest :
  read_len 2 acc cur rest =
  if cur <? 128 then Ok (acc + cur mod 128 * 16384, rest)
  else match rest with [] => Err EEOF | b :: r => read_len 3 (acc + cur mod 128 * 16384) b r end.
Proof.
  rewrite read_len_eq. change (2 ^ (7 * 2)) with 16384. change (3 <=? 2) with false. change (2 + 1) with 3.
  reflexivity.
Qed.

Lemma read_len_3 acc cur rest :
  read_len 3 acc cur rest =
  if cur <? 128 then Ok (acc + cur mod 128 * 2097152, rest) else Err EInvalidPacketLength.
Proof.
  rewrite read_len_eq. change (2 ^ (7 * 3)) with 2097152. change (3 <=? 3) with true. reflexivity.
Qed.

Lemma read_len_bound cur rest n r1 : read_len 0 0 cur rest = Ok (n, r1) ->
  n <= 268435455 /\ (length r1 <= length rest)%nat.
Proof.
  rewrite read_len_0. destruct (cur <? 128) eqn:E0.
  { intros H. injection H as <- <-. split; lia. }
  destruct rest as [|b1 r]; [discriminate|]. rewrite read_len_1. destruct (b1 <? 128) eqn:E1.
  { intros H. injection H as <- <-. cbn [length]. split; lia. }
  destruct r as [|b2 r]; [discriminate|]. rewrite read_len_2. destruct (b2 <? 128) eqn:E2.
  { intros H. injection H as <- <-. cbn [length]. split; lia. }
  destruct r as [|b3 r]; [discriminate|]. rewrite read_len_3. destruct (b3 <? 128) eqn:E3; [|discriminate].
  intros H. injection H as <- <-. cbn [length]. split; lia.
Qed.

Lemma read_len_no_panic cur rest : read_len 0 0 cur rest <> Panic.
Proof.
  rewrite read_len_0. destruct (cur <? 128); [discriminate|].
  destruct rest as [|b1 r]; [discriminate|]. rewrite read_len_1. destruct (b1 <? 128); [discriminate|].
  destruct r as [|b2 r]; [discriminate|]. rewrite read_len_2. destruct (b2 <? 128); [discriminate|].
  destruct r as [|b3 r]; [discriminate|]. rewrite read_len_3. destruct (b3 <? 128); discriminate.
Qed.

Lemma read_full_no_panic n s : n <= 268435455 -> read_full n s <> Panic.
Proof.
  intros Hn. unfold read_full. change (2 ^ 47) with 140737488355328.
  destruct (140737488355328 <? n) eqn:E; [lia|].
  destruct (n =? 0); [discriminate|]. destruct s as [|x s]; [discriminate|].
  destruct (N.of_nat (length (x :: s)) <? n); discriminate.
Qed.

Lemma read_full_length n s body rest : read_full n s = Ok (body, rest) -> (length rest <= length s)%nat.
Proof.
  unfold read_full. destruct (2 ^ 47 <? n); [discriminate|].
  destruct (n =? 0). { intros H. injection H as <- <-. lia. }
  destruct s as [|x s]; [discriminate|].
  destruct (N.of_nat (length (x :: s)) <? n); [discriminate|].
  intros H. injection H as <- <-. rewrite skipn_length. lia.
Qed.

Lemma read_packet_cons2 h l0 r :
  read_packet (h :: l0 :: r) =
  match read_len 0 0 l0 r with
  | Ok (n, r1) =>
      match read_full n r1 with
      | Ok (body, rest) => (RP_ok (h / 16) (h mod 16) body rest, Some n)
      | Err e => (RP_err e, Some n)
      | Panic => (RP_panic, Some n)
      end
  | Err e => (RP_err e, None)
  | Panic => (RP_panic, None)
  end.
Proof. reflexivity. Qed.

Theorem read_packet_no_panic s : fst (read_packet s) <> RP_panic.
Proof.
  destruct s as [|h [|l0 r]]; [discriminate | discriminate |].
  rewrite read_packet_cons2.
  pose proof (read_len_no_panic l0 r) as Hnp.
  destruct (read_len 0 0 l0 r) as [[n r1]|e|] eqn:E; [|discriminate|congruence].
  apply read_len_bound in E. destruct E as [Hn _].
  pose proof (read_full_no_panic n r1 Hn) as Hf.
  destruct (read_full n r1) as [[body rest]|e|]; [discriminate | discriminate | congruence].
Qed.

(* the body buffer requested from make() never exceeds the protocol maximum *)
Theorem read_packet_alloc_bound s n : snd (read_packet s) = Some n -> n <= max_packet.
Proof.
  destruct s as [|h [|l0 r]]; [discriminate | discriminate |].
  rewrite read_packet_cons2.
  destruct (read_len 0 0 l0 r) as [[m r1]|e|] eqn:E; [|discriminate|discriminate].
  apply read_len_bound in E. destruct E as [Hm _].
  unfold max_packet.
  destruct (read_full m r1) as [[body rest]|e|]; cbn [snd]; intros H; injection H as <-; exact Hm.
Qed.

Lemma read_packet_shrinks s typ flag body rest a :
  read_packet s = (RP_ok typ flag body rest, a) -> (length rest + 2 <= length s)%nat.
Proof.
  destruct s as [|h [|l0 r]]; [discriminate | discriminate |].
  rewrite read_packet_cons2.
  destruct (read_len 0 0 l0 r) as [[m r1]|e|] eqn:E; [|discriminate|discriminate].
  apply read_len_bound in E. destruct E as [_ Hl].
  destruct (read_full m r1) as [[body' rest']|e|] eqn:F; try discriminate.
  intros H. injection H as _ _ _ <- _. apply read_full_length in F. cbn [length]. lia.
Qed.

(* the encoder's length field, read back *)
Ltac rlen_cases n :=
  destruct (n <=? 127) eqn:E1;
  [|destruct (n <=? 16383) eqn:E2;
    [|destruct (n <=? 2097151) eqn:E3;
      [|destruct (n <=? 268435455) eqn:E4]]].

Lemma read_len_varint n rl : remaining_length n = Some rl ->
  exists a rl', rl = a :: rl' /\ forall r, read_len 0 0 a (rl' ++ r) = Ok (n, r).
Proof.
  unfold remaining_length. intros H.
  rlen_cases n; try discriminate; injection H as <-; eexists; eexists; (split; [reflexivity|]);
    intros r; cbn [app].
  - rewrite read_len_0. destruct (n <? 128) eqn:B0; [|lia]. f_equal. f_equal. lia.
  - rewrite read_len_0. destruct (n mod 128 + 128 <? 128) eqn:B0; [lia|].
    rewrite read_len_1. destruct (n / 128 mod 128 <? 128) eqn:B1; [|lia]. f_equal. f_equal. lia.
  - rewrite read_len_0. destruct (n mod 128 + 128 <? 128) eqn:B0; [lia|].
    rewrite read_len_1. destruct (n / 128 mod 128 + 128 <? 128) eqn:B1; [lia|].
    rewrite read_len_2. destruct (n / 16384 mod 128 <? 128) eqn:B2; [|lia]. f_equal. f_equal. lia.
  - rewrite read_len_0. destruct (n mod 128 + 128 <? 128) eqn:B0; [lia|].
    rewrite read_len_1. destruct (n / 128 mod 128 + 128 <? 128) eqn:B1; [lia|].
    rewrite read_len_2. destruct (n / 16384 mod 128 + 128 <? 128) eqn:B2; [lia|].
    rewrite read_len_3. destruct (n / 2097152 mod 128 <? 128) eqn:B3; [|lia]. f_equal. f_equal. lia.
Qed.

(* a strict prefix of the length field ends the stream inside it *)
Lemma read_len_varint_trunc n a rl' pre suf : remaining_length n = Some (a :: rl') ->
  rl' = pre ++ suf -> suf <> [] -> read_len 0 0 a pre = Err EEOF.
Proof.
  unfold remaining_length. intros H Hs Hne.
  assert (Hlen : (length pre < length rl')%nat).
  { rewrite Hs, app_length. destruct suf; [congruence | cbn [length]; lia]. }
  rlen_cases n; try discriminate; injection H as <- <-; cbn [length] in Hlen.
  - lia.
  - destruct pre as [|p0 pre]; [|cbn [length] in Hlen; lia].
    rewrite read_len_0. destruct (n mod 128 + 128 <? 128) eqn:B0; [lia|]. reflexivity.
  - rewrite read_len_0. destruct (n mod 128 + 128 <? 128) eqn:B0; [lia|].
    destruct pre as [|p0 pre]; [reflexivity|]. injection Hs as <- Hs.
    rewrite read_len_1. destruct (n / 128 mod 128 + 128 <? 128) eqn:B1; [lia|].
    destruct pre as [|p1 pre]; [reflexivity | cbn [length] in Hlen; lia].
  - rewrite read_len_0. destruct (n mod 128 + 128 <? 128) eqn:B0; [lia|].
    destruct pre as [|p0 pre]; [reflexivity|]. injection Hs as <- Hs.
    rewrite read_len_1. destruct (n / 128 mod 128 + 128 <? 128) eqn:B1; [lia|].
    destruct pre as [|p1 pre]; [reflexivity|]. injection Hs as <- Hs.
    rewrite read_len_2. destruct (n / 16384 mod 128 + 128 <? 128) eqn:B2; [lia|].
    destruct pre as [|p2 pre]; [reflexivity | cbn [length] in Hlen; lia].
Qed.

Lemma len_zero_nil (body : list N) : len body = 0 -> body = [].
Proof. destruct body; [reflexivity|]. unfold len. cbn [length]. lia. Qed.

Lemma read_full_exact body rest : len body <= 268435455 ->
  read_full (len body) (body ++ rest) = Ok (body, rest).
Proof.
  intros Hb. unfold read_full. change (2 ^ 47) with 140737488355328.
  destruct (140737488355328 <? len body) eqn:E1; [lia|].
  destruct (len body =? 0) eqn:E0.
  { apply N.eqb_eq in E0. apply len_zero_nil in E0. subst body. reflexivity. }
  destruct body as [|x body]; [unfold len in E0; cbn [length] in E0; lia|].
  cbn [app]. change (x :: body ++ rest) with ((x :: body) ++ rest).
  unfold len. rewrite app_length.
  destruct (N.of_nat (length (x :: body) + length rest) <? N.of_nat (length (x :: body))) eqn:E2; [lia|].
  rewrite Nat2N.id, firstn_app, skipn_app, Nat.sub_diag, firstn_all, skipn_all.
  cbn [firstn skipn app]. rewrite app_nil_r. reflexivity.
Qed.

Lemma read_full_trunc b pre suf : b = pre ++ suf -> suf <> [] -> len b <= 268435455 ->
  exists e, (e = EEOF \/ e = EUnexpectedEOF) /\ read_full (len b) pre = Err e.
Proof.
  intros Hb Hs Hl. unfold read_full. change (2 ^ 47) with 140737488355328.
  assert (Hlt : N.of_nat (length pre) < len b).
  { unfold len. rewrite Hb, app_length. destruct suf; [congruence | cbn [length]; lia]. }
  destruct (140737488355328 <? len b) eqn:E1; [lia|].
  destruct (len b =? 0) eqn:E0; [lia|].
  destruct pre as [|p pre]. { exists EEOF. split; [left|]; reflexivity. }
  destruct (N.of_nat (length (p :: pre)) <? len b) eqn:E2; [|lia].
  exists EUnexpectedEOF. split; [right|]; reflexivity.
Qed.

Lemma pack_inv hd body b : pack hd body = Some b ->
  exists rl, remaining_length (len body) = Some rl /\ b = hd :: rl ++ body /\ len body <= 268435455.
Proof.
  unfold pack. rewrite remaining_length_go_eq.
  destruct (remaining_length (len body)) as [rl|] eqn:E; [|discriminate].
  intros H. apply some_inj in H. subst b. exists rl. split; [reflexivity|]. split; [reflexivity|].
  apply varint_defined_iff. exists rl. exact E.
Qed.

(* a frame produced with the encoder's length field is read back exactly, for every body length
   the protocol allows *)
Theorem read_packet_frame typ flag body b rest : typ < 16 -> flag < 16 ->
  pack (typ * 16 + flag) body = Some b ->
  read_packet (b ++ rest) = (RP_ok typ flag body rest, Some (len body)).
Proof.
  intros Ht Hf Hp. apply pack_inv in Hp. destruct Hp as (rl & Hrl & -> & Hb).
  apply read_len_varint in Hrl. destruct Hrl as (a & rl' & -> & Hrl).
  cbn [app]. rewrite <- app_assoc. rewrite read_packet_cons2, Hrl, read_full_exact by exact Hb.
  replace ((typ * 16 + flag) / 16) with typ by lia.
  replace ((typ * 16 + flag) mod 16) with flag by lia.
  reflexivity.
Qed.

(* a length field whose fourth byte still has the continuation bit is rejected *)
Theorem read_packet_overlong h c1 c2 c3 c4 rest :
  128 <= c1 -> 128 <= c2 -> 128 <= c3 -> 128 <= c4 ->
  read_packet (h :: c1 :: c2 :: c3 :: c4 :: rest) = (RP_err EInvalidPacketLength, None).
Proof.
  intros H1 H2 H3 H4. rewrite read_packet_cons2.
  rewrite read_len_0. destruct (c1 <? 128) eqn:B1; [lia|].
  rewrite read_len_1. destruct (c2 <? 128) eqn:B2; [lia|].
  rewrite read_len_2. destruct (c3 <? 128) eqn:B3; [lia|].
  rewrite read_len_3. destruct (c4 <? 128) eqn:B4; [lia|]. reflexivity.
Qed.

(* a packet cut anywhere before its last byte *)
Lemma read_packet_trunc hd b x pre suf : pack hd b = Some x -> x = pre ++ suf -> suf <> [] ->
  exists e, (e = EEOF \/ e = EUnexpectedEOF) /\
    (read_packet pre = (RP_err e, None) \/ read_packet pre = (RP_err e, Some (len b))).
Proof.
  intros Hp Hx Hs. apply pack_inv in Hp. destruct Hp as (rl & Hrl & -> & Hb).
  destruct (read_len_varint _ _ Hrl) as (a & rl' & -> & Hread).
  destruct pre as [|p0 pre]. { exists EEOF. split; [left|left]; reflexivity. }
  destruct pre as [|p1 pre]. { exists EUnexpectedEOF. split; [right|left]; reflexivity. }
  cbn [app] in Hx. injection Hx as <- <- Hx.
  rewrite read_packet_cons2.
  apply app_eq_app in Hx. destruct Hx as (l & [[H1 H2] | [H1 H2]]).
  - destruct l as [|y l].
    + rewrite app_nil_r in H1. subst rl'. cbn [app] in H2. subst suf.
      rewrite <- (app_nil_r pre), Hread.
      destruct (read_full_trunc b [] b eq_refl Hs Hb) as (e & He & Hf).
      exists e. split; [exact He|]. right. rewrite Hf. reflexivity.
    + rewrite (read_len_varint_trunc _ _ _ _ _ Hrl H1) by discriminate.
      exists EEOF. split; [left|left]; reflexivity.
  - subst pre. rewrite Hread.
    destruct (read_full_trunc b l suf H2 Hs Hb) as (e & He & Hf).
    exists e. split; [exact He|]. right. rewrite Hf. reflexivity.
Qed.

(* ---------- the serve loop ---------- *)
Lemma serve_stream_no_panic f : forall h sb s, snd (serve_stream f h sb s) <> EndPanic.
Proof.
  induction f as [|f IH]; intros h sb s; cbn [serve_stream]; [discriminate|].
  pose proof (read_packet_no_panic s) as Hnp.
  destruct (read_packet s) as [r alloc]. cbn [fst] in Hnp.
  destruct r as [typ flag body rest|e|]; [|discriminate|congruence].
  pose proof (dispatch_no_panic h sb typ flag body) as Hd.
  destruct (dispatch h sb typ flag body) as [[sb' ev]|e|]; [|discriminate|congruence].
  specialize (IH h sb' rest). destruct (serve_stream f h sb' rest) as [evs e]. exact IH.
Qed.

Theorem serve_no_panic h s : snd (serve h s) <> EndPanic.
Proof. apply serve_stream_no_panic. Qed.

Lemma serve_stream_no_fuel f : forall h sb s, (length s < f)%nat -> snd (serve_stream f h sb s) <> EndFuel.
Proof.
  induction f as [|f IH]; intros h sb s Hl; [lia|]. cbn [serve_stream].
  destruct (read_packet s) as [r alloc] eqn:Erp.
  destruct r as [typ flag body rest|e|]; [|discriminate|discriminate].
  apply read_packet_shrinks in Erp.
  destruct (dispatch h sb typ flag body) as [[sb' ev]|e|]; [|discriminate|discriminate].
  assert (Hr : (length rest < f)%nat) by lia.
  specialize (IH h sb' rest Hr). destruct (serve_stream f h sb' rest) as [evs e]. exact IH.
Qed.

Theorem serve_fuel_sufficient h s : snd (serve h s) <> EndFuel.
Proof. apply serve_stream_no_fuel. lia. Qed.

Lemma al_bound s r alloc n : read_packet s = (r, alloc) ->
  In (EvAlloc n) (match alloc with Some m => [EvAlloc m] | None => [] end) -> n <= max_packet.
Proof.
  intros Erp Hin. destruct alloc as [m|]; [|destruct Hin].
  destruct Hin as [Hin|[]]. injection Hin as ->.
  apply (read_packet_alloc_bound s). rewrite Erp. reflexivity.
Qed.

Lemma serve_stream_alloc f : forall h sb s n,
  In (EvAlloc n) (fst (serve_stream f h sb s)) -> n <= max_packet.
Proof.
  induction f as [|f IH]; intros h sb s n; cbn [serve_stream]; [intros []|].
  destruct (read_packet s) as [r alloc] eqn:Erp.
  pose proof (al_bound s r alloc n Erp) as Hal.
  destruct r as [typ flag body rest|e|]; [|exact Hal|exact Hal].
  destruct (dispatch h sb typ flag body) as [[sb' ev]|e|] eqn:Ed; [|exact Hal|exact Hal].
  specialize (IH h sb' rest n). destruct (serve_stream f h sb' rest) as [evs e]. cbn [fst] in *.
  intros Hin. apply in_app_or in Hin. destruct Hin as [Hin|Hin]; [exact (Hal Hin)|].
  apply in_app_or in Hin. destruct Hin as [Hin|Hin]; [|exact (IH Hin)].
  exfalso. exact (dispatch_no_alloc _ _ _ _ _ _ _ Ed n Hin).
Qed.

Theorem serve_alloc_bound h s n : In (EvAlloc n) (fst (serve h s)) -> n <= max_packet.
Proof. apply serve_stream_alloc. Qed.

(* ---------- streams of frames ---------- *)
(* a stream of frames: (type, flags, body) *)
Definition frame := (N * N * list N)%type.
Definition frame_ok (f : frame) : Prop :=
  let '(t, fl, b) := f in t < 16 /\ fl < 16 /\ len b <= max_packet.

Fixpoint enc_frames (fs : list frame) : list N :=
  match fs with
  | [] => []
  | (t, fl, b) :: r => match pack (t * 16 + fl) b with Some x => x | None => [] end ++ enc_frames r
  end.

Definition well_formed (f : frame) : bool := let '(t, fl, b) := f in negb (malformed t fl b).

(* the fuelled loop does not depend on the fuel once it is enough *)
Theorem serve_stream_fuel h sb s f1 f2 : (length s < f1)%nat -> (length s < f2)%nat ->
  serve_stream f1 h sb s = serve_stream f2 h sb s.
Proof.
  revert f2 sb s. induction f1 as [|f1 IH]; intros f2 sb s H1 H2; [lia|].
  destruct f2 as [|f2]; [lia|]. cbn [serve_stream].
  destruct (read_packet s) as [r alloc] eqn:Erp.
  destruct r as [typ flag body rest|e|]; [|reflexivity|reflexivity].
  apply read_packet_shrinks in Erp.
  destruct (dispatch h sb typ flag body) as [[sb' ev]|e|]; [|reflexivity|reflexivity].
  rewrite (IH f2 sb' rest) by lia. reflexivity.
Qed.

Lemma serve_stream_frame f h sb t fl b x tail :
  t < 16 -> fl < 16 -> pack (t * 16 + fl) b = Some x ->
  serve_stream (S f) h sb (x ++ tail) =
    match dispatch h sb t fl b with
    | Ok (sb', ev) => let '(evs, e) := serve_stream f h sb' tail in ([EvAlloc (len b)] ++ ev ++ evs, e)
    | Err e => ([EvAlloc (len b)], EndErr e)
    | Panic => ([EvAlloc (len b)], EndPanic)
    end.
Proof.
  intros Ht Hf Hp. cbn [serve_stream]. rewrite (read_packet_frame t fl b x tail Ht Hf Hp). reflexivity.
Qed.

Lemma frame_ok_pack t fl b : frame_ok (t, fl, b) ->
  t < 16 /\ fl < 16 /\ exists x, pack (t * 16 + fl) b = Some x /\ (1 <= length x)%nat.
Proof.
  intros (Ht & Hf & Hb). split; [exact Ht|]. split; [exact Hf|].
  unfold max_packet in Hb. apply (pack_defined_iff (t * 16 + fl)) in Hb. destruct Hb as (x & Hx).
  exists x. split; [exact Hx|]. apply pack_inv in Hx. destruct Hx as (rl & _ & -> & _).
  cbn [length]. lia.
Qed.

(* the loop over a run of well-formed frames, then whatever follows *)
Lemma serve_frames h fs : Forall frame_ok fs -> forallb well_formed fs = true ->
  forall sb, exists evs sb', forall tail f, (length (enc_frames fs ++ tail) < f)%nat ->
    serve_stream f h sb (enc_frames fs ++ tail) =
      (evs ++ fst (serve_stream (S (length tail)) h sb' tail),
       snd (serve_stream (S (length tail)) h sb' tail)).
Proof.
  induction fs as [|[[t fl] b] fs IH]; intros HF HW sb.
  - exists [], sb. intros tail f Hl. cbn [enc_frames app] in *.
    rewrite (serve_stream_fuel h sb tail f (S (length tail))) by lia.
    destruct (serve_stream (S (length tail)) h sb tail) as [evs e]. reflexivity.
  - inversion HF as [|x0 l0 Hok HF']; subst x0 l0.
    cbn [forallb] in HW. apply andb_true_iff in HW. destruct HW as [Hw HW'].
    unfold well_formed in Hw. apply negb_true_iff in Hw.
    destruct (frame_ok_pack t fl b Hok) as (Ht & Hf & x & Hx & Hxl).
    destruct (dispatch_wellformed h sb t fl b Hw) as (sb1 & ev & Hd).
    destruct (IH HF' HW' sb1) as (evs & sb' & Hrest).
    exists ([EvAlloc (len b)] ++ ev ++ evs), sb'. intros tail f Hl.
    cbn [enc_frames] in *. rewrite Hx in *. rewrite <- app_assoc in *.
    destruct f as [|f]; [lia|].
    rewrite (serve_stream_frame f h sb t fl b x _ Ht Hf Hx), Hd.
    rewrite Hrest by (rewrite app_length in Hl; lia).
    rewrite <- !app_assoc. reflexivity.
Qed.

Lemma serve_frames_tail h fs : Forall frame_ok fs -> forallb well_formed fs = true ->
  snd (serve h (enc_frames fs)) = EndErr EEOF /\
  exists sb', forall tail,
    serve h (enc_frames fs ++ tail) =
      (fst (serve h (enc_frames fs)) ++ fst (serve_stream (S (length tail)) h sb' tail),
       snd (serve_stream (S (length tail)) h sb' tail)).
Proof.
  intros HF HW. destruct (serve_frames h fs HF HW []) as (evs & sb' & H).
  assert (H0 : serve h (enc_frames fs) = (evs, EndErr EEOF)).
  { unfold serve. pose proof (H [] (S (length (enc_frames fs)))) as H0.
    rewrite app_nil_r in H0. rewrite H0 by lia. cbn. rewrite app_nil_r. reflexivity. }
  split; [rewrite H0; reflexivity|].
  exists sb'. intros tail. rewrite H0. cbn [fst]. unfold serve. apply H. lia.
Qed.

(* well-formed frames followed by the end of the stream: every frame is dispatched, then io.EOF *)
Theorem serve_wellformed_then_eof h fs : Forall frame_ok fs -> forallb well_formed fs = true ->
  snd (serve h (enc_frames fs)) = EndErr EEOF.
Proof. intros HF HW. apply (serve_frames_tail h fs HF HW). Qed.

(* malformed packet after well-formed ones: the earlier packets are processed exactly as without
   it, the body of the malformed packet is read, and the loop ends with a protocol error *)
Theorem serve_prefix_then_malformed h fs t fl b rest :
  Forall frame_ok fs -> forallb well_formed fs = true ->
  frame_ok (t, fl, b) -> malformed t fl b = true ->
  exists e, protocol_error e /\
    serve h (enc_frames fs ++ enc_frames [(t, fl, b)] ++ rest)
    = (fst (serve h (enc_frames fs)) ++ [EvAlloc (len b)], EndErr e).
Proof.
  intros HF HW Hok Hm. destruct (serve_frames_tail h fs HF HW) as (_ & sb' & H).
  destruct (frame_ok_pack t fl b Hok) as (Ht & Hf & x & Hx & _).
  destruct (dispatch_malformed h sb' t fl b Hm) as (e & Hd & He).
  exists e. split; [exact He|]. rewrite H.
  cbn [enc_frames]. rewrite Hx, app_nil_r.
  rewrite (serve_stream_frame _ h sb' t fl b x rest Ht Hf Hx), Hd. reflexivity.
Qed.

(* over-long length field after well-formed packets *)
Theorem serve_prefix_then_overlong h fs hd c1 c2 c3 c4 rest :
  Forall frame_ok fs -> forallb well_formed fs = true ->
  128 <= c1 -> 128 <= c2 -> 128 <= c3 -> 128 <= c4 ->
  serve h (enc_frames fs ++ hd :: c1 :: c2 :: c3 :: c4 :: rest)
  = (fst (serve h (enc_frames fs)), EndErr EInvalidPacketLength).
Proof.
  intros HF HW H1 H2 H3 H4. destruct (serve_frames_tail h fs HF HW) as (_ & sb' & H).
  rewrite H. cbn [serve_stream]. rewrite (read_packet_overlong hd c1 c2 c3 c4 rest H1 H2 H3 H4).
  cbn [fst snd]. rewrite app_nil_r. reflexivity.
Qed.

(* truncation anywhere inside a packet: earlier packets processed, then EOF / unexpected EOF *)
Theorem serve_prefix_then_truncated h fs t fl b x pre suf :
  Forall frame_ok fs -> forallb well_formed fs = true -> frame_ok (t, fl, b) ->
  pack (t * 16 + fl) b = Some x -> x = pre ++ suf -> suf <> [] ->
  exists al e, (e = EEOF \/ e = EUnexpectedEOF) /\ (al = [] \/ al = [EvAlloc (len b)]) /\
    serve h (enc_frames fs ++ pre) = (fst (serve h (enc_frames fs)) ++ al, EndErr e).
Proof.
  intros HF HW Hok Hx Hsplit Hs. destruct (serve_frames_tail h fs HF HW) as (_ & sb' & H).
  destruct (read_packet_trunc _ b x pre suf Hx Hsplit Hs) as (e & He & [Hrp | Hrp]).
  - exists [], e. split; [exact He|]. split; [left; reflexivity|].
    rewrite H. cbn [serve_stream]. rewrite Hrp. reflexivity.
  - exists [EvAlloc (len b)], e. split; [exact He|]. split; [right; reflexivity|].
    rewrite H. cbn [serve_stream]. rewrite Hrp. reflexivity.
Qed.

(* ---------- every byte stream, classified ---------- *)
Lemma read_len_err k acc cur rest e : read_len k acc cur rest = Err e -> e = EEOF \/ e = EInvalidPacketLength.
Proof.
  revert k acc cur. induction rest as [|b r IH]; intros k acc cur; rewrite read_len_eq;
    destruct (cur <? 128); try discriminate; destruct (3 <=? k); try (intros H; injection H as <-; tauto).
  apply IH.
Qed.

Lemma read_full_err n s e : read_full n s = Err e -> e = EEOF \/ e = EUnexpectedEOF.
Proof.
  unfold read_full. destruct (2 ^ 47 <? n); [discriminate|]. destruct (n =? 0); [discriminate|].
  destruct s as [|x s]; [intros H; injection H as <-; tauto|].
  destruct (N.of_nat (length (x :: s)) <? n); [|discriminate]. intros H; injection H as <-; tauto.
Qed.

Lemma read_packet_err s e a : read_packet s = (RP_err e, a) ->
  e = EEOF \/ e = EUnexpectedEOF \/ e = EInvalidPacketLength.
Proof.
  destruct s as [|h [|l0 r]].
  - intros H. injection H as <- _. tauto.
  - intros H. injection H as <- _. tauto.
  - rewrite read_packet_cons2.
    destruct (read_len 0 0 l0 r) as [[n r1]|e0|] eqn:E; [| |discriminate].
    + destruct (read_full n r1) as [[body rest]|e1|] eqn:F; try discriminate.
      intros H. injection H as <- _. apply read_full_err in F. tauto.
    + intros H. injection H as <- _. apply read_len_err in E. tauto.
Qed.

(* for EVERY byte stream: the loop ends with a protocol error exactly when the stream, cut into
   frames, contains a malformed packet (or a fifth length byte); otherwise it runs until the
   stream ends (EOF, or unexpected EOF inside a truncated packet) *)
Theorem serve_stream_classified f : forall h sb s, (length s < f)%nat ->
  exists e, snd (serve_stream f h sb s) = EndErr e /\
    if stream_malformed f s then protocol_error e else (e = EEOF \/ e = EUnexpectedEOF).
Proof.
  induction f as [|f IH]; intros h sb s Hl; [lia|]. cbn [serve_stream stream_malformed].
  pose proof (read_packet_no_panic s) as Hnp.
  destruct (read_packet s) as [r alloc] eqn:Erp. cbn [fst] in *.
  destruct r as [typ flag body rest|e|]; [| |congruence].
  - pose proof (dispatch_classified h sb typ flag body) as Hc.
    apply read_packet_shrinks in Erp.
    destruct (malformed typ flag body); cbn [classifies orb] in *.
    + destruct Hc as (e & -> & He). exists e. split; [reflexivity | exact He].
    + destruct Hc as ([sb' ev] & ->).
      destruct (IH h sb' rest) as (e & He & Hcl); [lia|].
      destruct (serve_stream f h sb' rest) as [evs e1]. cbn [snd] in *. exists e. split; assumption.
  - exists e. split; [reflexivity|].
    destruct (read_packet_err _ _ _ Erp) as [-> | [-> | ->]];
      [left; reflexivity | right; reflexivity | apply pe2].
Qed.

Theorem serve_classified h s :
  exists e, snd (serve h s) = EndErr e /\
    if has_malformed s then protocol_error e else (e = EEOF \/ e = EUnexpectedEOF).
Proof. apply serve_stream_classified. lia. Qed.

(* ---------- normal processing of the well-formed packets, for every byte stream ---------- *)
Lemma sv_in_events_app a b : sv_in_events (a ++ b) = sv_in_events a ++ sv_in_events b.
Proof. unfold sv_in_events. apply flat_map_app. Qed.

Lemma sv_in_events_lift es : sv_in_events (lift_in es) = es.
Proof. induction es as [|e r IH]; [reflexivity|]. cbn. f_equal. exact IH. Qed.

Lemma sv_in_events_al (alloc : option N) :
  sv_in_events (match alloc with Some n => [EvAlloc n] | None => [] end) = [].
Proof. destruct alloc; reflexivity. Qed.

(* one well-formed packet: the loop's step is the step of Inbound.serve_in on the PUBLISH / PUBREL
   it carries, and nothing for the other types *)
Lemma dispatch_in_step h sb typ flag body sb' ev : malformed typ flag body = false ->
  dispatch h sb typ flag body = Ok (sb', ev) ->
  forall ps, sv_in_events ev ++ serve_in h sb' ps =
    serve_in h sb (match typ with
                   | 3 => match parse_publish flag body with Ok m => [InPublish m] | _ => [] end
                   | 6 => match body with hi :: lo :: _ => [InPubRel (hi * 256 + lo)] | _ => [] end
                   | _ => []
                   end ++ ps).
Proof.
  intros Hm.
  destruct (typ_cases typ) as [-> | [-> | [-> | [-> | [-> | [-> | [-> | [-> | [-> | [Hd _]]]]]]]]]];
    [ | | | | | | | | | rewrite Hd; discriminate ]; unfold dispatch; cbv beta iota.
  - destruct (parse_connack flag body); cbn [rbind]; try discriminate.
    intros H ps. injection H as <- <-. reflexivity.
  - destruct (parse_publish flag body) as [m|e|]; cbn [rbind]; try discriminate.
    destruct (serve_in_step h sb (InPublish m)) as [sb1 ev1] eqn:Es.
    intros H ps. injection H as <- <-. cbn [app serve_in]. rewrite Es, sv_in_events_lift. reflexivity.
  - destruct (parse_puback flag body); cbn [rbind]; try discriminate.
    intros H ps. injection H as <- <-. reflexivity.
  - destruct (parse_pubrec flag body); cbn [rbind]; try discriminate.
    intros H ps. injection H as <- <-. reflexivity.
  - unfold malformed in Hm. apply orb_false_iff in Hm. destruct Hm as [Hf Hl].
    destruct body as [|hi [|lo r]]; try discriminate Hl.
    unfold parse_pubrel, parse_id_only. rewrite Hf. cbv iota.
    change (Nat.ltb (length (hi :: lo :: r)) 2) with false. cbv iota.
    rewrite unpack_uint16_cons. cbn [rbind].
    destruct (serve_in_step h sb (InPubRel (hi * 256 + lo))) as [sb1 ev1] eqn:Es.
    intros H ps. injection H as <- <-. cbn [app serve_in]. rewrite Es, sv_in_events_lift. reflexivity.
  - destruct (parse_pubcomp flag body); cbn [rbind]; try discriminate.
    intros H ps. injection H as <- <-. reflexivity.
  - destruct (parse_suback flag body); cbn [rbind]; try discriminate.
    intros H ps. injection H as <- <-. reflexivity.
  - destruct (parse_unsuback flag body); cbn [rbind]; try discriminate.
    intros H ps. injection H as <- <-. reflexivity.
  - destruct (parse_pingresp flag body); cbn [rbind]; try discriminate.
    intros H ps. injection H as <- <-. reflexivity.
Qed.

Lemma serve_stream_in_events f : forall h sb s,
  sv_in_events (fst (serve_stream f h sb s)) = serve_in h sb (prefix_pkts f s).
Proof.
  induction f as [|f IH]; intros h sb s; cbn [serve_stream prefix_pkts]; [reflexivity|].
  destruct (read_packet s) as [r alloc]. cbn [fst].
  destruct r as [typ flag body rest|e|]; cbn [fst]; try apply sv_in_events_al.
  pose proof (dispatch_classified h sb typ flag body) as Hc.
  destruct (malformed typ flag body) eqn:Hm; cbn [classifies] in Hc.
  - destruct Hc as (e & -> & _). cbn [fst]. apply sv_in_events_al.
  - destruct Hc as ([sb' ev] & Hd). rewrite Hd.
    specialize (IH h sb' rest). destruct (serve_stream f h sb' rest) as [evs e1]. cbn [fst] in *.
    rewrite !sv_in_events_app, sv_in_events_al, IH. cbn [app].
    exact (dispatch_in_step h sb typ flag body sb' ev Hm Hd _).
Qed.

(* for EVERY byte stream: what the reader hands over and acknowledges is what the abstract
   receiver (Inbound.spec_run) prescribes for the well-formed PUBLISH / PUBREL packets that precede
   the first malformed packet — content included, and a QoS 2 message at its PUBREL whatever
   arrived in between *)
Theorem serve_processes_prefix_normally h s :
  sv_in_events (fst (serve h s)) = expected_events h s.
Proof.
  unfold serve, expected_events. rewrite serve_stream_in_events. apply Inbound_proofs.refines_spec.
Qed.

(* ---------- non-vacuity ---------- *)
Example ex_malformed_suback_short : malformed 9 0 [] = true.
Proof. reflexivity. Qed.
Example ex_wellformed_publish : malformed 3 2 [0; 1; 97; 0; 5; 9] = false.
Proof. reflexivity. Qed.
Example ex_serve_mixed :
  serve true ([48; 3; 0; 1; 97] ++ [144; 0]) =
  ([EvAlloc 3; EvIn (Hand {| m_topic := [97]; m_id := 0; m_qos := 0; m_retain := false; m_dup := false; m_payload := [] |});
    EvAlloc 0], EndErr EInvalidPacketLength).
Proof. vm_compute. reflexivity. Qed.

(* "e-acute, NUL", "cafe-acute/NUL/x", "FF NUL": U+0000 behind a multi-byte or an invalid byte *)
Example ex_nul_after_multibyte :
  parse_publish 0 [0; 3; 195; 169; 0] = Err EInvalidRune /\
  parse_publish 0 ([0; 9] ++ [99; 97; 102; 195; 169; 47; 0; 47; 120]) = Err EInvalidRune /\
  parse_publish 0 [0; 2; 255; 0] = Err EInvalidRune /\
  N.to_nat (0 * 256 + 3) = length ([195; 169] ++ 0 :: []).
Proof. repeat split. Qed.

Print Assumptions serve_no_panic.
Print Assumptions serve_prefix_then_malformed.
Print Assumptions serve_alloc_bound.
