(* Parse_proofs.v — for EVERY byte stream: the reader never panics, never asks make() for more
   than the protocol maximum, a malformed packet ends the loop with a protocol error, and the
   well-formed packets before it are processed exactly as without it. Plus the inverse direction
   of C05: a PUBLISH produced by the encoder is parsed back to the same message. *)
From MQ Require Import Base Codec Inbound Parse.
Open Scope N_scope.

(* ---------- no parser panics, whatever (flag, body) it is given ---------- *)

Theorem unpack_string_no_panic b : unpack_string b <> Panic.
Proof. Admitted.

Theorem parsers_no_panic flag body :
  parse_connack flag body <> Panic /\ parse_publish flag body <> Panic /\
  parse_puback flag body <> Panic /\ parse_pubrec flag body <> Panic /\
  parse_pubrel flag body <> Panic /\ parse_pubcomp flag body <> Panic /\
  parse_suback flag body <> Panic /\ parse_unsuback flag body <> Panic /\
  parse_pingresp flag body <> Panic.
Proof. Admitted.

Theorem dispatch_no_panic h sb typ flag body : dispatch h sb typ flag body <> Panic.
Proof. Admitted.

(* ---------- readPacket ---------- *)

Theorem read_packet_no_panic s : fst (read_packet s) <> RP_panic.
Proof. Admitted.

(* the body buffer requested from make() never exceeds the protocol maximum *)
Theorem read_packet_alloc_bound s n : snd (read_packet s) = Some n -> n <= max_packet.
Proof. Admitted.

(* a frame produced with the encoder's length field is read back exactly, for every body length
   the protocol allows *)
Theorem read_packet_frame typ flag body b rest : typ < 16 -> flag < 16 ->
  pack (typ * 16 + flag) body = Some b ->
  read_packet (b ++ rest) = (RP_ok typ flag body rest, Some (len body)).
Proof. Admitted.

(* a length field whose fourth byte still has the continuation bit is rejected *)
Theorem read_packet_overlong h c1 c2 c3 c4 rest :
  128 <= c1 -> 128 <= c2 -> 128 <= c3 -> 128 <= c4 ->
  read_packet (h :: c1 :: c2 :: c3 :: c4 :: rest) = (RP_err EInvalidPacketLength, None).
Proof. Admitted.

(* ---------- the serve loop ---------- *)

Theorem serve_no_panic h s : snd (serve h s) <> EndPanic.
Proof. Admitted.

Theorem serve_fuel_sufficient h s : snd (serve h s) <> EndFuel.
Proof. Admitted.

Theorem serve_alloc_bound h s n : In (EvAlloc n) (fst (serve h s)) -> n <= max_packet.
Proof. Admitted.

(* ---------- malformed packets, as the property lists them (independent of the parsers) ---------- *)

(* the length-prefixed topic at the front of a PUBLISH body, if the body is long enough *)
Definition topic_of (body : list N) : option (list N * list N) :=
  match body with
  | hi :: lo :: r =>
      let n := N.to_nat (hi * 256 + lo) in
      if Nat.leb n (length r) then Some (firstn n r, skipn n r) else None
  | _ => None
  end.

Definition malformed (typ flag : N) (body : list N) : bool :=
  match typ with
  | 2 => negb (flag =? 0) || negb (Nat.eqb (length body) 2)             (* CONNACK: flags 0, length 2 *)
  | 3 => let q := (flag / 2) mod 4 in
         (q =? 3)                                                        (* QoS 3 *)
         || match topic_of body with
            | None => true                                               (* body shorter than its topic *)
            | Some (t, r) => existsb (N.eqb 0) t                         (* U+0000 in the topic *)
                             || (negb (q =? 0) && Nat.ltb (length r) 2)  (* no room for the identifier *)
            end
  | 4 | 5 | 7 | 9 | 11 => negb (flag =? 0) || Nat.ltb (length body) 2    (* illegal flags / short body *)
  | 6 => negb (flag =? 2) || Nat.ltb (length body) 2
  | 13 => negb (flag =? 0)
  | _ => true                                                            (* unknown or client-to-server type *)
  end.

Definition protocol_error (e : perr) : Prop :=
  e = EInvalidPacket \/ e = EInvalidPacketLength \/ e = EInvalidRune.

Theorem dispatch_malformed h sb typ flag body : malformed typ flag body = true ->
  exists e, dispatch h sb typ flag body = Err e /\ protocol_error e.
Proof. Admitted.

Theorem dispatch_wellformed h sb typ flag body : malformed typ flag body = false ->
  exists sb' ev, dispatch h sb typ flag body = Ok (sb', ev).
Proof. Admitted.

(* a stream of frames: (type, flags, body) *)
Definition frame := (N * N * list N)%type.
Definition frame_ok (f : frame) : Prop :=
  let '(t, fl, b) := f in t < 16 /\ fl < 16 /\ len b <= max_packet.

Fixpoint enc_frames (fs : list frame) : list N :=
  match fs with
  | [] => []
  | (t, fl, b) :: r => match pack (t * 16 + fl) b with Some x => x | None => [] end ++ enc_frames r
  end.

Definition well_formed (f : frame) : bool := let '(t, fl, b) := f in negb (malformed t fl b).

(* the fuelled loop does not depend on the fuel once it is enough *)
Theorem serve_stream_fuel h sb s f1 f2 : (length s < f1)%nat -> (length s < f2)%nat ->
  serve_stream f1 h sb s = serve_stream f2 h sb s.
Proof. Admitted.

(* well-formed frames followed by the end of the stream: every frame is dispatched, then io.EOF *)
Theorem serve_wellformed_then_eof h fs : Forall frame_ok fs -> forallb well_formed fs = true ->
  snd (serve h (enc_frames fs)) = EndErr EEOF.
Proof. Admitted.

(* malformed packet after well-formed ones: the earlier packets are processed exactly as without
   it, the body of the malformed packet is read, and the loop ends with a protocol error *)
Theorem serve_prefix_then_malformed h fs t fl b rest :
  Forall frame_ok fs -> forallb well_formed fs = true ->
  frame_ok (t, fl, b) -> malformed t fl b = true ->
  exists e, protocol_error e /\
    serve h (enc_frames fs ++ enc_frames [(t, fl, b)] ++ rest)
    = (fst (serve h (enc_frames fs)) ++ [EvAlloc (len b)], EndErr e).
Proof. Admitted.

(* over-long length field after well-formed packets *)
Theorem serve_prefix_then_overlong h fs hd c1 c2 c3 c4 rest :
  Forall frame_ok fs -> forallb well_formed fs = true ->
  128 <= c1 -> 128 <= c2 -> 128 <= c3 -> 128 <= c4 ->
  serve h (enc_frames fs ++ hd :: c1 :: c2 :: c3 :: c4 :: rest)
  = (fst (serve h (enc_frames fs)), EndErr EInvalidPacketLength).
Proof. Admitted.

(* truncation anywhere inside a packet: earlier packets processed, then EOF / unexpected EOF *)
Theorem serve_prefix_then_truncated h fs t fl b x pre suf :
  Forall frame_ok fs -> forallb well_formed fs = true -> frame_ok (t, fl, b) ->
  pack (t * 16 + fl) b = Some x -> x = pre ++ suf -> suf <> [] ->
  exists al e, (e = EEOF \/ e = EUnexpectedEOF) /\ (al = [] \/ al = [EvAlloc (len b)]) /\
    serve h (enc_frames fs ++ pre) = (fst (serve h (enc_frames fs)) ++ al, EndErr e).
Proof. Admitted.

(* ---------- non-vacuity ---------- *)
Example ex_malformed_suback_short : malformed 9 0 [] = true.
Proof. reflexivity. Qed.
Example ex_wellformed_publish : malformed 3 2 [0; 1; 97; 0; 5; 9] = false.
Proof. reflexivity. Qed.
Example ex_serve_mixed :
  serve true ([48; 3; 0; 1; 97] ++ [144; 0]) =
  ([EvAlloc 3; EvIn (Hand {| m_topic := [97]; m_id := 0; m_qos := 0; m_retain := false; m_dup := false; m_payload := [] |});
    EvAlloc 0], EndErr EInvalidPacketLength).
Proof. vm_compute. reflexivity. Qed.
