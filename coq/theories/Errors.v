(* Errors.v — model of error values and of the code that builds and inspects them:
     error.go      Error, Error.Is (84-121), Unwrap, wrapErrorImpl (123-141), wrapError, wrapErrorf,
                   wrapErrorWithRetry (151-157), errorWithRetry, RequestTimeoutError (+Unwrap)
     connect.go    ConnectionError (170-182), Connect's error returns (106-164)
     retryclient.go requestContext.Err (379-381), Ping (257-264), Connect (418-439)
     publish.go    publishImpl (132-227) with the closures retryPublish / retryPublish2
     subscribe.go  subscribeImpl (68-110), unsubscribe.go unsubscribeImpl (44-78), pingreq.go Ping
   and of the Go standard library functions errors.Is / errors.As (Go 1.23, errors/wrap.go).

   An error value is a tree. Every allocated wrapper carries an identity (a nat standing for the
   pointer), because Error.Is and errors.Is compare interface values with ==: two pointers are
   equal iff they are the same allocation, two sentinels iff they are the same sentinel.
   Closures (retryFn) are defunctionalised into [handle].
   errors.Is in Go 1.23 also follows `Unwrap() []error`; no type of the library (and none of the
   model) has that method, so the branch is not modelled. *)
From MQ Require Import Base Codec.
Open Scope N_scope.

(* ---------- sentinels: package-level error values, compared by identity ---------- *)
Inductive sentinel :=
| SClosedTransport | SInvalidPacket | SInvalidPacketLength | SPayloadLenExceeded | SInvalidQoS
| SNotConnected | SInvalidSubAck | SConnectionFailed | SPingTimeout | SClosedClient
| SKeepAliveDisabled | SInvalidRune
| SEOF                      (* io.EOF *)
| SCanceled                 (* context.Canceled *)
| SDeadlineExceeded         (* context.DeadlineExceeded (a comparable struct value, not a pointer) *)
| SOther (n : N).           (* any other errors.New value (user / transport errors) *)

Definition sentinel_code (s : sentinel) : N :=
  match s with
  | SClosedTransport => 0 | SInvalidPacket => 1 | SInvalidPacketLength => 2 | SPayloadLenExceeded => 3
  | SInvalidQoS => 4 | SNotConnected => 5 | SInvalidSubAck => 6 | SConnectionFailed => 7
  | SPingTimeout => 8 | SClosedClient => 9 | SKeepAliveDisabled => 10 | SInvalidRune => 11
  | SEOF => 12 | SCanceled => 13 | SDeadlineExceeded => 14 | SOther n => 15 + n
  end.
Definition sentinel_eqb (a b : sentinel) : bool := sentinel_code a =? sentinel_code b.

Definition documented_sentinels : list sentinel :=
  [SClosedTransport; SInvalidPacket; SInvalidPacketLength; SPayloadLenExceeded; SInvalidQoS;
   SNotConnected; SInvalidSubAck; SConnectionFailed; SPingTimeout; SClosedClient;
   SKeepAliveDisabled; SInvalidRune; SEOF; SCanceled; SDeadlineExceeded].

(* ---------- retry closures, defunctionalised ---------- *)
Definition subs_t := list (str * N).
Inductive handle :=
| HRetryPublish (m : message)          (* publish.go:167  func(ctx, cli) { publishImpl(ctx, cli, message, true) } *)
| HRetryPublish2 (m : message)         (* publish.go:197  the PUBREL/PUBCOMP half, recursive closure *)
| HRetrySubscribe (subs : subs_t)      (* subscribe.go:86 *)
| HRetryUnsubscribe (topics : list str). (* unsubscribe.go:62 *)

(* ---------- error values ---------- *)
Inductive err :=
| ENil
| ESent (s : sentinel)
| ELib (id : nat) (e : err)                     (* *mqtt.Error{Err: e}: Unwrap, Is *)
| EFmt (id : nat) (e : err)                     (* fmt.Errorf("...%w", e): Unwrap only *)
| EConn (id : nat) (code : N) (e : err)         (* *ConnectionError{Err: e}: Unwrap only *)
| EWithRetry (id lid : nat) (e : err) (h : handle)
      (* *errorWithRetry{errorInterface: &Error{Err: e} (identity lid), retryFn: h}; Error, Unwrap and
         Is are promoted from the embedded *Error, so Unwrap() yields e, not the embedded *Error *)
| EReqTimeout (id : nat) (e : err)              (* *RequestTimeoutError{e}: Unwrap (fix ec227d2) *)
| EPtrErrField (id : nat) (e : err)             (* foreign pointer-to-struct with exported field Err error, no Unwrap *)
| EPtrNoErr (id : nat)                          (* foreign pointer-to-struct, no Unwrap, no Err field *)
| EPtrErrNotError (id : nat)                    (* foreign pointer-to-struct whose field Err is not an error *)
| EVal (k : N)                                  (* foreign comparable non-pointer value *)
| EPtrNonStruct (id : nat)                      (* foreign pointer to a non-struct (or a typed nil pointer): reflect panics *)
| EUncmp (k : N).                               (* foreign value of a non-comparable type (all of one Go type) *)

(* Go's == on two error interface values *)
Inductive cmp := CTrue | CFalse | CPanic.
Definition cmp_of_bool (b : bool) : cmp := if b then CTrue else CFalse.

Definition go_eq (a b : err) : cmp :=
  match a, b with
  | ENil, ENil => CTrue
  | ESent x, ESent y => cmp_of_bool (sentinel_eqb x y)
  | ELib i _, ELib j _ => cmp_of_bool (Nat.eqb i j)
  | EFmt i _, EFmt j _ => cmp_of_bool (Nat.eqb i j)
  | EConn i _ _, EConn j _ _ => cmp_of_bool (Nat.eqb i j)
  | EWithRetry i _ _ _, EWithRetry j _ _ _ => cmp_of_bool (Nat.eqb i j)
  | EReqTimeout i _, EReqTimeout j _ => cmp_of_bool (Nat.eqb i j)
  | EPtrErrField i _, EPtrErrField j _ => cmp_of_bool (Nat.eqb i j)
  | EPtrNoErr i, EPtrNoErr j => cmp_of_bool (Nat.eqb i j)
  | EPtrErrNotError i, EPtrErrNotError j => cmp_of_bool (Nat.eqb i j)
  | EVal x, EVal y => cmp_of_bool (x =? y)
  | EPtrNonStruct i, EPtrNonStruct j => cmp_of_bool (Nat.eqb i j)
  | EUncmp _, EUncmp _ => CPanic          (* runtime error: comparing uncomparable type *)
  | _, _ => CFalse                         (* different dynamic types *)
  end.

Definition comparable (t : err) : bool := match t with EUncmp _ => false | _ => true end.
Definition is_nil (e : err) : bool := match e with ENil => true | _ => false end.

Inductive res := RTrue | RFalse | RPanic.
Definition res_of_bool (b : bool) : res := if b then RTrue else RFalse.
Definition res_eqb (a b : res) : bool :=
  match a, b with RTrue, RTrue | RFalse, RFalse | RPanic, RPanic => true | _, _ => false end.

(* ---------- Error.Is (error.go:86-121) ---------- *)
(* the `for` loop, lines 95-120; [e] is the loop variable err *)
Fixpoint lib_walk (e t : err) : res :=
  match e with
  | ENil => RFalse                                           (* case nil: return false *)
  | _ =>
    match go_eq e t with
    | CPanic => RPanic
    | CTrue => RTrue                                         (* case target: return true *)
    | CFalse =>
      match e with
      | ELib _ e' | EFmt _ e' | EConn _ _ e' | EReqTimeout _ e' | EWithRetry _ _ e' _ =>
          lib_walk e' t                                      (* err = x.Unwrap() *)
      | EPtrErrField _ e' => lib_walk e' t                   (* Kind()==Ptr, FieldByName("Err") valid, is an error *)
      | EPtrNonStruct _ => RPanic                            (* reflect.Value.FieldByName on a non-struct / zero Value *)
      | _ => RFalse                                          (* no Unwrap, no usable Err field *)
      end
    end
  end.

(* the method itself for the receiver &Error{Err: e} with identity id *)
Definition lib_is (id : nat) (e t : err) : res :=
  match go_eq t (ELib id e) with                             (* switch target { case e: return true *)
  | CTrue => RTrue
  | _ =>
    if is_nil t then res_of_bool (is_nil e)                  (* case nil: return err == nil *)
    else lib_walk e t
  end.

(* ---------- errors.Is (Go 1.23 errors/wrap.go: Is, is) ---------- *)
Definition res_or_else (r : res) (k : res) : res :=
  match r with RTrue => RTrue | RPanic => RPanic | RFalse => k end.

Fixpoint is_loop (cmpb : bool) (e t : err) : res :=
  match (if cmpb then go_eq e t else CFalse) with            (* if targetComparable && err == target *)
  | CTrue => RTrue
  | _ =>
    match e with
    | ELib id e' =>                                          (* has Is: x.Is(target); then Unwrap *)
        res_or_else (lib_is id e' t) (if is_nil e' then RFalse else is_loop cmpb e' t)
    | EWithRetry _ lid e' _ =>                               (* promoted Is and Unwrap of the embedded *Error *)
        res_or_else (lib_is lid e' t) (if is_nil e' then RFalse else is_loop cmpb e' t)
    | EFmt _ e' | EConn _ _ e' | EReqTimeout _ e' =>
        if is_nil e' then RFalse else is_loop cmpb e' t
    | _ => RFalse
    end
  end.

Definition errors_is (e t : err) : res :=
  if is_nil e || is_nil t then res_of_bool (is_nil e && is_nil t)   (* return err == target *)
  else is_loop (comparable t) e t.

(* ---------- errors.As for the types the library documents ---------- *)
Inductive askind := AsReqTimeout | AsWithRetry | AsConn | AsLib.
Definition type_matches (k : askind) (e : err) : bool :=
  match k, e with
  | AsReqTimeout, EReqTimeout _ _ => true
  | AsWithRetry, EWithRetry _ _ _ _ => true     (* the only type with a Retry method *)
  | AsConn, EConn _ _ _ => true
  | AsLib, ELib _ _ => true
  | _, _ => false
  end.
Fixpoint errors_as (k : askind) (e : err) : bool :=
  match e with
  | ENil => false
  | _ =>
    if type_matches k e then true
    else match e with
         | ELib _ e' | EFmt _ e' | EConn _ _ e' | EReqTimeout _ e' | EWithRetry _ _ e' _ => errors_as k e'
         | _ => false
         end
  end.

(* calling the exported method directly: err.(interface{ Is(error) bool }).Is(target); None when the
   value has no Is method ( *Error has it, *errorWithRetry gets it promoted) *)
Definition method_is (e t : err) : option res :=
  match e with
  | ELib id e' => Some (lib_is id e' t)
  | EWithRetry _ lid e' _ => Some (lib_is lid e' t)
  | _ => None
  end.

(* err.(ErrorWithRetry): what RetryClient does (retryclient.go:155,193,222,471) *)
Definition implements_retry (e : err) : bool := match e with EWithRetry _ _ _ _ => true | _ => false end.
Definition retry_handle (e : err) : option handle := match e with EWithRetry _ _ _ h => Some h | _ => None end.
Definition is_bare_eof (e : err) : bool := match e with ESent SEOF => true | _ => false end.

(* err.Error() panics: Error (error.go:74), ConnectionError (connect.go) and RequestTimeoutError
   (error.go:50) call Error() of the error they hold, a nil one included; errorWithRetry promotes
   Error's. fmt.Errorf renders its text when the wrapper is made and recovers panics of the wrapped
   value's Error method, so a %w wrapper never panics later. The foreign types of the harness do not
   call their inner error. *)
Fixpoint error_panics (e : err) : bool :=
  match e with
  | ELib _ e' | EConn _ _ e' | EReqTimeout _ e' | EWithRetry _ _ e' _ => is_nil e' || error_panics e'
  | _ => false
  end.

(* ---------- wrapErrorImpl / wrapError / wrapErrorf / wrapErrorWithRetry ---------- *)
(* [id] is the identity of the *Error allocated at error.go:135 *)
Definition wrap_error_impl (id : nat) (e : err) : err :=
  match go_eq e (ESent SEOF) with
  | CTrue => ESent SEOF                                      (* case io.EOF: return io.EOF *)
  | _ => match go_eq e ENil with
         | CTrue => ENil                                     (* case nil: return nil *)
         | _ => ELib id e
         end
  end.
Definition wrap_error := wrap_error_impl.

(* [id] = identity of the *errorWithRetry, [S id] = identity of the embedded *Error *)
Definition wrap_with_retry (id : nat) (e : err) (h : handle) : err :=
  match wrap_error_impl (S id) e with
  | ELib lid e' => EWithRetry id lid e' h                    (* if err, ok := err2.( *Error ); ok *)
  | e2 => e2
  end.

(* requestContext.Err (retryclient.go:379): always a fresh RequestTimeoutError around the inner Err() *)
Definition request_ctx_err (id : nat) (inner : err) : err := EReqTimeout id inner.

(* ---------- the request paths that return retryable errors ---------- *)
Inductive wkind := WkPubAck | WkPubRec | WkPubComp | WkSubAck | WkUnsubAck.
Inductive pkt :=
| PPublish (m : message)
| PPubRel (id : N)
| PSubscribe (id : N) (subs : subs_t)
| PUnsubscribe (id : N) (topics : list str).
Inductive event :=
| EvReg (c : nat) (k : wkind) (id : N)     (* waiter channel stored in the signaller of client c *)
| EvWrite (c : nat) (p : pkt).             (* c.write(pkt) called (whether or not it succeeds) *)

Inductive wres := WOk | WFail (cause : err).                 (* Transport.Write *)
Inductive sres := SAck | SClosed | SCtx (cause : err).       (* which arm of the select fires *)
Record script := { sc_w1 : wres; sc_s1 : sres; sc_w2 : wres; sc_s2 : sres }.

Record client := { cl_name : nat; cl_connected : bool }.     (* connected: c.sig != nil *)

Inductive rres := Ret (e : err) | GoPanic.

Definition set_id (m : message) (id : N) : message :=
  {| m_topic := m_topic m; m_id := id; m_qos := m_qos m; m_retain := m_retain m; m_dup := m_dup m; m_payload := m_payload m |}.
Definition set_dup (m : message) (d : bool) : message :=
  {| m_topic := m_topic m; m_id := m_id m; m_qos := m_qos m; m_retain := m_retain m; m_dup := d; m_payload := m_payload m |}.

Definition assign_id (m : message) (nid : N) : message := if m_id m =? 0 then set_id m nid else m.

(* retryPublish2 (publish.go:197-223); [eid] = next free error identity *)
Definition retry_publish2 (eid : nat) (c : client) (m : message) (w : wres) (s : sres) : list event * rres :=
  if negb (cl_connected c) then ([], Ret (ESent SNotConnected))            (* cli.signaller() *)
  else
    let tr := [EvReg (cl_name c) WkPubComp (m_id m); EvWrite (cl_name c) (PPubRel (m_id m))] in
    match w with
    | WFail e => (tr, Ret (wrap_with_retry eid e (HRetryPublish2 m)))                         (* :213 *)
    | WOk =>
      match s with
      | SClosed => (tr, Ret (wrap_with_retry eid (ESent SClosedTransport) (HRetryPublish2 m))) (* :217 *)
      | SCtx e => (tr, Ret (wrap_with_retry eid e (HRetryPublish2 m)))                         (* :219 *)
      | SAck => (tr, Ret ENil)
      end
    end.

(* publishImpl (publish.go:132-227); [nid] = what c.newID() would return *)
Definition publish_impl (eid : nat) (c : client) (nid : N) (m0 : message) (dup : bool) (sc : script)
  : list event * rres :=
  let m1 := assign_id m0 nid in                                             (* :136 *)
  let m := set_dup m1 dup in                                                (* :139 *)
  if negb (cl_connected c) then ([], Ret (ESent SNotConnected))             (* :141 *)
  else if 2 <? m_qos m then ([], GoPanic)                                   (* Pack: panic("invalid QoS") *)
  else
    let reg := if m_qos m =? 1 then [EvReg (cl_name c) WkPubAck (m_id m)]
               else if m_qos m =? 2 then [EvReg (cl_name c) WkPubRec (m_id m)] else [] in
    let tr := reg ++ [EvWrite (cl_name c) (PPublish m)] in
    match sc_w1 sc with
    | WFail e =>
        if 0 <? m_qos m then (tr, Ret (wrap_with_retry eid e (HRetryPublish m)))              (* :174 *)
        else (tr, Ret (wrap_error eid e))                                                     (* :176 *)
    | WOk =>
      if m_qos m =? 1 then
        match sc_s1 sc with
        | SClosed => (tr, Ret (wrap_with_retry eid (ESent SClosedTransport) (HRetryPublish m))) (* :182 *)
        | SCtx e => (tr, Ret (wrap_with_retry eid e (HRetryPublish m)))                        (* :184 *)
        | SAck => (tr, Ret ENil)
        end
      else if m_qos m =? 2 then
        match sc_s1 sc with
        | SClosed => (tr, Ret (wrap_with_retry eid (ESent SClosedTransport) (HRetryPublish m))) (* :190 *)
        | SCtx e => (tr, Ret (wrap_with_retry eid e (HRetryPublish m)))                        (* :192 *)
        | SAck =>
            let '(tr2, r) := retry_publish2 eid c m (sc_w2 sc) (sc_s2 sc) in                  (* :224 *)
            (tr ++ tr2, r)
        end
      else (tr, Ret ENil)
    end.

(* subscribeImpl (subscribe.go:68-110) with a SUBACK carrying the right number of codes *)
Definition subscribe_impl (eid : nat) (c : client) (nid : N) (subs : subs_t) (sc : script) : list event * rres :=
  if negb (cl_connected c) then ([], Ret (ESent SNotConnected))
  else if existsb (fun s => 2 <? snd s) subs then ([], GoPanic)            (* Pack: panic("invalid QoS") *)
  else
    let tr := [EvReg (cl_name c) WkSubAck nid; EvWrite (cl_name c) (PSubscribe nid subs)] in
    match sc_w1 sc with
    | WFail e => (tr, Ret (wrap_with_retry eid e (HRetrySubscribe subs)))                     (* :93 *)
    | WOk =>
      match sc_s1 sc with
      | SClosed => (tr, Ret (wrap_with_retry eid (ESent SClosedTransport) (HRetrySubscribe subs))) (* :97 *)
      | SCtx e => (tr, Ret (wrap_with_retry eid e (HRetrySubscribe subs)))                    (* :99 *)
      | SAck => (tr, Ret ENil)
      end
    end.

(* unsubscribeImpl (unsubscribe.go:44-78) *)
Definition unsubscribe_impl (eid : nat) (c : client) (nid : N) (topics : list str) (sc : script) : list event * rres :=
  if negb (cl_connected c) then ([], Ret (ESent SNotConnected))
  else
    let tr := [EvReg (cl_name c) WkUnsubAck nid; EvWrite (cl_name c) (PUnsubscribe nid topics)] in
    match sc_w1 sc with
    | WFail e => (tr, Ret (wrap_with_retry eid e (HRetryUnsubscribe topics)))                 (* :68 *)
    | WOk =>
      match sc_s1 sc with
      | SClosed => (tr, Ret (wrap_with_retry eid (ESent SClosedTransport) (HRetryUnsubscribe topics))) (* :72 *)
      | SCtx e => (tr, Ret (wrap_with_retry eid e (HRetryUnsubscribe topics)))                (* :74 *)
      | SAck => (tr, Ret ENil)
      end
    end.

(* errorWithRetry.Retry (error.go:40): apply the closure to the client it is given *)
Definition run_handle (eid : nat) (c : client) (nid : N) (h : handle) (sc : script) : list event * rres :=
  match h with
  | HRetryPublish m => publish_impl eid c nid m true sc
  | HRetryPublish2 m => retry_publish2 eid c m (sc_w1 sc) (sc_s1 sc)
  | HRetrySubscribe subs => subscribe_impl eid c nid subs sc
  | HRetryUnsubscribe topics => unsubscribe_impl eid c nid topics sc
  end.

(* the requests of the property *)
Inductive request :=
| RqPublish (m : message)
| RqSubscribe (subs : subs_t)
| RqUnsubscribe (topics : list str).

(* BaseClient.Publish / Subscribe / Unsubscribe (the validation of Publish is ValidateMessage,
   modelled in Codec.validate_message; requests here are already valid) *)
Definition run_request (eid : nat) (c : client) (nid : N) (r : request) (sc : script) : list event * rres :=
  match r with
  | RqPublish m => publish_impl eid c nid m false sc
  | RqSubscribe subs => subscribe_impl eid c nid subs sc
  | RqUnsubscribe topics => unsubscribe_impl eid c nid topics sc
  end.

(* one attempt = the client it runs on, the identifier that client's counter would hand out, and
   what happens at each step *)
Record attempt := { at_client : client; at_nid : N; at_script : script }.

Record attempt_obs := { ao_client : nat; ao_events : list event; ao_result : rres }.

(* the first call, then Retry of each returned handle on the next client, as long as the
   previous attempt returned an ErrorWithRetry *)
Fixpoint run_retries (eid : nat) (h : handle) (ats : list attempt) : list attempt_obs :=
  match ats with
  | [] => []
  | a :: rest =>
      let '(tr, r) := run_handle eid (at_client a) (at_nid a) h (at_script a) in
      {| ao_client := cl_name (at_client a); ao_events := tr; ao_result := r |} ::
      match r with
      | Ret e => match retry_handle e with
                 | Some h' => run_retries (eid + 2) h' rest
                 | None => []
                 end
      | GoPanic => []
      end
  end.

Definition run_attempts (eid : nat) (r : request) (ats : list attempt) : list attempt_obs :=
  match ats with
  | [] => []
  | a :: rest =>
      let '(tr, rr) := run_request eid (at_client a) (at_nid a) r (at_script a) in
      {| ao_client := cl_name (at_client a); ao_events := tr; ao_result := rr |} ::
      match rr with
      | Ret e => match retry_handle e with
                 | Some h => run_retries (eid + 2) h rest
                 | None => []
                 end
      | GoPanic => []
      end
  end.

(* ---------- the other calls whose errors the property speaks about ---------- *)
Inductive reqkind := KPub0 | KPub1 | KPub2 | KSub | KUnsub | KPing | KConnect.
Inductive fstep := FWrite1 | FClosed1 | FCtx1 | FWrite2 | FClosed2 | FCtx2.

Definition script_of (f : fstep) (cause : err) : script :=
  match f with
  | FWrite1 => {| sc_w1 := WFail cause; sc_s1 := SAck; sc_w2 := WOk; sc_s2 := SAck |}
  | FClosed1 => {| sc_w1 := WOk; sc_s1 := SClosed; sc_w2 := WOk; sc_s2 := SAck |}
  | FCtx1 => {| sc_w1 := WOk; sc_s1 := SCtx cause; sc_w2 := WOk; sc_s2 := SAck |}
  | FWrite2 => {| sc_w1 := WOk; sc_s1 := SAck; sc_w2 := WFail cause; sc_s2 := SAck |}
  | FClosed2 => {| sc_w1 := WOk; sc_s1 := SAck; sc_w2 := WOk; sc_s2 := SClosed |}
  | FCtx2 => {| sc_w1 := WOk; sc_s1 := SAck; sc_w2 := WOk; sc_s2 := SCtx cause |}
  end.

(* BaseClient.Ping (pingreq.go:23-53) *)
Definition ping_impl (eid : nat) (c : client) (sc : script) : err :=
  if negb (cl_connected c) then ESent SNotConnected
  else match sc_w1 sc with
       | WFail e => wrap_error eid e
       | WOk => match sc_s1 sc with
                | SClosed => wrap_error eid (ESent SClosedTransport)
                | SCtx e => wrap_error eid e
                | SAck => ENil
                end
       end.

(* BaseClient.Connect after the options were applied (connect.go:146-163), CONNACK accepted *)
Definition connect_impl (eid : nat) (sc : script) : err :=
  match sc_w1 sc with
  | WFail e => wrap_error eid e                                 (* :147 *)
  | WOk => match sc_s1 sc with
           | SClosed => ESent SClosedTransport                  (* :151 — not wrapped *)
           | SCtx e => wrap_error eid e                         (* :153 *)
           | SAck => ENil
           end
  end.

Definition canon_msg (q : N) : message :=
  {| m_topic := [116]; m_id := 0; m_qos := q; m_retain := false; m_dup := false; m_payload := [1] |}.
Definition conn_client : client := {| cl_name := 0%nat; cl_connected := true |}.

Definition ret_err (r : list event * rres) : err := match snd r with Ret e => e | GoPanic => ENil end.

(* the error a BaseClient request of kind k returns when interrupted according to sc (the request
   contents do not influence the error's chain) *)
Definition req_error (eid : nat) (k : reqkind) (sc : script) : err :=
  match k with
  | KPub0 => ret_err (publish_impl eid conn_client 1 (canon_msg 0) false sc)
  | KPub1 => ret_err (publish_impl eid conn_client 1 (canon_msg 1) false sc)
  | KPub2 => ret_err (publish_impl eid conn_client 1 (canon_msg 2) false sc)
  | KSub => ret_err (subscribe_impl eid conn_client 1 [([116], 1)] sc)
  | KUnsub => ret_err (unsubscribe_impl eid conn_client 1 [[116]] sc)
  | KPing => ping_impl eid conn_client sc
  | KConnect => connect_impl eid sc
  end.

(* RetryClient.queueRetry (retryclient.go): the retransmission runs under c.requestContext(ctx), so a
   ResponseTimeout expiring on it is reported by that context's Err() = RequestTimeoutError *)
Definition retx_ctx_err (id : nat) : err := request_ctx_err id (ESent SDeadlineExceeded).

(* n+1 consecutive retransmissions of handle h, each on a fresh connected client whose broker never
   answers: RetryClient.Retry calls the queued closure, the error goes to OnError and its handle is
   queued again by queueRetry *)
Fixpoint retx_rounds (eid : nat) (ceid : nat) (h : handle) (n : nat) : err :=
  match snd (run_handle eid conn_client 1 h (script_of FCtx1 (retx_ctx_err ceid))) with
  | GoPanic => ENil
  | Ret e =>
    match n with
    | O => e
    | S n' => match retry_handle e with
              | Some h' => retx_rounds (eid + 2) ceid h' n'
              | None => e
              end
    end
  end.

Definition canon_request (k : reqkind) : option request :=
  match k with
  | KPub1 => Some (RqPublish (canon_msg 1))
  | KPub2 => Some (RqPublish (canon_msg 2))
  | KSub => Some (RqSubscribe [([116], 1)])
  | KUnsub => Some (RqUnsubscribe [[116]])
  | _ => None
  end.

Definition retx_error (id : nat) (k : reqkind) (phase2 : bool) (n : N) : err :=
  match canon_request k with
  | None => ENil
  | Some r =>
    match snd (run_request id conn_client 1 r (script_of (if phase2 then FClosed2 else FClosed1) ENil)) with
    | GoPanic => ENil
    | Ret e => match retry_handle e with
               | Some h => retx_rounds (id + 2) (id + 6) h (N.to_nat n - 1)
               | None => e
               end
    end
  end.

Inductive callkind :=
| CkReq (k : reqkind) (f : fstep)        (* BaseClient request; cause = Write error (FWrite) or ctx.Err() (FCtx) *)
| CkConnectOpt                           (* BaseClient.Connect, a ConnectOption returns cause (connect.go:113) *)
| CkRetryConnectOpt                      (* the same through RetryClient.Connect (retryclient.go:438) *)
| CkRetryPing (rt : bool) (f : fstep)    (* RetryClient.Ping, rt = ResponseTimeout set; FCtx1: caller's ctx done *)
| CkRetryTimeout (k : reqkind)           (* RetryClient request whose ResponseTimeout expires (Ping: returned; others: OnError) *)
| CkNotConnected (k : reqkind)
| CkValidate (retry : bool) (qos : bool) (* ValidateMessage fails: ErrInvalidQoS (true) / ErrPayloadLenExceeded *)
| CkClosedClient
| CkConnRefused (code : N)
| CkSubBadAck
| CkWillBadQoS
| CkServe (n : N)                        (* Err() after the reader ended: 0 EOF, 1 unknown type, 2 five length bytes,
                                            3 U+0000 in topic, 4 PUBACK with flags *)
| CkKeepAlive (n : N)                    (* KeepAlive (keepalive.go:34-61) ends: 0 the per-ping timeout expires,
                                            1 the parent context is done (cause), 2 the ping's Write fails (cause) *)
| CkRetryClosed (k : reqkind) (phase2 : bool)
      (* RetryClient with ResponseTimeout set (so the BaseClient call runs under requestContext, whose
         Err() is non-nil at all times): the connection ends - cut, peer EOF or local Close - while
         request k waits for the acknowledgement of its first packet (phase2: of the PUBREL), long
         before the timeout: the error OnError receives *)
| CkRetryRetx (k : reqkind) (phase2 : bool) (n : N)
| CkReconnConnect (hist : N).
      (* ReconnectClient.Connect (reconnclient.go:67-207): the caller's context (Err() = cause) ends before
         a first connection is established, after the history number hist of failed attempts (dial
         errors, refused CONNACKs, handshake deadlines, transports closed before CONNACK, mixtures:
         table in harness/c19.go). The first dial / connect errors only go into the failure TEXT;
         the chain carries ctx.Err(): wrapErrorf(ctx.Err(), ...) at :206 *)
      (* RetryClient with ResponseTimeout: request k is interrupted once (the peer closes before the
         acknowledgement of the first packet, or - phase2, QoS 2 - of the PUBREL), then SetClient +
         Connect + Retry on a new connection whose broker withholds the acknowledgement, n times in a
         row (n = 1: the retransmission, n = 2: the retry of the retry): the error OnError receives
         for the n-th retransmission *)

(* identities allocated by a call start at [id]; at most 4 are used *)
Definition call_error (id : nat) (ck : callkind) (cause : err) : err :=
  match ck with
  | CkReq k f => req_error id k (script_of f cause)
  | CkConnectOpt => wrap_error id cause
  | CkRetryConnectOpt => wrap_error id (wrap_error (id + 1) cause)
  | CkRetryPing rt f =>
      let inner := match f with
                   | FCtx1 | FCtx2 => if rt then request_ctx_err (id + 2) cause else cause
                   | _ => cause
                   end in
      wrap_error id (ping_impl (id + 1) conn_client (script_of f inner))         (* retryclient.go:263 *)
  | CkRetryTimeout k =>
      let ce := request_ctx_err (id + 3) (ESent SDeadlineExceeded) in
      match k with
      | KPing => wrap_error id (ping_impl (id + 1) conn_client (script_of FCtx1 ce))
      | _ => req_error id k (script_of FCtx1 ce)
      end
  | CkNotConnected _ => ESent SNotConnected
  | CkValidate retry qos =>
      let s := if qos then SInvalidQoS else SPayloadLenExceeded in
      if retry then wrap_error id (wrap_error (id + 1) (ESent s)) else wrap_error id (ESent s)
  | CkClosedClient => wrap_error id (ESent SClosedClient)
  | CkConnRefused code => wrap_error id (EConn (id + 1) code (ESent SConnectionFailed))
  | CkSubBadAck => wrap_error id (ESent SInvalidSubAck)
  | CkWillBadQoS => wrap_error id (wrap_error (id + 1) (ESent SInvalidPacket))
  | CkServe n =>
      if n =? 0 then ESent SEOF
      else if n =? 1 then wrap_error id (ESent SInvalidPacket)
      else if n =? 2 then wrap_error id (ESent SInvalidPacketLength)
      else if n =? 3 then wrap_error id (ESent SInvalidRune)
      else wrap_error id (ESent SInvalidPacket)
  | CkKeepAlive n =>
      if n =? 0 then wrap_error id (ESent SPingTimeout)                       (* keepalive.go:53 *)
      else if n =? 1 then wrap_error id cause                                 (* keepalive.go:48 *)
      else ping_impl id conn_client (script_of FWrite1 cause)                 (* keepalive.go:56: return err *)
  | CkRetryRetx k phase2 n => retx_error id k phase2 n
  | CkReconnConnect _ => wrap_error id cause
  | CkRetryClosed k phase2 =>
      (* the select arm `case <-c.connClosed` reports ErrClosedTransport, whatever ctx.Err() says *)
      req_error id k (script_of (if phase2 then FClosed2 else FClosed1) ENil)
  end.

(* ---------- descriptions of how a value was built (what the harness does with the real
   constructors), and the value the model assigns to each ---------- *)
Inductive desc :=
| DNil
| DSent (s : sentinel)
| DLib (id : nat) (d : desc)              (* &mqtt.Error{Err: d} *)
| DFmt (id : nat) (d : desc)              (* fmt.Errorf("w%d: %w", id, d) *)
| DConn (id : nat) (code : N) (d : desc)  (* &mqtt.ConnectionError{Err: d, Code: code} *)
| DPtrErrField (id : nat) (d : desc)
| DPtrNoErr (id : nat)
| DPtrErrNotError (id : nat)
| DVal (k : N)
| DPtrNonStruct (id : nat)
| DUncmp (k : N)
| DCall (id : nat) (ck : callkind) (cause : desc).  (* the error a real library call returned *)

Definition call_id (id : nat) : nat := (1000 + 8 * id)%nat.

Fixpoint build (d : desc) : err :=
  match d with
  | DNil => ENil
  | DSent s => ESent s
  | DLib id d' => ELib id (build d')
  | DFmt id d' => EFmt id (build d')
  | DConn id code d' => EConn id code (build d')
  | DPtrErrField id d' => EPtrErrField id (build d')
  | DPtrNoErr id => EPtrNoErr id
  | DPtrErrNotError id => EPtrErrNotError id
  | DVal k => EVal k
  | DPtrNonStruct id => EPtrNonStruct id
  | DUncmp k => EUncmp k
  | DCall id ck cause => call_error (call_id id) ck (build cause)
  end.

(* ====================================================================================== *)
(* SPECIFICATION — what the property says, written without reference to the code's control
   flow. Everything below is what the theorems (Errors_proofs.v, props/C19.v) and the
   V_ results of the correspondence check compare the model / the implementation against.  *)
(* ====================================================================================== *)

(* the chain of an error: the value itself and everything reachable by Unwrap; the *Error
   embedded in an errorWithRetry is part of it *)
Fixpoint chain (e : err) : list err :=
  match e with
  | ENil => []
  | ELib _ e' | EFmt _ e' | EConn _ _ e' | EReqTimeout _ e' => e :: chain e'
  | EWithRetry _ lid e' _ => e :: ELib lid e' :: chain e'
  | _ => [e]
  end.

(* the same including the hops through an exported Err field which Error.Is makes below a
   library wrapper *)
Fixpoint chain_ext (e : err) : list err :=
  match e with
  | ENil => []
  | ELib _ e' | EFmt _ e' | EConn _ _ e' | EReqTimeout _ e' | EPtrErrField _ e' => e :: chain_ext e'
  | EWithRetry _ lid e' _ => e :: ELib lid e' :: chain_ext e'
  | _ => [e]
  end.

(* "chains built from library wrappers, fmt %w wrappers and sentinels" *)
Fixpoint lib_chain (e : err) : bool :=
  match e with
  | ESent _ => true
  | ELib _ e' | EFmt _ e' | EConn _ _ e' | EReqTimeout _ e' | EWithRetry _ _ e' _ => lib_chain e'
  | _ => false
  end.

(* the same, additionally allowing foreign pointer wrappers with an exported Err field *)
Fixpoint walkable (e : err) : bool :=
  match e with
  | ESent _ => true
  | ELib _ e' | EFmt _ e' | EConn _ _ e' | EReqTimeout _ e' | EWithRetry _ _ e' _ | EPtrErrField _ e' => walkable e'
  | _ => false
  end.

(* %w / ConnectionError / RequestTimeoutError wrappers down to a sentinel or to the first library
   wrapper, below which foreign Err-field wrappers are allowed as well *)
Fixpoint ext_chain (e : err) : bool :=
  match e with
  | ESent _ => true
  | ELib _ e' | EWithRetry _ _ e' _ => walkable e'
  | EFmt _ e' | EConn _ _ e' | EReqTimeout _ e' => ext_chain e'
  | _ => false
  end.

(* ---------- look-alikes: equal content, different identity ---------- *)
(* a foreign errors.New value with exactly the text of sentinel s: another value, hence SOther *)
Definition twin_of (s : sentinel) : sentinel := SOther (100 + sentinel_code s).

(* the identity of an allocated wrapper *)
Definition node_id (e : err) : option nat :=
  match e with
  | ELib i _ | EFmt i _ | EConn i _ _ | EWithRetry i _ _ _ | EReqTimeout i _ | EPtrErrField i _
  | EPtrNoErr i | EPtrErrNotError i | EPtrNonStruct i => Some i
  | _ => None
  end.

(* the same construction executed a second time: every allocation is a new one (identities
   shifted by k), everything else — sentinels, field values, nesting — is identical *)
Fixpoint retag (k : nat) (e : err) : err :=
  match e with
  | ELib i e' => ELib (k + i) (retag k e')
  | EFmt i e' => EFmt (k + i) (retag k e')
  | EConn i c e' => EConn (k + i) c (retag k e')
  | EWithRetry i l e' h => EWithRetry (k + i) (k + l) (retag k e') h
  | EReqTimeout i e' => EReqTimeout (k + i) (retag k e')
  | EPtrErrField i e' => EPtrErrField (k + i) (retag k e')
  | EPtrNoErr i => EPtrNoErr (k + i)
  | EPtrErrNotError i => EPtrErrNotError (k + i)
  | EPtrNonStruct i => EPtrNonStruct (k + i)
  | _ => e
  end.

(* the content of a value: what reflect.DeepEqual or a comparison of Error() texts would see *)
Fixpoint erase (e : err) : err :=
  match e with
  | ELib _ e' => ELib 0 (erase e')
  | EFmt _ e' => EFmt 0 (erase e')
  | EConn _ c e' => EConn 0 c (erase e')
  | EWithRetry _ _ e' h => EWithRetry 0 0 (erase e') h
  | EReqTimeout _ e' => EReqTimeout 0 (erase e')
  | EPtrErrField _ e' => EPtrErrField 0 (erase e')
  | EPtrNoErr _ => EPtrNoErr 0
  | EPtrErrNotError _ => EPtrErrNotError 0
  | EPtrNonStruct _ => EPtrNonStruct 0
  | _ => e
  end.

(* every allocation of the chain has an identity below k *)
Definition ids_below (k : nat) (e : err) : bool :=
  forallb (fun n => match node_id n with Some i => Nat.ltb i k | None => true end) (chain e).

(* s occurs anywhere inside e *)
Fixpoint occurs_sent (s : sentinel) (e : err) : bool :=
  match e with
  | ESent s' => sentinel_eqb s s'
  | ELib _ e' | EFmt _ e' | EConn _ _ e' | EReqTimeout _ e' | EWithRetry _ _ e' _ | EPtrErrField _ e' => occurs_sent s e'
  | _ => false
  end.

Definition in_chain_sent (s : sentinel) (e : err) : bool :=
  existsb (fun n => match n with ESent s' => sentinel_eqb s s' | _ => false end) (chain e).

(* ---------- the retransmission protocol a request must follow across retries ---------- *)
Inductive rclass :=
| RcNil          (* nil: the request completed *)
| RcRetry        (* an ErrorWithRetry *)
| RcBareEOF      (* io.EOF itself: no handle (the point where the property's clauses conflict) *)
| RcOther        (* any other error without handle *)
| RcPanic.

Record aobs := { ob_client : nat; ob_events : list event; ob_class : rclass; ob_cause : err }.

Definition obs_of (o : attempt_obs) : aobs :=
  match ao_result o with
  | GoPanic => {| ob_client := ao_client o; ob_events := ao_events o; ob_class := RcPanic; ob_cause := ENil |}
  | Ret e =>
    match e with
    | ENil => {| ob_client := ao_client o; ob_events := ao_events o; ob_class := RcNil; ob_cause := ENil |}
    | EWithRetry _ _ c _ => {| ob_client := ao_client o; ob_events := ao_events o; ob_class := RcRetry; ob_cause := c |}
    | ESent SEOF => {| ob_client := ao_client o; ob_events := ao_events o; ob_class := RcBareEOF; ob_cause := e |}
    | _ => {| ob_client := ao_client o; ob_events := ao_events o; ob_class := RcOther; ob_cause := e |}
    end
  end.

(* the cause with which a write + wait step fails, if it does *)
Definition step_fail (w : wres) (s : sres) : option err :=
  match w with
  | WFail e => Some e
  | WOk => match s with SAck => None | SClosed => Some (ESent SClosedTransport) | SCtx e => Some e end
  end.

Definition classify (cause : err) : rclass := if is_bare_eof cause then RcBareEOF else RcRetry.

Inductive phase :=
| PhFirst     (* nothing transmitted yet *)
| PhAgain     (* transmitted, no PUBREC seen: the request packet itself is repeated (DUP=1 for PUBLISH) *)
| PhRel.      (* QoS 2 after PUBREC: only PUBREL with the same identifier *)

Definition is_first (ph : phase) : bool := match ph with PhFirst => true | _ => false end.

Definition mk_obs (c : nat) (ev : list event) (cause : option err) : aobs :=
  match cause with
  | None => {| ob_client := c; ob_events := ev; ob_class := RcNil; ob_cause := ENil |}
  | Some e => {| ob_client := c; ob_events := ev; ob_class := classify e; ob_cause := e |}
  end.

(* one attempt of request r in phase ph on the attempt's client; pid = the PUBLISH identifier
   fixed by the first attempt. Returns what must be observed and the phase a further retry is in. *)
Definition spec_attempt (r : request) (pid : N) (ph : phase) (a : attempt) : aobs * phase :=
  let c := cl_name (at_client a) in
  let sc := at_script a in
  match r with
  | RqPublish m =>
    match ph with
    | PhRel =>
        (mk_obs c [EvReg c WkPubComp pid; EvWrite c (PPubRel pid)] (step_fail (sc_w1 sc) (sc_s1 sc)), PhRel)
    | _ =>
        let pm := set_dup (set_id m pid) (negb (is_first ph)) in
        let ev1 := [EvReg c (if m_qos m =? 1 then WkPubAck else WkPubRec) pid; EvWrite c (PPublish pm)] in
        match step_fail (sc_w1 sc) (sc_s1 sc) with
        | Some e => (mk_obs c ev1 (Some e), PhAgain)
        | None =>
            if m_qos m =? 1 then (mk_obs c ev1 None, PhAgain)
            else (mk_obs c (ev1 ++ [EvReg c WkPubComp pid; EvWrite c (PPubRel pid)])
                         (step_fail (sc_w2 sc) (sc_s2 sc)), PhRel)
        end
    end
  | RqSubscribe subs =>
      (mk_obs c [EvReg c WkSubAck (at_nid a); EvWrite c (PSubscribe (at_nid a) subs)]
              (step_fail (sc_w1 sc) (sc_s1 sc)), PhAgain)
  | RqUnsubscribe topics =>
      (mk_obs c [EvReg c WkUnsubAck (at_nid a); EvWrite c (PUnsubscribe (at_nid a) topics)]
              (step_fail (sc_w1 sc) (sc_s1 sc)), PhAgain)
  end.

Fixpoint spec_attempts_from (r : request) (pid : N) (ph : phase) (ats : list attempt) : list aobs :=
  match ats with
  | [] => []
  | a :: rest =>
      let '(o, ph') := spec_attempt r pid ph a in
      o :: match ob_class o with
           | RcRetry => spec_attempts_from r pid ph' rest
           | _ => []
           end
  end.

Definition publish_id (r : request) (ats : list attempt) : N :=
  match r, ats with
  | RqPublish m, a :: _ => m_id (assign_id m (at_nid a))
  | _, _ => 0
  end.

Definition spec_attempts (r : request) (ats : list attempt) : list aobs :=
  spec_attempts_from r (publish_id r ats) PhFirst ats.

(* requests and environments the property quantifies over *)
Definition req_ok (r : request) : bool :=
  match r with
  | RqPublish m => (1 <=? m_qos m) && (m_qos m <=? 2)
  | RqSubscribe subs => forallb (fun s => snd s <=? 2) subs
  | RqUnsubscribe _ => true
  end.

Definition cause_nonnil (w : wres) (s : sres) : bool :=
  match w with WFail e => negb (is_nil e) | WOk => true end &&
  match s with SCtx e => negb (is_nil e) | _ => true end.

(* the client is connected; a failed Write returns a non-nil error and a done context a non-nil Err() *)
Definition attempt_ok (a : attempt) : bool :=
  cl_connected (at_client a)
  && negb (at_nid a =? 0)                         (* newID never returns 0 (uniqid.go:31-37) *)
  && cause_nonnil (sc_w1 (at_script a)) (sc_s1 (at_script a))
  && cause_nonnil (sc_w2 (at_script a)) (sc_s2 (at_script a)).

(* hypothesis of the retry-handle clause: no Write error / ctx.Err() is io.EOF itself *)
Definition no_bare_eof (w : wres) (s : sres) : bool :=
  match w with WFail e => negb (is_bare_eof e) | WOk => true end &&
  match s with SCtx e => negb (is_bare_eof e) | _ => true end.
Definition attempt_no_eof (a : attempt) : bool :=
  no_bare_eof (sc_w1 (at_script a)) (sc_s1 (at_script a))
  && no_bare_eof (sc_w2 (at_script a)) (sc_s2 (at_script a)).

(* the wrappers the library puts around an error (any number, any order) *)
Inductive frame := FrLib (id : nat) | FrFmt (id : nat) | FrConn (id : nat) (code : N) | FrRetry (id lid : nat) (h : handle).
Definition plug1 (f : frame) (e : err) : err :=
  match f with
  | FrLib id => ELib id e
  | FrFmt id => EFmt id e
  | FrConn id code => EConn id code e
  | FrRetry id lid h => EWithRetry id lid e h
  end.
Fixpoint plug (fs : list frame) (e : err) : err :=
  match fs with [] => e | f :: r => plug1 f (plug r e) end.

(* "re-issues that same request": the packet p is a retransmission of r *)
Definition message_eqb_dup (a b : message) : bool :=      (* equal in everything but the DUP flag *)
  str_eqb (m_topic a) (m_topic b) && (m_id a =? m_id b) && (m_qos a =? m_qos b)
  && Bool.eqb (m_retain a) (m_retain b) && str_eqb (m_payload a) (m_payload b).
Definition str_list_eqb := list_eqb str_eqb.
Definition subs_eqb := list_eqb (fun a b : str * N => str_eqb (fst a) (fst b) && (snd a =? snd b)).
Definition same_request (r : request) (pid : N) (p : pkt) : bool :=
  match r, p with
  | RqPublish m, PPublish m' => message_eqb_dup (set_id m pid) m'
  | RqPublish m, PPubRel id => (m_qos m =? 2) && (id =? pid)
  | RqSubscribe subs, PSubscribe _ subs' => subs_eqb subs subs'
  | RqUnsubscribe ts, PUnsubscribe _ ts' => str_list_eqb ts ts'
  | _, _ => false
  end.

Definition ev_client (e : event) : nat := match e with EvReg c _ _ => c | EvWrite c _ => c end.
Definition writes_of (evs : list event) : list pkt :=
  flat_map (fun e => match e with EvWrite _ p => [p] | _ => [] end) evs.
(* the waiter a packet's acknowledgement is delivered to *)
Definition waiter_of (p : pkt) : option (wkind * N) :=
  match p with
  | PPublish m => if m_qos m =? 1 then Some (WkPubAck, m_id m) else if m_qos m =? 2 then Some (WkPubRec, m_id m) else None
  | PPubRel id => Some (WkPubComp, id)
  | PSubscribe id _ => Some (WkSubAck, id)
  | PUnsubscribe id _ => Some (WkUnsubAck, id)
  end.
Definition wkind_eqb (a b : wkind) : bool :=
  match a, b with
  | WkPubAck, WkPubAck | WkPubRec, WkPubRec | WkPubComp, WkPubComp | WkSubAck, WkSubAck | WkUnsubAck, WkUnsubAck => true
  | _, _ => false
  end.
(* every write is immediately preceded by the registration of its waiter on the same client *)
Fixpoint waiters_registered (evs : list event) : bool :=
  match evs with
  | [] => true
  | EvReg c k id :: EvWrite c' p :: rest =>
      Nat.eqb c c' && match waiter_of p with Some (k', id') => wkind_eqb k k' && (id =? id') | None => false end
      && waiters_registered rest
  | _ => false
  end.

(* one attempt does what the property asks of it: everything happens on the client it was given,
   the waiter for each acknowledgement is registered there before the packet is written, every
   packet written is that same request, a first transmission has DUP=0 and every later PUBLISH
   DUP=1, and once a PUBREL was written (PUBREC had been received) only PUBREL is written *)
Definition is_pubrel (p : pkt) : bool := match p with PPubRel _ => true | _ => false end.
Definition dup_is (d : bool) (p : pkt) : bool := match p with PPublish m => Bool.eqb (m_dup m) d | _ => true end.
Definition attempt_follows (r : request) (pid : N) (first rel_seen : bool) (a : attempt) (o : aobs) : bool :=
  Nat.eqb (ob_client o) (cl_name (at_client a))
  && forallb (fun e => Nat.eqb (ev_client e) (cl_name (at_client a))) (ob_events o)
  && waiters_registered (ob_events o)
  && negb (match writes_of (ob_events o) with [] => true | _ => false end)
  && forallb (same_request r pid) (writes_of (ob_events o))
  && forallb (dup_is (negb first)) (writes_of (ob_events o))
  && (if rel_seen then forallb is_pubrel (writes_of (ob_events o)) else true).

Fixpoint follows (r : request) (pid : N) (first rel_seen : bool) (ats : list attempt) (obs : list aobs) {struct obs} : bool :=
  match obs with
  | [] => true
  | o :: obs' =>
    match ats with
    | [] => false
    | a :: ats' =>
        attempt_follows r pid first rel_seen a o
        && follows r pid false (rel_seen || existsb is_pubrel (writes_of (ob_events o))) ats' obs'
    end
  end.

(* retries go on until the request completed: the observation list stops early only after a nil result *)
Fixpoint runs_to_completion (ats : list attempt) (obs : list aobs) : bool :=
  match ats, obs with
  | [], [] => true
  | _ :: _, [] => false
  | [], _ :: _ => false
  | _ :: ats', [o] => match ob_class o with RcNil => true | RcRetry => match ats' with [] => true | _ => false end | _ => false end
  | _ :: ats', o :: obs' => match ob_class o with RcRetry => runs_to_completion ats' obs' | _ => false end
  end.

(* ---------- what the property demands of the values the harness builds ---------- *)
Definition call_ok (ck : callkind) : bool :=
  match ck with
  | CkReq KPub0 f => match f with FWrite1 => true | _ => false end
  | CkReq KPub2 _ => true
  | CkReq _ f => match f with FWrite1 | FClosed1 | FCtx1 => true | _ => false end
  | CkRetryPing _ f => match f with FWrite1 | FClosed1 | FCtx1 => true | _ => false end
  | CkRetryTimeout k => match k with KPub0 | KConnect => false | _ => true end
  | CkNotConnected k => match k with KConnect => false | _ => true end
  | CkServe n => n <=? 4
  | CkKeepAlive n => n <=? 2
  | CkReconnConnect hist => hist <=? 13
  | CkRetryClosed k phase2 =>
      match k with KPub2 => true | KPub1 | KSub | KUnsub => negb phase2 | _ => false end
  | CkRetryRetx k phase2 n =>
      ((n =? 1) || (n =? 2))
      && match k with KPub2 => true | KPub1 | KSub | KUnsub => negb phase2 | _ => false end
  | _ => true
  end.

Definition uses_cause (ck : callkind) : bool :=
  match ck with
  | CkReq _ f => match f with FClosed1 | FClosed2 => false | _ => true end
  | CkConnectOpt | CkRetryConnectOpt => true
  | CkRetryPing _ f => match f with FClosed1 | FClosed2 => false | _ => true end
  | CkKeepAlive n => negb (n =? 0)
  | CkReconnConnect _ => true
  | _ => false
  end.

(* the documented sentinel a call's error must exhibit when it does not come from the cause *)
Definition call_sentinel (ck : callkind) : sentinel :=
  match ck with
  | CkReq _ _ | CkRetryPing _ _ => SClosedTransport
  | CkRetryTimeout _ => SDeadlineExceeded
  | CkNotConnected _ => SNotConnected
  | CkValidate _ q => if q then SInvalidQoS else SPayloadLenExceeded
  | CkClosedClient => SClosedClient
  | CkConnRefused _ => SConnectionFailed
  | CkSubBadAck => SInvalidSubAck
  | CkWillBadQoS => SInvalidPacket
  | CkServe n => if n =? 0 then SEOF else if n =? 1 then SInvalidPacket else if n =? 2 then SInvalidPacketLength
                 else if n =? 3 then SInvalidRune else SInvalidPacket
  | CkKeepAlive _ => SPingTimeout
  | CkRetryRetx _ _ _ => SDeadlineExceeded
  | CkRetryClosed _ _ => SClosedTransport
  | CkReconnConnect _ => SClosedTransport (* unused: uses the cause *)
  | CkConnectOpt | CkRetryConnectOpt => SClosedTransport (* unused: these use the cause *)
  end.

(* descriptions made only of sentinels, library wrappers, %w wrappers and library calls *)
Fixpoint shaped (d : desc) : bool :=
  match d with
  | DSent _ => true
  | DLib _ d' | DFmt _ d' | DConn _ _ d' => shaped d'
  | DCall _ ck c => call_ok ck && (if uses_cause ck then shaped c else true)
  | _ => false
  end.

(* the one sentinel at the bottom of such a description *)
Fixpoint spec_leaf (d : desc) : option sentinel :=
  match d with
  | DSent s => Some s
  | DLib _ d' | DFmt _ d' | DConn _ _ d' => spec_leaf d'
  | DCall _ ck c => if uses_cause ck then spec_leaf c else Some (call_sentinel ck)
  | _ => None
  end.

Definition leaf_is (s : sentinel) (o : option sentinel) : bool :=
  match o with Some s' => sentinel_eqb s s' | None => false end.

(* an expired response timeout is somewhere along the chain: the only places where a
   RequestTimeoutError may come from *)
Definition call_rt (ck : callkind) (cause_rt : bool) : bool :=
  match ck with
  | CkRetryTimeout _ => true
  | CkRetryRetx _ _ _ => true
  | CkRetryPing true FCtx1 => true     (* requestContext wraps also the caller's own cancellation *)
  | _ => uses_cause ck && cause_rt
  end.
Fixpoint spec_has_rt (d : desc) : bool :=
  match d with
  | DLib _ d' | DFmt _ d' | DConn _ _ d' => spec_has_rt d'
  | DCall _ ck c => call_rt ck (spec_has_rt c)
  | _ => false
  end.

(* every sentinel written anywhere in a description (an upper bound for what may be reported) *)
Fixpoint mentions (s : sentinel) (d : desc) : bool :=
  match d with
  | DSent s' => sentinel_eqb s s'
  | DLib _ d' | DFmt _ d' | DConn _ _ d' | DPtrErrField _ d' => mentions s d'
  | DCall _ ck c => (if uses_cause ck then mentions s c else false) || (negb (uses_cause ck) && sentinel_eqb s (call_sentinel ck))
  | _ => false
  end.

(* a request kind that must keep its retry handle when interrupted *)
Definition retryable_kind (k : reqkind) : bool :=
  match k with KPub1 | KPub2 | KSub | KUnsub => true | _ => false end.

(* a handle as publishImpl / subscribeImpl / unsubscribeImpl produce them *)
Definition handle_valid (h : handle) : bool :=
  match h with
  | HRetryPublish m => ((m_qos m =? 1) || (m_qos m =? 2)) && negb (m_id m =? 0)
  | HRetryPublish2 _ => true
  | HRetrySubscribe subs => forallb (fun s => snd s <=? 2) subs
  | HRetryUnsubscribe _ => true
  end.

(* the calls that wait on the caller's context *)
Definition ctx_call (ck : callkind) : bool :=
  match ck with
  | CkReq k f => call_ok ck && match f with FCtx1 | FCtx2 => true | _ => false end
  | CkRetryPing _ f => match f with FCtx1 => true | _ => false end
  | CkKeepAlive n => n =? 1
  | CkReconnConnect hist => hist <=? 13
  | _ => false
  end.

