(* RetrySys.v — the retry / reconnect system as a labelled transition system:
   user goroutine(s) || RetryClient task goroutine (retryclient.go:294-364) ||
   reconnect loop (reconnclient.go:81-171) || broker/transport (fault plan).
   [step] is a partial function (None = label not enabled); theorems quantify over all label
   lists; the harness realises particular ones ([run_scenario]). *)
From MQ Require Import Base RetryCore.
Open Scope nat_scope.

Inductive cres_t := CrPending | CrFailed | CrOk.       (* state of the current chConnectErr *)
Inductive tmode := TWaiting | TReady (g : nat).        (* task goroutine: connected? under which SetClient *)

Inductive conn_outcome :=
| CoAccept (session_present : bool)
| CoRefused        (* CONNACK with a non-zero return code; the broker closes *)
| CoClosed         (* the transport ends before CONNACK (peer close, CONNECT write failure) *)
| CoNoAck.         (* no CONNACK until the connect timeout; transport still open *)

Inductive rpc :=
| RDial | RSetClient (k : nat) | RConnBegin (k : nat) | RConnWait (k : nat)
| RPushResub (k : nat) (sp : bool) | RPushRetry (k : nat) | RRun (k : nat)
| RCloseFailed (k : nat) | RBackoff.

Record sys := {
  s_w : world;
  s_cur : option nat;        (* RetryClient.cli *)
  s_gen : nat;               (* number of SetClient calls: identity of chConnSwitch *)
  s_cres : cres_t;           (* chConnectErr of the current generation *)
  s_taskq : list task;       (* RetryClient.taskQueue *)
  s_tmode : tmode;
  s_pc : rpc;                (* reconnect loop *)
  s_initialized : bool;
  s_submitted : list uop;    (* ghost: accepted requests in submission order *)
  s_waits : nat              (* ghost: number of back-off waits *)
}.

Definition sys0 : sys :=
  {| s_w := world0; s_cur := None; s_gen := 0; s_cres := CrPending; s_taskq := []; s_tmode := TWaiting;
     s_pc := RDial; s_initialized := false; s_submitted := []; s_waits := 0 |}.

Inductive label :=
| LSubmit (o : uop)            (* RetryClient.Publish/Subscribe/Unsubscribe returned nil (pushTask) *)
| LObserve (g : nat)           (* task goroutine: chConnectErr of generation g is closed -> connected *)
| LTask                        (* task goroutine: one iteration of L_TASK with connected = true *)
| LDial (ok : bool)
| LSetClient
| LConnBegin
| LConnEnd (o : conn_outcome)
| LPushResub
| LPushRetry
| LDetectEnd                   (* <-baseCli.Done() with Err() <> nil *)
| LCloseFailed                 (* baseCli.Close(); <-baseCli.Done() after a failed Connect *)
| LBackoff
| LIdleCut.                    (* the peer closes the current connection while nothing is in flight *)

Definition set_w (s : sys) (w : world) : sys :=
  {| s_w := w; s_cur := s_cur s; s_gen := s_gen s; s_cres := s_cres s; s_taskq := s_taskq s; s_tmode := s_tmode s;
     s_pc := s_pc s; s_initialized := s_initialized s; s_submitted := s_submitted s; s_waits := s_waits s |}.
Definition set_pc (s : sys) (pc : rpc) : sys :=
  {| s_w := s_w s; s_cur := s_cur s; s_gen := s_gen s; s_cres := s_cres s; s_taskq := s_taskq s; s_tmode := s_tmode s;
     s_pc := pc; s_initialized := s_initialized s; s_submitted := s_submitted s; s_waits := s_waits s |}.
Definition set_tmode (s : sys) (m : tmode) : sys :=
  {| s_w := s_w s; s_cur := s_cur s; s_gen := s_gen s; s_cres := s_cres s; s_taskq := s_taskq s; s_tmode := m;
     s_pc := s_pc s; s_initialized := s_initialized s; s_submitted := s_submitted s; s_waits := s_waits s |}.
Definition set_taskq (s : sys) (q : list task) : sys :=
  {| s_w := s_w s; s_cur := s_cur s; s_gen := s_gen s; s_cres := s_cres s; s_taskq := q; s_tmode := s_tmode s;
     s_pc := s_pc s; s_initialized := s_initialized s; s_submitted := s_submitted s; s_waits := s_waits s |}.
Definition set_cres (s : sys) (c : cres_t) : sys :=
  {| s_w := s_w s; s_cur := s_cur s; s_gen := s_gen s; s_cres := c; s_taskq := s_taskq s; s_tmode := s_tmode s;
     s_pc := s_pc s; s_initialized := s_initialized s; s_submitted := s_submitted s; s_waits := s_waits s |}.

Definition client_init (c : client) : client :=
  {| cl_inited := true; cl_alive := cl_alive c; cl_accepted := cl_accepted c; cl_sent := cl_sent c |}.
Definition client_accept (c : client) : client :=
  {| cl_inited := cl_inited c; cl_alive := cl_alive c; cl_accepted := true; cl_sent := cl_sent c |}.

Section Step.
Variable cfg : config.
Variable fp : fplan.

Definition cur_alive (s : sys) : bool :=
  match s_cur s with Some k => cl_alive (get_client (s_w s) k) | None => false end.

Definition step (s : sys) (l : label) : option sys :=
  match l with
  | LSubmit o =>
      Some {| s_w := s_w s; s_cur := s_cur s; s_gen := s_gen s; s_cres := s_cres s; s_taskq := s_taskq s ++ [TOp o];
              s_tmode := s_tmode s; s_pc := s_pc s; s_initialized := s_initialized s;
              s_submitted := s_submitted s ++ [o]; s_waits := s_waits s |}
  | LObserve g =>
      match s_tmode s with
      | TWaiting =>
          if (0 <? g) && ((g <? s_gen s) || ((g =? s_gen s) && match s_cres s with CrPending => false | _ => true end))
          then Some (set_tmode s (TReady g)) else None
      | _ => None
      end
  | LTask =>
      if w_hung (s_w s) then None else
      match s_tmode s with
      | TWaiting => None
      | TReady g =>
          if negb (g =? s_gen s) then Some (set_tmode s TWaiting)     (* client was replaced: wait for its Connect *)
          else match s_taskq s, s_cur s with
               | t :: q, Some k =>
                   let w := exec_task cfg fp (s_w s) k t in
                   let s := set_taskq s q in
                   if w_nrbe w then Some (set_tmode (set_w s (set_nrbe (upd_client w k kill) false)) TWaiting)
                   else Some (set_w s w)
               | _, _ => None
               end
      end
  | LDial ok =>
      match s_pc s with
      | RDial =>
          if ok then
            let k := length (w_clients (s_w s)) in
            Some (set_pc (set_w s (set_clients (s_w s) (w_clients (s_w s) ++ [client_new]))) (RSetClient k))
          else Some (set_pc s RBackoff)
      | _ => None
      end
  | LSetClient =>
      match s_pc s with
      | RSetClient k =>
          Some {| s_w := s_w s; s_cur := Some k; s_gen := S (s_gen s); s_cres := CrPending; s_taskq := s_taskq s;
                  s_tmode := s_tmode s; s_pc := RConnBegin k; s_initialized := s_initialized s;
                  s_submitted := s_submitted s; s_waits := s_waits s |}
      | _ => None
      end
  | LConnBegin =>
      match s_pc s with
      | RConnBegin k => Some (set_pc (set_w s (upd_client (s_w s) k client_init)) (RConnWait k))
      | _ => None
      end
  | LConnEnd o =>
      match s_pc s with
      | RConnWait k =>
          match o with
          | CoAccept sp =>
              if cl_alive (get_client (s_w s) k) then
                let w := upd_client (s_w s) k client_accept in
                let w := if sp then w else set_broker w (broker_wipe (w_broker w)) in
                Some (set_pc (set_cres (set_w s w) CrOk) (RPushResub k sp))
              else None
          | CoNoAck => Some (set_pc (set_cres s CrFailed) (RCloseFailed k))
          | _ => Some (set_pc (set_cres (set_w s (upd_client (s_w s) k kill)) CrFailed) (RCloseFailed k))
          end
      | _ => None
      end
  | LPushResub =>
      match s_pc s with
      | RPushResub k sp =>
          let s' := set_pc s (RPushRetry k) in
          if s_initialized s && (negb sp || c_always_resub cfg)
          then Some (set_taskq s' (s_taskq s ++ [TResub])) else Some s'
      | _ => None
      end
  | LPushRetry =>
      match s_pc s with
      | RPushRetry k =>
          Some {| s_w := s_w s; s_cur := s_cur s; s_gen := s_gen s; s_cres := s_cres s; s_taskq := s_taskq s ++ [TRetry];
                  s_tmode := s_tmode s; s_pc := RRun k; s_initialized := true;
                  s_submitted := s_submitted s; s_waits := s_waits s |}
      | _ => None
      end
  | LDetectEnd =>
      match s_pc s with
      | RRun k => if cl_alive (get_client (s_w s) k) then None else Some (set_pc s RBackoff)
      | _ => None
      end
  | LCloseFailed =>
      match s_pc s with
      | RCloseFailed k => Some (set_pc (set_w s (upd_client (s_w s) k kill)) RBackoff)
      | _ => None
      end
  | LBackoff =>
      match s_pc s with
      | RBackoff => Some {| s_w := s_w s; s_cur := s_cur s; s_gen := s_gen s; s_cres := s_cres s; s_taskq := s_taskq s;
                            s_tmode := s_tmode s; s_pc := RDial; s_initialized := s_initialized s;
                            s_submitted := s_submitted s; s_waits := S (s_waits s) |}
      | _ => None
      end
  | LIdleCut =>
      match s_pc s with
      | RRun k => if cl_alive (get_client (s_w s) k) then Some (set_w s (upd_client (s_w s) k kill)) else None
      | _ => None
      end
  end.

Fixpoint run (s : sys) (ls : list label) : option sys :=
  match ls with
  | [] => Some s
  | l :: r => match step s l with Some s' => run s' r | None => None end
  end.

(* ---------- coarse scenarios realised by the harness ---------- *)
(* [bad] counts labels that were not enabled: a scenario the harness can realise never has any *)
Definition app (sb : sys * nat) (l : label) : sys * nat :=
  match step (fst sb) l with Some s' => (s', snd sb) | None => (fst sb, S (snd sb)) end.

(* let the task goroutine run until its queue is empty (or it cannot proceed) *)
Fixpoint drain (fuel : nat) (s : sys) : sys :=
  match fuel with
  | O => s
  | S f =>
      match s_tmode s with
      | TWaiting =>
          match step s (LObserve (s_gen s)) with
          | Some s' => drain f s'
          | None => s
          end
      | TReady _ =>
          match step s LTask with
          | Some s' => drain f s'
          | None => s
          end
      end
  end.
Definition quiesce (sb : sys * nat) : sys * nat :=
  (drain (2 * length (s_taskq (fst sb)) + 4) (fst sb), snd sb).

Inductive akind := ADialFail | AConn (o : conn_outcome).
Record attempt := { at_kind : akind; at_mid : list uop }.
Record phase := { ph_attempts : list attempt; ph_ops : list uop; ph_idle_cut : bool }.

Definition submit_all (sb : sys * nat) (ops : list uop) : sys * nat :=
  fold_left (fun sb o => app sb (LSubmit o)) ops sb.
Definition submit_each_quiesce (sb : sys * nat) (ops : list uop) : sys * nat :=
  fold_left (fun sb o => quiesce (app sb (LSubmit o))) ops sb.

Definition leave_run (sb : sys * nat) : sys * nat :=
  match s_pc (fst sb) with
  | RRun _ => app (app sb LDetectEnd) LBackoff
  | RBackoff => app sb LBackoff
  | _ => sb
  end.

Definition run_attempt (sb : sys * nat) (a : attempt) : sys * nat :=
  let sb := leave_run sb in
  match at_kind a with
  | ADialFail =>
      let sb := submit_each_quiesce sb (at_mid a) in
      app sb (LDial false)
  | AConn o =>
      let sb := app (app (app sb (LDial true)) LSetClient) LConnBegin in
      let sb := submit_all sb (at_mid a) in
      let sb := app sb (LConnEnd o) in
      match o with
      | CoAccept _ => quiesce (app (app sb LPushResub) LPushRetry)
      | _ => app (quiesce sb) LCloseFailed
      end
  end.

Definition run_phase (sb : sys * nat) (p : phase) : sys * nat :=
  let sb := fold_left run_attempt (ph_attempts p) sb in
  let sb := submit_each_quiesce sb (ph_ops p) in
  if ph_idle_cut p && cur_alive (fst sb) then app sb LIdleCut else sb.

Definition run_scenario (ps : list phase) : sys * nat := fold_left run_phase ps (sys0, 0).

End Step.
