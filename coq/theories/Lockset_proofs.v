(* Lockset_proofs.v — C10 (b): a table that passes the lock discipline has no data race in the
   abstract interleaving semantics of Lockset.v (pairs declared exempt excepted). *)
From Coq Require Import String.
From MQ Require Import Base Lockset.

Lemma ls_set_length {A} n (x : A) l : length (ls_set n x l) = length l.
Proof. revert n; induction l as [|y l IH]; intros [|n]; cbn; auto. Qed.

Lemma nth_error_ls_set_eq {A} n (x : A) l : n < length l -> nth_error (ls_set n x l) n = Some x.
Proof. revert n; induction l as [|y l IH]; intros [|n] H; cbn in *; try lia; auto. apply IH; lia. Qed.

Lemma nth_error_ls_set_neq {A} n m (x : A) l : n <> m -> nth_error (ls_set n x l) m = nth_error l m.
Proof. revert n m; induction l as [|y l IH]; intros [|n] [|m] H; cbn; auto; congruence. Qed.

Lemma nth_error_lt' {A} (l : list A) n x : nth_error l n = Some x -> n < length l.
Proof. intros H. apply nth_error_Some. congruence. Qed.

Lemma lockid_eqb_eq a b : lockid_eqb a b = true <-> a = b.
Proof.
  destruct a as [a1 a2], b as [b1 b2]. unfold lockid_eqb. cbn. rewrite andb_true_iff, !String.eqb_eq.
  split; [intros [-> ->]; reflexivity | intros H; injection H; auto].
Qed.

Lemma role_eqb_eq a b : role_eqb a b = true <-> a = b.
Proof. destruct a, b; cbn; split; intros H; try reflexivity; try discriminate. Qed.

Lemma compat_from_spec k s t m e :
  compat_from k s t m e = true ->
  forall u th, nth_error s u = Some th -> k + u <> t -> held_compat (lt_held th) m e = true.
Proof.
  revert k; induction s as [|x s IH]; intros k H u th E N; [destruct u; discriminate|].
  cbn in H. apply andb_true_iff in H as [H1 H2]. destruct u as [|u]; cbn in E.
  - injection E as <-. apply orb_true_iff in H1 as [H1|H1]; auto. apply Nat.eqb_eq in H1. lia.
  - eapply (IH (S k)); eauto. lia.
Qed.

(* ---------- the invariant ---------- *)
Record LInv (tbl : list access) (s0 s : lstate) : Prop := {
  li_len : length s = length s0;
  li_role : forall t th, nth_error s t = Some th -> exists th0, nth_error s0 t = Some th0 /\ lt_role th0 = lt_role th;
  (* mutual exclusion: a lock held by two threads is held shared by both *)
  li_excl : forall t u th1 th2 m e1 e2, t <> u -> nth_error s t = Some th1 -> nth_error s u = Some th2 ->
      In (m, e1) (lt_held th1) -> In (m, e2) (lt_held th2) -> e1 = false /\ e2 = false;
  (* a thread inside an access has one of its roles and holds its locks *)
  li_in : forall t th i a, nth_error s t = Some th -> lt_in th = Some i -> nth_error tbl i = Some a ->
      existsb (role_eqb (lt_role th)) (a_roles a) = true /\
      forallb (holds (lt_held th) (a_struct a)) (a_locks a) = true }.

Lemma linv_init tbl s0 : forallb lt_idle s0 = true -> LInv tbl s0 s0.
Proof.
  intros H. rewrite forallb_forall in H. constructor; auto.
  - intros t th E. eauto.
  - intros t u th1 th2 m e1 e2 _ E1 _ I1 _. apply nth_error_In, H in E1. unfold lt_idle in E1.
    destruct (lt_held th1); [destruct I1 | discriminate].
  - intros t th i a E Hi _. apply nth_error_In, H in E. unfold lt_idle in E. rewrite Hi in E.
    destruct (lt_held th); discriminate.
Qed.

Lemma linv_step tbl s0 s t o s' : LInv tbl s0 s -> lstep tbl s t o = Some s' -> LInv tbl s0 s'.
Proof.
  intros I S. unfold lstep in S. destruct (nth_error s t) as [th|] eqn:E; [|discriminate].
  assert (L : t < length s) by (eapply nth_error_lt'; eauto).
  destruct I as [I1 I2 I3 I4].
  (* every case replaces thread t by one with the same role *)
  assert (Gen : forall held' in',
     (forall u th2 m e1 e2, t <> u -> nth_error s u = Some th2 -> In (m, e1) held' -> In (m, e2) (lt_held th2) -> e1 = false /\ e2 = false) ->
     (forall i a, in' = Some i -> nth_error tbl i = Some a ->
        existsb (role_eqb (lt_role th)) (a_roles a) = true /\ forallb (holds held' (a_struct a)) (a_locks a) = true) ->
     LInv tbl s0 (ls_set t (mkLT (lt_role th) held' in') s)).
  { intros held' in' Hex Hin. constructor.
    - rewrite ls_set_length. exact I1.
    - intros u thu Eu. destruct (Nat.eq_dec t u) as [<-|N].
      + rewrite nth_error_ls_set_eq in Eu by auto. injection Eu as <-. cbn. eauto.
      + rewrite nth_error_ls_set_neq in Eu by auto. eauto.
    - intros a b th1 th2 m e1 e2 Nab E1 E2 H1 H2.
      destruct (Nat.eq_dec t a) as [<-|Na]; destruct (Nat.eq_dec t b) as [<-|Nb]; try congruence.
      + rewrite nth_error_ls_set_eq in E1 by auto. injection E1 as <-.
        rewrite nth_error_ls_set_neq in E2 by auto. cbn in H1. eapply Hex; eauto.
      + rewrite nth_error_ls_set_eq in E2 by auto. injection E2 as <-.
        rewrite nth_error_ls_set_neq in E1 by auto. cbn in H2.
        destruct (Hex a th1 m e2 e1) as [? ?]; auto.
      + rewrite nth_error_ls_set_neq in E1 by auto. rewrite nth_error_ls_set_neq in E2 by auto. eapply (I3 a b); eauto.
    - intros u thu i a Eu Hi Ha. destruct (Nat.eq_dec t u) as [<-|N].
      + rewrite nth_error_ls_set_eq in Eu by auto. injection Eu as <-. cbn in *. eauto.
      + rewrite nth_error_ls_set_neq in Eu by auto. eauto. }
  destruct (lt_in th) as [i0|] eqn:Hin; destruct o; try discriminate.
  - (* OEnd *)
    injection S as <-. apply Gen.
    + intros u th2 m e1 e2 N E2 H1 H2. eapply (I3 t u); eauto.
    + intros; discriminate.
  - (* OAcq *)
    destruct (compat_from 0 s t m excl) eqn:C; [|discriminate]. injection S as <-. apply Gen.
    + intros u th2 m' e1 e2 N E2 H1 H2. cbn in H1. destruct H1 as [H1|H1].
      * injection H1 as <- <-.
        pose proof (compat_from_spec _ _ _ _ _ C u th2 E2 ltac:(cbn; congruence)) as HC.
        unfold held_compat in HC. rewrite forallb_forall in HC. specialize (HC _ H2). cbn in HC.
        assert (lockid_eqb m m = true) by (apply lockid_eqb_eq; reflexivity). rewrite H in HC. cbn in HC.
        apply andb_true_iff in HC as [A B]. split; [destruct excl | destruct e2]; cbn in *; congruence.
      * eapply (I3 t u); eauto.
    + intros; discriminate.
  - (* ORel *)
    injection S as <-. apply Gen.
    + intros u th2 m' e1 e2 N E2 H1 H2. apply filter_In in H1 as [H1 _]. eapply (I3 t u); eauto.
    + intros; discriminate.
  - (* OBegin *)
    destruct (nth_error tbl i) as [a|] eqn:Ea; [|discriminate].
    destruct (existsb (role_eqb (lt_role th)) (a_roles a) && forallb (holds (lt_held th) (a_struct a)) (a_locks a)) eqn:G; [|discriminate].
    injection S as <-. apply andb_true_iff in G as [G1 G2]. apply Gen.
    + intros u th2 m e1 e2 N E2 H1 H2. eapply (I3 t u); eauto.
    + intros i' a' Hi' Ha'. injection Hi' as <-. rewrite Ea in Ha'. injection Ha' as <-. auto.
Qed.

Lemma linv_run tbl s0 tr : forall s, LInv tbl s0 s -> LInv tbl s0 (lrun tbl s tr).
Proof.
  induction tr as [|[t o] tr IH]; intros s I; cbn; auto.
  apply IH. destruct (lstep tbl s t o) eqn:S; auto. eapply linv_step; eauto.
Qed.

(* ---------- soundness ---------- *)
Theorem discipline_sound : forall exempt tbl s0 tr a b,
  discipline_ok exempt tbl = true ->
  forallb lt_idle s0 = true -> roles_wf s0 ->
  racing tbl (lrun tbl s0 tr) a b ->
  exempt a b = true \/ exempt b a = true.
Proof.
  intros ex tbl s0 tr a b D Idle WF [t [u [th1 [th2 [i [j [N [E1 [E2 [H1 [H2 [A [B C]]]]]]]]]]]]].
  pose proof (linv_run tbl s0 tr s0 (linv_init tbl s0 Idle)) as I.
  unfold discipline_ok in D. rewrite forallb_forall in D.
  specialize (D a (nth_error_In _ _ A)). rewrite forallb_forall in D. specialize (D b (nth_error_In _ _ B)).
  unfold pair_ok in D. rewrite C in D. cbn [negb orb] in D.
  destruct (ex a b) eqn:X1; [now left|]. destruct (ex b a) eqn:X2; [now right|]. exfalso.
  rewrite !orb_false_r in D.
  destruct (li_in _ _ _ I _ _ _ _ E1 H1 A) as [R1 L1]. destruct (li_in _ _ _ I _ _ _ _ E2 H2 B) as [R2 L2].
  apply orb_true_iff in D as [D|D].
  - (* the roles cannot belong to two threads: contradicts t <> u *)
    apply negb_true_iff in D.
    apply existsb_exists in R1 as [r1 [In1 Q1]]. apply role_eqb_eq in Q1. subst r1.
    apply existsb_exists in R2 as [r2 [In2 Q2]]. apply role_eqb_eq in Q2. subst r2.
    assert (Hc : may_concur (lt_role th1) (lt_role th2) = false).
    { destruct (may_concur (lt_role th1) (lt_role th2)) eqn:M; auto.
      assert (roles_concur (a_roles a) (a_roles b) = true); [|congruence].
      unfold roles_concur. apply existsb_exists. exists (lt_role th1). split; auto.
      apply existsb_exists. exists (lt_role th2). split; auto. }
    unfold may_concur in Hc. apply orb_false_iff in Hc as [Hc1 Hc2].
    apply negb_false_iff, role_eqb_eq in Hc1.
    destruct (li_role _ _ _ I _ _ E1) as [a0 [Ea0 Ra0]]. destruct (li_role _ _ _ I _ _ E2) as [b0 [Eb0 Rb0]].
    assert (role_multi (lt_role a0) = true) by (eapply (WF t u); eauto; congruence).
    congruence.
  - (* a common lock, held exclusively by one of them: contradicts mutual exclusion *)
    unfold common_lock in D. apply existsb_exists in D as [[m ea] [Ia D]].
    apply existsb_exists in D as [[m' eb] [Ib D]]. cbn in D. apply andb_true_iff in D as [Dm De].
    apply String.eqb_eq in Dm. subst m'.
    rewrite forallb_forall in L1, L2. specialize (L1 _ Ia). specialize (L2 _ Ib).
    unfold holds in L1, L2. apply existsb_exists in L1 as [[k1 e1] [Hk1 Q1]]. apply existsb_exists in L2 as [[k2 e2] [Hk2 Q2]].
    cbn in Q1, Q2. apply andb_true_iff in Q1 as [K1 M1]. apply andb_true_iff in Q2 as [K2 M2].
    apply lockid_eqb_eq in K1, K2. subst k1 k2.
    unfold conflicting in C. apply andb_true_iff in C as [SL _]. unfold same_loc in SL.
    apply andb_true_iff in SL as [SL _]. apply String.eqb_eq in SL. rewrite <- SL in Hk2.
    destruct (li_excl _ _ _ I t u th1 th2 _ _ _ N E1 E2 Hk1 Hk2) as [-> ->].
    destruct ea, eb; cbn in *; congruence.
Qed.

(* the same statement for tables without exemptions: no race at all *)
Corollary discipline_sound_strict : forall tbl s0 tr a b,
  discipline_ok (fun _ _ => false) tbl = true ->
  forallb lt_idle s0 = true -> roles_wf s0 ->
  ~ racing tbl (lrun tbl s0 tr) a b.
Proof. intros tbl s0 tr a b D I W R. destruct (discipline_sound _ _ _ _ _ _ D I W R); discriminate. Qed.

(* ---------- the decision procedure really decides the pairwise condition ---------- *)
Lemma discipline_ok_iff exempt tbl :
  discipline_ok exempt tbl = true <-> forall a b, In a tbl -> In b tbl -> pair_ok exempt a b = true.
Proof.
  unfold discipline_ok. rewrite forallb_forall. split.
  - intros H a b Ia Ib. specialize (H a Ia). rewrite forallb_forall in H. auto.
  - intros H a Ia. apply forallb_forall. intros b Ib. auto.
Qed.

(* ---------- non-vacuity: a racy table is rejected and its race is reachable ---------- *)
Open Scope string_scope.
Definition ex_tbl_bad : list access :=
  [ mkAcc "RetryClient" "retryQueue" "RetryClient.Stats" KRead [("mu", false)] [RUser] false;
    mkAcc "RetryClient" "retryQueue" "RetryClient.queueRetry" KWrite [] [RTask] false ].
Definition ex_threads : lstate := [ mkLT RUser [] None; mkLT RTask [] None ].
Definition ex_trace : list (nat * lop) :=
  [ (0%nat, OAcq ("RetryClient", "mu") false); (0%nat, OBegin 0%nat); (1%nat, OBegin 1%nat) ].

Example ex_bad_rejected : discipline_ok (fun _ _ => false) ex_tbl_bad = false.
Proof. vm_compute. reflexivity. Qed.

Example ex_bad_races : exists a b, racing ex_tbl_bad (lrun ex_tbl_bad ex_threads ex_trace) a b.
Proof.
  eexists _, _. exists 0%nat, 1%nat. eexists _, _. exists 0%nat, 1%nat.
  vm_compute. repeat split; try reflexivity. discriminate.
Qed.

(* the repaired table (Stats no longer touches retryQueue; the task goroutine publishes the
   length under muStats) is accepted, and the hypotheses of the theorem are satisfiable *)
Definition ex_tbl_good : list access :=
  [ mkAcc "RetryClient" "stats" "RetryClient.Stats" KRead [("muStats", false)] [RUser] false;
    mkAcc "RetryClient" "stats" "RetryClient.SetClient/go1" KWrite [("muStats", true)] [RTask] false;
    mkAcc "RetryClient" "retryQueue" "RetryClient.queueRetry" KWrite [] [RTask] false ].
Example ex_good_accepted : discipline_ok (fun _ _ => false) ex_tbl_good = true.
Proof. vm_compute. reflexivity. Qed.
Example ex_threads_wf : forallb lt_idle ex_threads = true /\ roles_wf ex_threads.
Proof.
  split; [reflexivity|]. intros t u th1 th2 E1 E2 N R.
  destruct t as [|[|t]], u as [|[|u]]; cbn in *; try congruence;
    try (injection E1 as <-; injection E2 as <-; cbn in R; discriminate);
    try (destruct t; discriminate); try (destruct u; discriminate).
Qed.
