(* Clone_proofs.v — C20: proofs about Clone.v (clone is a deep copy; separation invariant of the
   ServeMux / ServeAsync system under arbitrary schedules and arbitrary mutator programs). *)
From MQ Require Import Base Filter Clone.
Open Scope nat_scope.

(* ---------- lists ---------- *)

Lemma skipn_skipn' {A} (a b : nat) (l : list A) : skipn a (skipn b l) = skipn (b + a) l.
Proof.
  revert l; induction b as [|b IH]; intros l; [reflexivity|].
  destruct l as [|x l]; [now rewrite !skipn_nil|]. cbn [skipn Nat.add]. apply IH.
Qed.

Lemma write_at_length k bs (l : list N) : k + length bs <= length l -> length (write_at k bs l) = length l.
Proof.
  intros H. unfold write_at. rewrite !app_length, firstn_length, skipn_length. lia.
Qed.

Lemma write_at_app_l (A X : list N) j bs : write_at (length A + j) bs (A ++ X) = A ++ write_at j bs X.
Proof.
  unfold write_at. rewrite firstn_app_2, skipn_app.
  replace (skipn (length A + j + length bs) A) with (@nil N) by (symmetry; apply skipn_all2; lia).
  replace (length A + j + length bs - length A) with (j + length bs) by lia.
  now rewrite <- app_assoc.
Qed.

Lemma write_at_app_r (W R : list N) j bs : j + length bs <= length W -> write_at j bs (W ++ R) = write_at j bs W ++ R.
Proof.
  intros H. unfold write_at. rewrite firstn_app, skipn_app.
  replace (j - length W) with 0 by lia. replace (j + length bs - length W) with 0 by lia.
  cbn [firstn skipn]. now rewrite app_nil_r, <- !app_assoc.
Qed.

Lemma window_write off c j bs (l : list N) :
  off + c <= length l -> j + length bs <= c ->
  firstn c (skipn off (write_at (off + j) bs l)) = write_at j bs (firstn c (skipn off l)).
Proof.
  intros H1 H2.
  set (A := firstn off l). set (W := firstn c (skipn off l)). set (R := skipn c (skipn off l)).
  assert (EA : length A = off) by (unfold A; rewrite firstn_length; lia).
  assert (EW : length W = c) by (unfold W; rewrite firstn_length, skipn_length; lia).
  assert (El : l = A ++ W ++ R) by (unfold A, W, R; now rewrite !firstn_skipn).
  rewrite El at 1. rewrite <- EA at 2. rewrite write_at_app_l, write_at_app_r by lia.
  rewrite <- EA at 1. rewrite skipn_app, skipn_all, Nat.sub_diag. cbn [skipn app].
  rewrite firstn_app. rewrite write_at_length by lia. rewrite EW, Nat.sub_diag. cbn [firstn].
  rewrite app_nil_r. apply firstn_all2. rewrite write_at_length; lia.
Qed.

Lemma nth_error_set_nth_eq {A} k (v : A) l : k < length l -> nth_error (set_nth k v l) k = Some v.
Proof.
  revert k; induction l as [|x l IH]; intros [|k] H; cbn in *; try lia; [reflexivity|]. apply IH; lia.
Qed.

Lemma nth_error_set_nth_neq {A} k j (v : A) l : k <> j -> nth_error (set_nth k v l) j = nth_error l j.
Proof.
  revert k j; induction l as [|x l IH]; intros [|k] [|j] H; cbn; try reflexivity; try lia. apply IH; lia.
Qed.

Lemma set_nth_length {A} k (v : A) l : length (set_nth k v l) = length l.
Proof. revert k; induction l as [|x l IH]; intros [|k]; cbn; auto. Qed.

Lemma In_set_nth {A} k (v x : A) l : In x (set_nth k v l) -> x = v \/ In x l.
Proof.
  revert k; induction l as [|y l IH]; intros [|k] H; cbn in *; try tauto.
  - destruct H; auto.
  - destruct H as [H|H]; auto. apply IH in H. tauto.
Qed.

Lemma In_set_nth_other {A} k (v x : A) l : In x l -> nth_error l k <> Some x -> In x (set_nth k v l).
Proof.
  revert k; induction l as [|y l IH]; intros [|k] H N; cbn in *; try tauto.
  - destruct H as [->|H]; [exfalso; apply N; reflexivity | right; exact H].
  - destruct H as [H|H]; [left; exact H | right; apply IH; assumption].
Qed.

(* ---------- heap ---------- *)

Definition buf_of (h : heap) (p : nat) : nat := s_buf (m_pl (ho h p)).

(* p is an allocated object whose payload slice lies inside an allocated buffer *)
Definition wfp (h : heap) (p : nat) : Prop :=
  let s := m_pl (ho h p) in
  p < no h /\ s_buf s < nb h /\ s_off s + s_cap s <= length (hb h (s_buf s)) /\ s_len s <= s_cap s.

Lemma upd_same {A} (f : nat -> A) k v : upd f k v k = v.
Proof. unfold upd. now rewrite Nat.eqb_refl. Qed.

Lemma upd_other {A} (f : nat -> A) k v x : x <> k -> upd f k v x = f x.
Proof. intros H. unfold upd. apply Nat.eqb_neq in H. now rewrite H. Qed.

Lemma window_length h s :
  s_off s + s_cap s <= length (hb h (s_buf s)) -> length (window h s) = s_cap s.
Proof. intros H. unfold window. rewrite firstn_length, skipn_length. lia. Qed.

Lemma zeros_length n : length (zeros n) = n.
Proof. apply repeat_length. Qed.

Ltac simp_heap := cbn [hb nb ho no set_obj set_buf alloc_buf alloc_obj with_pl fst snd
                        m_topic m_id m_qos m_retain m_dup m_pl s_buf s_off s_len s_cap] in *.

(* a mutator acts on its own message exactly as on a private value *)
Lemma hop_view o h p : wfp h p -> view_of (hop o h p) p = vop o (view_of h p).
Proof.
  intros (Hp & Hb & Hc & Hl). unfold view_of.
  destruct o; cbn [hop vop v_topic v_id v_qos v_retain v_dup v_win v_len].
  1-5: simp_heap; rewrite upd_same; simp_heap; reflexivity.
  - (* OWrite *)
    destruct (i <? s_len (m_pl (ho h p))) eqn:E; [|reflexivity].
    apply Nat.ltb_lt in E. simp_heap. f_equal.
    unfold window. simp_heap. rewrite upd_same. apply window_write; cbn [length]; lia.
  - (* OAppend *)
    rewrite window_length by exact Hc.
    destruct (s_len (m_pl (ho h p)) + length bs <=? s_cap (m_pl (ho h p))) eqn:E.
    + apply Nat.leb_le in E. simp_heap. rewrite upd_same. simp_heap. f_equal.
      unfold window. simp_heap. rewrite upd_same. apply window_write; lia.
    + simp_heap. rewrite upd_same. simp_heap. f_equal.
      unfold window. simp_heap. rewrite upd_same. cbn [skipn].
      unfold payload. fold (window h (m_pl (ho h p))).
      apply firstn_all2. rewrite !app_length, zeros_length, firstn_length, window_length by exact Hc. lia.
  - (* OReslice *)
    rewrite window_length by exact Hc.
    destruct ((lo <=? hi) && (hi <=? s_cap (m_pl (ho h p)))) eqn:E; [|reflexivity].
    apply andb_true_iff in E as [E1 E2]. apply Nat.leb_le in E1, E2.
    simp_heap. rewrite upd_same. simp_heap. f_equal.
    unfold window. simp_heap.
    rewrite <- skipn_skipn'. rewrite skipn_firstn_comm. reflexivity.
  - (* ONewPayload *)
    simp_heap. rewrite upd_same. simp_heap. f_equal.
    unfold window. simp_heap. rewrite upd_same. cbn [skipn].
    apply firstn_all2. rewrite !app_length, zeros_length. lia.
Qed.

(* where the payload of p lives after the operation: the same buffer, or a fresh one *)
Lemma hop_buf o h p : buf_of (hop o h p) p = buf_of h p \/ buf_of (hop o h p) p = nb h.
Proof.
  unfold buf_of. destruct o; cbn [hop].
  1-5: left; simp_heap; rewrite upd_same; reflexivity.
  - destruct (_ <? _); left; reflexivity.
  - destruct (_ <=? _); simp_heap; rewrite upd_same; simp_heap; auto.
  - destruct (_ && _); [|left; reflexivity]. simp_heap. rewrite upd_same. simp_heap. auto.
  - simp_heap. rewrite upd_same. simp_heap. auto.
Qed.

Lemma hop_counters o h p : nb h <= nb (hop o h p) /\ no (hop o h p) = no h.
Proof.
  destruct o; cbn [hop]; simp_heap; auto.
  - destruct (_ <? _); simp_heap; auto.
  - destruct (_ <=? _); simp_heap; auto.
  - destruct (_ && _); simp_heap; auto.
Qed.

Lemma hop_wfp o h p : wfp h p -> wfp (hop o h p) p.
Proof.
  intros (Hp & Hb & Hc & Hl). unfold wfp.
  destruct o; cbn [hop].
  1-5: simp_heap; rewrite upd_same; simp_heap; auto.
  - destruct (i <? _) eqn:E; [|unfold wfp; auto]. apply Nat.ltb_lt in E.
    simp_heap. rewrite upd_same. rewrite write_at_length by (cbn [length]; lia). auto.
  - destruct (_ <=? _) eqn:E.
    + apply Nat.leb_le in E. simp_heap. rewrite upd_same. simp_heap. rewrite upd_same.
      rewrite write_at_length by lia. repeat split; auto; lia.
    + simp_heap. rewrite upd_same. simp_heap. rewrite upd_same.
      unfold payload. rewrite !app_length, zeros_length, firstn_length, window_length by exact Hc.
      repeat split; try lia.
  - destruct (_ && _) eqn:E; [|unfold wfp; auto].
    apply andb_true_iff in E as [E1 E2]. apply Nat.leb_le in E1, E2.
    simp_heap. rewrite upd_same. simp_heap. repeat split; auto; lia.
  - simp_heap. rewrite upd_same. simp_heap. rewrite upd_same.
    rewrite !app_length, zeros_length. repeat split; lia.
Qed.

(* frame: an object that is not p and whose payload lives in another buffer is not touched *)
Lemma hop_frame o h p q :
  wfp h p -> wfp h q -> q <> p -> buf_of h q <> buf_of h p ->
  ho (hop o h p) q = ho h q /\ view_of (hop o h p) q = view_of h q /\ wfp (hop o h p) q.
Proof.
  intros (Hp & Hb & Hc & Hl) (Hq & Hqb & Hqc & Hql) Hne Hbne. unfold buf_of in Hbne.
  assert (Hfresh : s_buf (m_pl (ho h q)) <> nb h) by lia.
  unfold view_of, wfp, window.
  destruct o; cbn [hop].
  1-5: simp_heap; rewrite !upd_other by exact Hne; auto 6.
  - destruct (_ <? _); [|auto 6]. simp_heap. rewrite !upd_other by exact Hbne. auto 6.
  - destruct (_ <=? _); simp_heap; rewrite !upd_other by exact Hne.
    + rewrite !upd_other by exact Hbne. auto 6.
    + rewrite !upd_other by exact Hfresh. repeat split; auto; lia.
  - destruct (_ && _); [|auto 6]. simp_heap. rewrite !upd_other by exact Hne. auto 6.
  - simp_heap. rewrite !upd_other by exact Hne. rewrite !upd_other by exact Hfresh.
    repeat split; auto; lia.
Qed.

(* heap extension: everything that was well-formed is still there, unchanged *)
Definition heap_ext (h h' : heap) : Prop :=
  nb h <= nb h' /\ no h <= no h' /\
  forall r, wfp h r -> wfp h' r /\ view_of h' r = view_of h r /\ buf_of h' r = buf_of h r.

Lemma heap_ext_refl h : heap_ext h h.
Proof. unfold heap_ext. split; [lia|]. split; [lia|]. intros r H. auto. Qed.

Lemma alloc_buf_ext h bs : heap_ext h (fst (alloc_buf h bs)).
Proof.
  repeat split; simp_heap; try lia; destruct H as (Hp & Hb & Hc & Hl); unfold view_of, window, buf_of; simp_heap;
    rewrite ?upd_other by lia; auto; lia.
Qed.

Lemma alloc_obj_ext h m : heap_ext h (fst (alloc_obj h m)).
Proof.
  repeat split; simp_heap; try lia; destruct H as (Hp & Hb & Hc & Hl); unfold view_of, window, buf_of; simp_heap;
    rewrite ?upd_other by lia; auto; lia.
Qed.

Lemma heap_ext_trans a b c : heap_ext a b -> heap_ext b c -> heap_ext a c.
Proof.
  intros (H1 & H2 & H3) (K1 & K2 & K3). split; [lia|]. split; [lia|]. intros r H.
  destruct (H3 r H) as (W & V & B). destruct (K3 r W) as (W' & V' & B').
  split; [exact W'|]. split; [now rewrite V', V | now rewrite B', B].
Qed.

(* a freshly built message: alloc buffer, alloc object *)
Lemma new_message_spec h c extra :
  let h' := fst (new_message h c extra) in
  let q := snd (new_message h c extra) in
  q = no h /\ heap_ext h h' /\ wfp h' q /\ buf_of h' q = nb h /\
  view_of h' q = mkV (c_topic c) (c_id c) (c_qos c) (c_retain c) (c_dup c)
                     (c_payload c ++ zeros extra) (length (c_payload c)) /\
  content_of h' q = c.
Proof.
  intros h' q.
  assert (X : heap_ext h h').
  { unfold h', new_message. cbn [alloc_buf]. eapply heap_ext_trans; [apply (alloc_buf_ext h) | apply alloc_obj_ext]. }
  assert (V : view_of h' q = mkV (c_topic c) (c_id c) (c_qos c) (c_retain c) (c_dup c)
                     (c_payload c ++ zeros extra) (length (c_payload c))).
  { unfold h', q, new_message, view_of, window. simp_heap. rewrite !upd_same. simp_heap. rewrite ?upd_same.
    cbn [skipn]. f_equal. apply firstn_all2. rewrite app_length, zeros_length. lia. }
  split; [reflexivity|]. split; [exact X|]. split; [|split; [|split; [exact V|]]].
  - unfold h', q, new_message, wfp. simp_heap. rewrite !upd_same. simp_heap. rewrite ?upd_same.
    rewrite !app_length, zeros_length. repeat split; lia.
  - unfold h', q, new_message, buf_of. simp_heap. rewrite !upd_same. reflexivity.
  - unfold content_of. rewrite V. unfold content_of_view. cbn.
    rewrite firstn_app, Nat.sub_diag, firstn_all. cbn. rewrite app_nil_r. destruct c; reflexivity.
Qed.

(* ---------- clone ---------- *)

Lemma clone_spec h p extra :
  let h' := fst (clone h p extra) in
  let q := snd (clone h p extra) in
  q = no h /\ heap_ext h h' /\ wfp h' q /\ buf_of h' q = nb h /\
  view_of h' q = mkV (m_topic (ho h p)) (m_id (ho h p)) (m_qos (ho h p)) (m_retain (ho h p)) (m_dup (ho h p))
                     (payload h (m_pl (ho h p)) ++ zeros extra) (length (payload h (m_pl (ho h p)))) /\
  content_of h' q = content_of h p.
Proof.
  intros h' q. unfold h', q, clone.
  destruct (new_message_spec h (mkC (m_topic (ho h p)) (m_id (ho h p)) (m_qos (ho h p)) (m_retain (ho h p))
                                    (m_dup (ho h p)) (payload h (m_pl (ho h p)))) extra)
    as (A & B & C & D & E & F).
  repeat (split; [assumption|]). rewrite F. reflexivity.
Qed.

(* ---------- the system invariant ---------- *)

Definition ptrs (st : state) : list nat := map a_ptr (st_agents st).

(* separation: distinct holders have distinct objects and distinct payload buffers *)
Definition sep (h : heap) (l : list nat) : Prop :=
  forall i j p q, nth_error l i = Some p -> nth_error l j = Some q -> i <> j ->
    p <> q /\ buf_of h p <> buf_of h q.

Definition wfl (h : heap) (l : list nat) : Prop := forall p, In p l -> wfp h p.

Record Inv (st : state) : Prop := mkInv {
  inv_wf : wfl (st_h st) (ptrs st);
  inv_sep : sep (st_h st) (ptrs st);
  (* while ServeMux.Serve loops, the dispatched message still has its dispatch-time content *)
  inv_frames : forall fr, In fr (st_frames st) -> open_frame fr = true ->
      exists ag, nth_error (st_agents st) (f_agent fr) = Some ag /\ a_pend ag = None /\
                 disp_of (st_log st) (f_disp fr) = Some (f_agent fr, content_of (st_h st) (a_ptr ag));
  (* the clone held by a goroutine that has not run yet still has the dispatch-time content *)
  inv_pend : forall ag d hid, In ag (st_agents st) -> a_pend ag = Some (d, hid) ->
      exists a, disp_of (st_log st) d = Some (a, content_of (st_h st) (a_ptr ag));
  inv_entries : forall d hid k c, In (EvEntry d hid k c) (st_log st) ->
      exists a, disp_of (st_log st) d = Some (a, c);
  inv_unique : forall d a c, In (EvDispatch d a c) (st_log st) -> disp_of (st_log st) d = Some (a, c);
  inv_fresh : forall d, st_nd st <= d -> disp_of (st_log st) d = None
}.

Lemma content_ext h h' r : heap_ext h h' -> wfp h r -> content_of h' r = content_of h r.
Proof. intros (_ & _ & E) W. unfold content_of. destruct (E r W) as (_ & V & _). now rewrite V. Qed.

Lemma ext_wf_sep h h' l : wfl h l -> sep h l -> heap_ext h h' -> wfl h' l /\ sep h' l.
Proof.
  intros W S (_ & _ & E). split.
  - intros p Hp. apply E, W, Hp.
  - intros i j p q Hi Hj Hne. destruct (S i j p q Hi Hj Hne) as [N1 N2]. split; [exact N1|].
    destruct (E p (W p (nth_error_In _ _ Hi))) as (_ & _ & B1).
    destruct (E q (W q (nth_error_In _ _ Hj))) as (_ & _ & B2). congruence.
Qed.

Lemma nth_error_snoc {A} (l : list A) x j y :
  nth_error (l ++ [x]) j = Some y -> (j < length l /\ nth_error l j = Some y) \/ (j = length l /\ y = x).
Proof.
  intros H. destruct (Nat.lt_ge_cases j (length l)) as [L|L].
  - left. rewrite nth_error_app1 in H by exact L. auto.
  - right. rewrite nth_error_app2 in H by exact L.
    destruct (j - length l) as [|k] eqn:E; cbn in H.
    + injection H as <-. split; [lia | reflexivity].
    + destruct k; discriminate.
Qed.

Lemma ext_wf_sep_app h h' l q :
  wfl h l -> sep h l -> heap_ext h h' -> q = no h -> wfp h' q -> buf_of h' q = nb h ->
  wfl h' (l ++ [q]) /\ sep h' (l ++ [q]).
Proof.
  intros W S X Eq Wq Bq. destruct (ext_wf_sep h h' l W S X) as [W' S']. destruct X as (_ & _ & E).
  assert (Old : forall p, In p l -> p <> q /\ buf_of h' p <> buf_of h' q).
  { intros p Hp. pose proof (W p Hp) as Wp. destruct (E p Wp) as (_ & _ & B).
    destruct Wp as (P1 & P2 & _). unfold buf_of in *. rewrite Bq, B, Eq. lia. }
  split.
  - intros p Hp. apply in_app_or in Hp as [Hp|[<-|[]]]; [apply W', Hp | exact Wq].
  - intros i j p r Hi Hj Hne.
    apply nth_error_snoc in Hi as [[Li Hi]|[Li ->]]; apply nth_error_snoc in Hj as [[Lj Hj]|[Lj ->]].
    + exact (S' i j p r Hi Hj Hne).
    + apply Old. exact (nth_error_In _ _ Hi).
    + destruct (Old r (nth_error_In _ _ Hj)) as [A B]. split; congruence.
    + lia.
Qed.

Lemma disp_old nd a c log d x :
  (forall d', nd <= d' -> disp_of log d' = None) -> disp_of log d = Some x ->
  disp_of (EvDispatch nd a c :: log) d = Some x.
Proof.
  intros F H. cbn [disp_of]. destruct (Nat.eqb nd d) eqn:E; [|exact H].
  apply Nat.eqb_eq in E. subst d. rewrite F in H by lia. discriminate.
Qed.

Lemma acting_spec st a ag :
  acting st a = Some ag ->
  nth_error (st_agents st) a = Some ag /\ a_pend ag = None /\ busy st a = false.
Proof.
  unfold acting. destruct (nth_error (st_agents st) a) as [x|]; [|discriminate].
  destruct (a_pend x) eqn:P; [discriminate|]. destruct (busy st a); [discriminate|].
  intros H. injection H as <-. auto.
Qed.

Lemma not_busy_frames st a fr : busy st a = false -> In fr (st_frames st) -> open_frame fr = true -> f_agent fr <> a.
Proof.
  unfold busy. intros B I O E. 
  assert (existsb (fun f => Nat.eqb (f_agent f) a && open_frame f) (st_frames st) = true).
  { apply existsb_exists. exists fr. split; [exact I|]. rewrite O, E, Nat.eqb_refl. reflexivity. }
  congruence.
Qed.

Lemma ptrs_nth st a ag : nth_error (st_agents st) a = Some ag -> nth_error (ptrs st) a = Some (a_ptr ag).
Proof. intros H. unfold ptrs. now apply map_nth_error. Qed.

Lemma ptrs_in st ag : In ag (st_agents st) -> In (a_ptr ag) (ptrs st).
Proof. intros H. unfold ptrs. now apply in_map. Qed.

(* a mutation by agent a leaves every other holder's object, view and buffer alone *)
Lemma mut_others st a ag o j agj :
  Inv st -> nth_error (st_agents st) a = Some ag -> nth_error (st_agents st) j = Some agj -> j <> a ->
  let h' := hop o (st_h st) (a_ptr ag) in
  ho h' (a_ptr agj) = ho (st_h st) (a_ptr agj) /\ view_of h' (a_ptr agj) = view_of (st_h st) (a_ptr agj) /\
  wfp h' (a_ptr agj).
Proof.
  intros I Ha Hj Hne h'.
  pose proof (inv_wf st I _ (ptrs_in st ag (nth_error_In _ _ Ha))) as Wa.
  pose proof (inv_wf st I _ (ptrs_in st agj (nth_error_In _ _ Hj))) as Wj.
  destruct (inv_sep st I j a _ _ (ptrs_nth st j agj Hj) (ptrs_nth st a ag Ha) Hne) as [N1 N2].
  apply hop_frame; assumption.
Qed.

Lemma mut_wf_sep st a ag o :
  Inv st -> nth_error (st_agents st) a = Some ag ->
  wfl (hop o (st_h st) (a_ptr ag)) (ptrs st) /\ sep (hop o (st_h st) (a_ptr ag)) (ptrs st).
Proof.
  intros I Ha. set (h := st_h st). set (p := a_ptr ag).
  pose proof (inv_wf st I _ (ptrs_in st ag (nth_error_In _ _ Ha))) as Wa. fold h p in Wa.
  assert (Hall : forall j q, nth_error (ptrs st) j = Some q ->
            wfp (hop o h p) q /\ (j <> a -> buf_of (hop o h p) q = buf_of h q) /\ (j = a -> q = p)).
  { intros j q Hq. unfold ptrs in Hq. rewrite nth_error_map in Hq.
    destruct (nth_error (st_agents st) j) as [agj|] eqn:Ej; [|discriminate]. cbn in Hq. injection Hq as <-.
    destruct (Nat.eq_dec j a) as [->|Hne].
    - rewrite Ha in Ej. injection Ej as <-. split; [apply hop_wfp, Wa|]. split; [congruence | reflexivity].
    - destruct (mut_others st a ag o j agj I Ha Ej Hne) as (O & _ & W). fold h p in O, W.
      split; [exact W|]. split; [|congruence]. intros _. unfold buf_of. now rewrite O. }
  split.
  - intros q Hq. apply In_nth_error in Hq as [j Hj]. apply (Hall j q Hj).
  - intros i j q r Hi Hj Hne.
    destruct (inv_sep st I i j q r Hi Hj Hne) as [N1 N2]. fold h in N2. split; [exact N1|].
    destruct (Hall i q Hi) as (_ & Bi & Pi). destruct (Hall j r Hj) as (_ & Bj & Pj).
    pose proof (inv_wf st I q (nth_error_In _ _ Hi)) as (_ & Q2 & _).
    pose proof (inv_wf st I r (nth_error_In _ _ Hj)) as (_ & R2 & _). fold h in Q2, R2.
    destruct (Nat.eq_dec i a) as [Ei|Ei]; destruct (Nat.eq_dec j a) as [Ej|Ej]; [lia| | |].
    + rewrite (Pi Ei), (Bj Ej). rewrite (Pi Ei) in N2.
      destruct (hop_buf o h p) as [B|B]; rewrite B; [exact N2 | unfold buf_of in *; lia].
    + rewrite (Pj Ej), (Bi Ei). rewrite (Pj Ej) in N2.
      destruct (hop_buf o h p) as [B|B]; rewrite B; [exact N2 | unfold buf_of in *; lia].
    + rewrite (Bi Ei), (Bj Ej). exact N2.
Qed.

(* ---------- every step preserves the invariant ---------- *)

Lemma inv_init : Inv init.
Proof.
  constructor; cbn.
  - intros p [].
  - intros [|i] j p q H; discriminate.
  - intros fr [].
  - intros ag d hid [].
  - intros d hid k c [].
  - intros d a c [].
  - reflexivity.
Qed.

Lemma ptrs_app st ag : map a_ptr (st_agents st ++ [ag]) = ptrs st ++ [a_ptr ag].
Proof. unfold ptrs. now rewrite map_app. Qed.

(* adding a freshly allocated message held by a new agent; frames untouched; log/nd given *)
Lemma inv_add_agent st h' q pend log' nd' :
  Inv st -> heap_ext (st_h st) h' -> q = no (st_h st) -> wfp h' q -> buf_of h' q = nb (st_h st) ->
  (forall d x, disp_of (st_log st) d = Some x -> disp_of log' d = Some x) ->
  (forall d hid k c, In (EvEntry d hid k c) log' -> exists a, disp_of log' d = Some (a, c)) ->
  (forall d a c, In (EvDispatch d a c) log' -> disp_of log' d = Some (a, c)) ->
  (forall d, nd' <= d -> disp_of log' d = None) ->
  (forall d hid, pend = Some (d, hid) -> exists a, disp_of log' d = Some (a, content_of h' q)) ->
  Inv (mkSt h' (st_agents st ++ [mkAgent q pend]) (st_frames st) log' nd').
Proof.
  intros I X Eq Wq Bq Lold Lent Luni Lfresh Lpend.
  destruct (ext_wf_sep_app _ h' _ q (inv_wf st I) (inv_sep st I) X Eq Wq Bq) as [W' S'].
  constructor; cbn [st_h st_agents st_frames st_log st_nd].
  - unfold ptrs. cbn [st_agents]. rewrite ptrs_app. exact W'.
  - unfold ptrs. cbn [st_agents]. rewrite ptrs_app. exact S'.
  - intros fr Hfr Ho. destruct (inv_frames st I fr Hfr Ho) as (ag & Ha & Hp & Hd).
    exists ag. split; [|split; [exact Hp|]].
    + rewrite nth_error_app1; [exact Ha|]. apply nth_error_Some. congruence.
    + rewrite (content_ext _ _ _ X (inv_wf st I _ (ptrs_in st ag (nth_error_In _ _ Ha)))). apply Lold, Hd.
  - intros ag d hid Hin Hp. apply in_app_or in Hin as [Hin|[<-|[]]].
    + destruct (inv_pend st I ag d hid Hin Hp) as (a & Hd). exists a.
      rewrite (content_ext _ _ _ X (inv_wf st I _ (ptrs_in st ag Hin))). apply Lold, Hd.
    + cbn in Hp. apply (Lpend d hid Hp).
  - exact Lent.
  - exact Luni.
  - exact Lfresh.
Qed.

Section Steps.
Variable muxes : list mux.

Lemma step_new_inv st c extra : Inv st -> Inv (step muxes clone st (SNew c extra)).
Proof.
  intros I. cbn [step].
  destruct (new_message_spec (st_h st) c extra) as (A & B & C & D & _ & _).
  destruct (new_message (st_h st) c extra) as [h2 p]. cbn [fst snd] in *.
  apply inv_add_agent; auto.
  - apply (inv_entries st I).
  - intros d a c0 H. apply (inv_unique st I), H.
  - apply (inv_fresh st I).
  - intros d hid H. discriminate.
Qed.

Lemma step_mut_inv st a o : Inv st -> Inv (step muxes clone st (SMut a o)).
Proof.
  intros I. cbn [step]. destruct (acting st a) as [ag|] eqn:Act; [|exact I].
  apply acting_spec in Act as (Ha & Hp & Hb).
  destruct (mut_wf_sep st a ag o I Ha) as [W' S'].
  assert (Others : forall j agj, nth_error (st_agents st) j = Some agj -> j <> a ->
            content_of (hop o (st_h st) (a_ptr ag)) (a_ptr agj) = content_of (st_h st) (a_ptr agj)).
  { intros j agj Hj Hne. destruct (mut_others st a ag o j agj I Ha Hj Hne) as (_ & V & _).
    unfold content_of. now rewrite V. }
  constructor; cbn [st_h st_agents st_frames st_log st_nd]; unfold ptrs; cbn [st_agents].
  - exact W'.
  - exact S'.
  - intros fr Hfr Ho. destruct (inv_frames st I fr Hfr Ho) as (ag' & Ha' & Hp' & Hd).
    exists ag'. split; [exact Ha'|]. split; [exact Hp'|].
    rewrite (Others _ _ Ha' (not_busy_frames st a fr Hb Hfr Ho)). exact Hd.
  - intros ag' d hid Hin Hp'. destruct (inv_pend st I ag' d hid Hin Hp') as (x & Hd). exists x.
    destruct (In_nth_error _ _ Hin) as [j Hj].
    assert (j <> a) by (intros ->; rewrite Ha in Hj; injection Hj as <-; congruence).
    rewrite (Others _ _ Hj H). exact Hd.
  - apply (inv_entries st I).
  - apply (inv_unique st I).
  - apply (inv_fresh st I).
Qed.

Lemma step_muxbegin_inv st a mi : Inv st -> Inv (step muxes clone st (SMuxBegin a mi)).
Proof.
  intros I. cbn [step]. destruct (acting st a) as [ag|] eqn:Act; [|exact I].
  apply acting_spec in Act as (Ha & Hp & Hb).
  constructor; cbn [st_h st_agents st_frames st_log st_nd]; unfold ptrs; cbn [st_agents].
  - apply (inv_wf st I).
  - apply (inv_sep st I).
  - intros fr Hfr Ho. apply in_app_or in Hfr as [Hfr|[<-|[]]].
    + destruct (inv_frames st I fr Hfr Ho) as (ag' & Ha' & Hp' & Hd).
      exists ag'. split; [exact Ha'|]. split; [exact Hp'|]. apply disp_old; [apply (inv_fresh st I) | exact Hd].
    + exists ag. cbn [f_agent f_disp]. split; [exact Ha|]. split; [exact Hp|].
      cbn [disp_of]. now rewrite Nat.eqb_refl.
  - intros ag' d hid Hin Hp'. destruct (inv_pend st I ag' d hid Hin Hp') as (x & Hd). exists x.
    apply disp_old; [apply (inv_fresh st I) | exact Hd].
  - intros d hid k c [H|H]; [discriminate|]. destruct (inv_entries st I d hid k c H) as (x & Hd). exists x.
    apply disp_old; [apply (inv_fresh st I) | exact Hd].
  - intros d x c [H|H].
    + injection H as <- <- <-. cbn [disp_of]. now rewrite Nat.eqb_refl.
    + apply disp_old; [apply (inv_fresh st I) | apply (inv_unique st I), H].
  - intros d Hd. cbn [disp_of]. destruct (Nat.eqb (st_nd st) d) eqn:E; [apply Nat.eqb_eq in E; lia|].
    apply (inv_fresh st I). lia.
Qed.

Lemma next_match_nonempty topic todo x : next_match topic todo = Some x -> todo <> [].
Proof. destruct todo; [discriminate | discriminate]. Qed.

Lemma frames_set_nth_inv (P : frame -> Prop) frs f fr' :
  (forall fr, In fr frs -> P fr) -> P fr' -> forall fr, In fr (set_nth f fr' frs) -> P fr.
Proof. intros H1 H2 fr Hin. apply In_set_nth in Hin as [->|Hin]; auto. Qed.

Lemma inv_set_frame st f fr rest :
  Inv st -> nth_error (st_frames st) f = Some fr -> (open_frame fr = true \/ rest = []) ->
  Inv (mkSt (st_h st) (st_agents st) (set_nth f (mkFrame (f_disp fr) (f_agent fr) rest) (st_frames st))
            (st_log st) (st_nd st)).
Proof.
  intros I Ef Hor.
  constructor; cbn [st_h st_agents st_frames st_log st_nd]; unfold ptrs; cbn [st_agents];
    try apply I.
  intros fr' Hin Ho. apply In_set_nth in Hin as [->|Hin]; [|apply (inv_frames st I fr' Hin Ho)].
  destruct Hor as [Hopen | ->]; [|discriminate].
  cbn [f_agent f_disp]. apply (inv_frames st I fr (nth_error_In _ _ Ef) Hopen).
Qed.

Lemma step_muxnext_inv st f extra : Inv st -> Inv (step muxes clone st (SMuxNext f extra)).
Proof.
  intros I. cbn [step].
  destruct (nth_error (st_frames st) f) as [fr|] eqn:Ef; [|exact I].
  destruct (nth_error (st_agents st) (f_agent fr)) as [src|] eqn:Es; [|exact I].
  pose proof (nth_error_In _ _ Ef) as Hfr.
  destruct (next_match (m_topic (ho (st_h st) (a_ptr src))) (f_todo fr)) as [[hid rest]|] eqn:En.
  - (* a matching handler: clone and enter *)
    assert (Ho : open_frame fr = true).
    { unfold open_frame. destruct (f_todo fr); [discriminate | reflexivity]. }
    destruct (inv_frames st I fr Hfr Ho) as (ag & Ha & Hp & Hd).
    rewrite Es in Ha. injection Ha as <-.
    destruct (clone_spec (st_h st) (a_ptr src) extra) as (A & B & C & D & _ & F).
    destruct (clone (st_h st) (a_ptr src) extra) as [h1 q]. cbn [fst snd] in *.
    assert (J : Inv (mkSt h1 (st_agents st ++ [mkAgent q None]) (st_frames st)
                      (EvEntry (f_disp fr) hid (length (st_agents st)) (content_of h1 q) :: st_log st) (st_nd st))).
    { apply inv_add_agent; auto.
      - intros d hid' k c [H|H].
        + injection H as <- _ _ <-. exists (f_agent fr). cbn [disp_of]. rewrite F. exact Hd.
        + apply (inv_entries st I d hid' k c H).
      - intros d a c [H|H]; [discriminate|]. apply (inv_unique st I), H.
      - apply (inv_fresh st I).
      - intros d hid' H. discriminate. }
    apply (inv_set_frame _ f fr rest J Ef). left. exact Ho.
  - apply (inv_set_frame st f fr [] I Ef). right. reflexivity.
Qed.

Lemma step_async_inv st a hid extra : Inv st -> Inv (step muxes clone st (SAsync a hid extra)).
Proof.
  intros I. cbn [step]. destruct (acting st a) as [ag|] eqn:Act; [|exact I].
  apply acting_spec in Act as (Ha & Hp & Hb).
  destruct (clone_spec (st_h st) (a_ptr ag) extra) as (A & B & C & D & _ & F).
  destruct (clone (st_h st) (a_ptr ag) extra) as [h1 q]. cbn [fst snd] in *.
  apply inv_add_agent; auto.
  - intros d x H. apply disp_old; [apply (inv_fresh st I) | exact H].
  - intros d hid' k c [H|H]; [discriminate|]. destruct (inv_entries st I d hid' k c H) as (x & Hd). exists x.
    apply disp_old; [apply (inv_fresh st I) | exact Hd].
  - intros d x c [H|H].
    + injection H as <- <- <-. cbn [disp_of]. now rewrite Nat.eqb_refl.
    + apply disp_old; [apply (inv_fresh st I) | apply (inv_unique st I), H].
  - intros d Hd. cbn [disp_of]. destruct (Nat.eqb (st_nd st) d) eqn:E; [apply Nat.eqb_eq in E; lia|].
    apply (inv_fresh st I). lia.
  - intros d hid' H. injection H as <- <-. exists a. cbn [disp_of]. rewrite Nat.eqb_refl, F. reflexivity.
Qed.

Lemma map_set_nth_ptr ags k q pend pend' :
  nth_error ags k = Some (mkAgent q pend) -> map a_ptr (set_nth k (mkAgent q pend') ags) = map a_ptr ags.
Proof.
  revert k; induction ags as [|x ags IH]; intros [|k] H; cbn in *; try discriminate.
  - injection H as ->. reflexivity.
  - f_equal. apply IH, H.
Qed.

Lemma step_run_inv st k : Inv st -> Inv (step muxes clone st (SRun k)).
Proof.
  intros I. cbn [step].
  destruct (nth_error (st_agents st) k) as [[q [[d hid]|]]|] eqn:Ek; try exact I.
  pose proof (map_set_nth_ptr _ _ _ _ None Ek) as EP.
  destruct (inv_pend st I _ d hid (nth_error_In _ _ Ek) eq_refl) as (x & Hx). cbn [a_ptr] in Hx.
  constructor; cbn [st_h st_agents st_frames st_log st_nd]; unfold ptrs; cbn [st_agents]; rewrite ?EP.
  - apply (inv_wf st I).
  - apply (inv_sep st I).
  - intros fr Hfr Ho. destruct (inv_frames st I fr Hfr Ho) as (ag' & Ha' & Hp' & Hd).
    exists ag'. split; [|split; [exact Hp' | exact Hd]].
    rewrite nth_error_set_nth_neq; [exact Ha'|]. intros E. rewrite <- E, Ek in Ha'. injection Ha' as <-. discriminate.
  - intros ag' d' hid' Hin Hp'. apply In_set_nth in Hin as [->|Hin]; [discriminate|].
    apply (inv_pend st I ag' d' hid' Hin Hp').
  - intros d' hid' k' c [H|H].
    + injection H as <- _ _ <-. exists x. exact Hx.
    + apply (inv_entries st I d' hid' k' c H).
  - intros d' a c [H|H]; [discriminate|]. apply (inv_unique st I), H.
  - apply (inv_fresh st I).
Qed.

Lemma step_inv st s : Inv st -> Inv (step muxes clone st s).
Proof.
  destruct s; [apply step_new_inv | apply step_mut_inv | apply step_muxbegin_inv | apply step_muxnext_inv
               | apply step_async_inv | apply step_run_inv | exact (fun I => I)].
Qed.

Lemma exec_inv sched st : Inv st -> Inv (exec muxes clone sched st).
Proof.
  revert st; induction sched as [|s sched IH]; intros st I; [exact I|]. cbn. apply IH, step_inv, I.
Qed.

Lemma run_inv sched : Inv (run muxes sched).
Proof. apply exec_inv, inv_init. Qed.

End Steps.

(* ---------- what a step does to what each holder can observe ---------- *)

Lemma agent_view_ext st h' ags' frs log nd a v :
  Inv st -> heap_ext (st_h st) h' ->
  (forall ag, nth_error (st_agents st) a = Some ag -> exists ag', nth_error ags' a = Some ag' /\ a_ptr ag' = a_ptr ag) ->
  agent_view st a = Some v -> agent_view (mkSt h' ags' frs log nd) a = Some v.
Proof.
  intros I (_ & _ & X) Hags. unfold agent_view. cbn [st_h st_agents].
  destruct (nth_error (st_agents st) a) as [ag|] eqn:Ea; [|discriminate].
  destruct (Hags ag eq_refl) as (ag' & Ea' & Ep). rewrite Ea', Ep.
  destruct (X _ (inv_wf st I _ (ptrs_in st ag (nth_error_In _ _ Ea)))) as (_ & V & _). now rewrite V.
Qed.

Lemma nth_app_keep {A} (l : list A) x a y : nth_error l a = Some y -> nth_error (l ++ [x]) a = Some y.
Proof. intros H. rewrite nth_error_app1; [exact H|]. apply nth_error_Some. congruence. Qed.

Definition is_some {A} (o : option A) : bool := match o with Some _ => true | None => false end.

Section Views.
Variable muxes : list mux.

(* One step: the only thing that changes the view of holder a is an operation that a itself
   executes, and then the change is the one the operation makes on a private value. *)
Lemma step_view st s a v :
  Inv st -> agent_view st a = Some v ->
  agent_view (step muxes clone st s) a =
  Some (match s with
        | SMut a' o => if Nat.eqb a' a && is_some (acting st a') then vop o v else v
        | _ => v
        end).
Proof.
  intros I Hv. destruct s; cbn [step].
  - (* SNew *)
    destruct (new_message_spec (st_h st) c extra) as (_ & B & _).
    destruct (new_message (st_h st) c extra) as [h2 p]. cbn [fst snd] in *.
    apply (agent_view_ext st); auto. intros ag H. exists ag. split; [apply nth_app_keep, H | reflexivity].
  - (* SMut *)
    destruct (acting st a0) as [ag|] eqn:Act; cbn [is_some]; [|rewrite andb_false_r; exact Hv].
    apply acting_spec in Act as (Ha & Hp & Hb). rewrite andb_true_r.
    unfold agent_view in *. cbn [st_h st_agents].
    destruct (nth_error (st_agents st) a) as [aga|] eqn:Ea; [|discriminate]. injection Hv as <-.
    destruct (Nat.eqb a0 a) eqn:E.
    + apply Nat.eqb_eq in E. subst a0. rewrite Ea in Ha. injection Ha as <-.
      rewrite hop_view; [reflexivity|]. apply (inv_wf st I), ptrs_in, (nth_error_In _ _ Ea).
    + apply Nat.eqb_neq in E.
      destruct (mut_others st a0 ag o a aga I Ha Ea) as (_ & V & _); [congruence|]. now rewrite V.
  - (* SMuxBegin *)
    destruct (acting st a0); exact Hv.
  - (* SMuxNext *)
    destruct (nth_error (st_frames st) f) as [fr|]; [|exact Hv].
    destruct (nth_error (st_agents st) (f_agent fr)) as [src|]; [|exact Hv].
    destruct (next_match _ _) as [[hid rest]|]; [|exact Hv].
    destruct (clone_spec (st_h st) (a_ptr src) extra) as (_ & B & _).
    destruct (clone (st_h st) (a_ptr src) extra) as [h1 q]. cbn [fst snd] in *.
    apply (agent_view_ext st); auto. intros ag H. exists ag. split; [apply nth_app_keep, H | reflexivity].
  - (* SAsync *)
    destruct (acting st a0) as [ag|]; [|exact Hv].
    destruct (clone_spec (st_h st) (a_ptr ag) extra) as (_ & B & _).
    destruct (clone (st_h st) (a_ptr ag) extra) as [h1 q]. cbn [fst snd] in *.
    apply (agent_view_ext st); auto. intros ag' H. exists ag'. split; [apply nth_app_keep, H | reflexivity].
  - (* SRun *)
    destruct (nth_error (st_agents st) k) as [[q [[d hid]|]]|] eqn:Ek; try exact Hv.
    apply (agent_view_ext st); auto using heap_ext_refl. intros ag H.
    destruct (Nat.eq_dec k a) as [->|Hne].
    + rewrite Ek in H. injection H as <-. exists (mkAgent q None). split; [|reflexivity].
      apply nth_error_set_nth_eq. apply nth_error_Some. congruence.
    + exists ag. split; [|reflexivity]. rewrite nth_error_set_nth_neq by exact Hne. exact H.
  - (* SReturn *) exact Hv.
Qed.

(* non-interference, one step: somebody else's step never changes what a can observe *)
Lemma noninterference_step st s a v :
  Inv st -> actor s <> Some a -> agent_view st a = Some v -> agent_view (step muxes clone st s) a = Some v.
Proof.
  intros I Hs Hv. rewrite (step_view st s a v I Hv). destruct s; try reflexivity.
  destruct (Nat.eqb a0 a) eqn:E; [|reflexivity]. apply Nat.eqb_eq in E. subst a0. exfalso. apply Hs. reflexivity.
Qed.

(* ... over any schedule *)
Lemma untouched_over_schedule sched st a v :
  Inv st -> Forall (fun s => actor s <> Some a) sched -> agent_view st a = Some v ->
  agent_view (exec muxes clone sched st) a = Some v.
Proof.
  revert st; induction sched as [|s sched IH]; intros st I F Hv; [exact Hv|].
  inversion F as [|? ? Hs F']; subst. cbn. apply IH; [apply step_inv, I | exact F' |].
  apply noninterference_step; assumption.
Qed.

(* the holder's own operation acts on its message as on a private value *)
Lemma own_step_private st a o ag v :
  Inv st -> acting st a = Some ag -> agent_view st a = Some v ->
  agent_view (step muxes clone st (SMut a o)) a = Some (vop o v).
Proof.
  intros I Act Hv. rewrite (step_view st _ a v I Hv). rewrite Act, Nat.eqb_refl. reflexivity.
Qed.

(* what every handler saw on entry is what was dispatched *)
Lemma entry_sees_dispatched sched d hid k c :
  In (EvEntry d hid k c) (st_log (run muxes sched)) ->
  exists a, In (EvDispatch d a c) (st_log (run muxes sched)).
Proof.
  intros H. destruct (inv_entries _ (run_inv muxes sched) d hid k c H) as (a & Hd). exists a.
  revert Hd. generalize (st_log (run muxes sched)). induction l as [|e l IH]; cbn [disp_of]; [discriminate|].
  destruct e as [d' a' c'|]; [|intros Hd; right; apply IH, Hd].
  destruct (Nat.eqb d' d) eqn:E; [|intros Hd; right; apply IH, Hd].
  apply Nat.eqb_eq in E. subst d'. intros Hd. injection Hd as <- <-. left. reflexivity.
Qed.

(* a dispatch number identifies one dispatch *)
Lemma dispatch_unique sched d a c a' c' :
  In (EvDispatch d a c) (st_log (run muxes sched)) -> In (EvDispatch d a' c') (st_log (run muxes sched)) ->
  a = a' /\ c = c'.
Proof.
  intros H1 H2. pose proof (inv_unique _ (run_inv muxes sched) _ _ _ H1) as E1.
  pose proof (inv_unique _ (run_inv muxes sched) _ _ _ H2) as E2. rewrite E1 in E2. injection E2 as <- <-. auto.
Qed.

End Views.

(* ---------- the log speaks about real things ---------- *)

Lemma list_neq_cons {A} (x : A) l : l <> x :: l.
Proof. intros H. apply (f_equal (@length A)) in H. cbn in H. lia. Qed.

Lemma list_neq_cons2 {A} (x y : A) l : y :: l = x :: l -> y = x.
Proof. intros H. now injection H. Qed.

Section LogFacts.
Variable muxes : list mux.

(* the content written into an entry event is the content of the message the entered handler holds *)
Lemma entry_is_agent_content st s d hid k c :
  st_log (step muxes clone st s) = EvEntry d hid k c :: st_log st ->
  agent_content (step muxes clone st s) k = Some c.
Proof.
  destruct s; cbn [step].
  - destruct (new_message _ _ _). cbn. intros H. now apply list_neq_cons in H.
  - destruct (acting st a); cbn; intros H; now apply list_neq_cons in H.
  - destruct (acting st a); cbn; intros H; [discriminate | now apply list_neq_cons in H].
  - destruct (nth_error (st_frames st) f) as [fr|]; [|intros H; now apply list_neq_cons in H].
    destruct (nth_error (st_agents st) (f_agent fr)) as [src|]; [|intros H; now apply list_neq_cons in H].
    destruct (next_match _ _) as [[hid' rest]|]; [|cbn; intros H; now apply list_neq_cons in H].
    destruct (clone (st_h st) (a_ptr src) extra) as [h1 q]. cbn [st_log]. intros H.
    injection H as <- <- <- <-. unfold agent_content. cbn [st_agents st_h].
    rewrite nth_error_app2, Nat.sub_diag by lia. reflexivity.
  - destruct (acting st a) as [ag|]; [|intros H; now apply list_neq_cons in H].
    destruct (clone (st_h st) (a_ptr ag) extra) as [h1 q]. cbn. discriminate.
  - destruct (nth_error (st_agents st) k0) as [[q [[d' hid']|]]|] eqn:Ek; try (intros H; now apply list_neq_cons in H).
    cbn [st_log]. intros H. injection H as <- <- <- <-. unfold agent_content. cbn [st_agents st_h].
    rewrite nth_error_set_nth_eq; [reflexivity|]. apply nth_error_Some. congruence.
  - intros H. now apply list_neq_cons in H.
Qed.

(* the content written into a dispatch event is the content of the dispatcher's message *)
Lemma dispatch_is_agent_content st s d a c :
  st_log (step muxes clone st s) = EvDispatch d a c :: st_log st ->
  agent_content st a = Some c.
Proof.
  destruct s; cbn [step].
  - destruct (new_message _ _ _). cbn. intros H. now apply list_neq_cons in H.
  - destruct (acting st a0); cbn; intros H; now apply list_neq_cons in H.
  - destruct (acting st a0) as [ag|] eqn:Act; cbn; intros H; [|now apply list_neq_cons in H].
    injection H as <- <- <-. apply acting_spec in Act as (Ha & Hp & _). unfold agent_content. now rewrite Ha, Hp.
  - destruct (nth_error (st_frames st) f) as [fr|]; [|intros H; now apply list_neq_cons in H].
    destruct (nth_error (st_agents st) (f_agent fr)) as [src|]; [|intros H; now apply list_neq_cons in H].
    destruct (next_match _ _) as [[hid' rest]|]; [|cbn; intros H; now apply list_neq_cons in H].
    destruct (clone (st_h st) (a_ptr src) extra) as [h1 q]. cbn. discriminate.
  - destruct (acting st a0) as [ag|] eqn:Act; [|intros H; now apply list_neq_cons in H].
    destruct (clone (st_h st) (a_ptr ag) extra) as [h1 q]. cbn. intros H.
    injection H as <- <- <-. apply acting_spec in Act as (Ha & Hp & _). unfold agent_content. now rewrite Ha, Hp.
  - destruct (nth_error (st_agents st) k) as [[q [[d' hid']|]]|] eqn:Ek; try (intros H; now apply list_neq_cons in H).
    cbn. discriminate.
  - intros H. now apply list_neq_cons in H.
Qed.

(* ServeMux.Serve decides every iteration of its loop on the dispatched topic *)
Lemma muxnext_matches_dispatched_topic st f fr src :
  Inv st -> nth_error (st_frames st) f = Some fr -> open_frame fr = true ->
  nth_error (st_agents st) (f_agent fr) = Some src ->
  exists c, disp_of (st_log st) (f_disp fr) = Some (f_agent fr, c) /\
            m_topic (ho (st_h st) (a_ptr src)) = c_topic c.
Proof.
  intros I Ef Ho Es. destruct (inv_frames st I fr (nth_error_In _ _ Ef) Ho) as (ag & Ha & _ & Hd).
  rewrite Es in Ha. injection Ha as <-. eexists. split; [exact Hd | reflexivity].
Qed.

End LogFacts.

(* ---------- the theorems of C20 ---------- *)

(* clone: equal fields, disjoint storage, nothing else touched *)
Theorem clone_equal_and_fresh h p extra :
  wfp h p ->
  let h' := fst (clone h p extra) in
  let q := snd (clone h p extra) in
  content_of h' q = content_of h p /\
  wfp h' q /\ q <> p /\ buf_of h' q <> buf_of h' p /\
  (forall r, wfp h r -> r <> q /\ buf_of h' r <> buf_of h' q /\ view_of h' r = view_of h r /\ ho h' r = ho h r).
Proof.
  intros W h' q. destruct (clone_spec h p extra) as (A & (B1 & B2 & B3) & C & D & _ & F).
  fold h' q in A, B3, C, D, F.
  assert (R : forall r, wfp h r -> r <> q /\ buf_of h' r <> buf_of h' q /\ view_of h' r = view_of h r).
  { intros r Wr. destruct (B3 r Wr) as (_ & V & B). destruct Wr as (R1 & R2 & _). unfold buf_of in *.
    rewrite D, B, A. repeat split; try lia. exact V. }
  split; [exact F|]. split; [exact C|]. destruct (R p W) as (N1 & N2 & _).
  split; [congruence|]. split; [congruence|].
  intros r Wr. destruct (R r Wr) as (R1 & R2 & R3). repeat split; auto.
  unfold h', clone, new_message. simp_heap. destruct Wr as (R4 & _). rewrite upd_other by lia. reflexivity.
Qed.

Lemma run_app muxes pre post : run muxes (pre ++ post) = exec muxes clone post (run muxes pre).
Proof. unfold run, exec. apply fold_left_app. Qed.

(* isolation, for every set of registered handlers, every mutator programs, every schedule:
   (1) what any handler saw on entry is exactly the content its dispatch was made with;
   (2) whatever anybody else does later (sibling handlers, handlers of later messages, retained
       pointers, asynchronous handlers running after the dispatcher returned, the caller and its next
       messages), the message a holder has — the caller's original, a handler's copy, the copy waiting
       in a goroutine — stays exactly as that holder left it, spare capacity included;
   (3) the holder's own operations act on it as on a private value. *)
Theorem isolation muxes pre post :
  let st := run muxes pre in
  let st' := exec muxes clone post st in
  (forall d hid k c, In (EvEntry d hid k c) (st_log st') -> exists a, In (EvDispatch d a c) (st_log st')) /\
  (forall a v, agent_view st a = Some v -> Forall (fun s => actor s <> Some a) post -> agent_view st' a = Some v) /\
  (forall a o ag v, acting st' a = Some ag -> agent_view st' a = Some v ->
                    agent_view (step muxes clone st' (SMut a o)) a = Some (vop o v)).
Proof.
  intros st st'. split; [|split].
  - unfold st', st. rewrite <- run_app. apply entry_sees_dispatched.
  - intros a v Hv F. apply untouched_over_schedule; [apply run_inv | exact F | exact Hv].
  - intros a o ag v Act Hv. apply (own_step_private muxes st' a o ag v); [|exact Act | exact Hv].
    apply exec_inv, run_inv.
Qed.

(* ---------- the model can express the bugs: with a shallow copy, or the original pointer, isolation fails ---------- *)

Definition demo_muxes : list mux := [mux_of [([35]%N, 0); ([35]%N, 1)]].      (* "#" registered twice *)
Definition demo_msg : content := mkC [97]%N 7%N 1%N true false [1; 2; 3]%N.
(* caller builds the message, dispatches; handler 0 is entered and overwrites payload byte 0 *)
Definition demo_pre : list label := [SNew demo_msg 2; SMuxBegin 0 0; SMuxNext 0 1].
Definition demo_write : label := SMut 1 (OWrite 0 9%N).
Definition demo_sched : list label := demo_pre ++ [demo_write; SMuxNext 0 1].

(* Payload: m.Payload — the second handler sees the first handler's write *)
Lemma shallow_clone_refuted_entry :
  exists d hid k c a c0,
    let log := st_log (exec demo_muxes shallow_clone demo_sched init) in
    In (EvEntry d hid k c) log /\ disp_of log d = Some (a, c0) /\ c_payload c <> c_payload c0.
Proof.
  exists 0, 1, 2, (mkC [97]%N 7%N 1%N true false [9; 2; 3]%N), 0, demo_msg.
  cbv zeta. split; [|split].
  - vm_compute. left. reflexivity.
  - vm_compute. reflexivity.
  - cbn. discriminate.
Qed.

(* ... and the caller's message is changed by the handler's step *)
Lemma shallow_clone_refuted_noninterference :
  exists a v,
    let st := exec demo_muxes shallow_clone demo_pre init in
    actor demo_write <> Some a /\ agent_view st a = Some v /\
    agent_view (step demo_muxes shallow_clone st demo_write) a <> Some v.
Proof.
  exists 0, (mkV [97]%N 7%N 1%N true false [1; 2; 3; 0; 0]%N 3).
  cbv zeta. split; [|split].
  - cbn. discriminate.
  - vm_compute. reflexivity.
  - vm_compute. discriminate.
Qed.

(* handler.Serve(message): a field assignment by the handler changes the caller's message *)
Lemma no_clone_refuted_noninterference :
  exists a v s,
    let st := exec demo_muxes no_clone demo_pre init in
    actor s <> Some a /\ agent_view st a = Some v /\
    agent_view (step demo_muxes no_clone st s) a <> Some v.
Proof.
  exists 0, (mkV [97]%N 7%N 1%N true false [1; 2; 3; 0; 0]%N 3), (SMut 1 (OSetDup true)).
  cbv zeta. split; [|split].
  - cbn. discriminate.
  - vm_compute. reflexivity.
  - vm_compute. discriminate.
Qed.

(* ---------- non-vacuity ---------- *)

(* the same schedule on the real clone: both handlers are entered and see the dispatched message,
   the caller's view is what it was before the handler wrote *)
Example isolation_not_vacuous :
  let st := run demo_muxes demo_pre in
  let st' := exec demo_muxes clone [demo_write; SMuxNext 0 1] st in
  map (fun e => match e with EvEntry d hid k c => Some (d, hid, k, c) | _ => None end) (st_log st')
    = [Some (0, 1, 2, demo_msg); Some (0, 0, 1, demo_msg); None] /\
  agent_view st 0 = Some (mkV [97]%N 7%N 1%N true false [1; 2; 3; 0; 0]%N 3) /\
  agent_view st' 0 = agent_view st 0 /\
  agent_content st' 1 = Some (mkC [97]%N 7%N 1%N true false [9; 2; 3]%N) /\
  Forall (fun s => actor s <> Some 0) [demo_write; SMuxNext 0 1].
Proof.
  cbv zeta. repeat split; try (vm_compute; reflexivity).
  repeat constructor; cbn; discriminate.
Qed.

Example clone_hypothesis_satisfiable :
  let h := fst (new_message empty_heap demo_msg 2) in wfp h 0 /\ content_of h 0 = demo_msg.
Proof. cbv zeta. split; [|vm_compute; reflexivity]. unfold wfp. vm_compute. repeat split; lia. Qed.

(* ---------- the copy discipline does not depend on the load ---------- *)

(* how many asynchronous handlers have been started by ServeAsync.Serve and have not even been entered *)
Definition pending_count (st : state) : nat :=
  length (filter (fun ag => match a_pend ag with Some _ => true | None => false end) (st_agents st)).

(* After ANY history — any number of handlers dispatched and not yet entered, entered and never
   returned, returned with retained pointers — ServeAsync.Serve by a holder that may act
   (a) creates a new holder whose message has the dispatcher's content,
   (b) in an object and a payload array distinct from those of every existing holder, the dispatcher included,
   (c) leaves every existing holder's view as it was, and
   (d) returns without waiting for any handler: the dispatcher may act again at once. *)
Lemma async_any_load muxes sched a ag hid extra :
  let st := run muxes sched in
  acting st a = Some ag ->
  let st' := step muxes clone st (SAsync a hid extra) in
  let k := length (st_agents st) in
  exists q,
    nth_error (st_agents st') k = Some (mkAgent q (Some (st_nd st, hid))) /\
    length (st_agents st') = S k /\ pending_count st' = S (pending_count st) /\
    content_of (st_h st') q = content_of (st_h st) (a_ptr ag) /\
    (forall j agj, nth_error (st_agents st) j = Some agj ->
        q <> a_ptr agj /\ buf_of (st_h st') q <> buf_of (st_h st') (a_ptr agj) /\
        view_of (st_h st') (a_ptr agj) = view_of (st_h st) (a_ptr agj)) /\
    acting st' a = Some ag.
Proof.
  intros st Act st' k.
  pose proof (run_inv muxes sched) as I. fold st in I.
  pose proof (step_inv muxes st (SAsync a hid extra) I) as I'. fold st' in I'.
  pose proof Act as Act0. apply acting_spec in Act as (Ha & Hp & Hb).
  unfold st' in *. cbn [step] in *. rewrite Act0 in *.
  destruct (clone_spec (st_h st) (a_ptr ag) extra) as (A & B & C & D & _ & F).
  destruct (clone (st_h st) (a_ptr ag) extra) as [h1 q]. cbn [fst snd] in *.
  cbn [st_agents st_h st_frames] in *.
  exists q. split; [|split; [|split; [|split; [|split]]]].
  - rewrite nth_error_app2, Nat.sub_diag by lia. reflexivity.
  - rewrite app_length. cbn. lia.
  - unfold pending_count. cbn [st_agents]. rewrite filter_app, app_length. cbn. lia.
  - exact F.
  - intros j agj Hj.
    assert (Lj : j < length (st_agents st)) by (apply nth_error_Some; congruence).
    pose proof (inv_sep _ I' k j q (a_ptr agj)) as S. unfold ptrs in S. cbn [st_agents st_h] in S.
    destruct S as [S1 S2].
    + rewrite map_app, nth_error_app2 by (rewrite map_length; lia). rewrite map_length, Nat.sub_diag. reflexivity.
    + rewrite map_app, nth_error_app1 by (rewrite map_length; lia). now apply map_nth_error.
    + unfold k. lia.
    + split; [exact S1|]. split; [exact S2|].
      destruct B as (_ & _ & B). apply B. apply (inv_wf st I), ptrs_in, (nth_error_In _ _ Hj).
  - unfold acting. cbn [st_agents]. rewrite (nth_app_keep _ _ _ _ Ha), Hp.
    unfold busy in *. cbn [st_frames]. rewrite Hb. reflexivity.
Qed.

(* not vacuous: a history with 200 handlers dispatched and none entered; one more dispatch *)
Example async_any_load_not_vacuous :
  let sched := SNew demo_msg 0 :: repeat (SAsync 0 1 0) 200 in
  let st := run [] sched in
  pending_count st = 200 /\ is_some (acting st 0) = true /\
  agent_view (step [] clone st (SAsync 0 2 3)) 201 =
    Some (mkV [97]%N 7%N 1%N true false [1; 2; 3; 0; 0; 0]%N 3).
Proof. cbv zeta. repeat split; vm_compute; reflexivity. Qed.
