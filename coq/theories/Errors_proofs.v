(* Errors_proofs.v — proofs about the model of Errors.v (property C19). *)
From MQ Require Import Base Codec Errors.
Open Scope N_scope.

(* ---------- sentinels and == ---------- *)
Lemma sentinel_eqb_eq a b : sentinel_eqb a b = true <-> a = b.
Proof.
  unfold sentinel_eqb. split.
  - intros H. apply N.eqb_eq in H.
    destruct a, b; cbn [sentinel_code] in H; try reflexivity; try lia.
    f_equal. lia.
  - intros ->. apply N.eqb_refl.
Qed.

Lemma sentinel_eqb_refl a : sentinel_eqb a a = true.
Proof. apply sentinel_eqb_eq. reflexivity. Qed.

Lemma sentinel_eqb_sym a b : sentinel_eqb a b = sentinel_eqb b a.
Proof. unfold sentinel_eqb. apply N.eqb_sym. Qed.

Lemma go_eq_sym a b : go_eq a b = go_eq b a.
Proof.
  destruct a, b; cbn [go_eq]; try reflexivity;
    try (rewrite Nat.eqb_sym; reflexivity).
  - rewrite sentinel_eqb_sym. reflexivity.
  - rewrite N.eqb_sym. reflexivity.
Qed.

Lemma go_eq_sent_true e s : go_eq e (ESent s) = CTrue <-> e = ESent s.
Proof.
  split.
  - destruct e; cbn [go_eq]; try discriminate.
    destruct (sentinel_eqb s0 s) eqn:E; cbn; [|discriminate].
    apply sentinel_eqb_eq in E. subst. reflexivity.
  - intros ->. cbn. rewrite sentinel_eqb_refl. reflexivity.
Qed.

Lemma go_eq_sent_no_panic e s : go_eq e (ESent s) <> CPanic.
Proof. destruct e; cbn [go_eq]; try discriminate. destruct (sentinel_eqb s0 s); discriminate. Qed.

Lemma go_eq_comparable_no_panic e t : comparable t = true -> go_eq e t <> CPanic.
Proof.
  intros Hc. destruct e, t; cbn [go_eq]; try discriminate;
    try (match goal with |- cmp_of_bool ?b <> _ => destruct b; discriminate end).
Qed.

(* on a wrapper, == with a sentinel is false *)
Ltac go_eq_wrapper := cbn [go_eq]; try reflexivity.

(* ---------- Error.Is / errors.Is with a sentinel target ---------- *)

(* below a library wrapper the walk follows Unwrap and Err fields down to the leaf *)
Lemma lib_walk_sent e s : walkable e = true -> lib_walk e (ESent s) = res_of_bool (occurs_sent s e).
Proof.
  induction e; cbn [walkable]; intros Hw; try discriminate;
    cbn [lib_walk go_eq occurs_sent]; try (apply IHe; exact Hw).
  rewrite sentinel_eqb_sym. destruct (sentinel_eqb s s0); reflexivity.
Qed.

Lemma lib_chain_walkable e : lib_chain e = true -> walkable e = true.
Proof. induction e; cbn [lib_chain walkable]; intros H; try discriminate; auto. Qed.

Lemma lib_chain_nonnil e : lib_chain e = true -> is_nil e = false.
Proof. destruct e; cbn; intros H; try discriminate; reflexivity. Qed.

Lemma walkable_nonnil e : walkable e = true -> is_nil e = false.
Proof. destruct e; cbn; intros H; try discriminate; reflexivity. Qed.

(* whatever the tree: a walk that answers true found the sentinel inside *)
Lemma lib_walk_sent_sound e s : lib_walk e (ESent s) = RTrue -> occurs_sent s e = true.
Proof.
  induction e; cbn [lib_walk go_eq occurs_sent]; intros H; try discriminate; try (apply IHe; exact H).
  rewrite sentinel_eqb_sym. destruct (sentinel_eqb s0 s); [reflexivity | discriminate].
Qed.

Lemma lib_is_sent id e s : lib_is id e (ESent s) = lib_walk e (ESent s).
Proof. reflexivity. Qed.

Lemma is_loop_sent_sound e s : is_loop true e (ESent s) = RTrue -> occurs_sent s e = true.
Proof.
  induction e; cbn [is_loop go_eq occurs_sent comparable]; intros H; try discriminate.
  - rewrite sentinel_eqb_sym. destruct (sentinel_eqb s0 s); [reflexivity | discriminate].
  - rewrite lib_is_sent in H. destruct (lib_walk e (ESent s)) eqn:W; cbn [res_or_else] in H; try discriminate.
    + apply lib_walk_sent_sound. exact W.
    + destruct (is_nil e); [discriminate | apply IHe; exact H].
  - destruct (is_nil e); [discriminate | apply IHe; exact H].
  - destruct (is_nil e); [discriminate | apply IHe; exact H].
  - rewrite lib_is_sent in H. destruct (lib_walk e (ESent s)) eqn:W; cbn [res_or_else] in H; try discriminate.
    + apply lib_walk_sent_sound. exact W.
    + destruct (is_nil e); [discriminate | apply IHe; exact H].
  - destruct (is_nil e); [discriminate | apply IHe; exact H].
Qed.

(* C19, "never reports a sentinel that is not in the chain": for ANY error value, however built *)
Theorem is_never_spurious e s : errors_is e (ESent s) = RTrue -> occurs_sent s e = true.
Proof.
  unfold errors_is. cbn [is_nil orb andb comparable].
  destruct (is_nil e) eqn:N; cbn [orb andb res_of_bool].
  - discriminate.
  - apply is_loop_sent_sound.
Qed.

Lemma is_loop_sent_lib_chain e s : lib_chain e = true -> is_loop true e (ESent s) = res_of_bool (occurs_sent s e).
Proof.
  induction e; cbn [lib_chain]; intros Hl; try discriminate; cbn [is_loop go_eq occurs_sent].
  - rewrite sentinel_eqb_sym. destruct (sentinel_eqb s s0); reflexivity.
  - rewrite lib_is_sent, (lib_walk_sent e s (lib_chain_walkable e Hl)), (lib_chain_nonnil e Hl), (IHe Hl).
    destruct (occurs_sent s e); reflexivity.
  - rewrite (lib_chain_nonnil e Hl). apply IHe; exact Hl.
  - rewrite (lib_chain_nonnil e Hl). apply IHe; exact Hl.
  - rewrite lib_is_sent, (lib_walk_sent e s (lib_chain_walkable e Hl)), (lib_chain_nonnil e Hl), (IHe Hl).
    destruct (occurs_sent s e); reflexivity.
  - rewrite (lib_chain_nonnil e Hl). apply IHe; exact Hl.
Qed.

Lemma in_chain_sent_occurs e s : lib_chain e = true -> in_chain_sent s e = occurs_sent s e.
Proof.
  unfold in_chain_sent.
  induction e; cbn [lib_chain]; intros Hl; try discriminate; cbn [chain existsb occurs_sent orb]; auto.
  apply orb_false_r.
Qed.

Lemma in_chain_sent_In e s : in_chain_sent s e = true <-> In (ESent s) (chain e).
Proof.
  unfold in_chain_sent. rewrite existsb_exists. split.
  - intros [n [Hin Hn]]. destruct n; try discriminate. apply sentinel_eqb_eq in Hn. subst. exact Hin.
  - intros Hin. exists (ESent s). split; [exact Hin | apply sentinel_eqb_refl].
Qed.

Lemma errors_is_lib_chain e s : lib_chain e = true -> errors_is e (ESent s) = res_of_bool (in_chain_sent s e).
Proof.
  intros Hl. unfold errors_is. rewrite (lib_chain_nonnil e Hl). cbn [is_nil orb comparable].
  rewrite in_chain_sent_occurs by exact Hl. apply is_loop_sent_lib_chain. exact Hl.
Qed.

(* C19, first clause, both directions, any depth *)
Theorem is_iff_in_chain e : lib_chain e = true ->
  forall s, (errors_is e (ESent s) = RTrue <-> In (ESent s) (chain e)) /\ errors_is e (ESent s) <> RPanic.
Proof.
  intros Hl s. rewrite errors_is_lib_chain by exact Hl. rewrite <- in_chain_sent_In.
  destruct (in_chain_sent s e); cbn; split; try split; try discriminate; try reflexivity; intros; discriminate.
Qed.

(* the exported method Error.Is, called directly, "reports whether chained error contains target" *)
Theorem method_is_iff_in_chain e s r : lib_chain e = true -> method_is e (ESent s) = Some r ->
  r = res_of_bool (in_chain_sent s e).
Proof.
  intros Hl Hm. rewrite in_chain_sent_occurs by exact Hl.
  destruct e; cbn [method_is] in Hm; try discriminate; inversion Hm; subst r;
    cbn [lib_chain occurs_sent] in *; rewrite lib_is_sent; apply lib_walk_sent; apply lib_chain_walkable; exact Hl.
Qed.

(* no panic and a definite answer also with foreign Err-field wrappers in the chain *)
Lemma is_loop_sent_walkable_total e s : walkable e = true ->
  is_loop true e (ESent s) = RTrue \/ is_loop true e (ESent s) = RFalse.
Proof.
  induction e; cbn [walkable]; intros Hw; try discriminate; cbn [is_loop go_eq].
  - destruct (sentinel_eqb s0 s); cbn; auto.
  - rewrite lib_is_sent, (lib_walk_sent e s Hw), (walkable_nonnil e Hw).
    destruct (occurs_sent s e); cbn; auto.
  - rewrite (walkable_nonnil e Hw). auto.
  - rewrite (walkable_nonnil e Hw). auto.
  - rewrite lib_is_sent, (lib_walk_sent e s Hw), (walkable_nonnil e Hw).
    destruct (occurs_sent s e); cbn; auto.
  - rewrite (walkable_nonnil e Hw). auto.
  - auto.
Qed.

(* below a library wrapper the sentinel is also found through exported Err fields *)
Theorem is_through_err_field id e s : walkable e = true ->
  errors_is (ELib id e) (ESent s) = res_of_bool (occurs_sent s e).
Proof.
  intros Hw. unfold errors_is. cbn [is_nil orb comparable is_loop go_eq].
  rewrite lib_is_sent, (lib_walk_sent e s Hw), (walkable_nonnil e Hw).
  destruct (occurs_sent s e) eqn:O; cbn [res_of_bool res_or_else]; [reflexivity|].
  destruct (is_loop_sent_walkable_total e s Hw) as [H|H]; [|exact H].
  apply is_loop_sent_sound in H. congruence.
Qed.

Lemma is_loop_headed_lib id e s : walkable e = true ->
  is_loop true (ELib id e) (ESent s) = res_of_bool (occurs_sent s e).
Proof.
  intros Hw. cbn [is_loop go_eq].
  rewrite lib_is_sent, (lib_walk_sent e s Hw), (walkable_nonnil e Hw).
  destruct (occurs_sent s e) eqn:O; cbn [res_of_bool res_or_else]; [reflexivity|].
  destruct (is_loop_sent_walkable_total e s Hw) as [H|H]; [|exact H].
  apply is_loop_sent_sound in H. congruence.
Qed.

Lemma is_loop_headed_retry id lid e h s : walkable e = true ->
  is_loop true (EWithRetry id lid e h) (ESent s) = res_of_bool (occurs_sent s e).
Proof.
  intros Hw. cbn [is_loop go_eq].
  rewrite lib_is_sent, (lib_walk_sent e s Hw), (walkable_nonnil e Hw).
  destruct (occurs_sent s e) eqn:O; cbn [res_of_bool res_or_else]; [reflexivity|].
  destruct (is_loop_sent_walkable_total e s Hw) as [H|H]; [|exact H].
  apply is_loop_sent_sound in H. congruence.
Qed.

Lemma ext_chain_nonnil e : ext_chain e = true -> is_nil e = false.
Proof. destruct e; cbn; intros H; try discriminate; reflexivity. Qed.

(* both previous results in one: wrappers without an Is method on top, then a library wrapper with
   anything walkable below it *)
Theorem is_ext_chain e s : ext_chain e = true -> errors_is e (ESent s) = res_of_bool (occurs_sent s e).
Proof.
  intros He. unfold errors_is. rewrite (ext_chain_nonnil e He). cbn [is_nil orb comparable].
  induction e; cbn [ext_chain] in He; try discriminate.
  - cbn [is_loop go_eq occurs_sent]. rewrite sentinel_eqb_sym. destruct (sentinel_eqb s s0); reflexivity.
  - cbn [occurs_sent]. apply is_loop_headed_lib. exact He.
  - cbn [is_loop go_eq occurs_sent]. rewrite (ext_chain_nonnil e He). apply IHe. exact He.
  - cbn [is_loop go_eq occurs_sent]. rewrite (ext_chain_nonnil e He). apply IHe. exact He.
  - cbn [occurs_sent]. apply is_loop_headed_retry. exact He.
  - cbn [is_loop go_eq occurs_sent]. rewrite (ext_chain_nonnil e He). apply IHe. exact He.
Qed.

(* ---------- any comparable target: identity of a node of the chain ---------- *)
Definition same_value (t n : err) : bool := match go_eq n t with CTrue => true | _ => false end.

Lemma lib_walk_sound_chain e t : lib_chain e = true -> comparable t = true ->
  (lib_walk e t = RTrue -> existsb (same_value t) (chain e) = true) /\ lib_walk e t <> RPanic.
Proof.
  intros Hl Hc. induction e; cbn [lib_chain] in Hl; try discriminate.
  - cbn [lib_walk chain existsb]. unfold same_value.
    pose proof (go_eq_comparable_no_panic (ESent s) t Hc) as NP.
    destruct (go_eq (ESent s) t); cbn; split; try discriminate; try reflexivity; try contradiction; auto.
  - specialize (IHe Hl). destruct IHe as [IH1 IH2].
    cbn [lib_walk chain existsb]. unfold same_value at 1.
    pose proof (go_eq_comparable_no_panic (ELib id e) t Hc) as NP.
    destruct (go_eq (ELib id e) t); cbn [orb]; split; try reflexivity; try discriminate; try contradiction; auto.
  - specialize (IHe Hl). destruct IHe as [IH1 IH2].
    cbn [lib_walk chain existsb]. unfold same_value at 1.
    pose proof (go_eq_comparable_no_panic (EFmt id e) t Hc) as NP.
    destruct (go_eq (EFmt id e) t); cbn [orb]; split; try reflexivity; try discriminate; try contradiction; auto.
  - specialize (IHe Hl). destruct IHe as [IH1 IH2].
    cbn [lib_walk chain existsb]. unfold same_value at 1.
    pose proof (go_eq_comparable_no_panic (EConn id code e) t Hc) as NP.
    destruct (go_eq (EConn id code e) t); cbn [orb]; split; try reflexivity; try discriminate; try contradiction; auto.
  - specialize (IHe Hl). destruct IHe as [IH1 IH2].
    cbn [lib_walk chain existsb]. unfold same_value at 1.
    pose proof (go_eq_comparable_no_panic (EWithRetry id lid e h) t Hc) as NP.
    destruct (go_eq (EWithRetry id lid e h) t); cbn [orb]; split; try reflexivity; try discriminate; try contradiction; auto.
    intros W. rewrite (IH1 W). apply orb_true_r.
  - specialize (IHe Hl). destruct IHe as [IH1 IH2].
    cbn [lib_walk chain existsb]. unfold same_value at 1.
    pose proof (go_eq_comparable_no_panic (EReqTimeout id e) t Hc) as NP.
    destruct (go_eq (EReqTimeout id e) t); cbn [orb]; split; try reflexivity; try discriminate; try contradiction; auto.
Qed.

Lemma lib_is_chain id e t : lib_chain e = true -> comparable t = true -> is_nil t = false ->
  (lib_is id e t = RTrue -> same_value t (ELib id e) || existsb (same_value t) (chain e) = true)
  /\ (same_value t (ELib id e) = true -> lib_is id e t = RTrue)
  /\ lib_is id e t <> RPanic.
Proof.
  intros Hl Hc Hn. unfold lib_is, same_value. rewrite (go_eq_sym t (ELib id e)). rewrite Hn.
  destruct (lib_walk_sound_chain e t Hl Hc) as [W1 W2].
  destruct (go_eq (ELib id e) t); cbn [orb]; repeat split; try reflexivity; try discriminate; auto.
Qed.

Lemma is_loop_any_target e t : lib_chain e = true -> comparable t = true -> is_nil t = false ->
  is_loop true e t = res_of_bool (existsb (same_value t) (chain e)).
Proof.
  intros Hl Hc Hn. induction e; cbn [lib_chain] in Hl; try discriminate.
  - cbn [is_loop chain existsb]. unfold same_value.
    pose proof (go_eq_comparable_no_panic (ESent s) t Hc) as NP.
    destruct (go_eq (ESent s) t); cbn; try reflexivity; contradiction.
  - specialize (IHe Hl). cbn [is_loop chain existsb].
    destruct (lib_is_chain id e t Hl Hc Hn) as [L1 [L2 L3]].
    destruct (go_eq (ELib id e) t) eqn:G.
    + unfold same_value at 1. rewrite G. reflexivity.
    + assert (S0 : same_value t (ELib id e) = false) by (unfold same_value; rewrite G; reflexivity).
      rewrite S0 in *. cbn [orb] in *. rewrite (lib_chain_nonnil e Hl), IHe.
      destruct (lib_is id e t); cbn [res_or_else]; [rewrite L1; reflexivity | reflexivity | contradiction].
    + exfalso. exact (go_eq_comparable_no_panic _ _ Hc G).
  - specialize (IHe Hl). cbn [is_loop chain existsb]. unfold same_value at 1.
    pose proof (go_eq_comparable_no_panic (EFmt id e) t Hc) as NP.
    destruct (go_eq (EFmt id e) t); cbn [orb]; try reflexivity; try contradiction.
    rewrite (lib_chain_nonnil e Hl). exact IHe.
  - specialize (IHe Hl). cbn [is_loop chain existsb]. unfold same_value at 1.
    pose proof (go_eq_comparable_no_panic (EConn id code e) t Hc) as NP.
    destruct (go_eq (EConn id code e) t); cbn [orb]; try reflexivity; try contradiction.
    rewrite (lib_chain_nonnil e Hl). exact IHe.
  - specialize (IHe Hl). cbn [is_loop chain existsb].
    destruct (lib_is_chain lid e t Hl Hc Hn) as [L1 [L2 L3]].
    unfold same_value at 1.
    pose proof (go_eq_comparable_no_panic (EWithRetry id lid e h) t Hc) as NP.
    destruct (go_eq (EWithRetry id lid e h) t); cbn [orb]; try reflexivity; try contradiction.
    rewrite (lib_chain_nonnil e Hl), IHe.
    destruct (same_value t (ELib lid e)) eqn:S0.
    + rewrite (L2 eq_refl). reflexivity.
    + cbn [orb] in *. destruct (lib_is lid e t); cbn [res_or_else]; [rewrite L1; reflexivity | reflexivity | contradiction].
  - specialize (IHe Hl). cbn [is_loop chain existsb]. unfold same_value at 1.
    pose proof (go_eq_comparable_no_panic (EReqTimeout id e) t Hc) as NP.
    destruct (go_eq (EReqTimeout id e) t); cbn [orb]; try reflexivity; try contradiction.
    rewrite (lib_chain_nonnil e Hl). exact IHe.
Qed.

(* errors.Is with ANY comparable, non-nil target answers exactly "some value of the chain == target" *)
Theorem is_any_target e t : lib_chain e = true -> comparable t = true -> is_nil t = false ->
  errors_is e t = res_of_bool (existsb (same_value t) (chain e)).
Proof.
  intros Hl Hc Hn. unfold errors_is. rewrite (lib_chain_nonnil e Hl), Hn, Hc. cbn [orb].
  apply is_loop_any_target; assumption.
Qed.

(* ---------- look-alikes are never confused with the real thing ---------- *)
Lemma erase_retag k e : erase (retag k e) = erase e.
Proof. induction e; cbn [retag erase]; try rewrite IHe; reflexivity. Qed.

Lemma retag_wrapper k t i : node_id t = Some i -> comparable (retag k t) = true /\ is_nil (retag k t) = false.
Proof. destruct t; cbn; intros H; try discriminate; split; reflexivity. Qed.

Lemma same_value_retag k t n i : node_id t = Some i ->
  (forall j, node_id n = Some j -> (j < k)%nat) -> same_value (retag k t) n = false.
Proof.
  intros Ht Hn. unfold same_value.
  destruct t; cbn [node_id] in Ht; try discriminate; cbn [retag];
    destruct n; cbn [go_eq]; try reflexivity;
    (match goal with |- context [Nat.eqb ?a ?b] =>
       specialize (Hn a eq_refl); destruct (Nat.eqb_spec a b); [lia | reflexivity] end).
Qed.

Lemma no_same_value_in_chain k t i l : node_id t = Some i ->
  forallb (fun n => match node_id n with Some j => Nat.ltb j k | None => true end) l = true ->
  existsb (same_value (retag k t)) l = false.
Proof.
  intros Ht. induction l as [|n r IH]; intros H; [reflexivity|].
  cbn [forallb existsb] in *. apply andb_true_iff in H as [H1 H2].
  rewrite (same_value_retag k t n i Ht), (IH H2); [reflexivity|].
  intros j Hj. rewrite Hj in H1. apply Nat.ltb_lt. exact H1.
Qed.

Lemma method_is_sent_sound e s r : method_is e (ESent s) = Some r -> r = RTrue -> occurs_sent s e = true.
Proof.
  destruct e; cbn [method_is]; intros H; try discriminate; inversion H; subst r; rewrite lib_is_sent;
    intros W; cbn [occurs_sent]; apply lib_walk_sent_sound; exact W.
Qed.

(* a sentinel that does not itself (by identity) occur in the value is not reported — whatever else
   the value contains, e.g. a foreign errors.New with the very same text ([twin_of s]) *)
Theorem lookalike_sentinel_not_reported e s : occurs_sent s e = false ->
  errors_is e (ESent s) <> RTrue /\ (forall r, method_is e (ESent s) = Some r -> r <> RTrue).
Proof.
  intros Ho. split.
  - intros H. apply is_never_spurious in H. congruence.
  - intros r Hm Hr. pose proof (method_is_sent_sound e s r Hm Hr). congruence.
Qed.

Lemma twin_is_other s s' : sentinel_eqb s' (twin_of s) = true -> s' = twin_of s.
Proof. apply sentinel_eqb_eq. Qed.

Lemma twin_differs s : In s documented_sentinels -> sentinel_eqb s (twin_of s) = false.
Proof.
  intros H. unfold sentinel_eqb, twin_of. cbn [sentinel_code].
  cbn [documented_sentinels In] in H.
  repeat (destruct H as [H|H]; [subst s; reflexivity|]). contradiction.
Qed.

(* a wrapper built a second time (same fields, same nesting, same sentinel inside: equal content,
   [erase] cannot tell them apart) is a different value and is not found in the chain, neither by
   errors.Is nor by the Is method *)
Theorem lookalike_wrapper_not_reported e t k i :
  lib_chain e = true -> node_id t = Some i -> ids_below k e = true ->
  erase (retag k t) = erase t /\
  errors_is e (retag k t) = RFalse /\
  (forall r, method_is e (retag k t) = Some r -> r = RFalse).
Proof.
  intros Hl Ht Hk. destruct (retag_wrapper k t i Ht) as [Hc Hn].
  pose proof (no_same_value_in_chain k t i (chain e) Ht Hk) as Hno.
  split; [apply erase_retag|]. split.
  - rewrite (is_any_target e (retag k t) Hl Hc Hn), Hno. reflexivity.
  - intros r Hm.
    destruct e; cbn [method_is] in Hm; try discriminate; inversion Hm; subst r; cbn [lib_chain] in Hl.
    + destruct (lib_is_chain id e (retag k t) Hl Hc Hn) as [L1 [_ L3]].
      cbn [chain existsb] in Hno. apply orb_false_iff in Hno as [N1 N2].
      destruct (lib_is id e (retag k t)); [|reflexivity|contradiction].
      specialize (L1 eq_refl). rewrite N1, N2 in L1. discriminate.
    + destruct (lib_is_chain lid e (retag k t) Hl Hc Hn) as [L1 [_ L3]].
      cbn [chain existsb] in Hno. apply orb_false_iff in Hno as [_ Hno].
      apply orb_false_iff in Hno as [N1 N2].
      destruct (lib_is lid e (retag k t)); [|reflexivity|contradiction].
      specialize (L1 eq_refl). rewrite N1, N2 in L1. discriminate.
Qed.

(* ---------- wrapErrorImpl: io.EOF and nil pass through, nothing else does ---------- *)
Lemma wrap_error_impl_cases id e :
  (e = ESent SEOF /\ wrap_error_impl id e = ESent SEOF) \/
  (e = ENil /\ wrap_error_impl id e = ENil) \/
  (e <> ESent SEOF /\ e <> ENil /\ wrap_error_impl id e = ELib id e).
Proof.
  unfold wrap_error_impl.
  destruct (go_eq e (ESent SEOF)) eqn:G.
  - left. apply go_eq_sent_true in G. auto.
  - right. destruct e; cbn [go_eq]; auto; right; repeat split; try discriminate; try reflexivity.
    intros E. rewrite E in G. cbn in G. discriminate.
  - exfalso. exact (go_eq_sent_no_panic _ _ G).
Qed.

Theorem eof_unwrapped :
  (forall id, wrap_error_impl id (ESent SEOF) = ESent SEOF) /\
  (forall id, wrap_error_impl id ENil = ENil) /\
  (forall id h, wrap_with_retry id (ESent SEOF) h = ESent SEOF) /\
  (forall id e, e <> ESent SEOF -> e <> ENil -> wrap_error_impl id e = ELib id e) /\
  (forall id e h, e <> ESent SEOF -> e <> ENil -> wrap_with_retry id e h = EWithRetry id (S id) e h).
Proof.
  repeat split; try reflexivity.
  - intros id e H1 H2. destruct (wrap_error_impl_cases id e) as [[E _]|[[E _]|[_ [_ E]]]]; try contradiction. exact E.
  - intros id e h H1 H2. unfold wrap_with_retry.
    destruct (wrap_error_impl_cases (S id) e) as [[E _]|[[E _]|[_ [_ E]]]]; try contradiction. rewrite E. reflexivity.
Qed.

(* only io.EOF ITSELF passes: an error that merely wraps io.EOF keeps its whole chain *)
Theorem eof_only_bare id e : is_bare_eof (wrap_error_impl id e) = true -> e = ESent SEOF.
Proof.
  destruct (wrap_error_impl_cases id e) as [[E _]|[[E W]|[_ [_ W]]]]; [auto | |]; rewrite W; cbn; discriminate.
Qed.

(* ---------- chains built by the wrappers stay chains, with the same leaf ---------- *)
Fixpoint leaf (e : err) : option sentinel :=
  match e with
  | ESent s => Some s
  | ELib _ e' | EFmt _ e' | EConn _ _ e' | EReqTimeout _ e' | EWithRetry _ _ e' _ => leaf e'
  | _ => None
  end.

Lemma occurs_leaf e s : lib_chain e = true -> occurs_sent s e = leaf_is s (leaf e).
Proof. induction e; cbn [lib_chain]; intros H; try discriminate; cbn [occurs_sent leaf leaf_is]; auto. Qed.

Definition good (e : err) (l : option sentinel) : Prop := lib_chain e = true /\ leaf e = l.

Lemma good_wrap id e l : good e l -> good (wrap_error_impl id e) l.
Proof.
  intros [H1 H2]. destruct (wrap_error_impl_cases id e) as [[E W]|[[E W]|[_ [_ W]]]]; rewrite W.
  - subst. split; [reflexivity | reflexivity].
  - subst. discriminate.
  - split; cbn; assumption.
Qed.

Lemma good_wrap_retry id e h l : good e l -> good (wrap_with_retry id e h) l.
Proof.
  intros [H1 H2]. unfold wrap_with_retry.
  destruct (wrap_error_impl_cases (S id) e) as [[E W]|[[E W]|[_ [_ W]]]]; rewrite W.
  - subst. split; reflexivity.
  - subst. discriminate.
  - split; cbn; assumption.
Qed.

Lemma good_sent s : good (ESent s) (Some s).
Proof. split; reflexivity. Qed.

Lemma good_rt id e l : good e l -> good (request_ctx_err id e) l.
Proof. intros [H1 H2]. split; cbn; assumption. Qed.

#[local] Hint Resolve good_wrap good_wrap_retry good_sent good_rt : good.

Lemma good_ping id sc l :
  (forall e, sc_w1 sc = WFail e -> good e l) ->
  (sc_w1 sc = WOk -> sc_s1 sc = SClosed -> l = Some SClosedTransport) ->
  (forall e, sc_w1 sc = WOk -> sc_s1 sc = SCtx e -> good e l) ->
  (sc_w1 sc = WOk -> sc_s1 sc = SAck -> False) ->
  good (ping_impl id conn_client sc) l.
Proof.
  intros Hw Hc Hx Ha. unfold ping_impl. cbn [cl_connected conn_client negb].
  destruct (sc_w1 sc) eqn:W.
  - destruct (sc_s1 sc) eqn:S.
    + exfalso. auto.
    + rewrite (Hc eq_refl eq_refl). apply good_wrap, good_sent.
    + apply good_wrap. auto.
  - apply good_wrap. auto.
Qed.

(* every call of the harness language returns a library chain whose leaf is the cause's leaf, or
   the documented sentinel of that failure *)
Lemma good_call id ck c l : call_ok ck = true ->
  (uses_cause ck = true -> good c l) ->
  (uses_cause ck = false -> l = Some (call_sentinel ck)) ->
  good (call_error id ck c) l.
Proof.
  intros Hok Hc Hs.
  destruct ck as [k f| | |rt f|k|k|retry q| |code| | |n|n|k p2|k p2 n|hist]; cbn [call_error].
  - (* CkReq *)
    destruct k, f; cbn [call_ok] in Hok; try discriminate;
      cbn [uses_cause call_sentinel] in *;
      try (specialize (Hc eq_refl)); try (specialize (Hs eq_refl); subst l);
      unfold req_error, ret_err, publish_impl, subscribe_impl, unsubscribe_impl, ping_impl, connect_impl, retry_publish2;
      cbn -[wrap_with_retry wrap_error wrap_error_impl];
      auto with good; try (apply good_wrap; auto with good).
  - apply good_wrap. apply Hc. reflexivity.
  - apply good_wrap, good_wrap. apply Hc. reflexivity.
  - (* CkRetryPing *)
    destruct f; cbn [call_ok] in Hok; try discriminate; cbn [uses_cause call_sentinel] in *;
      try (specialize (Hc eq_refl)); try (specialize (Hs eq_refl); subst l);
      apply good_wrap; unfold ping_impl; cbn -[wrap_error];
      try (apply good_wrap; auto with good).
    destruct rt; auto with good.
  - (* CkRetryTimeout *)
    specialize (Hs eq_refl). subst l. cbn [call_sentinel].
    destruct k; cbn [call_ok] in Hok; try discriminate;
      unfold req_error, ret_err, publish_impl, subscribe_impl, unsubscribe_impl, ping_impl;
      cbn -[wrap_with_retry wrap_error wrap_error_impl];
      try (apply good_wrap_retry, good_rt, good_sent).
    apply good_wrap, good_wrap, good_rt, good_sent.
  - specialize (Hs eq_refl). subst l. apply good_sent.
  - specialize (Hs eq_refl). subst l. cbn [call_sentinel]. destruct retry, q; repeat apply good_wrap; apply good_sent.
  - specialize (Hs eq_refl). subst l. apply good_wrap, good_sent.
  - specialize (Hs eq_refl). subst l. apply good_wrap. split; reflexivity.
  - specialize (Hs eq_refl). subst l. apply good_wrap, good_sent.
  - specialize (Hs eq_refl). subst l. apply good_wrap, good_wrap, good_sent.
  - specialize (Hs eq_refl). subst l. cbn [call_sentinel].
    destruct (n =? 0); [apply good_sent|].
    destruct (n =? 1); [apply good_wrap, good_sent|].
    destruct (n =? 2); [apply good_wrap, good_sent|].
    destruct (n =? 3); apply good_wrap, good_sent.
  - (* CkKeepAlive *)
    cbn [call_ok uses_cause call_sentinel] in *.
    destruct (n =? 0) eqn:N0; cbn [negb] in *.
    + specialize (Hs eq_refl). subst l. apply good_wrap, good_sent.
    + specialize (Hc eq_refl). destruct (n =? 1); [apply good_wrap; exact Hc|].
      unfold ping_impl. cbn -[wrap_error]. apply good_wrap. exact Hc.
  - (* CkRetryClosed *)
    specialize (Hs eq_refl). subst l. cbn [call_sentinel call_error]. cbn [call_ok] in Hok.
    destruct k, p2; cbn in Hok; try discriminate; split; reflexivity.
  - (* CkRetryRetx *)
    specialize (Hs eq_refl). subst l. cbn [call_sentinel call_error].
    cbn [call_ok] in Hok. apply andb_true_iff in Hok as [Hn Hk].
    apply orb_true_iff in Hn as [Hn|Hn]; apply N.eqb_eq in Hn; subst n;
      destruct k, p2; cbn in Hk; try discriminate; split; reflexivity.
  - (* CkReconnConnect *)
    apply good_wrap. apply Hc. reflexivity.
Qed.

Lemma good_build d : shaped d = true -> good (build d) (spec_leaf d).
Proof.
  induction d; cbn [shaped]; intros H; try discriminate; cbn [build spec_leaf].
  - apply good_sent.
  - destruct (IHd H). split; cbn; assumption.
  - destruct (IHd H). split; cbn; assumption.
  - destruct (IHd H). split; cbn; assumption.
  - apply andb_true_iff in H as [H1 H2]. apply good_call; [exact H1| |].
    + intros U. rewrite U in *. auto.
    + intros U. rewrite U. reflexivity.
Qed.

(* C19 first clause for everything the library's real code paths and constructors build: the
   sentinel at the bottom is found, no other sentinel is reported, whatever the depth *)
Theorem built_is_iff_leaf d : shaped d = true ->
  forall s, errors_is (build d) (ESent s) = res_of_bool (leaf_is s (spec_leaf d)).
Proof.
  intros H s. destruct (good_build d H) as [G1 G2].
  rewrite errors_is_lib_chain by exact G1. rewrite in_chain_sent_occurs by exact G1.
  rewrite occurs_leaf by exact G1. rewrite G2. reflexivity.
Qed.

(* ---------- RequestTimeoutError stays identifiable through the library's wrappers ---------- *)
Lemma plug_good fs e l : good e l -> good (plug fs e) l.
Proof.
  intros G. induction fs as [|f r IH]; cbn [plug]; [exact G|].
  destruct IH as [H1 H2]. destruct f; split; cbn; assumption.
Qed.

Lemma errors_is_good e l s : good e l -> errors_is e (ESent s) = res_of_bool (leaf_is s l).
Proof.
  intros [G1 G2]. rewrite errors_is_lib_chain by exact G1. rewrite in_chain_sent_occurs by exact G1.
  rewrite occurs_leaf by exact G1. rewrite G2. reflexivity.
Qed.

Theorem timeout_identifiable fs id ce :
  errors_as AsReqTimeout (plug fs (EReqTimeout id (ESent ce))) = true /\
  errors_is (plug fs (EReqTimeout id (ESent ce))) (ESent ce) = RTrue.
Proof.
  split.
  - induction fs as [|f r IH]; cbn [plug]; [reflexivity|]. destruct f; cbn [plug1 errors_as type_matches]; exact IH.
  - rewrite (errors_is_good _ (Some ce)).
    + cbn. rewrite sentinel_eqb_refl. reflexivity.
    + apply plug_good. split; reflexivity.
Qed.

(* the expired ResponseTimeout on each path of the retrying client *)
Theorem timeout_calls id k : call_ok (CkRetryTimeout k) = true ->
  let e := call_error id (CkRetryTimeout k) ENil in
  errors_as AsReqTimeout e = true /\ errors_is e (ESent SDeadlineExceeded) = RTrue /\
  (retryable_kind k = true -> implements_retry e = true).
Proof.
  intros Hok e. subst e. destruct k; cbn [call_ok] in Hok; try discriminate; repeat split; try reflexivity;
    cbn [retryable_kind]; try discriminate.
Qed.

(* ---------- a done caller context is found in what the calls return ---------- *)
Theorem ctx_error_found id ck ce : ctx_call ck = true ->
  errors_is (call_error id ck (ESent ce)) (ESent ce) = RTrue.
Proof.
  intros H. rewrite (errors_is_good _ (Some ce)).
  - cbn. rewrite sentinel_eqb_refl. reflexivity.
  - destruct ck as [k f| | |rt f|k|k|retry q| |code| | |n|n|k p2|k p2 n|hist]; cbn [ctx_call] in H; try discriminate.
    + apply andb_true_iff in H as [H1 H2]. apply good_call; [exact H1 | intros _; apply good_sent |].
      destruct f; cbn in H2 |- *; discriminate.
    + destruct f; try discriminate. apply good_call; [reflexivity | intros _; apply good_sent | cbn; discriminate].
    + apply N.eqb_eq in H. subst n. apply good_call; [reflexivity | intros _; apply good_sent | cbn; discriminate].
    + apply good_call; [exact H | intros _; apply good_sent | cbn; discriminate].
Qed.

(* ---------- the retry handle: the closures refine the retransmission protocol ---------- *)
Lemma is_bare_eof_iff e : is_bare_eof e = true <-> e = ESent SEOF.
Proof.
  split; [|intros ->; reflexivity].
  destruct e; try discriminate. destruct s; try discriminate. reflexivity.
Qed.

Lemma obs_wrap_retry c tr eid e h : is_nil e = false ->
  obs_of {| ao_client := c; ao_events := tr; ao_result := Ret (wrap_with_retry eid e h) |} = mk_obs c tr (Some e)
  /\ retry_handle (wrap_with_retry eid e h) = (if is_bare_eof e then None else Some h).
Proof.
  intros Hn. unfold wrap_with_retry.
  destruct (wrap_error_impl_cases (S eid) e) as [[E W]|[[E W]|[N1 [N2 W]]]]; rewrite W.
  - subst. split; reflexivity.
  - subst. discriminate.
  - destruct (is_bare_eof e) eqn:B; [apply is_bare_eof_iff in B; contradiction|].
    unfold obs_of, mk_obs, classify. cbn [ao_result ao_client ao_events retry_handle]. rewrite B. split; reflexivity.
Qed.

(* a write followed by one wait, all failing arms returning wrapErrorWithRetry(cause, h) *)
Definition one_step (eid : nat) (tr : list event) (h : handle) (w : wres) (s : sres) : list event * rres :=
  match step_fail w s with
  | Some e => (tr, Ret (wrap_with_retry eid e h))
  | None => (tr, Ret ENil)
  end.

Definition next_handle (rr : rres) : option handle :=
  match rr with Ret e => retry_handle e | GoPanic => None end.

Lemma step_fail_nonnil w s e : cause_nonnil w s = true -> step_fail w s = Some e -> is_nil e = false.
Proof.
  unfold cause_nonnil, step_fail. destruct w, s; cbn; intros H E; inversion E; subst; try reflexivity;
    try (apply andb_true_iff in H as [H1 H2]); try (apply negb_true_iff; assumption).
Qed.

Lemma one_step_obs eid c tr h w s : cause_nonnil w s = true ->
  obs_of {| ao_client := c; ao_events := fst (one_step eid tr h w s); ao_result := snd (one_step eid tr h w s) |}
    = mk_obs c tr (step_fail w s)
  /\ next_handle (snd (one_step eid tr h w s)) =
     (match ob_class (mk_obs c tr (step_fail w s)) with RcRetry => Some h | _ => None end).
Proof.
  intros Hn. unfold one_step. destruct (step_fail w s) as [e|] eqn:F; cbn [fst snd].
  - destruct (obs_wrap_retry c tr eid e h (step_fail_nonnil w s e Hn F)) as [O1 O2].
    rewrite O1. split; [reflexivity|]. cbn [next_handle]. rewrite O2.
    unfold mk_obs, classify. cbn [ob_class]. destruct (is_bare_eof e); reflexivity.
  - split; reflexivity.
Qed.

Lemma retry_publish2_one_step eid c m w s : cl_connected c = true ->
  retry_publish2 eid c m w s =
  one_step eid [EvReg (cl_name c) WkPubComp (m_id m); EvWrite (cl_name c) (PPubRel (m_id m))] (HRetryPublish2 m) w s.
Proof. intros Hc. unfold retry_publish2, one_step, step_fail. rewrite Hc. destruct w, s; reflexivity. Qed.

Lemma subscribe_one_step eid c nid subs sc : cl_connected c = true -> forallb (fun s => snd s <=? 2) subs = true ->
  subscribe_impl eid c nid subs sc =
  one_step eid [EvReg (cl_name c) WkSubAck nid; EvWrite (cl_name c) (PSubscribe nid subs)] (HRetrySubscribe subs) (sc_w1 sc) (sc_s1 sc).
Proof.
  intros Hc Hq. unfold subscribe_impl, one_step, step_fail. rewrite Hc. cbn [negb].
  replace (existsb (fun s => 2 <? snd s) subs) with false.
  - destruct (sc_w1 sc), (sc_s1 sc); reflexivity.
  - symmetry. induction subs as [|x r IH]; [reflexivity|]. cbn [forallb existsb] in *.
    apply andb_true_iff in Hq as [H1 H2]. rewrite (IH H2). rewrite orb_false_r. lia.
Qed.

Lemma unsubscribe_one_step eid c nid ts sc : cl_connected c = true ->
  unsubscribe_impl eid c nid ts sc =
  one_step eid [EvReg (cl_name c) WkUnsubAck nid; EvWrite (cl_name c) (PUnsubscribe nid ts)] (HRetryUnsubscribe ts) (sc_w1 sc) (sc_s1 sc).
Proof. intros Hc. unfold unsubscribe_impl, one_step, step_fail. rewrite Hc. destruct (sc_w1 sc), (sc_s1 sc); reflexivity. Qed.

(* what the handle must be in each phase *)
Definition handle_matches (r : request) (pid : N) (ph : phase) (h : handle) : Prop :=
  match r with
  | RqPublish m =>
      match ph with
      | PhFirst => False
      | PhAgain => exists m', h = HRetryPublish m' /\ set_dup m' true = set_dup (set_id m pid) true
      | PhRel => exists m', h = HRetryPublish2 m' /\ m_id m' = pid
      end
  | RqSubscribe subs => h = HRetrySubscribe subs
  | RqUnsubscribe ts => h = HRetryUnsubscribe ts
  end.

(* publishImpl for a message whose identifier is already pid <> 0, QoS 1 or 2, connected client *)
Lemma publish_step eid c nid m' dup sc pid m (first : bool) :
  cl_connected c = true -> (m_qos m =? 1) || (m_qos m =? 2) = true ->
  set_dup (assign_id m' nid) dup = set_dup (set_id m pid) dup ->
  cause_nonnil (sc_w1 sc) (sc_s1 sc) = true -> cause_nonnil (sc_w2 sc) (sc_s2 sc) = true ->
  let a := {| at_client := c; at_nid := nid; at_script := sc |} in
  let res := publish_impl eid c nid m' dup sc in
  let o := obs_of {| ao_client := cl_name c; ao_events := fst res; ao_result := snd res |} in
  let ev1 := [EvReg (cl_name c) (if m_qos m =? 1 then WkPubAck else WkPubRec) pid;
              EvWrite (cl_name c) (PPublish (set_dup (set_id m pid) dup))] in
  (match step_fail (sc_w1 sc) (sc_s1 sc) with
   | Some e => o = mk_obs (cl_name c) ev1 (Some e)
   | None => if m_qos m =? 1 then o = mk_obs (cl_name c) ev1 None
             else o = mk_obs (cl_name c) (ev1 ++ [EvReg (cl_name c) WkPubComp pid; EvWrite (cl_name c) (PPubRel pid)])
                             (step_fail (sc_w2 sc) (sc_s2 sc))
   end) /\
  (match next_handle (snd res) with
   | Some h => ob_class o = RcRetry /\
               handle_matches (RqPublish m) pid
                 (match step_fail (sc_w1 sc) (sc_s1 sc) with Some _ => PhAgain | None => if m_qos m =? 1 then PhAgain else PhRel end) h
   | None => ob_class o <> RcRetry
   end).
Proof.
  intros Hc Hq Hm Hn1 Hn2. cbn zeta.
  unfold publish_impl. rewrite Hm, Hc. cbn [negb].
  set (pm := set_dup (set_id m pid) dup).
  assert (Eq : m_qos pm = m_qos m) by reflexivity.
  assert (Ei : m_id pm = pid) by reflexivity.
  rewrite Eq, Ei.
  assert (Hq2 : 2 <? m_qos m = false) by lia. rewrite Hq2.
  assert (Hq0 : 0 <? m_qos m = true) by lia. rewrite Hq0.
  destruct (m_qos m =? 1) eqn:Q1.
  - (* QoS 1 *)
    pose proof (one_step_obs eid (cl_name c) [EvReg (cl_name c) WkPubAck pid; EvWrite (cl_name c) (PPublish pm)]
                  (HRetryPublish pm) (sc_w1 sc) (sc_s1 sc) Hn1) as [O1 O2].
    assert (E : (match sc_w1 sc with
                 | WFail e => ([EvReg (cl_name c) WkPubAck pid] ++ [EvWrite (cl_name c) (PPublish pm)], Ret (wrap_with_retry eid e (HRetryPublish pm)))
                 | WOk => match sc_s1 sc with
                          | SAck => ([EvReg (cl_name c) WkPubAck pid] ++ [EvWrite (cl_name c) (PPublish pm)], Ret ENil)
                          | SClosed => ([EvReg (cl_name c) WkPubAck pid] ++ [EvWrite (cl_name c) (PPublish pm)], Ret (wrap_with_retry eid (ESent SClosedTransport) (HRetryPublish pm)))
                          | SCtx e => ([EvReg (cl_name c) WkPubAck pid] ++ [EvWrite (cl_name c) (PPublish pm)], Ret (wrap_with_retry eid e (HRetryPublish pm)))
                          end
                 end) = one_step eid [EvReg (cl_name c) WkPubAck pid; EvWrite (cl_name c) (PPublish pm)] (HRetryPublish pm) (sc_w1 sc) (sc_s1 sc)).
    { unfold one_step, step_fail. destruct (sc_w1 sc), (sc_s1 sc); reflexivity. }
    rewrite E. rewrite O1, O2. split.
    + destruct (step_fail (sc_w1 sc) (sc_s1 sc)); reflexivity.
    + destruct (step_fail (sc_w1 sc) (sc_s1 sc)) as [e|]; cbn [mk_obs ob_class].
      * destruct (classify e) eqn:C; try discriminate. split; [reflexivity|].
        cbn [handle_matches]. exists pm. split; [reflexivity|]. reflexivity.
      * discriminate.
  - (* QoS 2 *)
    assert (Q2 : m_qos m =? 2 = true) by (destruct (m_qos m =? 2); [reflexivity | cbn in Hq; discriminate]). rewrite Q2.
    set (ev1 := [EvReg (cl_name c) WkPubRec pid; EvWrite (cl_name c) (PPublish pm)]).
    change ([EvReg (cl_name c) WkPubRec pid] ++ [EvWrite (cl_name c) (PPublish pm)]) with ev1.
    destruct (step_fail (sc_w1 sc) (sc_s1 sc)) as [e|] eqn:F.
    + (* first step fails *)
      pose proof (one_step_obs eid (cl_name c) ev1 (HRetryPublish pm) (sc_w1 sc) (sc_s1 sc) Hn1) as [O1 O2].
      assert (E : (match sc_w1 sc with
                   | WFail e0 => (ev1, Ret (wrap_with_retry eid e0 (HRetryPublish pm)))
                   | WOk => match sc_s1 sc with
                            | SAck => let '(tr2, r) := retry_publish2 eid c pm (sc_w2 sc) (sc_s2 sc) in (ev1 ++ tr2, r)
                            | SClosed => (ev1, Ret (wrap_with_retry eid (ESent SClosedTransport) (HRetryPublish pm)))
                            | SCtx e0 => (ev1, Ret (wrap_with_retry eid e0 (HRetryPublish pm)))
                            end
                   end) = one_step eid ev1 (HRetryPublish pm) (sc_w1 sc) (sc_s1 sc)).
      { unfold one_step. rewrite F. unfold step_fail in F. destruct (sc_w1 sc), (sc_s1 sc); inversion F; reflexivity. }
      rewrite E, O1, O2, F. split; [reflexivity|].
      cbn [mk_obs ob_class]. destruct (classify e) eqn:C; try discriminate. split; [reflexivity|].
      cbn [handle_matches]. exists pm. split; reflexivity.
    + (* PUBREC received: the second half *)
      assert (W : sc_w1 sc = WOk /\ sc_s1 sc = SAck).
      { unfold step_fail in F. destruct (sc_w1 sc), (sc_s1 sc); try discriminate. split; reflexivity. }
      destruct W as [W1 S1]. rewrite W1, S1.
      rewrite (retry_publish2_one_step eid c pm (sc_w2 sc) (sc_s2 sc) Hc). rewrite Ei.
      set (ev2 := [EvReg (cl_name c) WkPubComp pid; EvWrite (cl_name c) (PPubRel pid)]).
      pose proof (one_step_obs eid (cl_name c) (ev1 ++ ev2) (HRetryPublish2 pm) (sc_w2 sc) (sc_s2 sc) Hn2) as [O1 O2].
      assert (E : (let '(tr2, r) := one_step eid ev2 (HRetryPublish2 pm) (sc_w2 sc) (sc_s2 sc) in (ev1 ++ tr2, r))
                  = one_step eid (ev1 ++ ev2) (HRetryPublish2 pm) (sc_w2 sc) (sc_s2 sc)).
      { unfold one_step. destruct (step_fail (sc_w2 sc) (sc_s2 sc)); reflexivity. }
      rewrite E, O1, O2. split; [reflexivity|].
      destruct (step_fail (sc_w2 sc) (sc_s2 sc)) as [e|]; cbn [mk_obs ob_class].
      * destruct (classify e) eqn:C; try discriminate. split; [reflexivity|].
        cbn [handle_matches]. exists pm. split; reflexivity.
      * discriminate.
Qed.

Lemma set_id_assign m nid : set_id m (m_id (assign_id m nid)) = assign_id m nid.
Proof. unfold assign_id. destruct m as [t i q r d p]. cbn. destruct (i =? 0); reflexivity. Qed.

Lemma assign_id_nonzero m nid : m_id m <> 0 -> assign_id m nid = m.
Proof. intros H. unfold assign_id. destruct (m_id m =? 0) eqn:E; [lia | reflexivity]. Qed.

Definition pid_ok (r : request) (pid : N) : Prop :=
  match r with RqPublish _ => pid <> 0 | _ => True end.

Lemma attempt_ok_parts a : attempt_ok a = true ->
  cl_connected (at_client a) = true /\ at_nid a <> 0 /\
  cause_nonnil (sc_w1 (at_script a)) (sc_s1 (at_script a)) = true /\
  cause_nonnil (sc_w2 (at_script a)) (sc_s2 (at_script a)) = true.
Proof.
  unfold attempt_ok. intros H.
  apply andb_true_iff in H as [H H4]. apply andb_true_iff in H as [H H3]. apply andb_true_iff in H as [H1 H2].
  repeat split; try assumption. lia.
Qed.

Lemma spec_phase_not_first r pid ph a : snd (spec_attempt r pid ph a) <> PhFirst.
Proof.
  destruct r as [m|subs|ts]; cbn [spec_attempt snd]; try discriminate.
  destruct ph; cbn [snd]; try discriminate;
    destruct (step_fail (sc_w1 (at_script a)) (sc_s1 (at_script a))); cbn [snd]; try discriminate;
    destruct (m_qos m =? 1); cbn [snd]; discriminate.
Qed.

Definition step_post (r : request) (pid : N) (ph : phase) (a : attempt) (res : list event * rres) : Prop :=
  let o := obs_of {| ao_client := cl_name (at_client a); ao_events := fst res; ao_result := snd res |} in
  o = fst (spec_attempt r pid ph a) /\
  match next_handle (snd res) with
  | Some h' => ob_class o = RcRetry /\ handle_matches r pid (snd (spec_attempt r pid ph a)) h'
  | None => ob_class o <> RcRetry
  end.

Lemma one_step_post r pid ph a eid tr h :
  cause_nonnil (sc_w1 (at_script a)) (sc_s1 (at_script a)) = true ->
  spec_attempt r pid ph a = (mk_obs (cl_name (at_client a)) tr (step_fail (sc_w1 (at_script a)) (sc_s1 (at_script a))),
                             snd (spec_attempt r pid ph a)) ->
  handle_matches r pid (snd (spec_attempt r pid ph a)) h ->
  step_post r pid ph a (one_step eid tr h (sc_w1 (at_script a)) (sc_s1 (at_script a))).
Proof.
  intros Hn Hs Hh. unfold step_post. cbn zeta.
  destruct (one_step_obs eid (cl_name (at_client a)) tr h _ _ Hn) as [O1 O2].
  rewrite O1, O2. rewrite Hs at 1. cbn [fst]. split; [reflexivity|].
  destruct (ob_class (mk_obs (cl_name (at_client a)) tr (step_fail (sc_w1 (at_script a)) (sc_s1 (at_script a))))) eqn:C;
    try discriminate.
  split; [reflexivity | exact Hh].
Qed.

Lemma publish_step_post eid a m' dup pid m ph :
  attempt_ok a = true -> (m_qos m =? 1) || (m_qos m =? 2) = true -> ph <> PhRel ->
  dup = negb (is_first ph) ->
  set_dup (assign_id m' (at_nid a)) dup = set_dup (set_id m pid) dup ->
  step_post (RqPublish m) pid ph a (publish_impl eid (at_client a) (at_nid a) m' dup (at_script a)).
Proof.
  intros Ha Hq Hph Hd Hm. destruct (attempt_ok_parts a Ha) as [Hc [Hnid [Hn1 Hn2]]].
  pose proof (publish_step eid (at_client a) (at_nid a) m' dup (at_script a) pid m true Hc Hq Hm Hn1 Hn2) as P.
  cbn zeta in P. destruct P as [P1 P2].
  unfold step_post. cbn zeta.
  assert (S : spec_attempt (RqPublish m) pid ph a =
              let c := cl_name (at_client a) in
              let ev1 := [EvReg c (if m_qos m =? 1 then WkPubAck else WkPubRec) pid; EvWrite c (PPublish (set_dup (set_id m pid) dup))] in
              match step_fail (sc_w1 (at_script a)) (sc_s1 (at_script a)) with
              | Some e => (mk_obs c ev1 (Some e), PhAgain)
              | None => if m_qos m =? 1 then (mk_obs c ev1 None, PhAgain)
                        else (mk_obs c (ev1 ++ [EvReg c WkPubComp pid; EvWrite c (PPubRel pid)])
                                     (step_fail (sc_w2 (at_script a)) (sc_s2 (at_script a))), PhRel)
              end).
  { subst dup. destruct ph; [reflexivity | reflexivity | contradiction]. }
  rewrite S. cbn zeta.
  destruct (step_fail (sc_w1 (at_script a)) (sc_s1 (at_script a))) as [e|]; cbn [fst snd].
  - split; [exact P1 | exact P2].
  - destruct (m_qos m =? 1); cbn [fst snd]; split; assumption.
Qed.

Lemma first_step eid r a : req_ok r = true -> attempt_ok a = true ->
  step_post r (publish_id r [a]) PhFirst a (run_request eid (at_client a) (at_nid a) r (at_script a))
  /\ pid_ok r (publish_id r [a]).
Proof.
  intros Hr Ha. destruct (attempt_ok_parts a Ha) as [Hc [Hnid [Hn1 Hn2]]].
  destruct r as [m|subs|ts]; cbn [run_request publish_id req_ok pid_ok] in *.
  - split.
    + apply publish_step_post; [exact Ha | lia | discriminate | reflexivity |].
      rewrite set_id_assign. reflexivity.
    + unfold assign_id. destruct (m_id m =? 0) eqn:E; cbn; lia.
  - split; [|exact I]. rewrite (subscribe_one_step eid _ _ _ _ Hc Hr).
    apply one_step_post; [exact Hn1 | reflexivity | reflexivity].
  - split; [|exact I]. rewrite (unsubscribe_one_step eid _ _ _ _ Hc).
    apply one_step_post; [exact Hn1 | reflexivity | reflexivity].
Qed.

Lemma retry_step eid r pid ph h a : req_ok r = true -> attempt_ok a = true -> pid_ok r pid ->
  ph <> PhFirst -> handle_matches r pid ph h ->
  step_post r pid ph a (run_handle eid (at_client a) (at_nid a) h (at_script a)).
Proof.
  intros Hr Ha Hp Hph Hh. destruct (attempt_ok_parts a Ha) as [Hc [Hnid [Hn1 Hn2]]].
  destruct r as [m|subs|ts]; cbn [handle_matches req_ok pid_ok] in *.
  - destruct ph; [contradiction | |].
    + destruct Hh as [m' [-> Hm]]. cbn [run_handle].
      assert (Hid : m_id m' = pid).
      { change (m_id (set_dup m' true) = pid). rewrite Hm. reflexivity. }
      apply publish_step_post; [exact Ha | lia | discriminate | reflexivity |].
      rewrite assign_id_nonzero by (rewrite Hid; exact Hp). exact Hm.
    + destruct Hh as [m' [-> Hid]]. cbn [run_handle].
      rewrite (retry_publish2_one_step eid _ _ _ _ Hc). rewrite Hid.
      apply one_step_post; [exact Hn1 | reflexivity |].
      cbn [spec_attempt snd handle_matches]. exists m'. split; [reflexivity | exact Hid].
  - subst h. cbn [run_handle]. rewrite (subscribe_one_step eid _ _ _ _ Hc Hr).
    apply one_step_post; [exact Hn1 | destruct ph; reflexivity | destruct ph; reflexivity].
  - subst h. cbn [run_handle]. rewrite (unsubscribe_one_step eid _ _ _ _ Hc).
    apply one_step_post; [exact Hn1 | destruct ph; reflexivity | destruct ph; reflexivity].
Qed.

Lemma retries_refine ats : forall eid r pid ph h,
  req_ok r = true -> forallb attempt_ok ats = true -> pid_ok r pid -> ph <> PhFirst -> handle_matches r pid ph h ->
  map obs_of (run_retries eid h ats) = spec_attempts_from r pid ph ats.
Proof.
  induction ats as [|a rest IH]; intros eid r pid ph h Hr Hats Hp Hph Hh; [reflexivity|].
  cbn [forallb] in Hats. apply andb_true_iff in Hats as [Ha Hrest].
  pose proof (retry_step eid r pid ph h a Hr Ha Hp Hph Hh) as [S1 S2].
  cbn [run_retries spec_attempts_from].
  destruct (run_handle eid (at_client a) (at_nid a) h (at_script a)) as [tr rr] eqn:R.
  destruct (spec_attempt r pid ph a) as [o ph'] eqn:S.
  cbn [fst snd] in S1, S2. cbn [map]. rewrite S1. f_equal.
  pose proof (spec_phase_not_first r pid ph a) as NF. rewrite S in NF. cbn [snd] in NF.
  destruct rr as [e|]; cbn [next_handle] in S2.
  - destruct (retry_handle e) as [h'|].
    + destruct S2 as [C M]. rewrite <- S1, C. apply IH; assumption.
    + rewrite <- S1. destruct (ob_class _); try reflexivity. contradiction.
  - rewrite <- S1. destruct (ob_class _); try reflexivity. contradiction.
Qed.

Lemma spec_attempts_from_pid r a rest : spec_attempts r (a :: rest) = spec_attempts_from r (publish_id r [a]) PhFirst (a :: rest).
Proof. unfold spec_attempts. destruct r; reflexivity. Qed.

(* C19, retry handle: for every request, every sequence of attempts on any clients, any failure at any
   step of any attempt: the closures the errors carry make the real code follow the protocol *)
Theorem retry_refines_protocol eid r ats :
  req_ok r = true -> forallb attempt_ok ats = true ->
  map obs_of (run_attempts eid r ats) = spec_attempts r ats.
Proof.
  intros Hr Hats. destruct ats as [|a rest]; [reflexivity|].
  rewrite spec_attempts_from_pid.
  cbn [forallb] in Hats. apply andb_true_iff in Hats as [Ha Hrest].
  pose proof (first_step eid r a Hr Ha) as [[S1 S2] Hp].
  cbn [run_attempts spec_attempts_from].
  destruct (run_request eid (at_client a) (at_nid a) r (at_script a)) as [tr rr] eqn:R.
  destruct (spec_attempt r (publish_id r [a]) PhFirst a) as [o ph'] eqn:S.
  cbn [fst snd] in S1, S2. cbn [map]. rewrite S1. f_equal.
  pose proof (spec_phase_not_first r (publish_id r [a]) PhFirst a) as NF. rewrite S in NF. cbn [snd] in NF.
  destruct rr as [e|]; cbn [next_handle] in S2.
  - destruct (retry_handle e) as [h'|].
    + destruct S2 as [C M]. rewrite <- S1, C. apply retries_refine; assumption.
    + rewrite <- S1. destruct (ob_class _); try reflexivity. contradiction.
  - rewrite <- S1. destruct (ob_class _); try reflexivity. contradiction.
Qed.

(* ---------- consequences of the protocol, in terms of packets, clients and waiters ---------- *)
Definition rel_of (ph : phase) : bool := match ph with PhRel => true | _ => false end.
Definition phase_inv (r : request) (ph : phase) : Prop :=
  ph = PhRel -> exists m, r = RqPublish m /\ m_qos m = 2.

Lemma ob_events_mk c ev x : ob_events (mk_obs c ev x) = ev.
Proof. destruct x; reflexivity. Qed.
Lemma ob_client_mk c ev x : ob_client (mk_obs c ev x) = c.
Proof. destruct x; reflexivity. Qed.

Lemma subs_eqb_refl s : subs_eqb s s = true.
Proof.
  unfold subs_eqb. induction s as [|[t q] r IH]; [reflexivity|]. cbn [list_eqb fst snd].
  rewrite str_eqb_refl, N.eqb_refl, IH. reflexivity.
Qed.
Lemma str_list_eqb_refl s : str_list_eqb s s = true.
Proof. unfold str_list_eqb. induction s as [|t r IH]; [reflexivity|]. cbn [list_eqb]. rewrite str_eqb_refl, IH. reflexivity. Qed.

Lemma same_publish m pid d : message_eqb_dup (set_id m pid) (set_dup (set_id m pid) d) = true.
Proof.
  unfold message_eqb_dup. cbn [set_id set_dup m_topic m_id m_qos m_retain m_payload].
  rewrite !str_eqb_refl, !N.eqb_refl, Bool.eqb_reflx. reflexivity.
Qed.

Lemma attempt_follows_spec r pid ph a : req_ok r = true -> phase_inv r ph ->
  attempt_follows r pid (is_first ph) (rel_of ph) a (fst (spec_attempt r pid ph a)) = true.
Proof.
  intros Hr Hinv. unfold attempt_follows.
  destruct r as [m|subs|ts].
  - cbn [req_ok] in Hr.
    destruct ph; [ | | ].
    1,2: cbn [spec_attempt is_first rel_of negb];
      destruct (m_qos m =? 1) eqn:Q1;
      [ | assert (Q2 : m_qos m =? 2 = true) by lia ];
      (destruct (step_fail (sc_w1 (at_script a)) (sc_s1 (at_script a))); cbn [fst];
       rewrite ob_client_mk, ob_events_mk;
       cbn [forallb ev_client waiters_registered writes_of flat_map app waiter_of set_dup set_id m_qos m_id m_dup
            same_request dup_is is_pubrel negb];
       rewrite ?Q1, ?Q2; rewrite ?Nat.eqb_refl, ?same_publish, ?N.eqb_refl; reflexivity).
    + (* PUBREL only *)
      destruct (Hinv eq_refl) as [m0 [E Q]]. inversion E; subst m0.
      cbn [spec_attempt is_first rel_of negb fst]. rewrite ob_client_mk, ob_events_mk.
      cbn [forallb ev_client waiters_registered writes_of flat_map app waiter_of same_request dup_is is_pubrel negb].
      rewrite ?Nat.eqb_refl, ?N.eqb_refl, Q. reflexivity.
  - assert (Hph : rel_of ph = false).
    { destruct ph; try reflexivity. destruct (Hinv eq_refl) as [m [E _]]. discriminate. }
    rewrite Hph. cbn [spec_attempt fst]. rewrite ob_client_mk, ob_events_mk.
    cbn [forallb ev_client waiters_registered writes_of flat_map app waiter_of same_request dup_is negb].
    rewrite ?Nat.eqb_refl, ?N.eqb_refl, subs_eqb_refl. reflexivity.
  - assert (Hph : rel_of ph = false).
    { destruct ph; try reflexivity. destruct (Hinv eq_refl) as [m [E _]]. discriminate. }
    rewrite Hph. cbn [spec_attempt fst]. rewrite ob_client_mk, ob_events_mk.
    cbn [forallb ev_client waiters_registered writes_of flat_map app waiter_of same_request dup_is negb].
    rewrite ?Nat.eqb_refl, ?N.eqb_refl, str_list_eqb_refl. reflexivity.
Qed.

Lemma spec_next r pid ph a : req_ok r = true -> phase_inv r ph ->
  let o := fst (spec_attempt r pid ph a) in
  let ph' := snd (spec_attempt r pid ph a) in
  phase_inv r ph' /\ (ob_class o = RcRetry -> rel_of ph' = rel_of ph || existsb is_pubrel (writes_of (ob_events o))).
Proof.
  intros Hr Hinv. cbn zeta. destruct r as [m|subs|ts].
  - cbn [req_ok] in Hr.
    destruct ph; [ | | cbn [spec_attempt fst snd]; split; [exact Hinv | reflexivity] ].
    1,2: cbn [spec_attempt];
      destruct (step_fail (sc_w1 (at_script a)) (sc_s1 (at_script a))); cbn [fst snd];
      [ split; [intros E; discriminate E | intros _; rewrite ob_events_mk; reflexivity]
      | destruct (m_qos m =? 1) eqn:Q1; cbn [fst snd];
        [ split; [intros E; discriminate E | cbn; intros C; discriminate C]
        | split; [intros _; exists m; split; [reflexivity | lia] | intros _; rewrite ob_events_mk; reflexivity] ] ].
  - cbn [spec_attempt fst snd]. rewrite ob_events_mk. split; [intros E; discriminate E|].
    intros _. destruct ph; try reflexivity. destruct (Hinv eq_refl) as [m [E _]]. discriminate.
  - cbn [spec_attempt fst snd]. rewrite ob_events_mk. split; [intros E; discriminate E|].
    intros _. destruct ph; try reflexivity. destruct (Hinv eq_refl) as [m [E _]]. discriminate.
Qed.

Lemma spec_follows ats : forall r pid ph, req_ok r = true -> phase_inv r ph ->
  follows r pid (is_first ph) (rel_of ph) ats (spec_attempts_from r pid ph ats) = true.
Proof.
  induction ats as [|a rest IH]; intros r pid ph Hr Hinv; [reflexivity|].
  cbn [spec_attempts_from].
  pose proof (attempt_follows_spec r pid ph a Hr Hinv) as AF.
  pose proof (spec_next r pid ph a Hr Hinv) as [N1 N2].
  pose proof (spec_phase_not_first r pid ph a) as NF.
  destruct (spec_attempt r pid ph a) as [o ph'] eqn:S. cbn [fst snd] in *.
  cbn [follows]. rewrite AF. cbn [andb].
  destruct (ob_class o) eqn:C; try reflexivity.
  rewrite <- (N2 eq_refl).
  replace false with (is_first ph') by (destruct ph'; [contradiction | reflexivity | reflexivity]).
  apply IH; assumption.
Qed.

Lemma step_fail_no_eof w s e : no_bare_eof w s = true -> step_fail w s = Some e -> classify e = RcRetry.
Proof.
  unfold no_bare_eof, step_fail, classify. destruct w, s; cbn; intros H E; inversion E; subst; try reflexivity;
    (destruct (is_bare_eof e) eqn:B; [cbn in H; discriminate H | reflexivity]).
Qed.

Lemma mk_obs_class c ev w s : no_bare_eof w s = true ->
  ob_class (mk_obs c ev (step_fail w s)) = RcNil \/ ob_class (mk_obs c ev (step_fail w s)) = RcRetry.
Proof.
  intros H. destruct (step_fail w s) as [e|] eqn:F; cbn [mk_obs ob_class]; [right | left; reflexivity].
  apply (step_fail_no_eof w s e H F).
Qed.

Lemma spec_class r pid ph a : attempt_no_eof a = true ->
  ob_class (fst (spec_attempt r pid ph a)) = RcNil \/ ob_class (fst (spec_attempt r pid ph a)) = RcRetry.
Proof.
  unfold attempt_no_eof. intros H. apply andb_true_iff in H as [H1 H2].
  destruct r as [m|subs|ts]; cbn [spec_attempt]; try (cbn [fst]; apply mk_obs_class; exact H1).
  destruct ph; try (cbn [fst]; apply mk_obs_class; exact H1).
  - destruct (step_fail (sc_w1 (at_script a)) (sc_s1 (at_script a))) as [e|] eqn:F; cbn [fst].
    + right. cbn [mk_obs ob_class]. apply (step_fail_no_eof _ _ e H1 F).
    + destruct (m_qos m =? 1); cbn [fst]; [left; reflexivity | apply mk_obs_class; exact H2].
  - destruct (step_fail (sc_w1 (at_script a)) (sc_s1 (at_script a))) as [e|] eqn:F; cbn [fst].
    + right. cbn [mk_obs ob_class]. apply (step_fail_no_eof _ _ e H1 F).
    + destruct (m_qos m =? 1); cbn [fst]; [left; reflexivity | apply mk_obs_class; exact H2].
Qed.

Lemma spec_completes ats : forall r pid ph, forallb attempt_no_eof ats = true ->
  runs_to_completion ats (spec_attempts_from r pid ph ats) = true.
Proof.
  induction ats as [|a rest IH]; intros r pid ph H; [reflexivity|].
  cbn [forallb] in H. apply andb_true_iff in H as [Ha Hrest].
  cbn [spec_attempts_from].
  pose proof (spec_class r pid ph a Ha) as C.
  destruct (spec_attempt r pid ph a) as [o ph'] eqn:S. cbn [fst] in C.
  destruct C as [C|C]; rewrite C.
  - cbn [runs_to_completion]. rewrite C. reflexivity.
  - specialize (IH r pid ph' Hrest).
    destruct rest as [|a2 rest2].
    + cbn [spec_attempts_from runs_to_completion]. rewrite C. reflexivity.
    + remember (spec_attempts_from r pid ph' (a2 :: rest2)) as tl eqn:T.
      destruct tl as [|o2 tl2].
      * cbn [spec_attempts_from] in T. destruct (spec_attempt r pid ph' a2). discriminate T.
      * cbn [runs_to_completion]. rewrite C. exact IH.
Qed.

(* C19, second sentence, in observable terms *)
Theorem retry_handle eid r ats :
  req_ok r = true -> forallb attempt_ok ats = true -> forallb attempt_no_eof ats = true ->
  let obs := map obs_of (run_attempts eid r ats) in
  follows r (publish_id r ats) true false ats obs = true /\ runs_to_completion ats obs = true.
Proof.
  intros Hr Hok Hne. cbn zeta. rewrite (retry_refines_protocol eid r ats Hr Hok). unfold spec_attempts. split.
  - apply (spec_follows ats r (publish_id r ats) PhFirst Hr). intros E; discriminate E.
  - apply spec_completes. exact Hne.
Qed.

(* a single interrupted request: the error is an ErrorWithRetry around exactly the cause *)
Definition step_applies (r : request) (f : fstep) : bool :=
  match f with
  | FWrite1 | FClosed1 | FCtx1 => true
  | _ => match r with RqPublish m => m_qos m =? 2 | _ => false end
  end.
Definition step_cause (f : fstep) (cause : err) : err :=
  match f with FClosed1 | FClosed2 => ESent SClosedTransport | _ => cause end.

Theorem retry_keeps_cause eid c nid r f cause :
  req_ok r = true -> step_applies r f = true -> cl_connected c = true ->
  cause <> ENil -> cause <> ESent SEOF ->
  exists h, snd (run_request eid c nid r (script_of f cause)) = Ret (EWithRetry eid (S eid) (step_cause f cause) h).
Proof.
  intros Hr Hf Hc N1 N2.
  pose proof (proj2 (proj2 (proj2 (proj2 eof_unwrapped)))) as W.
  assert (WC : forall h, wrap_with_retry eid (ESent SClosedTransport) h = EWithRetry eid (S eid) (ESent SClosedTransport) h) by reflexivity.
  destruct r as [m|subs|ts]; cbn [run_request req_ok step_applies] in *.
  - unfold publish_impl. rewrite Hc. cbn [negb set_dup m_qos m_id].
    assert (Q : m_qos (assign_id m nid) = m_qos m) by (unfold assign_id; destruct (m_id m =? 0); reflexivity).
    rewrite Q.
    assert (Hq2 : 2 <? m_qos m = false) by lia. rewrite Hq2.
    assert (Hq0 : 0 <? m_qos m = true) by lia. rewrite Hq0.
    destruct (m_qos m =? 1) eqn:Q1.
    + destruct f; cbn [step_applies] in Hf; cbn [script_of sc_w1 sc_s1 snd step_cause]; try (exfalso; lia);
        rewrite ?W by assumption; rewrite ?WC; eexists; reflexivity.
    + assert (Q2 : m_qos m =? 2 = true) by lia. rewrite Q2.
      unfold retry_publish2. rewrite Hc. cbn [negb].
      destruct f; cbn [script_of sc_w1 sc_s1 sc_w2 sc_s2 snd step_cause];
        rewrite ?W by assumption; rewrite ?WC; eexists; reflexivity.
  - rewrite (subscribe_one_step eid c nid subs _ Hc Hr). unfold one_step.
    destruct f; cbn [script_of sc_w1 sc_s1 step_fail snd step_cause] in *; try discriminate;
      rewrite ?W by assumption; rewrite ?WC; eexists; reflexivity.
  - rewrite (unsubscribe_one_step eid c nid ts _ Hc). unfold one_step.
    destruct f; cbn [script_of sc_w1 sc_s1 step_fail snd step_cause] in *; try discriminate;
      rewrite ?W by assumption; rewrite ?WC; eexists; reflexivity.
Qed.

(* the point where the two clauses of the property contradict each other: a Write (or a context)
   whose error is io.EOF itself makes the request return io.EOF unwrapped, hence without handle *)
Theorem eof_loses_handle eid c nid r f :
  req_ok r = true -> step_applies r f = true -> cl_connected c = true ->
  match f with FClosed1 | FClosed2 => False | _ => True end ->
  snd (run_request eid c nid r (script_of f (ESent SEOF))) = Ret (ESent SEOF).
Proof.
  intros Hr Hf Hc Hnc.
  destruct r as [m|subs|ts]; cbn [run_request req_ok step_applies] in *.
  - unfold publish_impl. rewrite Hc. cbn [negb set_dup m_qos m_id].
    assert (Q : m_qos (assign_id m nid) = m_qos m) by (unfold assign_id; destruct (m_id m =? 0); reflexivity).
    rewrite Q.
    assert (Hq2 : 2 <? m_qos m = false) by lia. rewrite Hq2.
    assert (Hq0 : 0 <? m_qos m = true) by lia. rewrite Hq0.
    destruct (m_qos m =? 1) eqn:Q1.
    + destruct f; cbn [step_applies] in Hf; cbn [script_of sc_w1 sc_s1 snd]; try contradiction; try (exfalso; lia); reflexivity.
    + assert (Q2 : m_qos m =? 2 = true) by lia. rewrite Q2.
      unfold retry_publish2. rewrite Hc. cbn [negb].
      destruct f; cbn [script_of sc_w1 sc_s1 sc_w2 sc_s2 snd]; try contradiction; reflexivity.
  - rewrite (subscribe_one_step eid c nid subs _ Hc Hr). unfold one_step.
    destruct f; cbn [script_of sc_w1 sc_s1 step_fail snd] in *; try contradiction; try discriminate; reflexivity.
  - rewrite (unsubscribe_one_step eid c nid ts _ Hc). unfold one_step.
    destruct f; cbn [script_of sc_w1 sc_s1 step_fail snd] in *; try contradiction; try discriminate; reflexivity.
Qed.

(* ---------- RequestTimeoutError if and only if a response timeout expired; Error() is total ---------- *)
Theorem error_text_total e : lib_chain e = true -> error_panics e = false.
Proof.
  induction e; cbn [lib_chain error_panics]; intros H; try discriminate; try reflexivity;
    rewrite (lib_chain_nonnil e H); apply IHe; exact H.
Qed.

Lemma as_rt_wrap id e : errors_as AsReqTimeout (wrap_error_impl id e) = errors_as AsReqTimeout e.
Proof.
  destruct (wrap_error_impl_cases id e) as [[E W]|[[E W]|[_ [N W]]]]; rewrite W; subst; reflexivity.
Qed.

Lemma as_rt_wrap_retry id e h : errors_as AsReqTimeout (wrap_with_retry id e h) = errors_as AsReqTimeout e.
Proof.
  unfold wrap_with_retry.
  destruct (wrap_error_impl_cases (S id) e) as [[E W]|[[E W]|[_ [N W]]]]; rewrite W; subst; reflexivity.
Qed.

Lemma as_rt_call id ck c : call_ok ck = true ->
  errors_as AsReqTimeout (call_error id ck c) = call_rt ck (errors_as AsReqTimeout c).
Proof.
  intros Hok.
  destruct ck as [k f| | |rt f|k|k|retry q| |code| | |n|n|k p2|k p2 n|hist]; cbn [call_error call_rt uses_cause].
  - destruct k, f; cbn [call_ok] in Hok; try discriminate;
      unfold req_error, ret_err, publish_impl, subscribe_impl, unsubscribe_impl, ping_impl, connect_impl, retry_publish2;
      cbn -[wrap_with_retry wrap_error wrap_error_impl errors_as];
      unfold wrap_error; rewrite ?as_rt_wrap_retry, ?as_rt_wrap; reflexivity.
  - unfold wrap_error. rewrite as_rt_wrap. reflexivity.
  - unfold wrap_error. rewrite !as_rt_wrap. reflexivity.
  - destruct f; cbn [call_ok] in Hok; try discriminate; unfold ping_impl, wrap_error;
      cbn -[wrap_error_impl errors_as]; rewrite ?as_rt_wrap; try reflexivity.
    all: destruct rt; reflexivity.
  - destruct k; cbn [call_ok] in Hok; try discriminate; reflexivity.
  - reflexivity.
  - destruct retry, q; reflexivity.
  - reflexivity.
  - reflexivity.
  - reflexivity.
  - reflexivity.
  - destruct (n =? 0); [reflexivity|]. destruct (n =? 1); [reflexivity|]. destruct (n =? 2); [reflexivity|].
    destruct (n =? 3); reflexivity.
  - destruct (n =? 0) eqn:N0; cbn [negb andb]; [reflexivity|].
    destruct (n =? 1); unfold wrap_error; [rewrite as_rt_wrap; reflexivity|].
    unfold ping_impl. cbn -[wrap_error_impl errors_as]. unfold wrap_error. rewrite as_rt_wrap. reflexivity.
  - destruct k, p2; cbn in Hok; try discriminate; reflexivity.
  - cbn [call_ok] in Hok. apply andb_true_iff in Hok as [Hn Hk].
    apply orb_true_iff in Hn as [Hn|Hn]; apply N.eqb_eq in Hn; subst n;
      destruct k, p2; cbn in Hk; try discriminate; reflexivity.
  - unfold wrap_error. rewrite as_rt_wrap. reflexivity.
Qed.

(* "identifiable as RequestTimeoutError" in both directions: for everything built from the real
   constructors and the real calls, errors.As finds a RequestTimeoutError exactly when an expired
   response timeout is in the chain *)
Theorem rt_iff_expired d : shaped d = true -> errors_as AsReqTimeout (build d) = spec_has_rt d.
Proof.
  induction d; cbn [shaped]; intros H; try discriminate; cbn [build spec_has_rt].
  - reflexivity.
  - cbn [errors_as type_matches]. apply IHd. exact H.
  - cbn [errors_as type_matches]. apply IHd. exact H.
  - cbn [errors_as type_matches]. apply IHd. exact H.
  - apply andb_true_iff in H as [H1 H2]. rewrite (as_rt_call _ _ _ H1).
    destruct (uses_cause ck) eqn:U.
    + rewrite (IHd H2). reflexivity.
    + destruct ck as [k f| | |rt f|k|k|retry q| |code| | |n|n|k p2|k p2 n|hist]; cbn [call_rt uses_cause] in *;
        try rewrite U; reflexivity.
Qed.

(* the connection ends while a request of a RetryClient with ResponseTimeout waits for its
   acknowledgement (its context's Err() is non-nil all the time): ErrClosedTransport, not a timeout *)
Theorem closed_under_request_context id k p2 : call_ok (CkRetryClosed k p2) = true ->
  let e := call_error id (CkRetryClosed k p2) ENil in
  errors_is e (ESent SClosedTransport) = RTrue /\ errors_as AsReqTimeout e = false /\
  implements_retry e = true /\ error_panics e = false.
Proof.
  intros Hok. destruct k, p2; cbn in Hok; try discriminate; repeat split; reflexivity.
Qed.

(* ---------- RequestTimeoutError on the retransmission path ---------- *)
(* ... and when the ResponseTimeout expires on a RETRANSMISSION (RetryClient.Retry running the closure
   queued by queueRetry, whose context is requestContext): any number of consecutive timed-out
   retransmissions of any handle the library produces *)
Lemma retx_step eid ceid h : handle_valid h = true ->
  exists h', snd (run_handle eid conn_client 1 h (script_of FCtx1 (retx_ctx_err ceid)))
             = Ret (EWithRetry eid (S eid) (retx_ctx_err ceid) h') /\ handle_valid h' = true.
Proof.
  intros Hv. destruct h as [m|m|subs|ts]; cbn [handle_valid run_handle] in *.
  - apply andb_true_iff in Hv as [Hq Hi]. apply negb_true_iff in Hi.
    unfold publish_impl. cbn [cl_connected conn_client negb].
    assert (A : assign_id m 1 = m) by (apply assign_id_nonzero; lia). rewrite A.
    cbn [set_dup m_qos m_id script_of sc_w1 sc_s1].
    assert (Hq2 : 2 <? m_qos m = false) by lia. rewrite Hq2.
    destruct (m_qos m =? 1) eqn:Q1.
    + eexists. split; [reflexivity|]. cbn [handle_valid set_dup m_qos m_id]. rewrite Q1, Hi. reflexivity.
    + assert (Q2 : m_qos m =? 2 = true) by lia. rewrite Q2.
      eexists. split; [reflexivity|]. cbn [handle_valid set_dup m_qos m_id]. rewrite Q1, Q2, Hi. reflexivity.
  - eexists. split; [reflexivity | reflexivity].
  - rewrite (subscribe_one_step eid conn_client 1 subs _ eq_refl Hv).
    eexists. split; [reflexivity | exact Hv].
  - eexists. split; [reflexivity | reflexivity].
Qed.

Theorem timeout_retx_rounds n : forall eid ceid h, handle_valid h = true ->
  let e := retx_rounds eid ceid h n in
  errors_as AsReqTimeout e = true /\ errors_is e (ESent SDeadlineExceeded) = RTrue /\ implements_retry e = true.
Proof.
  induction n as [|n IH]; intros eid ceid h Hv; cbn zeta; cbn [retx_rounds];
    destruct (retx_step eid ceid h Hv) as [h' [E Hv']]; rewrite E.
  - repeat split; reflexivity.
  - cbn [retry_handle]. apply IH. exact Hv'.
Qed.

(* the scenarios of the correspondence check: request interrupted once by the peer closing, then one
   or two timed-out retransmissions through SetClient + Connect + Retry *)
Theorem timeout_retx_calls id k p2 n : call_ok (CkRetryRetx k p2 n) = true ->
  let e := call_error id (CkRetryRetx k p2 n) ENil in
  errors_as AsReqTimeout e = true /\ errors_is e (ESent SDeadlineExceeded) = RTrue /\ implements_retry e = true.
Proof.
  intros Hok. cbn [call_ok] in Hok. apply andb_true_iff in Hok as [Hn Hk].
  apply orb_true_iff in Hn as [Hn|Hn]; apply N.eqb_eq in Hn; subst n;
    destruct k, p2; cbn in Hk; try discriminate; repeat split; reflexivity.
Qed.

(* ---------- non-vacuity: concrete inputs satisfying the hypotheses ---------- *)
Definition ex_msg : message :=
  {| m_topic := [97; 47; 98]; m_id := 0; m_qos := 2; m_retain := true; m_dup := false; m_payload := [1; 2; 3] |}.
Definition ex_chain : err :=
  EWithRetry 1 2 (EFmt 3 (ELib 4 (EReqTimeout 5 (EConn 6 5 (ESent SCanceled))))) (HRetryPublish ex_msg).

Example ex_chain_is_lib_chain : lib_chain ex_chain = true.
Proof. reflexivity. Qed.
Example ex_chain_finds_canceled :
  errors_is ex_chain (ESent SCanceled) = RTrue /\ errors_is ex_chain (ESent SDeadlineExceeded) = RFalse
  /\ errors_is ex_chain (ELib 2 ENil) = RTrue /\ errors_is ex_chain (ELib 7 ENil) = RFalse.
Proof. repeat split; reflexivity. Qed.

Example ex_walkable : walkable (EFmt 1 (EPtrErrField 2 (ESent SEOF))) = true
  /\ errors_is (ELib 0 (EFmt 1 (EPtrErrField 2 (ESent SEOF)))) (ESent SEOF) = RTrue
  /\ errors_is (EFmt 1 (EPtrErrField 2 (ESent SEOF))) (ESent SEOF) = RFalse.
Proof. repeat split; reflexivity. Qed.

(* outside the property's quantifier (foreign error types), Error.Is can panic: recorded, not claimed *)
Example ex_is_panics_on_pointer_to_non_struct : errors_is (ELib 1 (EPtrNonStruct 2)) (ESent SEOF) = RPanic.
Proof. reflexivity. Qed.
Example ex_is_panics_on_uncomparable_target : errors_is (ELib 1 (EUncmp 0)) (EUncmp 0) = RPanic.
Proof. reflexivity. Qed.
(* errors.As does not find the *Error embedded in an errorWithRetry (Unwrap skips it) *)
Example ex_as_lib_skips_embedded :
  errors_as AsLib (EWithRetry 1 2 (ESent SClosedTransport) (HRetrySubscribe [])) = false.
Proof. reflexivity. Qed.

(* look-alikes: a chain that contains a foreign error with ErrNotConnected's text, and a second
   allocation of one of its own wrappers *)
Definition ex_twin_chain : err :=
  EWithRetry 1 2 (EFmt 3 (ELib 4 (ESent (twin_of SNotConnected)))) (HRetrySubscribe []).
Example ex_twin_not_confused :
  occurs_sent SNotConnected ex_twin_chain = false /\ occurs_sent (twin_of SNotConnected) ex_twin_chain = true /\ errors_is ex_twin_chain (ESent SNotConnected) = RFalse /\ errors_is ex_twin_chain (ESent (twin_of SNotConnected)) = RTrue /\ method_is ex_twin_chain (ESent SNotConnected) = Some RFalse.
Proof. repeat split; reflexivity. Qed.
Example ex_twin_wrapper_hyps :
  lib_chain ex_twin_chain = true /\ node_id (EFmt 3 (ELib 4 (ESent (twin_of SNotConnected)))) = Some 3%nat /\ ids_below 10 ex_twin_chain = true /\ errors_is ex_twin_chain (EFmt 3 (ELib 4 (ESent (twin_of SNotConnected)))) = RTrue /\ errors_is ex_twin_chain (retag 10 (EFmt 3 (ELib 4 (ESent (twin_of SNotConnected))))) = RFalse.
Proof. repeat split; reflexivity. Qed.

Definition ex_desc : desc :=
  DFmt 1 (DCall 2 (CkReq KPub2 FWrite2) (DLib 3 (DCall 4 CkRetryConnectOpt (DFmt 5 (DSent SEOF))))).
Example ex_desc_shaped : shaped ex_desc = true /\ spec_leaf ex_desc = Some SEOF /\ implements_retry (build (DCall 2 (CkReq KPub2 FWrite2) (DFmt 5 (DSent SEOF)))) = true.
Proof. repeat split; reflexivity. Qed.

Definition ex_client (n : nat) : client := {| cl_name := n; cl_connected := true |}.
Definition ex_attempts : list attempt :=
  [ {| at_client := ex_client 1; at_nid := 7; at_script := script_of FCtx1 (ESent SCanceled) |};
    {| at_client := ex_client 2; at_nid := 9; at_script := script_of FClosed2 ENil |};
    {| at_client := ex_client 3; at_nid := 11; at_script := script_of FWrite1 (EFmt 1 (ESent SEOF)) |};
    {| at_client := ex_client 4; at_nid := 13; at_script := {| sc_w1 := WOk; sc_s1 := SAck; sc_w2 := WOk; sc_s2 := SAck |} |} ].
Example ex_attempts_ok :
  req_ok (RqPublish ex_msg) = true /\ forallb attempt_ok ex_attempts = true /\ forallb attempt_no_eof ex_attempts = true.
Proof. repeat split; reflexivity. Qed.
Example ex_attempts_writes :
  map (fun o => (ob_client o, writes_of (ob_events o), ob_class o)) (map obs_of (run_attempts 100 (RqPublish ex_msg) ex_attempts)) =
  [ (1%nat, [PPublish (set_id ex_msg 7)], RcRetry);
    (2%nat, [PPublish (set_dup (set_id ex_msg 7) true); PPubRel 7], RcRetry);
    (3%nat, [PPubRel 7], RcRetry);
    (4%nat, [PPubRel 7], RcNil) ].
Proof. reflexivity. Qed.

Example ex_retry_keeps_cause_hyps :
  req_ok (RqSubscribe [([97], 1)]) = true /\ step_applies (RqSubscribe [([97], 1)]) FCtx1 = true
  /\ EFmt 1 (ESent SEOF) <> ENil /\ EFmt 1 (ESent SEOF) <> ESent SEOF.
Proof. repeat split; try reflexivity; discriminate. Qed.

Example ex_handle_valid : handle_valid (HRetryPublish (set_id ex_msg 7)) = true
  /\ call_ok (CkRetryRetx KPub2 true 2) = true /\ call_ok (CkRetryRetx KSub false 1) = true.
Proof. repeat split; reflexivity. Qed.

Example ex_ctx_call : ctx_call (CkRetryPing true FCtx1) = true /\ ctx_call (CkReq KPub2 FCtx2) = true /\ ctx_call (CkReq KConnect FCtx1) = true.
Proof. repeat split; reflexivity. Qed.
