(* Utf8_proofs.v — the inverse direction of C05: a PUBLISH produced by the encoder is read and parsed
   back to the same message, for every topic that is well-formed UTF-8 without U+0000 (the Go
   runtime's string <-> []rune conversions are the identity on such strings). *)
From MQ Require Import Base Codec Codec_proofs Inbound Parse.
Open Scope N_scope.

(* ---------- the inverse direction for PUBLISH (C05) ---------- *)


(* ---------- auxiliary facts about the rune conversions ---------- *)

Lemma cont_range b : cont b = true -> 128 <= b /\ b <= 191.
Proof.
  unfold cont. intros H. apply andb_true_iff in H as [H1 H2].
  apply N.leb_le in H1. apply N.leb_le in H2. split; assumption.
Qed.

Lemma decode_runes_cons b0 r :
  decode_runes (b0 :: r) =
      if b0 <? 128 then b0 :: decode_runes r else
      let err := RuneError :: decode_runes r in
      match r with
      | [] => err
      | b1 :: r1 =>
          if (192 <=? b0) && (b0 <? 224) then
            if cont b1 then
              let rn := (b0 mod 32) * 64 + b1 mod 64 in
              if 127 <? rn then rn :: decode_runes r1 else err
            else err
          else if (224 <=? b0) && (b0 <? 240) then
            match r1 with
            | [] => err
            | b2 :: r2 =>
                if cont b1 && cont b2 then
                  let rn := (b0 mod 16) * 4096 + (b1 mod 64) * 64 + b2 mod 64 in
                  if (2047 <? rn) && negb ((55296 <=? rn) && (rn <=? 57343)) then rn :: decode_runes r2 else err
                else err
            end
          else if (240 <=? b0) && (b0 <? 248) then
            match r1 with
            | b2 :: b3 :: r3 =>
                if cont b1 && cont b2 && cont b3 then
                  let rn := (b0 mod 8) * 262144 + (b1 mod 64) * 4096 + (b2 mod 64) * 64 + b3 mod 64 in
                  if (65535 <? rn) && (rn <=? 1114111) then rn :: decode_runes r3 else err
                else err
            | _ => err
            end
          else err
      end.
Proof. reflexivity. Qed.

Lemma encode_runes_cons r rs : encode_runes (r :: rs) = encode_rune r ++ encode_runes rs.
Proof. reflexivity. Qed.

(* one-byte form *)
Lemma dec_1 b r : b < 128 -> decode_runes (b :: r) = b :: decode_runes r.
Proof.
  intros Hb. rewrite decode_runes_cons.
  assert (b <? 128 = true) as -> by lia. reflexivity.
Qed.

Lemma enc_1 b : b < 128 -> encode_rune b = [b].
Proof.
  intros Hb. unfold encode_rune. assert (b <=? 127 = true) as -> by lia. reflexivity.
Qed.

Lemma bad_1 b : 0 < b -> b < 128 -> bad_rune b = false.
Proof.
  intros H0 Hb. unfold bad_rune.
  assert (b =? 0 = false) as -> by lia.
  assert (55296 <=? b = false) as -> by lia. reflexivity.
Qed.

(* two-byte form *)
Lemma dec_2 b0 b1 r : 194 <= b0 -> b0 <= 223 -> cont b1 = true ->
  decode_runes (b0 :: b1 :: r) = ((b0 mod 32) * 64 + b1 mod 64) :: decode_runes r.
Proof.
  intros Hlo Hhi Hc1. rewrite decode_runes_cons. cbv beta iota zeta. rewrite Hc1.
  apply cont_range in Hc1 as [Hc1a Hc1b].
  assert (b0 <? 128 = false) as -> by lia.
  assert (192 <=? b0 = true) as -> by lia.
  assert (b0 <? 224 = true) as -> by lia.
  cbn [andb].
  assert (127 <? (b0 mod 32) * 64 + b1 mod 64 = true) as -> by lia.
  reflexivity.
Qed.

Lemma enc_2 b0 b1 : 194 <= b0 -> b0 <= 223 -> cont b1 = true ->
  encode_rune ((b0 mod 32) * 64 + b1 mod 64) = [b0; b1] /\
  bad_rune ((b0 mod 32) * 64 + b1 mod 64) = false.
Proof.
  intros Hlo Hhi Hc1. apply cont_range in Hc1 as [Hc1a Hc1b].
  set (rn := (b0 mod 32) * 64 + b1 mod 64).
  assert (Hd0 : b0 mod 32 = b0 - 192) by lia.
  assert (Hd1 : b1 mod 64 = b1 - 128) by lia.
  assert (Hrn : rn = (b0 - 192) * 64 + (b1 - 128)) by (unfold rn; rewrite Hd0, Hd1; reflexivity).
  clearbody rn. clear Hd0 Hd1.
  assert (H1 : 127 < rn) by lia.
  assert (H2 : rn <= 2047) by lia.
  assert (H3 : 192 + rn / 64 = b0) by lia.
  assert (H4 : 128 + rn mod 64 = b1) by lia.
  unfold encode_rune, bad_rune.
  assert (rn <=? 127 = false) as -> by lia.
  assert (rn <=? 2047 = true) as -> by lia.
  assert (rn =? 0 = false) as -> by lia.
  assert (55296 <=? rn = false) as -> by lia.
  rewrite H3, H4. split; reflexivity.
Qed.

(* three-byte form; the side conditions select the sub-ranges of table 3-7 *)
Lemma dec_3 b0 b1 b2 r : 224 <= b0 -> b0 <= 239 -> cont b1 = true -> cont b2 = true ->
  (b0 = 224 -> 160 <= b1) -> (b0 = 237 -> b1 <= 159) ->
  decode_runes (b0 :: b1 :: b2 :: r) =
    ((b0 mod 16) * 4096 + (b1 mod 64) * 64 + b2 mod 64) :: decode_runes r.
Proof.
  intros Hlo Hhi Hc1 Hc2 Ha Hc. rewrite decode_runes_cons. cbv beta iota zeta. rewrite Hc1, Hc2.
  apply cont_range in Hc1 as [Hc1a Hc1b]. apply cont_range in Hc2 as [Hc2a Hc2b].
  assert (b0 <? 128 = false) as -> by lia.
  assert (192 <=? b0 = true) as -> by lia.
  assert (b0 <? 224 = false) as -> by lia.
  assert (224 <=? b0 = true) as -> by lia.
  assert (b0 <? 240 = true) as -> by lia.
  cbn [andb].
  set (rn := (b0 mod 16) * 4096 + (b1 mod 64) * 64 + b2 mod 64).
  assert (Hd0 : b0 mod 16 = b0 - 224) by lia.
  assert (Hd1 : b1 mod 64 = b1 - 128) by lia.
  assert (Hd2 : b2 mod 64 = b2 - 128) by lia.
  assert (Hrn : rn = (b0 - 224) * 4096 + (b1 - 128) * 64 + (b2 - 128))
    by (unfold rn; rewrite Hd0, Hd1, Hd2; reflexivity).
  clearbody rn. clear Hd0 Hd1 Hd2.
  assert (2047 <? rn = true) as -> by lia.
  assert ((55296 <=? rn) && (rn <=? 57343) = false) as -> by lia.
  reflexivity.
Qed.

Lemma enc_3 b0 b1 b2 : 224 <= b0 -> b0 <= 239 -> cont b1 = true -> cont b2 = true ->
  (b0 = 224 -> 160 <= b1) -> (b0 = 237 -> b1 <= 159) ->
  encode_rune ((b0 mod 16) * 4096 + (b1 mod 64) * 64 + b2 mod 64) = [b0; b1; b2] /\
  bad_rune ((b0 mod 16) * 4096 + (b1 mod 64) * 64 + b2 mod 64) = false.
Proof.
  intros Hlo Hhi Hc1 Hc2 Ha Hc.
  apply cont_range in Hc1 as [Hc1a Hc1b]. apply cont_range in Hc2 as [Hc2a Hc2b].
  set (rn := (b0 mod 16) * 4096 + (b1 mod 64) * 64 + b2 mod 64).
  assert (Hd0 : b0 mod 16 = b0 - 224) by lia.
  assert (Hd1 : b1 mod 64 = b1 - 128) by lia.
  assert (Hd2 : b2 mod 64 = b2 - 128) by lia.
  assert (Hrn : rn = (b0 - 224) * 4096 + (b1 - 128) * 64 + (b2 - 128))
    by (unfold rn; rewrite Hd0, Hd1, Hd2; reflexivity).
  clearbody rn. clear Hd0 Hd1 Hd2.
  assert (H1 : 2047 < rn) by lia.
  assert (H2 : rn <= 65535) by lia.
  assert (H3 : (55296 <=? rn) && (rn <=? 57343) = false) by lia.
  assert (H4 : 224 + rn / 4096 = b0) by lia.
  assert (H5 : 128 + (rn / 64) mod 64 = b1) by lia.
  assert (H6 : 128 + rn mod 64 = b2) by lia.
  unfold encode_rune, bad_rune.
  assert (rn <=? 127 = false) as -> by lia.
  assert (rn <=? 2047 = false) as -> by lia.
  assert (1114111 <? rn = false) as -> by lia.
  assert (rn =? 0 = false) as -> by lia.
  rewrite H3. cbn [orb].
  assert (rn <=? 65535 = true) as -> by lia.
  rewrite H4, H5, H6. split; reflexivity.
Qed.

(* four-byte form *)
Lemma dec_4 b0 b1 b2 b3 r : 240 <= b0 -> b0 <= 244 ->
  cont b1 = true -> cont b2 = true -> cont b3 = true ->
  (b0 = 240 -> 144 <= b1) -> (b0 = 244 -> b1 <= 143) ->
  decode_runes (b0 :: b1 :: b2 :: b3 :: r) =
    ((b0 mod 8) * 262144 + (b1 mod 64) * 4096 + (b2 mod 64) * 64 + b3 mod 64) :: decode_runes r.
Proof.
  intros Hlo Hhi Hc1 Hc2 Hc3 Ha Hc. rewrite decode_runes_cons. cbv beta iota zeta.
  rewrite Hc1, Hc2, Hc3.
  apply cont_range in Hc1 as [Hc1a Hc1b]. apply cont_range in Hc2 as [Hc2a Hc2b].
  apply cont_range in Hc3 as [Hc3a Hc3b].
  assert (b0 <? 128 = false) as -> by lia.
  assert (192 <=? b0 = true) as -> by lia.
  assert (b0 <? 224 = false) as -> by lia.
  assert (224 <=? b0 = true) as -> by lia.
  assert (b0 <? 240 = false) as -> by lia.
  assert (240 <=? b0 = true) as -> by lia.
  assert (b0 <? 248 = true) as -> by lia.
  cbn [andb].
  set (rn := (b0 mod 8) * 262144 + (b1 mod 64) * 4096 + (b2 mod 64) * 64 + b3 mod 64).
  assert (Hd0 : b0 mod 8 = b0 - 240) by lia.
  assert (Hd1 : b1 mod 64 = b1 - 128) by lia.
  assert (Hd2 : b2 mod 64 = b2 - 128) by lia.
  assert (Hd3 : b3 mod 64 = b3 - 128) by lia.
  assert (Hrn : rn = (b0 - 240) * 262144 + (b1 - 128) * 4096 + (b2 - 128) * 64 + (b3 - 128))
    by (unfold rn; rewrite Hd0, Hd1, Hd2, Hd3; reflexivity).
  clearbody rn. clear Hd0 Hd1 Hd2 Hd3.
  assert (65535 <? rn = true) as -> by lia.
  assert (rn <=? 1114111 = true) as -> by lia.
  reflexivity.
Qed.

Lemma enc_4 b0 b1 b2 b3 : 240 <= b0 -> b0 <= 244 ->
  cont b1 = true -> cont b2 = true -> cont b3 = true ->
  (b0 = 240 -> 144 <= b1) -> (b0 = 244 -> b1 <= 143) ->
  encode_rune ((b0 mod 8) * 262144 + (b1 mod 64) * 4096 + (b2 mod 64) * 64 + b3 mod 64)
    = [b0; b1; b2; b3] /\
  bad_rune ((b0 mod 8) * 262144 + (b1 mod 64) * 4096 + (b2 mod 64) * 64 + b3 mod 64) = false.
Proof.
  intros Hlo Hhi Hc1 Hc2 Hc3 Ha Hc.
  apply cont_range in Hc1 as [Hc1a Hc1b]. apply cont_range in Hc2 as [Hc2a Hc2b].
  apply cont_range in Hc3 as [Hc3a Hc3b].
  set (rn := (b0 mod 8) * 262144 + (b1 mod 64) * 4096 + (b2 mod 64) * 64 + b3 mod 64).
  assert (Hd0 : b0 mod 8 = b0 - 240) by lia.
  assert (Hd1 : b1 mod 64 = b1 - 128) by lia.
  assert (Hd2 : b2 mod 64 = b2 - 128) by lia.
  assert (Hd3 : b3 mod 64 = b3 - 128) by lia.
  assert (Hrn : rn = (b0 - 240) * 262144 + (b1 - 128) * 4096 + (b2 - 128) * 64 + (b3 - 128))
    by (unfold rn; rewrite Hd0, Hd1, Hd2, Hd3; reflexivity).
  clearbody rn. clear Hd0 Hd1 Hd2 Hd3.
  assert (H1 : 65535 < rn) by lia.
  assert (H2 : rn <= 1114111) by lia.
  assert (H4 : 240 + rn / 262144 = b0) by lia.
  assert (H5 : 128 + (rn / 4096) mod 64 = b1) by lia.
  assert (H6 : 128 + (rn / 64) mod 64 = b2) by lia.
  assert (H7 : 128 + rn mod 64 = b3) by lia.
  unfold encode_rune, bad_rune.
  assert (rn <=? 127 = false) as -> by lia.
  assert (rn <=? 2047 = false) as -> by lia.
  assert (1114111 <? rn = false) as -> by lia.
  assert (rn =? 0 = false) as -> by lia.
  assert (rn <=? 57343 = false) as -> by lia.
  rewrite andb_false_r. cbn [orb].
  assert (rn <=? 65535 = false) as -> by lia.
  rewrite H4, H5, H6, H7. split; reflexivity.
Qed.

(* Go's string <-> []rune conversions are the identity on ASCII without NUL ... *)
Theorem recode_ascii s : Forall (fun b => 0 < b /\ b < 128) s ->
  encode_runes (decode_runes s) = s /\ existsb bad_rune (decode_runes s) = false.
Proof.
  intros H. induction H as [|b r [Hb0 Hb] _ [IH1 IH2]].
  - split; reflexivity.
  - rewrite dec_1 by exact Hb. rewrite encode_runes_cons, IH1, enc_1 by exact Hb.
    cbn [existsb]. rewrite IH2, bad_1 by assumption. split; reflexivity.
Qed.

(* ... and on every well-formed UTF-8 string (Unicode 15, table 3-7) that does not contain U+0000 *)
Inductive utf8_wf : list N -> Prop :=
| U_nil : utf8_wf []
| U_1 b r : 0 < b -> b < 128 -> utf8_wf r -> utf8_wf (b :: r)
| U_2 b0 b1 r : 194 <= b0 -> b0 <= 223 -> cont b1 = true -> utf8_wf r -> utf8_wf (b0 :: b1 :: r)
| U_3a b1 b2 r : 160 <= b1 -> b1 <= 191 -> cont b2 = true -> utf8_wf r -> utf8_wf (224 :: b1 :: b2 :: r)
| U_3b b0 b1 b2 r : (225 <= b0 /\ b0 <= 236) \/ (238 <= b0 /\ b0 <= 239) ->
                    cont b1 = true -> cont b2 = true -> utf8_wf r -> utf8_wf (b0 :: b1 :: b2 :: r)
| U_3c b1 b2 r : 128 <= b1 -> b1 <= 159 -> cont b2 = true -> utf8_wf r -> utf8_wf (237 :: b1 :: b2 :: r)
| U_4a b1 b2 b3 r : 144 <= b1 -> b1 <= 191 -> cont b2 = true -> cont b3 = true -> utf8_wf r ->
                    utf8_wf (240 :: b1 :: b2 :: b3 :: r)
| U_4b b0 b1 b2 b3 r : 241 <= b0 -> b0 <= 243 -> cont b1 = true -> cont b2 = true -> cont b3 = true ->
                       utf8_wf r -> utf8_wf (b0 :: b1 :: b2 :: b3 :: r)
| U_4c b1 b2 b3 r : 128 <= b1 -> b1 <= 143 -> cont b2 = true -> cont b3 = true -> utf8_wf r ->
                    utf8_wf (244 :: b1 :: b2 :: b3 :: r).

Theorem recode_utf8 s : utf8_wf s ->
  encode_runes (decode_runes s) = s /\ existsb bad_rune (decode_runes s) = false.
Proof.
  intros H.
  induction H as
    [ | b r Hb0 Hb _ [IH1 IH2]
      | b0 b1 r Hlo Hhi Hc1 _ [IH1 IH2]
      | b1 b2 r Hlo Hhi Hc2 _ [IH1 IH2]
      | b0 b1 b2 r Hr Hc1 Hc2 _ [IH1 IH2]
      | b1 b2 r Hlo Hhi Hc2 _ [IH1 IH2]
      | b1 b2 b3 r Hlo Hhi Hc2 Hc3 _ [IH1 IH2]
      | b0 b1 b2 b3 r Hlo Hhi Hc1 Hc2 Hc3 _ [IH1 IH2]
      | b1 b2 b3 r Hlo Hhi Hc2 Hc3 _ [IH1 IH2] ].
  - split; reflexivity.
  - rewrite dec_1 by exact Hb. rewrite encode_runes_cons, IH1, enc_1 by exact Hb.
    cbn [existsb]. rewrite IH2, bad_1 by assumption. split; reflexivity.
  - rewrite dec_2 by assumption.
    destruct (enc_2 b0 b1 Hlo Hhi Hc1) as [He Hbad].
    rewrite encode_runes_cons, IH1, He. cbn [existsb]. rewrite IH2, Hbad. split; reflexivity.
  - assert (Hc1 : cont b1 = true) by (unfold cont; lia).
    assert (He : encode_rune ((224 mod 16) * 4096 + (b1 mod 64) * 64 + b2 mod 64) = [224; b1; b2] /\
                 bad_rune ((224 mod 16) * 4096 + (b1 mod 64) * 64 + b2 mod 64) = false)
      by (apply enc_3; try assumption; lia).
    destruct He as [He Hbad].
    rewrite (dec_3 224 b1 b2 r) by (try assumption; lia).
    rewrite encode_runes_cons, IH1, He. cbn [existsb]. rewrite IH2, Hbad. split; reflexivity.
  - destruct (enc_3 b0 b1 b2) as [He Hbad]; try assumption; try lia.
    rewrite (dec_3 b0 b1 b2 r) by (try assumption; lia).
    rewrite encode_runes_cons, IH1, He. cbn [existsb]. rewrite IH2, Hbad. split; reflexivity.
  - assert (Hc1 : cont b1 = true) by (unfold cont; lia).
    destruct (enc_3 237 b1 b2) as [He Hbad]; try assumption; try lia.
    rewrite (dec_3 237 b1 b2 r) by (try assumption; lia).
    rewrite encode_runes_cons, IH1, He. cbn [existsb]. rewrite IH2, Hbad. split; reflexivity.
  - assert (Hc1 : cont b1 = true) by (unfold cont; lia).
    destruct (enc_4 240 b1 b2 b3) as [He Hbad]; try assumption; try lia.
    rewrite (dec_4 240 b1 b2 b3 r) by (try assumption; lia).
    rewrite encode_runes_cons, IH1, He. cbn [existsb]. rewrite IH2, Hbad. split; reflexivity.
  - destruct (enc_4 b0 b1 b2 b3) as [He Hbad]; try assumption; try lia.
    rewrite (dec_4 b0 b1 b2 b3 r) by (try assumption; lia).
    rewrite encode_runes_cons, IH1, He. cbn [existsb]. rewrite IH2, Hbad. split; reflexivity.
  - assert (Hc1 : cont b1 = true) by (unfold cont; lia).
    destruct (enc_4 244 b1 b2 b3) as [He Hbad]; try assumption; try lia.
    rewrite (dec_4 244 b1 b2 b3 r) by (try assumption; lia).
    rewrite encode_runes_cons, IH1, He. cbn [existsb]. rewrite IH2, Hbad. split; reflexivity.
Qed.

(* ---------- auxiliary facts about the Go slice primitives on encoder output ---------- *)

Lemma unpack_uint16_bytes v r : v < 65536 -> unpack_uint16 (uint16_bytes v ++ r) = Ok v.
Proof.
  intros Hv. unfold uint16_bytes, go_byte, unpack_uint16, index. rewrite shiftr8.
  cbn [app nth_error rbind]. f_equal. lia.
Qed.

Lemma slice_from_app (a b : list N) : slice_from (a ++ b) (length a) = Ok b.
Proof.
  unfold slice_from. rewrite app_length.
  assert (Nat.leb (length a) (length a + length b) = true) as -> by (apply Nat.leb_le; lia).
  rewrite skipn_app, Nat.sub_diag, skipn_all. reflexivity.
Qed.

Lemma pack_bytes_shape s t : pack_bytes s = Some t ->
  t = uint16_bytes (len s) ++ s /\ len s <= 65535 /\ length t = (length s + 2)%nat.
Proof.
  unfold pack_bytes. destruct (len s <=? 65535) eqn:E; [|discriminate].
  intros H. apply some_inj in H. subst t. split; [reflexivity|]. split; [lia|].
  unfold uint16_bytes. cbn [app length]. lia.
Qed.

Lemma unpack_string_pack s t rest : utf8_wf s -> pack_bytes s = Some t ->
  unpack_string (t ++ rest) = Ok ((length s + 2)%nat, s).
Proof.
  intros Hwf Hp. apply pack_bytes_shape in Hp as [Ht [Hlen _]]. subst t.
  unfold unpack_string. rewrite <- app_assoc.
  rewrite unpack_uint16_bytes by lia. cbn [rbind].
  unfold len. rewrite Nat2N.id.
  assert (Hl : length (uint16_bytes (N.of_nat (length s)) ++ s ++ rest)
               = (2 + (length s + length rest))%nat)
    by (unfold uint16_bytes; cbn [app length]; rewrite app_length; reflexivity).
  rewrite Hl.
  assert (Nat.ltb (2 + (length s + length rest)) 2 = false) as -> by (apply Nat.ltb_ge; lia).
  assert (Nat.ltb (2 + (length s + length rest)) (length s + 2) = false) as ->
    by (apply Nat.ltb_ge; lia).
  unfold slice. rewrite Hl.
  assert (Nat.leb 2 (length s + 2) = true) as -> by (apply Nat.leb_le; lia).
  assert (Nat.leb (length s + 2) (2 + (length s + length rest)) = true) as ->
    by (apply Nat.leb_le; lia).
  cbn [andb rbind].
  replace (length s + 2 - 2)%nat with (length s) by lia.
  unfold uint16_bytes. cbn [app skipn].
  rewrite firstn_app, Nat.sub_diag, firstn_all. cbn [firstn]. rewrite app_nil_r.
  destruct (recode_utf8 s Hwf) as [He Hb]. rewrite Hb, He. reflexivity.
Qed.

Lemma publish_flag_bits ret dup q : q <= 2 ->
  (b2n ret 1 + 2 * q + b2n dup 8) / 2 mod 4 = q /\
  N.odd ((b2n ret 1 + 2 * q + b2n dup 8) / 8) = dup /\
  N.odd (b2n ret 1 + 2 * q + b2n dup 8) = ret.
Proof.
  intros Hq. assert (Hc : q = 0 \/ q = 1 \/ q = 2) by lia.
  destruct Hc as [-> | [-> | ->]]; destruct ret, dup; vm_compute; repeat split; reflexivity.
Qed.

(* what the handler receives for an encoded PUBLISH: the same message (QoS 0 carries no identifier) *)
Definition delivered (m : message) : message :=
  {| m_topic := m_topic m; m_id := if m_qos m =? 0 then 0 else m_id m; m_qos := m_qos m;
     m_retain := m_retain m; m_dup := m_dup m; m_payload := m_payload m |}.

(* flag nibble of the PUBLISH fixed header the encoder writes (header byte = 48 + publish_flags m) *)
Definition publish_flags (m : message) : N := b2n (m_retain m) 1 + 2 * m_qos m + b2n (m_dup m) 8.

(* body of the PUBLISH packet the encoder writes *)
Definition publish_body (m : message) (t : list N) : list N :=
  t ++ (if m_qos m =? 0 then [] else uint16_bytes (m_id m)) ++ m_payload m.

Theorem publish_parse_inverse m t : m_qos m <= 2 -> m_id m < 65536 -> utf8_wf (m_topic m) ->
  pack_bytes (m_topic m) = Some t ->
  parse_publish (publish_flags m) (publish_body m t) = Ok (delivered m).
Proof.
  intros Hq Hid Hwf Hp.
  destruct m as [topic id qos retain dup payload].
  unfold parse_publish, publish_flags, publish_body, delivered.
  cbn [m_topic m_id m_qos m_retain m_dup m_payload] in *.
  cbv zeta.
  destruct (publish_flag_bits retain dup qos Hq) as [Hfq [Hfd Hfr]].
  rewrite Hfq, Hfd, Hfr.
  assert (qos =? 3 = false) as -> by lia.
  rewrite (unpack_string_pack topic t _ Hwf Hp). cbn [rbind].
  apply pack_bytes_shape in Hp as [_ [_ Hlen]].
  rewrite <- Hlen.
  destruct (qos =? 0) eqn:E0.
  - cbn [app]. rewrite slice_from_app. cbn [rbind].
    apply N.eqb_eq in E0. subst qos. reflexivity.
  - assert (Hl : length (t ++ uint16_bytes id ++ payload) = (length t + (2 + length payload))%nat)
      by (rewrite app_length; unfold uint16_bytes; cbn [app length]; reflexivity).
    rewrite Hl.
    assert (Nat.ltb (length t + (2 + length payload) - length t) 2 = false) as ->
      by (apply Nat.ltb_ge; lia).
    rewrite slice_from_app. cbn [rbind].
    rewrite unpack_uint16_bytes by exact Hid. cbn [rbind].
    assert (Hl2 : (length t + 2)%nat = length (t ++ uint16_bytes id))
      by (rewrite app_length; unfold uint16_bytes; cbn [length]; reflexivity).
    rewrite Hl2. rewrite (app_assoc t (uint16_bytes id) payload).
    rewrite slice_from_app. cbn [rbind]. reflexivity.
Qed.

(* ---------- non-vacuity ---------- *)
Example ex_utf8 : utf8_wf [97; 195; 169; 240; 159; 152; 128].
Proof. repeat (first [apply U_nil | apply U_1; [lia|lia|] | apply U_2; [lia|lia|reflexivity|] | apply U_4a; [lia|lia|reflexivity|reflexivity|]]). Qed.

Print Assumptions recode_ascii.
Print Assumptions recode_utf8.
Print Assumptions publish_parse_inverse.
