(* RetryInv_WireEx.v — non-vacuity: a concrete run that satisfies the hypotheses of the C12 / C03
   statements (two publishes and a subscribe, an acknowledgement lost with the connection, a packet
   lost with the next connection, two reconnects, a PUBREL-only and a DUP=1 retransmission). *)
From MQ Require Import Base RetryCore RetrySys CheckRetry RetryProps.
Open Scope nat_scope.

Definition ex_m1 := {| p_uid := 1; p_qos := 2%N; p_retain := false; p_topic := [116%N]; p_payload := [1%N] |}.
Definition ex_m2 := {| p_uid := 2; p_qos := 1%N; p_retain := false; p_topic := [116%N]; p_payload := [2%N] |}.
Definition ex_cfg := {| c_method_b := true; c_always_resub := false; c_timeout := false |}.
Definition ex_faults := [(0, 1, FAckLost); (1, 1, FLostAfter)].
Definition ex_cycle (g : nat) (sp : bool) : list label :=
  [LDial true; LSetClient; LConnBegin; LConnEnd (CoAccept sp); LPushResub; LPushRetry; LObserve g; LTask].
Definition ex_ls : list label :=
  ex_cycle 1 false
  ++ [LSubmit (UPub ex_m1); LSubmit (UPub ex_m2); LSubmit (USub 3 [([97%N], 1%N)]); LTask; LDetectEnd; LBackoff]
  ++ ex_cycle 2 true ++ [LTask; LTask; LDetectEnd; LBackoff]
  ++ ex_cycle 3 true.

Definition ex_wire : list (nat * pkt * wres) :=
  [(0, PPublish ex_m1 false, WAck); (0, PPubRel 1, WOk);
   (1, PPubRel 1, WAck); (1, PPublish ex_m2 false, WOk); (1, PSubscribe 3 [([97%N], 1%N)], WDead);
   (2, PPublish ex_m2 true, WAck); (2, PSubscribe 3 [([97%N], 1%N)], WAck)].

Lemma closing_only_of_list l :
  forallb (fun e => match snd e with FSilentReq | FSilentAck => false | _ => true end) l = true ->
  closing_only (fp_of_list l).
Proof.
  intros H k i. induction l as [|[[k' i'] f] l IH]; cbn [fp_of_list].
  - split; discriminate.
  - cbn [forallb snd] in H. apply andb_true_iff in H as [H1 H2].
    destruct ((k =? k') && (i =? i')); [|auto]. destruct f; try discriminate; split; discriminate.
Qed.

(* the hypotheses of the statements hold of this run: it is a run, the labels are well formed, the
   fault plan only closes connections; and it exercises retransmission on two connections *)
Example ex_run_nonvacuous :
  exists s, run ex_cfg (fp_of_list ex_faults) sys0 ex_ls = Some s
    /\ wf_labels ex_ls /\ closing_only (fp_of_list ex_faults)
    /\ wire_of s = ex_wire
    /\ b_delivered (broker_of s) = [1; 2]
    /\ q1plus_submitted s = [1; 2].
Proof.
  eexists. split; [vm_compute; reflexivity|].
  split; [vm_compute; reflexivity|].
  split; [apply closing_only_of_list; reflexivity|].
  repeat split; vm_compute; reflexivity.
Qed.

(* the retry handle: an interrupted QoS 1 publish yields the PUBLISH handle, a QoS 2 publish
   interrupted after PUBREC yields the PUBREL handle; both can then be run on an initialised client *)
Definition ex_client : client := {| cl_inited := true; cl_alive := true; cl_accepted := true; cl_sent := 0 |}.
Definition ex_world : world := set_clients world0 [ex_client; ex_client].

Example ex_handle_publish :
  exists w', attempt_publish ex_cfg (fp_of_list [(0, 0, FLostAfter)]) ex_world 0 ex_m2 false
             = (w', AFail (RPublish ex_m2) EConn)
    /\ cl_inited (get_client w' 1) = true.
Proof. eexists. split; vm_compute; reflexivity. Qed.

Example ex_handle_pubrel :
  exists w', attempt_publish ex_cfg (fp_of_list [(0, 1, FAckLost)]) ex_world 0 ex_m1 false
             = (w', AFail (RPubRel ex_m1) EConn)
    /\ cl_inited (get_client w' 1) = true.
Proof. eexists. split; vm_compute; reflexivity. Qed.
