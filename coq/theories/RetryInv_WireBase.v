(* RetryInv_WireBase.v — part 2: vocabulary of the wire-level invariant (pending entries, what a
   send may write for the entry at the head of the pending list) and what [send] does to the
   components the invariant looks at. *)
From MQ Require Import Base RetryCore RetrySys CheckRetry RetryProps RetryInv_Wire.
Open Scope nat_scope.

Definition alive (w : world) (j : nat) : bool := cl_alive (get_client w j).
Definition deliv (w : world) : list nat := b_delivered (w_broker w).
Definition uids (S : list uop) : list nat := map uop_uid S.
Definition euids (P : list rentry) : list nat := nonzero (map entry_uid P).

Definition pub_of (e : rentry) : option pubreq :=
  match e with RPublish m | RPubRel m | DPublish m => Some m | _ => None end.
Definition is_raw (e : rentry) : bool :=
  match e with RPublish _ | RPubRel _ | RSubscribe _ _ | RUnsubscribe _ _ => true | _ => false end.
Definition op_entry (o : uop) : rentry :=
  match o with UPub m => DPublish m | USub u ss => DSubscribe u ss | UUnsub u ts => DUnsubscribe u ts end.
Definition task_entries (t : task) : list rentry := match t with TOp o => [op_entry o] | _ => [] end.
Definition is_pubpkt (p : pkt) : bool := match p with PPublish _ _ | PPubRel _ => true | _ => false end.

(* the packet p may be written for the pending entry e, which then becomes e' *)
Inductive allowed : rentry -> pkt -> rentry -> Prop :=
| al_dpub m : p_qos m <> 0%N -> allowed (DPublish m) (PPublish m false) (RPublish m)
| al_dpub0 m : p_qos m = 0%N -> allowed (DPublish m) (PPublish m false) (RSubscribe (p_uid m) [])
    (* a QoS 0 publish is finished once written: a neutral placeholder with the same identifier *)
| al_rpub m : p_qos m <> 0%N -> allowed (RPublish m) (PPublish m true) (RPublish m)
| al_rel1 m : allowed (RPublish m) (PPubRel (p_uid m)) (RPubRel m)
| al_rel2 m : allowed (RPubRel m) (PPubRel (p_uid m)) (RPubRel m)
| al_dsub u ss : allowed (DSubscribe u ss) (PSubscribe u ss) (RSubscribe u ss)
| al_rsub u ss : allowed (RSubscribe u ss) (PSubscribe u ss) (RSubscribe u ss)
| al_dunsub u ts : allowed (DUnsubscribe u ts) (PUnsubscribe u ts) (RUnsubscribe u ts)
| al_runsub u ts : allowed (RUnsubscribe u ts) (PUnsubscribe u ts) (RUnsubscribe u ts).

Lemma allowed_uid e p e' : allowed e p e' -> entry_uid e' = entry_uid e /\ wire_uid p = entry_uid e.
Proof. intros H; inversion H; subst; split; reflexivity. Qed.
Lemma allowed_raw e p e' : allowed e p e' -> is_raw e' = true.
Proof. intros H; inversion H; reflexivity. Qed.
Lemma allowed_pub_of e p e' m : allowed e p e' -> pub_of e' = Some m -> pub_of e = Some m.
Proof. intros H; inversion H; subst; cbn; auto; discriminate. Qed.
Lemma allowed_rpublish e p m : allowed e p (RPublish m) -> p_qos m <> 0%N.
Proof. intros H; inversion H; subst; auto. Qed.
Lemma allowed_pubpkt e p e' : allowed e p e' -> is_pubpkt p = true -> exists m, pub_of e = Some m /\ wire_uid p = p_uid m.
Proof. intros H; inversion H; subst; cbn; intros Q; try discriminate; eauto. Qed.
Lemma allowed_publish e m d e' : allowed e (PPublish m d) e' -> pub_of e = Some m.
Proof. intros H; inversion H; reflexivity. Qed.
Lemma allowed_rel_raw e u e' : allowed e (PPubRel u) e' -> is_raw e = true.
Proof. intros H; inversion H; reflexivity. Qed.

(* ---------- clients ---------- *)
Lemma upd_nth_length {A} k (f : A -> A) l : length (upd_nth k f l) = length l.
Proof. revert k; induction l as [|x l IH]; intros [|k]; cbn [upd_nth length]; auto. Qed.

Lemma upd_nth_alive_mono f k l j :
  (forall c, cl_alive (f c) = true -> cl_alive c = true) ->
  cl_alive (nth j (upd_nth k f l) client_none) = true -> cl_alive (nth j l client_none) = true.
Proof.
  intros Hf. revert k j; induction l as [|x l IH]; intros [|k] [|j]; cbn [upd_nth nth]; auto.
  apply IH.
Qed.

Lemma upd_nth_kill_dead k l : cl_alive (nth k (upd_nth k kill l) client_none) = false.
Proof. revert k; induction l as [|x l IH]; intros [|k]; cbn [upd_nth nth]; auto. Qed.

Lemma upd_nth_other {A} (f : A -> A) k l j d : j <> k -> nth j (upd_nth k f l) d = nth j l d.
Proof.
  revert k j; induction l as [|x l IH]; intros [|k] [|j] H; cbn [upd_nth nth]; auto; try congruence.
Qed.

Lemma alive_upd_mono w k f j :
  (forall c, cl_alive (f c) = true -> cl_alive c = true) ->
  alive (upd_client w k f) j = true -> alive w j = true.
Proof. unfold alive, get_client, upd_client. prj. apply upd_nth_alive_mono. Qed.

Lemma alive_kill w k : alive (upd_client w k kill) k = false.
Proof. unfold alive, get_client, upd_client. prj. apply upd_nth_kill_dead. Qed.

Lemma alive_upd_other w k f j : j <> k -> alive (upd_client w k f) j = alive w j.
Proof. unfold alive, get_client, upd_client. prj. intros H. rewrite upd_nth_other; auto. Qed.

Lemma alive_lt w j : alive w j = true -> j < length (w_clients w).
Proof.
  unfold alive, get_client. intros H.
  destruct (Nat.lt_ge_cases j (length (w_clients w))) as [L|L]; [exact L|].
  rewrite nth_overflow in H by exact L. discriminate.
Qed.

Lemma kill_mono c : cl_alive (kill c) = true -> cl_alive c = true.
Proof. cbn. discriminate. Qed.
Lemma bump_mono c : cl_alive (bump c) = true -> cl_alive c = true.
Proof. cbn. auto. Qed.

(* ---------- the broker's delivery log ---------- *)
Lemma bs_deliv mb b p :
  b_delivered (broker_step mb b p) = b_delivered b \/
  (b_delivered (broker_step mb b p) = b_delivered b ++ [wire_uid p] /\ is_pubpkt p = true).
Proof.
  unfold broker_step. destruct p as [m d|u|u ss|u ts]; cbn [b_delivered b_q2 wire_uid is_pubpkt].
  - destruct (p_qos m <=? 1)%N; [right; split; reflexivity|].
    destruct mb; [left; reflexivity|].
    destruct (q2_mem (p_uid m) (b_q2 b)); cbn [b_delivered]; [left|right; split]; reflexivity.
  - destruct mb; cbn [b_delivered]; [|left; reflexivity].
    destruct (q2_mem u (b_q2 b)); [right; split|left]; reflexivity.
  - left; reflexivity.
  - left; reflexivity.
Qed.

(* ---------- send ---------- *)
Record send_post (fp : fplan) (w : world) (k : nat) (p : pkt) (w1 : world) (r : cres) (res : wres) : Prop := {
  sp_wire : w_wire w1 = w_wire w ++ [(k, p, res)];
  sp_retryq : w_retryq w1 = w_retryq w;
  sp_nrbe : w_nrbe w1 = w_nrbe w;
  sp_len : length (w_clients w1) = length (w_clients w);
  sp_mono : forall j, alive w1 j = true -> alive w j = true;
  sp_live : res <> WDead -> alive w k = true;
  sp_deliv : deliv w1 = deliv w \/
             (alive w k = true /\ deliv w1 = deliv w ++ [wire_uid p] /\ is_pubpkt p = true);
  sp_dead : closing_only fp -> r <> CAck -> alive w1 k = false
}.

Lemma send_cases cfg fp w k p w1 r :
  send cfg fp w k p = (w1, r) -> exists res, send_post fp w k p w1 r res.
Proof.
  unfold send. fold (alive w k). destruct (alive w k) eqn:A; cbn [negb].
  2:{ intros H; inversion H; subst. exists WDead. split; prj; auto. }
  set (f := if cl_accepted (get_client w k) then fp k (cl_sent (get_client w k)) else FLostAfter).
  assert (Hf : forall (co : closing_only fp), f <> FSilentReq /\ f <> FSilentAck).
  { intros co. unfold f. destruct (cl_accepted (get_client w k)); [apply co|split; discriminate]. }
  assert (M1 : forall j, alive (upd_client w k bump) j = true -> alive w j = true)
    by (intros j; apply alive_upd_mono, bump_mono).
  assert (Pd : forall w0, deliv w0 = deliv w ->
     deliv (process cfg w0 p) = deliv w \/
     (alive w k = true /\ deliv (process cfg w0 p) = deliv w ++ [wire_uid p] /\ is_pubpkt p = true)).
  { intros w0 E. unfold process, deliv in *. prj.
    destruct (bs_deliv (c_method_b cfg) (w_broker w0) p) as [B|[B C]]; rewrite B, E; auto. }
  destruct f eqn:Ef; intros H; inversion H; subst; clear H;
    [exists WAck|exists WFail|exists WOk|exists WOk|exists WOk|exists WOk];
    (split; prj; auto;
     try (unfold upd_client; prj; rewrite ?upd_nth_length; reflexivity);
     try (intros j Hj; apply M1; apply (alive_upd_mono _ k kill j kill_mono) in Hj; exact Hj);
     try (apply Pd; reflexivity);
     try (intros _ _; apply alive_kill);
     try (intros _ C; congruence);
     try (intros co; destruct (Hf co); congruence)).
Qed.

(* ====================================================================== *)
(* pending lists *)
Lemma in_mid {A} (x e : A) P1 P2 : In x (P1 ++ e :: P2) <-> x = e \/ In x (P1 ++ P2).
Proof. rewrite !in_app_iff. cbn [In]. intuition congruence. Qed.

Lemma euids_app P1 P2 : euids (P1 ++ P2) = euids P1 ++ euids P2.
Proof. unfold euids. rewrite map_app. apply nonzero_app. Qed.

Lemma euids_In u P : In u (euids P) <-> exists e, In e P /\ entry_uid e = u /\ u <> 0.
Proof.
  unfold euids. rewrite nonzero_In, in_map_iff. split.
  - intros ((e & E & H) & N). eauto.
  - intros (e & H & E & N). eauto.
Qed.

Lemma euids_cons e P : euids (e :: P) = (if entry_uid e =? 0 then [] else [entry_uid e]) ++ euids P.
Proof. unfold euids, nonzero. cbn [map filter]. destruct (entry_uid e =? 0); reflexivity. Qed.

Lemma euids_same_mid P1 e e' P2 : entry_uid e' = entry_uid e -> euids (P1 ++ e' :: P2) = euids (P1 ++ e :: P2).
Proof. intros E. rewrite !euids_app, !euids_cons, E. reflexivity. Qed.

(* order facts around a nonzero entry in an increasing pending list *)
Lemma ord_mid P1 e P2 :
  increasing_from 0 (euids (P1 ++ e :: P2)) = true -> entry_uid e <> 0 ->
  (forall x, In x P1 -> entry_uid x <> 0 -> entry_uid x < entry_uid e) /\
  (forall x, In x P2 -> entry_uid x <> 0 -> entry_uid e < entry_uid x).
Proof.
  intros H N. rewrite euids_app, euids_cons in H.
  destruct (entry_uid e =? 0) eqn:E; [apply Nat.eqb_eq in E; contradiction|].
  apply (proj1 (inc_app_iff _ _ _)) in H as (A & B & C). cbn [List.app] in B, C.
  apply (proj1 (inc_cons_iff _ _ _)) in B as (B1 & B2 & B3). split; intros x Hx Nx.
  - apply C; [apply euids_In; eauto|left; reflexivity].
  - apply B3. apply euids_In; eauto.
Qed.

Lemma inc_drop_mid P1 e P2 :
  increasing_from 0 (euids (P1 ++ e :: P2)) = true -> increasing_from 0 (euids (P1 ++ P2)) = true.
Proof.
  rewrite !euids_app, euids_cons, !inc_app_iff. intros (A & B & C).
  destruct B as (B1 & B2 & B3). repeat split; auto.
  intros x y Hx Hy. apply C; [exact Hx|]. apply in_or_app. right; exact Hy.
Qed.

Record wsame (w w' : world) : Prop := {
  ws_wire : w_wire w' = w_wire w;
  ws_deliv : deliv w' = deliv w;
  ws_len : length (w_clients w') = length (w_clients w);
  ws_mono : forall j, alive w' j = true -> alive w j = true
}.

Lemma wsame_refl w : wsame w w.
Proof. split; auto. Qed.

(* ====================================================================== *)
(* KB: the base part of the invariant *)
Record KB (S : list uop) (w : world) (P : list rentry) : Prop := {
  kb_inc : increasing_from 0 (euids P) = true;
  kb_uid : forall e, In e P -> entry_uid e = 0 \/ In (entry_uid e) (uids S);
  kb_sub : forall e m, In e P -> pub_of e = Some m -> In (UPub m) S /\ p_uid m <> 0;
  kb_wuid : forall j p r, In (j, p, r) (w_wire w) -> wire_uid p = 0 \/ In (wire_uid p) (uids S);
  kb_wsub : forall j m d r, In (j, PPublish m d, r) (w_wire w) -> In (UPub m) S;
  kb_wk : forall j p r, In (j, p, r) (w_wire w) -> r <> WDead -> j < length (w_clients w);
  kb_dsub : forall x, In x (deliv w) -> In x (uids S)
}.

Lemma KB_rearr S w P w' P' :
  KB S w P -> wsame w w' -> increasing_from 0 (euids P') = true ->
  (forall e, In e P' -> In e P \/ (entry_uid e = 0 /\ pub_of e = None)) ->
  KB S w' P'.
Proof.
  intros [] [] I Hin. split; rewrite ?ws_wire0, ?ws_deliv0, ?ws_len0; auto.
  - intros e He. destruct (Hin e He) as [H|[H _]]; auto.
  - intros e m He Hm. destruct (Hin e He) as [H|[_ H]]; [eauto|congruence].
Qed.

Lemma pub_of_uid e m : pub_of e = Some m -> entry_uid e = p_uid m.
Proof. destruct e; cbn; intros H; inversion H; reflexivity. Qed.

Lemma KB_send fp S w Pd e Pt p e' k w1 r res :
  KB S w (Pd ++ e :: Pt) -> allowed e p e' -> send_post fp w k p w1 r res ->
  KB S w1 (Pd ++ e' :: Pt).
Proof.
  intros [] Al []. destruct (allowed_uid _ _ _ Al) as [U1 U2].
  assert (He : In e (Pd ++ e :: Pt)) by (apply in_mid; left; reflexivity).
  assert (Hin : forall x, In x (Pd ++ e' :: Pt) -> x = e' \/ In x (Pd ++ e :: Pt)).
  { intros x Hx. apply in_mid in Hx as [->|Hx]; [left; reflexivity|right; apply in_mid; right; exact Hx]. }
  split.
  - rewrite (euids_same_mid _ _ _ _ U1). exact kb_inc0.
  - intros x Hx. destruct (Hin x Hx) as [->|H]; [rewrite U1|]; auto.
  - intros x m Hx Hm. destruct (Hin x Hx) as [->|H]; [|eauto].
    apply (allowed_pub_of _ _ _ _ Al) in Hm. eauto.
  - intros j q r0. rewrite sp_wire0, in_app_iff. intros [H|[H|[]]]; [eauto|].
    inversion H; subst. rewrite U2. auto.
  - intros j m d r0. rewrite sp_wire0, in_app_iff. intros [H|[H|[]]]; [eauto|].
    inversion H; subst. apply allowed_publish in Al. destruct (kb_sub0 _ _ He Al). assumption.
  - intros j q r0. rewrite sp_wire0, sp_len0, in_app_iff. intros [H|[H|[]]]; [eauto|].
    inversion H; subst. intros Hr. apply alive_lt. auto.
  - intros x. destruct sp_deliv0 as [D|(_ & D & Pp)]; rewrite D; [auto|].
    rewrite in_app_iff. intros [H|[<-|[]]]; [auto|].
    destruct (allowed_pubpkt _ _ _ Al Pp) as (m & Hm & ->).
    destruct (kb_sub0 _ _ He Hm) as [Hs _].
    unfold uids. change (p_uid m) with (uop_uid (UPub m)). apply in_map. exact Hs.
Qed.

Lemma uids_app S o : uids (S ++ [o]) = uids S ++ [uop_uid o].
Proof. unfold uids. rewrite map_app. reflexivity. Qed.

Lemma op_entry_uid o : entry_uid (op_entry o) = uop_uid o.
Proof. destruct o; reflexivity. Qed.

Lemma KB_submit S w P o :
  KB S w P -> (forall x, In x (uids S) -> x < uop_uid o) -> 0 < uop_uid o ->
  KB (S ++ [o]) w (P ++ [op_entry o]).
Proof.
  intros [] Hlt Hpos.
  assert (Su : forall x, In x (uids S) -> In x (uids (S ++ [o]))).
  { intros x Hx. rewrite uids_app. apply in_or_app. left; exact Hx. }
  split.
  - rewrite euids_app, euids_cons, op_entry_uid. cbn [euids map nonzero filter].
    destruct (uop_uid o =? 0) eqn:E; [apply Nat.eqb_eq in E; lia|]. rewrite app_nil_r.
    apply inc_snoc; [exact kb_inc0|exact Hpos|].
    intros y Hy. apply euids_In in Hy as (e & He & <- & N).
    destruct (kb_uid0 _ He) as [Z|Z]; [contradiction|auto].
  - intros e He. apply in_app_or in He as [He|[<-|[]]].
    + destruct (kb_uid0 _ He); auto.
    + right. rewrite op_entry_uid, uids_app. apply in_or_app. right; left; reflexivity.
  - intros e m He Hm. apply in_app_or in He as [He|[<-|[]]].
    + destruct (kb_sub0 _ _ He Hm). split; [apply in_or_app; left|]; assumption.
    + destruct o; cbn in Hm; inversion Hm; subst. split; [apply in_or_app; right; left; reflexivity|].
      cbn in Hpos. lia.
  - intros j p r H. destruct (kb_wuid0 _ _ _ H); auto.
  - intros j m d r H. apply in_or_app. left. eauto.
  - exact kb_wk0.
  - auto.
Qed.
