(* Calls_proofs.v — proofs about the model of Calls.v (C11). Statements are re-exported in props/C11.v. *)
From MQ Require Import Base Calls.

(* ===================================================================================== *)
(** * A. Error chains: a cancelled context is reported as that context's error *)

(* any stack of wrappers of the fixed code can be looked through *)
Lemma chain_through_wrappers : forall (ws : list wrapper) t e,
  chain_contains unwraps_fixed t (fold_right Wrap e ws) = chain_contains unwraps_fixed t e.
Proof.
  induction ws as [|w ws IH]; intros t e; cbn [fold_right chain_contains unwraps_fixed andb].
  - reflexivity.
  - apply IH.
Qed.

Lemma ctx_err_contains : forall rt x, x <> CtxLive ->
  chain_contains unwraps_fixed (ctx_sentinel x) (ctx_err rt x) = true.
Proof. intros [|] [| |] H; try contradiction; reflexivity. Qed.

Lemma wrap_as_fold : forall k e, exists ws, wrap k e = fold_right Wrap e ws.
Proof. intros [| |] e; [exists [] | exists [WError] | exists [WRetry]]; reflexivity. Qed.

Lemma finish_as_fold : forall c e, exists ws, res (finish c e) = RetErr (fold_right Wrap e ws).
Proof. intros c e; unfold finish; cbn [res set_res]. destruct (outer c); [exists [WError] | exists []]; reflexivity. Qed.

(* whatever the program, whatever the wrapping: a call that leaves through the ctx.Done() arm returns an
   error whose chain contains the error of the context the caller passed *)
Lemma ctx_arm_reports_ctx_error : forall tcl ccl wl rl c c' e,
  cstep tcl ccl wl rl ACtx c = Some (c', e) ->
  cx c <> CtxLive /\
  exists err, res c' = RetErr err /\ chain_contains unwraps_fixed (ctx_sentinel (cx c)) err = true.
Proof.
  intros tcl ccl wl rl c c' e H. unfold cstep in H.
  destruct (negb (active c)); [discriminate|].
  destruct (rest c) as [|ins tl]; [discriminate|].
  destruct ins; try discriminate.
  destruct (cx c) eqn:Ex; [discriminate| |];
    injection H as <- <-;
    (split; [discriminate|]);
    destruct (wrap_as_fold kctx (ctx_err (rtc c) (cx c))) as [ws1 E1];
    destruct (finish_as_fold c (wrap kctx (ctx_err (rtc c) (cx c)))) as [ws2 E2];
    rewrite Ex in *; eexists; (split; [exact E2|]);
    rewrite E1, !chain_through_wrappers; apply ctx_err_contains; discriminate.
Qed.

(* a retry handle run with a context of its own never looks at the context of the first attempt: whether a
   step is possible and what it yields is the same whatever that context's state is *)
Lemma cstep_ignores_original_context : forall tcl ccl wl rl a c x,
  cstep tcl ccl wl rl a (set_ocx c x) =
  match cstep tcl ccl wl rl a c with Some (c', e) => Some (set_ocx c' x, e) | None => None end.
Proof.
  intros tcl ccl wl rl a c x. unfold cstep.
  change (active (set_ocx c x)) with (active c). change (rest (set_ocx c x)) with (rest c).
  destruct (active c); cbn [negb]; [|reflexivity].
  destruct (rest c) as [|ins rs]; [reflexivity|].
  destruct ins, a; try reflexivity;
    change (answers (set_ocx c x)) with (answers c); change (cx (set_ocx c x)) with (cx c);
    change (ackready (set_ocx c x)) with (ackready c);
    try (destruct wl; reflexivity); try (destruct (wl || rl); reflexivity);
    try (destruct tcl; [reflexivity|destruct (answers c); reflexivity]);
    try (destruct ccl; reflexivity); try (destruct (cx c); reflexivity);
    try (destruct (ackready c); reflexivity); try (destruct tcl; reflexivity).
Qed.

(* a call parked in a select whose context has ended can take the ctx.Done() arm whatever the rest of the system
   does — in particular while the reader goroutine is busy inside a message handler and takes no step at all *)
Lemma parked_ctx_enabled : forall s i c kc kx rs,
  nth_error (calls s) i = Some c -> active c = true -> rest c = ISelect kc kx :: rs -> cx c <> CtxLive ->
  step (LCall i ACtx) s <> None.
Proof.
  intros s i c kc kx rs En Ha Er Hx. cbn [step]. rewrite En. unfold cstep. rewrite Ha, Er. cbn [negb].
  destruct (cx c); [contradiction|discriminate|discriminate].
Qed.

(* ===================================================================================== *)
(** * B. Basic facts about steps *)

Lemma nth_error_upd_same {A} : forall (l : list A) i x y, nth_error l i = Some y -> nth_error (upd i x l) i = Some x.
Proof.
  induction l as [|h t IH]; intros [|i] x y H; cbn in *; try discriminate; try reflexivity.
  eapply IH; exact H.
Qed.

Lemma nth_error_upd_other {A} : forall (l : list A) i j x, i <> j -> nth_error (upd i x l) j = nth_error l j.
Proof.
  induction l as [|h t IH]; intros [|i] [|j] x H; cbn; try reflexivity; try contradiction.
  apply IH. congruence.
Qed.

Lemma length_upd {A} : forall (l : list A) i x, length (upd i x l) = length l.
Proof. induction l as [|h t IH]; intros [|i] x; cbn; try reflexivity. f_equal; apply IH. Qed.

Lemma Forall_upd {A} (P : A -> Prop) : forall l i x, Forall P l -> P x -> Forall P (upd i x l).
Proof.
  induction l as [|h t IH]; intros [|i] x Hl Hx; cbn; try constructor; inversion Hl; subst; auto.
Qed.

Lemma Forall2_upd {A B} (P : A -> B -> Prop) : forall l1 l2 i x y,
  Forall2 P l1 l2 -> nth_error l1 i = Some x -> P x y -> Forall2 P l1 (upd i y l2).
Proof.
  induction l1 as [|h t IH]; intros l2 i x y H2 Hn Hp; inversion H2; subst.
  - destruct i; discriminate.
  - destruct i as [|i]; cbn in *.
    + injection Hn as ->. constructor; assumption.
    + constructor; [assumption|]. eapply IH; eassumption.
Qed.

Lemma Forall2_nth {A B} (P : A -> B -> Prop) : forall l1 l2 i y,
  Forall2 P l1 l2 -> nth_error l2 i = Some y -> exists x, nth_error l1 i = Some x /\ P x y.
Proof.
  induction l1 as [|h t IH]; intros l2 i y H2 Hn; inversion H2; subst.
  - destruct i; discriminate.
  - destruct i as [|i]; cbn in *.
    + injection Hn as <-. eexists; split; [reflexivity|assumption].
    + eapply IH; eassumption.
Qed.

Lemma sum_upd {A} (f : A -> nat) : forall l i x y, nth_error l i = Some y ->
  list_sum (map f (upd i x l)) + f y = list_sum (map f l) + f x.
Proof.
  unfold list_sum.
  induction l as [|h t IH]; intros [|i] x y H; cbn in *; try discriminate.
  - injection H as ->. lia.
  - specialize (IH i x y H). lia.
Qed.

(* what a call step can be *)
Lemma step_call_inv : forall i a s s', step (LCall i a) s = Some s' ->
  exists c c' e, nth_error (calls s) i = Some c /\
    cstep (tclosed s) (cclosed s) (wlocked (calls s)) (rlocked (calls s)) a c = Some (c', e) /\
    s' = apply_effect i e (set_calls s (upd i c' (calls s))).
Proof.
  intros i a s s' H. cbn [step] in H.
  destruct (nth_error (calls s) i) as [c|] eqn:En; [|discriminate].
  destruct (cstep _ _ _ _ a c) as [[c' e]|] eqn:Ec; [|discriminate].
  injection H as <-. exists c, c', e. auto.
Qed.

Lemma apply_effect_calls : forall i e s, calls (apply_effect i e s) = calls s.
Proof. intros i [] s; cbn; try reflexivity; [destruct (rd s)|destruct (eof s)]; reflexivity. Qed.

Lemma apply_effect_cclosed : forall i e s, cclosed (apply_effect i e s) = cclosed s.
Proof. intros i [] s; cbn; try reflexivity; [destruct (rd s)|destruct (eof s)]; reflexivity. Qed.

Lemma apply_effect_eof : forall i e s, eof (apply_effect i e s) = eof s.
Proof. intros i [] s; cbn; try reflexivity; [destruct (rd s)|destruct (eof s) eqn:E]; cbn; congruence. Qed.

Lemma apply_effect_tclosed : forall i e s, tclosed s = true -> tclosed (apply_effect i e s) = true.
Proof. intros i [] s H; cbn; try assumption; try reflexivity; [destruct (rd s)|destruct (eof s)]; assumption. Qed.

Lemma apply_effect_rd : forall i e s, rd s <> RNotStarted -> rd (apply_effect i e s) = rd s.
Proof. intros i [] s H; cbn; try reflexivity; [destruct (rd s) eqn:E|destruct (eof s)]; cbn; congruence. Qed.

(* the inbox only grows, by an answer of the peer, and only while the peer has not closed *)
Lemma apply_effect_inbox : forall i e s, exists tl, inbox (apply_effect i e s) = inbox s ++ tl /\
  (tl = [] \/ (tl = [PAck i] /\ e = ESendAck /\ eof s = false)).
Proof.
  intros i [] s; cbn; try (exists []; rewrite app_nil_r; split; [reflexivity | left; reflexivity]).
  - destruct (rd s); exists []; rewrite app_nil_r; (split; [reflexivity | left; reflexivity]).
  - destruct (eof s) eqn:E.
    + exists []. rewrite app_nil_r. split; [reflexivity | left; reflexivity].
    + exists [PAck i]. split; [reflexivity | right; auto].
Qed.

Definition is_lock (i : instr) : bool := match i with IRLock | IWLock => true | _ => false end.

Ltac cstep_cases H a :=
  let ins := fresh "ins" in
  let tl := fresh "tl" in
  unfold cstep in H;
  match type of H with context [active ?c] => destruct (active c) eqn:Eact end;
  cbn [negb] in H; [|discriminate];
  match type of H with context [rest ?c] => destruct (rest c) as [|ins tl] eqn:Erest end;
  [discriminate|];
  destruct ins; destruct a; try discriminate;
  repeat match type of H with
         | context [if ?b then _ else _] => destruct b eqn:?
         | context [match answers ?c with _ => _ end] => destruct (answers c) eqn:?
         | context [match cx ?c with _ => _ end] => destruct (cx c) eqn:?
         end; try discriminate;
  injection H as <- <-.

(* the result of a cstep is the call advanced by one instruction or the call finished *)
Lemma cstep_shape : forall tcl ccl wl rl a c c' e, cstep tcl ccl wl rl a c = Some (c', e) ->
  active c = true /\
  exists ins tl, rest c = ins :: tl /\
    ((exists err, c' = finish c err) \/
     (rest c' = tl /\ res c' = res c /\ cx c' = cx c /\ (held c' = held c \/ is_lock ins = true))).
Proof.
  intros tcl ccl wl rl a c c' e H.
  cstep_cases H a; (split; [reflexivity|]); eexists; eexists; (split; [reflexivity|]);
    try (left; eexists; reflexivity);
    right; cbn; repeat split; auto.
Qed.

(* ===================================================================================== *)
(** * C. Termination: every step decreases [msr]; the explorer sees every schedule *)

Lemma active_finish : forall c e, active (finish c e) = false.
Proof. intros c e. unfold active, finish. cbn. reflexivity. Qed.

Lemma cstep_cw : forall tcl ccl wl rl a c c' e, cstep tcl ccl wl rl a c = Some (c', e) -> cw c' + 2 <= cw c.
Proof.
  intros tcl ccl wl rl a c c' e H. apply cstep_shape in H as (Ha & ins & tl & Er & [[err ->] | (Er' & _)]).
  - unfold cw. rewrite active_finish, Ha, Er. cbn [length]. lia.
  - unfold cw. rewrite Ha, Er, Er'. cbn [length]. destruct (active c'); lia.
Qed.

Lemma cw_set_ack : forall c b, cw (set_ack c b) = cw c.
Proof. intros c b. reflexivity. Qed.

Lemma apply_effect_msr_parts : forall i e s,
  length (inbox (apply_effect i e s)) <= S (length (inbox s)) /\ rrank (rd (apply_effect i e s)) <= rrank (rd s).
Proof.
  intros i [] s; cbn; try (split; lia).
  - destruct (rd s) eqn:E; cbn; rewrite ?E; cbn; split; lia.
  - destruct (eof s); cbn; [split; lia|]. rewrite app_length. cbn. split; lia.
Qed.

Lemma step_msr : forall l s s', step l s = Some s' -> msr s' < msr s.
Proof.
  intros [|i a] s s' H.
  - cbn [step] in H. unfold rstep in H. unfold msr, list_sum.
    destruct (rd s) eqn:Erd; try discriminate.
    + destruct (inbox s) as [|[j| |] q] eqn:Ein.
      * destruct (tclosed s || eof s); [|discriminate]. injection H as <-. cbn. rewrite Ein. cbn. lia.
      * injection H as <-. unfold deliver. cbn [calls set_inbox].
        destruct (nth_error (calls s) j) as [c|] eqn:En; cbn; rewrite ?Erd; cbn.
        -- pose proof (sum_upd cw (calls s) j (set_ack c true) c En) as Hs. rewrite cw_set_ack in Hs.
           unfold list_sum in Hs. lia.
        -- lia.
      * injection H as <-. cbn. rewrite Erd. cbn. lia.
      * injection H as <-. cbn. lia.
    + injection H as <-. cbn. lia.
    + injection H as <-. destruct (disc s); cbn; lia.
    + injection H as <-. cbn. lia.
    + injection H as <-. cbn. lia.
  - apply step_call_inv in H as (c & c' & e & En & Ec & ->).
    unfold msr. rewrite apply_effect_calls. cbn [calls set_calls].
    pose proof (apply_effect_msr_parts i e (set_calls s (upd i c' (calls s)))) as [Hi Hr].
    cbn [inbox rd set_calls] in Hi, Hr.
    pose proof (sum_upd cw (calls s) i c' c En) as Hs.
    pose proof (cstep_cw _ _ _ _ _ _ _ _ Ec) as Hc. unfold list_sum in *. lia.
Qed.

Lemma in_all_labels_reader : forall n, In LReader (all_labels n).
Proof. intros n. left. reflexivity. Qed.

Lemma in_all_labels_call : forall n i a, i < n -> In (LCall i a) (all_labels n).
Proof.
  intros n i a H. right. apply in_flat_map. exists i. split.
  - apply in_seq. lia.
  - destruct a; cbn; auto.
Qed.

Lemma step_in_successors : forall l s s', step l s = Some s' -> In s' (successors s).
Proof.
  intros l s s' H. unfold successors. apply in_flat_map. exists l. split.
  - destruct l as [|i a]; [apply in_all_labels_reader|]. apply in_all_labels_call.
    cbn [step] in H. destruct (nth_error (calls s) i) eqn:En; [|discriminate].
    apply nth_error_Some. congruence.
  - rewrite H. left. reflexivity.
Qed.

Lemma successors_step : forall s s', In s' (successors s) -> exists l, step l s = Some s'.
Proof.
  intros s s' H. unfold successors in H. apply in_flat_map in H as (l & _ & Hl).
  exists l. destruct (step l s); [|contradiction]. destruct Hl as [->|[]]. reflexivity.
Qed.

Lemma successors_nil_quiescent : forall s, successors s = [] <-> Quiescent s.
Proof.
  intros s. split.
  - intros H l. destruct (step l s) eqn:E; [|reflexivity].
    apply step_in_successors in E. rewrite H in E. contradiction.
  - intros H. destruct (successors s) as [|x r] eqn:E; [reflexivity|].
    destruct (successors_step s x) as [l Hl]; [rewrite E; left; reflexivity|]. rewrite H in Hl. discriminate.
Qed.

(* the deterministic scheduler reaches a state where nothing moves, within [msr] steps *)
Lemma greedy_quiescent : forall fuel s, msr s <= fuel -> Quiescent (greedy fuel s).
Proof.
  induction fuel as [|f IH]; intros s H; cbn [greedy].
  - apply successors_nil_quiescent. destruct (successors s) as [|x r] eqn:E; [reflexivity|].
    destruct (successors_step s x) as [l Hl]; [rewrite E; left; reflexivity|]. apply step_msr in Hl. lia.
  - destruct (successors s) as [|x r] eqn:E.
    + apply successors_nil_quiescent. exact E.
    + apply IH. destruct (successors_step s x) as [l Hl]; [rewrite E; left; reflexivity|]. apply step_msr in Hl. lia.
Qed.

Lemma run_cons : forall l sched s, run (l :: sched) s = run sched (exec s l).
Proof. reflexivity. Qed.

(* every schedule that runs until nothing moves ends in a state the explorer lists *)
Lemma explore_complete : forall sched s fuel, msr s < fuel -> Quiescent (run sched s) ->
  In (Some (run sched s)) (explore fuel s).
Proof.
  induction sched as [|l r IH]; intros s fuel Hf Hq; (destruct fuel as [|f]; [lia|]); cbn [explore].
  - cbn in Hq. apply successors_nil_quiescent in Hq. rewrite Hq. left. reflexivity.
  - rewrite run_cons in *. unfold exec in *. destruct (step l s) as [s'|] eqn:Es.
    + pose proof (step_in_successors _ _ _ Es) as Hin. pose proof (step_msr _ _ _ Es) as Hm.
      destruct (successors s) as [|x q] eqn:E; [contradiction|].
      apply in_flat_map. exists s'. split; [exact Hin|]. apply IH; [lia|exact Hq].
    + specialize (IH s (S f) Hf Hq). cbn [explore] in IH. exact IH.
Qed.

Lemma explore_fuel_enough : forall fuel s, msr s < fuel -> ~ In None (explore fuel s).
Proof.
  induction fuel as [|f IH]; intros s H; [lia|]. cbn [explore].
  destruct (successors s) as [|x q] eqn:E.
  - intros [Hc|[]]. discriminate.
  - intros Hin. apply in_flat_map in Hin as (y & Hy & Hn).
    destruct (successors_step s y) as [l Hl]; [rewrite E; exact Hy|]. apply step_msr in Hl.
    apply (IH y); [lia|exact Hn].
Qed.

(* ===================================================================================== *)
(** * D. The serve-exit goroutine cannot be held up: four of its own steps after serve returned *)

Fixpoint count_reader (sched : list label) : nat :=
  match sched with
  | [] => 0
  | LReader :: r => S (count_reader r)
  | _ :: r => count_reader r
  end.

Definition exit_left (r : rstate) : nat :=
  match r with RExit0 => 4 | RExit1 => 3 | RExit2 => 2 | RExit3 => 1 | _ => 0 end.

Definition exiting (r : rstate) : bool :=
  match r with RExit0 | RExit1 | RExit2 | RExit3 | RFinished => true | _ => false end.

Definition exit_inv (s : sys) : Prop :=
  exiting (rd s) = true /\ (rd s <> RExit0 -> tclosed s = true) /\ (rd s = RFinished -> cclosed s = true).

Lemma exec_exit_inv : forall s l, exit_inv s ->
  exit_inv (exec s l) /\
  exit_left (rd (exec s l)) = exit_left (rd s) - (match l with LReader => 1 | _ => 0 end).
Proof.
  intros s l (He & Ht & Hc). unfold exec. destruct (step l s) as [s'|] eqn:Es.
  - destruct l as [|i a].
    + cbn [step] in Es. unfold rstep in Es.
      destruct (rd s) eqn:Erd; try discriminate; injection Es as <-; unfold exit_inv;
        try (destruct (disc s)); cbn; rewrite ?Erd; cbn;
        (split; [split; [reflexivity|split; [intros _; try reflexivity; try (apply Ht; discriminate)|
                                              intros; try discriminate; try reflexivity]]|reflexivity]).
    + apply step_call_inv in Es as (c & c' & e & En & Ec & ->).
      assert (Hns : rd (set_calls s (upd i c' (calls s))) <> RNotStarted).
      { cbn. intros E. rewrite E in He. discriminate. }
      unfold exit_inv. rewrite apply_effect_rd, apply_effect_cclosed by exact Hns. cbn [rd cclosed set_calls].
      split; [split; [exact He|split; [|exact Hc]]|lia].
      intros Hr. apply apply_effect_tclosed. cbn. apply Ht. exact Hr.
  - split; [exact (conj He (conj Ht Hc))|].
    destruct l as [|i a]; [|lia]. cbn [step] in Es. unfold rstep in Es.
    destruct (rd s) eqn:Erd; try discriminate; cbn; lia.
Qed.

Lemma exit_goroutine_runs_to_end : forall sched s, exit_inv s -> exit_left (rd s) <= count_reader sched ->
  rd (run sched s) = RFinished /\ cclosed (run sched s) = true /\ tclosed (run sched s) = true.
Proof.
  induction sched as [|l r IH]; intros s Hi Hc.
  - cbn in *. destruct Hi as (He & Ht & Hcc).
    destruct (rd s) eqn:E; cbn in He, Hc; try discriminate; try lia.
    split; [reflexivity|]. split; [apply Hcc; reflexivity|apply Ht; discriminate].
  - rewrite run_cons. destruct (exec_exit_inv s l Hi) as [Hi' Hl]. apply IH; [exact Hi'|].
    rewrite Hl. destruct l; cbn [count_reader] in Hc; lia.
Qed.

(* ===================================================================================== *)
(** * E. After a connection end nothing stays blocked, under every schedule *)

Definition lockfree (l : list instr) : Prop := Forall (fun i => is_lock i = false) l.

(* a call takes muConnecting only with its first instruction (true of every program of Calls.v) *)
Definition wf_call (c : cst) : Prop := lockfree (tl (rest c)) /\ (held c <> HNone -> lockfree (rest c)).

Definition past_serving (r : rstate) : bool := match r with RNotStarted | RServing => false | _ => true end.

(* the connection has ended or is bound to: transport closed locally, peer closed, a malformed packet
   is on its way to the reader, or serve has already returned *)
Definition ended (s : sys) : Prop :=
  tclosed s = true \/ eof s = true \/ In PBad (inbox s) \/ past_serving (rd s) = true.

Definition after_close (r : rstate) : bool := match r with RExit1 | RExit2 | RExit3 | RFinished => true | _ => false end.

(* true of every reachable state: the serve-exit sequence closes the transport first and Done() last *)
Definition reader_inv (s : sys) : Prop :=
  (rd s = RFinished -> cclosed s = true) /\ (after_close (rd s) = true -> tclosed s = true).

Lemma step_reader_inv : forall l s s', rd s <> RNotStarted -> reader_inv s -> step l s = Some s' -> reader_inv s'.
Proof.
  intros [|i a] s s' Hst [Hcc Htc] H.
  - cbn [step] in H. unfold rstep in H.
    destruct (rd s) eqn:Erd; try discriminate.
    + destruct (inbox s) as [|[j| |] q] eqn:Ein.
      * destruct (tclosed s || eof s); [|discriminate]. injection H as <-. split; cbn; discriminate.
      * injection H as <-. unfold deliver, reader_inv. cbn [calls set_inbox].
        destruct (nth_error (calls s) j); cbn; rewrite Erd; split; discriminate.
      * injection H as <-. unfold reader_inv. cbn. rewrite Erd. split; discriminate.
      * injection H as <-. split; cbn; discriminate.
    + injection H as <-. split; cbn; [discriminate|reflexivity].
    + injection H as <-. unfold reader_inv. destruct (disc s); cbn; (split; [discriminate|intros _; apply Htc; reflexivity]).
    + injection H as <-. split; cbn; [discriminate|intros _; apply Htc; reflexivity].
    + injection H as <-. split; cbn; [reflexivity|intros _; apply Htc; reflexivity].
  - apply step_call_inv in H as (c & c' & e & En & Ec & ->).
    assert (Hns : rd (set_calls s (upd i c' (calls s))) <> RNotStarted) by exact Hst.
    unfold reader_inv. rewrite apply_effect_rd, apply_effect_cclosed by exact Hns. cbn [rd cclosed set_calls].
    split; [exact Hcc|]. intros Ha. apply apply_effect_tclosed. cbn. apply Htc. exact Ha.
Qed.

Record sinv (s : sys) : Prop := mkSinv {
  si_wf : Forall wf_call (calls s);
  si_started : rd s <> RNotStarted;
  si_ended : ended s;
  si_cc : reader_inv s
}.

Lemma wf_call_cstep : forall tcl ccl wl rl a c c' e,
  wf_call c -> cstep tcl ccl wl rl a c = Some (c', e) -> wf_call c'.
Proof.
  intros tcl ccl wl rl a c c' e [Hw1 Hw2] H.
  apply cstep_shape in H as (_ & ins & rs & Er & [[err ->] | (Er' & _ & _ & _)]).
  - split; assumption.
  - rewrite Er in Hw1. cbn [tl] in Hw1. unfold wf_call. rewrite Er'. split.
    + destruct rs as [|x t]; [constructor|]. inversion Hw1; assumption.
    + intros _. exact Hw1.
Qed.

Lemma step_sinv : forall l s s', sinv s -> step l s = Some s' -> sinv s'.
Proof.
  intros l s s' [Hwf Hst Hen Hcc] H.
  pose proof (step_reader_inv l s s' Hst Hcc H) as Hri.
  destruct l as [|i a].
  - cbn [step] in H. unfold rstep in H.
    destruct (rd s) eqn:Erd; try discriminate.
    + destruct (inbox s) as [|[j| |] q] eqn:Ein.
      * destruct (tclosed s || eof s) eqn:Et; [|discriminate]. injection H as <-.
        constructor; cbn; try assumption; try discriminate. right; right; right. reflexivity.
      * injection H as <-. unfold deliver in *. cbn [calls set_inbox] in *.
        assert (Hen' : ended (set_inbox s q)).
        { destruct Hen as [Ht|[He|[Hb|Hp]]]; [left; exact Ht|right; left; exact He| |rewrite Erd in Hp; discriminate].
          rewrite Ein in Hb. destruct Hb as [Hb|Hb]; [discriminate|]. right; right; left. exact Hb. }
        destruct (nth_error (calls s) j) as [c|] eqn:En.
        -- constructor; [| | |exact Hri]; cbn; rewrite ?Erd; try discriminate; try exact Hen'.
           apply Forall_upd; [exact Hwf|].
           pose proof (proj1 (Forall_forall _ _) Hwf c (nth_error_In _ _ En)) as Hc. exact Hc.
        -- constructor; [| | |exact Hri]; cbn; rewrite ?Erd; try discriminate; try exact Hen'. exact Hwf.
      * injection H as <-. constructor; [| | |exact Hri]; cbn; rewrite ?Erd; try discriminate; try exact Hwf.
        destruct Hen as [Ht|[He|[Hb|Hp]]]; [left; exact Ht|right; left; exact He| |rewrite Erd in Hp; discriminate].
        rewrite Ein in Hb. destruct Hb as [Hb|Hb]; [discriminate|]. right; right; left. exact Hb.
      * injection H as <-. constructor; [| | |exact Hri]; cbn; try discriminate; try exact Hwf. right; right; right. reflexivity.
    + injection H as <-. constructor; [| | |exact Hri]; cbn; try discriminate; try exact Hwf. left. reflexivity.
    + injection H as <-. constructor; [| | |exact Hri]; destruct (disc s); cbn; try discriminate; try exact Hwf; right; right; right; reflexivity.
    + injection H as <-. constructor; [| | |exact Hri]; cbn; try discriminate; try exact Hwf. right; right; right; reflexivity.
    + injection H as <-. constructor; [| | |exact Hri]; cbn; try discriminate; try exact Hwf. right; right; right; reflexivity.
  - apply step_call_inv in H as (c & c' & e & En & Ec & ->).
    assert (Hns : rd (set_calls s (upd i c' (calls s))) <> RNotStarted) by exact Hst.
    constructor; [| | |exact Hri].
    + rewrite apply_effect_calls. cbn [calls set_calls]. apply Forall_upd; [exact Hwf|].
      eapply wf_call_cstep; [|exact Ec]. exact (proj1 (Forall_forall _ _) Hwf c (nth_error_In _ _ En)).
    + rewrite apply_effect_rd by exact Hns. exact Hst.
    + destruct Hen as [Ht|[He|[Hb|Hp]]].
      * left. apply apply_effect_tclosed. exact Ht.
      * right; left. rewrite apply_effect_eof. exact He.
      * right; right; left. destruct (apply_effect_inbox i e (set_calls s (upd i c' (calls s)))) as (t & -> & _).
        apply in_or_app. left. exact Hb.
      * right; right; right. rewrite apply_effect_rd by exact Hns. exact Hp.
Qed.

Lemma run_sinv : forall sched s, sinv s -> sinv (run sched s).
Proof.
  induction sched as [|l r IH]; intros s H; [exact H|]. rewrite run_cons. apply IH.
  unfold exec. destruct (step l s) eqn:E; [eapply step_sinv; eassumption|exact H].
Qed.

Lemma quiescent_reader_finished : forall s, sinv s -> Quiescent s -> rd s = RFinished.
Proof.
  intros s [_ Hst Hen _] Hq. specialize (Hq LReader). cbn [step] in Hq. unfold rstep in Hq.
  destruct (rd s) eqn:Erd; try discriminate; try contradiction; try reflexivity.
  destruct (inbox s) as [|[| |] ?] eqn:Ein; try discriminate.
  destruct Hen as [Ht|[He|[Hb|Hp]]].
  - rewrite Ht in Hq. discriminate.
  - rewrite He, orb_true_r in Hq. discriminate.
  - rewrite Ein in Hb. contradiction.
  - rewrite Erd in Hp. discriminate.
Qed.

(* an active call whose next instruction is not a lock acquisition can move once connClosed is closed *)
Lemma enabled_nonlock : forall s i c ins tl, nth_error (calls s) i = Some c -> active c = true ->
  rest c = ins :: tl -> is_lock ins = false -> cclosed s = true -> tclosed s = true ->
  step (LCall i AClosed) s <> None.
Proof.
  intros s i c ins tl En Ha Er Hl Hc Ht. cbn [step]. rewrite En. unfold cstep. rewrite Ha, Er, Hc, Ht. cbn [negb].
  destruct ins; try discriminate; try (destruct (answers c)); discriminate.
Qed.

Lemma enabled_lock : forall s i c ins tl, nth_error (calls s) i = Some c -> active c = true ->
  rest c = ins :: tl -> is_lock ins = true -> wlocked (calls s) = false -> rlocked (calls s) = false ->
  step (LCall i AClosed) s <> None.
Proof.
  intros s i c ins tl En Ha Er Hl Hw Hr. cbn [step]. rewrite En. unfold cstep. rewrite Ha, Er, Hw, Hr. cbn [negb orb].
  destruct ins; discriminate.
Qed.

Lemma active_rest : forall c, active c = true -> exists ins tl, rest c = ins :: tl.
Proof. intros c H. unfold active in H. destruct (res c); try discriminate. destruct (rest c) as [|x t]; [discriminate|]. eauto. Qed.

(* C11, liveness core: whatever the calls are doing (waiting for the lock, about to write, parked in any
   select, any context state, acknowledgements pending or not): once the connection has ended, a state in
   which nothing can move has the reader goroutine gone, Done() closed and every call returned *)
Theorem quiescent_all_returned : forall s, sinv s -> Quiescent s ->
  rd s = RFinished /\ cclosed s = true /\ Forall (fun c => active c = false) (calls s).
Proof.
  intros s Hi Hq. pose proof (quiescent_reader_finished s Hi Hq) as Hr.
  destruct (si_cc s Hi) as [Hc0 Htc0]. pose proof (Hc0 Hr) as Hc.
  assert (Htc : tclosed s = true) by (apply Htc0; rewrite Hr; reflexivity).
  split; [exact Hr|]. split; [exact Hc|].
  (* 1: every active call sits at a lock acquisition *)
  assert (H1 : forall i c ins tl, nth_error (calls s) i = Some c -> active c = true -> rest c = ins :: tl -> is_lock ins = true).
  { intros i c ins tl En Ha Er. destruct (is_lock ins) eqn:El; [reflexivity|].
    exfalso. apply (enabled_nonlock s i c ins tl En Ha Er El Hc Htc). apply Hq. }
  (* 2: so no active call holds the lock *)
  assert (H2 : forall c, In c (calls s) -> active c = true -> held c = HNone).
  { intros c Hin Ha. destruct (In_nth_error _ _ Hin) as [i En].
    destruct (active_rest c Ha) as (ins & tl & Er). pose proof (H1 i c ins tl En Ha Er) as Hl.
    destruct (proj1 (Forall_forall _ _) (si_wf s Hi) c Hin) as [_ Hw].
    destruct (held c) eqn:Eh; [reflexivity| |]; exfalso;
      (assert (Hlf : lockfree (rest c)) by (apply Hw; discriminate));
      rewrite Er in Hlf; inversion Hlf; congruence. }
  assert (Hw : wlocked (calls s) = false).
  { unfold wlocked. destruct (existsb _ (calls s)) eqn:E; [|reflexivity]. apply existsb_exists in E as (c & Hin & Hb).
    apply andb_true_iff in Hb as [Ha Hh]. rewrite (H2 c Hin Ha) in Hh. discriminate. }
  assert (Hrl : rlocked (calls s) = false).
  { unfold rlocked. destruct (existsb _ (calls s)) eqn:E; [|reflexivity]. apply existsb_exists in E as (c & Hin & Hb).
    apply andb_true_iff in Hb as [Ha Hh]. rewrite (H2 c Hin Ha) in Hh. discriminate. }
  (* 3: then the lock is free and any of them could take it *)
  apply Forall_forall. intros c Hin. destruct (active c) eqn:Ha; [|reflexivity]. exfalso.
  destruct (In_nth_error _ _ Hin) as [i En]. destruct (active_rest c Ha) as (ins & tl & Er).
  apply (enabled_lock s i c ins tl En Ha Er (H1 i c ins tl En Ha Er) Hw Hrl). apply Hq.
Qed.

Corollary conn_end_all_return : forall s sched, sinv s -> Quiescent (run sched s) ->
  rd (run sched s) = RFinished /\ cclosed (run sched s) = true /\
  Forall (fun c => active c = false) (calls (run sched s)).
Proof. intros s sched Hi Hq. apply quiescent_all_returned; [apply run_sinv; exact Hi|exact Hq]. Qed.

(* ---------- calls parked in a select: each returns its "connection closed" error ---------- *)

Definition parked (c : cst) : Prop :=
  res c = Running /\ cx c = CtxLive /\ ackready c = false /\
  exists kc kx tl, rest c = ISelect kc kx :: tl /\ lockfree tl.

Definition closed_err (c : cst) : errv :=
  match rest c with ISelect kc _ :: _ => wrap kc (Leaf SClosedTransport) | _ => Leaf SClosedTransport end.

Definition woken (c0 c : cst) : Prop := c = c0 \/ c = finish c0 (closed_err c0).

(* the only acknowledgements on their way are stray ones: for identifiers none of the parked calls waits for
   (late, duplicated or unsolicited packets) — any number of them *)
Definition stray_only (cs : list cst) (l : list inpkt) : Prop := forall i, In (PAck i) l -> length cs <= i.

Lemma parked_wf : forall c, parked c -> wf_call c.
Proof.
  intros c (_ & _ & _ & kc & kx & rs & Er & Hl). unfold wf_call. rewrite Er. cbn [tl]. split; [exact Hl|].
  intros _. constructor; [reflexivity|exact Hl].
Qed.

Lemma parked_active : forall c, parked c -> active c = true.
Proof. intros c (Hr & _ & _ & kc & kx & tl & Er & _). unfold active. rewrite Hr, Er. reflexivity. Qed.

Lemma Forall2_length' {A B} (P : A -> B -> Prop) : forall l1 l2, Forall2 P l1 l2 -> length l1 = length l2.
Proof. intros l1 l2 H; induction H; cbn; congruence. Qed.

Lemma step_woken : forall cs l s s', Forall parked cs ->
  Forall2 woken cs (calls s) -> stray_only cs (inbox s) -> step l s = Some s' ->
  Forall2 woken cs (calls s') /\ stray_only cs (inbox s').
Proof.
  intros cs [|i a] s s' Hp Hw Hn H.
  - cbn [step] in H. unfold rstep in H.
    destruct (rd s) eqn:Erd; try discriminate.
    + destruct (inbox s) as [|[j| |] q] eqn:Ein.
      * destruct (tclosed s || eof s); [|discriminate]. injection H as <-. cbn. rewrite Ein. split; [exact Hw|exact Hn].
      * (* a stray acknowledgement: nobody waits for it, the reader drops it and goes on *)
        injection H as <-. unfold deliver. cbn [calls set_inbox].
        assert (En : nth_error (calls s) j = None).
        { apply nth_error_None. rewrite <- (Forall2_length' _ _ _ Hw). apply Hn. left. reflexivity. }
        rewrite En. cbn. split; [exact Hw|]. intros k Hk. apply Hn. right. exact Hk.
      * injection H as <-. cbn. split; [exact Hw|]. intros k Hk. apply (Hn k). right. exact Hk.
      * injection H as <-. cbn. split; [exact Hw|]. intros k Hk. apply (Hn k). right. exact Hk.
    + injection H as <-. cbn. split; assumption.
    + injection H as <-. destruct (disc s); cbn; split; assumption.
    + injection H as <-. cbn. split; assumption.
    + injection H as <-. cbn. split; assumption.
  - apply step_call_inv in H as (c & c' & e & En & Ec & ->).
    destruct (Forall2_nth woken cs (calls s) i c Hw En) as (c0 & En0 & Hwc).
    pose proof (proj1 (Forall_forall _ _) Hp c0 (nth_error_In _ _ En0)) as Hpk.
    destruct Hwc as [-> | ->].
    + (* still parked: only the connClosed arm can fire *)
      destruct Hpk as (Hr & Hx & Hack & kc & kx & tl & Er & Hl).
      assert (Hact : active c0 = true) by (unfold active; rewrite Hr, Er; reflexivity).
      unfold cstep in Ec. rewrite Hact, Er in Ec. cbn [negb] in Ec.
      destruct a.
      * destruct (cclosed s); [|discriminate]. injection Ec as <- <-. cbn [apply_effect]. cbn [calls inbox set_calls].
        split; [|exact Hn]. eapply Forall2_upd; [exact Hw|exact En0|].
        right. unfold closed_err. rewrite Er. reflexivity.
      * rewrite Hx in Ec. discriminate.
      * rewrite Hack in Ec. discriminate.
    + (* already returned: no step *)
      unfold cstep in Ec. rewrite active_finish in Ec. discriminate.
Qed.

Lemma run_woken : forall cs sched s, Forall parked cs ->
  Forall2 woken cs (calls s) -> stray_only cs (inbox s) ->
  Forall2 woken cs (calls (run sched s)) /\ stray_only cs (inbox (run sched s)).
Proof.
  intros cs sched. induction sched as [|l r IH]; intros s Hp Hw Hn; [split; assumption|].
  rewrite run_cons. unfold exec. destruct (step l s) as [s'|] eqn:E.
  - destruct (step_woken cs l s s' Hp Hw Hn E) as [Hw' Hn']. apply IH; assumption.
  - apply IH; assumption.
Qed.

Lemma Forall2_refl_woken : forall cs, Forall2 woken cs cs.
Proof. induction cs; constructor; [left; reflexivity|assumption]. Qed.

(* C11, several calls blocked at once: for ANY list of calls parked in a select of ANY program (no bound on
   their number), ANY number of stray acknowledgements still queued, one connection end and any schedule that
   runs until nothing moves: every one of them has returned the error of its connClosed arm, Done() is closed,
   the reader goroutine is gone *)
Theorem all_wake : forall (cs : list cst) (s : sys) (sched : list label),
  Forall parked cs -> calls s = cs -> stray_only cs (inbox s) ->
  rd s <> RNotStarted -> reader_inv s -> ended s ->
  Quiescent (run sched s) ->
  Forall2 (fun c0 c => c = finish c0 (closed_err c0)) cs (calls (run sched s)) /\
  cclosed (run sched s) = true /\ rd (run sched s) = RFinished.
Proof.
  intros cs s sched Hp Hcs Hn Hst Hcc Hen Hq.
  assert (Hi : sinv s).
  { constructor; try assumption. rewrite Hcs. apply Forall_forall. intros c Hin.
    apply parked_wf. exact (proj1 (Forall_forall _ _) Hp c Hin). }
  destruct (conn_end_all_return s sched Hi Hq) as (Hr & Hc & Hall).
  destruct (run_woken cs sched s Hp) as [Hw _]; [rewrite Hcs; apply Forall2_refl_woken|exact Hn|].
  split; [|split; assumption].
  revert Hw Hall Hp. generalize (calls (run sched s)). clear. intros l Hw. induction Hw as [|c0 c cs l Hwc Hw IH]; intros Hall Hp.
  - constructor.
  - inversion Hall; subst. inversion Hp; subst. constructor; [|apply IH; assumption].
    destruct Hwc as [-> | ->]; [|reflexivity]. rewrite parked_active in *; [discriminate|assumption].
Qed.

(* the error a woken call returns says that the connection is gone, whatever the wrapping *)
Lemma closed_err_is_closed : forall c0,
  exists e, res (finish c0 (closed_err c0)) = RetErr e /\ chain_contains unwraps_fixed SClosedTransport e = true.
Proof.
  intros c0. destruct (finish_as_fold c0 (closed_err c0)) as [ws E]. eexists. split; [exact E|].
  rewrite chain_through_wrappers. unfold closed_err.
  destruct (rest c0) as [|[| | | |kc kx| | | |] t]; try reflexivity.
  destruct (wrap_as_fold kc (Leaf SClosedTransport)) as [ws' ->]. rewrite chain_through_wrappers. reflexivity.
Qed.


(* ===================================================================================== *)
(** * E2. The reader is never held up by anybody: stray acknowledgements included *)

(* packets the reader has to consume before it meets a malformed one *)
Fixpoint prefix_len (l : list inpkt) : nat :=
  match l with
  | [] => 0
  | PBad :: _ => 0
  | _ :: q => S (prefix_len q)
  end.

(* own steps the reader goroutine still needs: what is queued, the failing read, the four exit steps *)
Definition rleft (s : sys) : nat :=
  match rd s with
  | RServing => S (prefix_len (inbox s)) + 4
  | r => exit_left r
  end.

(* serve.go: whatever the next packet is — an acknowledgement somebody waits for, one whose waiter's buffer is
   already full, one for a call that has returned, one for an identifier nobody knows, any number of them in a
   row — the reader consumes it; a hand-off never blocks *)
Lemma reader_never_blocks_on_handoff : forall s p q, rd s = RServing -> inbox s = p :: q -> rstep s <> None.
Proof. intros s p q Hr Hi. unfold rstep. rewrite Hr, Hi. destruct p; discriminate. Qed.

Lemma reader_enabled_when_ended : forall s, ended s -> rd s = RServing -> rstep s <> None.
Proof.
  intros s He Hr. destruct (inbox s) as [|p q] eqn:Ei; [|eapply reader_never_blocks_on_handoff; eassumption].
  unfold rstep. rewrite Hr, Ei. destruct He as [Ht|[Ho|[Hb|Hp]]].
  - rewrite Ht. discriminate.
  - rewrite Ho, orb_true_r. discriminate.
  - rewrite Ei in Hb. contradiction.
  - rewrite Hr in Hp. discriminate.
Qed.

Lemma prefix_len_app_bad : forall l t, In PBad l -> prefix_len (l ++ t) = prefix_len l.
Proof.
  induction l as [|p q IH]; intros t H; [contradiction|]. destruct p; cbn; try reflexivity;
    (f_equal; apply IH; destruct H as [H|H]; [discriminate|exact H]).
Qed.

Lemma cstep_sendack_open : forall tcl ccl wl rl a c c', cstep tcl ccl wl rl a c = Some (c', ESendAck) -> tcl = false.
Proof.
  intros tcl ccl wl rl a c c' H. unfold cstep in H.
  destruct (negb (active c)); [discriminate|]. destruct (rest c) as [|ins rs]; [discriminate|].
  destruct ins, a; try discriminate;
    repeat match type of H with
           | context [if ?b then _ else _] => destruct b eqn:?
           | context [match answers ?c with _ => _ end] => destruct (answers c)
           | context [match cx ?c with _ => _ end] => destruct (cx c)
           end; try discriminate; reflexivity.
Qed.

Lemma deliver_fields : forall j s, rd (deliver j s) = rd s /\ inbox (deliver j s) = inbox s /\
  tclosed (deliver j s) = tclosed s /\ eof (deliver j s) = eof s /\ cclosed (deliver j s) = cclosed s.
Proof. intros j s. unfold deliver. destruct (nth_error (calls s) j); cbn; auto. Qed.

Definition rinv (s : sys) : Prop := ended s /\ rd s <> RNotStarted /\ (rd s <> RServing -> exit_inv s).

Lemma exiting_rleft : forall s, exiting (rd s) = true -> rleft s = exit_left (rd s).
Proof. intros s H. unfold rleft. destruct (rd s); try reflexivity. discriminate. Qed.

Lemma exit_inv_rinv : forall s, exit_inv s -> rinv s.
Proof.
  intros s Hi. pose proof Hi as (He & _). split; [|split].
  - right; right; right. destruct (rd s); try discriminate; reflexivity.
  - intros E. rewrite E in He. discriminate.
  - intros _. exact Hi.
Qed.

Lemma exec_rinv : forall s l, rinv s ->
  rinv (exec s l) /\
  rleft (exec s l) + (match l with LReader => (if Nat.eqb (rleft s) 0 then 0 else 1) | _ => 0 end) <= rleft s.
Proof.
  intros s l (Hen & Hst & Hex).
  destruct (exiting (rd s)) eqn:Eex.
  - (* in the exit sequence *)
    assert (Hi : exit_inv s) by (apply Hex; intros E; rewrite E in Eex; discriminate).
    destruct (exec_exit_inv s l Hi) as [Hi' Hl]. split; [apply exit_inv_rinv; exact Hi'|].
    rewrite (exiting_rleft s Eex), (exiting_rleft (exec s l) (proj1 Hi')), Hl.
    destruct l; [|lia]. destruct (exit_left (rd s)); cbn; lia.
  - (* in serve *)
    assert (Hr : rd s = RServing) by (destruct (rd s); try discriminate; [contradiction|reflexivity]).
    unfold exec. destruct l as [|i a].
    + cbn [step]. pose proof (reader_enabled_when_ended s Hen Hr) as Hne.
      unfold rstep in *. rewrite Hr in *.
      assert (Hrl : rleft s = S (prefix_len (inbox s)) + 4) by (unfold rleft; rewrite Hr; reflexivity).
      destruct (inbox s) as [|[j| |] q] eqn:Ei.
      * destruct (tclosed s || eof s); [|contradiction]. split.
        -- apply exit_inv_rinv. unfold exit_inv. cbn. repeat split; try discriminate. intros E; contradiction E; reflexivity.
        -- rewrite Hrl. cbn. lia.
      * destruct (deliver_fields j (set_inbox s q)) as (Hd1 & Hd2 & Hd3 & Hd4 & _). split.
        -- split; [|split].
           ++ unfold ended. rewrite Hd1, Hd2, Hd3, Hd4. cbn.
              destruct Hen as [Ht|[Ho|[Hb|Hp]]]; [left; exact Ht|right; left; exact Ho| |rewrite Hr in Hp; discriminate].
              rewrite Ei in Hb. destruct Hb as [Hb|Hb]; [discriminate|]. right; right; left. exact Hb.
           ++ rewrite Hd1. cbn. rewrite Hr. discriminate.
           ++ intros Hn. exfalso. apply Hn. rewrite Hd1. cbn. exact Hr.
        -- rewrite Hrl. unfold rleft. rewrite Hd1, Hd2. cbn. rewrite Hr. cbn. lia.
      * split.
        -- split; [|split].
           ++ unfold ended. cbn.
              destruct Hen as [Ht|[Ho|[Hb|Hp]]]; [left; exact Ht|right; left; exact Ho| |rewrite Hr in Hp; discriminate].
              rewrite Ei in Hb. destruct Hb as [Hb|Hb]; [discriminate|]. right; right; left. exact Hb.
           ++ cbn. rewrite Hr. discriminate.
           ++ intros Hn. exfalso. apply Hn. cbn. exact Hr.
        -- rewrite Hrl. unfold rleft. cbn. rewrite Hr. cbn. lia.
      * split.
        -- apply exit_inv_rinv. unfold exit_inv. cbn. repeat split; try discriminate. intros E; contradiction E; reflexivity.
        -- rewrite Hrl. cbn. lia.
    + destruct (step (LCall i a) s) as [s'|] eqn:Es; [|split; [exact (conj Hen (conj Hst Hex))|lia]].
      apply step_call_inv in Es as (c & c' & e & En & Ec & ->).
      set (s1 := set_calls s (upd i c' (calls s))).
      assert (Hns : rd s1 <> RNotStarted) by exact Hst.
      destruct (apply_effect_inbox i e s1) as (t & Hin & Ht).
      assert (Hrd : rd (apply_effect i e s1) = RServing) by (rewrite apply_effect_rd by exact Hns; exact Hr).
      split.
      * split; [|split].
        -- destruct Hen as [Hc|[Ho|[Hb|Hp]]].
           ++ left. apply apply_effect_tclosed. exact Hc.
           ++ right; left. rewrite apply_effect_eof. exact Ho.
           ++ right; right; left. rewrite Hin. apply in_or_app. left. exact Hb.
           ++ rewrite Hr in Hp. discriminate.
        -- rewrite Hrd. discriminate.
        -- intros Hn. exfalso. apply Hn. exact Hrd.
      * unfold rleft. rewrite Hrd, Hr, Hin. cbn [inbox s1 set_calls].
        destruct Ht as [-> | (-> & -> & Heo)]; [rewrite app_nil_r; lia|].
        (* the peer answered: so it had not closed and the transport was open — then the connection was
           ended by a malformed packet already queued, and the answer lands behind it *)
        pose proof (cstep_sendack_open _ _ _ _ _ _ _ Ec) as Htc.
        destruct Hen as [Hc|[Ho|[Hb|Hp]]]; [congruence|cbn in Heo; congruence| |rewrite Hr in Hp; discriminate].
        rewrite (prefix_len_app_bad _ _ Hb). lia.
Qed.

(* C11: once the connection has ended — whatever is still queued for the reader, stray acknowledgements in any
   number included, and whatever the other goroutines do in between — [rleft s] own steps of the reader
   goroutine are enough: serve returns, the transport is closed, Done() is closed, the goroutine is gone *)
Theorem reader_wait_free : forall sched s, ended s -> rd s <> RNotStarted -> (rd s <> RServing -> exit_inv s) ->
  rleft s <= count_reader sched ->
  rd (run sched s) = RFinished /\ cclosed (run sched s) = true /\ tclosed (run sched s) = true.
Proof.
  intros sched s H1 H2 H3. assert (Hi : rinv s) by exact (conj H1 (conj H2 H3)). clear H1 H2 H3.
  revert s Hi. induction sched as [|l r IH]; intros s Hi Hc.
  - cbn in *. destruct Hi as (_ & Hst & Hex). unfold rleft in Hc.
    destruct (rd s) eqn:E; cbn in Hc; try lia; [contradiction|].
    destruct Hex as (_ & Ht & Hcc); [discriminate|].
    split; [reflexivity|]. split; [apply Hcc; exact E|apply Ht; rewrite E; discriminate].
  - rewrite run_cons. destruct (exec_rinv s l Hi) as [Hi' Hl]. apply IH; [exact Hi'|].
    destruct l; cbn [count_reader] in Hc; [|lia].
    destruct (Nat.eqb (rleft s) 0) eqn:E0; [apply Nat.eqb_eq in E0|]; lia.
Qed.

(* ===================================================================================== *)
(** * F. The matrix call × program point × cause *)

Lemma matrix_ok_b : forallb cell_ok matrix = true.
Proof. vm_compute. reflexivity. Qed.

(* every cell of the matrix: under all schedules the call returns, with the right error, and for a
   connection end Done() is closed and the reader goroutine is gone *)
Theorem matrix_returns : forall c p z, In (c, p, z) matrix -> cell_ok (c, p, z) = true.
Proof. intros c p z H. exact (proj1 (forallb_forall _ _) matrix_ok_b _ H). Qed.

Lemma all_cells_complete : forall c p z, In (c, p, z) all_cells.
Proof.
  intros c p z. unfold all_cells. apply in_flat_map. exists c. split; [destruct c; cbn; tauto|].
  apply in_flat_map. exists p. split; [destruct p; cbn; tauto|].
  apply in_map. destruct z; cbn; tauto.
Qed.

(* the matrix is every valid cell except those of finding F14 *)
Lemma matrix_complete : forall c p z, valid c p z = true -> is_f14 p z = false -> In (c, p, z) matrix.
Proof.
  intros c p z Hv Hf. unfold matrix. apply filter_In. split; [apply all_cells_complete|].
  rewrite Hv, Hf. reflexivity.
Qed.

Lemma cells_fuel_b : forallb (fun k => Nat.ltb (msr (cell_start k)) FUEL) all_cells = true.
Proof. vm_compute. reflexivity. Qed.

(* the same in terms of explicit schedules: any schedule at all, run until nothing moves *)
Theorem matrix_returns_all_schedules : forall c p z sched,
  In (c, p, z) matrix -> Quiescent (run sched (cell_start (c, p, z))) ->
  ok_outcome c z (observe z (run sched (cell_start (c, p, z)))) = true.
Proof.
  intros c p z sched Hin Hq.
  pose proof (matrix_returns c p z Hin) as Hok. unfold cell_ok in Hok.
  pose proof (proj1 (forallb_forall _ _) cells_fuel_b (c, p, z) (all_cells_complete c p z)) as Hf.
  apply Nat.ltb_lt in Hf.
  pose proof (explore_complete sched _ FUEL Hf Hq) as He.
  pose proof (proj1 (forallb_forall _ _) Hok (Some (observe z (run sched (cell_start (c, p, z)))))) as H.
  apply H. unfold raw_outcomes.
  change (Some (observe z (run sched (cell_start (c, p, z))))) with (option_map (observe z) (Some (run sched (cell_start (c, p, z))))).
  apply in_map. exact He.
Qed.

(* ---------- the matrix again, with stray acknowledgements consumed (or still queued) before the cause ---------- *)

Lemma stray_matrix_ok_b : forallb (fun k => forallb (stray_cell_ok k) matrix) [1; 2; 3; 4] = true.
Proof. vm_compute. reflexivity. Qed.

(* every cell of the matrix, and the same causes with no call blocked at all, after 2k stray
   acknowledgements (k duplicates of an answered request, k for unknown identifiers), k <= 4, all schedules *)
Theorem matrix_returns_after_stray_acks : forall k c p z, In k [1; 2; 3; 4] -> In (c, p, z) matrix ->
  stray_cell_ok k (c, p, z) = true.
Proof.
  intros k c p z Hk Hin.
  exact (proj1 (forallb_forall _ _) (proj1 (forallb_forall _ _) stray_matrix_ok_b k Hk) _ Hin).
Qed.

(* ---------- calls parked inside Transport.Write; Disconnect followed by Close ---------- *)

Lemma inwrite_cancel_then_close_b : forallb inwrite_cancel_then_close_ok all_calls = true.
Proof. vm_compute. reflexivity. Qed.

(* a call parked inside Transport.Write (peer stopped reading) is not released by its context — the transport
   does not know it — but a local Close() always is the way out: under every schedule it then returns the write
   error, Done() is closed and the reader is gone. Close closes the transport whatever the connection state
   (also after Disconnect has set StateDisconnected: the call may be Disconnect itself). *)
Theorem close_ends_stalled_write : forall c, inwrite_cancel_then_close_ok c = true.
Proof.
  intros c. apply (proj1 (forallb_forall _ _) inwrite_cancel_then_close_b). destruct c; cbn; tauto.
Qed.

Definition dseq_all_ok (n : nat) : bool :=
  forallb (fun r => match r with Some o => dseq_ok n o | None => false end) (dseq_outcomes n).

(* Disconnect whose write failed returns the write error and leaves the connection up (Done() open, reader
   serving); the Close() that follows ends it. Close() after a successful Disconnect changes nothing. *)
Theorem close_after_disconnect :
  dseq_all_ok 0 = true /\ dseq_all_ok 1 = true /\
  observe LocalClose (dseq_mid 0) = mkO KWrite false false false /\
  observe LocalClose (dseq_mid 1) = mkO KNil false true true.
Proof. repeat split; vm_compute; reflexivity. Qed.

(* ---------- finding F14 ---------- *)

Definition ctx_live (x : ctxst) : bool := match x with CtxLive => true | _ => false end.

Definition f14_blocked (k : cell) : bool :=
  let '(c, p, z) := k in
  let s := cell_start k in
  quiescentb s && negb (ctx_live (cx (call0 s))) &&
  rclass_eqb (classify unwraps_fixed (cause_sentinel z) (call0 s)) KBlocked.

Lemma f14_blocked_b : forallb f14_blocked f14_cells = true.
Proof. vm_compute. reflexivity. Qed.

Lemma quiescent_run_id : forall sched s, Quiescent s -> run sched s = s.
Proof.
  induction sched as [|l r IH]; intros s H; [reflexivity|]. rewrite run_cons. unfold exec. rewrite (H l). apply IH. exact H.
Qed.

Lemma quiescentb_true : forall s, quiescentb s = true -> Quiescent s.
Proof.
  intros s H. apply successors_nil_quiescent. unfold quiescentb in H. destruct (successors s); [reflexivity|discriminate].
Qed.

Lemma rclass_eqb_eq : forall a b, rclass_eqb a b = true -> a = b.
Proof. intros [] []; cbn; intros H; try discriminate; reflexivity. Qed.

(* F14: a call that waits for muConnecting while a Connect waiting for CONNACK holds it does NOT return
   on its own cancellation or deadline: whatever the schedule, it stays blocked with its context done *)
Theorem connect_lock_blocks : forall c p z sched, In (c, p, z) f14_cells ->
  let s := run sched (cell_start (c, p, z)) in
  cx (call0 s) <> CtxLive /\ classify unwraps_fixed (cause_sentinel z) (call0 s) = KBlocked.
Proof.
  intros c p z sched Hin s.
  pose proof (proj1 (forallb_forall _ _) f14_blocked_b _ Hin) as H. unfold f14_blocked in H.
  apply andb_true_iff in H as [H Hk]. apply andb_true_iff in H as [Hq Hx].
  subst s. rewrite (quiescent_run_id sched _ (quiescentb_true _ Hq)).
  split; [|apply rclass_eqb_eq; exact Hk].
  intros E. rewrite E in Hx. discriminate.
Qed.

(* so the property as stated fails in a valid cell of the full matrix *)
Theorem connect_lock_refuted : exists c p z, valid c p z = true /\ cell_ok (c, p, z) = false.
Proof. exists CPub1, PEntry, CtxCancel. split; vm_compute; reflexivity. Qed.

Lemma f14_cells_are : forall c p z, In (c, p, z) f14_cells <-> (valid c p z = true /\ is_f14 p z = true).
Proof.
  intros c p z. unfold f14_cells. rewrite filter_In. split.
  - intros [_ H]. apply andb_true_iff in H. exact H.
  - intros [Hv Hf]. split; [apply all_cells_complete|]. rewrite Hv, Hf. reflexivity.
Qed.

(* ... and the blocked call does come back, with its context's error, as soon as the Connect ends *)
Lemma f14_release_b :
  forallb (fun k => let '(c, p, z) := k in
                    forallb (fun r => match r with Some o => ok_outcome c z o | None => false end) (f14_release k))
          f14_cells = true.
Proof. vm_compute. reflexivity. Qed.

(* ---------- the programs of Calls.v satisfy the hypotheses of section E ---------- *)

Lemma fresh_wf : forall c ans, wf_call (fresh c ans).
Proof.
  intros c ans. unfold wf_call, fresh, lockfree. cbn [rest held]. split.
  - destruct c; cbn; repeat constructor.
  - intros H. contradiction H. reflexivity.
Qed.

(* ---------- the reconnecting client ---------- *)

(* reconnectClient.Connect ended by its context: whatever dial / handshake errors the loop has recorded before
   (they are quoted in the message), the returned error's chain contains the context's error *)
Theorem reconnect_connect_ctx_error : forall rc x, x <> CtxLive ->
  chain_contains unwraps_fixed (ctx_sentinel x) (rconnect_err rc x) = true.
Proof. intros rc [| |] H; try contradiction; reflexivity. Qed.

Lemma rmatrix_ok_b : forallb (fun k => rok (fst k) (snd k) (rcell_run true (fst k) (snd k))) rmatrix = true.
Proof. vm_compute. reflexivity. Qed.

Theorem reconnect_returns : forall p z, In (p, z) rmatrix -> rok p z (rcell_run true p z) = true.
Proof. intros p z H. exact (proj1 (forallb_forall _ _) rmatrix_ok_b _ H). Qed.

Lemma rmatrix_complete : forall p z, rvalid p z = true -> In (p, z) rmatrix.
Proof.
  intros p z H. unfold rmatrix. apply filter_In. split; [|exact H].
  apply in_flat_map. exists p. split; [destruct p; cbn; tauto|]. apply in_map. destruct z; cbn; tauto.
Qed.

(* the hand-off of the first result never blocks the loop: from the program point "CONNACK accepted" the loop
   reaches its supervising select in one step in EVERY environment — whatever the caller of Connect does
   (still waiting, or gone through its context) *)
Theorem handoff_never_blocks : forall e, exists e', lstep LHandoff e = Some (LUp, e').
Proof. intros e. eexists. reflexivity. Qed.

Theorem connack_accepted_reaches_supervision : forall e, r_ack e = true -> fst (lrun 2 LConnect e) = LUp.
Proof. intros e H. cbn. rewrite H. reflexivity. Qed.

Lemma cxmatrix_ok_b : forallb (fun k => cx_ok (fst k) (cx_run (fst k) (snd k))) cxmatrix = true.
Proof. vm_compute. reflexivity. Qed.

(* the context of the reconnecting Connect ending at each point of the first connection's establishment, followed
   by Disconnect / a peer close / nothing: Connect returns its context's error (nil if it had returned before),
   Disconnect returns nil, a peer close of an established connection is followed by a redial, and no loop
   goroutine is left unless it supervises an established connection *)
Theorem connect_ctx_at_each_point : forall p f, In (p, f) cxmatrix -> cx_ok p (cx_run p f) = true.
Proof. intros p f H. exact (proj1 (forallb_forall _ _) cxmatrix_ok_b _ H). Qed.

Lemma cxmatrix_complete : forall p f, cx_valid p f = true -> In (p, f) cxmatrix.
Proof.
  intros p f H. unfold cxmatrix. apply filter_In. split; [|exact H].
  apply in_flat_map. exists p. split; [destruct p; cbn; tauto|]. apply in_map. destruct f; cbn; tauto.
Qed.

(* all environments of the loop goroutine *)
Definition bools := [true; false].
Definition all_renv : list renv :=
  flat_map (fun a => flat_map (fun b => flat_map (fun c => flat_map (fun d => flat_map (fun e =>
  flat_map (fun f => flat_map (fun g => flat_map (fun h => map (fun i => mkR a b c d e f g h i) bools) bools) bools) bools)
  bools) [DFail; DOk; DHang]) bools) bools) bools.
Definition all_lst := [LIdle; LDial; LConnect; LHandoff; LUp; LCloseWait; LBackoff; LExit].

(* the loop has been told to stop — Disconnect closed c.disconnected (which also aborts a handshake in
   progress, fix 515978c), or the context of the first Connect is done and the broker does not complete a
   connection at that very moment (if it does, the select in BaseClient.Connect may take the CONNACK arm and the
   loop goes on, on context.Background()) — and it is not inside a Dial that nothing bounds *)
Definition stoppable (st : lst) (e : renv) : bool :=
  (r_disc e || (loop_ctx_done e && negb (r_ack e))) &&
  match st with
  | LIdle => false
  | LDial => match r_dial e with DHang => loop_ctx_done e | _ => true end
  | LHandoff => r_disc e   (* past the hand-off the loop runs on context.Background(): only Disconnect stops it *)
  | _ => true
  end.

Lemma loop_exits_b :
  forallb (fun st => forallb (fun e => implb (stoppable st e)
     (match fst (lrun 8 st e) with LExit => true | _ => false end)) all_renv) all_lst = true.
Proof. vm_compute. reflexivity. Qed.

Lemma all_renv_complete : forall e, In e all_renv.
Proof.
  intros [a b c d e f g h i]. unfold all_renv.
  repeat (apply in_flat_map; eexists; split; [match goal with |- In ?x bools => destruct x; cbn; tauto | |- In ?x _ => destruct x; cbn; tauto end|]).
  apply in_map. destruct i; cbn; tauto.
Qed.

(* the loop goroutine of the reconnecting client ends within 8 of its own steps once it was told to stop *)
Theorem loop_exits : forall st e, stoppable st e = true -> fst (lrun 8 st e) = LExit.
Proof.
  intros st e H.
  assert (Hst : In st all_lst) by (destruct st; cbn; tauto).
  pose proof (proj1 (forallb_forall _ _) (proj1 (forallb_forall _ _) loop_exits_b st Hst) e (all_renv_complete e)) as Hb.
  cbn beta in Hb. rewrite H in Hb. cbn [implb] in Hb. destruct (fst (lrun 8 st e)); try discriminate. reflexivity.
Qed.

(* ===================================================================================== *)
(** * G. Non-vacuity: concrete instances of the hypotheses used above *)

(* three calls parked on one connection (QoS1 waiting PUBACK, QoS2 waiting PUBCOMP, Ping), peer closes *)
Definition ex_cps := [(CPub1, PWait1); (CPub2, PWait2); (CPing, PWait1)].
Definition ex_sys : sys :=
  let s := apply_cause PWait1 PeerClose (multi_start ex_cps) in
  set_inbox s [PAck 7; PAck 7; PData; PAck 9].   (* stray acknowledgements still queued when the peer closes *)
Definition ex_sched : list label := concat (repeat (all_labels 3) 12).

Definition parkedb (c : cst) : bool :=
  match res c, cx c, ackready c, rest c with
  | Running, CtxLive, false, ISelect _ _ :: rs => forallb (fun i => negb (is_lock i)) rs
  | _, _, _, _ => false
  end.

Lemma parkedb_parked : forall c, parkedb c = true -> parked c.
Proof.
  intros c H. unfold parkedb in H.
  destruct (res c) eqn:Er; try discriminate. destruct (cx c) eqn:Ex; try discriminate.
  destruct (ackready c) eqn:Ea; try discriminate. destruct (rest c) as [|[| | | |kc kx| | | |] rs] eqn:Ers; try discriminate.
  repeat split; auto. exists kc, kx, rs. split; [exact Ers|].
  apply Forall_forall. intros i Hi. pose proof (proj1 (forallb_forall _ _) H i Hi) as Hb. cbn beta in Hb. destruct (is_lock i); [discriminate|reflexivity].
Qed.

Example all_wake_hypotheses :
  Forall parked (calls ex_sys) /\ stray_only (calls ex_sys) (inbox ex_sys) /\ rd ex_sys <> RNotStarted /\
  reader_inv ex_sys /\ ended ex_sys /\ Quiescent (run ex_sched ex_sys).
Proof.
  split; [|split; [|split; [|split; [|split]]]].
  - apply Forall_forall. intros c Hc. apply parkedb_parked.
    assert (Hb : forallb parkedb (calls ex_sys) = true) by (vm_compute; reflexivity).
    exact (proj1 (forallb_forall _ _) Hb c Hc).
  - intros i Hi. vm_compute in Hi. vm_compute.
    destruct Hi as [E|[E|[E|[E|[]]]]]; try discriminate; injection E as <-; lia.
  - vm_compute. discriminate.
  - split; vm_compute; discriminate.
  - right; left. vm_compute. reflexivity.
  - apply quiescentb_true. vm_compute. reflexivity.
Qed.

Example all_wake_instance :
  map (fun c => classify unwraps_fixed None c) (calls (run ex_sched ex_sys)) = [KClosed; KClosed; KClosed] /\
  inbox (run ex_sched ex_sys) = [].
Proof. vm_compute. split; reflexivity. Qed.

(* a call waiting for the lock, one about to write, one parked, a cancelled one: the general theorem applies *)
Definition ex_mixed : sys :=
  mkS true false [PData] RServing false false false
      [fresh CPub1 0; set_held (set_rest (fresh CSub 0) [IWrite WkRetry; ISelect WkRetry WkRetry]) HR;
       set_cx (set_held (set_rest (fresh CPub2 0) [ISelect WkRetry WkRetry]) HR) CtxCanceled].

Example conn_end_hypotheses : sinv ex_mixed.
Proof.
  constructor.
  - repeat constructor; cbn; try discriminate; try (exfalso; match goal with H : _ <> _ |- _ => apply H; reflexivity end).
  - discriminate.
  - left. reflexivity.
  - split; cbn; discriminate.
Qed.

Example exit_inv_instance : exit_inv (mkS false true [] RExit0 false false false [fresh CPub1 0]).
Proof. repeat split; cbn; try discriminate. intros H. contradiction H. reflexivity. Qed.

(* the error RetryClient.Ping (ResponseTimeout set) returns for a cancelled caller context *)
Definition ex_retry_ping_err : errv := Wrap WError (Wrap WError (Wrap WReqTimeout (Leaf SCanceled))).

Example retry_ping_cancel_fixed : chain_contains unwraps_fixed SCanceled ex_retry_ping_err = true.
Proof. reflexivity. Qed.

(* before fix ec227d2 the same value did not satisfy errors.Is(err, context.Canceled) *)
Example retry_ping_cancel_before_fix : chain_contains unwraps_pre_ec227d2 SCanceled ex_retry_ping_err = false.
Proof. reflexivity. Qed.

Example retry_ping_cell_error :
  exists c, nth_error (calls (greedy FUEL (cell_start (CRetryPing, PWait1, CtxCancel)))) 0 = Some c /\
            res c = RetErr ex_retry_ping_err.
Proof. eexists. split; vm_compute; reflexivity. Qed.

(* before fix cbf3ad0 (no nil guard) Disconnect after a failed Connect panicked *)
Example reconnect_disconnect_before_fix : ro_res (rcell_run false RD_AfterFailed RZNone) = RRPanic.
Proof. reflexivity. Qed.

Example loop_exits_instance : stoppable LBackoff (mkR false true true DFail false false true true true) = true.
Proof. reflexivity. Qed.
