(* WriteLock.v — C10 (a): small-step interleaving semantics of BaseClient.write (client.go:99-111)

     func (c *BaseClient) write(b []byte) error {
         l := len(b)
         c.muWrite.Lock()
         defer c.muWrite.Unlock()
         for i := 0; i < l; {
             n, err := c.Transport.Write(b[i : l-i])
             if err != nil { return err }
             i += n
         }
         return nil
     }

   Any number of threads (API callers, the keep-alive goroutine, the reader goroutine writing
   PUBACK/PUBREC/PUBCOMP — serve.go:84,89,132 — are all just threads that want to write one
   packet), any schedule. A call of Transport.Write is NOT atomic in the model: while a thread is
   inside it the transport puts the chunk on the wire byte by byte ([AEmit]), and other threads
   may run in between; whether the bytes of two packets can interleave is therefore decided by
   muWrite alone. The slice expression is modelled as written (b[i : l-i], which is b[i:] only
   for i = 0); it can panic. Model only, no proofs (WriteLock_proofs.v). *)
From MQ Require Import Base.

Inductive pc : Type :=
| Idle                    (* write(b) not called yet *)
| WaitLock                (* at c.muWrite.Lock()                      client.go:101 *)
| Looping (i : nat)       (* holds muWrite, at the loop head           client.go:103 *)
| InWrite (i k : nat)     (* inside Transport.Write(b[i:l-i]), k bytes of the chunk are on the wire  client.go:104 *)
| Unlocking (ok : bool)   (* returning, the deferred Unlock is pending client.go:102,106,110 *)
| Done                    (* returned nil *)
| Failed                  (* returned the transport's error *)
| Panicked.               (* slice bounds out of range; the deferred Unlock has run *)

Record thread := mkThread { t_pkt : list N; t_pc : pc }.

Record gstate := mkG {
  g_holder : option nat;        (* who holds muWrite *)
  g_out    : list N;            (* the bytes on the wire, in order *)
  g_calls  : list (list N);     (* ghost: argument of every Transport.Write call, in call order *)
  g_order  : list nat;          (* ghost: threads in the order in which they got past Lock() *)
  g_thr    : list thread }.

(* what happens next is chosen by the schedule: the thread's own next step, or — while it is
   inside Transport.Write — what the transport does *)
Inductive action := AStep | AEmit | ARetOk | ARetErr.
Definition label := (nat * action)%type.

(* Go's b[i:j] for 0 <= i <= j <= len b (the caller checks the bounds) *)
Definition slice (b : list N) (i j : nat) : list N := firstn (j - i) (skipn i b).
Definition chunk (b : list N) (i : nat) : list N := slice b i (length b - i).

Fixpoint set_nth {A} (n : nat) (x : A) (l : list A) : list A :=
  match l, n with
  | [], _ => []
  | _ :: r, O => x :: r
  | y :: r, S n' => y :: set_nth n' x r
  end.

Definition set_pc (g : gstate) (t : nat) (th : thread) (p : pc) : gstate :=
  mkG (g_holder g) (g_out g) (g_calls g) (g_order g) (set_nth t (mkThread (t_pkt th) p) (g_thr g)).
Definition with_holder (g : gstate) (h : option nat) : gstate :=
  mkG h (g_out g) (g_calls g) (g_order g) (g_thr g).

(* [conf]: the transport is a conforming whole-packet writer — Write returns (len p, nil) after
   putting all of p on the wire, or (0, err) having written nothing (io.Writer contract as the
   library assumes it, DESIGN section 2). [conf = false]: Write may return (k, nil) or (k, err) for
   any k (short writes).
   [lock]: muWrite is taken (the code). [lock = false] is the mutant without the mutex, kept to
   show that the theorem depends on it. *)
Definition step (conf lock : bool) (g : gstate) (lb : label) : option gstate :=
  let '(t, a) := lb in
  match nth_error (g_thr g) t with
  | None => None
  | Some th =>
    let b := t_pkt th in
    let l := length b in
    match t_pc th, a with
    | Idle, AStep => Some (set_pc g t th WaitLock)
    | WaitLock, AStep =>
        if lock then
          match g_holder g with
          | Some _ => None                                   (* blocked in Lock() *)
          | None => let g1 := set_pc g t th (Looping 0) in
                    Some (mkG (Some t) (g_out g1) (g_calls g1) (g_order g1 ++ [t]) (g_thr g1))
          end
        else let g1 := set_pc g t th (Looping 0) in
             Some (mkG (g_holder g1) (g_out g1) (g_calls g1) (g_order g1 ++ [t]) (g_thr g1))
    | Looping i, AStep =>
        if i <? l then
          if i <=? l - i then                                (* bounds of b[i : l-i] *)
            let g1 := set_pc g t th (InWrite i 0) in
            Some (mkG (g_holder g1) (g_out g1) (g_calls g1 ++ [chunk b i]) (g_order g1) (g_thr g1))
          else Some (with_holder (set_pc g t th Panicked) (if lock then None else g_holder g))
        else Some (set_pc g t th (Unlocking true))
    | InWrite i k, AEmit =>
        match nth_error (chunk b i) k with
        | Some x => let g1 := set_pc g t th (InWrite i (S k)) in
                    Some (mkG (g_holder g1) (g_out g1 ++ [x]) (g_calls g1) (g_order g1) (g_thr g1))
        | None => None
        end
    | InWrite i k, ARetOk =>
        if conf && negb (k =? length (chunk b i)) then None else Some (set_pc g t th (Looping (i + k)))
    | InWrite i k, ARetErr =>
        if conf && negb (k =? 0) then None else Some (set_pc g t th (Unlocking false))
    | Unlocking ok, AStep =>
        Some (with_holder (set_pc g t th (if ok then Done else Failed)) (if lock then None else g_holder g))
    | _, _ => None
    end
  end.

(* a schedule is any list of labels; a label that is not enabled is skipped *)
Definition step_or_skip (conf lock : bool) (g : gstate) (lb : label) : gstate :=
  match step conf lock g lb with Some g' => g' | None => g end.
Definition run (conf lock : bool) (g : gstate) (ls : list label) : gstate :=
  fold_left (step_or_skip conf lock) ls g.

Definition init (pkts : list (list N)) : gstate :=
  mkG None [] [] [] (map (fun p => mkThread p Idle) pkts).

Definition pkt_of (pkts : list (list N)) (t : nat) : list N := nth t pkts [].

(* ---------- observables used by the statements ---------- *)

(* threads whose whole packet is on the wire, in the order of their Lock() *)
Definition wrote_all (th : thread) : bool :=
  match t_pc th with
  | Done | Unlocking true => true
  | Looping i => Nat.eqb i (length (t_pkt th)) && negb (Nat.eqb i 0)
  | _ => false
  end.
Definition whole_writers (g : gstate) : list nat :=
  filter (fun t => match nth_error (g_thr g) t with Some th => wrote_all th | None => false end) (g_order g).

(* the bytes of the packet the lock holder is in the middle of *)
Definition partial (g : gstate) : list N :=
  match g_holder g with
  | None => []
  | Some h => match nth_error (g_thr g) h with
              | Some th => match t_pc th with InWrite _ k => firstn k (t_pkt th) | _ => [] end
              | None => []
              end
  end.

(* the serial schedule in which the threads of [order] write one after the other, used to run the
   model on an observed linearisation *)
Definition serial_one (t len : nat) : list label :=
  [(t, AStep); (t, AStep); (t, AStep)] ++ repeat (t, AEmit) len ++ [(t, ARetOk); (t, AStep); (t, AStep)].
Definition serial_schedule (pkts : list (list N)) (order : list nat) : list label :=
  flat_map (fun t => serial_one t (length (pkt_of pkts t))) order.
