(* ParseResub_proofs.v — the re-subscription is a function of the application's requests only: it
   asks for QoS values the application gave (0..2), whatever return codes the broker sent, so the
   SUBSCRIBE encoder never panics on the RetryClient's task goroutine. *)
From MQ Require Import Base Codec ParseResub.
Open Scope N_scope.

Definition qos_ok (s : subreq) : Prop := snd s <= 2.

Lemma est_remove_ok t est : Forall qos_ok est -> Forall qos_ok (est_remove t est).
Proof.
  intros H. unfold est_remove. rewrite Forall_forall in *. intros x Hx.
  apply filter_In in Hx. apply H, Hx.
Qed.

Lemma est_apply_ok : forall subs est, Forall qos_ok subs -> Forall qos_ok est -> Forall qos_ok (est_apply subs est).
Proof.
  induction subs as [|[t q] r IH]; intros est Hs He; cbn [est_apply]; [exact He|].
  inversion Hs as [|x l Hq Hr]; subst. apply IH; [exact Hr|].
  apply Forall_app. split; [apply est_remove_ok, He | constructor; [exact Hq | constructor]].
Qed.

(* whatever the SUBACKs contained *)
Theorem rc_history_ok : forall ops est,
  Forall (fun op => Forall qos_ok (fst op)) ops -> Forall qos_ok est -> Forall qos_ok (rc_history est ops).
Proof.
  induction ops as [|[subs codes] r IH]; intros est Ho He; cbn [rc_history]; [exact He|].
  inversion Ho as [|x l H1 H2]; subst. apply IH; [exact H2|]. apply est_apply_ok; [exact H1 | exact He].
Qed.

(* the answers do not matter at all *)
Theorem rc_history_ignores_codes : forall ops1 ops2 est,
  map fst ops1 = map fst ops2 -> rc_history est ops1 = rc_history est ops2.
Proof.
  induction ops1 as [|[s1 c1] r1 IH]; intros [|[s2 c2] r2] est H; try discriminate; [reflexivity|].
  cbn [map fst] in H. injection H as -> H. cbn [rc_history]. unfold rc_subscribe. apply IH, H.
Qed.

Theorem resubscribe_never_panics ops id req :
  Forall (fun op => Forall qos_ok (fst op)) ops ->
  In req (resubscribe (rc_history [] ops)) -> sub_pack id req <> Panic.
Proof.
  intros Ho Hin. unfold resubscribe in Hin. apply in_map_iff in Hin. destruct Hin as (s & <- & Hs).
  pose proof (rc_history_ok ops [] Ho (Forall_nil _)) as Hok.
  rewrite Forall_forall in Hok. specialize (Hok s Hs). unfold qos_ok in Hok.
  unfold sub_pack. cbn [forallb]. destruct (snd s <=? 2) eqn:E; [|lia].
  cbn [andb]. destruct (pack_subscribe id [s]); discriminate.
Qed.

(* non-vacuity: one filter, QoS 1, refused with 0x80 and a reserved code in a SUBACK of two codes *)
Example ex_refused_then_resubscribed :
  resubscribe (rc_history [] [([([97], 1)], [128; 255])]) = [[([97], 1)]] /\
  sub_pack 7 [([97], 1)] = Ok [130; 6; 0; 7; 0; 1; 97; 1] /\
  sub_pack 7 [([97], 128)] = Panic.
Proof. repeat split. Qed.

Print Assumptions resubscribe_never_panics.
