(* RetryInv_WireExec.v — part 8: every function that runs on the task goroutine preserves K. *)
From MQ Require Import Base RetryCore RetrySys CheckRetry RetryProps
  RetryInv_Wire RetryInv_WireBase RetryInv_WireU RetryInv_WireT RetryInv_WireC RetryInv_WireD RetryInv_WireK.
Open Scope nat_scope.

Lemma ws_add_acked w u : wsame w (add_acked w u). Proof. split; auto. Qed.
Lemma ws_set_hung w : wsame w (set_hung w). Proof. split; auto. Qed.
Lemma ws_on_error w c : wsame w (on_error w c). Proof. split; auto. Qed.
Lemma ws_add_dropped w u : wsame w (add_dropped w u). Proof. split; auto. Qed.
Lemma ws_set_subest w x : wsame w (set_subest w x). Proof. split; auto. Qed.
Lemma ws_set_retryq w q : wsame w (set_retryq w q). Proof. split; auto. Qed.
Lemma ws_set_nrbe w b : wsame w (set_nrbe w b). Proof. split; auto. Qed.
Lemma ws_trans a b c : wsame a b -> wsame b c -> wsame a c.
Proof.
  intros [] []. split; try congruence. auto.
Qed.

Section Exec.
Variable cfg : config.
Variable fp : fplan.
Variable S : list uop.
Variable k : nat.

(* what an attempt for the entry at the head of the to-do list leaves behind *)
Definition apost (Pd Pt : list rentry) (w w' : world) (r : ares) : Prop :=
  w_retryq w' = w_retryq w /\
  match r with
  | AFail e' _ => K fp S w' k Pd (e' :: Pt) /\ is_raw e' = true /\ (closing_only fp -> alive w' k = false)
  | _ => K fp S w' k Pd Pt
  end.

Lemma fail_not_ack r : match r with CAck | CHang => False | _ => True end -> r <> CAck.
Proof. destruct r; intros H; try contradiction; discriminate. Qed.

(* the common tail: after the (only or last) packet of the entry was written *)
Lemma after_send Pd Pt w w1 r res e e1 p :
  K fp S w k Pd (e :: Pt) -> allowed e p e1 -> send_post fp w k p w1 r res ->
  apost Pd Pt w
    (match r with CAck => add_acked w1 (entry_uid e) | CHang => set_hung w1 | _ => w1 end)
    (match r with CAck => ADone | CHang => AHung | _ => AFail e1 (fail_class r) end).
Proof.
  intros H Al Sp. pose proof (K_send _ _ _ _ _ _ _ _ _ _ _ _ H Al Sp) as H1.
  pose proof (sp_retryq _ _ _ _ _ _ _ Sp) as Eq.
  split; [destruct r; prj; exact Eq|].
  destruct r.
  - apply K_drop_head in H1. eapply K_same; eauto using ws_add_acked.
  - split; [exact H1|split; [eapply allowed_raw; eauto|]]. intros co. eapply sp_dead; eauto. discriminate.
  - split; [exact H1|split; [eapply allowed_raw; eauto|]]. intros co. eapply sp_dead; eauto. discriminate.
  - split; [exact H1|split; [eapply allowed_raw; eauto|]]. intros co. eapply sp_dead; eauto. discriminate.
  - apply K_drop_head in H1. eapply K_same; eauto using ws_set_hung.
Qed.

Lemma pubrel_K Pd Pt w e m w' r :
  K fp S w k Pd (e :: Pt) -> (e = RPublish m \/ e = RPubRel m) ->
  attempt_pubrel cfg fp w k m = (w', r) -> apost Pd Pt w w' r.
Proof.
  intros H He. unfold attempt_pubrel.
  destruct (negb (cl_inited (get_client w k))).
  { intros E; inversion E; subst. split; [reflexivity|]. eapply K_drop_head; eauto. }
  destruct (send cfg fp w k (PPubRel (p_uid m))) as [w1 r1] eqn:Sd.
  apply send_cases in Sd as [res Sp].
  assert (Al : allowed e (PPubRel (p_uid m)) (RPubRel m)) by (destruct He as [-> | ->]; constructor).
  pose proof (after_send _ _ _ _ _ _ _ _ _ H Al Sp) as P.
  assert (U : entry_uid e = p_uid m) by (destruct He as [-> | ->]; reflexivity). rewrite U in P.
  intros E. destruct r1; inversion E; subst; exact P.
Qed.

Lemma publish_K Pd Pt w e m d w' r :
  K fp S w k Pd (e :: Pt) -> ((e = DPublish m /\ d = false) \/ (e = RPublish m /\ d = true)) ->
  attempt_publish cfg fp w k m d = (w', r) -> apost Pd Pt w w' r.
Proof.
  intros H He. unfold attempt_publish.
  destruct (negb (cl_inited (get_client w k))).
  { intros E; inversion E; subst. split; [reflexivity|]. eapply K_drop_head; eauto. }
  destruct (send cfg fp w k (PPublish m d)) as [w1 r1] eqn:Sd.
  apply send_cases in Sd as [res Sp].
  assert (U : entry_uid e = p_uid m) by (destruct He as [[-> _] | [-> _]]; reflexivity).
  destruct (p_qos m =? 0)%N eqn:Q0.
  { (* QoS 0: written once, finished *)
    apply N.eqb_eq in Q0.
    assert (Al : allowed e (PPublish m d) (RSubscribe (p_uid m) [])).
    { destruct He as [[-> ->] | [-> ->]]; [constructor; exact Q0|].
      exfalso. apply (k_q _ _ _ _ _ _ H m); [|exact Q0]. apply in_mid. left; reflexivity. }
    pose proof (K_send _ _ _ _ _ _ _ _ _ _ _ _ H Al Sp) as H1. apply K_drop_head in H1.
    intros E. split; [|destruct r1; inversion E; subst; exact H1].
    rewrite <- (sp_retryq _ _ _ _ _ _ _ Sp). destruct r1; inversion E; reflexivity. }
  apply N.eqb_neq in Q0.
  assert (Al : allowed e (PPublish m d) (RPublish m)).
  { destruct He as [[-> ->] | [-> ->]]; constructor; exact Q0. }
  pose proof (after_send _ _ _ _ _ _ _ _ _ H Al Sp) as P. rewrite U in P.
  destruct (p_qos m =? 1)%N.
  { intros E. destruct r1; inversion E; subst; exact P. }
  destruct r1; try (intros E; inversion E; subst; exact P).
  (* QoS 2, PUBREC received: PUBREL *)
  intros E. pose proof (K_send _ _ _ _ _ _ _ _ _ _ _ _ H Al Sp) as H1.
  pose proof (pubrel_K _ _ _ _ _ _ _ H1 (or_introl eq_refl) E) as [Eq P2].
  split; [|exact P2]. rewrite Eq. apply (sp_retryq _ _ _ _ _ _ _ Sp).
Qed.

Lemma subscribe_K Pd Pt w e u ss w' r :
  K fp S w k Pd (e :: Pt) -> (e = DSubscribe u ss \/ e = RSubscribe u ss) ->
  attempt_subscribe cfg fp w k u ss = (w', r) -> apost Pd Pt w w' r.
Proof.
  intros H He. unfold attempt_subscribe.
  destruct (negb (cl_inited (get_client w k))).
  { intros E; inversion E; subst. split; [reflexivity|]. eapply K_drop_head; eauto. }
  destruct (send cfg fp w k (PSubscribe u ss)) as [w1 r1] eqn:Sd.
  apply send_cases in Sd as [res Sp].
  assert (Al : allowed e (PSubscribe u ss) (RSubscribe u ss)) by (destruct He as [-> | ->]; constructor).
  pose proof (after_send _ _ _ _ _ _ _ _ _ H Al Sp) as P.
  assert (U : entry_uid e = u) by (destruct He as [-> | ->]; reflexivity). rewrite U in P.
  intros E. destruct r1; inversion E; subst; exact P.
Qed.

Lemma unsubscribe_K Pd Pt w e u ts w' r :
  K fp S w k Pd (e :: Pt) -> (e = DUnsubscribe u ts \/ e = RUnsubscribe u ts) ->
  attempt_unsubscribe cfg fp w k u ts = (w', r) -> apost Pd Pt w w' r.
Proof.
  intros H He. unfold attempt_unsubscribe.
  destruct (negb (cl_inited (get_client w k))).
  { intros E; inversion E; subst. split; [reflexivity|]. eapply K_drop_head; eauto. }
  destruct (send cfg fp w k (PUnsubscribe u ts)) as [w1 r1] eqn:Sd.
  apply send_cases in Sd as [res Sp].
  assert (Al : allowed e (PUnsubscribe u ts) (RUnsubscribe u ts)) by (destruct He as [-> | ->]; constructor).
  pose proof (after_send _ _ _ _ _ _ _ _ _ H Al Sp) as P.
  assert (U : entry_uid e = u) by (destruct He as [-> | ->]; reflexivity). rewrite U in P.
  intros E. destruct r1; inversion E; subst; exact P.
Qed.

End Exec.

Section Exec2.
Variable cfg : config.
Variable fp : fplan.
Variable S : list uop.
Variable k : nat.

Lemma ws_queue_retry w c e : wsame w (queue_retry (on_error w c) e).
Proof. split; auto. Qed.

(* settle: the error handling of the first-transmission closures *)
Lemma settle_K Pd Pt w w' r uid :
  apost fp S k Pd Pt w w' r ->
  exists new, w_retryq (settle uid (w', r)) = w_retryq w ++ new /\
              K fp S (settle uid (w', r)) k (Pd ++ new) Pt.
Proof.
  intros [Eq P]. unfold settle. destruct r as [|e' cls|cls|].
  - exists []. rewrite !app_nil_r. auto.
  - destruct P as (H & Re & Hd). exists [e']. split; [prj; rewrite Eq; reflexivity|].
    eapply K_move; eauto using ws_queue_retry.
  - exists []. rewrite !app_nil_r. split; [prj; exact Eq|].
    eapply K_same; eauto. eapply ws_trans; [apply ws_on_error|apply ws_add_dropped].
  - exists []. rewrite !app_nil_r. auto.
Qed.

Definition is_deferred (e : rentry) : bool := negb (is_raw e).

(* one entry of the retry queue *)
Lemma run_entry_K Pd Pt w e w' r :
  K fp S w k Pd (e :: Pt) -> run_entry cfg fp w k e = (w', r) ->
  match r with
  | AFail e' _ => w_retryq w' = w_retryq w /\ K fp S w' k Pd (e' :: Pt) /\ is_raw e' = true
                  /\ (closing_only fp -> alive w' k = false)
  | _ => exists new, w_retryq w' = w_retryq w ++ new /\ K fp S w' k (Pd ++ new) Pt
  end.
Proof.
  intros H R.
  assert (Raw : forall w' r, apost fp S k Pd Pt w w' r ->
    match r with
    | AFail e' _ => w_retryq w' = w_retryq w /\ K fp S w' k Pd (e' :: Pt) /\ is_raw e' = true
                    /\ (closing_only fp -> alive w' k = false)
    | _ => exists new, w_retryq w' = w_retryq w ++ new /\ K fp S w' k (Pd ++ new) Pt
    end).
  { intros w2 r2 [Eq P]. destruct r2; try (exists []; rewrite !app_nil_r; auto; fail).
    destruct P as (A & B & C). auto. }
  destruct e; cbn [run_entry] in R.
  - apply Raw. eapply publish_K; eauto.
  - apply Raw. eapply pubrel_K; eauto.
  - apply Raw. eapply subscribe_K; eauto.
  - apply Raw. eapply unsubscribe_K; eauto.
  - inversion R; subst. unfold do_publish.
    destruct (attempt_publish cfg fp w k m false) as [w2 r2] eqn:A.
    apply (settle_K Pd Pt w w2 r2). eapply publish_K; eauto.
  - inversion R; subst. unfold do_subscribe.
    destruct (attempt_subscribe cfg fp (set_subest w (est_apply_subs (w_subest w) ss)) k uid ss) as [w2 r2] eqn:A.
    apply (settle_K Pd Pt (set_subest w (est_apply_subs (w_subest w) ss)) w2 r2).
    eapply subscribe_K; [|left; reflexivity|exact A].
    eapply K_same; eauto using ws_set_subest.
  - inversion R; subst. unfold do_unsubscribe.
    destruct (attempt_unsubscribe cfg fp (set_subest w (est_apply_unsubs (w_subest w) ts)) k uid ts) as [w2 r2] eqn:A.
    apply (settle_K Pd Pt (set_subest w (est_apply_unsubs (w_subest w) ts)) w2 r2).
    eapply unsubscribe_K; [|left; reflexivity|exact A].
    eapply K_same; eauto using ws_set_subest.
Qed.

(* the task-level conclusion: K for some split of retry queue ++ remaining task entries *)
Definition TK (w : world) (T : list rentry) : Prop :=
  exists Pd Pt, Pd ++ Pt = w_retryq w ++ T /\ K fp S w k Pd Pt.

Lemma retry_loop_K T old : forall w,
  K fp S w k (w_retryq w) (old ++ T) -> TK (retry_loop cfg fp w k old) T.
Proof.
  induction old as [|e rest IH]; intros w H.
  - cbn [retry_loop]. exists (w_retryq w), T. auto.
  - cbn [retry_loop]. destruct (run_entry cfg fp w k e) as [w1 r] eqn:R.
    cbn [List.app] in H. pose proof (run_entry_K _ _ _ _ _ _ H R) as P.
    destruct (w_hung w1).
    { destruct r as [|e' cls|cls|].
      - destruct P as (new & Eq & H1). exists (w_retryq w1), T. split; [reflexivity|].
        rewrite Eq. eapply K_drop_all; eauto.
      - destruct P as (Eq & H1 & _). exists (w_retryq w1), T. split; [reflexivity|].
        rewrite Eq. apply (K_drop_all fp S w1 k (w_retryq w) (e' :: rest) T). exact H1.
      - destruct P as (new & Eq & H1). exists (w_retryq w1), T. split; [reflexivity|].
        rewrite Eq. eapply K_drop_all; eauto.
      - destruct P as (new & Eq & H1). exists (w_retryq w1), T. split; [reflexivity|].
        rewrite Eq. eapply K_drop_all; eauto. }
    destruct r as [|e' cls|cls|].
    + destruct P as (new & Eq & H1). apply IH. rewrite Eq. exact H1.
    + destruct P as (Eq & H1 & Re & Hd).
      exists (w_retryq w ++ [e']), (rest ++ T). split.
      * prj. rewrite Eq, <- !app_assoc. reflexivity.
      * eapply K_same; [|apply ws_set_retryq|reflexivity].
        eapply K_move; eauto using ws_queue_retry.
    + destruct P as (new & Eq & H1). apply IH. prj. rewrite Eq.
      eapply K_same; eauto using ws_add_dropped.
    + destruct P as (new & Eq & H1). apply IH. rewrite Eq. exact H1.
Qed.

Lemma task_retry_K T w :
  K fp S w k [] (w_retryq w ++ T) -> TK (task_retry cfg fp w k) T.
Proof.
  intros H. unfold task_retry. apply retry_loop_K. prj.
  eapply K_same; eauto using ws_set_retryq.
Qed.

(* a request task: run directly when the retry queue is empty, otherwise queued behind it *)
Lemma task_op_K T w o :
  K fp S w k [] (w_retryq w ++ op_entry o :: T) -> TK (exec_task cfg fp w k (TOp o)) T.
Proof.
  intros H. destruct o as [m|u ss|u ts]; cbn [exec_task op_entry] in *.
  - unfold task_publish. destruct (w_retryq w) as [|e0 q] eqn:Q.
    + cbn [List.app] in H.
      destruct (run_entry_K [] T w (DPublish m) _ ADone H eq_refl) as (new & Eq & H1).
      exists new, T. cbn [List.app] in *. split; [rewrite Eq, Q; reflexivity|exact H1].
    + destruct (0 <? p_qos m)%N.
      * exists [], ((e0 :: q) ++ DPublish m :: T). split; [prj; rewrite <- app_assoc; reflexivity|].
        eapply K_same; eauto using ws_set_retryq.
      * exists [], ((e0 :: q) ++ T). split; [rewrite Q; reflexivity|]. eapply K_drop; eauto.
  - unfold task_subscribe. destruct (w_retryq w) as [|e0 q] eqn:Q.
    + cbn [List.app] in H.
      destruct (run_entry_K [] T w (DSubscribe u ss) _ ADone H eq_refl) as (new & Eq & H1).
      exists new, T. cbn [List.app] in *. split; [rewrite Eq, Q; reflexivity|exact H1].
    + exists [], ((e0 :: q) ++ DSubscribe u ss :: T). split; [prj; rewrite <- app_assoc; reflexivity|].
      eapply K_same; eauto using ws_set_retryq.
  - unfold task_unsubscribe. destruct (w_retryq w) as [|e0 q] eqn:Q.
    + cbn [List.app] in H.
      destruct (run_entry_K [] T w (DUnsubscribe u ts) _ ADone H eq_refl) as (new & Eq & H1).
      exists new, T. cbn [List.app] in *. split; [rewrite Eq, Q; reflexivity|exact H1].
    + exists [], ((e0 :: q) ++ DUnsubscribe u ts :: T). split; [prj; rewrite <- app_assoc; reflexivity|].
      eapply K_same; eauto using ws_set_retryq.
Qed.

(* Resubscribe: re-subscriptions (identifier 0) go in front of what was pending *)
Lemma resub_fold_K Pt old : forall w,
  K fp S w k (w_retryq w) Pt ->
  let w' := fold_left (fun w s => if w_hung w then w else task_subscribe cfg fp w k 0 [s]) old w in
  K fp S w' k (w_retryq w') Pt.
Proof.
  induction old as [|s old IH]; intros w H; cbn [fold_left]; [exact H|].
  apply IH. destruct (w_hung w); [exact H|].
  unfold task_subscribe. destruct (w_retryq w) as [|e0 q] eqn:Q.
  - assert (H0 : K fp S w k [] (DSubscribe 0 [s] :: Pt)) by (apply K_ins0_todo; auto).
    destruct (run_entry_K [] Pt w (DSubscribe 0 [s]) _ ADone H0 eq_refl) as (new & Eq & H1).
    cbn [run_entry fst] in *. rewrite Eq, Q. exact H1.
  - prj. eapply K_same; [|apply ws_set_retryq|reflexivity].
    apply K_ins0_done; auto.
Qed.

Lemma task_resub_K T w :
  K fp S w k [] (w_retryq w ++ T) -> TK (task_resubscribe cfg fp w k) T.
Proof.
  intros H. unfold task_resubscribe.
  set (w0 := set_retryq (set_subest w []) []).
  assert (H0 : K fp S w0 k (w_retryq w0) (w_retryq w ++ T)).
  { unfold w0. prj. eapply K_same; eauto.
    eapply ws_trans; [apply ws_set_subest|apply ws_set_retryq]. }
  pose proof (resub_fold_K _ (w_subest w) w0 H0) as H1. cbn zeta in H1.
  set (w1 := fold_left _ (w_subest w) w0) in *.
  exists (w_retryq w1), (w_retryq w ++ T). split; [prj; rewrite app_assoc; reflexivity|].
  eapply K_same; eauto using ws_set_retryq.
Qed.

Lemma exec_task_K T w t :
  K fp S w k [] (w_retryq w ++ task_entries t ++ T) -> TK (exec_task cfg fp w k t) T.
Proof.
  destruct t as [o| |]; cbn [task_entries List.app].
  - apply task_op_K.
  - apply task_resub_K.
  - apply task_retry_K.
Qed.

End Exec2.
