(* RetryHandle_proofs.v — proofs about the base client's retry handle in isolation (model and
   predicates in RetryHandle.v). Statements re-exported in props/C12.v.

   Main results
   * [pub_attempt_frame], [rel_attempt_frame], [run_handle_frame]: what an attempt writes, and how it
     ends, is a function of the message, of the target client being initialised / open and of the
     environment only — NOT of the target's signaller maps, of the identifier newID would hand out
     (once the message has an identifier) or of the caller's tag.
   * [handle_chain_faithful]: any chain of retries on any clients with any other requests
     outstanding writes a faithful sequence for the message.
   * [handle_after_pubrec_only_pubrel]: a PUBREL handle only ever leads to PUBRELs with that identifier.
   * [handle_collision_overwrites] / [handle_other_ids_untouched] / [handle_other_clients_untouched]:
     what the handle does to the signaller of the client it runs on. *)
From MQ Require Import Base RetryHandle.
Open Scope N_scope.

(* ---------- lists / maps ---------- *)
Lemma nth_upd_proj {B} (P : bclient -> B) (f : bclient -> bclient) :
  (forall c, P (f c) = P c) ->
  forall l k k' d, P (nth k' (bh_upd_nth k f l) d) = P (nth k' l d).
Proof.
  intros Hf l; induction l as [|x l IH]; intros k k' d.
  - destruct k; reflexivity.
  - destruct k as [|k]; destruct k' as [|k']; cbn [bh_upd_nth nth]; try reflexivity.
    + apply Hf.
    + apply IH.
Qed.

Lemma nth_upd_same (f : bclient -> bclient) :
  forall l k d, (k < length l)%nat -> nth k (bh_upd_nth k f l) d = f (nth k l d).
Proof.
  intros l; induction l as [|x l IH]; intros k d Hk; cbn [length] in Hk.
  - lia.
  - destruct k as [|k]; cbn [bh_upd_nth nth]; [reflexivity | apply IH; lia].
Qed.

Lemma nth_upd_other (f : bclient -> bclient) :
  forall l k k' d, k <> k' -> nth k' (bh_upd_nth k f l) d = nth k' l d.
Proof.
  intros l; induction l as [|x l IH]; intros k k' d Hk.
  - destruct k; reflexivity.
  - destruct k as [|k]; destruct k' as [|k']; cbn [bh_upd_nth nth]; try reflexivity.
    + congruence.
    + apply IH. congruence.
Qed.

Lemma am_get_set_same i o l : am_get i (am_set i o l) = Some o.
Proof. unfold am_set; cbn [am_get]. rewrite N.eqb_refl. reflexivity. Qed.

Lemma am_get_remove_same i l : am_get i (am_remove i l) = None.
Proof.
  induction l as [|[j o] l IH]; cbn [am_remove am_get]; [reflexivity|].
  destruct (i =? j) eqn:E; [exact IH | cbn [am_get]; rewrite E; exact IH].
Qed.

Lemma am_get_remove_other i j l : j <> i -> am_get j (am_remove i l) = am_get j l.
Proof.
  intros Hne; induction l as [|[x o] l IH]; cbn [am_remove am_get]; [reflexivity|].
  destruct (i =? x) eqn:E.
  - apply N.eqb_eq in E; subst x. destruct (j =? i) eqn:E2; [apply N.eqb_eq in E2; congruence | exact IH].
  - cbn [am_get]. destruct (j =? x); [reflexivity | exact IH].
Qed.

Lemma am_get_set_other i j o l : j <> i -> am_get j (am_set i o l) = am_get j l.
Proof.
  intros Hne. unfold am_set; cbn [am_get].
  destruct (j =? i) eqn:E; [apply N.eqb_eq in E; congruence | apply am_get_remove_other; exact Hne].
Qed.

(* ---------- client projections through updates ---------- *)
Lemma bc_reg_inited kd i o c : bc_inited (bc_reg kd i o c) = bc_inited c.
Proof. destruct kd; reflexivity. Qed.
Lemma bc_reg_open kd i o c : bc_open (bc_reg kd i o c) = bc_open c.
Proof. destruct kd; reflexivity. Qed.
Lemma bc_unreg_inited kd i c : bc_inited (bc_unreg kd i c) = bc_inited c.
Proof. destruct kd; reflexivity. Qed.
Lemma bc_unreg_open kd i c : bc_open (bc_unreg kd i c) = bc_open c.
Proof. destruct kd; reflexivity. Qed.
Lemma bc_close_inited c : bc_inited (bc_close c) = bc_inited c.
Proof. reflexivity. Qed.

Lemma bc_map_set_same c kd l : bc_map (bc_set_map c kd l) kd = l.
Proof. destruct kd; reflexivity. Qed.
Lemma bc_map_set_other c kd kd' l : kd <> kd' -> bc_map (bc_set_map c kd l) kd' = bc_map c kd'.
Proof. destruct kd, kd'; intros H; try reflexivity; congruence. Qed.
Lemma bc_map_close c kd : bc_map (bc_close c) kd = bc_map c kd.
Proof. destruct kd; reflexivity. Qed.

Lemma bw_get_upd_inited w k f k' :
  (forall c, bc_inited (f c) = bc_inited c) -> bc_inited (bw_get (bw_upd w k f) k') = bc_inited (bw_get w k').
Proof. intros H. unfold bw_get, bw_upd; cbn [bw_clients]. apply (nth_upd_proj bc_inited f H). Qed.
Lemma bw_get_upd_open w k f k' :
  (forall c, bc_open (f c) = bc_open c) -> bc_open (bw_get (bw_upd w k f) k') = bc_open (bw_get w k').
Proof. intros H. unfold bw_get, bw_upd; cbn [bw_clients]. apply (nth_upd_proj bc_open f H). Qed.

Lemma inited_in_range w k : bc_inited (bw_get w k) = true -> (k < length (bw_clients w))%nat.
Proof.
  unfold bw_get. intros H. destruct (Nat.ltb k (length (bw_clients w))) eqn:E.
  - apply Nat.ltb_lt in E; exact E.
  - apply Nat.ltb_ge in E. rewrite nth_overflow in H by exact E. discriminate.
Qed.

Lemma bw_get_upd_same w k f : bc_inited (bw_get w k) = true -> bw_get (bw_upd w k f) k = f (bw_get w k).
Proof. intros H. unfold bw_get, bw_upd; cbn [bw_clients]. apply nth_upd_same. apply inited_in_range; exact H. Qed.
Lemma bw_get_upd_other w k f k' : k <> k' -> bw_get (bw_upd w k f) k' = bw_get w k'.
Proof. intros H. unfold bw_get, bw_upd; cbn [bw_clients]. apply nth_upd_other; exact H. Qed.
Lemma bw_get_log w k e k' : bw_get (bw_log w k e) k' = bw_get w k'.
Proof. reflexivity. Qed.
Lemma bw_wire_upd w k f : bw_wire (bw_upd w k f) = bw_wire w.
Proof. reflexivity. Qed.

(* ---------- outcome of an attempt as a function of message, flags and environment ---------- *)
Definition bh_eff (open : bool) (e : senv) : senv := if open then e else SWriteFail.

Definition rel_outcome (m : hmsg) (inited open : bool) (e : senv) : boutcome :=
  if negb inited then BoNotConnected
  else match bh_eff open e with
       | SAck => BoDone
       | r => BoHandle (BhPubRel m) (bh_cause r)
       end.

Definition pub_writes (m : hmsg) (dup inited open : bool) (env : aenv) : list wev :=
  if negb inited then []
  else if 2 <? h_qos m then []
  else WPub m dup (bh_ok open (ae_pub env))
       :: (if (h_qos m =? 2) && bh_acked open (ae_pub env)
           then [WRel (h_id m) (bh_ok open (ae_rel env))] else []).

Definition pub_outcome (m : hmsg) (inited open : bool) (env : aenv) : boutcome :=
  if negb inited then BoNotConnected
  else if 2 <? h_qos m then BoPanic
  else if h_qos m =? 0 then
    match bh_eff open (ae_pub env) with SWriteFail => BoPlainErr | _ => BoDone end
  else match bh_eff open (ae_pub env) with
       | SAck => if h_qos m =? 1 then BoDone else rel_outcome m true open (ae_rel env)
       | r => BoHandle (BhPublish m) (bh_cause r)
       end.

Definition handle_outcome (h : bhandle) (inited open : bool) (env : aenv) : boutcome :=
  match h with
  | BhPublish m => pub_outcome m inited open env
  | BhPubRel m => rel_outcome m inited open (ae_rel env)
  end.

Lemma handle_writes_publish m inited open env :
  handle_writes (BhPublish m) inited open env = pub_writes m true inited open env.
Proof. unfold handle_writes, pub_writes. destruct inited; reflexivity. Qed.

(* ---------- one Write ---------- *)
Lemma bh_write_spec w k mk e w' r :
  bh_write w k mk e = (w', r) ->
  r = bh_eff (bc_open (bw_get w k)) e
  /\ bw_wire w' = bw_wire w ++ [(k, mk (bh_ok (bc_open (bw_get w k)) e))]
  /\ (forall k', bc_inited (bw_get w' k') = bc_inited (bw_get w k'))
  /\ (r = SAck -> bc_open (bw_get w' k) = true)
  /\ (forall k', k' <> k -> bw_get w' k' = bw_get w k')
  /\ (forall kd, bc_map (bw_get w' k) kd = bc_map (bw_get w k) kd).
Proof.
  unfold bh_write, bh_eff, bh_ok. intros H.
  destruct (bc_open (bw_get w k)) eqn:Eo.
  - destruct e; injection H as <- <-; cbn [andb bw_wire bw_log bw_upd];
      (split; [reflexivity|]); (split; [reflexivity|]).
    + repeat split; try reflexivity; try discriminate.
    + split; [intros k'; rewrite (bw_get_upd_inited _ k bc_close k' bc_close_inited); try reflexivity|].
      split; [discriminate|].
      split; [intros k' Hk; rewrite bw_get_upd_other by congruence; try reflexivity|].
      intros kd. destruct (bc_inited (bw_get w k)) eqn:Ei.
      * rewrite bw_get_upd_same by (rewrite bw_get_log; exact Ei). rewrite bc_map_close. reflexivity.
      * (* not initialised: either out of range (nothing changes) or in range *)
        unfold bw_get, bw_upd, bw_log; cbn [bw_clients].
        destruct (Nat.ltb k (length (bw_clients w))) eqn:El.
        -- apply Nat.ltb_lt in El. rewrite nth_upd_same by exact El. apply bc_map_close.
        -- apply Nat.ltb_ge in El.
           assert (forall l n, (length l <= n)%nat -> bh_upd_nth n bc_close l = l) as Hid.
           { intros l; induction l as [|x l IH]; intros n Hn; [destruct n; reflexivity|].
             cbn [length] in Hn. destruct n as [|n]; [lia|]. cbn [bh_upd_nth]. rewrite IH by lia. reflexivity. }
           rewrite Hid by exact El. reflexivity.
    + repeat split; try reflexivity; try discriminate.
    + repeat split; try reflexivity; try discriminate. intros _. exact Eo.
  - injection H as <- <-. cbn [andb bw_wire bw_log]. repeat split; try reflexivity; discriminate.
Qed.

(* ---------- frame lemmas: writes and outcome ---------- *)
Lemma rel_attempt_frame w k m owner e w' o :
  rel_attempt w k m owner e = (w', o) ->
  let c := bw_get w k in
  bw_wire w' = bw_wire w ++ map (pair k) (handle_writes (BhPubRel m) (bc_inited c) (bc_open c) {| ae_pub := SAck; ae_rel := e |})
  /\ o = rel_outcome m (bc_inited c) (bc_open c) e.
Proof.
  unfold rel_attempt, handle_writes, rel_outcome. cbn zeta.
  destruct (bc_inited (bw_get w k)) eqn:Ei; cbn [negb].
  - destruct (bh_write _ k (WRel (h_id m)) e) as [w1 r] eqn:Ew. intros H.
    apply bh_write_spec in Ew. destruct Ew as (Hr & Hw & _).
    rewrite bw_get_upd_open in Hr, Hw by (intros; apply bc_reg_open).
    cbn [ae_rel map]. rewrite bw_wire_upd in Hw.
    destruct r; injection H as <- <-; rewrite <- Hr; (split; [try rewrite bw_wire_upd; exact Hw | reflexivity]).
  - intros H; injection H as <- <-. cbn [map]. rewrite app_nil_r. split; reflexivity.
Qed.

Lemma pub_attempt_frame w k m0 dup fresh owner env w' m o :
  pub_attempt w k m0 dup fresh owner env = (w', m, o) ->
  let c := bw_get w k in
  m = hm_fill_id m0 fresh
  /\ bw_wire w' = bw_wire w ++ map (pair k) (pub_writes (hm_fill_id m0 fresh) dup (bc_inited c) (bc_open c) env)
  /\ o = pub_outcome (hm_fill_id m0 fresh) (bc_inited c) (bc_open c) env.
Proof.
  unfold pub_attempt, pub_writes, pub_outcome. cbn zeta.
  set (m1 := hm_fill_id m0 fresh).
  destruct (bc_inited (bw_get w k)) eqn:Ei; cbn [negb];
    [| intros H; injection H as <- <- <-; cbn [map]; rewrite app_nil_r; repeat split; reflexivity].
  destruct (2 <? h_qos m1) eqn:E2;
    [intros H; injection H as <- <- <-; cbn [map]; rewrite app_nil_r; repeat split; reflexivity|].
  set (w0 := if h_qos m1 =? 1 then bw_upd w k (bc_reg WkAck (h_id m1) owner)
             else if h_qos m1 =? 2 then bw_upd w k (bc_reg WkRec (h_id m1) owner) else w).
  assert (Hw0 : bw_wire w0 = bw_wire w) by (unfold w0; destruct (h_qos m1 =? 1), (h_qos m1 =? 2); reflexivity).
  assert (Ho0 : bc_open (bw_get w0 k) = bc_open (bw_get w k)).
  { unfold w0; destruct (h_qos m1 =? 1), (h_qos m1 =? 2); try reflexivity;
      apply bw_get_upd_open; intros; apply bc_reg_open. }
  assert (Hi0 : bc_inited (bw_get w0 k) = true).
  { unfold w0; destruct (h_qos m1 =? 1), (h_qos m1 =? 2); try exact Ei;
      (rewrite bw_get_upd_inited by (intros; apply bc_reg_inited)); exact Ei. }
  destruct (bh_write w0 k (WPub m1 dup) (ae_pub env)) as [w1 r] eqn:Ew.
  apply bh_write_spec in Ew. destruct Ew as (Hr & Hw & Hin & Hop & _).
  rewrite Ho0 in Hr, Hw. rewrite Hw0 in Hw.
  destruct (h_qos m1 =? 0) eqn:E0.
  - assert (h_qos m1 =? 2 = false) as E2' by lia. rewrite E2'. cbn [andb map].
    rewrite <- Hr. destruct r; intros H; injection H as <- <- <-; repeat split; try reflexivity; exact Hw.
  - rewrite <- Hr.
    destruct r; try (intros H; injection H as <- <- <-; split; [reflexivity|]; split; [|reflexivity];
      rewrite Hw; f_equal; cbn [map]; f_equal;
      assert (bh_acked (bc_open (bw_get w k)) (ae_pub env) = false) as ->
        by (unfold bh_acked, bh_eff in *; destruct (bc_open (bw_get w k)), (ae_pub env); try reflexivity; discriminate);
      rewrite andb_false_r; reflexivity).
    (* acknowledged *)
    assert (Hack : bh_acked (bc_open (bw_get w k)) (ae_pub env) = true)
      by (unfold bh_acked, bh_eff in *; destruct (bc_open (bw_get w k)), (ae_pub env); try reflexivity; discriminate).
    assert (Hopen : bc_open (bw_get w k) = true)
      by (unfold bh_acked in Hack; destruct (bc_open (bw_get w k)); [reflexivity | discriminate]).
    rewrite Hack, andb_true_r.
    destruct (h_qos m1 =? 1) eqn:E1.
    + assert (h_qos m1 =? 2 = false) as -> by lia.
      intros H; injection H as <- <- <-. rewrite bw_wire_upd. repeat split; try reflexivity. exact Hw.
    + assert (h_qos m1 =? 2 = true) as -> by lia.
      destruct (rel_attempt (bw_upd w1 k (bc_unreg WkRec (h_id m1))) k m1 owner (ae_rel env)) as [w2 o2] eqn:Er.
      intros H; injection H as <- <- <-.
      apply rel_attempt_frame in Er. cbn zeta in Er. destruct Er as (Hw2 & Ho2).
      rewrite bw_get_upd_inited in Hw2, Ho2 by (intros; apply bc_unreg_inited).
      rewrite bw_get_upd_open in Hw2, Ho2 by (intros; apply bc_unreg_open).
      rewrite Hin, Hi0 in Hw2, Ho2. rewrite (Hop eq_refl) in Hw2, Ho2.
      rewrite bw_wire_upd, Hw in Hw2.
      split; [reflexivity|]. split.
      * rewrite Hw2. unfold handle_writes. cbn [negb ae_rel map]. rewrite <- app_assoc. cbn [app].
        rewrite Hopen. reflexivity.
      * rewrite Ho2, Hopen. reflexivity.
Qed.

(* what a handle writes and how the attempt ends depends on the handle, on the target being
   initialised / open and on the environment — not on the target's signaller, not on [fresh] (the
   message already has an identifier), not on the caller's tag *)
Lemma run_handle_frame w k h fresh owner env w' m o :
  h_id (bh_msg h) <> 0 ->
  run_handle w k h fresh owner env = (w', m, o) ->
  let c := bw_get w k in
  m = bh_msg h
  /\ bw_wire w' = bw_wire w ++ map (pair k) (handle_writes h (bc_inited c) (bc_open c) env)
  /\ o = handle_outcome h (bc_inited c) (bc_open c) env.
Proof.
  intros Hid. destruct h as [mh|mh]; cbn [run_handle bh_msg handle_outcome] in *.
  - intros H. apply pub_attempt_frame in H. cbn zeta in H. destruct H as (Hm & Hw & Ho).
    assert (hm_fill_id mh fresh = mh) as Hf.
    { unfold hm_fill_id. destruct (h_id mh =? 0) eqn:E; [apply N.eqb_eq in E; contradiction | reflexivity]. }
    rewrite Hf in Hm, Hw, Ho; subst m. rewrite handle_writes_publish. repeat split; assumption.
  - destruct (rel_attempt w k mh owner (ae_rel env)) as [w1 o1] eqn:Er. intros H; injection H as <- <- <-.
    apply rel_attempt_frame in Er. cbn zeta in Er. destruct Er as (Hw & Ho).
    split; [reflexivity|]. split; [|exact Ho].
    rewrite Hw. unfold handle_writes. reflexivity.
Qed.

(* the same handle run in two worlds whose target clients agree on initialised / open writes the same
   packets and ends the same way, whatever waiters the two signallers hold *)
Lemma run_handle_signaller_independent wa wb ka kb h fa fb oa ob env wa' ma outa wb' mb outb :
  h_id (bh_msg h) <> 0 ->
  bc_inited (bw_get wa ka) = bc_inited (bw_get wb kb) ->
  bc_open (bw_get wa ka) = bc_open (bw_get wb kb) ->
  run_handle wa ka h fa oa env = (wa', ma, outa) ->
  run_handle wb kb h fb ob env = (wb', mb, outb) ->
  exists l, bw_wire wa' = bw_wire wa ++ map (pair ka) l /\ bw_wire wb' = bw_wire wb ++ map (pair kb) l
            /\ outa = outb /\ ma = mb.
Proof.
  intros Hid Hi Ho Ha Hb.
  apply run_handle_frame in Ha; [|exact Hid]. apply run_handle_frame in Hb; [|exact Hid].
  cbn zeta in Ha, Hb. destruct Ha as (-> & Hwa & ->). destruct Hb as (-> & Hwb & ->).
  rewrite Hi, Ho in *. eexists. repeat split; eassumption.
Qed.

(* ---------- the chain invariant ---------- *)
Lemma later_ok_app m b l1 l2 :
  later_ok m b (l1 ++ l2) = later_ok m b l1 && later_ok m (b || bh_has_rel l1) l2.
Proof.
  revert b; induction l1 as [|x l1 IH]; intros b.
  - cbn [app later_ok bh_has_rel]. rewrite orb_false_r. reflexivity.
  - destruct x as [m' d ok | i ok]; cbn [app later_ok bh_has_rel].
    + rewrite IH. rewrite !andb_assoc. reflexivity.
    + rewrite IH. cbn [orb]. rewrite orb_true_r. rewrite !andb_assoc. reflexivity.
Qed.

Lemma bh_has_rel_app l1 l2 : bh_has_rel (l1 ++ l2) = bh_has_rel l1 || bh_has_rel l2.
Proof.
  induction l1 as [|x l1 IH]; [reflexivity|]. destruct x; cbn [app bh_has_rel]; [exact IH | reflexivity].
Qed.

Lemma hmsg_eqb_refl m : hmsg_eqb m m = true.
Proof. unfold hmsg_eqb. rewrite !N.eqb_refl, Bool.eqb_reflx, !str_eqb_refl. reflexivity. Qed.

Lemma hmsg_eqb_eq a b : hmsg_eqb a b = true -> a = b.
Proof.
  unfold hmsg_eqb. intros H. repeat (apply andb_true_iff in H; destruct H as [H ?]).
  destruct a, b; cbn in *. apply N.eqb_eq in H. apply N.eqb_eq in H3. apply Bool.eqb_prop in H2.
  apply str_eqb_eq in H1. apply str_eqb_eq in H0. congruence.
Qed.

(* [l]: what has been written for the message after its first PUBLISH; [o]: how the last attempt ended *)
Definition chain_good (m1 : hmsg) (l : list wev) (o : boutcome) : Prop :=
  later_ok m1 false l = true /\
  match o with
  | BoHandle (BhPublish m') _ => m' = m1 /\ bh_has_rel l = false /\ 0 < h_qos m1
  | BoHandle (BhPubRel m') _ => m' = m1 /\ h_qos m1 = 2
  | _ => True
  end.

Lemma bh_apply_ops_wire w k ops : bw_wire (bh_apply_ops w k ops) = bw_wire w.
Proof. reflexivity. Qed.

(* one retry keeps the invariant *)
Lemma handle_step_good m1 l h c inited open env :
  h_id m1 <> 0 -> h_qos m1 <= 2 ->
  chain_good m1 l (BoHandle h c) ->
  chain_good m1 (l ++ handle_writes h inited open env) (handle_outcome h inited open env).
Proof.
  intros Hid Hq [Hl Hh]. unfold chain_good.
  destruct h as [m'|m'].
  - destruct Hh as (-> & Hnr & Hpos).
    rewrite handle_writes_publish. unfold pub_writes, handle_outcome, pub_outcome, rel_outcome.
    destruct inited; cbn [negb]; [|rewrite app_nil_r; split; [exact Hl | exact I]].
    assert (2 <? h_qos m1 = false) as -> by lia.
    assert (h_qos m1 =? 0 = false) as -> by lia.
    rewrite later_ok_app, Hl, Hnr. cbn [andb orb later_ok negb].
    rewrite hmsg_eqb_refl. assert (0 <? h_qos m1 = true) as -> by lia. cbn [andb].
    rewrite bh_has_rel_app, Hnr. cbn [orb bh_has_rel].
    destruct (h_qos m1 =? 1) eqn:E1.
    + assert (h_qos m1 =? 2 = false) as -> by lia. cbn [andb later_ok bh_has_rel].
      split; [reflexivity|].
      destruct (bh_eff open (ae_pub env)); try exact I; repeat split; assumption.
    + assert (h_qos m1 =? 2 = true) as E2 by lia. rewrite E2. cbn [andb].
      unfold bh_acked, bh_eff. destruct open; cbn [andb].
      * destruct (ae_pub env); cbn [later_ok bh_has_rel]; try (split; [reflexivity|]; repeat split; assumption).
        rewrite N.eqb_refl, E2. cbn [andb]. split; [reflexivity|].
        cbn [negb]. destruct (ae_rel env); try exact I; (split; [reflexivity | lia]).
      * cbn [later_ok bh_has_rel]. split; [reflexivity|]. repeat split; assumption.
  - destruct Hh as (-> & Hq2).
    unfold handle_writes, handle_outcome, rel_outcome.
    destruct inited; cbn [negb]; [|rewrite app_nil_r; split; [exact Hl | exact I]].
    rewrite later_ok_app, Hl. cbn [andb later_ok]. rewrite N.eqb_refl.
    assert (h_qos m1 =? 2 = true) as -> by lia. cbn [andb].
    split; [reflexivity|].
    destruct (bh_eff open (ae_rel env)); try exact I; (split; [reflexivity | exact Hq2]).
Qed.

Lemma run_chain_good m1 :
  h_id m1 <> 0 -> h_qos m1 <= 2 ->
  forall ss w o n l w' o',
    chain_good m1 l o ->
    run_chain w o n ss = (w', o') ->
    exists rest, bw_wire w' = bw_wire w ++ rest /\ chain_good m1 (l ++ map snd rest) o'.
Proof.
  intros Hid Hq ss; induction ss as [|s ss IH]; intros w o n l w' o' Hg H.
  - cbn [run_chain] in H. injection H as <- <-. exists []. rewrite !app_nil_r. split; [reflexivity | exact Hg].
  - cbn [run_chain] in H.
    destruct o as [|h c| | | |]; try (injection H as <- <-; exists []; rewrite !app_nil_r; split; [reflexivity | exact Hg]).
    destruct (run_handle (bh_apply_ops w (bs_k s) (bs_ops s)) (bs_k s) h (bs_fresh s) n (bs_env s)) as [[w1 mm] o1] eqn:Er.
    assert (Hidh : h_id (bh_msg h) <> 0).
    { destruct Hg as [_ Hh]. destruct h; cbn [bh_msg]; destruct Hh as (-> & _); exact Hid. }
    apply run_handle_frame in Er; [|exact Hidh]. cbn zeta in Er. destruct Er as (_ & Hw1 & Ho1).
    rewrite bh_apply_ops_wire in Hw1.
    pose proof (handle_step_good m1 l h c
                  (bc_inited (bw_get (bh_apply_ops w (bs_k s) (bs_ops s)) (bs_k s)))
                  (bc_open (bw_get (bh_apply_ops w (bs_k s) (bs_ops s)) (bs_k s)))
                  (bs_env s) Hid Hq Hg) as Hg1. rewrite <- Ho1 in Hg1.
    destruct (IH _ _ _ _ _ _ Hg1 H) as (rest & Hw' & Hg').
    eexists. split.
    + rewrite Hw', Hw1, <- app_assoc. reflexivity.
    + rewrite map_app, map_map. cbn [snd]. rewrite map_id, app_assoc. exact Hg'.
Qed.

(* ---------- theorems ---------- *)

(* C12, retry handle: any number of successive retries, on any clients, with any other requests
   registering and unregistering waiters (also under the message's own identifier) in between:
   the Write calls for the message are PUBLISH(DUP=0) with the caller's content and identifier, then
   only identical PUBLISHes with DUP=1, and once a PUBREL was written only PUBRELs with the same
   identifier. *)
Theorem handle_chain_faithful w m s0 ss w' o :
  (h_id m <> 0 \/ bs_fresh s0 <> 0) ->
  publish_chain w m s0 ss = (w', o) ->
  exists rest, bw_wire w' = bw_wire w ++ rest /\ chain_faithful m (map snd rest) = true.
Proof.
  intros Hid. unfold publish_chain, base_publish.
  destruct (2 <? h_qos m) eqn:Eq.
  - (* ValidateMessage refuses: nothing is written, no handle *)
    intros H. destruct ss; cbn [run_chain] in H; injection H as <- <-; exists []; rewrite app_nil_r; split; reflexivity.
  - destruct (pub_attempt (bh_apply_ops w (bs_k s0) (bs_ops s0)) (bs_k s0) m false (bs_fresh s0) 0%nat (bs_env s0))
      as [[w1 m1] o1] eqn:Ep.
    apply pub_attempt_frame in Ep. cbn zeta in Ep. destruct Ep as (Hm1 & Hw1 & Ho1).
    rewrite <- Hm1 in Hw1, Ho1.
    rewrite bh_apply_ops_wire in Hw1.
    set (c := bw_get (bh_apply_ops w (bs_k s0) (bs_ops s0)) (bs_k s0)) in *.
    assert (Hid1 : h_id m1 <> 0).
    { subst m1. unfold hm_fill_id. destruct (h_id m =? 0) eqn:E; cbn [h_id hm_set_id].
      - apply N.eqb_eq in E. destruct Hid; [contradiction | assumption].
      - apply N.eqb_neq in E; exact E. }
    assert (Hq1 : h_qos m1 = h_qos m) by (subst m1; unfold hm_fill_id; destruct (h_id m =? 0); reflexivity).
    assert (Hc1 : hm_content_eqb m1 m = true).
    { subst m1. unfold hm_fill_id, hm_content_eqb. destruct (h_id m =? 0); cbn [hm_set_id h_qos h_retain h_topic h_payload];
        rewrite N.eqb_refl, Bool.eqb_reflx, !str_eqb_refl; reflexivity. }
    assert (Hidr : (if h_id m =? 0 then negb (h_id m1 =? 0) else h_id m1 =? h_id m) = true).
    { destruct (h_id m =? 0) eqn:E.
      - apply negb_true_iff, N.eqb_neq; exact Hid1.
      - subst m1. unfold hm_fill_id. rewrite E. apply N.eqb_refl. }
    intros H.
    unfold pub_writes in Hw1. unfold pub_outcome in Ho1.
    destruct (bc_inited c) eqn:Ei; cbn [negb] in Hw1, Ho1.
    + rewrite Hq1, Eq in Hw1, Ho1.
      (* the first attempt wrote PUBLISH m1 DUP=0 (and perhaps PUBREL) *)
      set (tail1 := if (h_qos m =? 2) && bh_acked (bc_open c) (ae_pub (bs_env s0))
                    then [WRel (h_id m1) (bh_ok (bc_open c) (ae_rel (bs_env s0)))] else []) in *.
      assert (Hg1 : chain_good m1 tail1 o1).
      { unfold chain_good, tail1. rewrite Ho1. unfold rel_outcome, bh_acked, bh_eff.
        destruct (h_qos m =? 0) eqn:E0.
        - assert (h_qos m =? 2 = false) as -> by lia. cbn [andb later_ok].
          split; [reflexivity|]. destruct (bc_open c); [destruct (ae_pub (bs_env s0))|]; exact I.
        - destruct (h_qos m =? 2) eqn:E2; cbn [andb].
          + assert (h_qos m =? 1 = false) as -> by lia.
            destruct (bc_open c); cbn [andb negb].
            * destruct (ae_pub (bs_env s0)); cbn [later_ok bh_has_rel];
                try (split; [reflexivity|]; repeat split; lia).
              rewrite N.eqb_refl, Hq1, E2. split; [reflexivity|].
              destruct (ae_rel (bs_env s0)); try exact I; (split; [reflexivity | lia]).
            * cbn [later_ok bh_has_rel]. split; [reflexivity|]. repeat split; lia.
          + cbn [later_ok bh_has_rel]. split; [reflexivity|].
            destruct (bc_open c); [destruct (ae_pub (bs_env s0))|]; try (repeat split; lia).
            destruct (h_qos m =? 1) eqn:E1; [exact I | lia]. }
      assert (Hq1' : h_qos m1 <= 2) by lia.
      destruct (run_chain_good m1 Hid1 Hq1' ss w1 o1 1%nat tail1 w' o Hg1 H) as (rest & Hw' & [Hl' _]).
      eexists. split.
      * rewrite Hw', Hw1, <- app_assoc. reflexivity.
      * rewrite map_app, map_map. cbn [snd]. rewrite map_id. cbn [app chain_faithful negb andb].
        rewrite Hc1, Hidr, orb_true_r. cbn [andb]. fold tail1. exact Hl'.
    + (* not connected: nothing written, no handle *)
      rewrite Ho1 in H. cbn [map] in Hw1. rewrite app_nil_r in Hw1.
      destruct ss; cbn [run_chain] in H; injection H as <- <-; exists []; rewrite app_nil_r; split; [exact Hw1 | reflexivity| exact Hw1 | reflexivity].
Qed.

(* "Once the client has sent PUBREL ... only PUBREL with the same identifier; the same holds for the
   retry handle": whatever is run from a PUBREL handle, on any clients, writes only PUBREL packets
   with the message's identifier *)
Theorem handle_after_pubrec_only_pubrel m c ss :
  forall w n w' o,
  run_chain w (BoHandle (BhPubRel m) c) n ss = (w', o) ->
  exists rest, bw_wire w' = bw_wire w ++ rest /\
    (forall x, In x rest -> exists k ok, x = (k, WRel (h_id m) ok)) /\
    (o = BoDone \/ o = BoNotConnected \/ exists c', o = BoHandle (BhPubRel m) c').
Proof.
  revert c; induction ss as [|s ss IH]; intros c w n w' o H.
  - cbn [run_chain] in H. injection H as <- <-. exists []. rewrite app_nil_r.
    split; [reflexivity|]. split; [intros x []|]. right; right; eexists; reflexivity.
  - cbn [run_chain run_handle] in H.
    destruct (rel_attempt (bh_apply_ops w (bs_k s) (bs_ops s)) (bs_k s) m n (ae_rel (bs_env s))) as [w1 o1] eqn:Er.
    apply rel_attempt_frame in Er. cbn zeta in Er. destruct Er as (Hw1 & Ho1).
    rewrite bh_apply_ops_wire in Hw1.
    set (cl := bw_get (bh_apply_ops w (bs_k s) (bs_ops s)) (bs_k s)) in *.
    assert (Hin1 : forall x, In x (map (pair (bs_k s)) (handle_writes (BhPubRel m) (bc_inited cl) (bc_open cl)
                      {| ae_pub := SAck; ae_rel := ae_rel (bs_env s) |})) -> exists k ok, x = (k, WRel (h_id m) ok)).
    { unfold handle_writes. destruct (bc_inited cl); cbn [negb map In]; [|intros x []].
      intros x [<-|[]]. eexists _, _. reflexivity. }
    unfold rel_outcome in Ho1.
    destruct (bc_inited cl) eqn:Ei; cbn [negb] in Ho1.
    + destruct (bh_eff (bc_open cl) (ae_rel (bs_env s))) eqn:Ee; subst o1.
      1-3: (destruct (IH _ _ _ _ _ H) as (rest & Hw' & Hall & Hout);
            eexists; split; [rewrite Hw', Hw1, <- app_assoc; reflexivity|];
            split; [|exact Hout];
            intros x Hx; apply in_app_or in Hx; destruct Hx as [Hx|Hx]; [apply Hin1; exact Hx | apply Hall; exact Hx]).
      destruct ss; cbn [run_chain] in H; injection H as <- <-;
        (eexists; split; [exact Hw1|]; split; [exact Hin1 | left; reflexivity]).
    + subst o1. destruct ss; cbn [run_chain] in H; injection H as <- <-;
        (eexists; split; [exact Hw1|]; split; [exact Hin1 | right; left; reflexivity]).
Qed.

(* "QoS 0 messages are never retransmitted": a QoS 0 Publish never returns a handle *)
Theorem qos0_no_handle w k m fresh owner env w' m' o :
  h_qos m = 0 -> base_publish w k m fresh owner env = (w', m', o) -> forall h c, o <> BoHandle h c.
Proof.
  intros Hq. unfold base_publish. rewrite Hq. cbn [N.ltb N.compare].
  intros H. apply pub_attempt_frame in H. cbn zeta in H. destruct H as (Hm & _ & Ho). rewrite <- Hm in Ho.
  assert (h_qos m' = 0) as Hq' by (subst m'; unfold hm_fill_id; destruct (h_id m =? 0); exact Hq).
  unfold pub_outcome in Ho. rewrite Hq' in Ho. cbn [N.ltb N.compare N.eqb] in Ho.
  intros h c ->. destruct (bc_inited (bw_get w k)); cbn [negb] in Ho; [|discriminate].
  destruct (bh_eff (bc_open (bw_get w k)) (ae_pub env)); discriminate.
Qed.

(* Publish validates first: Pack's panic on an invalid QoS is unreachable through the API, also
   through any handle Publish returned (the handle's message has the same QoS) *)
Theorem base_publish_never_panics w k m fresh owner env w' m' o :
  base_publish w k m fresh owner env = (w', m', o) -> o <> BoPanic.
Proof.
  unfold base_publish. destruct (2 <? h_qos m) eqn:E; [intros H; injection H as <- <- <-; discriminate|].
  intros H. apply pub_attempt_frame in H. cbn zeta in H. destruct H as (Hm & _ & Ho). rewrite <- Hm in Ho.
  assert (h_qos m' = h_qos m) as Hq' by (subst m'; unfold hm_fill_id; destruct (h_id m =? 0); reflexivity).
  unfold pub_outcome, rel_outcome in Ho. rewrite Hq', E in Ho. intros ->.
  destruct (bc_inited (bw_get w k)); cbn [negb] in Ho; [|discriminate].
  destruct (h_qos m =? 0); [destruct (bh_eff _ _); discriminate|].
  destruct (bh_eff (bc_open (bw_get w k)) (ae_pub env)); try discriminate.
  destruct (h_qos m =? 1); [discriminate|]. cbn [negb] in Ho.
  destruct (bh_eff (bc_open (bw_get w k)) (ae_rel env)); discriminate.
Qed.

(* ---------- what an attempt does to the signaller of the client it runs on ---------- *)
Definition same_but (w w' : bworld) (k : nat) (i : N) : Prop :=
  (forall k', k' <> k -> bw_get w' k' = bw_get w k')
  /\ (forall kd j, j <> i -> am_get j (bc_map (bw_get w' k) kd) = am_get j (bc_map (bw_get w k) kd))
  /\ (forall k', bc_inited (bw_get w' k') = bc_inited (bw_get w k')).

Lemma same_but_refl w k i : same_but w w k i.
Proof. repeat split; reflexivity. Qed.

Lemma same_but_trans w1 w2 w3 k i : same_but w1 w2 k i -> same_but w2 w3 k i -> same_but w1 w3 k i.
Proof.
  intros (A1 & B1 & C1) (A2 & B2 & C2). repeat split.
  - intros k' Hk. rewrite A2, A1 by exact Hk. reflexivity.
  - intros kd j Hj. rewrite B2, B1 by exact Hj. reflexivity.
  - intros k'. rewrite C2, C1. reflexivity.
Qed.

Lemma bc_reg_get_other kd i o c kd' j :
  kd' <> kd \/ j <> i -> am_get j (bc_map (bc_reg kd i o c) kd') = am_get j (bc_map c kd').
Proof.
  intros H. unfold bc_reg.
  destruct kd, kd'; try (rewrite bc_map_set_other by discriminate; reflexivity);
    (rewrite bc_map_set_same; apply am_get_set_other; destruct H as [H|H]; [congruence | exact H]).
Qed.

Lemma bc_unreg_get_other kd i c kd' j :
  kd' <> kd \/ j <> i -> am_get j (bc_map (bc_unreg kd i c) kd') = am_get j (bc_map c kd').
Proof.
  intros H. unfold bc_unreg.
  destruct kd, kd'; try (rewrite bc_map_set_other by discriminate; reflexivity);
    (rewrite bc_map_set_same; apply am_get_remove_other; destruct H as [H|H]; [congruence | exact H]).
Qed.

Lemma same_but_reg w k kd i o : bc_inited (bw_get w k) = true -> same_but w (bw_upd w k (bc_reg kd i o)) k i.
Proof.
  intros Hi. repeat split.
  - intros k' Hk. apply bw_get_upd_other. congruence.
  - intros kd' j Hj. rewrite bw_get_upd_same by exact Hi. apply bc_reg_get_other. right; exact Hj.
  - intros k'. apply bw_get_upd_inited. intros; apply bc_reg_inited.
Qed.

Lemma same_but_unreg w k kd i : bc_inited (bw_get w k) = true -> same_but w (bw_upd w k (bc_unreg kd i)) k i.
Proof.
  intros Hi. repeat split.
  - intros k' Hk. apply bw_get_upd_other. congruence.
  - intros kd' j Hj. rewrite bw_get_upd_same by exact Hi. apply bc_unreg_get_other. right; exact Hj.
  - intros k'. apply bw_get_upd_inited. intros; apply bc_unreg_inited.
Qed.

Lemma same_but_write w k mk e w' r i : bh_write w k mk e = (w', r) -> same_but w w' k i.
Proof.
  intros H. apply bh_write_spec in H. destruct H as (_ & _ & Hin & _ & Hoth & Hmaps).
  repeat split.
  - exact Hoth.
  - intros kd j _. rewrite Hmaps. reflexivity.
  - exact Hin.
Qed.

(* value registered under identifier i in map kd of client k *)
Definition reg_val (w : bworld) (k : nat) (kd : wkind) (i : N) : option nat := am_get i (bc_map (bw_get w k) kd).

Lemma reg_val_reg w k kd i o : bc_inited (bw_get w k) = true -> reg_val (bw_upd w k (bc_reg kd i o)) k kd i = Some o.
Proof.
  intros Hi. unfold reg_val. rewrite bw_get_upd_same by exact Hi. unfold bc_reg. rewrite bc_map_set_same. apply am_get_set_same.
Qed.
Lemma reg_val_unreg w k kd i : bc_inited (bw_get w k) = true -> reg_val (bw_upd w k (bc_unreg kd i)) k kd i = None.
Proof.
  intros Hi. unfold reg_val. rewrite bw_get_upd_same by exact Hi. unfold bc_unreg. rewrite bc_map_set_same. apply am_get_remove_same.
Qed.
Lemma reg_val_reg_other w k kd kd' i i' o :
  kd' <> kd -> bc_inited (bw_get w k) = true -> reg_val (bw_upd w k (bc_reg kd i o)) k kd' i' = reg_val w k kd' i'.
Proof.
  intros Hk Hi. unfold reg_val. rewrite bw_get_upd_same by exact Hi. apply bc_reg_get_other. left; exact Hk.
Qed.
Lemma reg_val_unreg_other w k kd kd' i i' :
  kd' <> kd -> bc_inited (bw_get w k) = true -> reg_val (bw_upd w k (bc_unreg kd i)) k kd' i' = reg_val w k kd' i'.
Proof.
  intros Hk Hi. unfold reg_val. rewrite bw_get_upd_same by exact Hi. apply bc_unreg_get_other. left; exact Hk.
Qed.
Lemma reg_val_write w k mk e w' r kd i : bh_write w k mk e = (w', r) -> reg_val w' k kd i = reg_val w k kd i.
Proof.
  intros H. apply bh_write_spec in H. destruct H as (_ & _ & _ & _ & _ & Hmaps). unfold reg_val. rewrite Hmaps. reflexivity.
Qed.
Lemma inited_write w k mk e w' r k' : bh_write w k mk e = (w', r) -> bc_inited (bw_get w' k') = bc_inited (bw_get w k').
Proof. intros H. apply bh_write_spec in H. destruct H as (_ & _ & Hin & _). apply Hin. Qed.

Lemma rel_attempt_effect w k m owner e w' o :
  rel_attempt w k m owner e = (w', o) ->
  same_but w w' k (h_id m)
  /\ (forall kd i, kd <> WkComp -> reg_val w' k kd i = reg_val w k kd i)
  /\ (bc_inited (bw_get w k) = true ->
      reg_val w' k WkComp (h_id m) = match o with BoDone => None | _ => Some owner end).
Proof.
  unfold rel_attempt. destruct (bc_inited (bw_get w k)) eqn:Ei; cbn [negb].
  - set (w0 := bw_upd w k (bc_reg WkComp (h_id m) owner)).
    assert (Hi0 : bc_inited (bw_get w0 k) = true)
      by (unfold w0; rewrite bw_get_upd_inited by (intros; apply bc_reg_inited); exact Ei).
    destruct (bh_write w0 k (WRel (h_id m)) e) as [w1 r] eqn:Ew.
    assert (Hi1 : bc_inited (bw_get w1 k) = true) by (rewrite (inited_write _ _ _ _ _ _ k Ew); exact Hi0).
    pose proof (same_but_reg w k WkComp (h_id m) owner Ei) as S0. fold w0 in S0.
    pose proof (same_but_write _ _ _ _ _ _ (h_id m) Ew) as S1.
    pose proof (same_but_trans _ _ _ _ _ S0 S1) as S01.
    assert (V1 : reg_val w1 k WkComp (h_id m) = Some owner)
      by (rewrite (reg_val_write _ _ _ _ _ _ _ _ Ew); unfold w0; apply reg_val_reg; exact Ei).
    assert (O1 : forall kd i, kd <> WkComp -> reg_val w1 k kd i = reg_val w k kd i).
    { intros kd i Hk. rewrite (reg_val_write _ _ _ _ _ _ _ _ Ew). unfold w0. apply reg_val_reg_other; assumption. }
    destruct r; intros H; injection H as <- <-; try (split; [exact S01|]; split; [exact O1 | intros _; exact V1]).
    split; [exact (same_but_trans _ _ _ _ _ S01 (same_but_unreg w1 k WkComp (h_id m) Hi1))|].
    split.
    + intros kd i Hk. rewrite reg_val_unreg_other by assumption. apply O1; exact Hk.
    + intros _. apply reg_val_unreg; exact Hi1.
  - intros H; injection H as <- <-. split; [apply same_but_refl|]. split; [reflexivity | discriminate].
Qed.

Lemma pub_attempt_effect w k m0 dup fresh owner env w' m o :
  pub_attempt w k m0 dup fresh owner env = (w', m, o) ->
  same_but w w' k (h_id m)
  /\ (bc_inited (bw_get w k) = true -> 1 <= h_qos m <= 2 ->
      let kd := if h_qos m =? 1 then WkAck else WkRec in
      reg_val w' k kd (h_id m) = Some owner \/ reg_val w' k kd (h_id m) = None).
Proof.
  unfold pub_attempt. set (m1 := hm_fill_id m0 fresh).
  destruct (bc_inited (bw_get w k)) eqn:Ei; cbn [negb];
    [| intros H; injection H as <- <- <-; split; [apply same_but_refl | discriminate]].
  destruct (2 <? h_qos m1) eqn:E2;
    [intros H; injection H as <- <- <-; split; [apply same_but_refl | intros _ Hq; lia]|].
  destruct (h_qos m1 =? 1) eqn:E1.
  - (* QoS 1 *)
    set (w0 := bw_upd w k (bc_reg WkAck (h_id m1) owner)).
    assert (Hi0 : bc_inited (bw_get w0 k) = true)
      by (unfold w0; rewrite bw_get_upd_inited by (intros; apply bc_reg_inited); exact Ei).
    destruct (bh_write w0 k (WPub m1 dup) (ae_pub env)) as [w1 r] eqn:Ew.
    assert (Hi1 : bc_inited (bw_get w1 k) = true) by (rewrite (inited_write _ _ _ _ _ _ k Ew); exact Hi0).
    pose proof (same_but_reg w k WkAck (h_id m1) owner Ei) as S0. fold w0 in S0.
    pose proof (same_but_trans _ _ _ _ _ S0 (same_but_write _ _ _ _ _ _ (h_id m1) Ew)) as S01.
    assert (V1 : reg_val w1 k WkAck (h_id m1) = Some owner)
      by (rewrite (reg_val_write _ _ _ _ _ _ _ _ Ew); unfold w0; apply reg_val_reg; exact Ei).
    assert (h_qos m1 =? 0 = false) as -> by lia.
    destruct r; intros H; injection H as <- <- <-; rewrite ?E1; cbn zeta;
      try (split; [exact S01 | intros _ _; left; exact V1]).
    split; [exact (same_but_trans _ _ _ _ _ S01 (same_but_unreg w1 k WkAck (h_id m1) Hi1))|].
    intros _ _. right. apply reg_val_unreg; exact Hi1.
  - destruct (h_qos m1 =? 2) eqn:E22.
    + (* QoS 2 *)
      set (w0 := bw_upd w k (bc_reg WkRec (h_id m1) owner)).
      assert (Hi0 : bc_inited (bw_get w0 k) = true)
        by (unfold w0; rewrite bw_get_upd_inited by (intros; apply bc_reg_inited); exact Ei).
      destruct (bh_write w0 k (WPub m1 dup) (ae_pub env)) as [w1 r] eqn:Ew.
      assert (Hi1 : bc_inited (bw_get w1 k) = true) by (rewrite (inited_write _ _ _ _ _ _ k Ew); exact Hi0).
      pose proof (same_but_reg w k WkRec (h_id m1) owner Ei) as S0. fold w0 in S0.
      pose proof (same_but_trans _ _ _ _ _ S0 (same_but_write _ _ _ _ _ _ (h_id m1) Ew)) as S01.
      assert (V1 : reg_val w1 k WkRec (h_id m1) = Some owner)
        by (rewrite (reg_val_write _ _ _ _ _ _ _ _ Ew); unfold w0; apply reg_val_reg; exact Ei).
      assert (h_qos m1 =? 0 = false) as -> by lia.
      destruct r; try (intros H; injection H as <- <- <-; rewrite ?E1; cbn zeta;
        split; [exact S01 | intros _ _; left; exact V1]).
      set (w2 := bw_upd w1 k (bc_unreg WkRec (h_id m1))).
      assert (Hi2 : bc_inited (bw_get w2 k) = true)
        by (unfold w2; rewrite bw_get_upd_inited by (intros; apply bc_unreg_inited); exact Hi1).
      destruct (rel_attempt w2 k m1 owner (ae_rel env)) as [w3 o3] eqn:Er.
      apply rel_attempt_effect in Er. destruct Er as (S23 & O23 & _).
      intros H; injection H as <- <- <-. rewrite E1. cbn zeta.
      split.
      * exact (same_but_trans _ _ _ _ _ (same_but_trans _ _ _ _ _ S01 (same_but_unreg w1 k WkRec (h_id m1) Hi1)) S23).
      * intros _ _. right. rewrite O23 by discriminate. unfold w2. apply reg_val_unreg; exact Hi1.
    + (* QoS 0: nothing registered *)
      assert (h_qos m1 =? 0 = true) as -> by lia.
      destruct (bh_write w k (WPub m1 dup) (ae_pub env)) as [w1 r] eqn:Ew.
      pose proof (same_but_write _ _ _ _ _ _ (h_id m1) Ew) as S1.
      destruct r; intros H; injection H as <- <- <-; (split; [exact S1 | intros _ Hq; lia]).
Qed.

(* When the handle runs on a client on which ANOTHER request (tag o') is waiting under the same
   identifier in the same signaller map, that request's waiter is replaced (sig.chXxx[id] = ch,
   publish.go:155/163/207): afterwards the entry is the handle's own or, once the acknowledgement
   was consumed, gone — the other request can no longer be signalled. The packets the handle writes
   are not affected (run_handle_frame). Uniqueness of identifiers among outstanding requests is C15's
   subject, the routing of acknowledgements C07's; this lemma only records what the code does. *)
Theorem handle_collision_overwrites w k h fresh owner env w' m o o' :
  h_id (bh_msg h) <> 0 -> 1 <= h_qos (bh_msg h) <= 2 ->
  bc_inited (bw_get w k) = true ->
  reg_val w k (handle_kind h) (h_id (bh_msg h)) = Some o' -> o' <> owner ->
  run_handle w k h fresh owner env = (w', m, o) ->
  reg_val w' k (handle_kind h) (h_id (bh_msg h)) <> Some o'.
Proof.
  intros Hid Hq Hi _ Hne H. destruct h as [mh|mh]; cbn [run_handle bh_msg handle_kind] in *.
  - assert (hm_fill_id mh fresh = mh) as Hf.
    { unfold hm_fill_id. destruct (h_id mh =? 0) eqn:E; [apply N.eqb_eq in E; contradiction | reflexivity]. }
    pose proof (pub_attempt_frame _ _ _ _ _ _ _ _ _ _ H) as (Hm & _). rewrite Hf in Hm. subst m.
    apply pub_attempt_effect in H. destruct H as (_ & Hv). specialize (Hv Hi Hq). cbn zeta in Hv.
    destruct Hv as [Hv|Hv]; rewrite Hv; congruence.
  - destruct (rel_attempt w k mh owner (ae_rel env)) as [w1 o1] eqn:Er. injection H as <- <- <-.
    apply rel_attempt_effect in Er. destruct Er as (_ & _ & Hv). rewrite (Hv Hi).
    destruct o1; congruence.
Qed.

(* waiters registered under OTHER identifiers (any map) and other clients are not touched *)
Theorem handle_other_ids_untouched w k h fresh owner env w' m o :
  h_id (bh_msg h) <> 0 ->
  run_handle w k h fresh owner env = (w', m, o) ->
  (forall kd j, j <> h_id (bh_msg h) -> reg_val w' k kd j = reg_val w k kd j)
  /\ (forall k', k' <> k -> bw_get w' k' = bw_get w k').
Proof.
  intros Hid H. destruct h as [mh|mh]; cbn [run_handle bh_msg] in *.
  - assert (hm_fill_id mh fresh = mh) as Hf.
    { unfold hm_fill_id. destruct (h_id mh =? 0) eqn:E; [apply N.eqb_eq in E; contradiction | reflexivity]. }
    pose proof (pub_attempt_frame _ _ _ _ _ _ _ _ _ _ H) as (Hm & _). rewrite Hf in Hm. subst m.
    apply pub_attempt_effect in H. destruct H as ((A & B & _) & _). split; [exact B | exact A].
  - destruct (rel_attempt w k mh owner (ae_rel env)) as [w1 o1] eqn:Er. injection H as <- <- <-.
    apply rel_attempt_effect in Er. destruct Er as ((A & B & _) & _). split; [exact B | exact A].
Qed.

(* ---------- a stray acknowledgement is inert on the wire ---------- *)
(* A late / duplicate PUBACK, PUBREC, PUBCOMP (SUBACK, UNSUBACK) processed by the reader while no call
   waits for it writes nothing, changes no flag, and on the signaller is the operation [MUnreg]: so a
   chain of attempts with any number of stray acknowledgements in the gaps between attempts is a
   [publish_chain] with those [MUnreg]s in [bs_ops], and handle_chain_faithful applies to it — the
   whole wire of the connection, reader included, is faithful. *)
Theorem stray_ack_inert w k kd i :
  bw_wire (serve_stray_ack w k kd i) = bw_wire w
  /\ (forall k', bc_inited (bw_get (serve_stray_ack w k kd i) k') = bc_inited (bw_get w k')
              /\ bc_open (bw_get (serve_stray_ack w k kd i) k') = bc_open (bw_get w k'))
  /\ (bc_inited (bw_get w k) = true -> serve_stray_ack w k kd i = bh_apply_ops w k [MUnreg kd i]).
Proof.
  unfold serve_stray_ack. destruct (bc_inited (bw_get w k)) eqn:Ei.
  - split; [reflexivity|]. split.
    + intros k'. split; [apply bw_get_upd_inited | apply bw_get_upd_open]; intros; [apply bc_unreg_inited | apply bc_unreg_open].
    + intros _. reflexivity.
  - split; [reflexivity|]. split; [intros k'; split; reflexivity | discriminate].
Qed.

(* ---------- non-vacuity ---------- *)
(* QoS 2 message with a caller-provided identifier 42. Client 0: PUBLISH written, connection closed
   while waiting for PUBREC. Client 1 (another QoS 2 publish, tag 100, is waiting for PUBREC under
   identifier 42, a SUBSCRIBE, tag 101, for SUBACK under 42): the handle re-sends PUBLISH DUP=1 under
   42, PUBREC arrives, PUBREL written, ctx done. Client 2 (a publish, tag 102, waits for PUBCOMP under
   42): PUBREL fails to be written. Client 2 again: PUBREL, PUBCOMP. *)
Definition ex_msg : hmsg := {| h_id := 42; h_qos := 2; h_retain := true; h_topic := [97]; h_payload := [1; 2] |}.
Definition ex_world : bworld := {| bw_clients := [bc_fresh true; bc_fresh true; bc_fresh true]; bw_wire := [] |}.
Definition ex_steps : list bstep :=
  [ {| bs_k := 1; bs_ops := [MReg WkRec 42 100; MReg WkSub 42 101]; bs_fresh := 7; bs_env := {| ae_pub := SAck; ae_rel := SCtx |} |};
    {| bs_k := 2; bs_ops := [MReg WkComp 42 102]; bs_fresh := 8; bs_env := {| ae_pub := SAck; ae_rel := SWriteFail |} |};
    {| bs_k := 2; bs_ops := []; bs_fresh := 9; bs_env := {| ae_pub := SAck; ae_rel := SAck |} |} ].
Definition ex_first : bstep := {| bs_k := 0; bs_ops := []; bs_fresh := 5; bs_env := {| ae_pub := SClosed; ae_rel := SAck |} |}.

Example ex_chain :
  let '(w, o) := publish_chain ex_world ex_msg ex_first ex_steps in
  map snd (bw_wire w) = [WPub ex_msg false true; WPub ex_msg true true; WRel 42 true; WRel 42 false; WRel 42 true]
  /\ o = BoDone
  /\ reg_val w 1 WkRec 42 = None          (* the other publish's PUBREC waiter is gone *)
  /\ reg_val w 1 WkSub 42 = Some 101%nat  (* the SUBSCRIBE waiter (another map) is untouched *)
  /\ reg_val w 2 WkComp 42 = None.
Proof. vm_compute. repeat split; reflexivity. Qed.

(* the hypothesis of handle_chain_faithful holds for a library-numbered message as well *)
Example ex_chain_lib :
  let m := hm_set_id ex_msg 0 in
  let '(w, o) := publish_chain ex_world m ex_first ex_steps in
  chain_faithful m (map snd (bw_wire w)) = true /\ length (bw_wire w) = 5%nat.
Proof. vm_compute. split; reflexivity. Qed.

(* hypotheses of handle_collision_overwrites *)
Example ex_collision :
  let w := bh_apply_ops ex_world 1 [MReg WkRec 42 100] in
  reg_val w 1 (handle_kind (BhPublish ex_msg)) 42 = Some 100%nat
  /\ let '(w', _, o) := run_handle w 1 (BhPublish ex_msg) 7 1%nat {| ae_pub := SCtx; ae_rel := SAck |} in
     reg_val w' 1 WkRec 42 = Some 1%nat /\ o = BoHandle (BhPublish ex_msg) HcCtx.
Proof. vm_compute. repeat split; reflexivity. Qed.
