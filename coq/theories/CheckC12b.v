(* CheckC12b.v — executable comparison functions for the base-client retry-handle family of C12
   (harness/c12_base.go). A case = (scenario, observation):
   scenario    = clients (connected or not), the message as passed to Publish, the planned attempts
                 (first Publish, then Retry of each returned handle): target client, what other
                 requests registered on that client just before, the identifier newID would hand out,
                 the scripted environment; and the other requests that were set up;
   observation = per executed attempt: the PUBLISH / PUBREL Write calls made on the target's transport
                 during the call, those made on it afterwards while late / duplicate acknowledgements
                 were delivered (written by the reader goroutine), how the call ended, Message.ID
                 afterwards; and what became of every other request at the end.
   V_handle: [c12b_ok] — the property predicate [RetryHandle.chain_faithful] (the one proved of the
             model in RetryHandle_proofs.handle_chain_faithful) on what the implementation wrote.
   M_handle: [c12b_model_ok] — the model run on the scenario gives exactly the observation. *)
From MQ Require Import Base RetryHandle.
Open Scope N_scope.

Record hscen := {
  hc_clients : list bool;                      (* client i: Connect ran? (all open, empty signaller) *)
  hc_msg : hmsg;                               (* the message as the caller passed it (ID may be 0) *)
  hc_first : bstep;
  hc_rest : list bstep;
  hc_others : list (nat * nat * wkind * N)     (* other request: tag, client, map it finally waits in, identifier *)
}.

Record hatt := {
  ha_wire : list wev;      (* Write calls for PUBLISH / PUBREL on the target during the call *)
  ha_gap : list wev;       (* PUBLISH / PUBREL written on that connection AFTER the call returned, while the peer
                              delivered late / duplicate acknowledgements for the identifier (i.e. by the reader) *)
  ha_class : N;            (* 0 nil, 1 ErrorWithRetry, 2 plain error after a failed write, 3 ErrNotConnected,
                              4 ErrInvalidQoS, 5 panic, 6 did not return, 7 any other error *)
  ha_cause : N;            (* of an ErrorWithRetry: 1 write error, 2 ErrClosedTransport, 3 context; else 0 *)
  ha_id : N                (* Message.ID after the call *)
}.

Record hobs := {
  ho_atts : list hatt;
  ho_fates : list N        (* per other request: 1 = returned nil once its acknowledgement was sent,
                              2 = never signalled (returned its own ErrorWithRetry), 3 = anything else *)
}.

(* ---------- compact constructors used by the generated cases ---------- *)
Definition hbM (i q : N) (r : bool) (t p : str) : hmsg :=
  {| h_id := i; h_qos := q; h_retain := r; h_topic := t; h_payload := p |}.
Definition hbP (i q : N) (r d ok : bool) (t p : str) : wev := WPub (hbM i q r t p) d ok.
Definition hbR (i : N) (ok : bool) : wev := WRel i ok.
Definition hb_senv (c : N) : senv :=
  match c with 0 => SWriteFail | 1 => SClosed | 2 => SCtx | _ => SAck end.
Definition hbS (k : nat) (ops : list bmop) (fresh ep er : N) : bstep :=
  {| bs_k := k; bs_ops := ops; bs_fresh := fresh; bs_env := {| ae_pub := hb_senv ep; ae_rel := hb_senv er |} |}.
Definition hb_kind (c : N) : wkind :=
  match c with 0 => WkAck | 1 => WkRec | 2 => WkComp | 3 => WkSub | _ => WkUnsub end.
Definition hbReg (kd i : N) (o : nat) : bmop := MReg (hb_kind kd) i o.
Definition hbUnreg (kd i : N) : bmop := MUnreg (hb_kind kd) i.
Definition hbA (w g : list wev) (cl ca i : N) : hatt := {| ha_wire := w; ha_gap := g; ha_class := cl; ha_cause := ca; ha_id := i |}.
Definition hbO (o k : nat) (kd i : N) : nat * nat * wkind * N := (o, k, hb_kind kd, i).

(* ---------- equality tests ---------- *)
Definition wev_eqb (a b : wev) : bool :=
  match a, b with
  | WPub m d ok, WPub m' d' ok' => hmsg_eqb m m' && Bool.eqb d d' && Bool.eqb ok ok'
  | WRel i ok, WRel i' ok' => (i =? i') && Bool.eqb ok ok'
  | _, _ => false
  end.
Definition hatt_eqb (a b : hatt) : bool :=
  list_eqb wev_eqb (ha_wire a) (ha_wire b) && list_eqb wev_eqb (ha_gap a) (ha_gap b) && (ha_class a =? ha_class b) && (ha_cause a =? ha_cause b)
  && (ha_id a =? ha_id b).
Definition hobs_eqb (a b : hobs) : bool :=
  list_eqb hatt_eqb (ho_atts a) (ho_atts b) && list_eqb N.eqb (ho_fates a) (ho_fates b).

(* ---------- the model run on a scenario ---------- *)
(* a QoS 0 PUBLISH carries no identifier on the wire *)
Definition wev_norm (e : wev) : wev :=
  match e with
  | WPub m d ok => if h_qos m =? 0 then WPub (hm_set_id m 0) d ok else e
  | _ => e
  end.

Definition hb_class (o : boutcome) : N * N :=
  match o with
  | BoDone => (0, 0)
  | BoHandle _ HcWrite => (1, 1)
  | BoHandle _ HcClosed => (1, 2)
  | BoHandle _ HcCtx => (1, 3)
  | BoPlainErr => (2, 0)
  | BoNotConnected => (3, 0)
  | BoInvalidQoS => (4, 0)
  | BoPanic => (5, 0)
  end.

Definition hb_att (w0 w1 : bworld) (m : hmsg) (o : boutcome) : hatt :=
  {| ha_wire := map (fun x => wev_norm (snd x)) (skipn (length (bw_wire w0)) (bw_wire w1));
     ha_gap := [];   (* the reader writes nothing for a stray acknowledgement: RetryHandle.serve_stray_ack *)
     ha_class := fst (hb_class o); ha_cause := snd (hb_class o); ha_id := h_id m |}.

Fixpoint hb_chain (w : bworld) (o : boutcome) (n : nat) (ss : list bstep) : bworld * list hatt :=
  match ss with
  | [] => (w, [])
  | s :: r =>
      match o with
      | BoHandle h _ =>
          let w0 := bh_apply_ops w (bs_k s) (bs_ops s) in
          let '(w1, m, o1) := run_handle w0 (bs_k s) h (bs_fresh s) n (bs_env s) in
          let '(w2, l) := hb_chain w1 o1 (S n) r in
          (w2, hb_att w0 w1 m o1 :: l)
      | _ => (w, [])
      end
  end.

Definition hb_world (sc : hscen) : bworld := {| bw_clients := map bc_fresh (hc_clients sc); bw_wire := [] |}.

Definition hb_fate (w : bworld) (x : nat * nat * wkind * N) : N :=
  let '(o, k, kd, i) := x in
  let c := bw_get w k in
  if negb (bc_open c) then 2
  else match am_get i (bc_map c kd) with
       | Some o' => if Nat.eqb o o' then 1 else 2
       | None => 2
       end.

Definition hb_model (sc : hscen) : hobs :=
  let s0 := hc_first sc in
  let w0 := bh_apply_ops (hb_world sc) (bs_k s0) (bs_ops s0) in
  let '(w1, m, o1) := base_publish w0 (bs_k s0) (hc_msg sc) (bs_fresh s0) 0%nat (bs_env s0) in
  let '(w2, l) := hb_chain w1 o1 1%nat (hc_rest sc) in
  {| ho_atts := hb_att w0 w1 m o1 :: l; ho_fates := map (hb_fate w2) (hc_others sc) |}.

(* the chain of RetryHandle.publish_chain and the per-attempt run above are the same run
   (RetryHandle_proofs is about publish_chain; checked here on every case as part of M_handle) *)
Definition hb_same_run (sc : hscen) : bool :=
  let '(w, _) := publish_chain (hb_world sc) (hc_msg sc) (hc_first sc) (hc_rest sc) in
  list_eqb wev_eqb (map (fun x => wev_norm (snd x)) (bw_wire w)) (concat (map ha_wire (ho_atts (hb_model sc)))).

Definition c12b_model_ok (c : hscen * hobs) : bool :=
  let '(sc, ob) := c in hobs_eqb (hb_model sc) ob && hb_same_run sc.

(* ---------- the property on what the implementation did ---------- *)
Definition hb_first_pub_id (l : list wev) : option N :=
  match l with
  | WPub m _ _ :: _ => if h_qos m =? 0 then None else Some (h_id m)
  | _ => None
  end.

Fixpoint hb_gaps_ok (phase2 : bool) (atts : list hatt) : bool :=
  match atts with
  | [] => true
  | a :: r =>
      let phase2 := phase2 || bh_has_rel (ha_wire a) in
      forallb (fun e => match e with WRel _ _ => phase2 | WPub _ _ _ => false end) (ha_gap a)
      && hb_gaps_ok phase2 r
  end.

Definition c12b_ok (c : hscen * hobs) : bool :=
  let '(sc, ob) := c in
  let atts := ho_atts ob in
  (* everything written for the message on the connections, in time order, reader included *)
  let wire := concat (map (fun a => ha_wire a ++ ha_gap a) atts) in
  let id0 := match atts with a :: _ => ha_id a | [] => 0 end in
  chain_faithful (hc_msg sc) wire
  (* outside a call nothing is transmitted for the message, except PUBREL once the request is in its
     second phase (evidenced by a call having written PUBREL before) *)
  && hb_gaps_ok false atts
  (* the caller's Message.ID: the caller's own if it gave one, never changed by a retry, and the one on the wire *)
  && forallb (fun a => (ha_class a =? 6) || (ha_id a =? id0)) atts
  && ((h_id (hc_msg sc) =? 0) || (id0 =? h_id (hc_msg sc)) || match atts with a :: _ => ha_class a =? 6 | [] => true end)
  && match hb_first_pub_id wire with Some i => (i =? id0) | None => true end
  (* no call panicked *)
  && forallb (fun a => negb (ha_class a =? 5)) atts.

Definition hb_failing (p : hscen * hobs -> bool) (l : list (hscen * hobs)) : list nat :=
  indices_where (fun c => negb (p c)) l.
