(* CheckC11.v — executable comparison for C11: what the harness observed on the real client against
   (V) the property predicate and (M) the model of Calls.v. Scenarios cross the boundary as small codes. *)
From MQ Require Import Base Calls.
Open Scope N_scope.

Definition dec_call (n : N) : option call :=
  match n with
  | 0 => Some CConnect | 1 => Some CPub0 | 2 => Some CPub1 | 3 => Some CPub2 | 4 => Some CSub
  | 5 => Some CUnsub | 6 => Some CPing | 7 => Some CDisconnect | 8 => Some CRetryPing
  | 9 => Some CRPub1 | 10 => Some CRPub1x | 11 => Some CRPub2 | 12 => Some CRPub2x | 13 => Some CRRel
  | 14 => Some CRRelx | 15 => Some CRSub | 16 => Some CRSubx | 17 => Some CRUnsub | 18 => Some CRUnsubx
  | _ => None
  end.

Definition dec_point (n : N) : option point :=
  match n with 0 => Some PEntry | 1 => Some PBefore | 2 => Some PWait1 | 3 => Some PWait2 | 4 => Some PInWrite | _ => None end.

Definition dec_cause (n : N) : option cause :=
  match n with
  | 0 => Some CtxCancel | 1 => Some CtxDeadline | 2 => Some LocalClose | 3 => Some LocalDisconnect
  | 4 => Some PeerClose | 5 => Some Malformed | 6 => Some ReadFails | _ => None
  end.

(* 0 stuck, 1 nil, 2 the context's error, 3 ErrClosedTransport, 4 the transport's write error, 5 other, 6 panic *)
Definition dec_res (n : N) : rclass :=
  match n with 0 => KBlocked | 1 => KNil | 2 => KCtx | 3 => KClosed | 4 => KWrite | _ => KOther end.

(* ---------- matrix cells ---------- *)
(* call, point, cause, result, retryable, Done() closed, reader gone, F14 shape seen,
   library goroutines left after cleanup, an auxiliary blocking call never returned *)
Definition c11_cell_case := (N * N * N * N * bool * bool * bool * bool * bool * bool)%type.

Definition has_outcome (o : outcome) (l : list (option outcome)) : bool :=
  existsb (option_eqb outcome_eqb (Some o)) l.

(* the property on the observation *)
Definition c11_cell_v (k : c11_cell_case) : bool :=
  let '(c, p, z, r, retry, done, rexit, f14, leak, aux) := k in
  match dec_call c, dec_point p, dec_cause z with
  | Some c, Some p, Some z =>
      let o := mkO (dec_res r) retry done rexit in
      negb leak && negb aux && valid c p z &&
      (* F14 (known finding) may only show in the cells where the model says so; in those cells the
         call must still come back with the right result once the lock holder has ended *)
      (is_f14 p z || negb f14) && ok_outcome c z o
  | _, _, _ => false
  end.

(* model = implementation *)
Definition c11_cell_m (k : c11_cell_case) : bool :=
  let '(c, p, z, r, retry, done, rexit, f14, leak, aux) := k in
  match dec_call c, dec_point p, dec_cause z with
  | Some c, Some p, Some z =>
      let o := mkO (dec_res r) retry done rexit in
      if is_f14 p z then
        if f14 then has_outcome o (f14_release (c, p, z))
        else ok_outcome c z o   (* the library no longer shows F14: accepted on purpose *)
      else has_outcome o (raw_outcomes (c, p, z))
  | _, _, _ => false
  end.

Definition c11_cell_violations (l : list c11_cell_case) : list nat := indices_where (fun k => negb (c11_cell_v k)) l.
Definition c11_cell_mismatches (l : list c11_cell_case) : list nat := indices_where (fun k => negb (c11_cell_m k)) l.

(* ---------- sequences: stalled write + cancel + Close; Disconnect then Close ---------- *)
(* kind (0 = call parked in Transport.Write, context cancelled, then Close; 1 = Disconnect whose write failed, then
   Close; 2 = successful Disconnect, then Close), call, result, retryable, Done() closed, reader gone,
   transport closed at the end, for kind 0/1: the intermediate observation was as expected (0: still blocked well
   after the cancellation; 1: Disconnect returned the write error, Done() open), anything left/stuck *)
Definition c11_seq_case := (N * N * N * bool * bool * bool * bool * bool * bool)%type.

Definition c11_seq_v (x : c11_seq_case) : bool :=
  let '(kind, c, r, retry, done, rexit, tcl, mid, bad) := x in
  let o := mkO (dec_res r) retry done rexit in
  negb bad && tcl && mid &&
  match kind, dec_call c with
  | 0, Some c => rclass_eqb (o_res o) KWrite && done && rexit
  | 1, Some CDisconnect => dseq_ok 0 o
  | 2, Some CDisconnect => dseq_ok 1 o
  | _, _ => false
  end.

Definition c11_seq_m (x : c11_seq_case) : bool :=
  let '(kind, c, r, retry, done, rexit, tcl, mid, bad) := x in
  let o := mkO (dec_res r) retry done rexit in
  mid &&
  match kind, dec_call c with
  | 0, Some c => has_outcome o (seq_outcomes c PInWrite [CtxCancel; LocalClose] LocalClose)
  | 1, Some CDisconnect => has_outcome o (dseq_outcomes 0)
  | 2, Some CDisconnect => has_outcome o (dseq_outcomes 1)
  | _, _ => false
  end.

Definition c11_seq_violations (l : list c11_seq_case) : list nat := indices_where (fun k => negb (c11_seq_v k)) l.
Definition c11_seq_mismatches (l : list c11_seq_case) : list nat := indices_where (fun k => negb (c11_seq_m k)) l.

(* ---------- a handler in progress ---------- *)
(* QoS of the inbound PUBLISH whose handler is parked, exclusive-lock caller (0 none, 1 Disconnect, 2 Done(),
   3 Handle(), 4 Close()), it arrives before the requests (true) or after them, cause (0 cancel, 1 deadline), the
   handler issues a request itself when released, the requests, their (result, retryable), the exclusive-lock
   caller returned promptly, the handler returned once released, Done() closed and reader gone after the final
   Close(), anything left/stuck *)
Definition c11_handler_case := (N * N * bool * N * bool * list N * list (N * bool) * bool * bool * bool * bool * bool)%type.

Fixpoint dec_calls (l : list N) : option (list call) :=
  match l with
  | [] => Some []
  | c :: r => match dec_call c, dec_calls r with Some c, Some r => Some (c :: r) | _, _ => None end
  end.

Definition closes_transport (excl : N) : bool := match excl with 1 | 4 => true | _ => false end.

Definition c11_handler_v (x : c11_handler_case) : bool :=
  let '(q, excl, before, z, reent, cs, rs, exret, hret, done, rexit, bad) := x in
  negb bad && exret && hret && done && rexit && Nat.eqb (length rs) (length cs) &&
  forallb (fun r => rclass_eqb (dec_res (fst r)) KCtx ||
                    (before && closes_transport excl && rclass_eqb (dec_res (fst r)) KWrite)) rs.

Definition c11_handler_m (x : c11_handler_case) : bool :=
  let '(q, excl, before, z, reent, cs, rs, exret, hret, done, rexit, bad) := x in
  match dec_calls cs, dec_cause z with
  | Some cs, Some z =>
      list_eqb (fun a b => rclass_eqb (fst a) (fst b) && Bool.eqb (snd a) (snd b))
               (map (fun r => (dec_res (fst r), snd r)) rs)
               (handler_results (before && closes_transport excl) cs z)
  | _, _ => false
  end.

Definition c11_handler_violations (l : list c11_handler_case) : list nat := indices_where (fun k => negb (c11_handler_v k)) l.
Definition c11_handler_mismatches (l : list c11_handler_case) : list nat := indices_where (fun k => negb (c11_handler_m k)) l.

(* ---------- stray acknowledgements before the cause ---------- *)
(* call (99 = no call blocked), point, cause, k, result, retryable, Done() closed, reader gone,
   the marker PUBLISH sent after the stray packets was handed to the handler (= the reader is alive while the
   connection is healthy), anything left/stuck *)
Definition c11_stray_case := (N * N * N * N * N * bool * bool * bool * bool * bool)%type.

Definition dec_ocall (n : N) : option (option call) :=
  match n with 99 => Some None | _ => match dec_call n with Some c => Some (Some c) | None => None end end.

Definition c11_stray_v (x : c11_stray_case) : bool :=
  let '(c, p, z, k, r, retry, done, rexit, marker, bad) := x in
  match dec_ocall c, dec_point p, dec_cause z with
  | Some c, Some p, Some z => marker && negb bad && stray_ok c z (Some (mkO (dec_res r) retry done rexit))
  | _, _, _ => false
  end.

Definition c11_stray_m (x : c11_stray_case) : bool :=
  let '(c, p, z, k, r, retry, done, rexit, marker, bad) := x in
  match dec_ocall c, dec_point p, dec_cause z with
  | Some c, Some p, Some z => marker && has_outcome (mkO (dec_res r) retry done rexit) (stray_outcomes c p z (N.to_nat k))
  | _, _, _ => false
  end.

Definition c11_stray_violations (l : list c11_stray_case) : list nat := indices_where (fun k => negb (c11_stray_v k)) l.
Definition c11_stray_mismatches (l : list c11_stray_case) : list nat := indices_where (fun k => negb (c11_stray_m k)) l.

(* ---------- several calls blocked at once ---------- *)
(* (call, point) list, indices whose context is cancelled first, connection-ending cause,
   (result, retryable) list, Done() closed, reader gone, anything left/stuck *)
Definition c11_multi_case := (list (N * N) * list N * N * list (N * bool) * bool * bool * bool)%type.

Fixpoint dec_cps (l : list (N * N)) : option (list (call * point)) :=
  match l with
  | [] => Some []
  | (c, p) :: r =>
      match dec_call c, dec_point p, dec_cps r with
      | Some c, Some p, Some r => Some ((c, p) :: r)
      | _, _, _ => None
      end
  end.

(* the property: a call whose context was cancelled returned that context's error, every other one the
   connection-closed error; Done() closed, reader gone, nothing left *)
Definition c11_multi_v (k : c11_multi_case) : bool :=
  let '(cps, cn, z, rs, done, rexit, bad) := k in
  let cancelled := map N.to_nat cn in
  negb bad && done && rexit && Nat.eqb (length rs) (length cps) &&
  forallb (fun ir => rclass_eqb (dec_res (fst (snd ir)))
                       (match multi_expect_ctx cancelled (fst ir) with Some _ => KCtx | None => KClosed end))
          (combine (seq 0 (length rs)) rs).

Definition c11_multi_m (k : c11_multi_case) : bool :=
  let '(cps, cn, z, rs, done, rexit, bad) := k in
  let cancelled := map N.to_nat cn in
  match dec_cps cps, dec_cause z with
  | Some cps, Some z =>
      list_eqb (fun a b => rclass_eqb (fst a) (fst b) && Bool.eqb (snd a) (snd b))
               (map (fun r => (dec_res (fst r), snd r)) rs) (multi_results cps cancelled z) &&
      Bool.eqb done (cclosed (multi_run cps cancelled z)) && Bool.eqb rexit (rfinished (rd (multi_run cps cancelled z)))
  | _, _ => false
  end.

Definition c11_multi_violations (l : list c11_multi_case) : list nat := indices_where (fun k => negb (c11_multi_v k)) l.
Definition c11_multi_mismatches (l : list c11_multi_case) : list nat := indices_where (fun k => negb (c11_multi_m k)) l.

(* ---------- reconnecting client ---------- *)
(* phase, cause, result, loop goroutine gone, anything left/stuck *)
Definition c11_reconn_case := (N * N * N * bool * bool)%type.

Definition dec_rphase (n : N) : option rphase :=
  match n with
  | 0 => Some RC_DialFail | 1 => Some RC_DialHang | 2 => Some RC_AckWithheld | 3 => Some RD_Never
  | 4 => Some RD_AfterFailed | 5 => Some RD_DuringDialFail | 6 => Some RD_WaitConnAck
  | 7 => Some RD_Connected | 8 => Some RD_BackoffAfterLoss
  | 9 => Some RC_DialFailBackoff | 10 => Some RC_RefusedBackoff | 11 => Some RC_RefusedThenDialHang | _ => None
  end.

Definition dec_rcause (n : N) : option rcause :=
  match n with 0 => Some RZNone | 1 => Some RZCancel | 2 => Some RZDeadline | _ => None end.

Definition dec_rres (n : N) : rres :=
  match n with 0 => RRBlocked | 1 => RRNil | 2 => RRCtx | 6 => RRPanic | _ => RROther end.

Definition c11_reconn_v (k : c11_reconn_case) : bool :=
  let '(p, z, r, gone, bad) := k in
  match dec_rphase p, dec_rcause z with
  | Some p, Some z => negb bad && rvalid p z && rok p z (mkRO (dec_rres r) gone)
  | _, _ => false
  end.

Definition c11_reconn_m (k : c11_reconn_case) : bool :=
  let '(p, z, r, gone, bad) := k in
  match dec_rphase p, dec_rcause z with
  | Some p, Some z => routcome_eqb (rcell_run true p z) (mkRO (dec_rres r) gone)
  | _, _ => false
  end.

Definition c11_reconn_violations (l : list c11_reconn_case) : list nat := indices_where (fun k => negb (c11_reconn_v k)) l.
Definition c11_reconn_mismatches (l : list c11_reconn_case) : list nat := indices_where (fun k => negb (c11_reconn_m k)) l.

(* ---------- Connect's context ending at each point of the first connection's establishment ---------- *)
(* point, follow-up, result of Connect, the first connection was established (StateActive seen), follow-up as
   required (Disconnect returned nil promptly / a redial followed the peer close / -), nothing left running at the
   end (before the final cleanup: only a loop supervising an established connection; after it: nothing), bad *)
Definition c11_cx_case := (N * N * N * bool * bool * bool * bool)%type.

Definition dec_cxpoint (n : N) : option cxpoint :=
  match n with 0 => Some CX_BeforeDial | 1 => Some CX_DuringDial | 2 => Some CX_AfterSetClient | 3 => Some CX_ConnAckWait
  | 4 => Some CX_InActiveCb | 5 => Some CX_AfterReturn | _ => None end.
Definition dec_cxfollow (n : N) : option cxfollow :=
  match n with 0 => Some CF_Disconnect | 1 => Some CF_PeerClose | 2 => Some CF_Nothing | _ => None end.

Definition c11_cx_v (x : c11_cx_case) : bool :=
  let '(p, f, r, est, fok, clean, bad) := x in
  match dec_cxpoint p, dec_cxfollow f with
  | Some p, Some f => negb bad && cx_valid p f && cx_ok p (mkCX (dec_rres r) fok clean)
  | _, _ => false
  end.

Definition c11_cx_m (x : c11_cx_case) : bool :=
  let '(p, f, r, est, fok, clean, bad) := x in
  match dec_cxpoint p, dec_cxfollow f with
  | Some p, Some f =>
      let o := cx_run p f in
      rres_eqb (cx_connect o) (dec_rres r) && Bool.eqb (cx_follow_ok o) fok && Bool.eqb (cx_clean o) clean &&
      Bool.eqb (cx_established p) est
  | _, _ => false
  end.

Definition c11_cx_violations (l : list c11_cx_case) : list nat := indices_where (fun k => negb (c11_cx_v k)) l.
Definition c11_cx_mismatches (l : list c11_cx_case) : list nat := indices_where (fun k => negb (c11_cx_m k)) l.
