(* CheckC09.v — executable comparison for C09: what the harness observed on the real
   ReconnectClient against the model (results M_x) and against the property predicates (results V_x). *)
From MQ Require Import Base Codec Reconnect.
Open Scope Z_scope.

(* what the harness logs, in the order of one mutex-protected log *)
Inductive oev :=
| ODial                              (* DialContext entered, its context not finished *)
| ODialDead                          (* DialContext entered with a context that is already finished *)
| OOpen (k : nat)                    (* DialContext returns transport k *)
| OPkt (k : nat) (b : list N)        (* first packet written on k, and every later CONNECT-type packet *)
| OClose (k : nat)                   (* first Close call on transport k *)
| OStop (s : skind)                  (* Disconnect has landed / cancel() returned *)
| ORet                               (* Disconnect returned *)
| OPanic                             (* Disconnect panicked *)
| OStuck                             (* Disconnect did not return within 5 s *)
| ONoRedial.                         (* an unexpected end was not followed by a dial within wait + 5 s although
                                        nothing had stopped the client *)

Record c09_case := mkCase {
  k_cfg : config;
  k_sc : scenario;
  k_obs : list oev;
  k_elapsed : list Z;   (* ns from the failure point of iteration i to the (i+1)-th dial; negative = unknown *)
  k_ub : bool }.

Definition bytes_eqb (a b : list N) : bool := str_eqb a b.

Fixpoint decode_from (c : connect) (i : nat) (t : list oev) : list ev :=
  match t with
  | [] => []
  | ODial :: r => EvDial i :: decode_from c (S i) r
  | ODialDead :: r => EvDial i :: decode_from c (S i) r
  | OOpen k :: r => EvOpen k :: decode_from c i r
  | OPkt k b :: r =>
    (match pack_connect c with
     | Some p => if bytes_eqb p b then EvConnect k c else EvBadPkt k
     | None => EvBadPkt k
     end) :: decode_from c i r
  | OClose k :: r => EvClose k :: decode_from c i r
  | OStop s :: r => EvStop s :: decode_from c i r
  | ORet :: r => EvDiscReturned :: decode_from c i r
  | OPanic :: r => EvPanic :: decode_from c i r
  | OStuck :: r => decode_from c i r
  | ONoRedial :: r => decode_from c i r
  end.
Definition decode (c : connect) (t : list oev) : list ev := decode_from c 0 t.

(* ---------- M_trace: the model's trace equals the observed one ---------- *)
(* Not observable: EvWait (judged through elapsed times), EvExit (judged through Disconnect
   returning and the absence of later dials). The Close of the last transport is made by another
   goroutine (the Disconnect task) and is compared as a flag, not by position. *)
Definition ev_eqb (a b : ev) : bool :=
  match a, b with
  | EvDial i, EvDial j => Nat.eqb i j
  | EvOpen i, EvOpen j => Nat.eqb i j
  | EvConnect i c, EvConnect j d => Nat.eqb i j && connect_eqb c d
  | EvBadPkt i, EvBadPkt j => Nat.eqb i j
  | EvClose i, EvClose j => Nat.eqb i j
  | EvWait x, EvWait y => Z.eqb x y
  | EvExit, EvExit => true
  | EvStop SDisconnect, EvStop SDisconnect => true
  | EvStop SCancel, EvStop SCancel => true
  | EvDiscReturned, EvDiscReturned => true
  | EvPanic, EvPanic => true
  | _, _ => false
  end.

Fixpoint last_open (acc : option nat) (t : list ev) : option nat :=
  match t with
  | [] => acc
  | EvOpen k :: r => last_open (Some k) r
  | _ :: r => last_open acc r
  end.

Definition is_close_of (k : option nat) (e : ev) : bool :=
  match e, k with
  | EvClose j, Some i => Nat.eqb i j
  | _, _ => false
  end.

Definition observable (e : ev) : bool :=
  match e with EvWait _ | EvExit => false | _ => true end.

Definition norm (t : list ev) : list ev * bool :=
  let lo := last_open None t in
  (filter (fun e => observable e && negb (is_close_of lo e)) t, existsb (is_close_of lo) t).

Definition c09_trace_ok (c : c09_case) : bool :=
  let '(m, mc) := norm (trace (k_cfg c) (k_sc c)) in
  let '(o, oc) := norm (decode (c_conn (k_cfg c)) (k_obs c)) in
  list_eqb ev_eqb m o && Bool.eqb mc oc.

(* ---------- V results: the property predicates on what the implementation did ---------- *)
Definition obs_trace (c : c09_case) : list ev := decode (c_conn (k_cfg c)) (k_obs c).

(* every measured delay before a redial is at least the wait the rule prescribes *)
Fixpoint ge_all (el sp : list Z) : bool :=
  match el, sp with
  | e :: el', s :: sp' => ((e <? 0) || (s <=? e)) && ge_all el' sp'
  | _, _ => true
  end.
Definition c09_backoff_ok (c : c09_case) : bool :=
  ge_all (k_elapsed c) (spec_waits (c_base (k_cfg c)) (c_max (k_cfg c)) 0 (sc_script (k_sc c))).

Definition c09_one_transport_ok (c : c09_case) : bool := one_open (obs_trace c).

Definition c09_connect_ok (c : c09_case) : bool := connects_ok (c_conn (k_cfg c)) (obs_trace c).

(* a cancellation counts when no connection succeeds up to (and including) its iteration *)
Definition cancel_effective (sc : scenario) : bool :=
  match sc_cancel sc with
  | Some (n, _) => negb (existsb is_success (firstn (S n) (sc_script sc)))
  | None => false
  end.

Definition no_dial_after (s : skind) (t : list ev) : bool :=
  match after_first (is_stop s) t with
  | None => true
  | Some post => negb (existsb is_dial post)
  end.

(* no dial after Disconnect landed; Disconnect (always called by the harness) returned; no panic;
   no dial after an effective cancellation *)
Definition c09_stop_ok (c : c09_case) : bool :=
  let t := obs_trace c in
  disc_stop_ok t && existsb (is_stop SDisconnect) t && negb (existsb is_panic t) &&
  (if cancel_effective (k_sc c) then no_dial_after SCancel t else true).

(* no dial is started under a finished context (the model's dial_ctx_done is all false:
   C09_dials_with_live_context) *)
Definition is_dead (e : oev) : bool := match e with ODialDead => true | _ => false end.
Definition c09_dialctx_ok (c : c09_case) : bool := negb (existsb is_dead (k_obs c)).

(* stress family: (number of accept-then-drop cycles completed, the client stopped redialling by
   itself). The model redials after every unexpected end (C09_redials_until_connected). *)
Definition c09_stress_ok (c : nat * bool) : bool := negb (snd c).

(* after every unexpected end the client dials again (C09_redials_until_connected) *)
Definition is_noredial (e : oev) : bool := match e with ONoRedial => true | _ => false end.
Definition c09_redial_ok (c : c09_case) : bool := negb (existsb is_noredial (k_obs c)).

(* upper bounds (serial family only): delay <= prescribed wait + 250 ms *)
Fixpoint le_all (slack : Z) (el sp : list Z) : bool :=
  match el, sp with
  | e :: el', s :: sp' => (e <=? s + slack) && le_all slack el' sp'
  | _, _ => true
  end.
Definition c09_waitub_ok (c : c09_case) : bool :=
  if k_ub c then le_all 250000000 (k_elapsed c) (spec_waits (c_base (k_cfg c)) (c_max (k_cfg c)) 0 (sc_script (k_sc c)))
  else true.

Definition c09_backoff_violations (cs : list c09_case) := indices_where (fun c => negb (c09_backoff_ok c)) cs.
Definition c09_one_transport_violations (cs : list c09_case) := indices_where (fun c => negb (c09_one_transport_ok c)) cs.
Definition c09_connect_violations (cs : list c09_case) := indices_where (fun c => negb (c09_connect_ok c)) cs.
Definition c09_stop_violations (cs : list c09_case) := indices_where (fun c => negb (c09_stop_ok c)) cs.
Definition c09_dialctx_violations (cs : list c09_case) := indices_where (fun c => negb (c09_dialctx_ok c)) cs.
Definition c09_stress_violations (cs : list (nat * bool)) := indices_where (fun c => negb (c09_stress_ok c)) cs.
Definition c09_redial_violations (cs : list c09_case) := indices_where (fun c => negb (c09_redial_ok c)) cs.
Definition c09_trace_mismatches (cs : list c09_case) := indices_where (fun c => negb (c09_trace_ok c)) cs.
Definition c09_waitub_mismatches (cs : list c09_case) := indices_where (fun c => negb (c09_waitub_ok c)) cs.
