(* RetryInv_Qos2Live.v — "exactly once, never zero times": the continuation of C01_eventually_acked
   (RetryInv_AcctLive.v, by the C01 builder) only ever accepts connections with "session present",
   so it keeps the broker session; C02_exactly_once_when_acked then applies to the state it reaches.

   C01_eventually_acked_stmt hides the label list of the continuation behind an existential, so the
   construction of RetryInv_AcctLive.v (Section Live) is replayed here with [reach_ns] strengthened
   by "every accepting CONNACK of the continuation says session present". The lemmas about single
   tasks on a fault-free connection (Section Good there) are reused unchanged. *)
From MQ Require Import Base RetryCore RetrySys CheckRetry RetryProps.
From MQ Require Import RetryInv_Acct RetryInv_AcctSys RetryInv_AcctLive.
From MQ Require RetryInv_Qos2.
Open Scope nat_scope.

Lemma accepts_app l1 l2 : accepts (l1 ++ l2) = accepts l1 ++ accepts l2.
Proof. exact (RetryInv_Qos2.accepts_app l1 l2). Qed.

Section Live.
Variable cfg : config.
Variable fp : fplan.

(* ---------- continuations without submissions ---------- *)
Definition alltrue (l : list bool) : bool := forallb (fun sp => sp) l.
Definition reach_ns (s s' : sys) : Prop :=
  exists ls, no_submit ls /\ run cfg fp s ls = Some s' /\ alltrue (accepts ls) = true.

Lemma reach_ns_refl s : reach_ns s s.
Proof. exists []. repeat split; reflexivity. Qed.

Lemma reach_ns_trans s1 s2 s3 : reach_ns s1 s2 -> reach_ns s2 s3 -> reach_ns s1 s3.
Proof.
  intros (l1 & N1 & R1 & A1) (l2 & N2 & R2 & A2). exists (l1 ++ l2). split; [|split].
  - unfold no_submit in *. rewrite RetryInv_AcctSys.submits_app, N1, N2. reflexivity.
  - rewrite run_app, R1. exact R2.
  - unfold alltrue in *. rewrite accepts_app, forallb_app, A1, A2. reflexivity.
Qed.

Lemma reach_ns_step s l s' : step cfg fp s l = Some s' -> submits [l] = [] ->
  alltrue (accepts [l]) = true -> reach_ns s s'.
Proof. intros H N A. exists [l]. split; auto. split; auto. cbn [run]. rewrite H. reflexivity. Qed.

Lemma wframe_trans w1 w2 w3 : wframe w1 w2 -> wframe w2 w3 -> wframe w1 w3.
Proof.
  unfold wframe. intros (A1 & A2 & A3 & A4 & A5 & A6) (B1 & B2 & B3 & B4 & B5 & B6). splits; congruence.
Qed.

(* [adv d s s']: s' is reached from s without submissions and without running a task; d clients were created *)
Definition adv (d : nat) (s s' : sys) : Prop :=
  reach_ns s s' /\ wframe (s_w s) (s_w s') /\ s_submitted s' = s_submitted s
  /\ length (w_clients (s_w s')) = length (w_clients (s_w s)) + d.

Lemma adv_refl s : adv 0 s s.
Proof. unfold adv. splits; auto. apply reach_ns_refl. apply wframe_refl. Qed.

Lemma adv_trans d1 d2 s1 s2 s3 : adv d1 s1 s2 -> adv d2 s2 s3 -> adv (d1 + d2) s1 s3.
Proof.
  intros (A1 & A2 & A3 & A4) (B1 & B2 & B3 & B4). unfold adv. splits.
  - eapply reach_ns_trans; eauto.
  - eapply wframe_trans; eauto.
  - congruence.
  - lia.
Qed.

Lemma adv_step d s l s' :
  step cfg fp s l = Some s' -> l <> LTask -> submits [l] = [] -> alltrue (accepts [l]) = true ->
  length (w_clients (s_w s')) = length (w_clients (s_w s)) + d -> adv d s s'.
Proof.
  intros H Hl Hn Hacc Hlen. unfold adv. splits; auto.
  - eapply reach_ns_step; eauto.
  - eapply step_other_wframe; eauto.
  - rewrite (RetryInv_AcctSys.step_submitted _ _ _ _ _ H), Hn, app_nil_r. reflexivity.
Qed.

Lemma chain d1 d2 s s1 (Q : sys -> Prop) :
  adv d1 s s1 -> (exists s', adv d2 s1 s' /\ Q s') -> exists s', adv (d1 + d2) s s' /\ Q s'.
Proof. intros A (s' & B & HQ). exists s'. split; auto. eapply adv_trans; eauto. Qed.

(* ---------- the enabled steps of the reconnect loop, with their results ---------- *)
Lemma step_dial s : s_pc s = RDial ->
  step cfg fp s (LDial true) =
  Some (set_pc (set_w s (set_clients (s_w s) (w_clients (s_w s) ++ [client_new])))
               (RSetClient (length (w_clients (s_w s))))).
Proof. intros H. cbn [step]. rewrite H. reflexivity. Qed.

Definition after_setclient (s : sys) (k : nat) : sys :=
  {| s_w := s_w s; s_cur := Some k; s_gen := S (s_gen s); s_cres := CrPending; s_taskq := s_taskq s;
     s_tmode := s_tmode s; s_pc := RConnBegin k; s_initialized := s_initialized s;
     s_submitted := s_submitted s; s_waits := s_waits s |}.

Lemma step_setclient s k : s_pc s = RSetClient k -> step cfg fp s LSetClient = Some (after_setclient s k).
Proof. intros H. cbn [step]. rewrite H. reflexivity. Qed.

Lemma step_connbegin s k : s_pc s = RConnBegin k ->
  step cfg fp s LConnBegin = Some (set_pc (set_w s (upd_client (s_w s) k client_init)) (RConnWait k)).
Proof. intros H. cbn [step]. rewrite H. reflexivity. Qed.

Lemma step_connend_closed s k : s_pc s = RConnWait k ->
  step cfg fp s (LConnEnd CoClosed) =
  Some (set_pc (set_cres (set_w s (upd_client (s_w s) k kill)) CrFailed) (RCloseFailed k)).
Proof. intros H. cbn [step]. rewrite H. reflexivity. Qed.

Lemma step_accept s k : s_pc s = RConnWait k -> cl_alive (get_client (s_w s) k) = true ->
  step cfg fp s (LConnEnd (CoAccept true)) =
  Some (set_pc (set_cres (set_w s (upd_client (s_w s) k client_accept)) CrOk) (RPushResub k true)).
Proof. intros H1 H2. cbn [step]. rewrite H1, H2. reflexivity. Qed.

Definition after_pushresub (s : sys) (k : nat) (sp : bool) : sys :=
  if s_initialized s && (negb sp || c_always_resub cfg)
  then set_taskq (set_pc s (RPushRetry k)) (s_taskq s ++ [TResub]) else set_pc s (RPushRetry k).

Lemma step_pushresub s k sp : s_pc s = RPushResub k sp -> step cfg fp s LPushResub = Some (after_pushresub s k sp).
Proof.
  intros H. cbn [step]. rewrite H. unfold after_pushresub.
  destruct (s_initialized s && (negb sp || c_always_resub cfg)); reflexivity.
Qed.

Definition after_pushretry (s : sys) (k : nat) : sys :=
  {| s_w := s_w s; s_cur := s_cur s; s_gen := s_gen s; s_cres := s_cres s; s_taskq := s_taskq s ++ [TRetry];
     s_tmode := s_tmode s; s_pc := RRun k; s_initialized := true;
     s_submitted := s_submitted s; s_waits := s_waits s |}.

Lemma step_pushretry s k : s_pc s = RPushRetry k -> step cfg fp s LPushRetry = Some (after_pushretry s k).
Proof. intros H. cbn [step]. rewrite H. reflexivity. Qed.

Lemma step_detect s k : s_pc s = RRun k -> cl_alive (get_client (s_w s) k) = false ->
  step cfg fp s LDetectEnd = Some (set_pc s RBackoff).
Proof. intros H1 H2. cbn [step]. rewrite H1, H2. reflexivity. Qed.

Lemma step_idlecut s k : s_pc s = RRun k -> cl_alive (get_client (s_w s) k) = true ->
  step cfg fp s LIdleCut = Some (set_w s (upd_client (s_w s) k kill)).
Proof. intros H1 H2. cbn [step]. rewrite H1, H2. reflexivity. Qed.

Lemma step_closefailed s k : s_pc s = RCloseFailed k ->
  step cfg fp s LCloseFailed = Some (set_pc (set_w s (upd_client (s_w s) k kill)) RBackoff).
Proof. intros H. cbn [step]. rewrite H. reflexivity. Qed.

Definition after_backoff (s : sys) : sys :=
  {| s_w := s_w s; s_cur := s_cur s; s_gen := s_gen s; s_cres := s_cres s; s_taskq := s_taskq s;
     s_tmode := s_tmode s; s_pc := RDial; s_initialized := s_initialized s;
     s_submitted := s_submitted s; s_waits := S (s_waits s) |}.

Lemma step_backoff s : s_pc s = RBackoff -> step cfg fp s LBackoff = Some (after_backoff s).
Proof. intros H. cbn [step]. rewrite H. reflexivity. Qed.

Ltac len_tac := unfold after_backoff, after_setclient, after_pushretry; sproj; wproj; rewrite ?upd_nth_length, ?app_length; cbn [length]; lia.
Ltac adv1 H := eapply adv_step; [exact H | discriminate | reflexivity | reflexivity | len_tac].

(* ---------- phase A: bring the reconnect loop to RDial ---------- *)
Definition at_dial (s : sys) : Prop := s_pc s = RDial.

Lemma A_backoff s : s_pc s = RBackoff -> exists s', adv 0 s s' /\ at_dial s'.
Proof. intros H. exists (after_backoff s). split; [adv1 (step_backoff s H) | reflexivity]. Qed.

Lemma A_closefailed s k : s_pc s = RCloseFailed k -> exists s', adv 0 s s' /\ at_dial s'.
Proof.
  intros H. apply (chain 0 0 s _ at_dial (ltac:(adv1 (step_closefailed s k H)))).
  apply A_backoff. reflexivity.
Qed.

Lemma A_connwait s k : s_pc s = RConnWait k -> exists s', adv 0 s s' /\ at_dial s'.
Proof.
  intros H. apply (chain 0 0 s _ at_dial (ltac:(adv1 (step_connend_closed s k H)))).
  eapply A_closefailed. reflexivity.
Qed.

Lemma A_connbegin s k : s_pc s = RConnBegin k -> exists s', adv 0 s s' /\ at_dial s'.
Proof.
  intros H. apply (chain 0 0 s _ at_dial (ltac:(adv1 (step_connbegin s k H)))).
  eapply A_connwait. reflexivity.
Qed.

Lemma A_setclient s k : s_pc s = RSetClient k -> exists s', adv 0 s s' /\ at_dial s'.
Proof.
  intros H. apply (chain 0 0 s _ at_dial (ltac:(adv1 (step_setclient s k H)))).
  eapply A_connbegin. reflexivity.
Qed.

Lemma A_run_dead s k : s_pc s = RRun k -> cl_alive (get_client (s_w s) k) = false ->
  exists s', adv 0 s s' /\ at_dial s'.
Proof.
  intros H Ha. apply (chain 0 0 s _ at_dial (ltac:(adv1 (step_detect s k H Ha)))).
  apply A_backoff. reflexivity.
Qed.

Lemma A_run s k : s_pc s = RRun k -> exists s', adv 0 s s' /\ at_dial s'.
Proof.
  intros H. destruct (cl_alive (get_client (s_w s) k)) eqn:Ha.
  - apply (chain 0 0 s _ at_dial (ltac:(adv1 (step_idlecut s k H Ha)))).
    apply (A_run_dead _ k); [exact H|]. unfold get_client. sproj; wproj. apply nth_upd_nth_kill_alive.
  - eapply A_run_dead; eauto.
Qed.

Lemma A_pushretry s k : s_pc s = RPushRetry k -> exists s', adv 0 s s' /\ at_dial s'.
Proof.
  intros H. apply (chain 0 0 s _ at_dial (ltac:(adv1 (step_pushretry s k H)))).
  eapply A_run. reflexivity.
Qed.

Lemma A_pushresub s k sp : s_pc s = RPushResub k sp -> exists s', adv 0 s s' /\ at_dial s'.
Proof.
  intros H.
  assert (Hadv : adv 0 s (after_pushresub s k sp)).
  { eapply adv_step; [exact (step_pushresub s k sp H) | discriminate | reflexivity | reflexivity |].
    unfold after_pushresub. destruct (s_initialized s && (negb sp || c_always_resub cfg)); len_tac. }
  apply (chain 0 0 s _ at_dial Hadv).
  apply (A_pushretry _ k). unfold after_pushresub.
  destruct (s_initialized s && (negb sp || c_always_resub cfg)); reflexivity.
Qed.

Lemma to_dial s : exists s', adv 0 s s' /\ at_dial s'.
Proof.
  destruct (s_pc s) eqn:H.
  - exists s. split; [apply adv_refl | exact H].
  - eapply A_setclient; eauto.
  - eapply A_connbegin; eauto.
  - eapply A_connwait; eauto.
  - eapply A_pushresub; eauto.
  - eapply A_pushretry; eauto.
  - eapply A_run; eauto.
  - eapply A_closefailed; eauto.
  - eapply A_backoff; eauto.
Qed.

(* ---------- phase B: use up m connection numbers ---------- *)
Lemma burn_one s : at_dial s -> exists s', adv 1 s s' /\ at_dial s'.
Proof.
  intros H. apply (chain 1 0 s _ at_dial (ltac:(adv1 (step_dial s H)))).
  eapply A_setclient. reflexivity.
Qed.

Lemma burn m : forall s, at_dial s -> exists s', adv m s s' /\ at_dial s'.
Proof.
  induction m; intros s H.
  - exists s. split; [apply adv_refl | exact H].
  - destruct (burn_one s H) as (s1 & A1 & H1). apply (chain 1 m s s1 at_dial A1). apply IHm. exact H1.
Qed.

(* ---------- phase C: a new connection, accepted with session present ---------- *)
Definition fresh : client := {| cl_inited := true; cl_alive := true; cl_accepted := true; cl_sent := 0 |}.

Definition connected (s : sys) (n : nat) : Prop :=
  s_pc s = RRun n /\ s_cur s = Some n /\ s_cres s = CrOk /\ 0 < s_gen s
  /\ get_client (s_w s) n = fresh /\ exists q0, s_taskq s = q0 ++ [TRetry].

Lemma get_upd_same w k f : k < length (w_clients w) -> get_client (upd_client w k f) k = f (get_client w k).
Proof. intros H. unfold get_client, upd_client. wproj. apply nth_upd_nth_same. exact H. Qed.

Lemma C_pushretry s n : s_pc s = RPushRetry n -> s_cur s = Some n -> s_cres s = CrOk -> 0 < s_gen s ->
  get_client (s_w s) n = fresh -> exists s', adv 0 s s' /\ connected s' n.
Proof.
  intros H H1 H2 H3 H4. exists (after_pushretry s n). split; [adv1 (step_pushretry s n H)|].
  unfold connected, after_pushretry; sproj. splits; auto. eauto.
Qed.

Lemma C_pushresub s n : s_pc s = RPushResub n true -> s_cur s = Some n -> s_cres s = CrOk -> 0 < s_gen s ->
  get_client (s_w s) n = fresh -> exists s', adv 0 s s' /\ connected s' n.
Proof.
  intros H H1 H2 H3 H4.
  assert (Hadv : adv 0 s (after_pushresub s n true)).
  { eapply adv_step; [exact (step_pushresub s n true H) | discriminate | reflexivity | reflexivity |].
    unfold after_pushresub. destruct (s_initialized s && (negb true || c_always_resub cfg)); len_tac. }
  apply (chain 0 0 s _ (fun s' => connected s' n) Hadv).
  unfold after_pushresub.
  destruct (s_initialized s && (negb true || c_always_resub cfg)); apply C_pushretry; auto.
Qed.

Lemma C_connwait s n : s_pc s = RConnWait n -> s_cur s = Some n -> 0 < s_gen s ->
  get_client (s_w s) n = client_init client_new -> exists s', adv 0 s s' /\ connected s' n.
Proof.
  intros H H1 H3 H4.
  assert (Ha : cl_alive (get_client (s_w s) n) = true) by (rewrite H4; reflexivity).
  apply (chain 0 0 s _ (fun s' => connected s' n) (ltac:(adv1 (step_accept s n H Ha)))).
  apply C_pushresub; sproj; auto.
  rewrite get_upd_same by (apply alive_lt; exact Ha). rewrite H4. reflexivity.
Qed.

Lemma C_connbegin s n : s_pc s = RConnBegin n -> s_cur s = Some n -> 0 < s_gen s ->
  get_client (s_w s) n = client_new -> exists s', adv 0 s s' /\ connected s' n.
Proof.
  intros H H1 H3 H4.
  assert (Ha : cl_alive (get_client (s_w s) n) = true) by (rewrite H4; reflexivity).
  apply (chain 0 0 s _ (fun s' => connected s' n) (ltac:(adv1 (step_connbegin s n H)))).
  apply C_connwait; sproj; auto.
  rewrite get_upd_same by (apply alive_lt; exact Ha). rewrite H4. reflexivity.
Qed.

Lemma C_setclient s n : s_pc s = RSetClient n -> get_client (s_w s) n = client_new ->
  exists s', adv 0 s s' /\ connected s' n.
Proof.
  intros H H4.
  apply (chain 0 0 s _ (fun s' => connected s' n) (ltac:(adv1 (step_setclient s n H)))).
  apply C_connbegin; unfold after_setclient; sproj; auto. lia.
Qed.

Lemma connect s : at_dial s -> exists s', adv 1 s s' /\ connected s' (length (w_clients (s_w s))).
Proof.
  intros H.
  apply (chain 1 0 s _ (fun s' => connected s' (length (w_clients (s_w s)))) (ltac:(adv1 (step_dial s H)))).
  apply C_setclient; sproj; auto. unfold get_client. wproj. apply nth_middle.
Qed.

(* ---------- phase D: the task goroutine observes the new connection ---------- *)
Definition ready (s : sys) (n : nat) : Prop :=
  s_pc s = RRun n /\ s_cur s = Some n /\ s_tmode s = TReady (s_gen s) /\ good fp (s_w s) n
  /\ w_nrbe (s_w s) = false /\ w_hung (s_w s) = false.

Lemma observe_waiting s n : s_pc s = RRun n -> s_cur s = Some n -> s_cres s = CrOk -> 0 < s_gen s ->
  good fp (s_w s) n -> w_nrbe (s_w s) = false -> w_hung (s_w s) = false -> s_tmode s = TWaiting ->
  exists s', reach_ns s s' /\ ready s' n /\ s_taskq s' = s_taskq s /\ s_submitted s' = s_submitted s
             /\ s_w s' = s_w s.
Proof.
  intros H1 H2 H3 H4 H5 H6 H7 Hm. exists (set_tmode s (TReady (s_gen s))). splits; auto.
  - apply (reach_ns_step s (LObserve (s_gen s))); [|reflexivity|reflexivity].
    cbn [step]. rewrite Hm, H3.
    assert (E : (0 <? s_gen s) && ((s_gen s <? s_gen s) || (s_gen s =? s_gen s) && true) = true) by lia.
    rewrite E. reflexivity.
  - unfold ready; sproj. splits; auto.
Qed.

Lemma get_ready s n : s_pc s = RRun n -> s_cur s = Some n -> s_cres s = CrOk -> 0 < s_gen s ->
  good fp (s_w s) n -> w_nrbe (s_w s) = false -> w_hung (s_w s) = false ->
  exists s', reach_ns s s' /\ ready s' n /\ s_taskq s' = s_taskq s /\ s_submitted s' = s_submitted s
             /\ s_w s' = s_w s.
Proof.
  intros H1 H2 H3 H4 H5 H6 H7. destruct (s_tmode s) as [|g] eqn:Hm.
  - apply observe_waiting; auto.
  - destruct (g =? s_gen s) eqn:Eg.
    + apply Nat.eqb_eq in Eg. subst g. exists s. splits; auto. apply reach_ns_refl.
      unfold ready. splits; auto.
    + assert (Hs : step cfg fp s LTask = Some (set_tmode s TWaiting)).
      { cbn [step]. rewrite H7, Hm, Eg. reflexivity. }
      destruct (observe_waiting (set_tmode s TWaiting) n) as (s' & R & Hr & E1 & E2 & E3); sproj; auto.
      exists s'. splits; auto. eapply reach_ns_trans; [|exact R].
      eapply reach_ns_step; [exact Hs | reflexivity | reflexivity].
Qed.

(* ---------- phase E: drain the task queue on the good connection ---------- *)
Lemma drain_step s n t q : ready s n -> s_taskq s = t :: q ->
  exists s', step cfg fp s LTask = Some s' /\ ready s' n /\ s_taskq s' = q
    /\ s_submitted s' = s_submitted s
    /\ (t = TRetry -> w_retryq (s_w s') = [])
    /\ (w_retryq (s_w s) = [] -> w_retryq (s_w s') = []).
Proof.
  intros (H1 & H2 & H3 & H4 & H5 & H6) Hq.
  destruct (exec_good cfg fp (s_w s) n t H4 H6) as (G1 & G2 & G3 & G4 & G5).
  exists (set_w (set_taskq s q) (exec_task cfg fp (s_w s) n t)). splits; auto.
  - cbn [step]. rewrite H6, H3, Nat.eqb_refl, Hq, H2. cbn [negb]. rewrite G2, H5. reflexivity.
  - unfold ready; sproj. splits; auto. congruence.
Qed.

Lemma drain_all q : forall s n, ready s n -> s_taskq s = q ->
  exists s', run cfg fp s (repeat LTask (length q)) = Some s' /\ ready s' n /\ s_taskq s' = []
    /\ s_submitted s' = s_submitted s
    /\ ((exists q0, q = q0 ++ [TRetry]) \/ w_retryq (s_w s) = [] -> w_retryq (s_w s') = []).
Proof.
  induction q as [|t q IH]; intros s n Hr Hq; cbn [length repeat run].
  - exists s. splits; auto. intros [([|x q0] & E)|E]; auto; discriminate.
  - destruct (drain_step s n t q Hr Hq) as (s1 & Hs & Hr1 & Hq1 & Hsub1 & Ht & He).
    rewrite Hs. destruct (IH s1 n Hr1 Hq1) as (s' & R & Hr' & Hq' & Hsub' & He').
    exists s'. splits; auto; [congruence|].
    intros Hc. apply He'. destruct Hc as [(q0 & E)|E]; [|right; auto].
    destruct q0 as [|x q0]; cbn [List.app] in E; injection E as -> ->.
    + right. auto.
    + left. eauto.
Qed.

Lemma submits_repeat_task m : submits (repeat LTask m) = [].
Proof. induction m; cbn [repeat submits]; auto. Qed.

End Live.

Lemma accepts_repeat_task m : accepts (repeat LTask m) = [].
Proof. induction m; cbn [repeat accepts]; auto. Qed.

(* C01 liveness, with the extra fact that the continuation keeps the session *)
Lemma eventually_acked_kept : forall cfg fp ls s K,
  run cfg fp sys0 ls = Some s -> wf_labels ls -> reliable_from fp K -> w_hung (s_w s) = false ->
  exists ls' s', no_submit ls' /\ alltrue (accepts ls') = true /\ run cfg fp s ls' = Some s' /\ quiescent s' /\
    s_submitted s' = s_submitted s /\
    forall o, In o (s_submitted s) -> needs_ack o = true -> In (uop_uid o) (final_acked (wire_of s')).
Proof.
  intros cfg fp ls s K Hr Hwf Hrel Hh.
  destruct (reach_inv cfg fp ls s Hr Hwf) as (_ & Hn & _).
  destruct (to_dial cfg fp s) as (sA & AA & HA).
  destruct (burn cfg fp K sA HA) as (sB & AB & HB).
  destruct (connect cfg fp sB HB) as (sC & AC & HC).
  set (n := length (w_clients (s_w sB))) in *.
  assert (HKn : K <= n) by (destruct AB as (_ & _ & _ & E); unfold n; lia).
  pose proof (adv_trans _ _ _ _ _ _ _ (adv_trans _ _ _ _ _ _ _ AA AB) AC) as (R & F & Esub & _).
  destruct F as (_ & _ & _ & Fh & _ & Fn).
  destruct HC as (C1 & C2 & C3 & C4 & C5 & q0 & C6).
  assert (Hgood : good fp (s_w sC) n).
  { unfold good. rewrite C5. cbn [fresh cl_inited cl_alive cl_accepted cl_sent]. splits; auto. }
  destruct (get_ready cfg fp sC n C1 C2 C3 C4 Hgood) as (sD & RD & HrD & EqD & EsubD & EwD); try congruence.
  destruct (drain_all cfg fp (s_taskq sD) sD n HrD eq_refl) as (sE & RE & HrE & EqE & EsubE & ErE).
  destruct (reach_ns_trans _ _ _ _ _ R RD) as (l12 & N12 & R12 & A12).
  assert (Hq : w_retryq (s_w sE) = []) by (apply ErE; left; exists q0; congruence).
  destruct HrE as (E1 & E2 & E3 & E4 & E5 & E6).
  set (ls' := l12 ++ repeat LTask (length (s_taskq sD))).
  assert (Nls : no_submit ls').
  { unfold no_submit, ls' in *. rewrite RetryInv_AcctSys.submits_app, N12, submits_repeat_task. reflexivity. }
  assert (Als : alltrue (accepts ls') = true).
  { unfold ls'. rewrite accepts_app, accepts_repeat_task, app_nil_r. exact A12. }
  assert (Rls : run cfg fp s ls' = Some sE) by (unfold ls'; rewrite run_app, R12; exact RE).
  exists ls', sE. splits; auto.
  - unfold quiescent. splits; auto.
    + unfold cur_alive. rewrite E2. apply E4.
    + eauto.
  - congruence.
  - intros o Ho Hna.
    assert (Rall : run cfg fp sys0 (ls ++ ls') = Some sE) by (rewrite run_app, Hr; exact Rls).
    assert (Wall : wf_labels (ls ++ ls')).
    { unfold wf_labels, no_submit in *. rewrite RetryInv_AcctSys.submits_app, Nls, app_nil_r. exact Hwf. }
    destruct (no_loss cfg fp (ls ++ ls') sE Rall Wall E6) as (Hcov & _ & _).
    assert (Ho' : In o (s_submitted sE)) by congruence.
    destruct (Hcov o Ho' Hna) as [Ha|Hp]; auto.
    unfold pending_uids in Hp. rewrite Hq, EqE in Hp. contradiction.
Qed.

Lemma session_kept_app ls ls' : session_kept_labels ls -> alltrue (accepts ls') = true ->
  session_kept_labels (ls ++ ls').
Proof.
  unfold session_kept_labels, alltrue. rewrite accepts_app. intros H1 H2.
  destruct (accepts ls) as [|a r]; cbn [List.app tl] in *.
  - destruct (accepts ls') as [|a' r']; [reflexivity|]. cbn [tl forallb] in *.
    apply andb_true_iff in H2. apply H2.
  - rewrite forallb_app, H1, H2. reflexivity.
Qed.

(* "exactly once, never zero times": from every reachable, not hung state, once the broker stays
   reachable, there is a continuation without further submissions (and without session loss) after
   which every accepted QoS 2 message has been delivered onward exactly once *)
Theorem C02_eventually_exactly_once_kept : forall cfg fp ls s K,
  run cfg fp sys0 ls = Some s -> wf_labels ls -> session_kept_labels ls -> reliable_from fp K ->
  w_hung (s_w s) = false ->
  exists ls' s', no_submit ls' /\ session_kept_labels (ls ++ ls') /\ run cfg fp s ls' = Some s' /\
    (forall u, q2_submitted s u -> count u (b_delivered (broker_of s')) = 1).
Proof.
  intros cfg fp ls s K Hr Hwf Hk Hrel Hh.
  destruct (eventually_acked_kept cfg fp ls s K Hr Hwf Hrel Hh) as (ls' & s' & N & A & R & _ & Es & Hack).
  exists ls', s'. pose proof (session_kept_app _ _ Hk A) as Hk'.
  split; [exact N|]. split; [exact Hk'|]. split; [exact R|].
  intros u (m & Hin & Hu & Hq).
  assert (Rall : run cfg fp sys0 (ls ++ ls') = Some s') by (rewrite run_app, Hr; exact R).
  assert (Wall : wf_labels (ls ++ ls')).
  { unfold wf_labels, no_submit in *. rewrite RetryInv_AcctSys.submits_app, N, app_nil_r. exact Hwf. }
  apply (RetryInv_Qos2.C02_exactly_once_when_acked cfg fp (ls ++ ls') s' Rall Wall Hk').
  - exists m. rewrite Es. auto.
  - specialize (Hack (UPub m) Hin). cbn [needs_ack uop_uid] in Hack. rewrite Hq, Hu in Hack.
    apply Hack. reflexivity.
Qed.

Corollary C02_eventually_exactly_once : forall cfg fp ls s K,
  run cfg fp sys0 ls = Some s -> wf_labels ls -> session_kept_labels ls -> reliable_from fp K ->
  w_hung (s_w s) = false ->
  exists ls' s', no_submit ls' /\ run cfg fp s ls' = Some s' /\
    (forall u, q2_submitted s u -> count u (b_delivered (broker_of s')) = 1).
Proof.
  intros cfg fp ls s K Hr Hwf Hk Hrel Hh.
  destruct (C02_eventually_exactly_once_kept cfg fp ls s K Hr Hwf Hk Hrel Hh) as (ls' & s' & N & _ & R & H).
  exists ls', s'. auto.
Qed.

(* non-vacuity: the hypotheses hold of the run of RetryInv_Qos2 stopped after its second cut (the
   QoS 2 request is in the retry queue as RPubRel; connections 2, 3, ... are fault-free) *)
Example C02_eventually_hypotheses_satisfiable : forall method_b, exists s,
  run (RetryInv_Qos2.ex_cfg method_b) RetryInv_Qos2.ex_fp sys0 (firstn 22 RetryInv_Qos2.ex_ls) = Some s
  /\ wf_labels (firstn 22 RetryInv_Qos2.ex_ls) /\ session_kept_labels (firstn 22 RetryInv_Qos2.ex_ls)
  /\ reliable_from RetryInv_Qos2.ex_fp 2 /\ w_hung (s_w s) = false /\ q2_submitted s 1
  /\ ~ In 1 (final_acked (wire_of s)).
Proof.
  intros [|]; eexists; (split; [vm_compute; reflexivity|]);
    (split; [reflexivity|]); (split; [reflexivity|]);
    (split; [intros [|[|k]] i Hk; [lia | lia | reflexivity]|]);
    (split; [reflexivity|]);
    (split; [exists RetryInv_Qos2.ex_m1; split; [left; reflexivity | split; reflexivity]|]);
    vm_compute; tauto.
Qed.
