(* RetryInv_SubsMap.v — subscription tables as finite maps topic -> option qos, and the per-topic
   algebra ("key items") on which the C08 invariant is stated.

   Part 1: [subs_get] of [subs_set]/[subs_remove]/[est_sub]/[est_remove]; coherent lists
           (every binding of a list is the one [subs_get] finds) make [subs_equiv] follow from
           pointwise equality of lookups.
   Part 2: what one Subscribe / Unsubscribe call does to one topic ([tsub], [tunsub], [ap]).
   Part 3: for a fixed topic the retry queue followed by the task queue is abstracted to a list of
           [kitem]s; [krun] replays it on the triple (broker value, client value, flag) and
           [kinv] is the per-topic invariant. Lemmas K1..K9 are the abstract transitions. *)
From MQ Require Import Base RetryCore RetrySys CheckRetry RetryProps.
Open Scope nat_scope.

Ltac sdestr a b :=
  let E := fresh "E" in
  destruct (str_eqb a b) eqn:E; [apply str_eqb_eq in E | apply str_eqb_neq in E].

(* ------------------------------------------------------------------ *)
(* Part 1: maps *)

Lemma est_remove_eq t l : est_remove t l = subs_remove t l.
Proof. induction l as [|[t' q] r IH]; cbn [est_remove subs_remove]; [reflexivity|]. rewrite IH. reflexivity. Qed.

Lemma subs_get_remove t x l :
  subs_get t (subs_remove x l) = if str_eqb t x then None else subs_get t l.
Proof.
  induction l as [|[t' q] r IH]; cbn [subs_remove subs_get].
  - destruct (str_eqb t x); reflexivity.
  - sdestr x t'.
    + subst t'. rewrite IH. sdestr t x; reflexivity.
    + cbn [subs_get]. rewrite IH. sdestr t t'; [subst t'|].
      * sdestr t x; [subst x; congruence | reflexivity].
      * reflexivity.
Qed.

Lemma subs_get_set t l s :
  subs_get t (subs_set l s) = if str_eqb t (fst s) then Some (snd s) else subs_get t l.
Proof.
  unfold subs_set. destruct s as [t' q]. cbn [subs_get fst snd].
  sdestr t t'; [reflexivity|]. rewrite subs_get_remove.
  sdestr t t'; [contradiction | reflexivity].
Qed.

Lemma subs_get_app t l r :
  subs_get t (l ++ r) = match subs_get t l with Some q => Some q | None => subs_get t r end.
Proof.
  induction l as [|[t' q] l IH]; [reflexivity|].
  rewrite <- app_comm_cons. cbn [subs_get].
  destruct (str_eqb t t'); [reflexivity | exact IH].
Qed.

Lemma subs_get_est_sub t l s :
  subs_get t (est_sub l s) = if str_eqb t (fst s) then Some (snd s) else subs_get t l.
Proof.
  unfold est_sub. rewrite subs_get_app, est_remove_eq, subs_get_remove.
  destruct s as [t' q]. cbn [subs_get fst snd].
  sdestr t t'; [reflexivity|]. destruct (subs_get t l); reflexivity.
Qed.

Lemma In_subs_remove x q t l : In (x, q) (subs_remove t l) -> In (x, q) l /\ x <> t.
Proof.
  induction l as [|[t' q'] r IH]; cbn [subs_remove]; [intros []|].
  sdestr t t'.
  - intros H. apply IH in H as [H1 H2]. split; [right; exact H1 | exact H2].
  - intros [H|H].
    + injection H as -> ->. split; [left; reflexivity | congruence].
    + apply IH in H as [H1 H2]. split; [right; exact H1 | exact H2].
Qed.

(* coherent: every binding in the list is the one found by lookup *)
Definition coh (l : list sub) : Prop := forall t q, In (t, q) l -> subs_get t l = Some q.

Lemma coh_nil : coh [].
Proof. intros t q []. Qed.

Lemma coh_remove t l : coh l -> coh (subs_remove t l).
Proof.
  intros H x q Hin. apply In_subs_remove in Hin as [H1 H2].
  rewrite subs_get_remove. sdestr x t; [contradiction|]. apply H; exact H1.
Qed.

Lemma coh_set l s : coh l -> coh (subs_set l s).
Proof.
  intros H x q Hin. rewrite subs_get_set. unfold subs_set in Hin. destruct Hin as [Hin|Hin].
  - subst s. cbn [fst snd]. rewrite str_eqb_refl. reflexivity.
  - apply In_subs_remove in Hin as [H1 H2]. sdestr x (fst s); [contradiction|]. apply H; exact H1.
Qed.

Lemma coh_est_remove t l : coh l -> coh (est_remove t l).
Proof. rewrite est_remove_eq. apply coh_remove. Qed.

Lemma coh_est_sub l s : coh l -> coh (est_sub l s).
Proof.
  intros H x q Hin. rewrite subs_get_est_sub. unfold est_sub in Hin. apply in_app_or in Hin as [Hin|Hin].
  - rewrite est_remove_eq in Hin. apply In_subs_remove in Hin as [H1 H2].
    sdestr x (fst s); [contradiction|]. apply H; exact H1.
  - destruct Hin as [Hin|[]]. subst s. cbn [fst snd]. rewrite str_eqb_refl. reflexivity.
Qed.

Lemma fold_left_pres {A B} (P : A -> Prop) (f : A -> B -> A) (l : list B) (a : A) :
  (forall a b, P a -> P (f a b)) -> P a -> P (fold_left f l a).
Proof. intros Hf. revert a. induction l as [|b l IH]; intros a Ha; cbn [fold_left]; [exact Ha|]. apply IH, Hf, Ha. Qed.

Lemma coh_fold_set ss l : coh l -> coh (fold_left subs_set ss l).
Proof. apply fold_left_pres. intros; apply coh_set; assumption. Qed.
Lemma coh_fold_remove ts l : coh l -> coh (fold_left (fun l x => subs_remove x l) ts l).
Proof. apply fold_left_pres. intros; apply coh_remove; assumption. Qed.
Lemma coh_est_apply_subs ss l : coh l -> coh (est_apply_subs l ss).
Proof. apply fold_left_pres. intros; apply coh_est_sub; assumption. Qed.
Lemma coh_est_apply_unsubs ts l : coh l -> coh (est_apply_unsubs l ts).
Proof. apply (fold_left_pres coh (fun l t => est_remove t l)). intros; apply coh_est_remove; assumption. Qed.

Lemma coh_net_step l o : coh l -> coh (net_step l o).
Proof. destruct o; cbn [net_step]; [auto | apply coh_fold_set | apply coh_fold_remove]. Qed.
Lemma coh_net_effect ops : coh (net_effect ops).
Proof. unfold net_effect. apply fold_left_pres; [intros; apply coh_net_step; assumption | apply coh_nil]. Qed.

Lemma subs_incl_of_get a b :
  coh a -> (forall t, subs_get t a = subs_get t b) -> subs_incl a b = true.
Proof.
  intros Ha H. unfold subs_incl. apply forallb_forall. intros [t q] Hin. cbn [fst snd].
  rewrite <- H, (Ha _ _ Hin). apply N.eqb_refl.
Qed.

Lemma subs_equiv_of_get a b :
  coh a -> coh b -> (forall t, subs_get t a = subs_get t b) -> subs_equiv a b = true.
Proof.
  intros Ha Hb H. unfold subs_equiv. rewrite (subs_incl_of_get a b Ha H).
  rewrite (subs_incl_of_get b a Hb); [reflexivity | intros; symmetry; apply H].
Qed.

(* ------------------------------------------------------------------ *)
(* Part 2: the effect of one call on one topic *)

Definition kop := option (option N).     (* None: the call does not name the topic *)
Definition ap (k : kop) (x : option N) : option N := match k with Some v => v | None => x end.

Fixpoint tsub (t : str) (ss : list sub) : kop :=
  match ss with
  | [] => None
  | s :: r => match tsub t r with
              | Some v => Some v
              | None => if str_eqb t (fst s) then Some (Some (snd s)) else None
              end
  end.
Definition tunsub (t : str) (ts : list str) : kop :=
  if existsb (str_eqb t) ts then Some None else None.

Lemma get_fold_sub_gen (f : list sub -> sub -> list sub) t :
  (forall l s, subs_get t (f l s) = if str_eqb t (fst s) then Some (snd s) else subs_get t l) ->
  forall ss l, subs_get t (fold_left f ss l) = ap (tsub t ss) (subs_get t l).
Proof.
  intros Hf. induction ss as [|s r IH]; intros l; cbn [fold_left tsub]; [reflexivity|].
  rewrite IH, Hf. destruct (tsub t r) as [v|]; cbn [ap]; [reflexivity|].
  destruct (str_eqb t (fst s)); reflexivity.
Qed.

Lemma get_fold_set t ss l : subs_get t (fold_left subs_set ss l) = ap (tsub t ss) (subs_get t l).
Proof. apply get_fold_sub_gen. intros; apply subs_get_set. Qed.
Lemma get_est_apply_subs t ss l : subs_get t (est_apply_subs l ss) = ap (tsub t ss) (subs_get t l).
Proof. unfold est_apply_subs. apply get_fold_sub_gen. intros; apply subs_get_est_sub. Qed.

Lemma get_fold_remove t ts l :
  subs_get t (fold_left (fun l x => subs_remove x l) ts l) = ap (tunsub t ts) (subs_get t l).
Proof.
  unfold tunsub. revert l. induction ts as [|x r IH]; intros l; cbn [fold_left existsb]; [reflexivity|].
  rewrite IH, subs_get_remove. destruct (str_eqb t x); cbn [orb].
  - destruct (existsb (str_eqb t) r); reflexivity.
  - reflexivity.
Qed.
Lemma get_est_apply_unsubs t ts l : subs_get t (est_apply_unsubs l ts) = ap (tunsub t ts) (subs_get t l).
Proof.
  unfold est_apply_unsubs.
  replace (fold_left (fun l0 t0 => est_remove t0 l0) ts l) with (fold_left (fun l x => subs_remove x l) ts l).
  - apply get_fold_remove.
  - revert l. induction ts as [|x r IH]; intros l; cbn [fold_left]; [reflexivity|].
    rewrite (est_remove_eq x l). apply IH.
Qed.

Definition uop_kop (t : str) (o : uop) : kop :=
  match o with UPub _ => None | USub _ ss => tsub t ss | UUnsub _ ts => tunsub t ts end.

Lemma get_net_step t l o : subs_get t (net_step l o) = ap (uop_kop t o) (subs_get t l).
Proof. destruct o; cbn [net_step uop_kop]; [reflexivity | apply get_fold_set | apply get_fold_remove]. Qed.

Lemma net_effect_app ops o : net_effect (ops ++ [o]) = net_step (net_effect ops) o.
Proof. unfold net_effect. rewrite fold_left_app. reflexivity. Qed.

(* ------------------------------------------------------------------ *)
(* Part 3: the per-topic replay *)

Inductive kitem :=
| KRaw (v : option N)     (* a request already applied to the client's view, still to be (re)sent *)
| KBoth (v : option N)    (* a request not yet run: it will be applied to the view and sent *)
| KResub.                 (* a Resubscribe task *)

Definition kmk (mk : option N -> kitem) (k : kop) : list kitem :=
  match k with Some v => [mk v] | None => [] end.

Definition oeqb (a b : option N) : bool := option_eqb N.eqb a b.
Lemma oeqb_eq a b : oeqb a b = true <-> a = b.
Proof.
  destruct a as [x|], b as [y|]; cbn; split; intros H; try discriminate; try reflexivity.
  - apply N.eqb_eq in H. congruence.
  - injection H as ->. apply N.eqb_refl.
Qed.
Lemma oeqb_refl a : oeqb a a = true.
Proof. apply oeqb_eq; reflexivity. Qed.

Definition resub (b e : option N) : option N := match e with Some q => Some q | None => b end.
Lemma resub_same v : resub v v = v.
Proof. destruct v; reflexivity. Qed.
Lemma resub_idem b e : resub (resub b e) e = resub b e.
Proof. destruct e; reflexivity. Qed.

Definition kst := (option N * option N * bool)%type.

Definition kstep (st : kst) (x : kitem) : kst :=
  let '(b, e, ok) := st in
  match x with
  | KRaw v => (v, e, oeqb e v)
  | KBoth v => (v, v, ok)
  | KResub => (resub b e, e, ok)
  end.
Definition krun (st : kst) (q : list kitem) : kst := fold_left kstep q st.

Definition kgood (st : kst) (n : option N) : Prop :=
  let '(b, e, ok) := st in b = e /\ ok = true /\ e = n.
Definition kinv (b e : option N) (q : list kitem) (n : option N) : Prop := kgood (krun (b, e, true) q) n.

Lemma krun_app st q1 q2 : krun st (q1 ++ q2) = krun (krun st q1) q2.
Proof. apply fold_left_app. Qed.
Lemma krun_cons st x q : krun st (x :: q) = krun (kstep st x) q.
Proof. reflexivity. Qed.
Lemma krun_nil st : krun st [] = st.
Proof. reflexivity. Qed.

Definition is_kraw (x : kitem) : Prop := match x with KRaw _ => True | _ => False end.
Definition not_kraw (x : kitem) : Prop := match x with KRaw _ => False | _ => True end.

(* e and the flag do not depend on b *)
Lemma krun_indep q : forall b b' e ok,
  snd (fst (krun (b, e, ok) q)) = snd (fst (krun (b', e, ok) q))
  /\ snd (krun (b, e, ok) q) = snd (krun (b', e, ok) q).
Proof.
  induction q as [|x q IH]; intros b b' e ok; [split; reflexivity|].
  rewrite !krun_cons. destruct x; cbn [kstep]; try apply IH.
Qed.

(* a better starting flag gives a better final flag, nothing else changes *)
Lemma krun_flag q : forall b e ok,
  fst (krun (b, e, ok) q) = fst (krun (b, e, true) q)
  /\ (snd (krun (b, e, ok) q) = true -> snd (krun (b, e, true) q) = true).
Proof.
  induction q as [|x q IH]; intros b e ok.
  - split; [reflexivity | intros _; reflexivity].
  - rewrite !krun_cons. destruct x; cbn [kstep].
    + split; [reflexivity | auto].
    + apply IH.
    + apply IH.
Qed.

Lemma kgood_flag b e ok q n : kgood (krun (b, e, ok) q) n -> kgood (krun (b, e, true) q) n.
Proof.
  destruct (krun_flag q b e ok) as [H1 H2].
  destruct (krun (b, e, ok) q) as [[b1 e1] ok1], (krun (b, e, true) q) as [[b2 e2] ok2].
  cbn [fst snd] in *. injection H1 as -> ->. unfold kgood. intros (Ha & Hb & Hc). auto.
Qed.

(* raw items leave e alone *)
Lemma krun_raws q : Forall is_kraw q -> forall b e ok,
  snd (fst (krun (b, e, ok) q)) = e.
Proof.
  induction 1 as [|x q Hx _ IH]; intros b e ok; [reflexivity|].
  rewrite krun_cons. destruct x; try contradiction. cbn [kstep]. apply IH.
Qed.
Lemma krun_raws_b q : Forall is_kraw q -> forall b e e' ok ok',
  fst (fst (krun (b, e, ok) q)) = fst (fst (krun (b, e', ok') q)).
Proof.
  induction 1 as [|x q Hx _ IH]; intros b e e' ok ok'; [reflexivity|].
  rewrite !krun_cons. destruct x; try contradiction. cbn [kstep]. apply IH.
Qed.

(* non-raw items leave the flag alone *)
Lemma krun_noraw q : Forall not_kraw q -> forall st, snd (krun st q) = snd st.
Proof.
  induction 1 as [|x q Hx _ IH]; intros [[b e] ok]; [reflexivity|].
  rewrite krun_cons, IH. destruct x; try contradiction; reflexivity.
Qed.

(* K1: a new call is appended (possibly in front of a pending virtual Resubscribe) *)
Lemma K_submit b e q k n v :
  v = [] \/ v = [KResub] ->
  kinv b e (q ++ v) n -> kinv b e (q ++ kmk KBoth k ++ v) (ap k n).
Proof.
  unfold kinv. intros Hv. destruct k as [x|]; cbn [kmk ap Datatypes.app]; [|auto].
  rewrite !krun_app. destruct (krun (b, e, true) q) as [[b1 e1] ok1].
  destruct Hv as [-> | ->]; cbn [krun fold_left kstep kgood].
  - intros (_ & H & _). auto.
  - intros (_ & H & _). rewrite resub_same. auto.
Qed.

(* K2: the session is wiped and a Resubscribe becomes pending *)
Lemma K_wipe_aux q : forall e,
  let '(b1, e1, ok1) := krun (None, e, true) q in ok1 = true -> resub b1 e1 = e1.
Proof.
  induction q as [|x q IH] using rev_ind; intros e.
  - cbn. intros _. destruct e; reflexivity.
  - rewrite krun_app. specialize (IH e). destruct (krun (None, e, true) q) as [[b0 e0] ok0].
    destruct x; cbn [krun fold_left kstep].
    + intros H. apply oeqb_eq in H. subst. apply resub_same.
    + intros _. apply resub_same.
    + intros H. rewrite resub_idem. auto.
Qed.

Lemma K_wipe b e q n : kinv b e q n -> kinv None e (q ++ [KResub]) n.
Proof.
  unfold kinv. rewrite krun_app.
  pose proof (K_wipe_aux q e) as W. destruct (krun_indep q b None e true) as [I1 I2].
  destruct (krun (b, e, true) q) as [[b1 e1] ok1], (krun (None, e, true) q) as [[b2 e2] ok2].
  cbn [fst snd] in *. subst. cbn [krun fold_left kstep kgood]. intros (_ & H & H'). auto.
Qed.

(* K3: Resubscribe although the session was kept (AlwaysResubscribe) *)
Lemma K_resub_kept b e q n : kinv b e q n -> kinv b e (q ++ [KResub]) n.
Proof.
  unfold kinv. rewrite krun_app. destruct (krun (b, e, true) q) as [[b1 e1] ok1].
  cbn [krun fold_left kstep kgood]. intros (-> & H & H'). rewrite resub_same. auto.
Qed.

(* K5/K7: a not-yet-run request behind raw entries is run: applied to the view; then either
   acknowledged (only with nothing in front), or it becomes a raw entry, processed or not *)
Lemma K_run_acked b e k t n :
  kinv b e (kmk KBoth k ++ t) n -> kinv (ap k b) (ap k e) t n.
Proof. destruct k as [v|]; cbn [kmk ap Datatypes.app]; auto. Qed.

Lemma K_run_failed b b' e k r t n :
  Forall is_kraw r ->
  b' = b \/ (r = [] /\ b' = ap k b) ->
  kinv b e (r ++ kmk KBoth k ++ t) n -> kinv b' (ap k e) (r ++ kmk KRaw k ++ t) n.
Proof.
  intros Hr Hb. destruct k as [v|]; cbn [kmk ap Datatypes.app].
  - unfold kinv. rewrite !krun_app, !krun_cons.
    assert (Hgoal : forall ok, kgood (krun (v, v, ok) t) n -> kgood (krun (krun (b', v, true) r) (KRaw v :: t)) n).
    { intros ok H. apply kgood_flag in H.
      destruct (krun (b', v, true) r) as [[b2 e2] ok2] eqn:E2.
      assert (e2 = v) by (pose proof (krun_raws r Hr b' v true) as X; rewrite E2 in X; exact X).
      subst e2. rewrite krun_cons. cbn [kstep]. rewrite oeqb_refl. exact H. }
    pose proof (krun_raws r Hr b e true) as X.
    destruct (krun (b, e, true) r) as [[b1 e1] ok1]. cbn [fst snd] in X. subst e1.
    cbn [kstep]. apply Hgoal.
  - destruct Hb as [-> | [-> ->]]; auto.
Qed.

(* K6: a raw entry at the head is sent: acknowledged, or processed / not processed and kept *)
Lemma K_raw_acked b e k t n :
  kinv b e (kmk KRaw k ++ t) n -> kinv (ap k b) e t n.
Proof.
  destruct k as [v|]; cbn [kmk ap Datatypes.app]; [|auto].
  unfold kinv. rewrite krun_cons. cbn [kstep]. apply kgood_flag.
Qed.
Lemma K_raw_kept b e k t n :
  kinv b e (kmk KRaw k ++ t) n -> kinv (ap k b) e (kmk KRaw k ++ t) n.
Proof. destruct k as [v|]; cbn [kmk ap Datatypes.app]; [|auto]. unfold kinv. rewrite !krun_cons. cbn [kstep]. auto. Qed.

(* K9: a Resubscribe task behind the retry queue p is replaced by re-subscriptions in front of it *)
Lemma K_resub_aux p : forall b e,
  let '(b1, e1, ok1) := krun (b, e, true) p in
  let '(b2, _, _) := krun (resub b e, e, true) p in
  ok1 = true -> b2 = resub b1 e1.
Proof.
  induction p as [|x p IH] using rev_ind; intros b e.
  - cbn. auto.
  - rewrite !krun_app. specialize (IH b e).
    destruct (krun_indep p b (resub b e) e true) as [I1 I2].
    destruct (krun (b, e, true) p) as [[b1 e1] ok1], (krun (resub b e, e, true) p) as [[b2 e2] ok2].
    cbn [fst snd] in *. subst e2 ok2.
    destruct x; cbn [krun fold_left kstep].
    + intros H. apply oeqb_eq in H. subst. symmetry; apply resub_same.
    + intros _. symmetry; apply resub_same.
    + intros H. rewrite (IH H). rewrite resub_idem. reflexivity.
Qed.

Lemma K_resub b e p t n :
  Forall not_kraw t ->
  kinv b e (p ++ KResub :: t) n -> kinv (resub b e) e (p ++ t) n.
Proof.
  intros Ht. unfold kinv. rewrite !krun_app, krun_cons.
  pose proof (K_resub_aux p b e) as L. destruct (krun_indep p b (resub b e) e true) as [I1 I2].
  destruct (krun (b, e, true) p) as [[b1 e1] ok1], (krun (resub b e, e, true) p) as [[b2 e2] ok2].
  cbn [fst snd] in *. subst e2 ok2. cbn [kstep]. intros H.
  assert (ok1 = true).
  { pose proof (krun_noraw t Ht (resub b1 e1, e1, ok1)) as X. cbn [snd] in X.
    destruct (krun (resub b1 e1, e1, ok1) t) as [[b3 e3] ok3]. cbn [snd kgood] in *. destruct H as (_ & H & _). congruence. }
  rewrite (L H0). exact H.
Qed.

(* the deferred re-subscriptions of a coherent view restore it *)
Lemma K_restore (l : list kitem) v : forall b e ok,
  (forall x, In x l -> x = KBoth v) ->
  krun (b, e, ok) l = match l with [] => (b, e, ok) | _ => (v, v, ok) end.
Proof.
  induction l as [|x l IH]; intros b e ok H; [reflexivity|].
  rewrite krun_cons. rewrite (H x (or_introl eq_refl)). cbn [kstep].
  rewrite IH by (intros; apply H; right; assumption). destruct l; reflexivity.
Qed.
