(* RetryInv_WireC.v — part 5: per-connection order of the PUBLISH packets. *)
From MQ Require Import Base RetryCore RetrySys CheckRetry RetryProps RetryInv_Wire RetryInv_WireBase.
Open Scope nat_scope.

Definition pon_of (j k : nat) (p : pkt) (res : wres) : list nat :=
  match p, res with
  | PPublish m _, WDead => []
  | PPublish m _, _ => if j =? k then [p_uid m] else []
  | _, _ => []
  end.

Lemma publishes_on_snoc j W k p r : publishes_on j (W ++ [(k, p, r)]) = publishes_on j W ++ pon_of j k p r.
Proof.
  unfold publishes_on. rewrite flat_map_app. cbn [flat_map]. rewrite app_nil_r. reflexivity.
Qed.

Lemma publishes_on_In u j W :
  In u (publishes_on j W) -> exists m d r, In (j, PPublish m d, r) W /\ p_uid m = u /\ r <> WDead.
Proof.
  unfold publishes_on. rewrite in_flat_map. intros ([[k p] r] & Hin & Hx).
  destruct p as [m d| | |]; cbn in Hx; try contradiction.
  destruct r; cbn in Hx; try contradiction;
    (destruct (j =? k) eqn:E; cbn in Hx; try contradiction;
     apply Nat.eqb_eq in E; subst k; destruct Hx as [<-|[]];
     eexists m, d, _; repeat split; [exact Hin|discriminate]).
Qed.

Record KC (w : world) (k : nat) (Pd Pt : list rentry) : Prop := {
  kc_nd : forall j, nondecreasing_from 0 (publishes_on j (w_wire w)) = true;
  kc_other : forall j, j <> k -> alive w j = true -> forall u, In u (publishes_on j (w_wire w)) ->
             forall e, In e (Pd ++ Pt) -> entry_uid e <> 0 -> u <= entry_uid e;
  kc_cur : alive w k = true -> forall u, In u (publishes_on k (w_wire w)) ->
           forall e, In e Pt -> entry_uid e <> 0 -> u <= entry_uid e;
  kc_nrbe : w_nrbe w = false -> forall e, In e Pd -> entry_uid e = 0
}.

Lemma KC_rearr w k Pd Pt w' Pd' Pt' :
  KC w k Pd Pt -> w_wire w' = w_wire w -> (forall j, alive w' j = true -> alive w j = true) ->
  (forall e, In e (Pd' ++ Pt') -> entry_uid e <> 0 -> In e (Pd ++ Pt)) ->
  (forall e, In e Pt' -> entry_uid e <> 0 -> In e Pt) ->
  (w_nrbe w' = false -> forall e, In e Pd' -> entry_uid e = 0) ->
  KC w' k Pd' Pt'.
Proof.
  intros [] E M H1 H2 H3. split; rewrite ?E; auto; intros;
    first [eapply kc_other0; eauto; fail | eapply kc_cur0; eauto].
Qed.

Lemma KC_send fp S w Pd e Pt p e' k w1 r res :
  KB S w (Pd ++ e :: Pt) -> KC w k Pd (e :: Pt) -> allowed e p e' -> send_post fp w k p w1 r res ->
  KC w1 k Pd (e' :: Pt).
Proof.
  intros B [] Al [sp_wire0 _ sp_nrbe0 _ sp_mono0 sp_live0 _ _].
  assert (He : In e (Pd ++ e :: Pt)) by (apply in_mid; left; reflexivity).
  destruct (allowed_uid _ _ _ Al) as [U1 U2].
  assert (EP : forall j, publishes_on j (w_wire w1) = publishes_on j (w_wire w) ++ pon_of j k p res)
    by (intros; rewrite sp_wire0; apply publishes_on_snoc).
  (* a live PUBLISH for e *)
  assert (Live : forall j u, In u (pon_of j k p res) ->
            j = k /\ u = entry_uid e /\ entry_uid e <> 0 /\ alive w k = true).
  { intros j u Hu. unfold pon_of in Hu. destruct p as [m d| | |]; try (destruct res; destruct Hu; fail).
    pose proof (allowed_publish _ _ _ _ Al) as Hm.
    destruct (kb_sub _ _ _ B _ _ He Hm) as [_ Nm]. rewrite (pub_of_uid _ _ Hm).
    destruct (j =? k) eqn:E; [apply Nat.eqb_eq in E|destruct res; destruct Hu].
    destruct res; try (destruct Hu; fail); destruct Hu as [<-|[]]; repeat split; auto;
      apply sp_live0; discriminate. }
  split.
  - intros j. rewrite EP. destruct (pon_of j k p res) as [|u l] eqn:Q; [rewrite app_nil_r; auto|].
    assert (l = []) by (unfold pon_of in Q; destruct p, res; try discriminate; destruct (j =? k); inversion Q; reflexivity).
    subst l. destruct (Live j u) as (-> & -> & N & A); [rewrite Q; left; reflexivity|].
    apply nd_snoc; [auto|lia|]. intros y Hy. apply (kc_cur0 A y Hy e); [left; reflexivity|exact N].
  - intros j N A u Hu x Hx Nx. rewrite EP in Hu. apply in_app_or in Hu as [Hu|Hu].
    2:{ destruct (Live j u Hu) as (-> & _). congruence. }
    apply in_mid in Hx as [->|Hx].
    + rewrite U1. eapply kc_other0; eauto. rewrite U1 in Nx. exact Nx.
    + eapply kc_other0; eauto. apply in_mid. right; exact Hx.
  - intros A u Hu x Hx Nx. rewrite EP in Hu. apply in_app_or in Hu as [Hu|Hu].
    + destruct Hx as [<-|Hx].
      * rewrite U1 in *. apply (kc_cur0 (sp_mono0 _ A) u Hu e); [left; reflexivity|exact Nx].
      * apply (kc_cur0 (sp_mono0 _ A) u Hu x); [right; exact Hx|exact Nx].
    + destruct (Live k u Hu) as (_ & -> & N & _).
      destruct Hx as [<-|Hx]; [lia|].
      destruct (ord_mid _ _ _ (kb_inc _ _ _ B) N) as [_ O2]. specialize (O2 _ Hx Nx). lia.
  - rewrite sp_nrbe0. exact kc_nrbe0.
Qed.

Lemma KC_finish w k Pd Pt w' k' :
  KC w k Pd Pt -> w_wire w' = w_wire w ->
  (forall j, alive w' j = true -> alive w j = true \/ publishes_on j (w_wire w) = []) ->
  (w_nrbe w = true -> alive w' k = false) -> w_nrbe w' = false ->
  KC w' k' [] (Pd ++ Pt).
Proof.
  intros [] E M Hk Hn.
  assert (G : forall j, alive w' j = true -> forall u, In u (publishes_on j (w_wire w)) ->
              forall e, In e (Pd ++ Pt) -> entry_uid e <> 0 -> u <= entry_uid e).
  { intros j A u Hu e He Ne. destruct (M j A) as [A'|Z]; [|rewrite Z in Hu; destruct Hu].
    destruct (Nat.eq_dec j k) as [->|N]; [|eapply kc_other0; eauto].
    destruct (w_nrbe w) eqn:Q; [rewrite Hk in A; [discriminate|reflexivity]|].
    apply in_app_or in He as [He|He]; [specialize (kc_nrbe0 eq_refl _ He); contradiction|].
    eapply kc_cur0; eauto. }
  split; rewrite ?E; cbn [List.app]; auto;
    try (intros; eapply G; eauto; fail); try (intros _ e []).
Qed.

Lemma KC_submit S w k P o :
  KB S w P -> KC w k [] P -> (forall x, In x (uids S) -> x < uop_uid o) ->
  KC w k [] (P ++ [op_entry o]).
Proof.
  intros B [] Hlt.
  assert (G : forall j u, In u (publishes_on j (w_wire w)) -> u <= entry_uid (op_entry o)).
  { intros j u Hu. apply publishes_on_In in Hu as (m & d & r & Hin & <- & _).
    pose proof (kb_wsub _ _ _ B _ _ _ _ Hin) as Hs. rewrite op_entry_uid.
    apply Nat.lt_le_incl, Hlt. unfold uids. change (p_uid m) with (uop_uid (UPub m)). apply in_map; exact Hs. }
  split; auto.
  - intros j N A u Hu e He Ne. cbn [List.app] in He. apply in_app_or in He as [He|[<-|[]]]; [|eauto].
    eapply kc_other0; eauto.
  - intros A u Hu e He Ne. apply in_app_or in He as [He|[<-|[]]]; [|eauto].
    eapply kc_cur0; eauto.
Qed.
