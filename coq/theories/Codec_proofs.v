(* Codec_proofs.v — every packet the encoder model produces is read back by the independent
   decoder as exactly the requested fields; the remaining-length field is the minimal encoding
   of the body length for every length up to 268,435,455. *)
From MQ Require Import Base Codec SpecDecode.
Open Scope N_scope.

Lemma some_inj {A} (a b : A) : Some a = Some b -> a = b.
Proof. congruence. Qed.

(* ---------- bit operations on one byte: finite sweep over 0..255 ---------- *)

Lemma byte_sweep :
  forallb (fun b => (N.lor b 128 =? b mod 128 + 128) && (N.land b 127 =? b mod 128))
          (map N.of_nat (seq 0 256)) = true.
Proof. vm_compute. reflexivity. Qed.

Lemma byte_bits b : b < 256 -> N.lor b 128 = b mod 128 + 128 /\ N.land b 127 = b mod 128.
Proof.
  intros Hb. pose proof byte_sweep as Hs. rewrite forallb_forall in Hs.
  assert (Hin : In b (map N.of_nat (seq 0 256))).
  { apply in_map_iff. exists (N.to_nat b). split; [apply N2Nat.id | apply in_seq; lia]. }
  apply Hs in Hin. apply andb_true_iff in Hin as [H1 H2].
  apply N.eqb_eq in H1. apply N.eqb_eq in H2. split; assumption.
Qed.

Lemma lor_go_byte x : N.lor (x mod 256) 128 = x mod 128 + 128.
Proof.
  destruct (byte_bits (x mod 256)) as [H _]; [lia|]. rewrite H. lia.
Qed.

Lemma land_go_byte x : N.land (x mod 256) 127 = x mod 128.
Proof.
  destruct (byte_bits (x mod 256)) as [_ H]; [lia|]. rewrite H. lia.
Qed.

Lemma shiftr7 n : N.shiftr n 7 = n / 128.
Proof. rewrite N.shiftr_div_pow2. reflexivity. Qed.
Lemma shiftr8 n : N.shiftr n 8 = n / 256.
Proof. rewrite N.shiftr_div_pow2. reflexivity. Qed.
Lemma shiftr14 n : N.shiftr n 14 = n / 16384.
Proof. rewrite N.shiftr_div_pow2. reflexivity. Qed.
Lemma shiftr21 n : N.shiftr n 21 = n / 2097152.
Proof. rewrite N.shiftr_div_pow2. reflexivity. Qed.

(* ---------- remaining length ---------- *)

(* the Go shifts and masks compute the arithmetic form *)
Lemma remaining_length_go_eq n : remaining_length_go n = remaining_length n.
Proof.
  unfold remaining_length_go, remaining_length, go_byte.
  rewrite !shiftr7, !shiftr14, !shiftr21, !lor_go_byte, !land_go_byte.
  destruct (n <=? 127) eqn:E1; [|reflexivity].
  f_equal. f_equal. lia.
Qed.

(* the five ranges of the remaining-length function *)
Ltac rl_cases n :=
  destruct (n <=? 127) eqn:E1;
  [|destruct (n <=? 16383) eqn:E2;
    [|destruct (n <=? 2097151) eqn:E3;
      [|destruct (n <=? 268435455) eqn:E4]]].

Theorem varint_defined_iff n : n <= 268435455 <-> exists rl, remaining_length n = Some rl.
Proof.
  unfold remaining_length. split.
  - intros H. rl_cases n; try (eexists; reflexivity). lia.
  - intros [rl H]. rl_cases n; try lia. discriminate.
Qed.

Lemma dv_more f mult acc b r : 128 <= b ->
  decode_varint (S f) mult acc (b :: r) = decode_varint f (mult * 128) (acc + (b mod 128) * mult) r.
Proof.
  intros Hb. cbn [decode_varint]. destruct (b <? 128) eqn:E; [lia | reflexivity].
Qed.

Lemma dv_last f mult acc b r : b < 128 ->
  decode_varint (S f) mult acc (b :: r) = Some (acc + (b mod 128) * mult, r).
Proof.
  intros Hb. cbn [decode_varint]. destruct (b <? 128) eqn:E; [reflexivity | lia].
Qed.

Theorem varint_roundtrip n rl r : remaining_length n = Some rl ->
  decode_varint 4 1 0 (rl ++ r) = Some (n, r).
Proof.
  unfold remaining_length. intros H.
  rl_cases n; try discriminate; injection H as <-; cbn [app].
  - rewrite dv_last by lia. f_equal. f_equal. lia.
  - rewrite dv_more by lia. rewrite dv_last by lia. f_equal. f_equal. lia.
  - rewrite dv_more by lia. rewrite dv_more by lia. rewrite dv_last by lia. f_equal. f_equal. lia.
  - rewrite dv_more by lia. rewrite dv_more by lia. rewrite dv_more by lia. rewrite dv_last by lia.
    f_equal. f_equal. lia.
Qed.

Theorem varint_minimal n rl : remaining_length n = Some rl -> length rl = min_varint_len n.
Proof.
  unfold remaining_length, min_varint_len. intros H.
  rl_cases n; try discriminate; injection H as <-; reflexivity.
Qed.

Theorem varint_bytes n rl : remaining_length n = Some rl -> Forall (fun b => b < 256) rl.
Proof.
  unfold remaining_length. intros H.
  rl_cases n; try discriminate; injection H as <-; repeat constructor; lia.
Qed.

Lemma dv_shrinks k : forall mult acc bs n r,
  decode_varint k mult acc bs = Some (n, r) -> (length r < length bs)%nat.
Proof.
  induction k as [|k IH]; intros mult acc bs n r H; cbn [decode_varint] in H; [discriminate|].
  destruct bs as [|b bs]; [discriminate|].
  destruct (b <? 128).
  - injection H as _ <-. cbn [length]. lia.
  - apply IH in H. cbn [length]. lia.
Qed.

Ltac mvl_cases :=
  unfold min_varint_len;
  repeat match goal with |- context [?a <=? ?b] => destruct (a <=? b) eqn:? end.

(* no shorter encoding exists: any byte string that decodes to n has at least min_varint_len n bytes *)
Theorem varint_no_shorter n bs r k : decode_varint k 1 0 bs = Some (n, r) ->
  (min_varint_len n <= length bs - length r)%nat.
Proof.
  intros H.
  destruct k as [|k1]; cbn [decode_varint] in H; [discriminate|].
  destruct bs as [|b1 bs1]; [discriminate|].
  destruct (b1 <? 128) eqn:B1.
  { injection H as Hn <-. cbn [length]. mvl_cases; lia. }
  destruct k1 as [|k2]; cbn [decode_varint] in H; [discriminate|].
  destruct bs1 as [|b2 bs2]; [discriminate|].
  destruct (b2 <? 128) eqn:B2.
  { injection H as Hn <-. cbn [length]. mvl_cases; lia. }
  destruct k2 as [|k3]; cbn [decode_varint] in H; [discriminate|].
  destruct bs2 as [|b3 bs3]; [discriminate|].
  destruct (b3 <? 128) eqn:B3.
  { injection H as Hn <-. cbn [length]. mvl_cases; lia. }
  apply dv_shrinks in H. cbn [length]. mvl_cases; lia.
Qed.

(* ---------- framing ---------- *)

Lemma take_n_app body r : take_n (len body) (body ++ r) = Some (body, r).
Proof.
  unfold take_n, len. rewrite app_length.
  destruct (N.of_nat (length body) <=? N.of_nat (length body + length r)) eqn:E; [|lia].
  rewrite Nat2N.id, firstn_app, skipn_app, Nat.sub_diag, firstn_all, skipn_all.
  cbn [firstn skipn app]. rewrite app_nil_r. reflexivity.
Qed.

Lemma dec_u16_bytes v r : v < 65536 -> dec_u16 (uint16_bytes v ++ r) = Some (v, r).
Proof.
  intros Hv. unfold uint16_bytes, go_byte. rewrite shiftr8. cbn [app dec_u16].
  f_equal. f_equal. lia.
Qed.

Lemma dec_str_pack s b r : pack_bytes s = Some b -> dec_str (b ++ r) = Some (s, r).
Proof.
  unfold pack_bytes. destruct (len s <=? 65535) eqn:E; [|discriminate].
  intros H. apply some_inj in H. subst b. unfold dec_str.
  rewrite <- app_assoc, dec_u16_bytes by lia. apply take_n_app.
Qed.

Lemma pack_bytes_nonnil s b : pack_bytes s = Some b -> b <> [].
Proof.
  unfold pack_bytes. destruct (len s <=? 65535); [|discriminate].
  intros H. apply some_inj in H. subst b. unfold uint16_bytes. cbn [app]. discriminate.
Qed.

(* pack succeeds exactly when the body fits the protocol limit *)
Theorem pack_defined_iff typ body : len body <= 268435455 <-> exists b, pack typ body = Some b.
Proof.
  unfold pack. rewrite remaining_length_go_eq, varint_defined_iff. split.
  - intros [rl H]. rewrite H. eexists. reflexivity.
  - intros [b H]. destruct (remaining_length (len body)) as [rl|]; [eexists; reflexivity | discriminate].
Qed.

(* the per-type part of spec_decode, once the frame has been cut out *)
Definition dec_body (typ fl : N) (body : list N) : option packet :=
  match typ with
  | 1 => if fl =? 0 then dec_connect body else None
  | 2 => if fl =? 0 then
           match body with
           | [a; c] => if a <=? 1 then Some (PConnAck (a =? 1) c) else None
           | _ => None
           end else None
  | 3 => let qos := (fl / 2) mod 4 in
         if qos =? 3 then None else
         opt_bind (dec_str body) (fun '(t, r) =>
         if qos =? 0 then Some (PPublish (testbit fl 3) qos (testbit fl 0) t None r)
         else opt_bind (dec_u16 r) (fun '(id, r') =>
              Some (PPublish (testbit fl 3) qos (testbit fl 0) t (Some id) r')))
  | 4 => if fl =? 0 then dec_id_only PPubAck body else None
  | 5 => if fl =? 0 then dec_id_only PPubRec body else None
  | 6 => if fl =? 2 then dec_id_only PPubRel body else None
  | 7 => if fl =? 0 then dec_id_only PPubComp body else None
  | 8 => if fl =? 2 then
           opt_bind (dec_u16 body) (fun '(id, r) =>
           opt_bind (dec_subs (S (length r)) r) (fun subs =>
           match subs with [] => None | _ => Some (PSubscribe id subs) end))
         else None
  | 9 => if fl =? 0 then
           opt_bind (dec_u16 body) (fun '(id, r) => Some (PSubAck id r))
         else None
  | 10 => if fl =? 2 then
            opt_bind (dec_u16 body) (fun '(id, r) =>
            opt_bind (dec_topics (S (length r)) r) (fun ts =>
            match ts with [] => None | _ => Some (PUnsubscribe id ts) end))
          else None
  | 11 => if fl =? 0 then dec_id_only PUnsubAck body else None
  | 12 => if (fl =? 0) && is_nil_b body then Some PPingReq else None
  | 13 => if (fl =? 0) && is_nil_b body then Some PPingResp else None
  | 14 => if (fl =? 0) && is_nil_b body then Some PDisconnect else None
  | _ => None
  end.

Lemma spec_decode_pack typ body b r : pack typ body = Some b ->
  spec_decode (b ++ r) = opt_bind (dec_body (typ / 16) (typ mod 16) body) (fun p => Some (p, r)).
Proof.
  unfold pack. rewrite remaining_length_go_eq.
  destruct (remaining_length (len body)) as [rl|] eqn:E; [|discriminate].
  intros H. apply some_inj in H. subst b.
  cbn [app]. unfold spec_decode. rewrite <- app_assoc.
  rewrite (varint_roundtrip _ _ _ E). cbn [opt_bind].
  rewrite take_n_app. cbn [opt_bind]. reflexivity.
Qed.

(* ---------- PUBLISH ---------- *)

Lemma publish_header_bits ret dup q : q <= 2 ->
  (48 + b2n ret 1 + 2 * q + b2n dup 8) / 16 = 3 /\
  (((48 + b2n ret 1 + 2 * q + b2n dup 8) mod 16) / 2) mod 4 = q /\
  testbit ((48 + b2n ret 1 + 2 * q + b2n dup 8) mod 16) 3 = dup /\
  testbit ((48 + b2n ret 1 + 2 * q + b2n dup 8) mod 16) 0 = ret.
Proof.
  intros Hq. assert (Hc : q = 0 \/ q = 1 \/ q = 2) by lia.
  destruct Hc as [-> | [-> | ->]]; destruct ret, dup; vm_compute; repeat split; reflexivity.
Qed.

Theorem publish_roundtrip m b r : pack_publish m = Some b -> m_id m < 65536 ->
  spec_decode (b ++ r) =
    Some (PPublish (m_dup m) (m_qos m) (m_retain m) (m_topic m)
                   (if m_qos m =? 0 then None else Some (m_id m)) (m_payload m), r).
Proof.
  intros H Hid. unfold pack_publish, bind, publish_header_byte in H.
  destruct (m_qos m <=? 2) eqn:Eq; [|discriminate].
  destruct (pack_bytes (m_topic m)) as [t|] eqn:Et; [|discriminate].
  rewrite (spec_decode_pack _ _ _ _ H).
  destruct (publish_header_bits (m_retain m) (m_dup m) (m_qos m)) as (H1 & H2 & H3 & H4); [lia|].
  rewrite H1. unfold dec_body. cbv beta iota zeta. rewrite H2, H3, H4.
  rewrite (dec_str_pack _ _ _ Et). cbn [opt_bind].
  destruct (m_qos m =? 3) eqn:E3; [lia|].
  destruct (m_qos m =? 0) eqn:E0.
  - cbn [app opt_bind]. reflexivity.
  - rewrite dec_u16_bytes by lia. cbn [opt_bind]. reflexivity.
Qed.

Theorem publish_defined m : m_qos m <= 2 -> len (m_topic m) <= 65535 ->
  len (m_topic m) + len (m_payload m) + 4 <= 268435455 -> exists b, pack_publish m = Some b.
Proof.
  intros Hq Ht Hl. unfold pack_publish, bind, publish_header_byte, pack_bytes.
  destruct (m_qos m <=? 2) eqn:Eq; [|lia].
  destruct (len (m_topic m) <=? 65535) eqn:Et; [|lia].
  apply pack_defined_iff. unfold len in *. unfold uint16_bytes.
  destruct (m_qos m =? 0); rewrite !app_length; cbn [length]; lia.
Qed.

(* what the property asks: QoS above 2 and payloads over the configured maximum are rejected *)
Theorem validate_rejects max m :
  2 < m_qos m \/ (max <> 0 /\ max < len (m_payload m)) -> validate_message max m <> 0.
Proof.
  unfold validate_message. intros H.
  destruct (max =? 0) eqn:E0; destruct (max <=? len (m_payload m)) eqn:E1;
    destruct (2 <? m_qos m) eqn:E2; cbn [negb andb]; lia.
Qed.

(* what the code does exactly (it already rejects a payload of exactly max bytes) *)
Theorem validate_accepts_iff max m :
  validate_message max m = 0 <-> (m_qos m <= 2 /\ (max = 0 \/ len (m_payload m) < max)).
Proof.
  unfold validate_message.
  destruct (max =? 0) eqn:E0; destruct (max <=? len (m_payload m)) eqn:E1;
    destruct (2 <? m_qos m) eqn:E2; cbn [negb andb]; lia.
Qed.

(* ---------- CONNECT ---------- *)

Definition will_fields (w : will) := (w_topic w, w_payload w, w_qos w, w_retain w).
Definition opt_str (s : str) : option str := if nonempty s then Some s else None.

Lemma connect_flags_bits c :
  (forall w, c_will c = Some w -> w_qos w <= 2) ->
  testbit (connect_flags c) 0 = false /\
  testbit (connect_flags c) 1 = c_clean c /\
  testbit (connect_flags c) 2 = (match c_will c with Some _ => true | None => false end) /\
  (connect_flags c / 8) mod 4 = (match c_will c with Some w => w_qos w | None => 0 end) /\
  testbit (connect_flags c) 5 = (match c_will c with Some w => w_retain w | None => false end) /\
  testbit (connect_flags c) 6 = nonempty (c_pass c) /\
  testbit (connect_flags c) 7 = nonempty (c_user c).
Proof.
  intros Hw. unfold connect_flags.
  destruct (c_will c) as [w|].
  - assert (Hq : w_qos w = 0 \/ w_qos w = 1 \/ w_qos w = 2) by (specialize (Hw w eq_refl); lia).
    destruct Hq as [-> | [-> | ->]];
      destruct (c_clean c), (w_retain w), (nonempty (c_user c)), (nonempty (c_pass c));
      vm_compute; repeat split; reflexivity.
  - destruct (c_clean c), (nonempty (c_user c)), (nonempty (c_pass c));
      vm_compute; repeat split; reflexivity.
Qed.

Lemma nonempty_false s : nonempty s = false -> s = [].
Proof. destruct s; [reflexivity | discriminate]. Qed.

Lemma nonempty_true s : nonempty s = true -> s <> [].
Proof. destruct s; [discriminate | intros _; discriminate]. Qed.

Lemma pack_mqtt_name : pack_bytes [77; 81; 84; 84] = Some [0; 4; 77; 81; 84; 84].
Proof. vm_compute. reflexivity. Qed.

Ltac dec_steps :=
  repeat first
    [ rewrite dec_u16_bytes by lia
    | erewrite dec_str_pack by eassumption
    | progress cbn [opt_bind app] ].

Lemma dec_connect_body c cid wl us pw :
  pack_bytes (c_client_id c) = Some cid ->
  match c_will c with
  | None => Some []
  | Some w => bind (pack_bytes (w_topic w)) (fun t =>
              bind (pack_bytes (w_payload w)) (fun p => Some (t ++ p)))
  end = Some wl ->
  (if nonempty (c_user c) then pack_bytes (c_user c) else Some []) = Some us ->
  (if nonempty (c_pass c) then pack_bytes (c_pass c) else Some []) = Some pw ->
  c_level c < 256 -> c_keepalive c < 65536 ->
  (c_pass c <> [] -> c_user c <> []) ->
  (forall w, c_will c = Some w -> w_qos w <= 2) ->
  dec_connect ([0; 4; 77; 81; 84; 84; go_byte (c_level c); connect_flags c]
               ++ uint16_bytes (c_keepalive c) ++ cid ++ wl ++ us ++ pw) =
    Some (PConnect (c_level c) (c_clean c) (c_keepalive c) (c_client_id c)
                   (option_map will_fields (c_will c)) (opt_str (c_user c)) (opt_str (c_pass c))).
Proof.
  intros Hcid Hwl Hus Hpw Hl Hk Hpu Hw.
  destruct (connect_flags_bits c Hw) as (F0 & F1 & F2 & F3 & F5 & F6 & F7).
  unfold dec_connect.
  change ([0; 4; 77; 81; 84; 84; go_byte (c_level c); connect_flags c]
          ++ uint16_bytes (c_keepalive c) ++ cid ++ wl ++ us ++ pw)
    with ([0; 4; 77; 81; 84; 84]
          ++ go_byte (c_level c) :: connect_flags c
             :: uint16_bytes (c_keepalive c) ++ cid ++ wl ++ us ++ pw).
  rewrite (dec_str_pack _ _ _ pack_mqtt_name). cbn [opt_bind].
  rewrite str_eqb_refl. cbn [negb]. cbv zeta.
  rewrite F0, F1, F2, F3, F5, F6, F7.
  replace (go_byte (c_level c)) with (c_level c) by (unfold go_byte; lia).
  replace pw with (pw ++ []) by apply app_nil_r.
  unfold opt_str.
  assert (Hq3 : forall q, q <= 2 -> (q =? 3) = false) by (intros q Hq; lia).
  destruct (nonempty (c_pass c)) eqn:Ep; destruct (nonempty (c_user c)) eqn:Eu.
  2: { exfalso. apply nonempty_true in Ep. apply nonempty_false in Eu. tauto. }
  all: destruct (c_will c) as [w|] eqn:Ew.
  all: try (unfold bind in Hwl;
            destruct (pack_bytes (w_topic w)) as [wt|] eqn:Ewt; [|discriminate];
            destruct (pack_bytes (w_payload w)) as [wp|] eqn:Ewp; [|discriminate];
            rewrite (Hq3 (w_qos w)) by (apply Hw; reflexivity)).
  all: apply some_inj in Hwl; subst wl.
  all: try (apply some_inj in Hus; subst us).
  all: try (apply some_inj in Hpw; subst pw).
  all: change (0 =? 3) with false; change (0 =? 0) with true; cbn [negb andb orb].
  all: rewrite <- ?app_assoc.
  all: dec_steps.
  all: reflexivity.
Qed.

Theorem connect_roundtrip c b r : pack_connect c = Some b ->
  c_level c < 256 -> c_keepalive c < 65536 ->
  (c_pass c <> [] -> c_user c <> []) ->                      (* MQTT-3.1.2-22, not enforced by the library *)
  (forall w, c_will c = Some w -> w_qos w <= 2) ->           (* enforced by WithWill *)
  spec_decode (b ++ r) =
    Some (PConnect (c_level c) (c_clean c) (c_keepalive c) (c_client_id c)
                   (option_map will_fields (c_will c)) (opt_str (c_user c)) (opt_str (c_pass c)), r).
Proof.
  intros H Hl Hk Hpu Hw. unfold pack_connect in H. unfold bind at 1 in H.
  destruct (pack_bytes (c_client_id c)) as [cid|] eqn:Hcid; [|discriminate].
  unfold bind at 1 in H.
  match type of H with match ?x with _ => _ end = _ => destruct x as [wl|] eqn:Hwl; [|discriminate] end.
  unfold bind at 1 in H.
  match type of H with match ?x with _ => _ end = _ => destruct x as [us|] eqn:Hus; [|discriminate] end.
  unfold bind at 1 in H.
  match type of H with match ?x with _ => _ end = _ => destruct x as [pw|] eqn:Hpw; [|discriminate] end.
  rewrite (spec_decode_pack _ _ _ _ H).
  change (16 / 16) with 1. change (16 mod 16) with 0. unfold dec_body.
  change (0 =? 0) with true. cbv beta iota.
  rewrite (dec_connect_body c cid wl us pw Hcid Hwl Hus Hpw Hl Hk Hpu Hw).
  reflexivity.
Qed.

(* ---------- SUBSCRIBE / UNSUBSCRIBE ---------- *)

Lemma dec_subs_S f bs : bs <> [] ->
  dec_subs (S f) bs =
    opt_bind (dec_str bs) (fun '(t, r) =>
      match r with
      | q :: r' => if q <=? 2 then opt_bind (dec_subs f r') (fun rest => Some ((t, q) :: rest)) else None
      | [] => None
      end).
Proof. destruct bs; [congruence | reflexivity]. Qed.

Lemma dec_topics_S f bs : bs <> [] ->
  dec_topics (S f) bs =
    opt_bind (dec_str bs) (fun '(t, r) => opt_bind (dec_topics f r) (fun rest => Some (t :: rest))).
Proof. destruct bs; [congruence | reflexivity]. Qed.

Lemma dec_subs_payload subs : forall p fuel,
  sub_payload subs = Some p -> (length p < fuel)%nat -> dec_subs fuel p = Some subs.
Proof.
  induction subs as [|[t q] rest IH]; intros p fuel H Hf; cbn [sub_payload] in H.
  - apply some_inj in H. subst p. destruct fuel as [|f]; [lia | reflexivity].
  - unfold bind in H.
    destruct (pack_bytes t) as [tb|] eqn:Et; [|discriminate].
    destruct (q <=? 2) eqn:Eq; [|discriminate].
    destruct (sub_payload rest) as [pr|] eqn:Er; [|discriminate].
    apply some_inj in H. subst p.
    destruct fuel as [|f]; [lia|].
    rewrite dec_subs_S
      by (intros Hnil; apply app_eq_nil in Hnil; destruct Hnil as [_ Hnil]; discriminate).
    rewrite (dec_str_pack _ _ _ Et). cbn [opt_bind]. rewrite Eq.
    rewrite (IH pr f eq_refl) by (rewrite app_length in Hf; cbn [length] in Hf; lia).
    reflexivity.
Qed.

Lemma dec_topics_payload topics : forall p fuel,
  unsub_payload topics = Some p -> (length p < fuel)%nat -> dec_topics fuel p = Some topics.
Proof.
  induction topics as [|t rest IH]; intros p fuel H Hf; cbn [unsub_payload] in H.
  - apply some_inj in H. subst p. destruct fuel as [|f]; [lia | reflexivity].
  - unfold bind in H.
    destruct (pack_bytes t) as [tb|] eqn:Et; [|discriminate].
    destruct (unsub_payload rest) as [pr|] eqn:Er; [|discriminate].
    apply some_inj in H. subst p.
    destruct fuel as [|f]; [lia|].
    pose proof (pack_bytes_nonnil _ _ Et) as Htb.
    rewrite dec_topics_S
      by (intros Hnil; apply app_eq_nil in Hnil; destruct Hnil as [Hnil _]; contradiction).
    rewrite (dec_str_pack _ _ _ Et). cbn [opt_bind].
    assert (Hlen : (1 <= length tb)%nat) by (destruct tb; [congruence | cbn [length]; lia]).
    rewrite (IH pr f eq_refl) by (rewrite app_length in Hf; lia).
    reflexivity.
Qed.

Theorem subscribe_roundtrip id subs b r : pack_subscribe id subs = Some b -> id < 65536 -> subs <> [] ->
  spec_decode (b ++ r) = Some (PSubscribe id subs, r).
Proof.
  intros H Hid Hne. unfold pack_subscribe, bind in H.
  destruct (sub_payload subs) as [p|] eqn:Ep; [|discriminate].
  rewrite (spec_decode_pack _ _ _ _ H).
  change (130 / 16) with 8. change (130 mod 16) with 2. unfold dec_body.
  change (2 =? 2) with true. cbv beta iota.
  rewrite dec_u16_bytes by lia. cbn [opt_bind].
  rewrite (dec_subs_payload _ _ _ Ep) by lia. cbn [opt_bind].
  destruct subs; [congruence | reflexivity].
Qed.

Theorem unsubscribe_roundtrip id topics b r : pack_unsubscribe id topics = Some b -> id < 65536 -> topics <> [] ->
  spec_decode (b ++ r) = Some (PUnsubscribe id topics, r).
Proof.
  intros H Hid Hne. unfold pack_unsubscribe, bind in H.
  destruct (unsub_payload topics) as [p|] eqn:Ep; [|discriminate].
  rewrite (spec_decode_pack _ _ _ _ H).
  change (162 / 16) with 10. change (162 mod 16) with 2. unfold dec_body.
  change (2 =? 2) with true. cbv beta iota.
  rewrite dec_u16_bytes by lia. cbn [opt_bind].
  rewrite (dec_topics_payload _ _ _ Ep) by lia. cbn [opt_bind].
  destruct topics; [congruence | reflexivity].
Qed.

(* ---------- small packets ---------- *)

Lemma dec_id_only_bytes mk id : id < 65536 -> dec_id_only mk (uint16_bytes id) = Some (mk id).
Proof.
  intros Hid. unfold uint16_bytes, go_byte, dec_id_only. rewrite shiftr8.
  f_equal. f_equal. lia.
Qed.

Theorem small_roundtrip id r : id < 65536 ->
  (forall b, pack_puback id = Some b -> spec_decode (b ++ r) = Some (PPubAck id, r)) /\
  (forall b, pack_pubrec id = Some b -> spec_decode (b ++ r) = Some (PPubRec id, r)) /\
  (forall b, pack_pubrel id = Some b -> spec_decode (b ++ r) = Some (PPubRel id, r)) /\
  (forall b, pack_pubcomp id = Some b -> spec_decode (b ++ r) = Some (PPubComp id, r)) /\
  (forall b, pack_pingreq = Some b -> spec_decode (b ++ r) = Some (PPingReq, r)) /\
  (forall b, pack_disconnect = Some b -> spec_decode (b ++ r) = Some (PDisconnect, r)).
Proof.
  intros Hid.
  unfold pack_puback, pack_pubrec, pack_pubrel, pack_pubcomp, pack_pingreq, pack_disconnect.
  repeat split; intros b H; rewrite (spec_decode_pack _ _ _ _ H).
  - change (64 / 16) with 4. change (64 mod 16) with 0. unfold dec_body.
    change (0 =? 0) with true. cbv beta iota.
    rewrite dec_id_only_bytes by exact Hid. reflexivity.
  - change (80 / 16) with 5. change (80 mod 16) with 0. unfold dec_body.
    change (0 =? 0) with true. cbv beta iota.
    rewrite dec_id_only_bytes by exact Hid. reflexivity.
  - change (98 / 16) with 6. change (98 mod 16) with 2. unfold dec_body.
    change (2 =? 2) with true. cbv beta iota.
    rewrite dec_id_only_bytes by exact Hid. reflexivity.
  - change (112 / 16) with 7. change (112 mod 16) with 0. unfold dec_body.
    change (0 =? 0) with true. cbv beta iota.
    rewrite dec_id_only_bytes by exact Hid. reflexivity.
  - reflexivity.
  - reflexivity.
Qed.

Theorem small_defined id :
  (exists b, pack_puback id = Some b) /\ (exists b, pack_pubrec id = Some b) /\
  (exists b, pack_pubrel id = Some b) /\ (exists b, pack_pubcomp id = Some b) /\
  (exists b, pack_pingreq = Some b) /\ (exists b, pack_disconnect = Some b).
Proof.
  unfold pack_puback, pack_pubrec, pack_pubrel, pack_pubcomp, pack_pingreq, pack_disconnect.
  repeat split; apply pack_defined_iff; unfold len, uint16_bytes; cbn [length]; lia.
Qed.

(* ---------- non-vacuity ---------- *)
Example ex_publish_big :
  exists b, pack_publish {| m_topic := [97]; m_id := 65535; m_qos := 2; m_retain := true; m_dup := true;
                            m_payload := repeat 7 200 |} = Some b.
Proof. eexists. vm_compute. reflexivity. Qed.

Print Assumptions publish_roundtrip.
Print Assumptions connect_roundtrip.
Print Assumptions varint_roundtrip.
