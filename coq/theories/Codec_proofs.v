(* Codec_proofs.v — every packet the encoder model produces is read back by the independent
   decoder as exactly the requested fields; the remaining-length field is the minimal encoding
   of the body length for every length up to 268,435,455. *)
From MQ Require Import Base Codec SpecDecode.
Open Scope N_scope.

(* ---------- remaining length ---------- *)

(* the Go shifts and masks compute the arithmetic form *)
Lemma remaining_length_go_eq n : remaining_length_go n = remaining_length n.
Proof. Admitted.

Theorem varint_defined_iff n : n <= 268435455 <-> exists rl, remaining_length n = Some rl.
Proof. Admitted.

Theorem varint_roundtrip n rl r : remaining_length n = Some rl ->
  decode_varint 4 1 0 (rl ++ r) = Some (n, r).
Proof. Admitted.

Theorem varint_minimal n rl : remaining_length n = Some rl -> length rl = min_varint_len n.
Proof. Admitted.

Theorem varint_bytes n rl : remaining_length n = Some rl -> Forall (fun b => b < 256) rl.
Proof. Admitted.

(* no shorter encoding exists: any byte string that decodes to n has at least min_varint_len n bytes *)
Theorem varint_no_shorter n bs r k : decode_varint k 1 0 bs = Some (n, r) ->
  (min_varint_len n <= length bs - length r)%nat.
Proof. Admitted.

(* ---------- framing ---------- *)

Lemma take_n_app body r : take_n (len body) (body ++ r) = Some (body, r).
Proof. Admitted.

Lemma dec_str_pack s b r : pack_bytes s = Some b -> dec_str (b ++ r) = Some (s, r).
Proof. Admitted.

Lemma dec_u16_bytes v r : v < 65536 -> dec_u16 (uint16_bytes v ++ r) = Some (v, r).
Proof. Admitted.

(* pack succeeds exactly when the body fits the protocol limit *)
Theorem pack_defined_iff typ body : len body <= 268435455 <-> exists b, pack typ body = Some b.
Proof. Admitted.

(* ---------- PUBLISH ---------- *)

Theorem publish_roundtrip m b r : pack_publish m = Some b -> m_id m < 65536 ->
  spec_decode (b ++ r) =
    Some (PPublish (m_dup m) (m_qos m) (m_retain m) (m_topic m)
                   (if m_qos m =? 0 then None else Some (m_id m)) (m_payload m), r).
Proof. Admitted.

Theorem publish_defined m : m_qos m <= 2 -> len (m_topic m) <= 65535 ->
  len (m_topic m) + len (m_payload m) + 4 <= 268435455 -> exists b, pack_publish m = Some b.
Proof. Admitted.

(* what the property asks: QoS above 2 and payloads over the configured maximum are rejected *)
Theorem validate_rejects max m :
  2 < m_qos m \/ (max <> 0 /\ max < len (m_payload m)) -> validate_message max m <> 0.
Proof. Admitted.

(* what the code does exactly (it already rejects a payload of exactly max bytes) *)
Theorem validate_accepts_iff max m :
  validate_message max m = 0 <-> (m_qos m <= 2 /\ (max = 0 \/ len (m_payload m) < max)).
Proof. Admitted.

(* ---------- CONNECT ---------- *)

Definition will_fields (w : will) := (w_topic w, w_payload w, w_qos w, w_retain w).
Definition opt_str (s : str) : option str := if nonempty s then Some s else None.

Theorem connect_roundtrip c b r : pack_connect c = Some b ->
  c_level c < 256 -> c_keepalive c < 65536 ->
  (c_pass c <> [] -> c_user c <> []) ->                      (* MQTT-3.1.2-22, not enforced by the library *)
  (forall w, c_will c = Some w -> w_qos w <= 2) ->           (* enforced by WithWill *)
  spec_decode (b ++ r) =
    Some (PConnect (c_level c) (c_clean c) (c_keepalive c) (c_client_id c)
                   (option_map will_fields (c_will c)) (opt_str (c_user c)) (opt_str (c_pass c)), r).
Proof. Admitted.

(* ---------- SUBSCRIBE / UNSUBSCRIBE ---------- *)

Theorem subscribe_roundtrip id subs b r : pack_subscribe id subs = Some b -> id < 65536 -> subs <> [] ->
  spec_decode (b ++ r) = Some (PSubscribe id subs, r).
Proof. Admitted.

Theorem unsubscribe_roundtrip id topics b r : pack_unsubscribe id topics = Some b -> id < 65536 -> topics <> [] ->
  spec_decode (b ++ r) = Some (PUnsubscribe id topics, r).
Proof. Admitted.

(* ---------- small packets ---------- *)

Theorem small_roundtrip id r : id < 65536 ->
  (forall b, pack_puback id = Some b -> spec_decode (b ++ r) = Some (PPubAck id, r)) /\
  (forall b, pack_pubrec id = Some b -> spec_decode (b ++ r) = Some (PPubRec id, r)) /\
  (forall b, pack_pubrel id = Some b -> spec_decode (b ++ r) = Some (PPubRel id, r)) /\
  (forall b, pack_pubcomp id = Some b -> spec_decode (b ++ r) = Some (PPubComp id, r)) /\
  (forall b, pack_pingreq = Some b -> spec_decode (b ++ r) = Some (PPingReq, r)) /\
  (forall b, pack_disconnect = Some b -> spec_decode (b ++ r) = Some (PDisconnect, r)).
Proof. Admitted.

Theorem small_defined id :
  (exists b, pack_puback id = Some b) /\ (exists b, pack_pubrec id = Some b) /\
  (exists b, pack_pubrel id = Some b) /\ (exists b, pack_pubcomp id = Some b) /\
  (exists b, pack_pingreq = Some b) /\ (exists b, pack_disconnect = Some b).
Proof. Admitted.

(* ---------- non-vacuity ---------- *)
Example ex_publish_big :
  exists b, pack_publish {| m_topic := [97]; m_id := 65535; m_qos := 2; m_retain := true; m_dup := true;
                            m_payload := repeat 7 200 |} = Some b.
Proof. Admitted.
