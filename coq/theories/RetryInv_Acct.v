(* RetryInv_Acct.v — world-level accounting lemmas for the retry / reconnect system model:
   what one task (RetryCore.exec_task) does to the retry queue, the wire log, the dropped list, the
   error list and newRetryByError.  Used by RetryInv_AcctSys.v (C01 safety, C18) and
   RetryInv_AcctLive.v (C01 liveness). *)
From MQ Require Import Base RetryCore RetrySys CheckRetry RetryProps.
Open Scope nat_scope.

Ltac wproj := cbn [w_clients w_broker w_wire w_retryq w_subest w_nrbe w_errs w_acked w_dropped w_hung
  set_clients set_broker log_wire set_retryq set_subest set_nrbe on_error add_acked add_dropped set_hung
  upd_client process queue_retry] in *.

Ltac splits := repeat match goal with |- _ /\ _ => split end.

(* ---------- sublists ---------- *)
Inductive subl {A} : list A -> list A -> Prop :=
| subl_nil : subl [] []
| subl_skip x l l' : subl l l' -> subl l (x :: l')
| subl_keep x l l' : subl l l' -> subl (x :: l) (x :: l').

Lemma subl_refl {A} (l : list A) : subl l l.
Proof. induction l; [apply subl_nil | apply subl_keep; auto]. Qed.

Lemma subl_nil_l {A} (l : list A) : subl [] l.
Proof. induction l; constructor; auto. Qed.

Lemma subl_nil_inv {A} (l : list A) : subl l [] -> l = [].
Proof. inversion 1; reflexivity. Qed.

Lemma subl_app {A} (a a' b b' : list A) : subl a a' -> subl b b' -> subl (a ++ b) (a' ++ b').
Proof.
  induction 1; cbn [List.app]; intros; auto; [apply subl_skip | apply subl_keep]; auto.
Qed.

Lemma subl_In {A} (l l' : list A) x : subl l l' -> In x l -> In x l'.
Proof. induction 1; cbn [In]; intros; auto. destruct H0; auto. Qed.

Lemma subl_map {A B} (f : A -> B) l l' : subl l l' -> subl (map f l) (map f l').
Proof. induction 1; cbn [map]; [apply subl_nil | apply subl_skip | apply subl_keep]; auto. Qed.

Lemma subl_filter {A} (f : A -> bool) l l' : subl l l' -> subl (filter f l) (filter f l').
Proof.
  induction 1; cbn [filter].
  - apply subl_nil.
  - destruct (f x); [apply subl_skip|]; auto.
  - destruct (f x); [apply subl_keep|]; auto.
Qed.

Lemma subl_filter_l {A} (f : A -> bool) l : subl (filter f l) l.
Proof. induction l; cbn [filter]; [apply subl_nil|]. destruct (f a); [apply subl_keep | apply subl_skip]; auto. Qed.

Lemma subl_trans {A} (a b c : list A) : subl a b -> subl b c -> subl a c.
Proof.
  intros H1 H2; revert a H1; induction H2; intros a H1.
  - exact H1.
  - apply subl_skip; auto.
  - inversion H1; subst; [apply subl_skip | apply subl_keep]; auto.
Qed.

(* ---------- increasing_from ---------- *)
Lemma inc_lower lo lo' l : increasing_from lo l = true -> lo' <= lo -> increasing_from lo' l = true.
Proof.
  destruct l; cbn [increasing_from]; auto. intros H Hl.
  apply andb_true_iff in H as [H1 H2]. apply andb_true_iff; split; auto. lia.
Qed.

Lemma inc_sub l' l : subl l' l -> forall lo, increasing_from lo l = true -> increasing_from lo l' = true.
Proof.
  induction 1; intros lo H0; cbn [increasing_from] in *; auto.
  - apply andb_true_iff in H0 as [H1 H2]. apply IHsubl. eapply inc_lower; eauto. lia.
  - apply andb_true_iff in H0 as [H1 H2]. apply andb_true_iff; split; auto.
Qed.

Lemma inc_all_gt l : forall lo x, increasing_from lo l = true -> In x l -> lo < x.
Proof.
  induction l; cbn [increasing_from In]; intros lo x H Hx; [contradiction|].
  apply andb_true_iff in H as [H1 H2]. destruct Hx as [->|Hx]; [lia|].
  specialize (IHl _ _ H2 Hx). lia.
Qed.

Lemma inc_snoc l : forall lo u, increasing_from lo (l ++ [u]) = true <->
  increasing_from lo l = true /\ lo < u /\ forall x, In x l -> x < u.
Proof.
  induction l; intros lo u; cbn [List.app increasing_from In].
  - rewrite andb_true_r. split; [intros; repeat split; [lia | contradiction] | intros (_ & H & _); lia].
  - rewrite !andb_true_iff, IHl. split.
    + intros (H1 & H2 & H3 & H4). repeat split; auto; try lia. intros x [->|Hx]; auto.
    + intros ((H1 & H2) & H3 & H4). repeat split; auto.
Qed.

Lemma inc_app_l a : forall lo b, increasing_from lo (a ++ b) = true -> increasing_from lo a = true.
Proof.
  induction a; cbn [List.app increasing_from]; intros; auto.
  apply andb_true_iff in H as [H1 H2]. apply andb_true_iff; split; eauto.
Qed.

Lemma inc_inj {A} (f : A -> nat) l : forall lo, increasing_from lo (map f l) = true ->
  forall a b, In a l -> In b l -> f a = f b -> a = b.
Proof.
  induction l; cbn [map increasing_from In]; intros lo H x y Hx Hy E; [contradiction|].
  apply andb_true_iff in H as [H1 H2].
  destruct Hx as [->|Hx], Hy as [->|Hy]; auto.
  - pose proof (inc_all_gt _ _ (f y) H2 (in_map f _ _ Hy)). lia.
  - pose proof (inc_all_gt _ _ (f x) H2 (in_map f _ _ Hx)). lia.
  - eapply IHl; eauto.
Qed.

(* ---------- small facts about the observation functions ---------- *)
Lemma final_acked_app a b : final_acked (a ++ b) = final_acked a ++ final_acked b.
Proof. unfold final_acked. apply flat_map_app. Qed.

Lemma count_timeouts_app a b : count_timeouts (a ++ b) = count_timeouts a + count_timeouts b.
Proof. unfold count_timeouts. rewrite filter_app, app_length. reflexivity. Qed.

Definition entry_op (e : rentry) : uop :=
  match e with
  | RPublish m | RPubRel m | DPublish m => UPub m
  | RSubscribe u ss | DSubscribe u ss => USub u ss
  | RUnsubscribe u ts | DUnsubscribe u ts => UUnsub u ts
  end.

Lemma entry_op_uid e : uop_uid (entry_op e) = entry_uid e.
Proof. destruct e; reflexivity. Qed.

Definition task_ops (t : task) : list uop := match t with TOp o => [o] | _ => [] end.
Definition nzf (l : list uop) : list uop := filter (fun o => negb (uop_uid o =? 0)) l.

Lemma nonzero_nzf q : nonzero (map entry_uid q) = map uop_uid (nzf (map entry_op q)).
Proof.
  unfold nonzero, nzf. induction q; cbn [map filter]; auto.
  rewrite entry_op_uid. destruct (negb (entry_uid a =? 0)); cbn [map]; rewrite ?entry_op_uid; congruence.
Qed.

Lemma task_uids_ops q : flat_map task_uids q = map uop_uid (flat_map task_ops q).
Proof.
  induction q; cbn [flat_map map]; auto. rewrite map_app, IHq. destruct a; reflexivity.
Qed.

Lemma nzf_app a b : nzf (a ++ b) = nzf a ++ nzf b.
Proof. apply filter_app. Qed.

Lemma in_nzf o l : In o (nzf l) <-> In o l /\ uop_uid o <> 0.
Proof.
  unfold nzf. rewrite filter_In. split; intros [H1 H2]; split; auto.
  - intros E. rewrite E in H2. discriminate.
  - destruct (uop_uid o); [contradiction | reflexivity].
Qed.

(* ---------- clients ---------- *)
Lemma upd_nth_length {A} (f : A -> A) l : forall k, length (upd_nth k f l) = length l.
Proof. induction l; destruct k; cbn [upd_nth length]; auto. Qed.

Lemma nth_upd_nth_inited f (Hf : forall c, cl_inited (f c) = cl_inited c) l :
  forall k k', cl_inited (nth k' (upd_nth k f l) client_none) = cl_inited (nth k' l client_none).
Proof.
  induction l; intros k k'; destruct k; cbn [upd_nth]; auto.
  - destruct k'; cbn [nth]; auto.
  - destruct k'; cbn [nth]; auto.
Qed.

Lemma nth_upd_nth_same {A} (f : A -> A) d l : forall k, k < length l -> nth k (upd_nth k f l) d = f (nth k l d).
Proof.
  induction l; intros k Hk; cbn [length] in Hk; [lia|].
  destruct k; cbn [upd_nth nth]; auto. apply IHl. lia.
Qed.

Lemma nth_upd_nth_other {A} (f : A -> A) d l : forall k k', k <> k' -> nth k' (upd_nth k f l) d = nth k' l d.
Proof.
  induction l; intros k k' Hk; destruct k; cbn [upd_nth]; auto.
  - destruct k'; [lia | reflexivity].
  - destruct k'; cbn [nth]; auto.
Qed.

Lemma nth_upd_nth_kill_alive l : forall k, cl_alive (nth k (upd_nth k kill l) client_none) = false.
Proof. induction l; intros k; destruct k; cbn [upd_nth nth]; auto. Qed.

Lemma inited_upd w k f (Hf : forall c, cl_inited (f c) = cl_inited c) k' :
  cl_inited (get_client (upd_client w k f) k') = cl_inited (get_client w k').
Proof. unfold get_client, upd_client. wproj. apply nth_upd_nth_inited; auto. Qed.

Lemma kill_inited c : cl_inited (kill c) = cl_inited c. Proof. reflexivity. Qed.
Lemma bump_inited c : cl_inited (bump c) = cl_inited c. Proof. reflexivity. Qed.

Section Acct.
Variable cfg : config.
Variable fp : fplan.

(* ---------- send ---------- *)
Record send_frame (w w' : world) (k : nat) (p : pkt) (r : cres) : Prop := {
  sf_wire : exists res, w_wire w' = w_wire w ++ [(k, p, res)] /\ (r = CAck -> res = WAck);
  sf_rq : w_retryq w' = w_retryq w;
  sf_subest : w_subest w' = w_subest w;
  sf_nrbe : w_nrbe w' = w_nrbe w;
  sf_errs : w_errs w' = w_errs w;
  sf_dropped : w_dropped w' = w_dropped w;
  sf_hung : w_hung w' = w_hung w;
  sf_init : forall k', cl_inited (get_client w' k') = cl_inited (get_client w k');
  sf_len : length (w_clients w') = length (w_clients w);
  sf_nohang : r = CHang -> c_timeout cfg = false
}.

Lemma send_spec w k p w' r : send cfg fp w k p = (w', r) -> send_frame w w' k p r.
Proof.
  unfold send. destruct (negb (cl_alive (get_client w k))).
  - intros H; injection H as <- <-. split; wproj; auto; try discriminate.
    eexists; split; [reflexivity | discriminate].
  - destruct (if cl_accepted (get_client w k) then fp k (cl_sent (get_client w k)) else FLostAfter);
      intros H; injection H as <- <-;
      (split; wproj;
       first [ reflexivity
             | discriminate
             | (eexists; split; [reflexivity | first [discriminate | intros; reflexivity
                                                      | destruct (c_timeout cfg); discriminate]])
             | (intros k'; unfold get_client; wproj;
                rewrite ?nth_upd_nth_inited by (intros; reflexivity); reflexivity)
             | (rewrite ?upd_nth_length; reflexivity)
             | (destruct (c_timeout cfg); first [discriminate | intros; reflexivity]) ]).
Qed.


(* ---------- the accounting specification of a piece of a task ---------- *)
Section Spec.
Variable k : nat.

Definition A (w : world) := final_acked (w_wire w).
Definition ni (w : world) : Prop := cl_inited (get_client w k) = false.
Definition tsame (w w' : world) : Prop :=
  count_timeouts (w_errs w') = count_timeouts (w_errs w) /\ w_nrbe w' = w_nrbe w.

(* [inp]: the requests handled; [res]: the handle returned but not yet queued.
   Every handled request is afterwards queued / returned (in order), acknowledged on the wire, or
   needed no acknowledgement (or the client was not initialised: excluded by I-conn). *)
Record Spec (w w' : world) (inp : list uop) (res : list rentry) : Prop := {
  sp_rq : exists added, w_retryq w' = w_retryq w ++ added
          /\ subl (map entry_op (added ++ res)) inp
          /\ (forall o, In o inp ->
                In o (map entry_op (added ++ res)) \/ In (uop_uid o) (A w') \/ needs_ack o = false \/ ni w)
          /\ (tsame w w' \/ (w_nrbe w' = true /\ added <> []));
  sp_wire : exists rest, w_wire w' = w_wire w ++ rest;
  sp_drop : forall u, In u (w_dropped w') ->
              In u (w_dropped w) \/ exists o, In o inp /\ uop_uid o = u /\ (needs_ack o = false \/ ni w);
  sp_init : forall k', cl_inited (get_client w' k') = cl_inited (get_client w k')
}.

Lemma Spec_nrbe w w' inp res : Spec w w' inp res -> w_nrbe w = true -> w_nrbe w' = true.
Proof.
  intros [(added & _ & _ & _ & [[_ H]|[H _]]) _ _ _] E; congruence.
Qed.

Lemma A_mono w w' : (exists rest, w_wire w' = w_wire w ++ rest) -> forall u, In u (A w) -> In u (A w').
Proof. intros [rest E] u H. unfold A. rewrite E, final_acked_app. apply in_or_app; auto. Qed.

Definition same (w w0 : world) : Prop :=
  w_retryq w0 = w_retryq w /\ w_wire w0 = w_wire w /\ w_errs w0 = w_errs w /\ w_nrbe w0 = w_nrbe w
  /\ w_dropped w0 = w_dropped w /\ w_clients w0 = w_clients w.

Lemma Spec_same w w0 : same w w0 -> Spec w w0 [] [].
Proof.
  intros (H1 & H2 & H3 & H4 & H5 & H6). split.
  - exists []. rewrite app_nil_r. splits.
    + auto.
    + apply subl_nil.
    + intros o [].
    + left. split; congruence.
  - exists []. rewrite app_nil_r; auto.
  - intros u Hu. left; congruence.
  - intros k'. unfold get_client. congruence.
Qed.

Lemma Spec_refl w : Spec w w [] [].
Proof. apply Spec_same. unfold same. splits; reflexivity. Qed.

Lemma Spec_trans w w1 w2 i1 i2 res :
  Spec w w1 i1 [] -> Spec w1 w2 i2 res -> Spec w w2 (i1 ++ i2) res.
Proof.
  intros [(a1 & Hq1 & Hs1 & Hc1 & Ht1) Hw1 Hd1 Hi1] [(a2 & Hq2 & Hs2 & Hc2 & Ht2) Hw2 Hd2 Hi2].
  rewrite app_nil_r in Hs1, Hc1.
  assert (Hni : ni w1 -> ni w) by (unfold ni; rewrite Hi1; auto).
  split.
  - exists (a1 ++ a2). splits.
    + rewrite Hq2, Hq1, app_assoc. reflexivity.
    + rewrite <- app_assoc, map_app. apply subl_app; auto.
    + intros o Ho. rewrite <- app_assoc, map_app. apply in_app_or in Ho as [Ho|Ho].
      * destruct (Hc1 o Ho) as [H|[H|[H|H]]]; auto.
        -- left. apply in_or_app; auto.
        -- right; left. eapply A_mono; eauto.
      * destruct (Hc2 o Ho) as [H|[H|[H|H]]]; auto.
        left. apply in_or_app; auto.
    + destruct Ht2 as [[E1 E2]|[E1 E2]].
      * destruct Ht1 as [[F1 F2]|[F1 F2]].
        -- left; split; congruence.
        -- right; split; [congruence|]. destruct a1; [congruence | discriminate].
      * right; split; auto. destruct a1; [auto | discriminate].
  - destruct Hw1 as [r1 E1], Hw2 as [r2 E2]. exists (r1 ++ r2). rewrite E2, E1, app_assoc. reflexivity.
  - intros u Hu. destruct (Hd2 u Hu) as [H|(o & Ho & Eu & Hn)].
    + destruct (Hd1 u H) as [H'|(o & Ho & Eu & Hn)]; auto.
      right. exists o; splits; auto. apply in_or_app; auto.
    + right. exists o; splits; auto; [apply in_or_app; auto | destruct Hn; auto].
  - intros k'. rewrite Hi2, Hi1. reflexivity.
Qed.

(* after [Spec w w1 [] []] nothing was queued *)
Lemma Spec_nil_added w w1 : Spec w w1 [] [] ->
  w_retryq w1 = w_retryq w /\ (tsame w w1).
Proof.
  intros [(a & Hq & Hs & _ & Ht) _ _ _]. rewrite app_nil_r in Hs. apply subl_nil_inv in Hs.
  destruct a; [|discriminate]. rewrite app_nil_r in Hq. split; auto.
  destruct Ht as [H|[_ H]]; [auto | congruence].
Qed.

(* finishers: how the single request [o] of an attempt ended *)
Lemma Spec_fin w w1 o res :
  Spec w w1 [] [] ->
  (res = [] -> In (uop_uid o) (A w1) \/ needs_ack o = false \/ ni w) ->
  (forall e, In e res -> res = [e] /\ entry_op e = o) ->
  Spec w w1 [o] res.
Proof.
  intros H Hc Hr. destruct (Spec_nil_added _ _ H) as [Hq Ht].
  destruct H as [_ Hw Hd Hi]. split; auto.
  - exists []. rewrite app_nil_r. cbn [List.app]. splits; auto.
    + destruct res as [|e r]; [apply subl_nil_l|].
      destruct (Hr e (or_introl eq_refl)) as [E1 E2]. injection E1 as ->. cbn [map]. rewrite E2. apply subl_refl.
    + intros o' [<-|[]]. destruct res as [|e r]; [right; auto|].
      destruct (Hr e (or_introl eq_refl)) as [E1 E2]. injection E1 as ->. left. cbn [map In]. auto.
  - intros u Hu. destruct (Hd u Hu) as [H|(o' & [] & _)]; auto.
Qed.

Lemma Spec_queue w w1 inp e cls :
  Spec w w1 inp [e] -> Spec w (queue_retry (on_error w1 cls) e) inp [].
Proof.
  intros [(a & Hq & Hs & Hc & Ht) Hw Hd Hi]. split; wproj; auto.
  exists (a ++ [e]). rewrite !app_nil_r. splits; auto.
  - rewrite Hq, app_assoc. reflexivity.
  - right. split; auto. destruct a; discriminate.
Qed.

Lemma count_timeouts_snoc l cls : cls <> ETimeout -> count_timeouts (l ++ [cls]) = count_timeouts l.
Proof. intros H. rewrite count_timeouts_app. destruct cls; [congruence | |]; cbn; lia. Qed.

Lemma Spec_onerr w w1 inp res cls :
  Spec w w1 inp res -> cls <> ETimeout -> Spec w (on_error w1 cls) inp res.
Proof.
  intros [(a & Hq & Hs & Hc & Ht) Hw Hd Hi] Hcls. split; wproj; auto.
  exists a. splits; auto.
  destruct Ht as [[E1 E2]|Ht]; [left | right; auto]. split; wproj; auto.
  rewrite count_timeouts_snoc; auto.
Qed.

Lemma Spec_dropped w w1 o :
  Spec w w1 [o] [] -> (needs_ack o = false \/ ni w) ->
  Spec w (add_dropped w1 (uop_uid o)) [o] [].
Proof.
  intros [(a & Hq & Hs & Hc & Ht) Hw Hd Hi] Hn. split; wproj; auto.
  - exists a. splits; auto.
  - intros u Hu. apply in_app_or in Hu as [Hu|[<-|[]]]; auto.
    right. exists o. cbn [In]. auto.
Qed.

Lemma Spec_append w w2 inp l :
  Spec w w2 inp [] -> Spec w (set_retryq w2 (w_retryq w2 ++ l)) (inp ++ map entry_op l) [].
Proof.
  intros [(a & Hq & Hs & Hc & Ht) Hw Hd Hi]. rewrite app_nil_r in *. split; wproj; auto.
  - exists (a ++ l). rewrite app_nil_r. splits; auto.
    + rewrite Hq, app_assoc. reflexivity.
    + rewrite map_app. apply subl_app; auto. apply subl_refl.
    + intros o Ho. rewrite map_app. apply in_app_or in Ho as [Ho|Ho].
      * destruct (Hc o Ho) as [H|H]; auto. left; apply in_or_app; auto.
      * left; apply in_or_app; auto.
    + destruct Ht as [H|[H1 H2]]; [left; exact H | right; split; auto].
      destruct a; [congruence | discriminate].
  - intros u Hu. destruct (Hd u Hu) as [H|(o & Ho & H)]; auto.
    right. exists o. split; auto. apply in_or_app; auto.
Qed.


(* ---------- attempts ---------- *)
Definition res_of (r : ares) : list rentry := match r with AFail e _ => [e] | _ => [] end.

Definition attempt1 (w : world) (p : pkt) (uid : nat) (e : rentry) : world * ares :=
  if negb (cl_inited (get_client w k)) then (w, ANoRetry ENotConnected)
  else
    let '(w, r) := send cfg fp w k p in
    match r with
    | CAck => (add_acked w uid, ADone)
    | CHang => (set_hung w, AHung)
    | _ => (w, AFail e (fail_class r))
    end.

Lemma attempt_pubrel_eq w m :
  attempt_pubrel cfg fp w k m = attempt1 w (PPubRel (p_uid m)) (p_uid m) (RPubRel m).
Proof. reflexivity. Qed.
Lemma attempt_subscribe_eq w uid ss :
  attempt_subscribe cfg fp w k uid ss = attempt1 w (PSubscribe uid ss) uid (RSubscribe uid ss).
Proof. reflexivity. Qed.
Lemma attempt_unsubscribe_eq w uid ts :
  attempt_unsubscribe cfg fp w k uid ts = attempt1 w (PUnsubscribe uid ts) uid (RUnsubscribe uid ts).
Proof. reflexivity. Qed.

Lemma send_Spec w p w1 r : send cfg fp w k p = (w1, r) -> Spec w w1 [] [].
Proof.
  intros H; apply send_spec in H; destruct H as [[res [Hw _]] Hq _ Hn He Hd _ Hi _ _]. split; auto.
  - exists []. rewrite app_nil_r. splits; [auto | apply subl_nil | intros o [] | left; split; congruence].
  - eauto.
  - intros u Hu; left; congruence.
Qed.

Lemma Spec_nil_same w w1 w2 inp res : Spec w w1 inp res -> same w1 w2 -> Spec w w2 inp res.
Proof.
  intros [(a & Hq & Hs & Hc & Ht) Hw Hd Hi] (H1 & H2 & H3 & H4 & H5 & H6). split.
  - exists a. splits; auto.
    + congruence.
    + unfold A in *. rewrite H2. auto.
    + unfold tsame in *. rewrite H3, H4. auto.
  - rewrite H2; auto.
  - rewrite H5; auto.
  - intros k'. unfold get_client in *. rewrite H6. auto.
Qed.

Definition Aspec (w : world) (o : uop) (w' : world) (r : ares) : Prop :=
  Spec w w' [o] (res_of r)
  /\ (forall cls, r = ANoRetry cls -> (needs_ack o = false \/ ni w) /\ cls <> ETimeout)
  /\ r <> AHung.

Lemma Aspec_pre w w1 o w' r : Spec w w1 [] [] -> Aspec w1 o w' r -> Aspec w o w' r.
Proof.
  intros H (H1 & H2 & H3). split; [|split]; auto.
  - exact (Spec_trans _ _ _ _ _ _ H H1).
  - intros cls E. destruct (H2 cls E) as [[Hn|Hn] Hc]; split; auto.
    right. unfold ni in *. rewrite <- (sp_init _ _ _ _ H). exact Hn.
Qed.

Lemma attempt1_spec w p uid e o w' r :
  attempt1 w p uid e = (w', r) -> (forall k0, final_acked [(k0, p, WAck)] = [uid]) ->
  entry_op e = o -> uop_uid o = uid -> w_hung w' = false -> Aspec w o w' r.
Proof.
  unfold attempt1. destruct (cl_inited (get_client w k)) eqn:Ei; cbn [negb].
  2: { intros H; injection H as <- <-. intros _ _ _ _. split; [|split].
       - apply Spec_fin; [apply Spec_refl | intros _; right; right; exact Ei | intros e0 []].
       - intros cls E. injection E as <-. split; [right; exact Ei | discriminate].
       - discriminate. }
  destruct (send cfg fp w k p) as [w1 r0] eqn:Es. pose proof (send_Spec _ _ _ _ Es) as HS.
  apply send_spec in Es. destruct Es as [[res [Hw Hack]] _ _ _ _ _ Hhung _ _ _].
  destruct r0; intros H; injection H as <- <-; intros Hp He Hu Hh; wproj; try discriminate;
    (split; [|split; [intros cls E; discriminate | discriminate]]); cbn [res_of].
  - apply Spec_fin; [eapply Spec_nil_same; [exact HS | unfold same; wproj; splits; reflexivity] | | intros e0 []].
    intros _; left. unfold A; wproj. rewrite Hw, (Hack eq_refl), final_acked_app, Hp, Hu.
    apply in_or_app; right; left; reflexivity.
  - apply Spec_fin; [exact HS | discriminate | intros e0 [<-|[]]; auto].
  - apply Spec_fin; [exact HS | discriminate | intros e0 [<-|[]]; auto].
  - apply Spec_fin; [exact HS | discriminate | intros e0 [<-|[]]; auto].
Qed.

Lemma attempt_pubrel_spec w m w' r :
  attempt_pubrel cfg fp w k m = (w', r) -> w_hung w' = false -> Aspec w (UPub m) w' r.
Proof. rewrite attempt_pubrel_eq. intros H Hh. eapply attempt1_spec; eauto. Qed.

Lemma attempt_subscribe_spec w uid ss w' r :
  attempt_subscribe cfg fp w k uid ss = (w', r) -> w_hung w' = false -> Aspec w (USub uid ss) w' r.
Proof. rewrite attempt_subscribe_eq. intros H Hh. eapply attempt1_spec; eauto. Qed.

Lemma attempt_unsubscribe_spec w uid ts w' r :
  attempt_unsubscribe cfg fp w k uid ts = (w', r) -> w_hung w' = false -> Aspec w (UUnsub uid ts) w' r.
Proof. rewrite attempt_unsubscribe_eq. intros H Hh. eapply attempt1_spec; eauto. Qed.

Lemma attempt_publish_spec w m dup w' r :
  attempt_publish cfg fp w k m dup = (w', r) -> w_hung w' = false -> Aspec w (UPub m) w' r.
Proof.
  unfold attempt_publish. destruct (cl_inited (get_client w k)) eqn:Ei; cbn [negb].
  2: { intros H; injection H as <- <-. intros _. split; [|split].
       - apply Spec_fin; [apply Spec_refl | intros _; right; right; exact Ei | intros e0 []].
       - intros cls E. injection E as <-. split; [right; exact Ei | discriminate].
       - discriminate. }
  destruct (send cfg fp w k (PPublish m dup)) as [w1 r0] eqn:Es. pose proof (send_Spec _ _ _ _ Es) as HS.
  apply send_spec in Es. destruct Es as [[res [Hw Hack]] _ _ _ _ _ Hhung _ _ _].
  destruct (p_qos m =? 0)%N eqn:E0; [|destruct (p_qos m =? 1)%N eqn:E1].
  - assert (Hn : needs_ack (UPub m) = false).
    { cbn [needs_ack]. apply N.eqb_eq in E0. rewrite E0. reflexivity. }
    destruct r0; intros H; injection H as <- <-; intros Hh;
      (split; [apply Spec_fin; [exact HS | auto | intros e0 []] | split; [|discriminate]]);
      intros cls E; try discriminate.
    injection E as <-. split; [auto | discriminate].
  - destruct r0; intros H; injection H as <- <-; intros Hh; wproj; try discriminate;
      (split; [|split; [intros cls E; discriminate | discriminate]]); cbn [res_of].
    + apply Spec_fin; [eapply Spec_nil_same; [exact HS | unfold same; wproj; splits; reflexivity] | | intros e0 []].
      intros _; left. unfold A; wproj. rewrite Hw, (Hack eq_refl), final_acked_app.
      apply in_or_app; right. cbn [final_acked flat_map]. rewrite E1. left; reflexivity.
    + apply Spec_fin; [exact HS | discriminate | intros e0 [<-|[]]; auto].
    + apply Spec_fin; [exact HS | discriminate | intros e0 [<-|[]]; auto].
    + apply Spec_fin; [exact HS | discriminate | intros e0 [<-|[]]; auto].
  - destruct r0.
    + intros H Hh. eapply Aspec_pre; [exact HS|]. eapply attempt_pubrel_spec; eauto.
    + intros H; injection H as <- <-; intros Hh. split; [|split; [intros cls E; discriminate | discriminate]].
      apply Spec_fin; [exact HS | discriminate | intros e0 [<-|[]]; auto].
    + intros H; injection H as <- <-; intros Hh. split; [|split; [intros cls E; discriminate | discriminate]].
      apply Spec_fin; [exact HS | discriminate | intros e0 [<-|[]]; auto].
    + intros H; injection H as <- <-; intros Hh. split; [|split; [intros cls E; discriminate | discriminate]].
      apply Spec_fin; [exact HS | discriminate | intros e0 [<-|[]]; auto].
    + intros H; injection H as <- <-; intros Hh. wproj. discriminate.
Qed.

(* ---------- settle, the closures, the tasks ---------- *)
Lemma settle_hung uid w1 r : w_hung (settle uid (w1, r)) = w_hung w1.
Proof. destruct r; reflexivity. Qed.

Lemma settle_spec w o w1 r uid :
  Aspec w o w1 r -> uop_uid o = uid -> Spec w (settle uid (w1, r)) [o] [].
Proof.
  intros (HS & Hn & Hh) <-. destruct r; cbn [settle res_of] in *.
  - exact HS.
  - apply Spec_queue. exact HS.
  - destruct (Hn cls eq_refl) as [Hn1 Hn2]. apply Spec_dropped; auto. apply Spec_onerr; auto.
  - congruence.
Qed.

Lemma do_publish_spec w m :
  w_hung (do_publish cfg fp w k m) = false -> Spec w (do_publish cfg fp w k m) [UPub m] [].
Proof.
  unfold do_publish. destruct (attempt_publish cfg fp w k m false) as [w1 r] eqn:E.
  rewrite settle_hung. intros Hh. apply settle_spec; auto. eapply attempt_publish_spec; eauto.
Qed.

Lemma do_subscribe_spec w uid ss :
  w_hung (do_subscribe cfg fp w k uid ss) = false -> Spec w (do_subscribe cfg fp w k uid ss) [USub uid ss] [].
Proof.
  unfold do_subscribe.
  destruct (attempt_subscribe cfg fp (set_subest w (est_apply_subs (w_subest w) ss)) k uid ss) as [w1 r] eqn:E.
  rewrite settle_hung. intros Hh. apply settle_spec; auto.
  eapply Aspec_pre; [|eapply attempt_subscribe_spec; eauto].
  apply Spec_same. unfold same; wproj; splits; reflexivity.
Qed.

Lemma do_unsubscribe_spec w uid ts :
  w_hung (do_unsubscribe cfg fp w k uid ts) = false -> Spec w (do_unsubscribe cfg fp w k uid ts) [UUnsub uid ts] [].
Proof.
  unfold do_unsubscribe.
  destruct (attempt_unsubscribe cfg fp (set_subest w (est_apply_unsubs (w_subest w) ts)) k uid ts) as [w1 r] eqn:E.
  rewrite settle_hung. intros Hh. apply settle_spec; auto.
  eapply Aspec_pre; [|eapply attempt_unsubscribe_spec; eauto].
  apply Spec_same. unfold same; wproj; splits; reflexivity.
Qed.

Lemma Spec_defer w e : Spec w (set_retryq w (w_retryq w ++ [e])) [entry_op e] [].
Proof. exact (Spec_append w w [] [e] (Spec_refl w)). Qed.

Lemma task_publish_spec w m :
  w_hung (task_publish cfg fp w k m) = false -> Spec w (task_publish cfg fp w k m) [UPub m] [].
Proof.
  unfold task_publish. destruct (w_retryq w) eqn:Eq.
  - apply do_publish_spec.
  - intros _. destruct (0 <? p_qos m)%N eqn:E0.
    + rewrite <- Eq. exact (Spec_defer w (DPublish m)).
    + apply Spec_fin; [apply Spec_refl | auto | intros e0 []].
Qed.

Lemma task_subscribe_spec w uid ss :
  w_hung (task_subscribe cfg fp w k uid ss) = false -> Spec w (task_subscribe cfg fp w k uid ss) [USub uid ss] [].
Proof.
  unfold task_subscribe. destruct (w_retryq w) eqn:Eq.
  - apply do_subscribe_spec.
  - intros _. rewrite <- Eq. exact (Spec_defer w (DSubscribe uid ss)).
Qed.

Lemma task_unsubscribe_spec w uid ts :
  w_hung (task_unsubscribe cfg fp w k uid ts) = false -> Spec w (task_unsubscribe cfg fp w k uid ts) [UUnsub uid ts] [].
Proof.
  unfold task_unsubscribe. destruct (w_retryq w) eqn:Eq.
  - apply do_unsubscribe_spec.
  - intros _. rewrite <- Eq. exact (Spec_defer w (DUnsubscribe uid ts)).
Qed.

Lemma run_entry_spec w e w' r :
  run_entry cfg fp w k e = (w', r) -> w_hung w' = false -> Aspec w (entry_op e) w' r.
Proof.
  destruct e; cbn [run_entry entry_op].
  - apply attempt_publish_spec.
  - apply attempt_pubrel_spec.
  - apply attempt_subscribe_spec.
  - apply attempt_unsubscribe_spec.
  - intros H; injection H as <- <-. intros Hh. split; [|split; [discriminate | discriminate]].
    apply do_publish_spec; auto.
  - intros H; injection H as <- <-. intros Hh. split; [|split; [discriminate | discriminate]].
    apply do_subscribe_spec; auto.
  - intros H; injection H as <- <-. intros Hh. split; [|split; [discriminate | discriminate]].
    apply do_unsubscribe_spec; auto.
Qed.

Lemma retry_loop_spec old : forall w,
  w_hung (retry_loop cfg fp w k old) = false -> Spec w (retry_loop cfg fp w k old) (map entry_op old) [].
Proof.
  induction old as [|e rest IH]; intros w; cbn [retry_loop map].
  - intros _. apply Spec_refl.
  - destruct (run_entry cfg fp w k e) as [w1 r] eqn:Er. destruct (w_hung w1) eqn:Eh; [congruence|].
    apply run_entry_spec in Er; auto. destruct Er as (HS & Hn & Hnh).
    change (entry_op e :: map entry_op rest) with ([entry_op e] ++ map entry_op rest).
    destruct r; cbn [res_of] in HS.
    + intros Hh. eapply Spec_trans; [exact HS | apply IH; auto].
    + intros _. apply Spec_append. apply Spec_queue. exact HS.
    + intros Hh. destruct (Hn cls eq_refl) as [Hn1 _].
      eapply Spec_trans; [|apply IH; exact Hh].
      rewrite <- entry_op_uid. apply Spec_dropped; auto.
    + congruence.
Qed.

Lemma fold_hung_stuck (f : world -> RetryCore.sub -> world) l : forall w,
  w_hung w = true -> fold_left (fun w s => if w_hung w then w else f w s) l w = w.
Proof. induction l; cbn [fold_left]; intros w H; auto. rewrite H. auto. Qed.

Lemma resub_fold_spec l : forall w,
  w_hung w = false ->
  w_hung (fold_left (fun w s => if w_hung w then w else task_subscribe cfg fp w k 0 [s]) l w) = false ->
  Spec w (fold_left (fun w s => if w_hung w then w else task_subscribe cfg fp w k 0 [s]) l w)
       (map (fun s => USub 0 [s]) l) [].
Proof.
  induction l as [|s l IH]; intros w Hw; cbn [fold_left map].
  - intros _. apply Spec_refl.
  - rewrite Hw. destruct (w_hung (task_subscribe cfg fp w k 0 [s])) eqn:Eh.
    + rewrite fold_hung_stuck by exact Eh. congruence.
    + intros Hh. change (USub 0 [s] :: map (fun s0 => USub 0 [s0]) l) with ([USub 0 [s]] ++ map (fun s0 => USub 0 [s0]) l).
      eapply Spec_trans; [apply task_subscribe_spec; exact Eh | apply IH; auto].
Qed.


(* ---------- a whole task ---------- *)
Record Xspec (w w' : world) (t : task) : Prop := {
  x_sub : subl (nzf (map entry_op (w_retryq w'))) (nzf (map entry_op (w_retryq w) ++ task_ops t));
  x_cov : forall o, In o (map entry_op (w_retryq w) ++ task_ops t) ->
            In o (map entry_op (w_retryq w')) \/ In (uop_uid o) (A w') \/ needs_ack o = false \/ ni w;
  x_drop : forall u, In u (w_dropped w') -> In u (w_dropped w) \/ u = 0 \/
            exists o, In o (map entry_op (w_retryq w) ++ task_ops t) /\ uop_uid o = u
                      /\ (needs_ack o = false \/ ni w);
  x_wire : exists rest, w_wire w' = w_wire w ++ rest;
  x_init : forall k', cl_inited (get_client w' k') = cl_inited (get_client w k');
  x_t : tsame w w' \/ (w_nrbe w' = true /\ w_retryq w' <> [])
}.

Lemma Spec_X_op w w' o : Spec w w' [o] [] -> Xspec w w' (TOp o).
Proof.
  intros [(a & Hq & Hs & Hc & Ht) Hw Hd Hi]. rewrite app_nil_r in *. cbn [task_ops]. split; auto.
  - rewrite Hq, map_app. apply subl_filter. apply subl_app; [apply subl_refl | exact Hs].
  - intros o' Ho. rewrite Hq, map_app. apply in_app_or in Ho as [Ho|Ho].
    + left. apply in_or_app; auto.
    + destruct (Hc o' Ho) as [H|H]; auto. left. apply in_or_app; auto.
  - intros u Hu. destruct (Hd u Hu) as [H|(o' & Ho & H)]; auto.
    right; right. exists o'. split; auto. apply in_or_app; auto.
  - destruct Ht as [H|[H1 H2]]; auto. right; split; auto. rewrite Hq. destruct (w_retryq w); [exact H2 | discriminate].
Qed.

Lemma nzf_all_zero l : (forall o, In o l -> uop_uid o = 0) -> nzf l = [].
Proof.
  induction l; cbn [nzf filter In]; intros H; auto.
  rewrite (H a (or_introl eq_refl)). cbn [Nat.eqb negb]. apply IHl. auto.
Qed.

Lemma task_retry_X w :
  w_hung (task_retry cfg fp w k) = false -> Xspec w (task_retry cfg fp w k) TRetry.
Proof.
  unfold task_retry. intros Hh. apply retry_loop_spec in Hh.
  destruct Hh as [(a & Hq & Hs & Hc & Ht) Hw Hd Hi].
  unfold ni, tsame, get_client in *. wproj. cbn [List.app] in *. rewrite app_nil_r in *.
  split; unfold ni, tsame, get_client; cbn [task_ops]; rewrite ?app_nil_r; auto.
  - rewrite Hq. apply subl_filter. exact Hs.
  - intros o Ho. rewrite Hq. apply Hc; auto.
  - intros u Hu. destruct (Hd u Hu) as [H|H]; auto.
  - destruct Ht as [H|[H1 H2]]; auto. right; split; auto. rewrite Hq. exact H2.
Qed.

Lemma task_resubscribe_X w :
  w_hung w = false -> w_hung (task_resubscribe cfg fp w k) = false ->
  Xspec w (task_resubscribe cfg fp w k) TResub.
Proof.
  unfold task_resubscribe. wproj. intros Hw0 Hh.
  apply resub_fold_spec in Hh; [|exact Hw0].
  destruct Hh as [(a & Hq & Hs & Hc & Ht) Hw Hd Hi].
  unfold ni, tsame, get_client in *. wproj. cbn [List.app] in *. rewrite app_nil_r in *.
  assert (Hz : forall o, In o (map entry_op a) -> uop_uid o = 0).
  { intros o Ho. eapply subl_In in Ho; [|exact Hs]. apply in_map_iff in Ho as (x & <- & _). reflexivity. }
  split; unfold ni, tsame, get_client; wproj; cbn [task_ops]; rewrite ?app_nil_r; auto.
  - rewrite Hq. rewrite map_app, nzf_app, (nzf_all_zero _ Hz). apply subl_refl.
  - intros o Ho. left. rewrite Hq. rewrite map_app. apply in_or_app; auto.
  - intros u Hu. destruct (Hd u Hu) as [H|(o & Ho & <- & _)]; auto.
    right; left. apply in_map_iff in Ho as (x & <- & _). reflexivity.
  - destruct Ht as [H|[H1 H2]]; auto. right; split; auto. rewrite Hq.
    destruct a; [congruence | discriminate].
Qed.

Lemma exec_task_X w t :
  w_hung w = false -> w_hung (exec_task cfg fp w k t) = false -> Xspec w (exec_task cfg fp w k t) t.
Proof.
  intros Hw Hh. destruct t as [[m|uid ss|uid ts]| |]; cbn [exec_task] in *.
  - apply Spec_X_op, task_publish_spec, Hh.
  - apply Spec_X_op, task_subscribe_spec, Hh.
  - apply Spec_X_op, task_unsubscribe_spec, Hh.
  - apply task_resubscribe_X; auto.
  - apply task_retry_X; auto.
Qed.

(* ---------- with a response timeout nothing waits for ever ---------- *)
Section NoHang.
Hypothesis Hto : c_timeout cfg = true.

Lemma attempt1_nohang w p uid e w' r : attempt1 w p uid e = (w', r) -> w_hung w' = w_hung w.
Proof.
  unfold attempt1. destruct (negb (cl_inited (get_client w k))).
  - intros H; injection H as <- <-; reflexivity.
  - destruct (send cfg fp w k p) as [w1 r0] eqn:Es. apply send_spec in Es.
    destruct Es as [_ _ _ _ _ _ Hhung _ _ Hnh].
    destruct r0; intros H; injection H as <- <-; wproj; auto.
    rewrite Hnh in Hto; [discriminate | reflexivity].
Qed.

Lemma attempt_publish_nohang w m dup w' r : attempt_publish cfg fp w k m dup = (w', r) -> w_hung w' = w_hung w.
Proof.
  unfold attempt_publish. destruct (negb (cl_inited (get_client w k))).
  - intros H; injection H as <- <-; reflexivity.
  - destruct (send cfg fp w k (PPublish m dup)) as [w1 r0] eqn:Es. apply send_spec in Es.
    destruct Es as [_ _ _ _ _ _ Hhung _ _ Hnh].
    assert (r0 <> CHang) by (intros E; rewrite Hnh in Hto; [discriminate | exact E]).
    destruct (p_qos m =? 0)%N; [|destruct (p_qos m =? 1)%N].
    + destruct r0; intros E; injection E as <- <-; auto.
    + destruct r0; intros E; try (injection E as <- <-; wproj; auto); congruence.
    + destruct r0; try (intros E; injection E as <- <-; wproj; auto; congruence).
      rewrite attempt_pubrel_eq. intros E. apply attempt1_nohang in E. congruence.
Qed.

Lemma do_publish_nohang w m : w_hung (do_publish cfg fp w k m) = w_hung w.
Proof.
  unfold do_publish. destruct (attempt_publish cfg fp w k m false) as [w1 r] eqn:E.
  rewrite settle_hung. eapply attempt_publish_nohang; eauto.
Qed.

Lemma do_subscribe_nohang w uid ss : w_hung (do_subscribe cfg fp w k uid ss) = w_hung w.
Proof.
  unfold do_subscribe. rewrite attempt_subscribe_eq.
  destruct (attempt1 (set_subest w (est_apply_subs (w_subest w) ss)) (PSubscribe uid ss) uid (RSubscribe uid ss)) as [w1 r] eqn:E.
  rewrite settle_hung. apply attempt1_nohang in E. exact E.
Qed.

Lemma do_unsubscribe_nohang w uid ts : w_hung (do_unsubscribe cfg fp w k uid ts) = w_hung w.
Proof.
  unfold do_unsubscribe. rewrite attempt_unsubscribe_eq.
  destruct (attempt1 (set_subest w (est_apply_unsubs (w_subest w) ts)) (PUnsubscribe uid ts) uid (RUnsubscribe uid ts)) as [w1 r] eqn:E.
  rewrite settle_hung. apply attempt1_nohang in E. exact E.
Qed.

Lemma task_subscribe_nohang w uid ss : w_hung (task_subscribe cfg fp w k uid ss) = w_hung w.
Proof. unfold task_subscribe. destruct (w_retryq w); [apply do_subscribe_nohang | reflexivity]. Qed.

Lemma run_entry_nohang w e w' r : run_entry cfg fp w k e = (w', r) -> w_hung w' = w_hung w.
Proof.
  destruct e; cbn [run_entry].
  - apply attempt_publish_nohang.
  - rewrite attempt_pubrel_eq. apply attempt1_nohang.
  - rewrite attempt_subscribe_eq. apply attempt1_nohang.
  - rewrite attempt_unsubscribe_eq. apply attempt1_nohang.
  - intros H; injection H as <- <-. apply do_publish_nohang.
  - intros H; injection H as <- <-. apply do_subscribe_nohang.
  - intros H; injection H as <- <-. apply do_unsubscribe_nohang.
Qed.

Lemma retry_loop_nohang old : forall w, w_hung (retry_loop cfg fp w k old) = w_hung w.
Proof.
  induction old as [|e rest IH]; intros w; cbn [retry_loop]; auto.
  destruct (run_entry cfg fp w k e) as [w1 r] eqn:Er. apply run_entry_nohang in Er.
  destruct (w_hung w1) eqn:Eh; [congruence|].
  destruct r; rewrite ?IH; wproj; congruence.
Qed.

Lemma exec_task_nohang w t : w_hung (exec_task cfg fp w k t) = w_hung w.
Proof.
  destruct t as [[m|uid ss|uid ts]| |]; cbn [exec_task].
  - unfold task_publish. destruct (w_retryq w); [apply do_publish_nohang|].
    destruct (0 <? p_qos m)%N; reflexivity.
  - apply task_subscribe_nohang.
  - unfold task_unsubscribe. destruct (w_retryq w); [apply do_unsubscribe_nohang | reflexivity].
  - unfold task_resubscribe. wproj.
    generalize (set_retryq (set_subest w []) []) (eq_refl : w_hung (set_retryq (set_subest w []) []) = w_hung w).
    generalize (w_hung w). intros b. induction (w_subest w) as [|s l IH]; intros w0 H0; cbn [fold_left]; auto.
    destruct (w_hung w0) eqn:E0; apply IH; [congruence | rewrite task_subscribe_nohang; congruence].
  - unfold task_retry. rewrite retry_loop_nohang. reflexivity.
Qed.

End NoHang.


(* ---------- a task never changes the number of clients ---------- *)
Notation nclients w := (length (w_clients w)).

Lemma attempt1_len w p uid e w' r : attempt1 w p uid e = (w', r) -> nclients w' = nclients w.
Proof.
  unfold attempt1. destruct (negb (cl_inited (get_client w k))).
  - intros H; injection H as <- <-; reflexivity.
  - destruct (send cfg fp w k p) as [w1 r0] eqn:Es. apply send_spec in Es.
    destruct Es as [_ _ _ _ _ _ _ _ Hl _].
    destruct r0; intros H; injection H as <- <-; wproj; auto.
Qed.

Lemma attempt_publish_len w m dup w' r : attempt_publish cfg fp w k m dup = (w', r) -> nclients w' = nclients w.
Proof.
  unfold attempt_publish. destruct (negb (cl_inited (get_client w k))).
  - intros H; injection H as <- <-; reflexivity.
  - destruct (send cfg fp w k (PPublish m dup)) as [w1 r0] eqn:Es. apply send_spec in Es.
    destruct Es as [_ _ _ _ _ _ _ _ Hl _].
    destruct (p_qos m =? 0)%N; [|destruct (p_qos m =? 1)%N].
    + destruct r0; intros E; injection E as <- <-; auto.
    + destruct r0; intros E; injection E as <- <-; wproj; auto.
    + destruct r0; try (intros E; injection E as <- <-; wproj; auto).
      rewrite attempt_pubrel_eq. intros E. apply attempt1_len in E. congruence.
Qed.

Lemma settle_len uid w1 r : nclients (settle uid (w1, r)) = nclients w1.
Proof. destruct r; reflexivity. Qed.

Lemma do_publish_len w m : nclients (do_publish cfg fp w k m) = nclients w.
Proof.
  unfold do_publish. destruct (attempt_publish cfg fp w k m false) as [w1 r] eqn:E.
  rewrite settle_len. eapply attempt_publish_len; eauto.
Qed.

Lemma do_subscribe_len w uid ss : nclients (do_subscribe cfg fp w k uid ss) = nclients w.
Proof.
  unfold do_subscribe. rewrite attempt_subscribe_eq.
  destruct (attempt1 (set_subest w (est_apply_subs (w_subest w) ss)) (PSubscribe uid ss) uid (RSubscribe uid ss)) as [w1 r] eqn:E.
  rewrite settle_len. apply attempt1_len in E. exact E.
Qed.

Lemma do_unsubscribe_len w uid ts : nclients (do_unsubscribe cfg fp w k uid ts) = nclients w.
Proof.
  unfold do_unsubscribe. rewrite attempt_unsubscribe_eq.
  destruct (attempt1 (set_subest w (est_apply_unsubs (w_subest w) ts)) (PUnsubscribe uid ts) uid (RUnsubscribe uid ts)) as [w1 r] eqn:E.
  rewrite settle_len. apply attempt1_len in E. exact E.
Qed.

Lemma task_subscribe_len w uid ss : nclients (task_subscribe cfg fp w k uid ss) = nclients w.
Proof. unfold task_subscribe. destruct (w_retryq w); [apply do_subscribe_len | reflexivity]. Qed.

Lemma run_entry_len w e w' r : run_entry cfg fp w k e = (w', r) -> nclients w' = nclients w.
Proof.
  destruct e; cbn [run_entry].
  - apply attempt_publish_len.
  - rewrite attempt_pubrel_eq. apply attempt1_len.
  - rewrite attempt_subscribe_eq. apply attempt1_len.
  - rewrite attempt_unsubscribe_eq. apply attempt1_len.
  - intros H; injection H as <- <-. apply do_publish_len.
  - intros H; injection H as <- <-. apply do_subscribe_len.
  - intros H; injection H as <- <-. apply do_unsubscribe_len.
Qed.

Lemma retry_loop_len old : forall w, nclients (retry_loop cfg fp w k old) = nclients w.
Proof.
  induction old as [|e rest IH]; intros w; cbn [retry_loop]; auto.
  destruct (run_entry cfg fp w k e) as [w1 r] eqn:Er. apply run_entry_len in Er.
  destruct (w_hung w1) eqn:Eh; [congruence|].
  destruct r; rewrite ?IH; wproj; congruence.
Qed.

Lemma exec_task_len w t : nclients (exec_task cfg fp w k t) = nclients w.
Proof.
  destruct t as [[m|uid ss|uid ts]| |]; cbn [exec_task].
  - unfold task_publish. destruct (w_retryq w); [apply do_publish_len|].
    destruct (0 <? p_qos m)%N; reflexivity.
  - apply task_subscribe_len.
  - unfold task_unsubscribe. destruct (w_retryq w); [apply do_unsubscribe_len | reflexivity].
  - unfold task_resubscribe. wproj.
    generalize (set_retryq (set_subest w []) []) (eq_refl : nclients (set_retryq (set_subest w []) []) = nclients w).
    generalize (nclients w). intros b. induction (w_subest w) as [|s l IH]; intros w0 H0; cbn [fold_left]; auto.
    destruct (w_hung w0) eqn:E0; apply IH; [congruence | rewrite task_subscribe_len; congruence].
  - unfold task_retry. rewrite retry_loop_len. reflexivity.
Qed.

End Spec.

End Acct.
