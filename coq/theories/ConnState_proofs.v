(* ConnState_proofs.v — invariants of the model of ConnState.v and the C16 theorems.
   All statements quantify over every schedule (every list of labels; a label that is not
   enabled is a no-op) from the initial system, hence over every interleaving of Connect,
   the reader's exit path, Disconnect, Close, the keep-alive goroutines and the dialling of
   further connections, and over every ending cause. *)
From MQ Require Import Base ConnState.
Open Scope N_scope.

(* ---------- lists ---------- *)
Lemma count_state_app st a b : count_state st (a ++ b) = (count_state st a + count_state st b)%nat.
Proof. unfold count_state. rewrite filter_app, app_length. reflexivity. Qed.

Lemma entries_of_app st a b : entries_of st (a ++ b) = entries_of st a ++ entries_of st b.
Proof. unfold entries_of. apply filter_app. Qed.

Lemma count_entries st l : count_state st l = length (entries_of st l).
Proof. reflexivity. Qed.

Lemma nth_error_replace_same {A} k (x : A) l : (k < length l)%nat -> nth_error (replace_nth k x l) k = Some x.
Proof.
  revert k; induction l as [|y l IH]; intros [|k] H; cbn in *; try lia; [reflexivity|].
  apply IH. lia.
Qed.

Lemma nth_error_replace_other {A} k j (x : A) l : j <> k -> nth_error (replace_nth k x l) j = nth_error l j.
Proof.
  revert k j; induction l as [|y l IH]; intros [|k] [|j] H; cbn; try reflexivity; try congruence.
  apply IH. congruence.
Qed.

Lemma length_replace {A} k (x : A) l : length (replace_nth k x l) = length l.
Proof. revert k; induction l as [|y l IH]; intros [|k]; cbn; try reflexivity. now rewrite IH. Qed.

(* ---------- how one system step changes client k (variants VMid, VCur) ---------- *)
Lemma disc_req_mono v s sl : disc_req s = true -> disc_req (step v s sl) = true.
Proof.
  intros H. destruct sl as [k l| |]; cbn; try assumption; try reflexivity.
  destruct (nth_error (cls s) k) as [c|]; [|assumption].
  destruct (cstep v (disc_req s) c l) as [c'|]; [|assumption].
  destruct v; try assumption. destruct l; try assumption. destruct (c_ka c); try assumption.
  unfold store_on. cbn. destruct (nth_error _ _); assumption.
Qed.

Lemma length_step v s sl : (length (cls s) <= length (cls (step v s sl)))%nat.
Proof.
  destruct sl as [k l| |]; cbn; try lia.
  - destruct (nth_error (cls s) k) as [c|]; [|lia].
    destruct (cstep v (disc_req s) c l) as [c'|]; [|lia].
    assert (L : length (cls (mkSys (replace_nth k c' (cls s)) (cur s) (disc_req s))) = length (cls s))
      by (cbn; apply length_replace).
    destruct v; try (cbn; rewrite length_replace; lia).
    destruct l; try (cbn; rewrite length_replace; lia).
    destruct (c_ka c); try (cbn; rewrite length_replace; lia).
    unfold store_on. cbn. destruct (nth_error _ _); cbn; rewrite ?length_replace; lia.
  - rewrite app_length. cbn. lia.
Qed.

Definition not_old (v : variant) : Prop := v <> VOld.

(* client k after a step: unchanged, or moved by cstep, or freshly dialled *)
Lemma step_client v s sl k c' : not_old v ->
  nth_error (cls (step v s sl)) k = Some c' ->
  (nth_error (cls s) k = Some c' /\ (forall l, sl = On k l -> cstep v (disc_req s) c' l = None \/ True)) \/
  (exists c l, sl = On k l /\ nth_error (cls s) k = Some c /\ cstep v (disc_req s) c l = Some c') \/
  (sl = SDial /\ k = length (cls s) /\ c' = fresh true).
Proof.
  intros Hv H. destruct sl as [j l| |]; cbn in H.
  - destruct (nth_error (cls s) j) as [c|] eqn:Ej; [|left; split; [assumption|intros; right; exact I]].
    destruct (cstep v (disc_req s) c l) as [c1|] eqn:Es; [|left; split; [assumption|intros; right; exact I]].
    assert (H' : nth_error (replace_nth j c1 (cls s)) k = Some c').
    { destruct v; [exfalso; apply Hv; reflexivity| |]; exact H. }
    destruct (Nat.eq_dec k j) as [->|N].
    + right; left. exists c, l. rewrite nth_error_replace_same in H'.
      * injection H' as <-. repeat split; assumption.
      * apply nth_error_Some. congruence.
    + left. rewrite nth_error_replace_other in H' by assumption. split; [assumption|intros; right; exact I].
  - destruct (Nat.lt_ge_cases k (length (cls s))) as [L|L].
    + rewrite nth_error_app1 in H by assumption. left; split; [assumption|intros; right; exact I].
    + rewrite nth_error_app2 in H by assumption.
      destruct (k - length (cls s))%nat as [|d] eqn:Ed; cbn in H.
      * injection H as <-. right; right. repeat split. lia.
      * destruct d; discriminate.
  - left; split; [assumption|intros; right; exact I].
Qed.

(* the labels of client k in a schedule all satisfy QL *)
Definition restr (k : nat) (QL : label -> Prop) (sl : slabel) : Prop := forall l, sl = On k l -> QL l.

Definition AllK (k : nat) (I : bool -> client -> Prop) (s : sys) : Prop :=
  forall c, nth_error (cls s) k = Some c -> I (disc_req s) c.

(* the invariant lemma everything below rests on *)
Lemma AllK_run v k (QL : label -> Prop) (I : bool -> client -> Prop) : not_old v ->
  (forall dr c l c', I dr c -> QL l -> cstep v dr c l = Some c' -> I dr c') ->
  (forall c, I false c -> I true c) ->
  forall sched s, Forall (restr k QL) sched ->
  ((k < length (cls s))%nat \/ forall dr, I dr (fresh true)) ->
  AllK k I s -> AllK k I (run v s sched).
Proof.
  intros Hv Hpres Hmono sched. induction sched as [|sl sched IH]; intros s HF Hfresh HA; [exact HA|].
  cbn. inversion HF as [|? ? Hsl HF']; subst. apply IH; [exact HF'| |].
  - destruct Hfresh as [L|F]; [left|right; exact F]. pose proof (length_step v s sl). lia.
  - intros c' Hc'. destruct (step_client v s sl k c' Hv Hc') as [[Hsame _]|[(c & l & -> & Hc & Hs)|(-> & -> & ->)]].
    + pose proof (HA c' Hsame) as Hi.
      destruct (disc_req s) eqn:Ed.
      * rewrite (disc_req_mono v s sl Ed). exact Hi.
      * destruct (disc_req (step v s sl)); [apply Hmono|]; exact Hi.
    + assert (Ed : disc_req (step v s (On k l)) = disc_req s).
      { cbn. rewrite Hc, Hs. destruct v; [exfalso; apply Hv; reflexivity| |]; reflexivity. }
      rewrite Ed. eapply Hpres; [apply HA; exact Hc|apply Hsl; reflexivity|exact Hs].
    + destruct Hfresh as [L|F]; [lia|apply F].
Qed.

Lemma AllK_init k (I : bool -> client -> Prop) m : (forall m dr, I dr (fresh m)) -> AllK k I (init_sys m).
Proof.
  intros H c Hc. cbn in Hc. destruct k as [|[|k]]; cbn in Hc; try discriminate. injection Hc as <-. apply H.
Qed.

Lemma Forall_restr_True k sched : Forall (restr k (fun _ => True)) sched.
Proof. apply Forall_forall. intros sl _ l _. exact I. Qed.

(* invariants of every client from the initial system, all schedules *)
Lemma client_inv v (I : bool -> client -> Prop) : not_old v ->
  (forall m dr, I dr (fresh m)) ->
  (forall dr c l c', I dr c -> cstep v dr c l = Some c' -> I dr c') ->
  (forall c, I false c -> I true c) ->
  forall m sched k c, nth_error (cls (run v (init_sys m) sched)) k = Some c ->
  I (disc_req (run v (init_sys m) sched)) c.
Proof.
  intros Hv Hf Hp Hm m sched k c Hc.
  refine (AllK_run v k (fun _ => True) I Hv _ Hm sched (init_sys m) (Forall_restr_True k sched) _ _ c Hc).
  - intros dr c0 l c0' Hi _ Hs. eapply Hp; eassumption.
  - right. intros dr. apply Hf.
  - apply AllK_init. exact Hf.
Qed.

(* ---------- case analysis on one client step ---------- *)
Ltac inv_some H := first [discriminate H | injection H as H; subst].

Ltac step_cases H :=
  unfold cstep in H;
  repeat match type of H with
         | context [match ?x with _ => _ end] =>
             match x with
             | context [match _ with _ => _ end] => fail 1
             | _ => destruct x eqn:?; try discriminate H
             end
         end;
  try (injection H as H; subst).

(* ---------- group D: Disconnected is reported exactly when Disconnect's update ran, and is
   the last callback ever ---------- *)
Definition inv_D (c : client) : Prop :=
  (c_disc c = DNotStarted <-> c_state c <> SDisconnected) /\
  (c_disc c = DNotStarted -> count_state SDisconnected (c_log c) = 0%nat) /\
  (c_disc c <> DNotStarted -> exists l1 e, c_log c = l1 ++ [(SDisconnected, e)] /\ count_state SDisconnected l1 = 0%nat).

Lemma update_cases c ns :
  (c_state c = SDisconnected /\ update c ns = set_state c SDisconnected) \/
  (c_state c <> SDisconnected /\ c_state c = ns /\ update c ns = set_state c ns) \/
  (c_state c <> SDisconnected /\ c_state c <> ns /\ update c ns = set_log (set_state c ns) (c_log c ++ [(ns, c_err c)])).
Proof.
  unfold update. destruct (c_state c) eqn:E, ns; cbn;
    first [ solve [left; split; reflexivity]
          | solve [right; left; repeat split; try discriminate; reflexivity]
          | solve [right; right; repeat split; try discriminate; reflexivity] ].
Qed.

Lemma set_state_same c : set_state c (c_state c) = c.
Proof. destruct c; reflexivity. Qed.

(* what [update] does to the observable fields *)
Lemma update_fields c ns :
  c_managed (update c ns) = c_managed c /\ c_err (update c ns) = c_err c /\ c_done (update c ns) = c_done c /\
  c_tclosed (update c ns) = c_tclosed c /\ c_ack (update c ns) = c_ack c /\ c_conn (update c ns) = c_conn c /\
  c_serve (update c ns) = c_serve c /\ c_disc (update c ns) = c_disc c /\ c_ka (update c ns) = c_ka c /\
  c_ctx (update c ns) = c_ctx c.
Proof.
  unfold update. destruct (cstate_eqb (c_state c) SDisconnected);
    match goal with |- context [if ?b then _ else _] => destruct b end; cbn; repeat split; reflexivity.
Qed.

Lemma set_err_once_cases c e :
  (c_err c = None /\ set_err_once c e = set_err c (Some e)) \/ (exists e0, c_err c = Some e0 /\ set_err_once c e = c).
Proof. unfold set_err_once. destruct (c_err c) eqn:E; [right; eauto|left; auto]. Qed.

Lemma count_state_one st st' e : count_state st [(st', e)] = if cstate_eqb st' st then 1%nat else 0%nat.
Proof. unfold count_state. cbn. destruct (cstate_eqb st' st); reflexivity. Qed.
Lemma entries_of_one st st' e : entries_of st [(st', e)] = if cstate_eqb st' st then [(st', e)] else [].
Proof. unfold entries_of. cbn. destruct (cstate_eqb st' st); reflexivity. Qed.
Arguments count_state : simpl never.
Arguments entries_of : simpl never.

Ltac upd c ns := let Es := fresh "Es" in let En := fresh "En" in let Eu := fresh "Eu" in
  destruct (update_cases c ns) as [(Es & Eu)|[(En & Es & Eu)|(En & Es & Eu)]]; rewrite Eu; clear Eu.

Ltac seo c e := let E0 := fresh "E0" in let Eu := fresh "Eu" in let e0 := fresh "e0" in
  destruct (set_err_once_cases c e) as [(E0 & Eu)|(e0 & E0 & Eu)]; rewrite Eu; clear Eu.

Ltac crush := cbn in *; rewrite ?count_state_app, ?entries_of_app, ?count_state_one, ?entries_of_one in *; cbn in *;
  intuition (try congruence; try discriminate; try lia; eauto).

Lemma inv_D_pres v dr c l c' : inv_D c -> cstep v dr c l = Some c' -> inv_D c'.
Proof.
  intros HD H. step_cases H.
  all: try (unfold inv_D in *; cbn; exact HD).
  all: unfold inv_D in *.
  all: try (match goal with |- context [set_err_once ?x ?e] => seo x e; crush end; fail).
  all: try (match goal with |- context [update ?x ?ns] => upd x ns; crush end; fail).
  all: try (crush; fail).
Qed.

Lemma inv_D_fresh m : inv_D (fresh m).
Proof. unfold inv_D; cbn. repeat split; intros; try congruence; try reflexivity; try discriminate. Qed.

(* ---------- group A: Active is reported at most once, by Connect's last step ---------- *)
Definition inv_A (c : client) : Prop :=
  (c_conn c <> CReturned ROk -> count_state SActive (c_log c) = 0%nat /\ c_state c <> SActive) /\
  (count_state SActive (c_log c) <= 1)%nat.

Lemma inv_A_pres v dr c l c' : inv_A c -> cstep v dr c l = Some c' -> inv_A c'.
Proof.
  intros HA H. step_cases H.
  all: try (unfold inv_A in *; cbn; exact HA).
  all: unfold inv_A in *.
  all: try (seo c e; crush; fail).
  all: try (crush; fail).
  all: match goal with |- context [update ?x ?ns] => upd x ns; crush end.
Qed.

Lemma inv_A_fresh m : inv_A (fresh m).
Proof. unfold inv_A; cbn. split; [intros _; split; [reflexivity|discriminate]|]. unfold count_state; cbn; lia. Qed.

(* no accepting CONNACK has been read: no Active *)
Definition inv_NoAcc (c : client) : Prop :=
  c_ack c <> Some 0 /\ c_conn c <> CGotAck /\ c_conn c <> CReturned ROk /\ count_state SActive (c_log c) = 0%nat.

Lemma inv_NoAcc_pres v dr c l c' : inv_NoAcc c -> is_accept l = false -> cstep v dr c l = Some c' -> inv_NoAcc c'.
Proof.
  intros HA Hl H. step_cases H.
  all: try (unfold inv_NoAcc in *; cbn; exact HA).
  all: unfold inv_NoAcc in *.
  all: try (seo c e; crush; fail).
  all: try (crush; fail).
  all: try (upd c SClosed; crush; fail).
  all: try (upd c SDisconnected; crush; fail).
  all: try (upd c SActive; crush; fail).
  - apply N.eqb_eq in Heqb. subst n. exfalso. destruct HA as (HA & _). apply HA. exact Heqo.
  - assert (code <> 0) by (intros ->; discriminate Hl). crush.
Qed.

(* ---------- group B: Closed is reported at most once, by the exit path, with the stored error ---------- *)
Definition serve_pre (c : client) : bool :=
  match c_serve c with SvUpdated | SvFinished => false | _ => true end.

Definition inv_B (c : client) : Prop :=
  (serve_pre c = true -> entries_of SClosed (c_log c) = [] /\ c_state c <> SClosed) /\
  (serve_pre c = false -> c_disc c = DNotStarted ->
     exists e, entries_of SClosed (c_log c) = [(SClosed, Some e)] /\ c_err c = Some e) /\
  (length (entries_of SClosed (c_log c)) <= 1)%nat /\
  (c_serve c = SvStored -> c_disc c = DNotStarted -> exists e, c_err c = Some e).

Lemma cstate_eqb_true a b : cstate_eqb a b = true -> a = b.
Proof. destruct a, b; cbn; congruence. Qed.
Lemma cstate_eqb_false a b : cstate_eqb a b = false -> a <> b.
Proof. destruct a, b; cbn; congruence. Qed.
Ltac eqb_props := repeat match goal with
  | H : cstate_eqb _ _ = true |- _ => apply cstate_eqb_true in H
  | H : cstate_eqb _ _ = false |- _ => apply cstate_eqb_false in H end.
Ltac rw_pcs := repeat match goal with E : ?f ?c = _ |- _ => is_var c; progress (rewrite E in * ) end.
Ltac spec_triv := repeat match goal with
  | H : ?a = ?a -> _ |- _ => specialize (H eq_refl)
  | H : true = false -> _ |- _ => clear H
  | H : false = true -> _ |- _ => clear H
  | H : exists _, _ |- _ => destruct H
  | H : _ /\ _ |- _ => destruct H
  end.
Ltac crush2 := eqb_props; cbn in *; rw_pcs; cbn in *;
  rewrite ?count_state_app, ?entries_of_app, ?count_state_one, ?entries_of_one in *; cbn in *;
  rewrite ?app_nil_r, ?Nat.add_0_r in *; spec_triv; rw_pcs;
  intuition (try congruence; try discriminate; try lia; eauto).
Lemma inv_B_pres v dr c l c' : inv_D c -> inv_B c -> cstep v dr c l = Some c' -> inv_B c'.
Proof.
  intros HD HB H. step_cases H.
  all: try (unfold inv_B, serve_pre in *; cbn; exact HB).
  all: unfold inv_B, inv_D, serve_pre in *.
  all: try (seo c e; crush2; fail).
  all: try (crush2; fail).
  all: try (upd c SClosed; crush2; fail).
  all: try (upd c SDisconnected; crush2; fail).
  all: try (upd c SActive; crush2; fail).
  - upd c SClosed; crush2.
    + destruct H4 as (e0 & He0). exists e0. rewrite H, He0. auto.
    + rewrite H. cbn. lia.
  - destruct (c_serve c) eqn:Esv; seo c e; crush2; spec_triv; congruence.
  - destruct (c_serve c) eqn:Esv; seo c e; crush2; spec_triv; congruence.
Qed.

Lemma inv_B_fresh m : inv_B (fresh m).
Proof. unfold inv_B, serve_pre; cbn. repeat split; intros; try discriminate; try reflexivity. unfold entries_of; cbn; lia. Qed.

(* ---------- group E: the error is set only by an ending cause of THIS connection ---------- *)
Definition inv_E (c : client) : Prop :=
  (c_err c <> None -> c_tclosed c = true \/ serve_alive c = false \/ c_ka c = KClosing) /\
  (forall e, c_ka c = KFailed e -> errc_eqb e ECtxCanceled = true -> c_ctx c = false) /\
  (c_managed c = false -> c_ka c = KNotStarted).

Lemma inv_E_pres v dr c l c' : not_old v -> inv_E c -> cstep v dr c l = Some c' -> inv_E c'.
Proof.
  intros Hv HE H. step_cases H.
  all: try (unfold inv_E, serve_alive in *; cbn; exact HE).
  all: unfold inv_E, serve_alive, not_old in *.
  all: try (seo c e; crush2; fail).
  all: try (crush2; fail).
  all: try (upd c SClosed; crush2; fail).
  all: try (upd c SDisconnected; crush2; fail).
  all: try (upd c SActive; crush2; fail).
  - apply Bool.eqb_prop in Heqb. cbn. destruct HE as (E1 & E2 & E3). rewrite Heqk in *. split; [|split].
    + intros Hn. destruct (E1 Hn) as [A|[A|A]]; auto. discriminate.
    + intros e0 He0 He. injection He0 as <-. rewrite He in Heqb. destruct (c_ctx c); [discriminate|reflexivity].
    + intros Hm. specialize (E3 Hm). discriminate.
Qed.


Lemma inv_E_fresh m : inv_E (fresh m).
Proof. unfold inv_E; cbn. repeat split; intros; try discriminate; try reflexivity. exfalso; auto. Qed.

Lemma inv_E_healthy c : inv_E c -> healthy c = true -> c_err c = None.
Proof.
  intros (E1 & _ & _) Hh. destruct (c_err c) eqn:Ee; [|reflexivity]. exfalso.
  unfold healthy in Hh. apply andb_true_iff in Hh as [Hh Hk]. apply andb_true_iff in Hh as [Ht Hs].
  destruct E1 as [E|[E|E]]; [discriminate| | |].
  - rewrite E in Ht. discriminate.
  - rewrite E in Hs. discriminate.
  - unfold ka_quiet in Hk. rewrite E in Hk. discriminate.
Qed.

(* ---------- group F: Done() ---------- *)
Definition serve_closed (c : client) : bool :=
  match c_serve c with SvClosedT _ | SvStored | SvUpdated | SvFinished => true | _ => false end.

Definition inv_F (c : client) : Prop :=
  (c_done c = true <-> c_serve c = SvFinished) /\
  (serve_closed c = true -> c_tclosed c = true) /\
  (serve_pre c = false -> (1 <= count_state SClosed (c_log c) \/ 1 <= count_state SDisconnected (c_log c))%nat).

Lemma inv_F_pres v dr c l c' : inv_D c -> inv_B c -> inv_F c -> cstep v dr c l = Some c' -> inv_F c'.
Proof.
  intros HD HB HF H. step_cases H.
  all: try (unfold inv_F, serve_closed, serve_pre in *; cbn; exact HF).
  all: unfold inv_F, inv_B, inv_D, serve_closed, serve_pre in *.
  all: try (seo c e; crush2; fail).
  all: try (crush2; fail).
  all: try (upd c SClosed; crush2; fail).
  all: try (upd c SDisconnected; crush2; fail).
  all: try (upd c SActive; crush2; fail).
  - destruct HD as (D1 & D2 & D3). destruct HF as (F1 & F2 & F3). destruct HB as (B1 & _).
    rewrite Heqs in *. upd c SClosed; cbn; rewrite ?Heqs; (split; [|split]).
    all: try (split; intros X; [apply F1 in X|]; discriminate).
    all: try (intros _; apply F2; reflexivity).
    + intros _. right. assert (Hn : c_disc c <> DNotStarted) by (intros X; apply D1 in X; congruence).
      destruct (D3 Hn) as (l1 & e & El & _). rewrite El, count_state_app, count_state_one. cbn. lia.
    + exfalso. apply (proj2 (B1 eq_refl)). exact Es.
    + intros _. left. rewrite count_state_app, count_state_one. cbn. lia.
Qed.

Lemma inv_F_fresh m : inv_F (fresh m).
Proof. unfold inv_F, serve_closed, serve_pre; cbn. repeat split; intros; try discriminate. Qed.

(* ---------- group S: after a Disconnect on a healthy connection the error stays nil ---------- *)
Definition is_cur (v : variant) : bool := match v with VCur => true | _ => false end.

Definition ka_safe (v : variant) (dr : bool) (c : client) : bool :=
  match c_ka c with
  | KStoring _ | KClosing => false
  | KReturned => true
  | KNotStarted => negb (c_managed c) || (is_cur v && dr)
  | KRunning => is_cur v && dr
  | KFailed _ => (is_cur v && dr) || negb (c_ctx c)
  end.

Definition safe (v : variant) (dr : bool) (c : client) : Prop :=
  c_state c = SDisconnected /\ c_err c = None /\ ka_safe v dr c = true.

Lemma safe_pres v dr c l c' : not_old v -> safe v dr c -> cstep v dr c l = Some c' -> safe v dr c'.
Proof.
  intros Hv HS H. step_cases H.
  all: try (unfold safe, ka_safe in *; cbn; exact HS).
  all: unfold safe, ka_safe, not_old in *.
  all: try (seo c e; crush2; fail).
  all: try (crush2; fail).
  all: try (upd c SClosed; crush2; fail).
  all: try (upd c SDisconnected; crush2; fail).
  all: try (upd c SActive; crush2; fail).
  - exfalso. destruct HS as (_ & _ & HS). rewrite Heqk in HS. cbn in HS.
    destruct (c_ctx c), dr; cbn in *; discriminate.
  - destruct HS as (S1 & S2 & S3). cbn. repeat split; auto.
    destruct (c_ka c); auto. cbn. rewrite orb_true_r. reflexivity.
Qed.

Lemma safe_mono v c : safe v false c -> safe v true c.
Proof.
  unfold safe, ka_safe. intros (S1 & S2 & S3). repeat split; auto.
  destruct (c_ka c), (is_cur v), (c_managed c), (c_ctx c); cbn in *; auto.
Qed.

(* ---------- the combined invariant of every client of every reachable system ---------- *)
Definition Inv (c : client) : Prop := inv_D c /\ inv_A c /\ inv_B c /\ inv_E c /\ inv_F c.

Lemma Inv_fresh m : Inv (fresh m).
Proof. unfold Inv. split; [|split; [|split; [|split]]]; [apply inv_D_fresh|apply inv_A_fresh|apply inv_B_fresh|apply inv_E_fresh|apply inv_F_fresh]. Qed.

Lemma Inv_pres v dr c l c' : not_old v -> Inv c -> cstep v dr c l = Some c' -> Inv c'.
Proof.
  intros Hv (HD & HA & HB & HE & HF) H. unfold Inv. split; [|split; [|split; [|split]]].
  - eapply inv_D_pres; eassumption.
  - eapply inv_A_pres; eassumption.
  - eapply inv_B_pres; eassumption.
  - eapply inv_E_pres; eassumption.
  - eapply inv_F_pres; eassumption.
Qed.

Lemma reach_inv v m sched k c : not_old v ->
  nth_error (cls (run v (init_sys m) sched)) k = Some c -> Inv c.
Proof.
  intros Hv Hc.
  refine (client_inv v (fun _ c => Inv c) Hv _ _ _ m sched k c Hc).
  - intros; apply Inv_fresh.
  - intros dr c0 l c0' Hi Hs. eapply Inv_pres; eassumption.
  - auto.
Qed.

Lemma step_on v s k c l c' : not_old v ->
  nth_error (cls s) k = Some c -> cstep v (disc_req s) c l = Some c' ->
  nth_error (cls (step v s (On k l))) k = Some c' /\ disc_req (step v s (On k l)) = disc_req s.
Proof.
  intros Hv Hc Hs. cbn. rewrite Hc, Hs.
  assert (L : (k < length (cls s))%nat) by (apply nth_error_Some; congruence).
  destruct v; [exfalso; apply Hv; reflexivity| |]; cbn; (split; [apply nth_error_replace_same; exact L|reflexivity]).
Qed.

Lemma run_app v s a b : run v s (a ++ b) = run v (run v s a) b.
Proof. unfold run. apply fold_left_app. Qed.

Section C16.
Variable v : variant.
Hypothesis Hv : not_old v.
Variable m : bool.                       (* is the first BaseClient managed by a reconnecting client *)

Notation reach sched := (run v (init_sys m) sched).

(* Active is reported at most once *)
Theorem active_at_most_once sched k c :
  nth_error (cls (reach sched)) k = Some c -> (count_state SActive (c_log c) <= 1)%nat.
Proof. intros Hc. destruct (reach_inv v m sched k c Hv Hc) as (_ & (_ & A2) & _). exact A2. Qed.

(* ... and not as long as the reader has not read an accepting CONNACK on that connection
   (every prefix of a schedule is a schedule, so "not before") *)
Theorem active_only_after_accept sched k c :
  Forall (fun sl => is_label k is_accept sl = false) sched ->
  nth_error (cls (reach sched)) k = Some c -> count_state SActive (c_log c) = 0%nat.
Proof.
  intros HF Hc.
  assert (HA : AllK k (fun _ c => inv_NoAcc c) (reach sched)).
  { apply (AllK_run v k (fun l => is_accept l = false) (fun _ c => inv_NoAcc c) Hv).
    - intros dr c0 l c0' Hi Hl Hs. eapply inv_NoAcc_pres; eassumption.
    - auto.
    - eapply Forall_impl; [|exact HF]. intros sl Hsl l ->. cbn in Hsl. rewrite Nat.eqb_refl in Hsl. exact Hsl.
    - right. intros _. unfold inv_NoAcc; cbn. repeat split; discriminate.
    - apply AllK_init. intros. unfold inv_NoAcc; cbn. repeat split; discriminate. }
  apply (HA c Hc).
Qed.

(* ... nor has Connect reported success. Return codes are arbitrary N here: every code other
   than 0 (the five refusals of MQTT 3.1.1 and every reserved value) refuses *)
Theorem no_success_without_accept sched k c :
  Forall (fun sl => is_label k is_accept sl = false) sched ->
  nth_error (cls (reach sched)) k = Some c ->
  c_conn c <> CReturned ROk /\ c_conn c <> CGotAck /\ c_state c <> SActive /\ count_state SActive (c_log c) = 0%nat.
Proof.
  intros HF Hc.
  assert (HA : AllK k (fun _ c => inv_NoAcc c) (reach sched)).
  { apply (AllK_run v k (fun l => is_accept l = false) (fun _ c => inv_NoAcc c) Hv).
    - intros dr c0 l c0' Hi Hl Hs. eapply inv_NoAcc_pres; eassumption.
    - auto.
    - eapply Forall_impl; [|exact HF]. intros sl Hsl l ->. cbn in Hsl. rewrite Nat.eqb_refl in Hsl. exact Hsl.
    - right. intros _. unfold inv_NoAcc; cbn. repeat split; discriminate.
    - apply AllK_init. intros. unfold inv_NoAcc; cbn. repeat split; discriminate. }
  destruct (HA c Hc) as (_ & N1 & N2 & N3).
  destruct (reach_inv v m sched k c Hv Hc) as (_ & (A1 & _) & _).
  repeat split; try assumption. apply A1. exact N2.
Qed.

(* the connection has ended (Done() closed) and Disconnect was not called: exactly one Closed
   callback, carrying a non-nil error, which is what Err() returns *)
Theorem closed_once_with_error sched k c :
  nth_error (cls (reach sched)) k = Some c ->
  c_done c = true -> c_disc c = DNotStarted ->
  exists e, entries_of SClosed (c_log c) = [(SClosed, Some e)] /\ c_err c = Some e.
Proof.
  intros Hc Hd Hn. destruct (reach_inv v m sched k c Hv Hc) as (_ & _ & (_ & B2 & _) & _ & (F1 & _)).
  apply F1 in Hd. apply B2; [unfold serve_pre; rewrite Hd; reflexivity|exact Hn].
Qed.

(* Closed is never reported twice, and never before the exit path of the reader reported it *)
Theorem closed_at_most_once sched k c :
  nth_error (cls (reach sched)) k = Some c ->
  (length (entries_of SClosed (c_log c)) <= 1)%nat /\
  (serve_pre c = true -> entries_of SClosed (c_log c) = []).
Proof.
  intros Hc. destruct (reach_inv v m sched k c Hv Hc) as (_ & _ & (B1 & _ & B3 & _) & _).
  split; [exact B3|]. intros H; apply B1; exact H.
Qed.

(* Disconnected is reported exactly once iff Disconnect ran its state update, and it is the
   last callback *)
Theorem disconnected_once_and_last sched k c :
  nth_error (cls (reach sched)) k = Some c ->
  (c_disc c = DNotStarted -> count_state SDisconnected (c_log c) = 0%nat) /\
  (c_disc c <> DNotStarted ->
     exists l1 e, c_log c = l1 ++ [(SDisconnected, e)] /\ count_state SDisconnected l1 = 0%nat).
Proof. intros Hc. destruct (reach_inv v m sched k c Hv Hc) as ((_ & D2 & D3) & _). split; assumption. Qed.

(* once the state is Disconnected no callback (in particular no Closed) is ever invoked again *)
Theorem no_callback_after_disconnected pre post k c c2 :
  nth_error (cls (reach pre)) k = Some c -> c_state c = SDisconnected ->
  nth_error (cls (reach (pre ++ post))) k = Some c2 ->
  c_log c2 = c_log c /\ c_state c2 = SDisconnected.
Proof.
  intros Hc Hs Hc2. rewrite run_app in Hc2.
  set (I := fun (_ : bool) (x : client) => c_state x = SDisconnected /\ c_log x = c_log c).
  assert (HA : AllK k I (run v (reach pre) post)).
  { apply (AllK_run v k (fun _ => True) I Hv).
    - intros dr c0 l c0' (I1 & I2) _ H. unfold I. step_cases H; cbn; auto.
      all: try (match goal with |- context [set_err_once ?x ?e] => seo x e; cbn; auto end; fail).
      all: match goal with |- context [update ?x ?ns] => upd x ns; cbn; auto; congruence end.
    - auto.
    - apply Forall_restr_True.
    - left. apply nth_error_Some. congruence.
    - intros x Hx. rewrite Hc in Hx. injection Hx as <-. split; [exact Hs|reflexivity]. }
  destruct (HA c2 Hc2) as (H1 & H2). split; assumption.
Qed.

(* Err() is nil as long as no ending cause has occurred on THIS connection - whatever the
   goroutines of earlier and later connections of the same reconnecting client do *)
Theorem err_nil_when_healthy sched k c :
  nth_error (cls (reach sched)) k = Some c -> healthy c = true -> c_err c = None.
Proof.
  intros Hc Hh. destruct (reach_inv v m sched k c Hv Hc) as (_ & _ & _ & HE & _).
  apply inv_E_healthy; assumption.
Qed.

(* Disconnect whose state update runs while the connection is healthy: Err() is nil at that
   moment and stays nil for ever. For a connection with a keep-alive goroutine this needs the
   current tree (VCur) and Disconnect to be ReconnectClient.Disconnect (c.disconnected closed first). *)
Theorem err_nil_after_graceful_disconnect pre post k c c2 :
  nth_error (cls (reach pre)) k = Some c ->
  healthy c = true ->
  enabled v (reach pre) (On k LDiscUpdate) = true ->
  (c_managed c = false \/ (v = VCur /\ disc_req (reach pre) = true)) ->
  nth_error (cls (reach (pre ++ On k LDiscUpdate :: post))) k = Some c2 ->
  c_err c2 = None /\ c_state c2 = SDisconnected.
Proof.
  intros Hc Hh Hen Hm Hc2.
  destruct (reach_inv v m pre k c Hv Hc) as (HD & _ & _ & HE & _).
  pose proof (inv_E_healthy c HE Hh) as Herr.
  unfold enabled in Hen. rewrite Hc in Hen.
  destruct (cstep v (disc_req (reach pre)) c LDiscUpdate) as [c'|] eqn:Hs; [|discriminate].
  destruct (step_on v (reach pre) k c LDiscUpdate c' Hv Hc Hs) as (Hk' & Hdr').
  replace (pre ++ On k LDiscUpdate :: post) with ((pre ++ [On k LDiscUpdate]) ++ post) in Hc2
    by (rewrite <- app_assoc; reflexivity).
  rewrite run_app in Hc2. rewrite run_app in Hc2. cbn [run fold_left] in Hc2.
  set (s2 := step v (reach pre) (On k LDiscUpdate)) in *.
  assert (Hsafe : safe v (disc_req s2) c').
  { rewrite Hdr'. clear Hc2. step_cases Hs.
    destruct HE as (_ & E2 & E3).
    assert (Hka : ka_safe v (disc_req (reach pre)) c = true).
    { unfold healthy in Hh. apply andb_true_iff in Hh as [_ Hq]. unfold ka_quiet in Hq. unfold ka_safe.
      destruct (c_ka c) eqn:Ek; try discriminate; try reflexivity.
      - destruct Hm as [Hm|(-> & ->)]; [rewrite Hm; reflexivity|cbn; apply orb_true_r].
      - destruct Hm as [Hm|(-> & ->)]; [apply E3 in Hm; discriminate|reflexivity].
      - rewrite (E2 e eq_refl Hq). apply orb_true_r. }
    unfold safe. upd c SDisconnected; cbn; repeat split; auto. }
  assert (HA : AllK k (safe v) (run v s2 post)).
  { apply (AllK_run v k (fun _ => True) (safe v) Hv).
    - intros dr c0 l c0' Hi _ H. eapply safe_pres; eassumption.
    - apply safe_mono.
    - apply Forall_restr_True.
    - left. apply nth_error_Some. rewrite Hk'. discriminate.
    - intros x Hx. rewrite Hk' in Hx. injection Hx as <-. exact Hsafe. }
  destruct (HA c2 Hc2) as (S1 & S2 & _). split; assumption.
Qed.

(* Done() is closed exactly when the reader's exit path has finished; then the transport is
   closed and the end has been reported (Closed, or Disconnected if Disconnect came first) *)
Theorem done_iff_ended sched k c :
  nth_error (cls (reach sched)) k = Some c ->
  (c_done c = true <-> c_serve c = SvFinished) /\
  (c_done c = true -> c_tclosed c = true /\
     (1 <= count_state SClosed (c_log c) \/ 1 <= count_state SDisconnected (c_log c))%nat) /\
  (serve_alive c = true -> c_done c = false).
Proof.
  intros Hc. destruct (reach_inv v m sched k c Hv Hc) as (_ & _ & _ & _ & (F1 & F2 & F3)).
  split; [exact F1|]. split.
  - intros Hd. apply F1 in Hd. split; [apply F2|apply F3]; unfold serve_closed, serve_pre; rewrite Hd; reflexivity.
  - intros Ha. destruct (c_done c) eqn:Ed; [|reflexivity]. destruct F1 as [F1a _]. specialize (F1a eq_refl). unfold serve_alive in Ha. rewrite F1a in Ha. discriminate.
Qed.

(* ... and once serve() has returned, its exit path is never blocked: its four steps are
   enabled one after the other and close Done() *)
Theorem exit_path_closes_done sched k c e :
  nth_error (cls (reach sched)) k = Some c -> c_serve c = SvReturned e ->
  exists c4, nth_error (cls (reach (sched ++ [On k LExitClose; On k LExitStore; On k LExitUpdate; On k LExitDone]))) k = Some c4 /\
             c_done c4 = true.
Proof.
  intros Hc Hs. rewrite run_app. set (s := reach sched) in *.
  assert (S1 : cstep v (disc_req s) c LExitClose = Some (set_serve (set_tclosed c true) (SvClosedT e)))
    by (cbn; rewrite Hs; reflexivity).
  destruct (step_on v s k c _ _ Hv Hc S1) as (K1 & R1).
  set (s1 := step v s (On k LExitClose)) in *. set (c1 := set_serve (set_tclosed c true) (SvClosedT e)) in *.
  destruct (cstep v (disc_req s1) c1 LExitStore) as [c2|] eqn:S2; [|cbn in S2; discriminate].
  assert (Hc2 : c_serve c2 = SvStored) by (cbn in S2; injection S2 as <-; reflexivity).
  destruct (step_on v s1 k c1 _ _ Hv K1 S2) as (K2 & R2).
  set (s2 := step v s1 (On k LExitStore)) in *.
  assert (S3 : cstep v (disc_req s2) c2 LExitUpdate = Some (set_serve (update c2 SClosed) SvUpdated))
    by (cbn; rewrite Hc2; reflexivity).
  destruct (step_on v s2 k c2 _ _ Hv K2 S3) as (K3 & R3).
  set (s3 := step v s2 (On k LExitUpdate)) in *. set (c3 := set_serve (update c2 SClosed) SvUpdated) in *.
  assert (S4 : cstep v (disc_req s3) c3 LExitDone = Some (set_serve (set_done c3 true) SvFinished))
    by reflexivity.
  destruct (step_on v s3 k c3 _ _ Hv K3 S4) as (K4 & R4).
  exists (set_serve (set_done c3 true) SvFinished). split; [exact K4|reflexivity].
Qed.

End C16.

(* ---------- what the earlier versions of the keep-alive goroutine got wrong (the model can
   express both defects), and concrete witnesses (non-vacuity) ---------- *)

(* F8 / fix 525edac: connection 0 is cut while idle, the loop cancels its keep-alive and
   establishes connection 1; the stale keep-alive goroutine of connection 0 then returns
   "context canceled" and stores it on the CURRENT client *)
Definition sched_stale_ka : list slabel :=
  sched_connect 0 ++ [On 0 LKAStart; On 0 (LServeFail EEOF)] ++ sched_exit 0 ++ [On 0 LCtxCancel; SDial] ++
  sched_connect 1 ++ [On 1 LKAStart; On 0 (LKAFail ECtxCanceled); On 0 LKACheck; On 0 LKASet; On 0 LKAClose].

Lemma stale_ka_old_refuted :
  let s := run VOld (init_sys true) sched_stale_ka in
  all_enabled VOld (init_sys true) sched_stale_ka = true /\
  healthy (client_at s 1) = true /\ c_err (client_at s 1) = Some ECtxCanceled.
Proof. vm_compute. repeat split. Qed.

Lemma stale_ka_cur_ok :
  let s := run VCur (init_sys true) sched_stale_ka in
  healthy (client_at s 1) = true /\ c_err (client_at s 1) = None /\ c_log (client_at s 1) = [(SActive, None)] /\
  c_log (client_at s 0) = [(SActive, None); (SClosed, Some EEOF)] /\ c_err (client_at s 0) = Some EEOF.
Proof. vm_compute. repeat split. Qed.

(* F16 / fix 15562c2: ReconnectClient.Disconnect on a healthy connection while a PINGREQ is
   in flight: the ping fails because of the Disconnect before the loop cancelled the
   keep-alive context, and the failure is stored *)
Definition sched_graceful_pre : list slabel := sched_connect 0 ++ [On 0 LKAStart; SDiscRequest].
Definition sched_graceful_post : list slabel :=
  [On 0 (LDiscWrite true); On 0 LDiscClose; On 0 (LServeFail ELocalClosed)] ++ sched_exit 0 ++
  [On 0 (LKAFail EClosedTransport); On 0 LKACheck; On 0 LKASet; On 0 LKAClose; On 0 LCtxCancel].

Lemma graceful_inflight_mid_refuted :
  let pre := run VMid (init_sys true) sched_graceful_pre in
  let s := run VMid (init_sys true) (sched_graceful_pre ++ On 0 LDiscUpdate :: sched_graceful_post) in
  all_enabled VMid (init_sys true) (sched_graceful_pre ++ On 0 LDiscUpdate :: sched_graceful_post) = true /\
  healthy (client_at pre 0) = true /\ disc_req pre = true /\
  c_err (client_at s 0) = Some EClosedTransport /\
  c_log (client_at s 0) = [(SActive, None); (SDisconnected, None)].
Proof. vm_compute. repeat split. Qed.

(* the same schedule on the current tree satisfies the hypotheses of
   err_nil_after_graceful_disconnect (non-vacuity) and ends with Err() = nil *)
Lemma graceful_inflight_cur_ok :
  let pre := run VCur (init_sys true) sched_graceful_pre in
  let s := run VCur (init_sys true) (sched_graceful_pre ++ On 0 LDiscUpdate :: sched_graceful_post) in
  healthy (client_at pre 0) = true /\ enabled VCur pre (On 0 LDiscUpdate) = true /\ disc_req pre = true /\
  c_err (client_at s 0) = None /\ c_done (client_at s 0) = true /\
  c_log (client_at s 0) = [(SActive, None); (SDisconnected, None)].
Proof. vm_compute. repeat split. Qed.

(* a plain ending: peer closes an active connection (witness for closed_once_with_error) *)
Definition sched_peer_close : list slabel := sched_connect 0 ++ [On 0 (LServeFail EEOF)] ++ sched_exit 0.
Lemma peer_close_example :
  let c := client_at (run VCur (init_sys false) sched_peer_close) 0 in
  all_enabled VCur (init_sys false) sched_peer_close = true /\
  c_done c = true /\ c_disc c = DNotStarted /\ c_err c = Some EEOF /\
  c_log c = [(SActive, None); (SClosed, Some EEOF)].
Proof. vm_compute. repeat split. Qed.

(* refused CONNACK, then the caller closes (what the reconnect loop does): no Active, Closed
   with the read error (witness for active_only_after_accept) *)
Definition sched_refused : list slabel :=
  [On 0 LConnStart; On 0 (LConnWrite true); On 0 (LPeerConnAck 5); On 0 LConnSeeAck; On 0 LLocalClose;
   On 0 (LServeFail ELocalClosed)] ++ sched_exit 0.
Lemma refused_example :
  let c := client_at (run VCur (init_sys true) sched_refused) 0 in
  all_enabled VCur (init_sys true) sched_refused = true /\
  Forall (fun sl => is_label 0 is_accept sl = false) sched_refused /\
  c_conn c = CReturned (RRefused 5) /\ c_log c = [(SClosed, Some ELocalClosed)] /\ c_done c = true.
Proof. vm_compute. repeat split. repeat constructor. Qed.

(* NOT guaranteed (observation, reproduced on the implementation): the order Active-before-
   Closed. The peer accepts and closes at once; Connect's select (connect.go:150) sees both
   connClosed and the CONNACK ready and may take the CONNACK: Active is reported after Closed
   and the final state is Active on a dead connection. Err() and Done() are still right. *)
Definition sched_active_after_closed : list slabel :=
  [On 0 LConnStart; On 0 (LConnWrite true); On 0 (LPeerConnAck 0); On 0 (LServeFail EEOF)] ++ sched_exit 0 ++
  [On 0 LConnSeeAck; On 0 LConnActive].
Lemma active_after_closed_possible :
  let c := client_at (run VCur (init_sys false) sched_active_after_closed) 0 in
  all_enabled VCur (init_sys false) sched_active_after_closed = true /\
  c_log c = [(SClosed, Some EEOF); (SActive, Some EEOF)] /\ c_state c = SActive /\
  c_err c = Some EEOF /\ c_done c = true /\ c_conn c = CReturned ROk.
Proof. vm_compute. repeat split. Qed.

(* NOT guaranteed either: Disconnect whose state update falls between "error stored" and
   "update Closed" of the exit path (connect.go:129/130): the connection had already failed,
   Closed is never reported, Disconnected carries the error and Err() is non-nil. The
   hypothesis "healthy" of err_nil_after_graceful_disconnect excludes it. *)
Definition sched_disc_in_exit_window : list slabel :=
  sched_connect 0 ++ [On 0 (LServeFail EEOF); On 0 LExitClose; On 0 LExitStore; On 0 LDiscUpdate; On 0 LExitUpdate; On 0 LExitDone].
Lemma disconnect_in_exit_window :
  let c := client_at (run VCur (init_sys false) sched_disc_in_exit_window) 0 in
  all_enabled VCur (init_sys false) sched_disc_in_exit_window = true /\
  c_log c = [(SActive, None); (SDisconnected, Some EEOF)] /\ c_err c = Some EEOF /\ c_done c = true.
Proof. vm_compute. repeat split. Qed.

(* a CONNACK packet yields the accepting label exactly when it is well formed (header flags 0,
   two bytes) and its return code byte is 0 - whatever the acknowledge-flags byte is *)
Lemma connack_label_accept_iff hflag contents :
  is_accept (connack_label hflag contents) = true <-> hflag = 0 /\ exists f, contents = [f; 0].
Proof.
  unfold connack_label, connack_parse. split.
  - destruct (hflag =? 0) eqn:E; cbn; [|discriminate].
    apply N.eqb_eq in E. destruct contents as [|f [|code [|x r]]]; cbn; try discriminate.
    destruct code; cbn; [|discriminate]. intros _. split; [exact E|exists f; reflexivity].
  - intros (-> & f & ->). reflexivity.
Qed.

(* every return code byte other than 0 refuses: the step of Connect that takes the CONNACK
   returns RRefused code, for all 255 values (non-vacuity / the finite sweep, by computation) *)
Lemma every_nonzero_code_refuses :
  forallb (fun code =>
    let s := run VCur (init_sys false) [On 0 LConnStart; On 0 (LConnWrite true); On 0 (connack_label 0 [1; code]); On 0 LConnSeeAck; On 0 LConnActive] in
    match c_conn (client_at s 0) with CReturned (RRefused x) => (x =? code) | _ => false end &&
    Nat.eqb (length (c_log (client_at s 0))) 0)
    (map N.of_nat (seq 1 255)) = true.
Proof. vm_compute. reflexivity. Qed.
