(* CheckC16.v — executable comparison for C16.
   A case is what the harness did to and saw from the real client, as ONE totally ordered
   list of items (the harness orders everything with gates):
     IStep sl      a model label the harness realised (or inferred from what it observed,
                   for the choices the library makes at random) on connection k
     IT k t        a ground-truth event / an observation on connection k
   M_* : the model (ConnState.v, variant VCur) run over the IStep items reproduces every
         observation (Err(), Done() at every sample, Connect's / Disconnect's result, the
         whole callback log), and every label was enabled.
   V_* : the property, evaluated directly on the observed timeline of each connection,
         without the model. *)
From MQ Require Import Base ConnState.
Open Scope N_scope.

Inductive tev :=
| TCallConnect | TCallDisconnect | TCallClose        (* the user calls Connect / Disconnect / Close *)
| TPeerAck (flags code : N)                           (* the peer sent a well-formed CONNACK: acknowledge-flags byte, return code byte *)
| TConnSP (sp : bool)                                 (* the session-present value a successful Connect returned *)
| TPeerEnd (e : errc)                                 (* the peer closed / sent a malformed packet *)
| TKATimeout                                          (* the peer stops answering PINGREQ *)
| TDiscClose                                          (* Disconnect is let through to Transport.Close *)
| TDiscRet (closed : bool)                            (* Disconnect returned (closed: without error) *)
| TConnRet (r : conn_result)                          (* Connect returned *)
| TCb (st : cstate) (err : option errc)               (* the ConnState callback was entered *)
| TCbRet (st : cstate)                                (* ... and returned *)
| TSample (err : option errc) (done : bool)           (* Err(), Done() polled *)
| TLook (err : option errc) (done : bool)             (* the same, looked at from inside the ConnState handler *)
| TStuck                                              (* a wait of the harness expired: the library did not do what had to happen next
                                                         (Done() not closed although the connection ended, Disconnect/Connect/Done() did not return) *)
| TDoneSeen                                           (* a goroutine blocked on Done() woke up *)
| TEnd.                                               (* every gate released, everything settled *)

Inductive item := IStep (sl : slabel) | IT (k : nat) (t : tev).

Definition c16_case := (bool * list item)%type.

Definition opt_errc_eqb := option_eqb errc_eqb.

Definition conn_result_eqb (a b : conn_result) : bool :=
  match a, b with
  | ROk, ROk | RWriteErr, RWriteErr | RClosedTransport, RClosedTransport | RCtx, RCtx => true
  | RRefused x, RRefused y => x =? y
  | _, _ => false
  end.

Definition entry_eqb (a b : cstate * option errc) : bool :=
  cstate_eqb (fst a) (fst b) && opt_errc_eqb (snd a) (snd b).

(* ---------- M: model vs implementation ---------- *)
Fixpoint m_walk (s : sys) (its : list item) : bool * sys :=
  match its with
  | [] => (true, s)
  | IStep sl :: r =>
      if enabled VCur s sl then m_walk (step VCur s sl) r else (false, s)
  | IT k t :: r =>
      let c := client_at s k in
      let ok :=
        match t with
        | TSample e d => opt_errc_eqb e (c_err c) && Bool.eqb d (c_done c)
        | TConnRet res => match c_conn c with CReturned x => conn_result_eqb x res | _ => false end
        | TDiscRet cl => match c_disc c with DReturned x => Bool.eqb x cl | _ => false end
        | _ => true
        end in
      if ok then m_walk s r else (false, s)
  end.

Fixpoint cb_log (k : nat) (its : list item) : list (cstate * option errc) :=
  match its with
  | [] => []
  | IT j (TCb st e) :: r => if Nat.eqb j k then (st, e) :: cb_log k r else cb_log k r
  | _ :: r => cb_log k r
  end.

Fixpoint logs_agree (s : sys) (its : list item) (k n : nat) : bool :=
  match n with
  | O => true
  | S n' => list_eqb entry_eqb (cb_log k its) (c_log (client_at s k)) && logs_agree s its (S k) n'
  end.

Fixpoint max_client (its : list item) : nat :=
  match its with
  | [] => O
  | IT k _ :: r => Nat.max (S k) (max_client r)
  | IStep (On k _) :: r => Nat.max (S k) (max_client r)
  | _ :: r => max_client r
  end.

Definition c16_model_ok (c : c16_case) : bool :=
  let '(m, its) := c in
  let '(ok, s) := m_walk (init_sys m) its in
  ok && logs_agree s its 0 (Nat.max (max_client its) (length (cls s))).

(* ---------- V: the property on the observed timeline of one connection ---------- *)
Fixpoint tl (k : nat) (its : list item) : list tev :=
  match its with
  | [] => []
  | IT j t :: r => if Nat.eqb j k then t :: tl k r else tl k r
  | _ :: r => tl k r
  end.

Definition is_cause (t : tev) : bool :=
  match t with TPeerEnd _ | TCallClose | TKATimeout => true | _ => false end.

(* what has happened so far on the timeline *)
Record vst := mkV {
  v_connect : bool;        (* Connect was called *)
  v_accept : bool;         (* an accepting CONNACK was sent *)
  v_caused : bool;         (* an ending cause has occurred *)
  v_disc : bool;           (* Disconnect was called *)
  v_graceful : bool;       (* ... while no ending cause had occurred *)
  v_dclose : bool;         (* Disconnect reached Transport.Close *)
  v_nactive : nat; v_nclosed : nat; v_ndisc : nat;
  v_closed_err : option (option errc);   (* the error passed with Closed *)
  v_open_closed : bool;    (* inside the Closed callback *)
  v_ret_closed : bool;     (* the Closed callback has returned *)
  v_ended : bool;          (* TEnd seen *)
  v_last : option (option errc * bool);  (* last sample *)
  v_sp : option bool       (* session present of the first CONNACK (the one Connect can receive) *)
}.

Definition v0 : vst := mkV false false false false false false 0 0 0 None false false false None None.

(* one event: (new state, ok) *)
Definition v_step (s : vst) (t : tev) : vst * bool :=
  let '(mkV cn ac ca di gr dc na nc nd ce oc rc en la sp) := s in
  let nil_required := negb ca || gr in      (* healthy so far, or gracefully disconnected *)
  match t with
  | TCallConnect => (mkV true ac ca di gr dc na nc nd ce oc rc en la sp, true)
  | TCallDisconnect => (mkV cn ac ca true (gr || negb ca) dc na nc nd ce oc rc en la sp, true)
  | TCallClose | TPeerEnd _ | TKATimeout => (mkV cn ac true di gr dc na nc nd ce oc rc en la sp, true)
  | TPeerAck flags code =>
      (mkV cn (ac || (code =? 0)) ca di gr dc na nc nd ce oc rc en la
           (match sp with None => Some (N.odd flags) | Some _ => sp end), true)
  | TConnSP b => (s, match sp with Some x => Bool.eqb x b | None => false end)
  | TDiscClose => (mkV cn ac ca di gr true na nc nd ce oc rc en la sp, true)
  | TDiscRet _ | TConnRet _ => (s, true)
  | TCb st e =>
      let after_disc := Nat.ltb 0 nd in                       (* nothing is reported after Disconnected *)
      let err_ok := if nil_required then opt_errc_eqb e None else true in
      match st with
      | SNew => (s, false)                                    (* New is never reported *)
      | SActive =>
          (mkV cn ac ca di gr dc (S na) nc nd ce oc rc en la sp,
           ac && Nat.eqb na 0 && negb after_disc && err_ok)
      | SClosed =>
          (mkV cn ac ca di gr dc na (S nc) nd (Some e) true rc en la sp,
           Nat.eqb nc 0 && negb after_disc && negb gr && (ca || dc) &&
           match e with Some _ => true | None => false end)
      | SDisconnected =>
          (mkV cn ac ca di gr dc na nc (S nd) ce oc rc en la sp,
           di && Nat.eqb nd 0 && err_ok)
      end
  | TCbRet st =>
      match st with
      | SClosed => (mkV cn ac ca di gr dc na nc nd ce false true en la sp, true)
      | _ => (s, true)
      end
  | TSample e d =>
      let err_ok := (if nil_required then opt_errc_eqb e None else true) &&
                    (* Err() is the error reported with Closed *)
                    match ce with Some x => opt_errc_eqb e x | None => true end &&
                    (* ... and once non-nil it never changes (also not by a later SetErrorOnce) *)
                    match la with Some (Some e0, _) => opt_errc_eqb e (Some e0) | _ => true end in
      let done_ok := if d then cn && (ca || dc) && negb oc && (rc || Nat.ltb 0 nd) else true in
      let end_ok :=
        if en then
          (* settled: Done() is closed iff the connection has ended; without Disconnect the
             end was reported by exactly one Closed; Disconnect was reported exactly once *)
          Bool.eqb d (cn && (ca || dc)) &&
          (if d && negb di then Nat.eqb nc 1 else true) &&
          (if di then Nat.eqb nd 1 else Nat.eqb nd 0)
        else true in
      (mkV cn ac ca di gr dc na nc nd ce oc rc en (Some (e, d)) sp, err_ok && done_ok && end_ok)
  | TLook e d =>
      (* inside a handler: the Closed callback may be the open one, so only "not before the end" *)
      let err_ok := (if nil_required then opt_errc_eqb e None else true) &&
                    match ce with Some x => opt_errc_eqb e x | None => true end in
      let done_ok := if d then cn && (ca || dc) && (rc || Nat.ltb 0 nd) else true in
      (s, err_ok && done_ok)
  | TStuck => (s, false)
  | TDoneSeen =>
      (s, cn && (ca || dc) && negb oc && (rc || Nat.ltb 0 nd))
  | TEnd => (mkV cn ac ca di gr dc na nc nd ce oc rc true la sp, true)
  end.

Fixpoint v_walk (s : vst) (ts : list tev) : bool :=
  match ts with
  | [] => true
  | t :: r => let '(s', ok) := v_step s t in ok && v_walk s' r
  end.

Fixpoint v_all (its : list item) (k n : nat) : bool :=
  match n with
  | O => true
  | S n' => v_walk v0 (tl k its) && v_all its (S k) n'
  end.

Definition c16_prop_ok (c : c16_case) : bool :=
  let '(_, its) := c in v_all its 0 (max_client its).

Definition c16_model_mismatches (cs : list c16_case) : list nat := indices_where (fun c => negb (c16_model_ok c)) cs.
Definition c16_violations (cs : list c16_case) : list nat := indices_where (fun c => negb (c16_prop_ok c)) cs.

(* sanity: the model's own example runs, written as timelines, pass both checks *)
Definition c16_demo_case : c16_case :=
  (false,
   [IT 0 TCallConnect; IStep (On 0 LConnStart); IT 0 (TSample None false);
    IStep (On 0 (LConnWrite true)); IT 0 (TPeerAck 1 0); IStep (On 0 (connack_label 0 [1; 0]));
    IStep (On 0 LConnSeeAck); IStep (On 0 LConnActive); IT 0 (TCb SActive None); IT 0 (TCbRet SActive);
    IT 0 (TConnRet ROk); IT 0 (TConnSP true); IT 0 (TSample None false);
    IT 0 (TPeerEnd EEOF); IStep (On 0 (LServeFail EEOF));
    IStep (On 0 LExitClose); IStep (On 0 LExitStore); IStep (On 0 LExitUpdate);
    IT 0 (TCb SClosed (Some EEOF)); IT 0 (TSample (Some EEOF) false); IT 0 (TCbRet SClosed);
    IStep (On 0 LExitDone); IT 0 TDoneSeen; IT 0 TEnd; IT 0 (TSample (Some EEOF) true)]).

Example c16_demo_ok : c16_model_ok c16_demo_case = true /\ c16_prop_ok c16_demo_case = true.
Proof. vm_compute. split; reflexivity. Qed.
